import JF.Num.Ops
import JF.Model.Time
import JF.Props.C14
