import JF.Num.Ops
