import JF.Driver.Med
def main : IO Unit := JF.Driver.runComp JF.Driver.medComp
