import JF.Driver.Pot
def main : IO Unit := JF.Driver.runComp JF.Driver.potComp
