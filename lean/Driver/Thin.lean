import JF.Driver.Thin
def main : IO Unit := JF.Driver.runComp JF.Driver.thinComp
