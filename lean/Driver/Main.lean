import JF.Driver.Time
import JF.Driver.Num
open JF.Driver

def components : List (String × Comp) := [
  ("time", timeComp),
  ("num", numComp)
]

partial def loop (h : IO.FS.Stream) (out : IO.FS.Stream) (c : Comp) (s : c.σ) : IO Unit := do
  let line ← h.getLine
  if line.isEmpty then return ()
  let args := (line.trimAscii.toString.splitOn " ").filter (· ≠ "")
  let (s', r) := c.step s args
  out.putStrLn r
  loop h out c s'

def main : IO Unit := do
  let stdin ← IO.getStdin
  let stdout ← IO.getStdout
  let first ← stdin.getLine
  match components.lookup first.trimAscii.toString with
  | some c => loop stdin stdout c c.init
  | none => stdout.putStrLn "bad-component"
