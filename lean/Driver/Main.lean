import JF.Driver.Time
import JF.Driver.Num
import JF.Driver.Pbc
import JF.Driver.Cells
import JF.Driver.Heap
import JF.Driver.Lift
import JF.Driver.Walker
import JF.Driver.Store
import JF.Driver.Occ
import JF.Driver.Factor
import JF.Driver.Act
import JF.Driver.Pot
import JF.Driver.Thin
import JF.Driver.Sys
import JF.Driver.MP
import JF.Driver.Deriv
open JF.Driver

def components : List (String × Comp) := [
  ("time", timeComp), ("num", numComp), ("pbc", pbcComp), ("cells", cellsComp), ("heap", heapComp),
  ("lift", liftComp), ("walker", walkerComp), ("store", storeComp), ("occ", occComp),
  ("factor", factorComp), ("act", actComp), ("pot", potComp), ("thin", thinComp), ("sys", sysComp),
  ("mp", mpComp), ("deriv", derivComp)
]

partial def loop (h : IO.FS.Stream) (out : IO.FS.Stream) (c : Comp) (s : c.σ) : IO Unit := do
  let line ← h.getLine
  if line.isEmpty then return ()
  let args := (line.trimAscii.toString.splitOn " ").filter (· ≠ "")
  let (s', r) := c.step s args
  out.putStrLn r
  loop h out c s'

def main : IO Unit := do
  let stdin ← IO.getStdin
  let stdout ← IO.getStdout
  let first ← stdin.getLine
  match components.lookup first.trimAscii.toString with
  | some c => loop stdin stdout c c.init
  | none => stdout.putStrLn "bad-component"
