import JF.Driver.Occ
def main : IO Unit := JF.Driver.runComp JF.Driver.occComp
