import JF.Driver.Output
def main : IO Unit := JF.Driver.runComp JF.Driver.outputComp
