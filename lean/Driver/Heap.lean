import JF.Driver.Heap
def main : IO Unit := JF.Driver.runComp JF.Driver.heapComp
