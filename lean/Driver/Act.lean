import JF.Driver.Act
def main : IO Unit := JF.Driver.runComp JF.Driver.actComp
