import JF.Driver.Lift
def main : IO Unit := JF.Driver.runComp JF.Driver.liftComp
