import JF.Driver.Deriv
def main : IO Unit := JF.Driver.runComp JF.Driver.derivComp
