import JF.Driver.Cells
def main : IO Unit := JF.Driver.runComp JF.Driver.cellsComp
