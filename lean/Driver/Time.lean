import JF.Driver.Time
def main : IO Unit := JF.Driver.runComp JF.Driver.timeComp
