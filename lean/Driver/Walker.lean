import JF.Driver.Walker
def main : IO Unit := JF.Driver.runComp JF.Driver.walkerComp
