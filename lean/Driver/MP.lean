import JF.Driver.MP
def main : IO Unit := JF.Driver.runComp JF.Driver.mpComp
