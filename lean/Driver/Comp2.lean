import JF.Driver.Comp2
def main : IO Unit := JF.Driver.runComp JF.Driver.comp2Comp
