import JF.Driver.Store
def main : IO Unit := JF.Driver.runComp JF.Driver.storeComp
