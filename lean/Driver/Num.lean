import JF.Driver.Num
def main : IO Unit := JF.Driver.runComp JF.Driver.numComp
