import JF.Driver.Pbc
def main : IO Unit := JF.Driver.runComp JF.Driver.pbcComp
