import JF.Driver.Pcb
def main : IO Unit := JF.Driver.runComp JF.Driver.pcbComp
