import JF.Driver.Sys
def main : IO Unit := JF.Driver.runComp JF.Driver.sysComp
