import JF.Driver.Factor
def main : IO Unit := JF.Driver.runComp JF.Driver.factorComp
