import JF.Lemmas.C01GeneratorCircle
import Mathlib.MeasureTheory.Integral.Prod
import Mathlib.Analysis.Calculus.Deriv.Prod
import Mathlib.Analysis.Calculus.Deriv.Shift
import Mathlib.Analysis.Calculus.ContDiff.Basic
/-!
# Calculus on the two-torus for the two-variable instance of C01's generator statement

Plain Mathlib analysis: functions of the two positions `(x₁, x₂) ∈ ℝ × ℝ`, `C¹` and `L`-periodic in each variable; the
partial derivatives `d1`, `d2`; the iterated integral over one period in each variable `I2`; and **integration by parts
against the Boltzmann weight in either variable without boundary term** (`torus_ibp_d1`, `torus_ibp_d2`; the first one
swaps the order of integration — Fubini for a continuous function on a compact rectangle).
-/
namespace JF.C01Generator.Torus
open Real intervalIntegral MeasureTheory JF.C01Generator.Circle

/-- `C¹` on `ℝ²` and `L`-periodic in each variable -/
def Smooth2 (L : ℝ) (G : ℝ × ℝ → ℝ) : Prop :=
  ContDiff ℝ 1 G ∧ (∀ a b, G (a + L, b) = G (a, b)) ∧ (∀ a b, G (a, b + L) = G (a, b))

/-- `∂/∂x₁` -/
noncomputable def d1 (G : ℝ × ℝ → ℝ) : ℝ × ℝ → ℝ := fun p => deriv (fun a => G (a, p.2)) p.1
/-- `∂/∂x₂` -/
noncomputable def d2 (G : ℝ × ℝ → ℝ) : ℝ × ℝ → ℝ := fun p => deriv (fun b => G (p.1, b)) p.2

/-- the integral over the periodic box -/
noncomputable def I2 (L : ℝ) (G : ℝ × ℝ → ℝ) : ℝ := ∫ a in (0:ℝ)..L, ∫ b in (0:ℝ)..L, G (a, b)

theorem Smooth2.add {L : ℝ} {F G : ℝ × ℝ → ℝ} (hF : Smooth2 L F) (hG : Smooth2 L G) : Smooth2 L (F + G) :=
  ⟨hF.1.add hG.1, fun a b => by simp [hF.2.1 a b, hG.2.1 a b], fun a b => by simp [hF.2.2 a b, hG.2.2 a b]⟩

theorem Smooth2.zero (L : ℝ) : Smooth2 L (0 : ℝ × ℝ → ℝ) :=
  ⟨contDiff_const, fun _ _ => rfl, fun _ _ => rfl⟩

theorem Smooth2.smul {L : ℝ} (c : ℝ) {G : ℝ × ℝ → ℝ} (hG : Smooth2 L G) : Smooth2 L (c • G) :=
  ⟨hG.1.const_smul c, fun a b => by simp [hG.2.1 a b], fun a b => by simp [hG.2.2 a b]⟩

theorem Smooth2.continuous {L : ℝ} {G : ℝ × ℝ → ℝ} (hG : Smooth2 L G) : Continuous G := hG.1.continuous

/-- slices in the first variable are `C¹` periodic functions on the circle -/
theorem Smooth2.slice1 {L : ℝ} {G : ℝ × ℝ → ℝ} (hG : Smooth2 L G) (b : ℝ) : Smooth L (fun a => G (a, b)) :=
  ⟨hG.1.comp (contDiff_id.prodMk contDiff_const), fun a => hG.2.1 a b⟩

theorem Smooth2.slice2 {L : ℝ} {G : ℝ × ℝ → ℝ} (hG : Smooth2 L G) (a : ℝ) : Smooth L (fun b => G (a, b)) :=
  ⟨hG.1.comp (contDiff_const.prodMk contDiff_id), fun b => hG.2.2 a b⟩

theorem d1_eq_fderiv {L : ℝ} {G : ℝ × ℝ → ℝ} (hG : Smooth2 L G) (p : ℝ × ℝ) : d1 G p = fderiv ℝ G p (1, 0) := by
  have hG' : HasFDerivAt G (fderiv ℝ G p) ((fun a : ℝ => (a, p.2)) p.1) :=
    (hG.1.differentiable one_ne_zero p).hasFDerivAt
  have hc : HasDerivAt (fun a : ℝ => (a, p.2)) ((1 : ℝ), (0 : ℝ)) p.1 :=
    (hasDerivAt_id p.1).prodMk (hasDerivAt_const p.1 p.2)
  exact (hG'.comp_hasDerivAt p.1 hc).deriv

theorem d2_eq_fderiv {L : ℝ} {G : ℝ × ℝ → ℝ} (hG : Smooth2 L G) (p : ℝ × ℝ) : d2 G p = fderiv ℝ G p (0, 1) := by
  have hG' : HasFDerivAt G (fderiv ℝ G p) ((fun b : ℝ => (p.1, b)) p.2) :=
    (hG.1.differentiable one_ne_zero p).hasFDerivAt
  have hc : HasDerivAt (fun b : ℝ => (p.1, b)) ((0 : ℝ), (1 : ℝ)) p.2 :=
    (hasDerivAt_const p.2 p.1).prodMk (hasDerivAt_id p.2)
  exact (hG'.comp_hasDerivAt p.2 hc).deriv

theorem Smooth2.continuous_d1 {L : ℝ} {G : ℝ × ℝ → ℝ} (hG : Smooth2 L G) : Continuous (d1 G) := by
  have : d1 G = fun p => fderiv ℝ G p (1, 0) := funext (d1_eq_fderiv hG)
  rw [this]
  exact (hG.1.continuous_fderiv one_ne_zero).clm_apply continuous_const

theorem Smooth2.continuous_d2 {L : ℝ} {G : ℝ × ℝ → ℝ} (hG : Smooth2 L G) : Continuous (d2 G) := by
  have : d2 G = fun p => fderiv ℝ G p (0, 1) := funext (d2_eq_fderiv hG)
  rw [this]
  exact (hG.1.continuous_fderiv one_ne_zero).clm_apply continuous_const

theorem d1_add {L : ℝ} {F G : ℝ × ℝ → ℝ} (hF : Smooth2 L F) (hG : Smooth2 L G) : d1 (F + G) = d1 F + d1 G := by
  funext p
  exact congrFun (Smooth.deriv_add (hF.slice1 p.2) (hG.slice1 p.2)) p.1

theorem d2_add {L : ℝ} {F G : ℝ × ℝ → ℝ} (hF : Smooth2 L F) (hG : Smooth2 L G) : d2 (F + G) = d2 F + d2 G := by
  funext p
  exact congrFun (Smooth.deriv_add (hF.slice2 p.1) (hG.slice2 p.1)) p.2

theorem d1_smul {L : ℝ} (c : ℝ) {G : ℝ × ℝ → ℝ} (hG : Smooth2 L G) : d1 (c • G) = c • d1 G := by
  funext p
  exact congrFun (Smooth.deriv_smul c (hG.slice1 p.2)) p.1

theorem d2_smul {L : ℝ} (c : ℝ) {G : ℝ × ℝ → ℝ} (hG : Smooth2 L G) : d2 (c • G) = c • d2 G := by
  funext p
  exact congrFun (Smooth.deriv_smul c (hG.slice2 p.1)) p.2

/-! ### the iterated integral on continuous functions -/

theorem continuous_inner {G : ℝ × ℝ → ℝ} (hG : Continuous G) (L : ℝ) :
    Continuous fun a => ∫ b in (0:ℝ)..L, G (a, b) :=
  continuous_parametric_intervalIntegral_of_continuous' (f := fun a b => G (a, b))
    (by
      have : Function.uncurry (fun a b => G (a, b)) = G := by funext ⟨a, b⟩; rfl
      rw [this]; exact hG) 0 L

theorem continuous_inner' {G : ℝ × ℝ → ℝ} (hG : Continuous G) (L : ℝ) :
    Continuous fun b => ∫ a in (0:ℝ)..L, G (a, b) :=
  continuous_parametric_intervalIntegral_of_continuous' (f := fun b a => G (a, b))
    (by
      have : Function.uncurry (fun b a => G (a, b)) = G ∘ Prod.swap := by funext ⟨b, a⟩; rfl
      rw [this]; exact hG.comp continuous_swap) 0 L

theorem I2_add (L : ℝ) {F G : ℝ × ℝ → ℝ} (hF : Continuous F) (hG : Continuous G) :
    I2 L (F + G) = I2 L F + I2 L G := by
  unfold I2
  rw [← integral_add ((continuous_inner hF L).intervalIntegrable _ _) ((continuous_inner hG L).intervalIntegrable _ _)]
  apply integral_congr
  intro a _
  simp only [Pi.add_apply]
  exact integral_add
    (Continuous.intervalIntegrable (hF.comp (continuous_const.prodMk continuous_id)) _ _)
    (Continuous.intervalIntegrable (hG.comp (continuous_const.prodMk continuous_id)) _ _)

theorem I2_smul (L c : ℝ) (G : ℝ × ℝ → ℝ) : I2 L (c • G) = c * I2 L G := by
  unfold I2
  simp only [Pi.smul_apply, smul_eq_mul, intervalIntegral.integral_const_mul]

/-- Fubini for a continuous function on the periodic box -/
theorem I2_swap (L : ℝ) {G : ℝ × ℝ → ℝ} (hG : Continuous G) :
    I2 L G = ∫ b in (0:ℝ)..L, ∫ a in (0:ℝ)..L, G (a, b) := by
  unfold I2
  apply intervalIntegral_intervalIntegral_swap (F := fun a b => G (a, b))
  have hu : Function.uncurry (fun a b => G (a, b)) = G := by funext ⟨a, b⟩; rfl
  rw [hu]
  have hcomp : IsCompact (Set.uIcc (0:ℝ) L ×ˢ Set.uIcc (0:ℝ) L) := isCompact_uIcc.prod isCompact_uIcc
  exact (hG.continuousOn.integrableOn_compact hcomp).mono_set
    (Set.prod_mono Set.uIoc_subset_uIcc Set.uIoc_subset_uIcc)

/-! ### integration by parts on the torus against the Boltzmann weight -/

/-- in the second variable: inner integral, directly from the circle -/
theorem torus_ibp_d2 (L β : ℝ) {U g : ℝ × ℝ → ℝ} (hU : Smooth2 L U) (hg : Smooth2 L g) :
    I2 L (fun p => exp (-β * U p) * d2 g p) = β * I2 L (fun p => exp (-β * U p) * g p * d2 U p) := by
  unfold I2
  rw [← intervalIntegral.integral_const_mul]
  apply integral_congr
  intro a _
  exact periodic_boltzmann_ibp L β (hU.slice2 a) (hg.slice2 a)

/-- in the first variable: swap the order of integration, integrate by parts on the circle, swap back -/
theorem torus_ibp_d1 (L β : ℝ) {U g : ℝ × ℝ → ℝ} (hU : Smooth2 L U) (hg : Smooth2 L g) :
    I2 L (fun p => exp (-β * U p) * d1 g p) = β * I2 L (fun p => exp (-β * U p) * g p * d1 U p) := by
  have hcU := hU.continuous
  have hcg := hg.continuous
  have hcU1 := hU.continuous_d1
  have hcg1 := hg.continuous_d1
  have hc1 : Continuous fun p => exp (-β * U p) * d1 g p := by fun_prop
  have hc2 : Continuous fun p => exp (-β * U p) * g p * d1 U p := by fun_prop
  rw [I2_swap L hc1, I2_swap L hc2, ← intervalIntegral.integral_const_mul]
  apply integral_congr
  intro b _
  exact periodic_boltzmann_ibp L β (hU.slice1 b) (hg.slice1 b)

/-! ### a translation-invariant pair energy -/

/-- the pair energy `u(x₂ − x₁)` of a `C¹` periodic function `u` of the separation -/
def pairEnergy (u : ℝ → ℝ) : ℝ × ℝ → ℝ := fun p => u (p.2 - p.1)

theorem pairEnergy_smooth {L : ℝ} {u : ℝ → ℝ} (hu : Smooth L u) : Smooth2 L (pairEnergy u) := by
  refine ⟨hu.1.comp (contDiff_snd.sub contDiff_fst), fun a b => ?_, fun a b => ?_⟩
  · show u (b - (a + L)) = u (b - a)
    have := hu.2 (b - (a + L))
    rw [← this]; congr 1; ring
  · show u (b + L - a) = u (b - a)
    have := hu.2 (b - a)
    rw [← this]; congr 1; ring

theorem d1_pairEnergy (u : ℝ → ℝ) (p : ℝ × ℝ) : d1 (pairEnergy u) p = -deriv u (p.2 - p.1) := by
  show deriv (fun a => u (p.2 - a)) p.1 = _
  exact deriv_comp_const_sub ..

theorem d2_pairEnergy (u : ℝ → ℝ) (p : ℝ × ℝ) : d2 (pairEnergy u) p = deriv u (p.2 - p.1) := by
  show deriv (fun b => u (b - p.1)) p.2 = _
  exact deriv_comp_sub_const ..

end JF.C01Generator.Torus
