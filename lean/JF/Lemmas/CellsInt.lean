import JF.Model.Cells
import Mathlib.Tactic.Linarith
import Mathlib.Tactic.Ring
import Mathlib.Logic.Function.Iterate
/-!
Integer lemmas for the cell systems: mixed-radix index, identifier increment, windows.
-/
namespace JF.Cells

/-- `ident` is an identifier of the grid with `n` cells per side: same length, `0 ≤ ident[d] < n[d]` -/
def Valid : List Int → List Int → Prop
  | [], [] => True
  | n :: ns, i :: is => 0 ≤ i ∧ i < n ∧ Valid ns is
  | _, _ => False

/-- the list index of an identifier: `sum(ident[d] * cumulative_product[d])` -/
def flat (n ident : List Int) : Int := dot ident (cumProdFrom 1 n)

/-- mixed-radix digits of `k` (inverse of `flat`) -/
def unflat : List Int → Int → List Int
  | [], _ => []
  | n :: ns, k => k % n :: unflat ns (k / n)

theorem dot_nil_right (a : List Int) : dot a [] = 0 := by cases a <;> rfl

theorem dot_cumProd (ns : List Int) : ∀ (is : List Int) (acc : Int),
    dot is (cumProdFrom acc ns) = acc * dot is (cumProdFrom 1 ns) := by
  induction ns with
  | nil => intro is acc; simp [cumProdFrom, dot_nil_right]
  | cons n ns ih =>
    intro is acc
    cases is with
    | nil => simp [dot]
    | cons i is =>
      simp only [cumProdFrom, dot]
      rw [ih is (acc * n), ih is (1 * n)]; ring

theorem flat_cons (n : Int) (ns : List Int) (i : Int) (is : List Int) :
    flat (n :: ns) (i :: is) = i + n * flat ns is := by
  simp only [flat, cumProdFrom, dot]
  rw [dot_cumProd ns is (1 * n)]; ring

@[simp] theorem flat_nil : flat [] [] = 0 := rfl

theorem Valid.length_eq : ∀ {n ident : List Int}, Valid n ident → ident.length = n.length
  | [], [], _ => rfl
  | _ :: ns, _ :: is, h => by simp [Valid.length_eq (n := ns) (ident := is) h.2.2]
  | [], _ :: _, h => by simp [Valid] at h
  | _ :: _, [], h => by simp [Valid] at h

theorem Valid.pos : ∀ {n ident : List Int}, Valid n ident → ∀ x ∈ n, 1 ≤ x
  | [], [], _ => by simp
  | n :: ns, i :: is, h => by
    intro x hx
    rcases List.mem_cons.mp hx with rfl | hx
    · have := h.1; have := h.2.1; omega
    · exact Valid.pos (n := ns) (ident := is) h.2.2 x hx
  | [], _ :: _, h => by simp [Valid] at h
  | _ :: _, [], h => by simp [Valid] at h

theorem numberOfCells_pos : ∀ {n : List Int}, (∀ x ∈ n, 1 ≤ x) → 1 ≤ numberOfCells n
  | [], _ => by simp [numberOfCells]
  | n :: ns, h => by
    have h1 : 1 ≤ n := h n (by simp)
    have h2 := numberOfCells_pos (n := ns) (fun x hx => h x (by simp [hx]))
    simp only [numberOfCells]; nlinarith

theorem flat_bounds : ∀ {n ident : List Int}, Valid n ident → 0 ≤ flat n ident ∧ flat n ident < numberOfCells n
  | [], [], _ => by simp [numberOfCells]
  | n :: ns, i :: is, h => by
    obtain ⟨h0, h1, hv⟩ := h
    obtain ⟨f0, f1⟩ := flat_bounds hv
    rw [flat_cons]; simp only [numberOfCells]
    constructor
    · nlinarith
    · nlinarith
  | [], _ :: _, h => by simp [Valid] at h
  | _ :: _, [], h => by simp [Valid] at h

theorem flat_inj : ∀ {n a b : List Int}, Valid n a → Valid n b → flat n a = flat n b → a = b
  | [], [], [], _, _, _ => rfl
  | n :: ns, i :: is, j :: js, ha, hb, h => by
    obtain ⟨i0, i1, hva⟩ := ha
    obtain ⟨j0, j1, hvb⟩ := hb
    rw [flat_cons, flat_cons] at h
    have e1 : (i + n * flat ns is) % n = i := by
      rw [Int.add_mul_emod_self_left]; exact Int.emod_eq_of_lt i0 i1
    have e2 : (j + n * flat ns js) % n = j := by
      rw [Int.add_mul_emod_self_left]; exact Int.emod_eq_of_lt j0 j1
    have hij : i = j := by rw [← e1, ← e2, h]
    subst hij
    have hn : n ≠ 0 := by omega
    have : flat ns is = flat ns js := by
      have : n * flat ns is = n * flat ns js := by linarith
      exact Int.eq_of_mul_eq_mul_left hn this
    rw [flat_inj hva hvb this]
  | [], [], _ :: _, _, hb, _ => by simp [Valid] at hb
  | [], _ :: _, _, ha, _, _ => by simp [Valid] at ha
  | _ :: _, [], _, ha, _, _ => by simp [Valid] at ha
  | _ :: _, _ :: _, [], _, hb, _ => by simp [Valid] at hb

theorem unflat_valid : ∀ {n : List Int} {k : Int}, (∀ x ∈ n, 1 ≤ x) → 0 ≤ k → k < numberOfCells n →
    Valid n (unflat n k) ∧ flat n (unflat n k) = k
  | [], k, _, h0, h1 => by
    simp only [numberOfCells] at h1
    have : k = 0 := by omega
    simp [unflat, Valid, this]
  | n :: ns, k, hp, h0, h1 => by
    have hn : 1 ≤ n := hp n (by simp)
    simp only [numberOfCells] at h1
    have hq0 : 0 ≤ k / n := Int.ediv_nonneg h0 (by omega)
    have hq1 : k / n < numberOfCells ns := Int.ediv_lt_of_lt_mul (by omega) (by linarith [mul_comm n (numberOfCells ns)])
    obtain ⟨hv, hf⟩ := unflat_valid (n := ns) (k := k / n) (fun x hx => hp x (by simp [hx])) hq0 hq1
    refine ⟨⟨Int.emod_nonneg k (by omega), Int.emod_lt_of_pos k (by omega), hv⟩, ?_⟩
    simp only [unflat]; rw [flat_cons, hf]; exact Int.emod_add_mul_ediv k n

/-! ### the constructor's identifier update -/

theorem incr_spec : ∀ {n ident : List Int}, Valid n ident → flat n ident + 1 < numberOfCells n →
    Valid n (incr n ident) ∧ flat n (incr n ident) = flat n ident + 1
  | [], [], _, h => by simp [numberOfCells] at h
  | n :: ns, i :: is, hv, h => by
    obtain ⟨i0, i1, hv'⟩ := hv
    by_cases hlt : i + 1 < n
    · simp only [incr, hlt, if_true]
      refine ⟨⟨by omega, hlt, hv'⟩, ?_⟩
      rw [flat_cons, flat_cons]; ring
    · have hi : i = n - 1 := by omega
      cases is with
      | nil =>
        cases ns with
        | nil =>
          exfalso
          rw [flat_cons] at h; simp [numberOfCells] at h; omega
        | cons m ms => simp [Valid] at hv'
      | cons j js =>
        simp only [incr, hlt, if_false]
        rw [flat_cons] at h; simp only [numberOfCells] at h
        have hlt' : flat ns (j :: js) + 1 < numberOfCells ns := by
          have : n * (flat ns (j :: js) + 1) < n * numberOfCells ns := by rw [hi] at h; linarith
          exact lt_of_mul_lt_mul_left this (by omega)
        obtain ⟨hv2, hf2⟩ := incr_spec hv' hlt'
        refine ⟨⟨le_refl 0, by omega, hv2⟩, ?_⟩
        rw [flat_cons, flat_cons, hf2, hi]; ring
  | [], _ :: _, h, _ => by simp [Valid] at h
  | _ :: _, [], h, _ => by simp [Valid] at h

/-- the identifier after `j` loop iterations -/
theorem incr_iterate {n ident : List Int} (hv : Valid n ident) :
    ∀ j : Nat, flat n ident + j < numberOfCells n →
      Valid n ((incr n)^[j] ident) ∧ flat n ((incr n)^[j] ident) = flat n ident + j := by
  intro j
  induction j with
  | zero => intro _; simp [hv]
  | succ j ih =>
    intro h
    have h' : flat n ident + j < numberOfCells n := by push_cast at h; omega
    obtain ⟨v, f⟩ := ih h'
    rw [Function.iterate_succ_apply']
    have := incr_spec v (by rw [f]; push_cast at h; omega)
    refine ⟨this.1, ?_⟩
    rw [this.2, f]; push_cast; ring

theorem valid_replicate_zero : ∀ {n : List Int}, (∀ x ∈ n, 1 ≤ x) → Valid n (List.replicate n.length 0)
  | [], _ => by simp [Valid]
  | n :: ns, h => by
    have := h n (by simp)
    exact ⟨le_refl 0, by omega, valid_replicate_zero (fun x hx => h x (by simp [hx]))⟩

theorem flat_replicate_zero : ∀ (n : List Int), flat n (List.replicate n.length 0) = 0
  | [] => rfl
  | n :: ns => by
    show flat (n :: ns) (0 :: List.replicate ns.length 0) = 0
    rw [flat_cons, flat_replicate_zero ns]; ring

end JF.Cells
