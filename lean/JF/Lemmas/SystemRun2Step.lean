import JF.Model.SystemRun2
import JF.Lemmas.SystemRun2Motion
import JF.Lemmas.SystemRunInv
import JF.Props.Footprints2
/-!
The composed system for the concrete world of composite objects without cells (E16) — definitions of its runs and of the joint
invariant, and the pieces of the induction step.  The theorems for the reader are in `JF/Props/SystemInv2.lean`.

One leg (`SysStep2`) = one pass through the body of `SingleProcessMediator.run`, i.e. `JF.Med.leg` (E1, spec-level scheduler over
`XTime`) on the concrete global state of E10 (`JF.CW2`: `List (CObj ℚ)`, NO ghost mode):
* the taggers yield on the current global state: `o.yields T = yieldCls env T (class of T) s.cs` — COMPUTED, not oracle values;
* the candidate times are normalised finite times or `inf`, not before the last commit (`CandsOK2`: "not before the leg that
  computed them"), nothing else is assumed about them;
* the committed handler's event moves the global state by `Composite.step` of an event of a kind that the HANDLER CLASS of the
  committing tagger commits (`kindsOf`, E13's kind map) *in the mode read off the activation flags when its candidate time was
  requested* (`Sys2.cmode`, a function of the activator states of the run: `cmodeNext`), at the committed time, under C12's weak
  admissibility `AdmW`; the start-of-run event gives the velocity to the point masses `initial_active_identifier` names
  (`StartMode … mw.startMode`).  So E13's `hkind` is how the step relation is defined.
-/
namespace JF.Sys2
open JF JF.Act JF.Heap JF.Sched JF.Med JF.CW2 JF.C14 JF.MediatorLoop JF.Sys JF.Composite JF.C12

theorem flagsOf_eq (s : Act) : flagsOf s = absOf s := rfl
theorem modeAt_eq (mw : ModeWiring) (s : Act) : modeAt mw s = mw.mode (absOf s) := rfl

section defs
variable (env : Env ℚ) (mw : ModeWiring) (S : TaggerIdx) (needs : HandlerId → Bool)

/-- side conditions of a committed event: C12's WEAK admissibility (`JF.C12.AdmW`: only what the caller chooses and the code checks
by indexing), and for the start-of-run event the START MODE: the leaves that start are one point mass / all point masses of the
object, as the handler class `start leaf` of the start-of-run tagger (read from `initial_active_identifier` by the translator) says -/
def EvAdm2 (cs : List (CObj ℚ)) (e : Composite.Ev ℚ) : Prop :=
  AdmW env.d env.L cs e ∧ ∀ i P v, e = .start i P v → StartMode cs i P (ofW mw.startMode)

/-- the commit of an event of a handler of tagger `E` whose candidate time was requested in mode `cmE`, at time `t` -/
def Commits2 (E : TaggerIdx) (cmE : WMode) (t : Time ℚ) (cs cs' : List (CObj ℚ)) : Prop :=
  ∃ e : Composite.Ev ℚ, evKind e ∈ kindsOf (mw.hmode E) cmE ∧ evTime Ops.rat e = t ∧ EvAdm2 env mw cs e ∧
    cs' = step Ops.rat isZ env.L cs e

/-- what `send_event_time` of the handlers handed out in this leg returns: a normalised finite time or `inf`, not before the
last commit -/
def CandsOK2 (last : XTime) (o : Oracle XTime) (created : List (HandlerId × IdTuple)) : Prop :=
  ∀ q ∈ created, NormX (o.cand q.1) ∧ xcfg.lt (o.cand q.1) last = false

/-- one leg of the composed system -/
structure SysStep2 (s : Sys2) (o : Oracle XTime) (cm : Committed XTime) (s' : Sys2) : Prop where
  yields : o.yields = fun T => yieldCls env T (mw.w.tagger T).cls s.cs
  leg : leg (mwire mw.w S needs) (specI xcfg) s.med o = .ok (s'.med, cm)
  cands : CandsOK2 s.med.sched.last o cm.created
  ev : ∃ t E', cm.time = .fin t ∧ owner mw.w.wires cm.handler = some E' ∧ Commits2 env mw E' (s'.cmode E') t s.cs s'.cs
  ids' : s'.ids = assign s.ids cm.created
  prev : s'.csPrev = s.cs
  mid' : s'.mid = midAct (mwire mw.w S needs) s.med o
  cmode' : s'.cmode = cmodeNext mw s.med.preceding s.cmode s'.mid

/-- the state before the first leg: every composite object is consistent with its point masses (C12's `AllGood`, e.g. the random
node creators: `JF.C12.dipole_initial_good`), has `number_of_nodes_per_root_node` point masses, and nothing moves -/
structure Init2 (s : Sys2) : Prop where
  med : s.med = MedState.init (specI xcfg) mw.w.wires
  good : AllGood env.d env.L s.cs
  unif : Uniform env.nPer s.cs
  rest : AllRest s.cs
  prev : s.csPrev = s.cs
  cmode : s.cmode = fun _ => mw.startMode

/-- the runs of the composed system: any number of legs; no leg after the end-of-run commit -/
inductive Reach2 : List (Oracle XTime) → List (Committed XTime) → Sys2 → Prop
  | init (s : Sys2) (h : Init2 env mw s) : Reach2 [] [] s
  | step {os : List (Oracle XTime)} {cs : List (Committed XTime)} {s s' : Sys2} {o : Oracle XTime} {cm : Committed XTime}
      (prev : Reach2 os cs s) (hgo : ∀ cl, cs.getLast? = some cl → cl.stop = false)
      (hstep : SysStep2 env mw S needs s o cm s') : Reach2 (os ++ [o]) (cs ++ [cm]) s'

/-- the standing hypotheses on the configuration: a box, and the three decidable side conditions on the wiring -/
structure Hyp2 : Prop where
  hL : BoxOK env.d env.L
  sound : WiringSound mw.w = true
  hS : mw.w.start? = some S
  sup : Supported2 mw = true
  ms : ModeSound mw = true

/-- **the joint invariant** at the boundary after the leg that committed `cl` (the last element of `cs`): `E` = tagger of the
committed handler, `tl` = committed time, `sq` = squared speed of the chain. -/
structure Big2 (cs : List (Committed XTime)) (cl : Committed XTime) (s : Sys2) (E : TaggerIdx) (tl : Time ℚ) (sq : ℚ) : Prop where
  /-- E1: the scheduler holds exactly the pending events, a handler has one iff it is running -/
  med : MInv (I := specI xcfg) (mwire mw.w S needs) (SRel xcfg) s.med (pendOf (fun _ => none) cs) cl.time
  started : s.med.act.started = true
  prec : s.med.preceding = some cl.handler
  owner : owner mw.w.wires cl.handler = some E
  stopEq : cl.stop = (mwire mw.w S needs).endOfRun cl.handler
  /-- the activator after the trash of the last leg, in terms of its lists in the middle of that leg -/
  trashEq : s.med.act.ts = (trash mw.w.wires s.mid E).1
  running : cl.handler ∈ (getT s.mid E).running
  time : cl.time = .fin tl
  tnorm : Normalised tl
  /-- every pending candidate time is a normalised finite time or `inf` -/
  norm : ∀ h t, pendOf (fun _ => none) cs h = some t → NormX t
  /-- C09 + E13 (via the run `RunK` of the activator-level machine up to the middle of the last leg, which carries `Fresh` for every
  live tagger — `JF.Act.run_inv` — and the mode discipline — `JF.Act.modeStep_of_modeSound`), on the concrete state of that moment
  WITH THE MODE OF THE ACTIVATION FLAGS as its mode component: the state satisfies E10's invariant `Inv` in that mode, and every step
  of the run is a transition of `Tr2`, mode premise included -/
  phase : ∃ hi : Inv env ⟨s.csPrev, ofW (mw.mode (absOf s.mid))⟩,
    (cs.length = 1 ∧ E = S ∧ AllRest s.csPrev ∧ s.cmode = (fun _ => mw.startMode) ∧ ∃ ids0 out,
        first mw.w.wires (initAct mw.w.wires) S (fun T => (world2 env mw).yieldOf T ⟨_, hi⟩) = some (s.mid, out) ∧
        s.ids = assign ids0 out)
    ∨ ∃ h, RunK mw (world2 env mw) (Tr2 env mw) S h s.cmode ⟨s.mid, s.ids, ⟨_, hi⟩⟩
  /-- C08 (via the run of C08's machine `Reach8` up to the middle of the last leg, with the concrete motion relation `motion2`) -/
  cur : ∃ (hi : Inv env ⟨s.csPrev, ofW (mw.mode (absOf s.mid))⟩) (born : HandlerId → G env),
    C08.Reach8 mw.w.wires (world2 env mw) (motion2 env mw) S ⟨⟨s.mid, s.ids, ⟨_, hi⟩⟩, born⟩
  /-- how the global state came from the one the last leg's candidates were computed on -/
  commit : Commits2 env mw E (s.cmode E) tl s.csPrev s.cs
  /-- C12 for the state after the commit -/
  good : AllGood env.d env.L s.cs
  unif : Uniform env.nPer s.cs
  /-- C07's one-chain clause for the state after the commit, in the mode the activation flags will show in the middle of the next leg -/
  chain : ∃ m, OneChainM s.cs sq m ∧ (cl.stop = false → m = ofW (mw.mode (aStep mw.w (absOf s.mid) E)))

end defs

/-! ### reading the decidable side conditions -/

/-- abstract effect of trash + update on the activation flags (`absOf_commit` without a world) -/
theorem absOf_update (c : Wiring) {s s' : Act} {E : TaggerIdx} {ys : TaggerIdx → List IdTuple}
    {out : List (HandlerId × IdTuple)} (h : update c.wires (trash c.wires s E).1 E ys = some (s', out)) :
    absOf s' = aStep c (absOf s) E := by
  let W : World Unit := ⟨fun T _ => ys T, fun _ x => x, fun _ => True⟩
  have : commit c.wires W ⟨s, fun _ => none, ()⟩ E () = some ⟨s', assign (fun _ => none) out, ()⟩ := by
    unfold commit
    show (match update c.wires (trash c.wires s E).1 E ys with
      | none => none
      | some r => some (⟨r.1, assign (fun _ => none) r.2, ()⟩ : RS Unit)) = _
    rw [h]
  exact absOf_commit c this

/-- the activation flags after the first activator call -/
theorem absOf_first (c : Wiring) {S : TaggerIdx} {s0 : Act} {ys : TaggerIdx → List IdTuple} {out : List (HandlerId × IdTuple)}
    (h : first c.wires (initAct c.wires) S ys = some (s0, out)) : absOf s0 = aStep c (List.replicate c.n true) S := by
  unfold first at h
  rw [absOf_eq_of (createLoop_length h) (createLoop_activated h), absOf_applyActivation, absOf_initAct, c.wires_length]

theorem supported2_hmOK {mw : ModeWiring} (hs : Supported2 mw = true) {E : TaggerIdx} (hE : E < mw.w.n) :
    hmOK (mw.hmode E) = true := by
  unfold Supported2 at hs
  simp only [Bool.and_eq_true] at hs
  have := List.all_eq_true.mp hs.2 E (List.mem_range.mpr hE)
  simp only [Bool.and_eq_true] at this
  exact this.1

/-- a tagger whose commits do not change any unit's motion according to the table has, in this world, a handler class that commits
only `keep` -/
theorem keep_of_not_moves {mw : ModeWiring} (hs : Supported2 mw = true) {E : TaggerIdx}
    (ha : affects (mw.w.tagger E) .motion = false) {k : EvKind} {cm : WMode} (hk : k ∈ kindsOf (mw.hmode E) cm) : k = .keep := by
  by_cases hE : E < mw.w.n
  · have hag := supported2_agree hs hE
    have hok := supported2_hmOK hs hE
    revert ha hag hok hk
    unfold affects
    cases (mw.w.tagger E).kind <;> cases mw.hmode E <;> simp [kindAgrees, kindsOf, hmOK]
  · have : mw.w.taggers.length ≤ E := Nat.le_of_not_lt hE
    simp [affects, Wiring.tagger, List.getElem?_eq_none this] at ha

/-- the end-of-run tagger's handler class commits only `keep` -/
theorem keep_of_endOfRun {mw : ModeWiring} (hs : Supported2 mw = true) {E : TaggerIdx}
    (he : (mw.w.tagger E).kind = .endOfRun) {k : EvKind} {cm : WMode} (hk : k ∈ kindsOf (mw.hmode E) cm) : k = .keep :=
  keep_of_not_moves hs (by simp [affects, he]) hk

theorem mode_startState {mw : ModeWiring} {S : TaggerIdx} (hms : ModeSound mw = true) (hS : mw.w.start? = some S) :
    mw.mode (startState mw.w S) = mw.startMode := by
  obtain ⟨m₀, hsm, _, hstart, _⟩ := modeFacts_of_modeSound hms hS
  unfold ModeWiring.mode
  rw [hsm, hstart]

/-- the handler class of the start-of-run tagger is `start _` -/
theorem start_hmode {mw : ModeWiring} {S : TaggerIdx} (hms : ModeSound mw = true) (hS : mw.w.start? = some S) :
    ∃ b, mw.hmode S = .start b := by
  unfold ModeSound at hms
  rw [hS] at hms
  simp only [] at hms
  cases hm : mw.hmode S <;> rw [hm] at hms <;> simp [startModeOf] at hms
  exact ⟨_, rfl⟩

theorem evKind_start {e : Composite.Ev ℚ} (h : evKind e = .start) : ∃ i P v, e = .start i P v := by
  cases e <;> simp [evKind] at h
  exact ⟨_, _, _, rfl⟩

theorem evKind_keep {e : Composite.Ev ℚ} (h : evKind e = .keep) : ∃ t S, e = .keep t S := by
  cases e <;> simp [evKind] at h
  exact ⟨_, _, rfl⟩

section step
variable {env : Env ℚ} {mw : ModeWiring} {S : TaggerIdx} {needs : HandlerId → Bool}

theorem hyp2_static (H : Hyp2 env mw S) : Med.Static (mwire mw.w S needs) :=
  static_of_wiringSound mw.w S needs H.sound H.hS

theorem hyp2_fps (H : Hyp2 env mw S) : FootprintsSound mw.w (world2 env mw) (Tr2 env mw) :=
  Footprints2.footprintsSound_concrete2 env H.hL mw H.sup

/-- in a state of a run: the tagger of a pending handler is in range, live, activated, and may commit -/
theorem can_commit2 (H : Hyp2 env mw S) {rs : RS (G env)} (inv : RunInv mw.w (world2 env mw) S rs) {E : TaggerIdx}
    (hE : (getT rs.act E).running ≠ []) (hend : (mw.w.tagger E).kind ≠ .endOfRun) :
    E < mw.w.n ∧ (mw.w.tagger E).kind ≠ .startOfRun ∧ canCommit mw.w (absOf rs.act) E = true := by
  obtain ⟨hSn, hSk, hSu⟩ := start_spec H.hS
  have hEn : E < mw.w.n := by
    rcases Nat.lt_or_ge E mw.w.n with h | h
    · exact h
    · exfalso; apply hE
      rw [getT_of_le _ _ (by rw [inv.pool.1, mw.w.wires_length]; exact h)]; rfl
  have hEk : (mw.w.tagger E).kind ≠ .startOfRun := by
    intro hk
    have := hSu E hEn hk
    subst this
    exact hE inv.startIdle
  have hEl : (world2 env mw).live E := ⟨hEn, hEk⟩
  have hEa : aGet (absOf rs.act) E = true := by
    rw [aGet_absOf]
    cases ha : (getT rs.act E).activated
    · exact absurd (fresh_nil_of_deactivated (inv.fresh E hEl) ha) hE
    · rfl
  refine ⟨hEn, hEk, ?_⟩
  unfold canCommit
  simp only [hEa, Bool.true_and, Bool.and_eq_true, bne_iff_ne, ne_eq]
  exact ⟨hEk, hend⟩

/-- **THE MODE PREMISE OF `Tr2` IS A CONSEQUENCE.**  In a state of a run (with its history, `RunK`) of a mode-sound, sound,
supported wiring: an event of a kind that the handler class of a tagger `E` with a pending handler commits — in the mode at the
request of its candidate time — is possible in the mode READ OFF THE ACTIVATION FLAGS of the state, and leads to the mode read off
the flags after the commit (`aStep`). -/
theorem mode_step_of_run (H : Hyp2 env mw S) {h : List (TaggerIdx × EvKind)} {cm : TaggerIdx → WMode} {rs : RS (G env)}
    (r : RunK mw (world2 env mw) (Tr2 env mw) S h cm rs) {E : TaggerIdx} (hpend : (getT rs.act E).running ≠ [])
    (hend : (mw.w.tagger E).kind ≠ .endOfRun) {e : Composite.Ev ℚ} (hk : evKind e ∈ kindsOf (mw.hmode E) (cm E)) :
    modeStep (ofW (mw.mode (absOf rs.act))) e = some (ofW (mw.mode (aStep mw.w (absOf rs.act) E))) := by
  have minv := modeStep_of_modeSound mw (world2 env mw) (Tr2 env mw) S H.ms H.sound H.hS (hyp2_fps H) (liveIs2 env mw) r
  have ri := run_inv mw.w (world2 env mw) (Tr2 env mw) S H.sound H.hS (hyp2_fps H) (liveIs2 env mw) r.toRun
  obtain ⟨m₀, hsm, _, _, hcommitOK⟩ := modeFacts_of_modeSound H.ms H.hS
  have hmode : ∀ σ, mw.mode σ = modeOf mw m₀ σ := fun σ => by unfold ModeWiring.mode; rw [hsm]
  obtain ⟨hEn, _, hcan⟩ := can_commit2 H ri hpend hend
  obtain ⟨hk1, _⟩ := commitOK_spec (hcommitOK _ ri.reach E hEn hcan)
  have hcmE : kindsOf (mw.hmode E) (cm E) = kindsOf (mw.hmode E) (modeOf mw m₀ (absOf rs.act)) :=
    kindsOf_cm (fun hp => by rw [minv.poly E hp hpend, hmode])
  rw [modeStep_eq_kStep, toW_ofW, ← Footprints2.evKind_eq_kindOf, hmode, hk1 _ (hcmE ▸ hk), hmode]
  rfl

theorem endOfRun_of_stop {cl : Committed XTime} {E : TaggerIdx} (ho : owner mw.w.wires cl.handler = some E)
    (hst : cl.stop = (mwire mw.w S needs).endOfRun cl.handler) :
    cl.stop = ((mw.w.tagger E).kind == HandlerKind.endOfRun) := by
  rw [hst]
  show (match owner mw.w.wires cl.handler with
    | some E => (mw.w.tagger E).kind == HandlerKind.endOfRun
    | none => false) = _
  rw [ho]

theorem cmodeNext_some {mw : ModeWiring} {h : HandlerId} {E : TaggerIdx} (ho : owner mw.w.wires h = some E)
    (cm : TaggerIdx → WMode) (mid' : Act) :
    cmodeNext mw (some h) cm mid' = fun T => if T ∈ (mw.w.tagger E).creates then mw.mode (absOf mid') else cm T := by
  unfold cmodeNext
  simp only [Option.bind_some, ho]
  rfl

variable {cs : List (Committed XTime)} {cl : Committed XTime} {s : Sys2} {E : TaggerIdx} {tl : Time ℚ} {sq : ℚ}

/-- the activator-level machine of C09/E13 makes the step that this leg's `get_event_handlers_to_run` is: the state in the middle
of the leg — with the mode of its activation flags as mode component — satisfies E10's invariant, and is a state of a `RunK`
**for the transition relation `Tr2` of E10, mode premise included** -/
theorem mid_run2 (H : Hyp2 env mw S) (big : Big2 env mw S needs cs cl s E tl sq) (hgo : cl.stop = false)
    {o : Oracle XTime} {cm : Committed XTime} {s' : Sys2} (st : SysStep2 env mw S needs s o cm s') :
    absOf s'.mid = aStep mw.w (absOf s.mid) E ∧ OneChainM s.cs sq (ofW (mw.mode (absOf s'.mid))) ∧
    ∃ (hi' : Inv env ⟨s.cs, ofW (mw.mode (absOf s'.mid))⟩) (h : List (TaggerIdx × EvKind)),
      RunK mw (world2 env mw) (Tr2 env mw) S h s'.cmode ⟨s'.mid, s'.ids, ⟨_, hi'⟩⟩ := by
  obtain ⟨a1, s1, a2, s3, hrun, -⟩ := leg_ok st.leg
  have hmid : s'.mid = a1.ts := by rw [st.mid']; exact midAct_eq hrun
  rw [big.prec] at hrun
  have hupd : update mw.w.wires s.med.act.ts E o.yields = some (s'.mid, cm.created) := by
    rw [hmid]; exact getToRun_started big.started big.owner hrun
  have hupd' := hupd
  rw [big.trashEq] at hupd'
  have habs : absOf s'.mid = aStep mw.w (absOf s.mid) E := absOf_update mw.w hupd'
  obtain ⟨m, hch, hm⟩ := big.chain
  have hme := hm hgo
  subst hme
  rw [← habs] at hch
  have hi' : Inv env ⟨s.cs, ofW (mw.mode (absOf s'.mid))⟩ := ⟨big.good, big.unif, Or.inr ⟨sq, hch⟩⟩
  refine ⟨habs, hch, hi', ?_⟩
  have hy : (fun T => (world2 env mw).yieldOf T ⟨_, hi'⟩) = o.yields := by rw [st.yields]; rfl
  have hcommit : ∀ (ids : HandlerId → IdTuple) (g : G env),
      commit mw.w.wires (world2 env mw) ⟨s.mid, ids, g⟩ E ⟨_, hi'⟩ = some ⟨s'.mid, assign ids cm.created, ⟨_, hi'⟩⟩ := by
    intro ids g
    unfold commit
    simp only [hy]
    rw [← big.trashEq, hupd]
  have hcm : s'.cmode = fun T => if T ∈ (mw.w.tagger E).creates then mw.mode (absOf s'.mid) else s.cmode T := by
    rw [st.cmode', big.prec, cmodeNext_some big.owner]
  obtain ⟨hi, hph⟩ := big.phase
  rcases hph with ⟨_, hES, _, hcm0, ids0, out, hfirst, hids⟩ | ⟨h, hrunp⟩
  · subst hES
    have hc := hcommit (assign ids0 out) ⟨_, hi⟩
    rw [← hids, ← st.ids'] at hc
    rw [hids] at hc
    have r := RunK.start (mw := mw) (Tr := Tr2 env mw) ids0 ⟨_, hi⟩ ⟨_, hi'⟩ s.mid out _ hfirst hc
    have hst : mw.mode (absOf s'.mid) = mw.startMode := by
      rw [habs, absOf_first mw.w hfirst]; exact mode_startState H.ms H.hS
    have hcme : s'.cmode = fun _ => mw.mode (absOf s'.mid) := by
      rw [hcm, hcm0]
      funext T
      split
      · rfl
      · exact hst.symm
    rw [hcme]
    exact ⟨[], r⟩
  · have hpend : (getT s.mid E).running ≠ [] := List.ne_nil_of_mem big.running
    have hend : (mw.w.tagger E).kind ≠ .endOfRun := by
      have := endOfRun_of_stop big.owner big.stopEq
      rw [hgo] at this
      intro hk; rw [hk] at this; simp at this
    obtain ⟨e, hk, _, ⟨ha, _⟩, hcs⟩ := big.commit
    have hms := mode_step_of_run H hrunp hpend hend hk
    have htr : Tr2 env mw E ⟨_, hi⟩ ⟨_, hi'⟩ := by
      refine ⟨e, s.cmode E, hk, ?_, ha, hcs⟩
      show modeStep (ofW (mw.mode (absOf s.mid))) e = some (ofW (mw.mode (absOf s'.mid)))
      rw [habs]; exact hms
    have hc := hcommit s.ids ⟨_, hi⟩
    rw [← st.ids'] at hc
    have r := RunK.step (mw := mw) (W := world2 env mw) (Tr := Tr2 env mw) (S := S) h s.cmode ⟨s.mid, s.ids, ⟨_, hi⟩⟩
      ⟨s'.mid, s'.ids, ⟨_, hi'⟩⟩ E ⟨_, hi'⟩ (evKind e) hrunp hpend hend htr hc hk
    rw [hcm]
    exact ⟨_, r⟩

/-- C08's machine makes the step that this leg's `get_event_handlers_to_run` is: both hypotheses of `StepOK8` are discharged —
`quiet` by the composite machine (a `keep` leaves every unit on its trajectory: `same_sliceAt`), clause (h) by `WiringSound` through
the run of `JF.Act.Run` -/
theorem mid_cur2 (H : Hyp2 env mw S) (big : Big2 env mw S needs cs cl s E tl sq) (hgo : cl.stop = false)
    {o : Oracle XTime} {cm : Committed XTime} {s' : Sys2} (st : SysStep2 env mw S needs s o cm s')
    (hi' : Inv env ⟨s.cs, ofW (mw.mode (absOf s'.mid))⟩) :
    ∃ born' : HandlerId → G env,
      C08.Reach8 mw.w.wires (world2 env mw) (motion2 env mw) S ⟨⟨s'.mid, s'.ids, ⟨_, hi'⟩⟩, born'⟩ := by
  obtain ⟨hi, born, hr8⟩ := big.cur
  obtain ⟨a1, s1, a2, s3, hrun, -⟩ := leg_ok st.leg
  have hmid : s'.mid = a1.ts := by rw [st.mid']; exact midAct_eq hrun
  rw [big.prec] at hrun
  have hupd : update mw.w.wires s.med.act.ts E o.yields = some (s'.mid, cm.created) := by
    rw [hmid]; exact getToRun_started big.started big.owner hrun
  have hy : (fun T => (world2 env mw).yieldOf T ⟨_, hi'⟩) = o.yields := by rw [st.yields]; rfl
  have hcommit : C08.commit8 mw.w.wires (world2 env mw) ⟨⟨s.mid, s.ids, ⟨_, hi⟩⟩, born⟩ E ⟨_, hi'⟩ =
      some ⟨⟨s'.mid, s'.ids, ⟨_, hi'⟩⟩, fun h => if h ∈ cm.created.map Prod.fst then ⟨_, hi'⟩ else born h⟩ := by
    unfold C08.commit8
    simp only [hy]
    rw [← big.trashEq, hupd, st.ids']
  have hend : (mw.w.tagger E).kind ≠ .endOfRun := by
    have := endOfRun_of_stop big.owner big.stopEq
    rw [hgo] at this
    intro hk; rw [hk] at this; simp at this
  have ok : C08.StepOK8 mw.w.wires (motion2 env mw) ⟨⟨s.mid, s.ids, ⟨_, hi⟩⟩, born⟩ E ⟨_, hi'⟩ := by
    constructor
    · intro hnm u
      have hnm' : affects (mw.w.tagger E) .motion = false := by
        cases h : affects (mw.w.tagger E) .motion
        · rfl
        · exact absurd h hnm
      obtain ⟨e, hk, _, _, hcs⟩ := big.commit
      obtain ⟨t, S0, rfl⟩ := evKind_keep (keep_of_not_moves H.sup hnm' hk)
      show SameMotion2 env.d env.L s.csPrev s.cs u
      rw [hcs]
      exact same_sliceAt H.hL t S0 hi.1 u
    · intro hm T hb
      obtain ⟨hi0, hph⟩ := big.phase
      rcases hph with ⟨_, hES, _, _, ids0, out, hfirst, _⟩ | ⟨h, hrunp⟩
      · right
        subst hES
        obtain ⟨_, hSk, _⟩ := start_spec H.hS
        have hne : T ∉ [E] := by
          intro hTE
          have : T = E := by simpa using hTE
          subst this
          have := hb.2
          rw [motionBound, hSk] at this; simp at this
        unfold first at hfirst
        show (getT s.mid T).running = []
        rw [createLoop_frame hfirst hne, applyActivation_running, getT_initAct]
        split <;> rfl
      · exact Footprints2.clause_h_concrete2 env H.hL mw S H.sound H.hS H.sup hrunp.toRun (E := E)
          (List.ne_nil_of_mem big.running) hend hm hb.1 hb.2
  exact ⟨_, C08.Reach8.step _ _ E _ hr8 ok hcommit⟩

end step

end JF.Sys2
