import JF.Model.Store
import Mathlib.Tactic.Common
/-!
Helper lemmas for C13 (`JF/Props/C13.lean`): heap frame rules, freshness of the copies made by
`extract_from_global_state`, effect of `insert_into_global_state` on the identifier-indexed view.
-/
set_option linter.unusedSimpArgs false
namespace JF.Store
variable {α : Type}

/-! ### heap -/
namespace Heap

@[simp] theorem next_alloc (h : Heap α) (o : Obj α) : (h.alloc o).1.next = h.next + 1 := by
  simp [alloc, next]

@[simp] theorem alloc_ref (h : Heap α) (o : Obj α) : (h.alloc o).2 = h.next := rfl

theorem get?_alloc (h : Heap α) (o : Obj α) (r : Ref) :
    (h.alloc o).1.get? r = if r = h.next then some o else h.get? r := by
  simp only [alloc, get?, next, Array.getElem?_push]
  split <;> simp_all

theorem get?_alloc_old (h : Heap α) (o : Obj α) {r : Ref} (hr : r < h.next) :
    (h.alloc o).1.get? r = h.get? r := by
  rw [get?_alloc, if_neg (Nat.ne_of_lt hr)]

@[simp] theorem get?_alloc_new (h : Heap α) (o : Obj α) : (h.alloc o).1.get? h.next = some o := by
  rw [get?_alloc]; simp

@[simp] theorem next_write (h : Heap α) (r : Ref) (o : Obj α) : (h.write r o).next = h.next := by
  simp [write, next]

theorem get?_write_ne (h : Heap α) (o : Obj α) {r r' : Ref} (hne : r' ≠ r) :
    (h.write r o).get? r' = h.get? r' := by
  simp only [write, get?, Array.getElem?_setIfInBounds]
  rw [if_neg (fun hh => hne hh.symm)]

theorem get?_write_same (h : Heap α) (o : Obj α) {r : Ref} (hr : r < h.next) :
    (h.write r o).get? r = some o := by
  simp only [write, get?, Array.getElem?_setIfInBounds, next] at *
  simp [hr]

theorem get?_isSome (h : Heap α) (r : Ref) : (h.get? r).isSome ↔ r < h.next := by
  simp [get?, next]

theorem get?_eq_none (h : Heap α) {r : Ref} (hr : h.next ≤ r) : h.get? r = none := by
  simp only [get?, next] at *
  simp [hr]

end Heap

/-- `h'` extends `h`: more cells, the old ones untouched -/
def Ext (h h' : Heap α) : Prop := h.next ≤ h'.next ∧ ∀ r, r < h.next → h'.get? r = h.get? r

theorem Ext.refl (h : Heap α) : Ext h h := ⟨Nat.le_refl _, fun _ _ => rfl⟩
theorem Ext.trans {h1 h2 h3 : Heap α} (a : Ext h1 h2) (b : Ext h2 h3) : Ext h1 h3 :=
  ⟨Nat.le_trans a.1 b.1, fun r hr => by rw [b.2 r (Nat.lt_of_lt_of_le hr a.1), a.2 r hr]⟩
theorem Ext.alloc (h : Heap α) (o : Obj α) : Ext h (h.alloc o).1 :=
  ⟨by simp, fun _ hr => Heap.get?_alloc_old h o hr⟩
theorem Ext.copy (h : Heap α) (r : Ref) : Ext h (h.copy r).1 := Ext.alloc _ _

/-! ### references of units and branches -/

def CUnit.refs (u : CUnit α) : List Ref := u.pos :: (u.vel.toList ++ u.ts.toList)
def Branch.refs (b : Branch α) : List Ref := b.units.flatMap CUnit.refs

theorem readUnit_congr {h h' : Heap α} {u : CUnit α} (hf : ∀ r ∈ u.refs, h'.get? r = h.get? r) :
    readUnit h' u = readUnit h u := by
  obtain ⟨id, pos, ch, vel, ts, w⟩ := u
  simp only [CUnit.refs, List.mem_cons, List.mem_append, Option.mem_toList] at hf
  simp only [readUnit, UVal.mk.injEq, true_and, and_true]
  refine ⟨hf _ (Or.inl rfl), ?_, ?_⟩
  · cases vel with
    | none => rfl
    | some v => simp [hf v (Or.inr (Or.inl rfl))]
  · cases ts with
    | none => rfl
    | some t => simp [hf t (Or.inr (Or.inr rfl))]

theorem readBranch_congr {h h' : Heap α} {b : Branch α} (hf : ∀ r ∈ b.refs, h'.get? r = h.get? r) :
    readBranch h' b = readBranch h b := by
  simp only [readBranch]
  apply List.map_congr_left
  intro u hu
  apply readUnit_congr
  intro r hr
  exact hf r (by simp only [Branch.refs, List.mem_flatMap]; exact ⟨u, hu, hr⟩)

/-- the unit `extract_global_state` builds: references of the global state itself -/
def aliasUnit (l : Lifting) (n : PNode α) (id : Ident) : CUnit α :=
  ⟨id, n.pos, n.charge, (l.get id).1, (l.get id).2, n.weight⟩

theorem mkCNode_false (l : Lifting) (h : Heap α) (n : PNode α) (id : Ident) :
    mkCNode false l h n id = (h, aliasUnit l n id) := rfl

/-- all references of a unit are new objects of the step `h → h'`, pairwise different -/
def FreshRefs (h h' : Heap α) (rs : List Ref) : Prop :=
  rs.Nodup ∧ ∀ r ∈ rs, h.next ≤ r ∧ r < h'.next

theorem FreshRefs.append {h1 h2 h3 : Heap α} {a b : List Ref} (ha : FreshRefs h1 h2 a)
    (hb : FreshRefs h2 h3 b) (h12 : h1.next ≤ h2.next) (h23 : h2.next ≤ h3.next) :
    FreshRefs h1 h3 (a ++ b) := by
  refine ⟨?_, ?_⟩
  · rw [List.nodup_append]
    refine ⟨ha.1, hb.1, ?_⟩
    intro x hx y hy hxy
    have h1 := (ha.2 x hx).2; have h2 := (hb.2 y hy).1; subst hxy; exact Nat.lt_irrefl _ (Nat.lt_of_lt_of_le h1 h2)
  · intro r hr
    rcases List.mem_append.1 hr with hr | hr
    · have := ha.2 r hr; exact ⟨this.1, Nat.lt_of_lt_of_le this.2 h23⟩
    · have := hb.2 r hr; exact ⟨Nat.le_trans h12 this.1, this.2⟩

theorem map_get?_ext {h h' : Heap α} (e : Ext h h') (o : Option Ref) (ho : ∀ r ∈ o, r < h.next) :
    o.map h'.get? = o.map h.get? := by
  cases o with
  | none => rfl
  | some r => simp [e.2 r (ho r rfl)]

theorem copyOpt_spec (h : Heap α) (o : Option Ref) (ho : ∀ r ∈ o, r < h.next) :
    Ext h (h.copyOpt o).1 ∧ FreshRefs h (h.copyOpt o).1 (h.copyOpt o).2.toList ∧
    (h.copyOpt o).2.map (h.copyOpt o).1.get? = o.map h.get? := by
  cases o with
  | none => exact ⟨Ext.refl h, ⟨by simp [Heap.copyOpt], by simp [Heap.copyOpt]⟩, rfl⟩
  | some r =>
    have hr : r < h.next := ho r rfl
    have hs : (h.get? r).isSome := (Heap.get?_isSome h r).2 hr
    refine ⟨Ext.copy h r, ⟨by simp [Heap.copyOpt], ?_⟩, ?_⟩
    · simp [Heap.copyOpt, Heap.copy]
    · simp only [Heap.copyOpt, Heap.copy, Option.map_some, Heap.alloc_ref, Heap.get?_alloc_new]
      obtain ⟨o, ho⟩ := Option.isSome_iff_exists.1 hs
      simp [ho]

/-- `mkCNode` with `copy`: new, pairwise different objects holding the current values -/
theorem mkCNode_true_spec (l : Lifting) (h : Heap α) (n : PNode α) (id : Ident)
    (hv : ∀ r ∈ (aliasUnit l n id).refs, r < h.next) :
    let a := mkCNode true l h n id
    Ext h a.1 ∧ FreshRefs h a.1 a.2.refs ∧ readUnit a.1 a.2 = readUnit h (aliasUnit l n id) ∧ a.2.id = id := by
  simp only [aliasUnit, CUnit.refs, List.mem_cons, List.mem_append, Option.mem_toList] at hv
  have hp : n.pos < h.next := hv _ (Or.inl rfl)
  have hsome : (h.get? n.pos).isSome := (Heap.get?_isSome h _).2 hp
  obtain ⟨o, ho⟩ := Option.isSome_iff_exists.1 hsome
  set h1 := h.copy n.pos with h1def
  have e1 : Ext h h1.1 := Ext.copy _ _
  have hv2 : ∀ r ∈ (l.get id).1, r < h1.1.next := fun r hr =>
    Nat.lt_of_lt_of_le (hv r (Or.inr (Or.inl hr))) e1.1
  obtain ⟨e2, f2, v2⟩ := copyOpt_spec h1.1 (l.get id).1 hv2
  set h2 := h1.1.copyOpt (l.get id).1 with h2def
  have hv3 : ∀ r ∈ (l.get id).2, r < h2.1.next := fun r hr =>
    Nat.lt_of_lt_of_le (hv r (Or.inr (Or.inr hr))) (Nat.le_trans e1.1 e2.1)
  obtain ⟨e3, f3, v3⟩ := copyOpt_spec h2.1 (l.get id).2 hv3
  set h3 := h2.1.copyOpt (l.get id).2 with h3def
  have hmk : mkCNode true l h n id = (h3.1, ⟨id, h1.2, n.charge, h2.2, h3.2, n.weight⟩) := rfl
  simp only [hmk]
  have f1 : FreshRefs h h1.1 [h1.2] := by
    refine ⟨by simp, ?_⟩
    intro r hr
    simp only [List.mem_singleton] at hr
    subst hr
    simp [h1def, Heap.copy]
  refine ⟨e1.trans (e2.trans e3), ?_, ?_, trivial⟩
  · have := (f1.append f2 e1.1 e2.1).append f3 (Nat.le_trans e1.1 e2.1) e3.1
    simpa [CUnit.refs] using this
  · simp only [readUnit, aliasUnit, UVal.mk.injEq, true_and, and_true]
    refine ⟨?_, ?_, ?_⟩
    · have : h1.2 < h1.1.next := by simp [h1def, Heap.copy]
      rw [e3.2 _ (Nat.lt_of_lt_of_le this e2.1), e2.2 _ this]
      simp [h1def, Heap.copy, ho]
    · rw [← map_get?_ext e1 _ (fun r hr => hv r (Or.inr (Or.inl hr))), ← v2]
      exact map_get?_ext e3 _ (fun r hr => (f2.2 r (by simpa using hr)).2)
    · rw [v3]
      exact map_get?_ext (e1.trans e2) _ (fun r hr => hv r (Or.inr (Or.inr hr)))

/-- nodes whose references (position, and velocity / time stamp under any identifier) exist -/
def NodesOK (l : Lifting) (h : Heap α) (ns : List (PNode α)) : Prop :=
  ∀ n ∈ ns, ∀ id, ∀ r ∈ (aliasUnit l n id).refs, r < h.next

theorem NodesOK.ext {l : Lifting} {h h' : Heap α} {ns : List (PNode α)} (a : NodesOK l h ns)
    (e : Ext h h') : NodesOK l h' ns :=
  fun n hn id r hr => Nat.lt_of_lt_of_le (a n hn id r hr) e.1

theorem mkChildren_true_spec (l : Lifting) (r : Nat) (ns : List (PNode α)) :
    ∀ (h : Heap α) (i : Nat), NodesOK l h ns →
    let b := mkChildren true l r h ns i
    Ext h b.1 ∧ FreshRefs h b.1 (b.2.flatMap CUnit.refs) ∧ b.2.length = ns.length ∧
    ∀ k u, b.2[k]? = some u → ∃ n, ns[k]? = some n ∧
      readUnit b.1 u = readUnit h (aliasUnit l n [r, i + k]) ∧ u.id = [r, i + k] := by
  induction ns with
  | nil =>
    intro h i _
    exact ⟨Ext.refl h, ⟨by simp [mkChildren], by simp [mkChildren]⟩, rfl, by simp [mkChildren]⟩
  | cons n ns ih =>
    intro h i hok
    obtain ⟨e1, f1, v1, i1⟩ := mkCNode_true_spec l h n [r, i] (hok n (by simp) [r, i])
    set a := mkCNode true l h n [r, i] with adef
    have hok' : NodesOK l a.1 ns := fun m hm => (hok.ext e1) m (by simp [hm])
    obtain ⟨e2, f2, len2, v2⟩ := ih a.1 (i + 1) hok'
    set b := mkChildren true l r a.1 ns (i + 1) with bdef
    have hmk : mkChildren true l r h (n :: ns) i = (b.1, a.2 :: b.2) := rfl
    simp only [hmk]
    refine ⟨e1.trans e2, ?_, by simp [len2], ?_⟩
    · simpa using f1.append f2 e1.1 e2.1
    · intro k u hk
      cases k with
      | zero =>
        simp only [List.getElem?_cons_zero, Option.some.injEq] at hk
        subst hk
        refine ⟨n, rfl, ?_, i1⟩
        rw [Nat.add_zero, ← v1]
        exact readUnit_congr (fun x hx => e2.2 x (f1.2 x hx).2)
      | succ k =>
        simp only [List.getElem?_cons_succ] at hk
        obtain ⟨m, hm, hv, hid⟩ := v2 k u hk
        refine ⟨m, by simpa using hm, ?_, by rw [hid]; congr 2; omega⟩
        rw [hv, show i + (k + 1) = i + 1 + k by omega]
        exact readUnit_congr (fun x hx => e1.2 x (hok m (List.mem_cons_of_mem _ (List.mem_of_getElem? hm)) _ x hx))

/-! ### the identifier-indexed view of the global state -/

/-- the unit stored under `id` (references of the global state itself) -/
def unitAt (g : Global α) (id : Ident) : Option (CUnit α) :=
  match physGet g.roots id with
  | .ok n => some (aliasUnit g.lift n id)
  | .error _ => none

/-- the value of the global state at `id` -/
def readAt (g : Global α) (h : Heap α) (id : Ident) : Option (UVal α) := (unitAt g id).map (readUnit h)

/-- every object the global state refers to -/
def Global.refs (g : Global α) : List Ref :=
  g.roots.flatMap (fun R => R.node.pos :: R.children.map (·.pos)) ++ g.lift.dict.flatMap (fun e => [e.2.1, e.2.2])

theorem dictGet_mem {d : List (Ident × Ref × Ref)} {id : Ident} {x : Ref × Ref} (hx : dictGet d id = some x) :
    (id, x) ∈ d := by
  induction d with
  | nil => simp [dictGet] at hx
  | cons e d ih =>
    obtain ⟨k, y⟩ := e
    simp only [dictGet] at hx
    split at hx
    · simp_all
    · exact List.mem_cons_of_mem _ (ih hx)

theorem lift_get_refs {l : Lifting} {id : Ident} {r : Ref} (hr : r ∈ (l.get id).1 ∨ r ∈ (l.get id).2) :
    r ∈ l.dict.flatMap (fun e => [e.2.1, e.2.2]) := by
  simp only [Lifting.get] at hr
  cases hd : dictGet l.dict id with
  | none => simp [hd] at hr
  | some x =>
    obtain ⟨v, t⟩ := x
    simp only [hd, Option.mem_def, Option.some.injEq] at hr
    simp only [List.mem_flatMap]
    exact ⟨(id, v, t), dictGet_mem hd, by rcases hr with hr | hr <;> simp [← hr]⟩

theorem aliasUnit_refs_sub {g : Global α} {R : PRoot α} (hR : R ∈ g.roots) {n : PNode α}
    (hn : n = R.node ∨ n ∈ R.children) (id : Ident) : ∀ r ∈ (aliasUnit g.lift n id).refs, r ∈ g.refs := by
  intro r hr
  simp only [aliasUnit, CUnit.refs, List.mem_cons, List.mem_append, Option.mem_toList] at hr
  simp only [Global.refs, List.mem_append]
  rcases hr with hr | hr
  · left
    simp only [List.mem_flatMap]
    refine ⟨R, hR, ?_⟩
    rcases hn with hn | hn
    · simp [hr, hn]
    · simp only [List.mem_cons, List.mem_map]; exact Or.inr ⟨n, hn, hr.symm⟩
  · right; exact lift_get_refs hr

/-- the references of the global state exist -/
def GlobalOK (g : Global α) (h : Heap α) : Prop := ∀ r ∈ g.refs, r < h.next

theorem GlobalOK.nodes {g : Global α} {h : Heap α} (ok : GlobalOK g h) {R : PRoot α} (hR : R ∈ g.roots) :
    NodesOK g.lift h (R.node :: R.children) := by
  intro n hn id r hr
  exact ok r (aliasUnit_refs_sub hR (by simpa using hn) id r hr)

/-- identifiers of the branch of `id`: ancestors, the node, all descendants (preorder) -/
def branchIds (g : Global α) : Ident → List Ident
  | [r] => [r] :: (List.range ((g.roots[r]?.map (·.children.length)).getD 0)).map (fun i => [r, i])
  | [r, c] => [[r], [r, c]]
  | _ => []

theorem readAt_root {g : Global α} {h : Heap α} {r : Nat} {R : PRoot α} (hR : g.roots[r]? = some R) :
    readAt g h [r] = some (readUnit h (aliasUnit g.lift R.node [r])) := by
  simp [readAt, unitAt, physGet, hR]

theorem readAt_child {g : Global α} {h : Heap α} {r c : Nat} {R : PRoot α} {L : PNode α}
    (hR : g.roots[r]? = some R) (hL : R.children[c]? = some L) :
    readAt g h [r, c] = some (readUnit h (aliasUnit g.lift L [r, c])) := by
  simp [readAt, unitAt, physGet, hR, hL]

theorem extract_spec {g : Global α} {h : Heap α} {id : Ident} (ok : GlobalOK g h) {h' : Heap α} {b : Branch α}
    (he : extract g h id = .ok (h', b)) :
    Ext h h' ∧ FreshRefs h h' b.refs ∧ b.units.map (·.id) = branchIds g id ∧
    ∀ u ∈ b.units, some (readUnit h' u) = readAt g h u.id := by
  cases id with
  | nil => simp [extract] at he
  | cons r rest =>
    simp only [extract] at he
    cases hR : g.roots[r]? with
    | none => simp [hR] at he
    | some R =>
      simp only [hR] at he
      have memR : R ∈ g.roots := List.mem_of_getElem? hR
      have nok := ok.nodes memR
      obtain ⟨e1, f1, v1, i1⟩ := mkCNode_true_spec g.lift h R.node [r] (nok R.node (by simp) [r])
      set a := mkCNode true g.lift h R.node [r] with adef
      match rest, he with
      | [], he =>
        have cok : NodesOK g.lift a.1 R.children := fun m hm => (nok.ext e1) m (by simp [hm])
        obtain ⟨e2, f2, len2, v2⟩ := mkChildren_true_spec g.lift r R.children a.1 0 cok
        set c := mkChildren true g.lift r a.1 R.children 0 with cdef
        simp only [Except.ok.injEq, Prod.mk.injEq] at he
        obtain ⟨rfl, rfl⟩ := he
        refine ⟨e1.trans e2, ?_, ?_, ?_⟩
        · simpa [Branch.refs, Branch.units] using f1.append f2 e1.1 e2.1
        · simp only [Branch.units, List.map_cons, branchIds, hR, Option.map_some, Option.getD_some, i1,
            List.cons.injEq, true_and]
          apply List.ext_getElem?
          intro k
          simp only [List.getElem?_map]
          by_cases hk : k < R.children.length
          · have : k < c.2.length := by rw [len2]; exact hk
            obtain ⟨u, hu⟩ : ∃ u, c.2[k]? = some u := ⟨c.2[k], List.getElem?_eq_getElem this⟩
            obtain ⟨n, _, _, hid⟩ := v2 k u hu
            simp [hu, hid, List.getElem?_range hk]
          · have h1 : c.2[k]? = none := by apply List.getElem?_eq_none; rw [len2]; omega
            have h2 : (List.range R.children.length)[k]? = none := by
              apply List.getElem?_eq_none; simp; omega
            simp [h1, h2]
        · intro u hu
          simp only [Branch.units, List.mem_cons] at hu
          rcases hu with rfl | hu
          · rw [i1, readAt_root hR, ← v1]
            congr 1
            exact readUnit_congr (fun x hx => e2.2 x (f1.2 x hx).2)
          · obtain ⟨k, hk⟩ := List.getElem?_of_mem hu
            obtain ⟨n, hn, hv, hid⟩ := v2 k u hk
            rw [hid, Nat.zero_add, readAt_child hR hn, hv, Nat.zero_add]
            congr 1
            exact readUnit_congr (fun x hx => e1.2 x (nok n (List.mem_cons_of_mem _ (List.mem_of_getElem? hn)) _ x hx))
      | [c], he =>
        cases hL : R.children[c]? with
        | none => simp [hL] at he
        | some L =>
          simp only [hL] at he
          have lok := (nok.ext e1) L (List.mem_cons_of_mem _ (List.mem_of_getElem? hL)) [r, c]
          obtain ⟨e2, f2, v2, i2⟩ := mkCNode_true_spec g.lift a.1 L [r, c] lok
          set d := mkCNode true g.lift a.1 L [r, c] with ddef
          simp only [Except.ok.injEq, Prod.mk.injEq] at he
          obtain ⟨rfl, rfl⟩ := he
          refine ⟨e1.trans e2, ?_, ?_, ?_⟩
          · simpa [Branch.refs, Branch.units] using f1.append f2 e1.1 e2.1
          · simp [Branch.units, branchIds, i1, i2]
          · intro u hu
            simp only [Branch.units, List.mem_cons, List.not_mem_nil, or_false] at hu
            rcases hu with rfl | rfl
            · rw [i1, readAt_root hR, ← v1]
              congr 1
              exact readUnit_congr (fun x hx => e2.2 x (f1.2 x hx).2)
            · rw [i2, readAt_child hR hL, v2]
              congr 1
              exact readUnit_congr (fun x hx => e1.2 x (nok L (List.mem_cons_of_mem _ (List.mem_of_getElem? hL)) _ x hx))
      | _ :: _ :: _, he => simp at he

/-! ### `insert_into_global_state` on the identifier-indexed view -/

theorem dictGet_dictSet (d : List (Ident × Ref × Ref)) (id id' : Ident) (x : Ref × Ref) :
    dictGet (dictSet d id x) id' = if id' = id then some x else dictGet d id' := by
  induction d with
  | nil => simp only [dictSet, dictGet]; split <;> simp_all [eq_comm]
  | cons e d ih =>
    obtain ⟨k, y⟩ := e
    simp only [dictSet]
    by_cases hk : k = id
    · subst hk
      simp only [if_true, dictGet]
      by_cases h2 : k = id' <;> simp [h2, eq_comm]
      intro h3; exact absurd h3.symm h2
    · simp only [hk, if_false, dictGet, ih]
      by_cases h2 : k = id'
      · subst h2; simp [hk]
      · simp [h2]

theorem dictGet_dictDel (d : List (Ident × Ref × Ref)) (id id' : Ident) :
    dictGet (dictDel d id) id' = if id' = id then none else dictGet d id' := by
  induction d with
  | nil => simp [dictDel, dictGet]
  | cons e d ih =>
    obtain ⟨k, y⟩ := e
    simp only [dictDel] at ih
    simp only [dictDel, List.filter_cons]
    by_cases hk : k = id
    · subst hk
      simp only [ne_eq, not_true_eq_false, decide_false, Bool.false_eq_true, if_false, ih, dictGet]
      by_cases h2 : id' = k
      · simp [h2]
      · simp [h2, Ne.symm h2]
    · simp only [ne_eq, hk, not_false_eq_true, decide_true, if_true, dictGet, ih]
      by_cases h2 : k = id'
      · subst h2; simp [hk]
      · simp [h2]

theorem mem_dictSet {d : List (Ident × Ref × Ref)} {id : Ident} {x : Ref × Ref} {e : Ident × Ref × Ref}
    (he : e ∈ dictSet d id x) : e ∈ d ∨ e = (id, x) := by
  induction d with
  | nil => simp_all [dictSet]
  | cons a d ih =>
    obtain ⟨k, y⟩ := a
    simp only [dictSet] at he
    split at he
    · rename_i hk
      simp only [List.mem_cons] at he ⊢
      rcases he with he | he
      · right; rw [he, hk]
      · left; right; exact he
    · simp only [List.mem_cons] at he ⊢
      rcases he with he | he
      · left; left; exact he
      · rcases ih he with h | h
        · left; right; exact h
        · right; exact h

/-- outcome of a successful `TreeLiftingState.set` on `get` -/
theorem Lifting.get_set {l l' : Lifting} {id : Ident} {v t : Option Ref} (hs : l.set id v t = (l', none)) (id' : Ident) :
    l'.get id' = if id' = id then (v, t) else l.get id' := by
  have modD : ∀ {a b : Lifting} {n f}, a.modLifted n f = .ok b → b.dict = a.dict := by
    intro a b n f hm
    simp only [Lifting.modLifted] at hm
    split at hm
    · cases hm; rfl
    · split at hm
      · cases hm; rfl
      · cases hm
  cases v with
  | some v =>
    cases t with
    | none => simp [Lifting.set] at hs
    | some t =>
      simp only [Lifting.set] at hs
      split at hs
      · rename_i l2 hm
        simp only [Prod.mk.injEq, and_true] at hs
        subst hs
        simp only [Lifting.get, modD hm, dictGet_dictSet]
        by_cases he : id' = id <;> simp [he]
      · simp at hs
  | none =>
    cases t with
    | some t => simp [Lifting.set] at hs
    | none =>
      simp only [Lifting.set] at hs
      split at hs
      · split at hs
        · rename_i l2 hm
          simp only [Prod.mk.injEq, and_true] at hs
          subst hs
          simp only [Lifting.get, modD hm, dictGet_dictDel]
          by_cases he : id' = id <;> simp [he]
        · simp at hs
      · rename_i hnone
        simp only [Prod.mk.injEq, and_true] at hs
        subst hs
        split
        · rename_i he
          subst he
          simp only [Lifting.get]
          cases hd : dictGet l.dict id' with
          | none => rfl
          | some x => simp [hd] at hnone
        · rfl

theorem Lifting.set_dict_sub (l : Lifting) (id : Ident) (v t : Option Ref) :
    ∀ e ∈ (l.set id v t).1.dict, e ∈ l.dict ∨ (∃ a b, v = some a ∧ t = some b ∧ e = (id, a, b)) := by
  have modD : ∀ {a b : Lifting} {n f}, a.modLifted n f = .ok b → b.dict = a.dict := by
    intro a b n f hm
    simp only [Lifting.modLifted] at hm
    split at hm
    · cases hm; rfl
    · split at hm
      · cases hm; rfl
      · cases hm
  intro e he
  cases v with
  | some v =>
    cases t with
    | none => left; simpa [Lifting.set] using he
    | some t =>
      simp only [Lifting.set] at he
      have : e ∈ dictSet l.dict id (v, t) := by
        split at he
        · rename_i l2 hm; simpa [modD hm] using he
        · simpa using he
      rcases mem_dictSet this with h | h
      · left; exact h
      · right; exact ⟨v, t, rfl, rfl, h⟩
  | none =>
    left
    cases t with
    | some t => simpa [Lifting.set] using he
    | none =>
      simp only [Lifting.set] at he
      split at he
      · have : e ∈ dictDel l.dict id := by
          split at he
          · rename_i l2 hm; simpa [modD hm] using he
          · simpa using he
        exact (List.mem_filter.1 this).1
      · exact he

/-- `TreePhysicalState.get` after a successful `set` -/
theorem physGet_physSet {roots roots' : List (PRoot α)} {id : Ident} {p : Ref}
    (hs : physSet roots id p = .ok roots') (id' : Ident) :
    physGet roots' id' = if id' = id then (physGet roots id).map (fun n => { n with pos := p }) else physGet roots id' := by
  match id, hs with
  | [r], hs =>
    simp only [physSet] at hs
    cases hR : roots[r]? with
    | none => simp [hR] at hs
    | some R =>
      simp only [hR, Except.ok.injEq] at hs
      subst hs
      obtain ⟨hlt, hRe⟩ := List.getElem?_eq_some_iff.1 hR
      match id' with
      | [] => simp [physGet]
      | [r'] =>
        by_cases hr : r' = r
        · subst hr; simp [physGet, hR, hlt, Except.map, hRe]
        · simp [physGet, List.getElem?_set_ne (Ne.symm hr), hr]
      | [r', c'] =>
        by_cases hr : r' = r
        · subst hr; simp [physGet, hR, hlt, hRe]
        · simp [physGet, List.getElem?_set_ne (Ne.symm hr)]
      | _ :: _ :: _ :: _ => simp [physGet]
  | [r, c], hs =>
    simp only [physSet] at hs
    cases hR : roots[r]? with
    | none => simp [hR] at hs
    | some R =>
      simp only [hR] at hs
      cases hL : R.children[c]? with
      | none => simp [hL] at hs
      | some L =>
        simp only [hL, Except.ok.injEq] at hs
        subst hs
        obtain ⟨hlt, hRe⟩ := List.getElem?_eq_some_iff.1 hR
        obtain ⟨hlc, hLe⟩ := List.getElem?_eq_some_iff.1 hL
        match id' with
        | [] => simp [physGet]
        | [r'] =>
          by_cases hr : r' = r
          · subst hr; simp [physGet, hR, hlt, hRe]
          · simp [physGet, List.getElem?_set_ne (Ne.symm hr)]
        | [r', c'] =>
          by_cases hr : r' = r
          · subst hr
            by_cases hc : c' = c
            · subst hc; simp [physGet, hR, hL, hlt, hlc, Except.map, hRe, hLe]
            · simp [physGet, hR, hlt, List.getElem?_set_ne (Ne.symm hc), hc, hRe]
          · simp [physGet, List.getElem?_set_ne (Ne.symm hr), hr]
        | _ :: _ :: _ :: _ => simp [physGet]
  | [], hs => simp [physSet] at hs
  | _ :: _ :: _ :: _, hs => simp [physSet] at hs

/-- what is stored under the identifier of a committed unit: its references; charge and weight
are those of the node -/
def CUnit.over (u o : CUnit α) : CUnit α := ⟨u.id, u.pos, o.charge, u.vel, u.ts, o.weight⟩

theorem unitAt_insertUnit {g g' : Global α} {u : CUnit α} (hs : insertUnit g u = (g', none)) (id' : Ident) :
    unitAt g' id' = if id' = u.id then (unitAt g u.id).map u.over else unitAt g id' := by
  simp only [insertUnit] at hs
  cases hp : physSet g.roots u.id u.pos with
  | error e => simp [hp] at hs
  | ok roots =>
    simp only [hp, Prod.mk.injEq] at hs
    obtain ⟨rfl, h2⟩ := hs
    have hl : g.lift.set u.id u.vel u.ts = ((g.lift.set u.id u.vel u.ts).1, none) := by rw [← h2]
    simp only [unitAt, physGet_physSet hp id']
    by_cases he : id' = u.id
    · simp only [he, if_true]
      cases hg : physGet g.roots u.id with
      | error e => simp [Except.map]
      | ok n => simp [Except.map, aliasUnit, CUnit.over, Lifting.get_set hl]
    · simp only [he, if_false]
      cases hg : physGet g.roots id' with
      | error e => rfl
      | ok n => simp [aliasUnit, Lifting.get_set hl, he]

theorem insertUnit_isSome {g g' : Global α} {u : CUnit α} (hs : insertUnit g u = (g', none)) :
    (unitAt g u.id).isSome := by
  simp only [insertUnit] at hs
  cases hp : physSet g.roots u.id u.pos with
  | error e => simp [hp] at hs
  | ok roots =>
    have := physGet_physSet hp u.id
    simp only [if_true] at this
    simp only [unitAt]
    cases hg : physGet g.roots u.id with
    | ok n => rfl
    | error e =>
      exfalso
      match hid : u.id, hp with
      | [], hp => simp [physSet] at hp
      | [r], hp =>
        simp only [hid, physGet] at hg
        simp only [physSet] at hp
        cases hR : g.roots[r]? <;> simp_all
      | [r, c], hp =>
        simp only [hid, physGet] at hg
        simp only [physSet] at hp
        cases hR : g.roots[r]? with
        | none => simp_all
        | some R => cases hL : R.children[c]? <;> simp_all
      | _ :: _ :: _ :: _, hp => simp [physSet] at hp

theorem insertUnits_append (g : Global α) (a b : List (CUnit α)) :
    insertUnits g (a ++ b) = match insertUnits g a with
      | (g1, none) => insertUnits g1 b
      | r => r := by
  induction a generalizing g with
  | nil => simp [insertUnits]
  | cons u a ih =>
    simp only [List.cons_append, insertUnits]
    cases hu : insertUnit g u with
    | mk g1 e =>
      cases e with
      | none => simp only [ih]
      | some e => simp

theorem unitAt_insertUnits_other {us : List (CUnit α)} : ∀ {g g' : Global α}, insertUnits g us = (g', none) →
    ∀ {id : Ident}, (∀ w ∈ us, w.id ≠ id) → unitAt g' id = unitAt g id := by
  induction us with
  | nil => intro g g' hs id _; simp only [insertUnits, Prod.mk.injEq, and_true] at hs; rw [hs]
  | cons u us ih =>
    intro g g' hs id hn
    simp only [insertUnits] at hs
    cases hu : insertUnit g u with
    | mk g1 e =>
      cases e with
      | some e => simp [hu] at hs
      | none =>
        simp only [hu] at hs
        rw [ih hs (fun w hw => hn w (List.mem_cons_of_mem _ hw)), unitAt_insertUnit hu,
          if_neg (Ne.symm (hn u (by simp)))]

/-- charge and weight of a node never change -/
theorem unitAt_insertUnits_static {us : List (CUnit α)} : ∀ {g g' : Global α}, insertUnits g us = (g', none) →
    ∀ (id : Ident), (unitAt g' id).map (fun o => (o.id, o.charge, o.weight)) =
      (unitAt g id).map (fun o => (o.id, o.charge, o.weight)) := by
  induction us with
  | nil => intro g g' hs id; simp only [insertUnits, Prod.mk.injEq, and_true] at hs; rw [hs]
  | cons u us ih =>
    intro g g' hs id
    simp only [insertUnits] at hs
    cases hu : insertUnit g u with
    | mk g1 e =>
      cases e with
      | some e => simp [hu] at hs
      | none =>
        simp only [hu] at hs
        rw [ih hs, unitAt_insertUnit hu]
        by_cases he : id = u.id
        · simp only [he, if_true]
          cases hx : unitAt g u.id with
          | none => simp
          | some o =>
            have : o.id = u.id := by
              simp only [unitAt] at hx
              cases hg : physGet g.roots u.id <;> simp [hg] at hx
              rw [← hx]; rfl
            simp [CUnit.over, this]
        · simp [he]

theorem unitAt_id {g : Global α} {id : Ident} {o : CUnit α} (h : unitAt g id = some o) : o.id = id := by
  simp only [unitAt] at h
  cases hg : physGet g.roots id <;> simp [hg] at h
  rw [← h]; rfl

/-- read-back: the last unit committed under an identifier is what is stored there afterwards -/
theorem unitAt_insertUnits_last {g g' : Global α} {pre post : List (CUnit α)} {u : CUnit α}
    (hs : insertUnits g (pre ++ u :: post) = (g', none)) (hn : ∀ w ∈ post, w.id ≠ u.id) :
    ∃ o, unitAt g u.id = some o ∧ unitAt g' u.id = some (u.over o) := by
  rw [insertUnits_append] at hs
  cases h1 : insertUnits g pre with
  | mk g1 e1 =>
    cases e1 with
    | some e => simp [h1] at hs
    | none =>
      simp only [h1, insertUnits] at hs
      cases h2 : insertUnit g1 u with
      | mk g2 e2 =>
        cases e2 with
        | some e => simp [h2] at hs
        | none =>
          simp only [h2] at hs
          have a := unitAt_insertUnits_other hs hn
          have b := unitAt_insertUnit h2 u.id
          simp only [if_true] at b
          have c := insertUnit_isSome h2
          obtain ⟨o1, ho1⟩ := Option.isSome_iff_exists.1 c
          have d := unitAt_insertUnits_static h1 u.id
          rw [ho1] at d
          cases ho : unitAt g u.id with
          | none => simp [ho] at d
          | some o =>
            refine ⟨o, rfl, ?_⟩
            rw [a, b, ho1]
            simp only [ho, Option.map_some, Option.some.injEq, Prod.mk.injEq] at d
            simp [CUnit.over, d.2.1, d.2.2]

/-! ### references after a commit -/

def posRefs (R : PRoot α) : List Ref := R.node.pos :: R.children.map (·.pos)

theorem mem_flatMap_set {β γ : Type} {l : List β} {f : β → List γ} {i : Nat} {a : β} {x : γ}
    (hx : x ∈ (l.set i a).flatMap f) : x ∈ l.flatMap f ∨ x ∈ f a := by
  simp only [List.mem_flatMap] at hx ⊢
  obtain ⟨b, hb, hxb⟩ := hx
  rcases List.mem_or_eq_of_mem_set hb with h | h
  · left; exact ⟨b, h, hxb⟩
  · right; rw [← h]; exact hxb

theorem physSet_refs_sub {roots roots' : List (PRoot α)} {id : Ident} {p : Ref}
    (hs : physSet roots id p = .ok roots') :
    ∀ x ∈ roots'.flatMap posRefs, x ∈ roots.flatMap posRefs ∨ x = p := by
  intro x hx
  match id, hs with
  | [], hs => simp [physSet] at hs
  | [r], hs =>
    simp only [physSet] at hs
    cases hR : roots[r]? with
    | none => simp [hR] at hs
    | some R =>
      simp only [hR, Except.ok.injEq] at hs
      subst hs
      rcases mem_flatMap_set hx with h | h
      · left; exact h
      · simp only [posRefs, List.mem_cons] at h
        rcases h with h | h
        · right; exact h
        · left
          simp only [List.mem_flatMap]
          exact ⟨R, List.mem_of_getElem? hR, by simp only [posRefs, List.mem_cons]; right; exact h⟩
  | [r, c], hs =>
    simp only [physSet] at hs
    cases hR : roots[r]? with
    | none => simp [hR] at hs
    | some R =>
      simp only [hR] at hs
      cases hL : R.children[c]? with
      | none => simp [hL] at hs
      | some L =>
        simp only [hL, Except.ok.injEq] at hs
        subst hs
        rcases mem_flatMap_set hx with h | h
        · left; exact h
        · simp only [posRefs, List.mem_cons, List.mem_map] at h
          rcases h with h | ⟨n, hn, hnx⟩
          · left
            simp only [List.mem_flatMap]
            exact ⟨R, List.mem_of_getElem? hR, by simp [posRefs, h]⟩
          · rcases List.mem_or_eq_of_mem_set hn with h2 | h2
            · left
              simp only [List.mem_flatMap]
              exact ⟨R, List.mem_of_getElem? hR, by
                simp only [posRefs, List.mem_cons, List.mem_map]; right; exact ⟨n, h2, hnx⟩⟩
            · right; rw [← hnx, h2]
  | _ :: _ :: _ :: _, hs => simp [physSet] at hs

theorem insertUnit_refs_sub (g : Global α) (u : CUnit α) :
    ∀ r ∈ (insertUnit g u).1.refs, r ∈ g.refs ∨ r ∈ u.refs := by
  intro r hr
  simp only [insertUnit] at hr
  cases hp : physSet g.roots u.id u.pos with
  | error e => simp only [hp] at hr; left; exact hr
  | ok roots =>
    simp only [hp, Global.refs, List.mem_append] at hr
    simp only [Global.refs, List.mem_append]
    rcases hr with hr | hr
    · rcases physSet_refs_sub hp r hr with h | h
      · left; left; exact h
      · right; simp [CUnit.refs, h]
    · simp only [List.mem_flatMap] at hr
      obtain ⟨e, he, hre⟩ := hr
      rcases Lifting.set_dict_sub g.lift u.id u.vel u.ts e he with h | ⟨a, b, hv, ht, h⟩
      · left; right; simp only [List.mem_flatMap]; exact ⟨e, h, hre⟩
      · right
        subst h
        simp only [List.mem_cons, List.not_mem_nil, or_false] at hre
        simp only [CUnit.refs, hv, ht, List.mem_cons, List.mem_append, Option.toList_some, List.not_mem_nil, or_false]
        rcases hre with h | h
        · right; left; exact h
        · right; right; exact h

theorem insertUnits_refs_sub (us : List (CUnit α)) : ∀ (g : Global α),
    ∀ r ∈ (insertUnits g us).1.refs, r ∈ g.refs ∨ r ∈ us.flatMap CUnit.refs := by
  induction us with
  | nil => intro g r hr; left; simpa [insertUnits] using hr
  | cons u us ih =>
    intro g r hr
    simp only [insertUnits] at hr
    cases hu : insertUnit g u with
    | mk g1 e =>
      have h1 := insertUnit_refs_sub g u
      rw [hu] at h1
      cases e with
      | some e =>
        simp only [hu] at hr
        rcases h1 r hr with h | h
        · left; exact h
        · right; simp [h]
      | none =>
        simp only [hu] at hr
        rcases ih g1 r hr with h | h
        · rcases h1 r h with h | h
          · left; exact h
          · right; simp [h]
        · right; simp only [List.flatMap_cons, List.mem_append]; right; exact h

end JF.Store
