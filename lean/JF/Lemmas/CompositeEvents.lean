import JF.Lemmas.CompositeInv
/-!
Helper lemmas for C12, part 3: the global state (list of composite objects), `sliceAt`, and generic facts used by the
per-event theorems of `JF/Props/C12.lean`.
-/
namespace JF.Composite
open JF JF.Kin

def AllGood (d : Nat) (L : List ℚ) (cs : List (CObj ℚ)) : Prop := ∀ c ∈ cs, Good d L c

/-- all leaves of the object carry the time stamp `t` if they move -/
def LS (t : Time ℚ) (c : CObj ℚ) : Prop := ∀ l ∈ c.leaves, Sliced t l

theorem getElem?_modify_ne {β : Type} (f : β → β) (xs : List β) {i j : Nat} (h : i ≠ j) : (xs.modify i f)[j]? = xs[j]? := by
  rw [List.getElem?_modify]; simp [h]

theorem getElem?_modify_self {β : Type} (f : β → β) (xs : List β) (i : Nat) : (xs.modify i f)[i]? = (xs[i]?).map f := by
  rw [List.getElem?_modify]; simp

theorem modify_eq_self {β : Type} (g : β → β) : ∀ (xs : List β) (j : Nat), (∀ x, xs[j]? = some x → g x = x) → xs.modify j g = xs
  | [], _, _ => by simp
  | y :: xs, 0, h => by simp [List.modify, h y (by simp)]
  | y :: xs, j + 1, h => by
    simp [List.modify_succ_cons, modify_eq_self g xs j (fun x hx => h x (by simpa using hx))]

theorem allGood_modify {d : Nat} {L : List ℚ} {cs : List (CObj ℚ)} (h : AllGood d L cs) (i : Nat) (f : CObj ℚ → CObj ℚ)
    (hf : ∀ c, cs[i]? = some c → Good d L (f c)) : AllGood d L (cs.modify i f) :=
  forall_mem_modify (Good d L) f cs i h hf

theorem AllGood.get {d : Nat} {L : List ℚ} {cs : List (CObj ℚ)} (h : AllGood d L cs) {i : Nat} {c : CObj ℚ}
    (hc : cs[i]? = some c) : Good d L c := h c (List.mem_of_getElem? hc)

theorem sliceAt_cons (L : List ℚ) (t : Time ℚ) (i : Nat) (S : List Nat) (cs : List (CObj ℚ)) :
    sliceAt Ops.rat L t (i :: S) cs = sliceAt Ops.rat L t S (cs.modify i (sliceComp Ops.rat L t)) := rfl

theorem sliceAt_spec' {d : Nat} {L : List ℚ} (hL : BoxOK d L) (t : Time ℚ) : ∀ (S : List Nat) (cs : List (CObj ℚ)) (T : List Nat),
    AllGood d L cs → (∀ i ∈ T, ∀ c, cs[i]? = some c → LS t c) →
    AllGood d L (sliceAt Ops.rat L t S cs) ∧
      ∀ i, (i ∈ T ∨ i ∈ S) → ∀ c, (sliceAt Ops.rat L t S cs)[i]? = some c → LS t c
  | [], cs, T, h, hT => ⟨h, fun i hi c hc => by
      rcases hi with hi | hi
      · exact hT i hi c hc
      · simp at hi⟩
  | i :: S, cs, T, h, hT => by
    rw [sliceAt_cons]
    have hg : AllGood d L (cs.modify i (sliceComp Ops.rat L t)) :=
      allGood_modify h i _ (fun c hc => (sliceComp_good hL t (h.get hc)).1)
    have hT' : ∀ j ∈ i :: T, ∀ c, (cs.modify i (sliceComp Ops.rat L t))[j]? = some c → LS t c := by
      intro j hj c hc
      by_cases hij : i = j
      · subst hij
        rw [getElem?_modify_self] at hc
        cases hci : cs[i]? with
        | none => simp [hci] at hc
        | some c0 =>
          simp [hci] at hc
          subst hc
          exact (sliceComp_good hL t (h.get hci)).2
      · rw [getElem?_modify_ne _ _ hij] at hc
        rcases List.mem_cons.mp hj with rfl | hj
        · exact absurd rfl hij
        · exact hT j hj c hc
    obtain ⟨h1, h2⟩ := sliceAt_spec' hL t S _ (i :: T) hg hT'
    refine ⟨h1, ?_⟩
    intro j hj
    apply h2
    rcases hj with hj | hj
    · exact Or.inl (by simp [hj])
    · rcases List.mem_cons.mp hj with rfl | hj
      · exact Or.inl (by simp)
      · exact Or.inr hj

theorem sliceAt_spec {d : Nat} {L : List ℚ} (hL : BoxOK d L) (t : Time ℚ) (S : List Nat) {cs : List (CObj ℚ)}
    (h : AllGood d L cs) :
    AllGood d L (sliceAt Ops.rat L t S cs) ∧ ∀ i ∈ S, ∀ c, (sliceAt Ops.rat L t S cs)[i]? = some c → LS t c := by
  obtain ⟨h1, h2⟩ := sliceAt_spec' hL t S cs [] h (by simp)
  exact ⟨h1, fun i hi => h2 i (Or.inr hi)⟩

theorem setCoord_getD : ∀ (p : List ℚ) (d : Nat), setCoord p d (p.getD d 0) = p
  | [], _ => by simp [setCoord]
  | x :: p, 0 => by simp [setCoord]
  | x :: p, d + 1 => by
    have := setCoord_getD p d
    simpa [setCoord] using this

/-- leaves that are not touched keep the property, touched ones get it from the update -/
theorem forall_mem_setLeaves' (P : PUnit ℚ → Prop) : ∀ (ups : List (Upd ℚ)) (ls : List (PUnit ℚ)),
    (∀ j l, ls[j]? = some l → j ∉ ups.map (·.leaf) → P l) → (∀ u ∈ ups, ∀ l, P (setU u l)) →
    ∀ l ∈ setLeaves ls ups, P l
  | [], ls, h, _ => by
    intro l hl
    obtain ⟨j, hj⟩ := List.getElem?_of_mem hl
    exact h j l hj (by simp)
  | u :: ups, ls, h, hg => by
    rw [setLeaves_cons]
    apply forall_mem_setLeaves' P ups _ _ (fun u' hu' => hg u' (by simp [hu']))
    intro j l hj hnot
    by_cases hju : u.leaf = j
    · subst hju
      rw [getElem?_modify_self] at hj
      cases h0 : ls[u.leaf]? with
      | none => simp [h0] at hj
      | some l0 =>
        simp [h0] at hj
        subst hj
        exact hg u (by simp) l0
    · rw [getElem?_modify_ne _ _ hju] at hj
      exact h j l hj (by
        simp only [List.map_cons, List.mem_cons, not_or]
        exact ⟨fun e => hju e.symm, hnot⟩)

theorem sh_setLeaves {v : List ℚ} (hv : NZ v) {ls : List (PUnit ℚ)} {ups : List (Upd ℚ)}
    (hls : ∀ j l, ls[j]? = some l → j ∉ ups.map (·.leaf) → l.vel = none ∨ l.vel = some v)
    (hups : ∀ u ∈ ups, u.vel = none ∨ u.vel = some v) : Sh (setLeaves ls ups) :=
  ⟨v, hv, forall_mem_setLeaves' (fun l => l.vel = none ∨ l.vel = some v) ups ls hls
    (fun u hu l => by simpa [setU] using hups u hu)⟩

/-- the leaf addressed by an update is in the result with the update's velocity (if no later update addresses it) -/
theorem mem_setLeaves_last (ls : List (PUnit ℚ)) (ups : List (Upd ℚ)) (u : Upd ℚ) (l : PUnit ℚ)
    (hl : (setLeaves ls ups)[u.leaf]? = some l) : setU u l ∈ setLeaves ls (ups ++ [u]) := by
  have : setLeaves ls (ups ++ [u]) = (setLeaves ls ups).modify u.leaf (setU u) := by
    simp only [setLeaves, List.foldl_append, List.foldl_cons, List.foldl_nil]; rfl
  rw [this]
  apply List.mem_of_getElem? (i := u.leaf)
  rw [getElem?_modify_self, hl]; rfl

theorem setLeaves_getElem?_of_not_mem : ∀ (ups : List (Upd ℚ)) (ls : List (PUnit ℚ)) (j : Nat),
    j ∉ ups.map (·.leaf) → (setLeaves ls ups)[j]? = ls[j]?
  | [], ls, j, _ => rfl
  | u :: ups, ls, j, h => by
    simp only [List.map_cons, List.mem_cons, not_or] at h
    rw [setLeaves_cons, setLeaves_getElem?_of_not_mem ups _ j h.2, getElem?_modify_ne _ _ (fun e => h.1 e.symm)]

/-- an update list built from distinct leaf indices -/
theorem updsOK_map {d : Nat} {t : Time ℚ} {ls : List (PUnit ℚ)} (ks : List Nat) (mk : Nat → Upd ℚ)
    (hleaf : ∀ k, (mk k).leaf = k) (hnd : ks.Nodup)
    (hok : ∀ k ∈ ks, ∃ l, ls[k]? = some l ∧
        (∀ v, (mk k).vel = some v → v.length = d ∧ (mk k).ts = some t) ∧
        (∀ dv, (mk k).dv = some dv → dv.length = d) ∧
        (∀ i, dvAt (mk k) i = velOpt (mk k).vel i - velAt l i) ∧
        ((mk k).dv = none → ∀ i, velOpt (mk k).vel i = velAt l i)) :
    UpdsOK d t ls (ks.map mk) := by
  refine ⟨?_, ?_⟩
  · have : (ks.map mk).map (·.leaf) = ks := by
      rw [List.map_map]
      conv_rhs => rw [← List.map_id ks]
      exact List.map_congr_left (fun k _ => hleaf k)
    rw [this]; exact hnd
  · intro u hu
    obtain ⟨k, hk, rfl⟩ := List.mem_map.mp hu
    rw [hleaf k]
    exact hok k hk

theorem zipIdx_map_fst {β γ : Type} (g : β → γ) : ∀ (l : List β) (n : Nat), (l.zipIdx n).map (fun p => g p.1) = l.map g
  | [], _ => rfl
  | x :: l, n => by simp [List.zipIdx_cons, zipIdx_map_fst g l (n + 1)]

end JF.Composite
