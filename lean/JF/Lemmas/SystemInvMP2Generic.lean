import JF.Props.SystemInvMP
/-!
E50 — the generic part of E48's transports (`JF/Props/SystemInvMP.lean`, `JF/Props/SystemInvResume.lean`), factored out so that every
composed world (coulomb_atoms `JF.Sys`, composite objects without cells `JF.Sys2`, with cells `JF.Sys3L`) is ONE instance.

A composed system `CSys` is: a type `X` of "everything but the mediator state" (world and ghost fields), the mediator configuration
`M`, the initial condition `Init` on `X`, and the REST of the step relation `RStep e last x o cm x'` — all fields of `SysStep…` except
`leg` —, which reads the mediator state before the leg only through `e : MedState Unit` (activator bookkeeping and preceding handler,
scheduler erased: `eraseS`) and through `last` (the scheduler's `_last_returned_event`).  `CSys.Reach T I lastI` are the runs of the
system over the scheduler instance `I` (`init` / `step`, no leg after the end-of-run commit), field for field `Sys….Reach…`.

`Adapter T G`: how a successor state of `X` is built from the global state `g'` of C20's world after the commit (`nx`: the world part
is READ OFF `g'`, the ghost fields are the ones the step relation prescribes), and what "the world part of `x` is the view of `g`"
(`sees`) / "the ghost previous world of `x` is the view of `g`" (`sawPrev`) mean.  `Moves`: along the commits `l` of the multi-process
run the tracked states (`nx` … `nx`) satisfy `RStep`, for the legs `cs` the single-process loop makes.  `extend` is E48's induction,
`mp_run_is_reach` its main bridge: an `MPRun` IS a `T.Reach` run over the spec-level scheduler with the same handlers and times.
`RChain` / `moves_replay`: a forward chain of legs replayed by `JF.SystemInvMP.replayWorld` satisfies `Moves` (non-vacuity).
-/
namespace JF.SysGen
open JF JF.Act JF.Heap JF.Sched JF.Med JF.MediatorLoop JF.Sys JF.C20Loop
open JF.SystemInvMP (gAt runLegs_nil' runLegs_cons' PostChain replayWorld)

/-- mediator states over the spec-level scheduler -/
abbrev SM : Type := MedState (specI xcfg).σ

/-- the mediator state with the scheduler erased: activator bookkeeping and `_event_handler_with_shortest_event_time` -/
def eraseS {σ : Type} (m : MedState σ) : MedState Unit := ⟨m.act, (), m.preceding⟩

theorem eraseS_congr {σ τ : Type} {a : MedState σ} {b : MedState τ} (hact : a.act = b.act) (hpre : a.preceding = b.preceding) :
    eraseS a = eraseS b := by unfold eraseS; rw [hact, hpre]

/-- a composed system: mediator loop `JF.Med.leg` × a world with ghost fields -/
structure CSys where
  /-- world and ghost fields (everything but the mediator state) -/
  X : Type
  M : MWire
  Init : X → Prop
  /-- all fields of the step relation but `leg` -/
  RStep : MedState Unit → XTime → X → Oracle XTime → Committed XTime → X → Prop

/-- the runs of the composed system over the scheduler instance `I` whose last returned time is read by `lastI` -/
inductive CSys.Reach (T : CSys) (I : SchedI XTime) (lastI : I.σ → XTime) :
    List (Oracle XTime) → List (Committed XTime) → MedState I.σ → T.X → Prop
  | init (m : MedState I.σ) (x : T.X) (hm : m = MedState.init I T.M.w) (h : T.Init x) : Reach T I lastI [] [] m x
  | step {os : List (Oracle XTime)} {cs : List (Committed XTime)} {m m' : MedState I.σ} {x x' : T.X} {o : Oracle XTime}
      {cm : Committed XTime} (prev : Reach T I lastI os cs m x) (hgo : ∀ cl, cs.getLast? = some cl → cl.stop = false)
      (hleg : leg T.M I m o = .ok (m', cm)) (hw : T.RStep (eraseS m) (lastI m.sched) x o cm x') :
      Reach T I lastI (os ++ [o]) (cs ++ [cm]) m' x'

/-- the runs over the spec-level scheduler -/
abbrev CSys.ReachS (T : CSys) := T.Reach (specI xcfg) (fun s : SSched XTime => s.last)

/-- the last returned time of the spec-level scheduler -/
abbrev lastS (m : SM) : XTime := SSched.last (κ := XTime) m.sched

theorem reach_medRun {T : CSys} {I : SchedI XTime} {lastI : I.σ → XTime} {os : List (Oracle XTime)}
    {cs : List (Committed XTime)} {m : MedState I.σ} {x : T.X} (hr : T.Reach I lastI os cs m x) :
    MediatorLoop.Run T.M I (MedState.init I T.M.w) os cs m := by
  induction hr with
  | init m x hm _ => rw [hm]; exact .nil _
  | step _ _ hleg _ ih => exact run_snoc ih hleg

/-- the scheduler's `_last_returned_event` along a spec-level run -/
theorem reach_last {T : CSys} (hs : Static T.M) {os : List (Oracle XTime)} {cs : List (Committed XTime)}
    {m : SM} {x : T.X} (hr : T.ReachS os cs m x) : m.sched.last = lastOf xcfg.bot cs :=
  (MediatorLoop.run_inv (specLaws xcfg_strictWeak) hs (reach_medRun hr)
    (minv_init (specLaws xcfg_strictWeak) T.M)).1.rel.last

section bridge
variable {G O : Type}

/-- how the states of `T.X` follow the global states of C20's world -/
structure Adapter (T : CSys) (G : Type) where
  /-- the successor of `x` after a leg with record `cm` on oracle value `o`, the global state after the commit being `g'` -/
  nx : MedState Unit → T.X → Oracle XTime → Committed XTime → G → T.X
  /-- the world part of `x` is what is read off `g` -/
  sees : T.X → G → Prop
  /-- the ghost "world before the last commit" of `x` is what is read off `g` -/
  sawPrev : T.X → G → Prop
  sees_nx : ∀ e x o cm g', sees (nx e x o cm g') g'
  prev_nx : ∀ e x o cm g g', sees x g → sawPrev (nx e x o cm g') g

/-- the mediator state after the leg (the state itself if the leg raises) -/
def legSt (M : MWire) (m : SM) (o : Oracle XTime) : SM :=
  match leg M (specI xcfg) m o with
  | .ok (m', _) => m'
  | .error _ => m

theorem legSt_ok {M : MWire} {m m' : SM} {o : Oracle XTime} {cm : Committed XTime}
    (h : leg M (specI xcfg) m o = .ok (m', cm)) : legSt M m o = m' := by
  unfold legSt; rw [h]

/-- **the world moves by the step relation of `T`** along the commits `l` of the multi-process run, for the legs `cs` the
single-process loop makes on its oracle values: the tracked states satisfy `RStep` leg by leg -/
def Moves (T : CSys) (A : Adapter T G) (W : World G O XTime) :
    SM → T.X → Nat → G → List (MP.Commit G XTime O) → List (Committed XTime) → Prop
  | _, _, _, _, _, [] => True
  | _, _, _, _, [], _ :: _ => False
  | m, x, n, g, a :: l, cm :: cs =>
    T.RStep (eraseS m) (lastS m) x ⟨W.yields g, fun h => W.cand h n g⟩ cm
        (A.nx (eraseS m) x ⟨W.yields g, fun h => W.cand h n g⟩ cm a.post) ∧
      Moves T A W (legSt T.M m ⟨W.yields g, fun h => W.cand h n g⟩)
        (A.nx (eraseS m) x ⟨W.yields g, fun h => W.cand h n g⟩ cm a.post) (n + 1) a.post l cs

/-- **the induction** (E48's `extend`, generic) -/
theorem extend (T : CSys) (A : Adapter T G) (W : World G O XTime) :
    ∀ (l : List (MP.Commit G XTime O)) (n : Nat) (g : G) (os0 : List (Oracle XTime)) (cs0 : List (Committed XTime))
      (m : SM) (x : T.X) (cs : List (Committed XTime)) (fin : Option (SM)),
      T.ReachS os0 cs0 m x → A.sees x g → (∀ cl, cs0.getLast? = some cl → cl.stop = false) →
      runLegs T.M (specI xcfg) m (oracles W n g l) = (cs, fin) → Moves T A W m x n g l cs →
      ∃ m' x', T.ReachS (os0 ++ (oracles W n g l).take cs.length) (cs0 ++ cs) m' x' ∧
        A.sees x' (gAt g l cs.length) ∧ (cs = [] → x' = x) ∧ (cs ≠ [] → A.sawPrev x' (gAt g l (cs.length - 1))) ∧
        (∀ st', fin = some st' → m' = st') := by
  intro l
  induction l with
  | nil =>
    intro n g os0 cs0 m x cs fin hr hsee _ e _
    simp only [oracles] at e
    have e := (runLegs_nil' T.M (specI xcfg) m).symm.trans e
    simp only [Prod.mk.injEq] at e
    obtain ⟨rfl, rfl⟩ := e
    exact ⟨m, x, by simpa using hr, hsee, fun _ => rfl, fun h => absurd rfl h, fun st' h => (Option.some.inj h)⟩
  | cons a l ih =>
    intro n g os0 cs0 m x cs fin hr hsee hgo e hm
    simp only [oracles] at e ⊢
    have e := (runLegs_cons' T.M (specI xcfg) m _ _).symm.trans e
    split at e
    · simp only [Prod.mk.injEq] at e
      obtain ⟨rfl, rfl⟩ := e
      exact ⟨m, x, by simpa using hr, hsee, fun _ => rfl, fun h => absurd rfl h, fun st' h => by cases h⟩
    · next st1 cm hleg =>
      split at e
      · next hstop =>
        simp only [Prod.mk.injEq] at e
        obtain ⟨rfl, rfl⟩ := e
        obtain ⟨hw, _⟩ := hm
        refine ⟨st1, _, by simpa using CSys.Reach.step hr hgo hleg hw, by simpa using A.sees_nx _ _ _ _ _,
          (fun h => by cases h), fun _ => by simpa using A.prev_nx _ _ _ _ _ _ hsee, fun st' h => (Option.some.inj h)⟩
      · next hstop =>
        generalize hrr : runLegs T.M (specI xcfg) st1 (oracles W (n + 1) a.post l) = rr at e
        obtain ⟨r1, r2⟩ := rr
        simp only [Prod.mk.injEq] at e
        obtain ⟨rfl, rfl⟩ := e
        obtain ⟨hw, hm'⟩ := hm
        rw [legSt_ok hleg] at hm'
        have hr1 := CSys.Reach.step hr hgo hleg hw
        obtain ⟨m', x', hr', h1, h2, h3, h4⟩ := ih (n + 1) a.post (os0 ++ [⟨W.yields g, fun h => W.cand h n g⟩])
          (cs0 ++ [cm]) st1 _ r1 r2 hr1 (A.sees_nx _ _ _ _ _)
          (by intro cl hcl; simp at hcl; subst hcl; simpa using hstop) hrr hm'
        refine ⟨m', x', ?_, h1, (fun h => by cases h), fun _ => ?_, h4⟩
        · simpa [List.append_assoc] using hr'
        · cases r1 with
          | nil =>
            rw [h2 rfl]
            simpa using A.prev_nx _ _ _ _ _ _ hsee
          | cons y ys =>
            have := h3 (by simp)
            simpa using this

/-- **a multi-process run of the composed system `T`** (any core count, any `send_out_state` arities, any adversary): the
multi-process mediator over the environment built from the components of `JF.Med.leg` (spec-level scheduler) and the world `W`
returns the commits `l`; the run starts in an initial state of `T` seen through the adapter; `cs` are the legs the single-process
loop `JF.Med.runLegs` makes on the oracle values of that run; and the world moves by the step relation of `T` (`Moves`). -/
structure MPRun (T : CSys) (A : Adapter T G) (hs : Static T.M) (W : World G O XTime) (g : G)
    (l : List (MP.Commit G XTime O)) (cs : List (Committed XTime)) : Prop where
  mp : ∃ mcfg advs hist, mpRun (specLaws xcfg_strictWeak) hs W mcfg advs g hist = .ok l
  init : ∃ x0, T.Init x0 ∧ A.sees x0 g ∧ Moves T A W (MedState.init (specI xcfg) T.M.w) x0 0 g l cs
  legs : ∃ fin, runLegs T.M (specI xcfg) (MedState.init (specI xcfg) T.M.w) (oracles W 0 g l) = (cs, fin)

/-- **the multi-process run IS a run of `T.Reach`** over the spec-level scheduler: with exactly the commits `cs`, on the oracle
values of the multi-process run, ending in a state that mirrors the global state of the multi-process run; and `cs` is, handler by
handler and time by time, the commit list `l` of the multi-process mediator, for all legs unless the loop ended earlier with an
exception or the end-of-run commit (`mp_refines_medloop`) -/
theorem mp_run_is_reach {T : CSys} {A : Adapter T G} {hs : Static T.M} {W : World G O XTime} {g : G}
    {l : List (MP.Commit G XTime O)} {cs : List (Committed XTime)} (R : MPRun T A hs W g l cs) :
    ∃ m x, T.ReachS ((oracles W 0 g l).take cs.length) cs m x ∧ A.sees x (gAt g l cs.length) ∧
      (cs ≠ [] → A.sawPrev x (gAt g l (cs.length - 1))) ∧
      cs.map keyMed = (l.take cs.length).map keyMP ∧
      (cs.length = l.length ∨ (∃ fin, runLegs T.M (specI xcfg) (MedState.init (specI xcfg) T.M.w)
          (oracles W 0 g l) = (cs, fin) ∧ fin = none) ∨ ∃ cl, cs.getLast? = some cl ∧ cl.stop = true) := by
  obtain ⟨mcfg, advs, hist, hmp⟩ := R.mp
  obtain ⟨x0, h0, hsee, hmv⟩ := R.init
  obtain ⟨fin, e⟩ := R.legs
  obtain ⟨m, x, hr, h1, _, h3, _⟩ := extend T A W l 0 g [] [] _ x0 cs fin (.init _ x0 rfl h0) hsee
    (by intro cl hcl; simp at hcl) e hmv
  have hr' : T.ReachS ((oracles W 0 g l).take cs.length) cs m x := by simpa using hr
  refine ⟨m, x, hr', h1, h3, ?_, ?_⟩
  · exact mp_eq_run _ _ W mcfg advs g hist hmp (reach_medRun hr') rfl
  · have := runLegs_length _ _ _ _ e
    rw [oracles_length] at this
    rcases this with h | h | h
    · exact Or.inl h
    · exact Or.inr (Or.inl ⟨fin, e, h⟩)
    · exact Or.inr (Or.inr h)

/-! ## non-vacuity: a forward chain of legs, replayed -/

/-- a forward chain of legs of `T` from `(m, x)`, the `i`-th state being seen at global state `k + i` (`G = Nat`: the number of
commits made, as in `JF.SystemInvMP.replayWorld`) -/
inductive RChain (T : CSys) (A : Adapter T Nat) :
    Nat → SM → T.X → List (Oracle XTime) → List (Committed XTime) → Prop
  | nil (k : Nat) (m : SM) (x : T.X) : RChain T A k m x [] []
  | cons {k : Nat} {m m1 : SM} {x x1 : T.X} {o : Oracle XTime} {os : List (Oracle XTime)}
      {cm : Committed XTime} {cs : List (Committed XTime)} (hleg : leg T.M (specI xcfg) m o = .ok (m1, cm))
      (hw : T.RStep (eraseS m) (lastS m) x o cm x1) (hsee : A.sees x1 (k + 1)) (rest : RChain T A (k + 1) m1 x1 os cs) :
      RChain T A k m x (o :: os) (cm :: cs)

/-- a chain replayed by `replayWorld os` satisfies `Moves`, provided a successor state of `T` is determined by its world part
(`hnx`: the ghost fields are functions of the leg) -/
theorem moves_replay {T : CSys} {A : Adapter T Nat}
    (hnx : ∀ e last x o cm x' g', T.RStep e last x o cm x' → A.sees x' g' → x' = A.nx e x o cm g')
    (os : List (Oracle XTime)) {k : Nat} {m : SM} {x : T.X} {os' : List (Oracle XTime)}
    {cs : List (Committed XTime)} (ch : RChain T A k m x os' cs) :
    ∀ (l : List (MP.Commit Nat XTime Unit)), os' = os.drop k → PostChain (replayWorld os) k l → cs.length ≤ l.length →
      Moves T A (replayWorld os) m x k k l cs := by
  induction ch with
  | nil k m x => intro l _ _ _; cases l <;> trivial
  | @cons k m m1 x x1 o os'' cm cs hleg hw hsee rest ih =>
    intro l hos hp hlen
    cases l with
    | nil => simp at hlen
    | cons a l =>
      obtain ⟨hpost, hp'⟩ := hp
      have hpost' : a.post = k + 1 := hpost
      have hk : k < os.length := by
        by_contra hge
        rw [List.drop_eq_nil_of_le (by omega)] at hos
        cases hos
      rw [List.drop_eq_getElem_cons hk] at hos
      simp only [List.cons.injEq] at hos
      obtain ⟨ho, hos'⟩ := hos
      have horc : (⟨(replayWorld os).yields k, fun h => (replayWorld os).cand h k k⟩ : Oracle XTime) = o := by
        show (⟨((os[k]?).map (·.yields)).getD (fun _ => []), fun h => ((os[k]?).map (·.cand h)).getD .inf⟩ : Oracle XTime) = _
        rw [List.getElem?_eq_getElem hk, ← ho]
        rfl
      have hx1 : x1 = A.nx (eraseS m) x o cm (k + 1) := hnx _ _ _ _ _ _ _ hw hsee
      show T.RStep _ _ _ _ _ _ ∧ Moves T A (replayWorld os) _ _ _ _ _ _
      rw [horc, hpost', ← hx1, legSt_ok hleg]
      rw [hpost'] at hp'
      exact ⟨hw, ih l hos' hp' (by simpa using hlen)⟩

end bridge

end JF.SysGen
