import JF.Lemmas.SystemRun2Step
/-!
The induction step of the joint invariant of the composed system for composite objects without cells (E16): the first leg
(`first_step2`) and every later leg (`big_step2`).
-/
namespace JF.Sys2
open JF JF.Act JF.Heap JF.Sched JF.Med JF.CW2 JF.C14 JF.MediatorLoop JF.Sys JF.Composite JF.C12

section
variable {env : Env ℚ} {mw : ModeWiring} {S : TaggerIdx} {needs : HandlerId → Bool}

/-- **the induction step** (every leg after the first) -/
theorem big_step2 (H : Hyp2 env mw S) {cs : List (Committed XTime)} {cl : Committed XTime} {s : Sys2} {E : TaggerIdx}
    {tl : Time ℚ} {sq : ℚ} (big : Big2 env mw S needs cs cl s E tl sq) (hgo : cl.stop = false)
    {o : Oracle XTime} {cm : Committed XTime} {s' : Sys2} (st : SysStep2 env mw S needs s o cm s') :
    ∃ E' tl', Big2 env mw S needs (cs ++ [cm]) cm s' E' tl' sq := by
  have hs : Med.Static (mwire mw.w S needs) := hyp2_static H
  obtain ⟨habs, hch, hi', h', hrun'⟩ := mid_run2 H big hgo st
  obtain ⟨born', hr8'⟩ := mid_cur2 H big hgo st hi'
  obtain ⟨minv', ok, hpushed, hprec', hstop', E', hE0, hrunE0, htr0, hts0⟩ :=
    leg_inv (specLaws xcfg_strictWeak) hs big.med st.leg
  obtain ⟨a1, s1, a2, s3, hgtr, _, _, hgtrash, _, hst', _, _⟩ := leg_ok st.leg
  have hrunE' : cm.handler ∈ (getT s'.mid E').running := by rw [st.mid']; exact hrunE0
  have hts' : s'.med.act.ts = (trash mw.w.wires s'.mid E').1 := by rw [st.mid']; exact hts0
  have hE' : owner mw.w.wires cm.handler = some E' := hE0
  clear hrunE0 hts0 htr0 hE0
  obtain ⟨t', E'', ht'eq, hE'', hcom⟩ := st.ev
  have hEE : E'' = E' := by rw [hE'] at hE''; exact (Option.some.inj hE'').symm
  subst hEE
  have hlast : s.med.sched.last = cl.time := big.med.rel.last
  have hcands := st.cands
  rw [hlast] at hcands
  -- every pending time in the middle of the leg
  have normP : ∀ h t, pendPushed (pendOf (fun _ => none) cs) cm h = some t → NormX t := by
    intro h t e
    rcases pushAll_some _ _ e with h1 | h1
    · exact big.norm h t h1
    · rw [hpushed] at h1
      obtain ⟨q, hq, hqe⟩ := List.mem_map.mp h1
      simp only [Prod.mk.injEq] at hqe
      obtain ⟨rfl, rfl⟩ := hqe
      exact (hcands q hq).1
  have ht'n : Normalised t' := by
    have := normP _ _ ok.pending
    rw [ht'eq] at this; exact this
  have hstopE' := endOfRun_of_stop hE' hstop'
  -- the state after the commit: C12's invariant and the one chain, in the mode of the flags of the next leg
  have hnew : AllGood env.d env.L s'.cs ∧ Uniform env.nPer s'.cs ∧
      ∃ m, OneChainM s'.cs sq m ∧ (cm.stop = false → m = ofW (mw.mode (aStep mw.w (absOf s'.mid) E''))) := by
    obtain ⟨e', hk', _, ⟨ha', _⟩, hcs'⟩ := hcom
    have hmode : ∃ m, modeStep (ofW (mw.mode (absOf s'.mid))) e' = some m ∧
        (cm.stop = false → m = ofW (mw.mode (aStep mw.w (absOf s'.mid) E''))) := by
      cases hstop : cm.stop with
      | false =>
        have hend' : (mw.w.tagger E'').kind ≠ .endOfRun := by
          intro hk; rw [hstopE', hk] at hstop; simp at hstop
        exact ⟨_, mode_step_of_run H hrun' (List.ne_nil_of_mem hrunE') hend' hk', fun _ => rfl⟩
      | true =>
        have he : (mw.w.tagger E'').kind = .endOfRun := by rw [hstopE'] at hstop; simpa using hstop
        obtain ⟨t0, S0, rfl⟩ := evKind_keep (keep_of_endOfRun H.sup he hk')
        exact ⟨_, rfl, fun h => by cases h⟩
    obtain ⟨m, hm, hmeq⟩ := hmode
    obtain ⟨hadm, hc'⟩ := step_chain_aux H.hL hi'.1 hch e' hm ha'
    rw [hcs']
    exact ⟨step_good H.hL hi'.1 e' hadm, uniform_step hi'.2.1 env.L e', m, hc', hmeq⟩
  cases hs' : s' with
  | mk med' cs' ids' csPrev' mid' cmode' =>
  subst hs'
  have hprev := st.prev
  simp only at hprev
  subst hprev
  refine ⟨E'', t', ?_⟩
  refine
    { med := by rw [pendOf_snoc]; exact minv'
      started := ?_
      prec := hprec'
      owner := hE'
      stopEq := hstop'
      trashEq := hts'
      running := hrunE'
      time := ht'eq
      tnorm := ht'n
      norm := ?_
      phase := ⟨hi', Or.inr ⟨h', hrun'⟩⟩
      cur := ⟨hi', born', hr8'⟩
      commit := hcom
      good := hnew.1
      unif := hnew.2.1
      chain := hnew.2.2 }
  · -- started
    have h1 := getToRun_ok_started hgtr
    have h2 := getTrashable_started hgtrash
    have : med' = ⟨a2, s3, some cm.handler⟩ := hst'
    rw [this]; show a2.started = true; rw [h2, h1]
  · -- norm
    intro h t e
    rw [pendOf_snoc] at e
    have e' : dropAll (pendPushed (pendOf (fun _ => none) cs) cm) cm.trashed h = some t := e
    rw [dropAll_eq] at e'
    split at e'
    · cases e'
    · exact normP h t e'

/-- **`CandOK` of E1 for a leg** (every candidate of a handler handed out is not before the last commit): here it is the
constraint `CandsOK2` on the oracle, for every handler -/
theorem candOK_step2 {cs : List (Committed XTime)} {cl : Committed XTime} {s : Sys2} {E : TaggerIdx} {tl : Time ℚ} {sq : ℚ}
    (big : Big2 env mw S needs cs cl s E tl sq) {o : Oracle XTime} {cm : Committed XTime} {s' : Sys2}
    (st : SysStep2 env mw S needs s o cm s') : ∀ q ∈ cm.pushed, xcfg.lt q.2 cl.time = false := by
  obtain ⟨a1, s1, a2, s3, _, _, _, _, _, _, hpushed, _⟩ := leg_ok st.leg
  intro q hq
  rw [hpushed] at hq
  obtain ⟨p, hp, rfl⟩ := List.mem_map.mp hq
  have := (st.cands p hp).2
  rw [big.med.rel.last] at this
  exact this

/-- **C08, clause (h) at a leg of the composed system** (no footprint hypothesis): when the committed event may change the motion
of a unit, every handler of an interaction tagger that is running in the middle of the leg is in the leg's trash list -/
theorem stale_trashed_step2 (H : Hyp2 env mw S) {cs : List (Committed XTime)} {cl : Committed XTime} {s : Sys2} {E : TaggerIdx}
    {tl : Time ℚ} {sq : ℚ} (big : Big2 env mw S needs cs cl s E tl sq) (hgo : cl.stop = false)
    {o : Oracle XTime} {cm : Committed XTime} {s' : Sys2} (st : SysStep2 env mw S needs s o cm s')
    {E' : TaggerIdx} (hE' : owner mw.w.wires cm.handler = some E') (hm : affects (mw.w.tagger E') .motion = true)
    {T : TaggerIdx} (hT : T < mw.w.n) (hb : motionBound (mw.w.tagger T) = true) {h : HandlerId}
    (hh : h ∈ (getT s'.mid T).running) : h ∈ cm.trashed := by
  have hs : Med.Static (mwire mw.w S needs) := hyp2_static H
  obtain ⟨_, _, hi', h', hrun'⟩ := mid_run2 H big hgo st
  obtain ⟨_, _, _, _, _, E0, hE0, hrunE0, htr0, _⟩ := leg_inv (specLaws xcfg_strictWeak) hs big.med st.leg
  have hE0' : owner mw.w.wires cm.handler = some E0 := hE0
  rw [hE'] at hE0'
  have : E' = E0 := Option.some.inj hE0'
  subst this
  have hrunE' : cm.handler ∈ (getT s'.mid E').running := by rw [st.mid']; exact hrunE0
  have htr' : cm.trashed = (trash mw.w.wires s'.mid E').2 := by rw [st.mid']; exact htr0
  have hend : (mw.w.tagger E').kind ≠ .endOfRun := by
    intro hk; simp [affects, hk] at hm
  rcases Footprints2.clause_h_concrete2 env H.hL mw S H.sound H.hS H.sup hrun'.toRun (E := E')
      (List.ne_nil_of_mem hrunE') hend hm hT hb with h1 | h1
  · rw [htr']
    exact (trashLoop_out_mem _ _ h).mpr ⟨T, h1, hh⟩
  · have h1' : (getT s'.mid T).running = [] := h1
    rw [h1'] at hh; cases hh

/-- in the first leg only the start-of-run handler has a pending event -/
theorem first_leg_pending_kind2 (H : Hyp2 env mw S) {s : Sys2} (hi : Init2 env mw s) {o : Oracle XTime} {cm : Committed XTime}
    {s' : Sys2} (st : SysStep2 env mw S needs s o cm s') {h : HandlerId}
    (hp : (pendPushed (fun _ => none) cm h).isSome) : kindOfH mw.w h = .startOfRun := by
  have hs : Med.Static (mwire mw.w S needs) := hyp2_static H
  have pok : PoolsOK mw.w.wires := poolsOK_wires mw.w
  obtain ⟨_, hSk, _⟩ := start_spec H.hS
  have minv0 : MInv (I := specI xcfg) (mwire mw.w S needs) (SRel xcfg) s.med (fun _ => none) xcfg.bot := by
    rw [hi.med]; exact minv_init (specLaws xcfg_strictWeak) (mwire mw.w S needs)
  obtain ⟨pmid0, mirr0, _⟩ := mid_mirror hs minv0 st.leg
  obtain ⟨a1, s1, a2, s3, hgtr, _⟩ := leg_ok st.leg
  have pmid : PoolInv mw.w.wires s'.mid := by rw [st.mid']; exact pmid0
  have mirr : ∀ x, (pendPushed (fun _ => none) cm x).isSome ↔ ∃ T, x ∈ (getT s'.mid T).running := by
    rw [st.mid']; exact mirr0
  have hmid : s'.mid = a1.ts := by rw [st.mid']; exact midAct_eq hgtr
  have hact0 : s.med.act = ⟨false, initAct mw.w.wires⟩ := by rw [hi.med]; rfl
  have hpre0 : s.med.preceding = none := by rw [hi.med]; rfl
  rw [hpre0] at hgtr
  obtain ⟨hfirst, _⟩ := getToRun_first (by rw [hact0]) hgtr
  rw [hact0] at hfirst
  have hfirst : first mw.w.wires (initAct mw.w.wires) S o.yields = some (s'.mid, cm.created) := by rw [hmid]; exact hfirst
  obtain ⟨T, hT⟩ := (mirr h).mp hp
  have : T = S := by
    by_contra hne
    have hne' : T ∉ [S] := by simp [hne]
    have hf := hfirst
    unfold first at hf
    rw [createLoop_frame hf hne', applyActivation_running, getT_initAct] at hT
    split at hT <;> simp [TState.empty] at hT
  subst this
  rw [kindOfH_of_owner (owner_of_running pok pmid hT)]; exact hSk

/-- **the base case**: the first leg (the start-of-run handler is handed out and commits) -/
theorem first_step2 (H : Hyp2 env mw S) {s : Sys2} (hi : Init2 env mw s) {o : Oracle XTime} {cm : Committed XTime} {s' : Sys2}
    (st : SysStep2 env mw S needs s o cm s') :
    ∃ E' tl' sq, Big2 env mw S needs ([] ++ [cm]) cm s' E' tl' sq := by
  have hs : Med.Static (mwire mw.w S needs) := hyp2_static H
  have pok : PoolsOK mw.w.wires := poolsOK_wires mw.w
  obtain ⟨hSn, hSk, _⟩ := start_spec H.hS
  have minv0 : MInv (I := specI xcfg) (mwire mw.w S needs) (SRel xcfg) s.med (fun _ => none) xcfg.bot := by
    rw [hi.med]; exact minv_init (specLaws xcfg_strictWeak) (mwire mw.w S needs)
  obtain ⟨minv', ok, hpushed, hprec', hstop', E', hE0, hrunE0, htr0, hts0⟩ :=
    leg_inv (specLaws xcfg_strictWeak) hs minv0 st.leg
  obtain ⟨a1, s1, a2, s3, hgtr, _, _, hgtrash, _, hst', _, _⟩ := leg_ok st.leg
  have hrunE' : cm.handler ∈ (getT s'.mid E').running := by rw [st.mid']; exact hrunE0
  have hts' : s'.med.act.ts = (trash mw.w.wires s'.mid E').1 := by rw [st.mid']; exact hts0
  have hE' : owner mw.w.wires cm.handler = some E' := hE0
  clear hrunE0 htr0 hts0 hE0
  have hmid : s'.mid = a1.ts := by rw [st.mid']; exact midAct_eq hgtr
  -- the first call of the activator
  have hact0 : s.med.act = ⟨false, initAct mw.w.wires⟩ := by rw [hi.med]; rfl
  have hpre0 : s.med.preceding = none := by rw [hi.med]; rfl
  rw [hpre0] at hgtr
  obtain ⟨hfirst, hst1⟩ := getToRun_first (by rw [hact0]) hgtr
  rw [hact0] at hfirst
  have hfirst : first mw.w.wires (initAct mw.w.wires) S o.yields = some (s'.mid, cm.created) := by rw [hmid]; exact hfirst
  -- only the start-of-run tagger runs something
  have honly : ∀ T, T ≠ S → (getT s'.mid T).running = [] := by
    intro T hT
    have hne : T ∉ [S] := by simp [hT]
    have hf := hfirst
    unfold first at hf
    rw [createLoop_frame hf hne, applyActivation_running, getT_initAct]
    split <;> rfl
  have hES : E' = S := by
    by_contra hne
    rw [honly E' hne] at hrunE'; simp at hrunE'
  subst hES
  obtain ⟨t', E'', ht'eq, hE'', hcom⟩ := st.ev
  have hEE : E'' = E' := by rw [hE'] at hE''; exact (Option.some.inj hE'').symm
  subst hEE
  -- pending times in the middle of the leg: only those pushed now
  have normP : ∀ h t, pendPushed (fun _ => none) cm h = some t → NormX t := by
    intro h t e
    rcases pushAll_some _ _ e with h1 | h1
    · cases h1
    · rw [hpushed] at h1
      obtain ⟨q, hq, hqe⟩ := List.mem_map.mp h1
      simp only [Prod.mk.injEq] at hqe
      obtain ⟨rfl, rfl⟩ := hqe
      exact (st.cands q hq).1
  have ht'n : Normalised t' := by
    have := normP _ _ ok.pending
    rw [ht'eq] at this; exact this
  -- the start-of-run event
  obtain ⟨b, hb⟩ := start_hmode H.ms H.hS
  have hcom0 := hcom
  obtain ⟨e, hk, _, ⟨ha, hsm⟩, hcs⟩ := hcom
  rw [hb] at hk
  simp only [kindsOf, List.mem_singleton] at hk
  obtain ⟨i, P, v, rfl⟩ := evKind_start hk
  have hsm := hsm i P v rfl
  have hstart : mw.mode (aStep mw.w (absOf s'.mid) E'') = mw.startMode := by
    rw [absOf_first mw.w hfirst]; exact mode_startState H.ms H.hS
  have hcm0 : s'.cmode = fun _ => mw.startMode := by
    rw [st.cmode', hpre0, ← hi.cmode]; rfl
  cases hs' : s' with
  | mk med' cs' ids' csPrev' mid' cmode' =>
  subst hs'
  have hprev := st.prev
  simp only at hprev hcs
  subst hprev
  subst hcs
  have hi0 : Inv env ⟨s.cs, ofW (mw.mode (absOf mid'))⟩ := inv_rest hi.good hi.unif hi.rest _
  have hy : (fun T => (world2 env mw).yieldOf T ⟨_, hi0⟩) = o.yields := by rw [st.yields]; rfl
  refine ⟨E'', t', nsq v, ?_⟩
  refine
    { med := by rw [pendOf_snoc]; exact minv'
      started := ?_
      prec := hprec'
      owner := hE'
      stopEq := hstop'
      trashEq := hts'
      running := hrunE'
      time := ht'eq
      tnorm := ht'n
      norm := ?_
      phase := ⟨hi0, Or.inl ⟨rfl, rfl, hi.rest, hcm0, s.ids, cm.created, by rw [hy]; exact hfirst, st.ids'⟩⟩
      cur := ⟨hi0, fun _ => ⟨_, hi0⟩, ?_⟩
      commit := hcom0
      good := step_good H.hL hi.good _ (admW_adm_start hi.rest ha)
      unif := uniform_step hi.unif env.L (.start i P v)
      chain := ⟨_, start_oneChainM hi.rest ha hsm, fun _ => by rw [hstart]⟩ }
  · have h2 := getTrashable_started hgtrash
    have : med' = ⟨a2, s3, some cm.handler⟩ := hst'
    rw [this]; show a2.started = true; rw [h2, hst1]
  · intro h t e
    rw [pendOf_snoc] at e
    have e' : dropAll (pendPushed (fun _ => none) cm) cm.trashed h = some t := e
    rw [dropAll_eq] at e'
    split at e'
    · cases e'
    · exact normP h t e'
  · have hids : ids' = assign s.ids cm.created := st.ids'
    rw [hids]
    exact C08.Reach8.start s.ids (⟨_, hi0⟩ : G env) mid' cm.created (by rw [hy]; exact hfirst)

end

end JF.Sys2
