import JF.Lemmas.CellsNear
/-!
What the constructor establishes about the list of cells (for every scalar type, every stepper):
cell number `k` carries the identifier whose mixed-radix index is `k`.
-/
namespace JF.Cells

/-- index structure of a cell system -/
structure WF {α : Type} (s : System α) : Prop where
  pos : ∀ x ∈ s.perSide, 1 ≤ x
  dim : s.perSide.length = s.lengths.length
  cp : s.cumProd = cumProdFrom 1 s.perSide
  size : (s.cells.size : Int) = numberOfCells s.perSide
  ident : ∀ k (h : k < s.cells.size), Valid s.perSide s.cells[k].ident ∧ flat s.perSide s.cells[k].ident = k
  layers : 0 ≤ s.layers

section
variable {α : Type} [Add α] [Sub α] [Mul α] [Div α] [Neg α] [LT α] [DecidableLT α] [LE α] [DecidableLE α] [BEq α]

omit [Add α] [Sub α] [Mul α] [Div α] [Neg α] [LT α] [DecidableLT α] [BEq α] in
theorem mkCell_ident {ident : List Int} {lo hi : List α} {c : Cell α} (h : mkCell ident lo hi = .ok c) :
    c.ident = ident ∧ c.cmin = lo ∧ c.cmax = hi := by
  unfold mkCell at h
  split at h
  · cases h
  · cases h; exact ⟨rfl, rfl, rfl⟩

omit [Add α] [Sub α] [Neg α] in
theorem buildCells_ident (o : Ops α) (st : Stepper α) (fuel : Nat) (n : List Int) (side lengths : List α)
    (cp : List Int) :
    ∀ (k : Nat) (summed : Int) (ident : List Int) (cells : List (Cell α)),
      buildCells o st fuel n side lengths cp k summed ident = .ok cells →
      cells.length = k ∧ ∀ j (h : j < cells.length), cells[j].ident = (incr n)^[j] ident := by
  intro k
  induction k with
  | zero =>
    intro summed ident cells h
    simp only [buildCells] at h
    cases h
    exact ⟨rfl, fun j h => absurd h (by simp)⟩
  | succ k ih =>
    intro summed ident cells h
    rw [buildCells] at h
    split at h
    · cases h
    · split at h
      · cases h
      · split at h
        · cases h
        · rename_i c hc
          split at h
          · cases h
          · rename_i rest hrest
            cases h
            obtain ⟨hl, hi⟩ := ih _ _ _ hrest
            refine ⟨by simp [hl], ?_⟩
            intro j hj
            cases j with
            | zero => simp [(mkCell_ident hc).1]
            | succ j =>
              simp only [List.getElem_cons_succ, Function.iterate_succ_apply]
              exact hi j (by simpa using hj)

theorem expandPerSide_length (dim : Nat) (c : List Int) : (expandPerSide dim c).length = dim := by
  simp [expandPerSide]

omit [Add α] [Sub α] [Neg α] in
/-- **the constructor establishes the index structure** (any scalar, any stepper, any fuel) -/
theorem create_wf (o : Ops α) (st : Stepper α) (fuel : Nat) (periodic : Bool) (lengths : List α)
    (cps : List Int) (layers : Int) (s : System α)
    (h : create o st fuel periodic lengths cps layers = .ok s) :
    WF s ∧ s.periodic = periodic ∧ s.lengths = lengths ∧ s.layers = layers ∧
      s.perSide = expandPerSide lengths.length cps ∧
      s.side = List.zipWith (fun l n => l / o.ofInt n) lengths s.perSide := by
  unfold create at h
  simp only at h
  split at h
  · cases h
  · split at h
    · cases h
    · rename_i hlay
      split at h
      · cases h
      · rename_i hpos
        split at h
        · cases h
        · rename_i cells hcells
          cases h
          have hpos' : ∀ x ∈ expandPerSide lengths.length cps, 1 ≤ x := by
            intro x hx
            simp only [List.any_eq_true, decide_eq_true_eq, not_exists, not_and, not_le] at hpos
            have := hpos x hx; omega
          have hlay' : 0 ≤ layers := by simpa using hlay
          obtain ⟨hl, hi⟩ := buildCells_ident o st fuel _ _ _ _ _ _ _ _ hcells
          have hN := numberOfCells_pos hpos'
          refine ⟨⟨hpos', expandPerSide_length _ _, rfl, ?_, ?_, hlay'⟩, rfl, rfl, rfl, rfl, rfl⟩
          · simp only [List.size_toArray, hl]; omega
          · intro k hk
            simp only [List.size_toArray] at hk
            simp only [List.getElem_toArray]
            rw [hi k hk]
            have hv := valid_replicate_zero hpos'
            rw [expandPerSide_length] at hv
            have hf := flat_replicate_zero (expandPerSide lengths.length cps)
            rw [expandPerSide_length] at hf
            have := incr_iterate hv k (by rw [hf]; rw [hl] at hk; omega)
            rw [hf] at this
            exact ⟨this.1, by rw [this.2]; simp⟩

end

section
variable {α : Type} {s : System α}

theorem pyGet_nat {β : Type} (l : Array β) (k : Nat) (h : k < l.size) : pyGet l (k : Int) = .ok l[k] := by
  simp [pyGet, h]

/-- under `WF`, looking a valid identifier up yields the cell carrying exactly that identifier -/
theorem cellOfIdent_valid (w : WF s) {t : List Int} (hv : Valid s.perSide t) :
    ∃ (k : Nat) (h : k < s.cells.size), (k : Int) = flat s.perSide t ∧ cellOfIdent s t = .ok s.cells[k] ∧
      s.cells[k].ident = t := by
  obtain ⟨f0, f1⟩ := flat_bounds hv
  have hk : (flat s.perSide t).toNat < s.cells.size := by
    have := w.size; omega
  refine ⟨(flat s.perSide t).toNat, hk, by omega, ?_, ?_⟩
  · unfold cellOfIdent
    rw [w.cp]
    have : dot t (cumProdFrom 1 s.perSide) = ((flat s.perSide t).toNat : Int) := by
      show flat s.perSide t = _; omega
    rw [this, pyGet_nat _ _ hk]
  · obtain ⟨v, f⟩ := w.ident _ hk
    exact flat_inj v hv (by rw [f]; omega)

/-- every cell of the list is found again under its own identifier (identifiers are unique) -/
theorem cellOfIdent_self (w : WF s) (k : Nat) (h : k < s.cells.size) :
    cellOfIdent s s.cells[k].ident = .ok s.cells[k] := by
  obtain ⟨v, f⟩ := w.ident k h
  obtain ⟨k', h', e, hc, _⟩ := cellOfIdent_valid w v
  have : k' = k := by omega
  subst this; exact hc

theorem ident_inj (w : WF s) (k k' : Nat) (h : k < s.cells.size) (h' : k' < s.cells.size)
    (e : s.cells[k].ident = s.cells[k'].ident) : k = k' := by
  have a := (w.ident k h).2
  have b := (w.ident k' h').2
  rw [e] at a; omega

-- identifiers with one entry changed
theorem valid_modifyDir : ∀ {n ident : List Int} (d : Nat) (f : Int → Int), Valid n ident → d < n.length →
    (0 ≤ f (ident.getD d 0) ∧ f (ident.getD d 0) < n.getD d 1) → Valid n (modifyDir ident d f)
  | [], [], _, _, _, h, _ => by simp at h
  | n :: ns, i :: is, 0, f, hv, _, hf => by
    simp only [List.getD_cons_zero] at hf
    exact ⟨hf.1, hf.2, hv.2.2⟩
  | n :: ns, i :: is, d + 1, f, hv, hd, hf => by
    simp only [List.getD_cons_succ] at hf
    exact ⟨hv.1, hv.2.1, valid_modifyDir d f hv.2.2 (by simpa using hd) hf⟩
  | [], _ :: _, _, _, h, _, _ => by simp [Valid] at h
  | _ :: _, [], _, _, h, _, _ => by simp [Valid] at h

theorem getD_bounds : ∀ {n ident : List Int} (d : Nat), Valid n ident → d < n.length →
    0 ≤ ident.getD d 0 ∧ ident.getD d 0 < n.getD d 1
  | [], [], _, _, h => by simp at h
  | n :: ns, i :: is, 0, hv, _ => by simp; exact ⟨hv.1, hv.2.1⟩
  | n :: ns, i :: is, d + 1, hv, hd => by
    simp only [List.getD_cons_succ]; exact getD_bounds d hv.2.2 (by simpa using hd)
  | [], _ :: _, _, h, _ => by simp [Valid] at h
  | _ :: _, [], _, h, _ => by simp [Valid] at h

theorem mapE_ok {β γ : Type} (f : β → Except String γ) (g : β → γ) :
    ∀ (l : List β), (∀ x ∈ l, f x = .ok (g x)) → mapE f l = .ok (l.map g)
  | [], _ => rfl
  | x :: xs, h => by
    simp only [mapE, h x (by simp), mapE_ok f g xs (fun y hy => h y (by simp [hy])), List.map_cons]

end
end JF.Cells
