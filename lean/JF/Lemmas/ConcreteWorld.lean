import JF.Model.ConcreteWorld
import JF.Lemmas.ActivatorWiring
/-
Lemmas for `JF/Props/Footprints.lean`: the concrete world of `JF/Model/ConcreteWorld.lean` as a `JF.Act.World`, and the pieces of
the proof that the hand-written footprint tables (`affects`, `reads`) are sound for it.  Core Lean only; every statement is
for an arbitrary scalar type.
-/
namespace JF.CW
open JF JF.Act

section
variable {α : Type}

/-! ### active units under `keep` / `snap` -/

theorem movers_map (f : PUnit α → PUnit α) (hf : ∀ u, Kin.isMoving (f u) = Kin.isMoving u) (us : List (PUnit α)) :
    movers (us.map f) = movers us := by
  unfold movers
  rw [List.length_map]
  apply List.filter_congr
  intro i _
  rw [List.getElem?_map]
  cases us[i]? <;> simp [hf]

theorem isMoving_snapUnit (d : Nat) (x : α) (u : PUnit α) :
    Kin.isMoving (if Kin.isMoving u then { u with pos := Kin.setCoord u.pos d x } else u) = Kin.isMoving u := by
  split <;> simp_all [Kin.isMoving]

variable [Add α] [Sub α] [Mul α] [LT α] [DecidableLT α] [BEq α]

theorem isMoving_timeSlice (o : Ops α) (L : List α) (t : Time α) (u : PUnit α) :
    Kin.isMoving (Kin.timeSlice o L t u) = Kin.isMoving u := by
  unfold Kin.timeSlice Kin.isMoving
  split <;> simp_all

/-- a commit whose kind has `affects · .ident = false` leaves the set of active units and the number of units alone -/
theorem movers_of_identQuiet {env : Env α} {kind : HandlerKind} {us us' : List (PUnit α)}
    (hk : quietKind kind = true ∨ kind = .cellBoundary)
    (h : (∃ ev : Kin.Ev α, allowedEv kind ev = true ∧ us' = Kin.step env.o env.L us ev) ∨ (kind = .dumping ∧ us' = us)) :
    movers us' = movers us ∧ us'.length = us.length := by
  rcases h with ⟨ev, hal, rfl⟩ | ⟨_, rfl⟩
  · have keep : ∀ t, movers (Kin.step env.o env.L us (.keep t)) = movers us ∧
        (Kin.step env.o env.L us (.keep t)).length = us.length := fun t =>
      ⟨movers_map _ (isMoving_timeSlice env.o env.L t) us, by simp [Kin.step]⟩
    have snap : ∀ t d x, movers (Kin.step env.o env.L us (.snap t d x)) = movers us ∧
        (Kin.step env.o env.L us (.snap t d x)).length = us.length := fun t d x => by
      refine ⟨?_, by simp [Kin.step]⟩
      show movers ((us.map _).map _) = _
      rw [movers_map _ (isMoving_snapUnit d x), movers_map _ (isMoving_timeSlice env.o env.L t)]
    cases ev with
    | keep t => exact keep t
    | snap t d x => exact snap t d x
    | start t a v => rcases hk with hk | hk <;> cases kind <;> simp_all [allowedEv, quietKind]
    | lift t b => rcases hk with hk | hk <;> cases kind <;> simp_all [allowedEv, quietKind]
    | endOfChain t a v => rcases hk with hk | hk <;> cases kind <;> simp_all [allowedEv, quietKind]
  · exact ⟨rfl, rfl⟩

end

/-! ### `SingleActiveCellOccupancy.update` -/

theorem update_same {s : Occ.State} {new : Occ.UnitIn} (h : s.activeId = some new.id) :
    Occ.update s new = .ok { s with activeCell := some new.cell } := by
  simp [Occ.update, h]

theorem update_irrelevant {s : Occ.State} {new : Occ.UnitIn} (h : s.activeId = none) (hr : new.relevant = false) :
    Occ.update s new = .ok { s with activeId := none, activeCell := none } := by
  simp [Occ.update, h, Occ.reinsertOld, Occ.activate, hr]

theorem dropEmpty_active (s : Occ.State) (c : Occ.Cell) :
    (Occ.dropEmpty s c).activeId = s.activeId ∧ (Occ.dropEmpty s c).activeCell = s.activeCell := by
  unfold Occ.dropEmpty
  split <;> simp

theorem insert_active (s : Occ.State) (c : Occ.Cell) (u : Occ.UId) :
    (Occ.insert s c u).activeId = s.activeId ∧ (Occ.insert s c u).activeCell = s.activeCell := by
  unfold Occ.insert
  split <;> simp

theorem activate_active {s1 s' : Occ.State} {new : Occ.UnitIn} (h : Occ.activate s1 new = .ok s') :
    s'.activeId = (if new.relevant then some new.id else none) ∧ s'.activeCell.isSome = s'.activeId.isSome := by
  unfold Occ.activate at h
  by_cases hr : new.relevant = true
  · simp only [hr, if_true] at h ⊢
    split at h
    · split at h
      · cases h
      · injection h with h; subst h
        simp [(dropEmpty_active _ _).1, (dropEmpty_active _ _).2]
    · split at h
      · cases h
      · split at h
        · injection h with h; subst h
          simp [(dropEmpty_active _ _).1, (dropEmpty_active _ _).2]
        · cases h
  · simp only [hr] at h ⊢
    injection h with h; subst h
    simp

/-- whatever branch `update` takes: the identifier it records afterwards, and `_active_cell` is set iff the identifier is -/
theorem update_active {s s' : Occ.State} {new : Occ.UnitIn} (h : Occ.update s new = .ok s') :
    s'.activeId = (if s.activeId = some new.id then some new.id else if new.relevant then some new.id else none) ∧
    s'.activeCell.isSome = s'.activeId.isSome := by
  by_cases hid : s.activeId = some new.id
  · rw [update_same hid] at h
    injection h with h; subst h
    simp [hid]
  · unfold Occ.update at h
    have hne : (some new.id != s.activeId) = true := by
      simp only [bne_iff_ne, ne_eq]; exact fun e => hid e.symm
    simp only [hne, if_true] at h
    cases hre : Occ.reinsertOld s with
    | error e => rw [hre] at h; cases h
    | ok s1 =>
      rw [hre] at h
      simp only [hid, if_false]
      exact activate_active h

/-! ### consistency is preserved by every commit -/

section
variable {α : Type}

theorem unitIn_id (env : Env α) (us : List (PUnit α)) (a : Nat) : (unitIn env us a).id = a := rfl
theorem unitIn_relevant (env : Env α) (us : List (PUnit α)) (a : Nat) : (unitIn env us a).relevant = env.relevant a := rfl

/-- what `occAfter … = some occ'` says when the activator has an internal state -/
theorem occAfter_some {env : Env α} {occ occ' : Occ.State} {us' : List (PUnit α)}
    (h : occAfter env true occ us' = some occ') :
    ∃ a, movers us' = [a] ∧ Occ.update occ (unitIn env us' a) = .ok occ' := by
  unfold occAfter at h
  simp only [if_true] at h
  split at h
  · next a hm =>
    refine ⟨a, hm, ?_⟩
    split at h
    · next s hs => injection h with h; subst h; exact hs
    · cases h
  · cases h

/-- **the carried occupancy stays consistent**: after any commit + update, whatever the event was -/
theorem consistent_after {env : Env α} {hasOcc : Bool} {g g' : CState α} (hc : Consistent env hasOcc g)
    (ho : occAfter env hasOcc g.occ g'.us = some g'.occ) : Consistent env hasOcc g' := by
  intro hh
  subst hh
  obtain ⟨a, hm, hu⟩ := occAfter_some ho
  obtain ⟨h1, h2⟩ := update_active hu
  refine ⟨?_, h2⟩
  rw [h1, hm, unitIn_id, unitIn_relevant]
  show _ = (if env.relevant a then some a else none)
  by_cases hid : g.occ.activeId = some a
  · -- same identifier: it was the expected one before, hence relevant
    simp only [hid, if_true]
    have := (hc rfl).1
    rw [hid] at this
    cases hmv : movers g.us with
    | nil => rw [hmv] at this; cases this
    | cons b rest =>
      cases rest with
      | nil =>
        rw [hmv] at this
        simp only [expectedActive] at this
        by_cases hr : env.relevant b = true
        · simp only [hr, if_true, Option.some.injEq] at this; subst this; simp [hr]
        · simp [hr] at this
      | cons _ _ => rw [hmv] at this; cases this
  · simp [hid]

/-- `SingleActiveCellOccupancy.initialize` records no active unit -/
theorem init_active (cap : Int) (units : List Occ.UnitIn) :
    (Occ.init cap units).activeId = none ∧ (Occ.init cap units).activeCell = none := by
  have key : ∀ (units : List Occ.UnitIn) (s : Occ.State),
      (units.foldl (fun s u => if u.relevant then Occ.insert s u.cell u.id else s) s).activeId = s.activeId ∧
      (units.foldl (fun s u => if u.relevant then Occ.insert s u.cell u.id else s) s).activeCell = s.activeCell := by
    intro units
    induction units with
    | nil => intro s; exact ⟨rfl, rfl⟩
    | cons u t ih =>
      intro s
      simp only [List.foldl_cons]
      obtain ⟨h1, h2⟩ := ih (if u.relevant then Occ.insert s u.cell u.id else s)
      rw [h1, h2]
      split
      · exact insert_active s u.cell u.id
      · exact ⟨rfl, rfl⟩
  exact key units (Occ.State.empty cap)

/-- the state before the start-of-run event (nothing moves, the occupancy freshly initialised) is consistent; with
`consistent_after` every state of a run that starts there is -/
theorem consistent_at_rest (env : Env α) (hasOcc : Bool) (us : List (PUnit α)) (cap : Int) (units : List Occ.UnitIn)
    (h : movers us = []) : Consistent env hasOcc ⟨us, Occ.init cap units⟩ := by
  intro _
  simp [h, expectedActive, (init_active cap units).1, (init_active cap units).2]

/-! ### the cell taggers after a commit that is quiet on the identity -/

/-- a commit that keeps the active unit: the occupancy either is unchanged except for `_active_cell`, or is unchanged -/
theorem occ_after_same_mover {env : Env α} {g g' : CState α} (hc : Consistent env true g)
    (ho : occAfter env true g.occ g'.us = some g'.occ) (hm : movers g'.us = movers g.us) :
    ∃ a, movers g'.us = [a] ∧
      ((env.relevant a = true ∧ g.occ.activeId = some a ∧
          g'.occ = { g.occ with activeCell := some (unitIn env g'.us a).cell }) ∨
       (env.relevant a = false ∧ g.occ.activeId = none ∧ g'.occ = g.occ)) := by
  obtain ⟨a, hma, hu⟩ := occAfter_some ho
  refine ⟨a, hma, ?_⟩
  obtain ⟨h1, h2⟩ := hc rfl
  rw [← hm, hma] at h1
  simp only [expectedActive] at h1
  by_cases hr : env.relevant a = true
  · left
    simp only [hr, if_true] at h1
    rw [update_same (by rw [unitIn_id]; exact h1)] at hu
    injection hu with hu
    exact ⟨hr, h1, hu.symm⟩
  · right
    have hr' : env.relevant a = false := by simpa using hr
    simp only [hr', Bool.false_eq_true, if_false] at h1
    rw [update_irrelevant h1 (by rw [unitIn_relevant]; exact hr')] at hu
    injection hu with hu
    refine ⟨hr', h1, ?_⟩
    rw [← hu]
    have hcell : g.occ.activeCell = none := by
      rw [h1] at h2
      cases hx : g.occ.activeCell with
      | none => rfl
      | some _ => rw [hx] at h2; simp at h2
    cases hg : g.occ with
    | mk cap occupants surplus activeId activeCell =>
      rw [hg] at h1 hcell
      simp only at h1 hcell
      subst h1; subst hcell; rfl

/-- `CellBoundaryTagger` / `CellVetoTagger` yield `(active_identifier,)`: unchanged while the active unit is the same -/
theorem veto_same {env : Env α} {g g' : CState α} (hc : Consistent env true g)
    (ho : occAfter env true g.occ g'.us = some g'.occ) (hm : movers g'.us = movers g.us) :
    CellTaggers.cellVetoTagger (tocc env g'.occ) = CellTaggers.cellVetoTagger (tocc env g.occ) := by
  obtain ⟨a, _, h | h⟩ := occ_after_same_mover hc ho hm
  · obtain ⟨_, hid, ho'⟩ := h
    have h2 := (hc rfl).2
    rw [hid] at h2
    cases hx : g.occ.activeCell with
    | none => rw [hx] at h2; simp at h2
    | some c0 =>
      rw [ho']
      simp [CellTaggers.cellVetoTagger, tocc, hid, hx]
  · rw [h.2.2]

/-- a quiet commit under the premise leaves the whole occupancy as it is -/
theorem occ_quiet {env : Env α} {g g' : CState α} (hc : Consistent env true g)
    (ho : occAfter env true g.occ g'.us = some g'.occ) (hm : movers g'.us = movers g.us)
    (hp : StaysInRecordedCell env g.occ g'.us) : g'.occ = g.occ := by
  obtain ⟨a, hma, h | h⟩ := occ_after_same_mover hc ho hm
  · obtain ⟨hr, _, ho'⟩ := h
    have := hp a hma hr
    rw [ho', ← this]
  · exact h.2.2

end

/-- the global state after a commit is the one committed -/
theorem commit_g {G : Type} {w : Wires} {W : World G} {rs rs' : RS G} {E : TaggerIdx} {g' : G}
    (e : commit w W rs E g' = some rs') : rs'.g = g' := by
  unfold commit at e
  split at e
  · cases e
  · injection e with e; subst e; rfl

/-! ### the world -/

section
variable {α : Type}

/-- global states of the world of configuration `c`: point masses + carried occupancy, consistent with each other -/
def G (env : Env α) (c : Wiring) : Type := { g : CState α // Consistent env (hasOccOf c) g }

/-- the concrete world of configuration `c` -/
def world (env : Env α) (c : Wiring) : World (G env c) :=
  { yieldOf := fun T g => yieldCls env (c.tagger T).cls g.1
    view := fun T => viewOf (c.tagger T)
    live := fun T => T < c.n ∧ (c.tagger T).kind ≠ .startOfRun }

theorem liveIs (env : Env α) (c : Wiring) : LiveIs c (world env c) := fun _ => Iff.rfl

variable [Add α] [Sub α] [Mul α] [LT α] [DecidableLT α] [BEq α]

/-- the transition relation of configuration `c`: a commit by a handler of tagger `E` -/
def Tr (env : Env α) (c : Wiring) (E : TaggerIdx) (g g' : G env c) : Prop :=
  TrRaw env (hasOccOf c) (c.tagger E).kind g.1 g'.1

/-- nothing is lost by restricting to consistent states: a raw transition from a consistent state ends in one -/
theorem trRaw_consistent {env : Env α} {hasOcc : Bool} {kind : HandlerKind} {g g' : CState α}
    (hc : Consistent env hasOcc g) (h : TrRaw env hasOcc kind g g') : Consistent env hasOcc g' :=
  consistent_after hc h.2.1

end

/-! ### reading `disjointFP` and `Supported` -/

theorem disjoint_ident {c : Wiring} {e t : TaggerW} (h : disjointFP c e t = true) :
    affects e .ident = true → reads t .ident = false := by
  unfold disjointFP at h
  have := List.all_eq_true.mp h .ident (by simp [aspects])
  intro ha
  simpa [ha] using this

theorem disjoint_cell0 {c : Wiring} {e t : TaggerW} (hl : c.labels.length = 1) (h : disjointFP c e t = true) :
    affects e (.cell 0) = true → reads t (.cell 0) = false := by
  unfold disjointFP at h
  have := List.all_eq_true.mp h (.cell 0) (by simp [aspects, hl])
  intro ha
  simpa [ha] using this

/-- every tagger index of a supported wiring: a tagger of this world, or (out of range) the default tagger -/
theorem supported_tagger {c : Wiring} (hs : Supported c = true) (i : TaggerIdx) :
    okT c.labels.length (c.tagger i) = true ∨ ((c.tagger i).cls = .unknown ∧ (c.tagger i).kind = .unknown) := by
  by_cases hi : i < c.n
  · left
    unfold Supported at hs
    simp only [Bool.and_eq_true] at hs
    exact List.all_eq_true.mp hs.2 _ (tagger_mem c hi)
  · right
    have : c.taggers.length ≤ i := Nat.le_of_not_lt hi
    simp [Wiring.tagger, List.getElem?_eq_none this]

theorem supported_labels {c : Wiring} (hs : Supported c = true) : c.labels.length ≤ 1 := by
  unfold Supported at hs
  simp only [Bool.and_eq_true, decide_eq_true_eq] at hs
  exact hs.1

end JF.CW
