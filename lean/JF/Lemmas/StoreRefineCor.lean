import JF.Lemmas.StoreRefineRead
import JF.Lemmas.StoreFrame
/-!
Facts about the purely functional specification `Spec` alone that are behind the corollaries of
`JF/Props/C13Refine.lean` (no heap, no reference occurs in a statement of this file):

* `AgreeOff b S S'` — two specification states that differ at most in the *values* of held branch `b`;
  `mutate_agreeOff` (a mutation through `b` produces such a state), `step_agreeOff`, `run_agreeOff`
  (every operation that does not hand `b` to `insert` keeps the relation and yields the same outcome
  token, except for the outcome of a further mutation of `b` itself);
* `step_g_of_not_insert`, `run_g_of_no_insert` — only `insert` changes the global part;
* `extract_reads`, `mapM_extract_ok` — what an extraction reads;
* `mem_independent`, `mem_independent_one` — the independent-active rule on values.
-/
set_option linter.unusedSimpArgs false
namespace JF.Store
variable {α : Type}

/-- `op` hands held branch `b` (or one of its cnodes) to `insert_into_global_state` -/
def Op.Inserts (b : Nat) : Op α → Prop
  | .insert sel => b ∈ sel.map (·.1)
  | _ => False

instance (b : Nat) (op : Op α) : Decidable (op.Inserts b) := by
  unfold Op.Inserts; split <;> infer_instance

namespace Spec

/-! ### states that differ at most in the values of one held branch -/

/-- `S` and `S'` have the same global part, the same number of held branches with the same ghost
flags, and the same values in every held branch other than `b` -/
structure AgreeOff (b : Nat) (S S' : Spec α) : Prop where
  g : S.g = S'.g
  len : S.held.length = S'.held.length
  flag : ∀ j : Nat, S.held[j]?.map (·.2) = S'.held[j]?.map (·.2)
  other : ∀ j : Nat, j ≠ b → S.held[j]? = S'.held[j]?

theorem AgreeOff.refl (b : Nat) (S : Spec α) : AgreeOff b S S := ⟨rfl, rfl, fun _ => rfl, fun _ _ => rfl⟩

theorem AgreeOff.symm {b : Nat} {S S' : Spec α} (A : AgreeOff b S S') : AgreeOff b S' S :=
  ⟨A.g.symm, A.len.symm, fun j => (A.flag j).symm, fun j hj => (A.other j hj).symm⟩

theorem AgreeOff.trans {b : Nat} {S1 S2 S3 : Spec α} (A : AgreeOff b S1 S2) (B : AgreeOff b S2 S3) :
    AgreeOff b S1 S3 :=
  ⟨A.g.trans B.g, A.len.trans B.len, fun j => (A.flag j).trans (B.flag j),
    fun j hj => (A.other j hj).trans (B.other j hj)⟩

theorem getElem?_setHeld (held : List (List (UVal α) × Bool)) (b u : Nat) (x : UVal α) (j : Nat) :
    (setHeld held b u x)[j]? = (held[j]?).map fun L => if b = j then (L.1.set u x, L.2) else L := by
  simp only [setHeld, List.getElem?_modify]
  rfl

/-- **Isolation on values.**  A mutation through held branch `b` — whatever it does — leaves the global
part, the number of held branches, all ghost flags and every other held branch as they are. -/
theorem mutate_agreeOff (S : Spec α) (b u : Nat) (f : UVal α → Except Err (UVal α)) :
    AgreeOff b (mutate S b u f).1 S := by
  simp only [mutate]
  cases getHeld S.held b u with
  | none => exact AgreeOff.refl b S
  | some c =>
    dsimp only
    cases f c with
    | error e => exact AgreeOff.refl b S
    | ok c' =>
      dsimp only
      refine ⟨rfl, by simp [setHeld], ?_, ?_⟩
      · intro j
        simp only [getElem?_setHeld, Option.map_map]
        cases S.held[j]? with
        | none => rfl
        | some L => simp only [Option.map_some, Function.comp]; split <;> rfl
      · intro j hj
        simp only [getElem?_setHeld, if_neg (Ne.symm hj)]
        cases S.held[j]? <;> rfl

/-- the six mutations are instances of `mutate` -/
theorem step_eq_mutate {op : Op α} {b : Nat} (ht : op.target = some b) :
    ∃ (u : Nat) (f : UVal α → Except Err (UVal α)), ∀ S : Spec α, step S op = mutate S b u f := by
  cases op with
  | setPos b' u i x => simp only [Op.target, Option.some.injEq] at ht; subst ht; exact ⟨u, _, fun _ => rfl⟩
  | newPos b' u xs =>
    simp only [Op.target, Option.some.injEq] at ht; subst ht
    exact ⟨u, fun c => .ok { c with pos := some (.vec xs) }, fun _ => rfl⟩
  | setVel b' u i x => simp only [Op.target, Option.some.injEq] at ht; subst ht; exact ⟨u, _, fun _ => rfl⟩
  | newVel b' u xs =>
    simp only [Op.target, Option.some.injEq] at ht; subst ht
    exact ⟨u, fun c => .ok { c with vel := xs.map fun xs => some (.vec xs) }, fun _ => rfl⟩
  | tsUpdate b' u q r => simp only [Op.target, Option.some.injEq] at ht; subst ht; exact ⟨u, _, fun _ => rfl⟩
  | newTs b' u t =>
    simp only [Op.target, Option.some.injEq] at ht; subst ht
    exact ⟨u, fun c => .ok { c with ts := t.map fun qr => some (.time qr.1 qr.2) }, fun _ => rfl⟩
  | extract id => simp [Op.target] at ht
  | active => simp [Op.target] at ht
  | global => simp [Op.target] at ht
  | insert sel => simp [Op.target] at ht

/-- a mutation through held branch `b` changes at most the values of that held branch -/
theorem step_mutation_agreeOff (S : Spec α) {op : Op α} {b : Nat} (ht : op.target = some b) :
    AgreeOff b (step S op).1 S := by
  obtain ⟨u, f, h⟩ := step_eq_mutate ht
  rw [h]
  exact mutate_agreeOff S b u f

theorem agreeOff_append {b : Nat} {S S' : Spec α} (A : AgreeOff b S S') (x : List (List (UVal α) × Bool)) :
    AgreeOff b ⟨S.g, S.held ++ x⟩ ⟨S.g, S'.held ++ x⟩ := by
  refine ⟨rfl, by simp [A.len], ?_, ?_⟩
  · intro j
    by_cases hj : j < S.held.length
    · rw [List.getElem?_append_left hj, List.getElem?_append_left (A.len ▸ hj)]
      exact A.flag j
    · rw [List.getElem?_append_right (by omega), List.getElem?_append_right (by rw [← A.len]; omega), A.len]
  · intro j hb
    by_cases hj : j < S.held.length
    · rw [List.getElem?_append_left hj, List.getElem?_append_left (A.len ▸ hj)]
      exact A.other j hb
    · rw [List.getElem?_append_right (by omega), List.getElem?_append_right (by rw [← A.len]; omega), A.len]

theorem mapM_pick_congr {held held' : List (List (UVal α) × Bool)} : ∀ (sel : List (Nat × Nat)),
    (∀ s ∈ sel, held[s.1]? = held'[s.1]?) → sel.mapM (pick held) = sel.mapM (pick held') := by
  intro sel
  induction sel with
  | nil => intro _; rfl
  | cons s sel ih =>
    intro h
    rw [List.mapM_cons, List.mapM_cons, ih (fun t ht => h t (List.mem_cons_of_mem _ ht))]
    have : pick held s = pick held' s := by simp only [pick, h s (by simp)]
    rw [this]

/-- an operation that obeys the discipline in `S` obeys it in every state with the same ghost flags -/
theorem AgreeOff.disciplined {b : Nat} {S S' : Spec α} (A : AgreeOff b S S') (op : Op α) :
    Disciplined S op ↔ Disciplined S' op := by
  simp only [Disciplined]
  cases op.inPlace with
  | none => exact Iff.rfl
  | some b' => simp only [A.flag b']

/-- **One later step.**  From two states that differ at most in held branch `b`, an operation that does
not hand `b` to `insert` leads to two states that differ at most in held branch `b`; and unless the
operation is itself a mutation of `b`, its outcome token is the same. -/
theorem step_agreeOff {b : Nat} {S S' : Spec α} (A : AgreeOff b S S') (op : Op α) (hni : ¬ op.Inserts b) :
    AgreeOff b (step S op).1 (step S' op).1 ∧ (op.target ≠ some b → (step S op).2 = (step S' op).2) := by
  by_cases ht : ∃ b', op.target = some b'
  · obtain ⟨b', ht⟩ := ht
    by_cases hb : b' = b
    · subst hb
      exact ⟨((step_mutation_agreeOff S ht).trans A).trans (step_mutation_agreeOff S' ht).symm,
        fun h => absurd ht h⟩
    · obtain ⟨u, f, h⟩ := step_eq_mutate ht
      have hget : getHeld S.held b' u = getHeld S'.held b' u := by simp only [getHeld, A.other b' hb]
      rw [h, h]
      simp only [mutate, hget]
      cases getHeld S'.held b' u with
      | none => exact ⟨A, fun _ => rfl⟩
      | some c =>
        dsimp only
        cases f c with
        | error e => exact ⟨A, fun _ => rfl⟩
        | ok c' =>
          dsimp only
          refine ⟨⟨A.g, by simp [setHeld, A.len], ?_, ?_⟩, fun _ => rfl⟩
          · intro j
            have := A.flag j
            simp only [getElem?_setHeld, Option.map_map]
            cases h1 : S.held[j]? with
            | none =>
              cases h2 : S'.held[j]? with
              | none => rfl
              | some L' => simp [h1, h2] at this
            | some L =>
              cases h2 : S'.held[j]? with
              | none => simp [h1, h2] at this
              | some L' =>
                simp only [h1, h2, Option.map_some, Option.some.injEq] at this
                simp only [Option.map_some, Function.comp, Option.some.injEq]
                split <;> exact this
          · intro j hj
            simp only [getElem?_setHeld, A.other j hj]
  · have htn : op.target = none := by
      cases h : op.target with
      | none => rfl
      | some b' => exact absurd ⟨b', h⟩ ht
    cases op with
    | extract id =>
      simp only [step, ← A.g]
      cases extract S.g id with
      | error e => exact ⟨A, fun _ => rfl⟩
      | ok us => exact ⟨agreeOff_append A _, fun _ => rfl⟩
    | active =>
      simp only [step, ← A.g]
      cases (independent S.g).mapM (extract S.g) with
      | error e => exact ⟨A, fun _ => rfl⟩
      | ok bs => exact ⟨agreeOff_append A _, fun _ => rfl⟩
    | global =>
      simp only [step, ← A.g]
      exact ⟨agreeOff_append A _, fun _ => trivial⟩
    | insert sel =>
      simp only [Op.Inserts] at hni
      have hp : sel.mapM (pick S.held) = sel.mapM (pick S'.held) :=
        mapM_pick_congr sel (fun s hs => A.other s.1 (fun h => hni (h ▸ List.mem_map_of_mem hs)))
      simp only [step, ← hp, ← A.g]
      cases sel.mapM (pick S.held) with
      | none => exact ⟨A, fun _ => rfl⟩
      | some bs =>
        refine ⟨⟨rfl, by simp [A.len], ?_, ?_⟩, fun _ => rfl⟩
        · intro j
          have := A.flag j
          simp only [List.getElem?_mapIdx, Option.map_map]
          cases h1 : S.held[j]? with
          | none =>
            cases h2 : S'.held[j]? with
            | none => rfl
            | some L' => simp [h1, h2] at this
          | some L =>
            cases h2 : S'.held[j]? with
            | none => simp [h1, h2] at this
            | some L' =>
              simp only [h1, h2, Option.map_some, Option.some.injEq] at this
              simp only [Option.map_some, Function.comp, Option.some.injEq]
              split
              · rfl
              · exact this
        · intro j hj
          simp only [List.getElem?_mapIdx, A.other j hj]
    | setPos _ _ _ _ => simp [Op.target] at htn
    | newPos _ _ _ => simp [Op.target] at htn
    | setVel _ _ _ _ => simp [Op.target] at htn
    | newVel _ _ _ => simp [Op.target] at htn
    | tsUpdate _ _ _ _ => simp [Op.target] at htn
    | newTs _ _ _ => simp [Op.target] at htn

/-- **Every later observable.**  From two states that differ at most in held branch `b`, any history that
never hands `b` to `insert` ends in two states that differ at most in held branch `b` (same global part,
same values of every other held branch), and every outcome token is the same, except possibly those of
further mutations of `b` itself. -/
theorem run_agreeOff {b : Nat} (ops : List (Op α)) : ∀ {S S' : Spec α}, AgreeOff b S S' →
    (∀ op ∈ ops, ¬ op.Inserts b) →
    AgreeOff b (run S ops).1 (run S' ops).1 ∧
    ∀ (k : Nat) (op : Op α), ops[k]? = some op → op.target ≠ some b → (run S ops).2[k]? = (run S' ops).2[k]? := by
  induction ops with
  | nil => intro S S' A _; exact ⟨A, fun k op h => by simp at h⟩
  | cons o ops ih =>
    intro S S' A hni
    obtain ⟨A1, t1⟩ := step_agreeOff A o (hni o (by simp))
    obtain ⟨A2, t2⟩ := ih A1 (fun op hop => hni op (List.mem_cons_of_mem _ hop))
    refine ⟨A2, ?_⟩
    intro k op hk hne
    cases k with
    | zero =>
      simp only [List.getElem?_cons_zero, Option.some.injEq] at hk
      subst hk
      simp only [run, List.getElem?_cons_zero, t1 hne]
    | succ k =>
      simp only [List.getElem?_cons_succ] at hk
      simp only [run, List.getElem?_cons_succ]
      exact t2 k op hk hne

/-- the discipline along a history depends on the ghost flags only -/
theorem disciplinedRun_agreeOff {b : Nat} (ops : List (Op α)) : ∀ {S S' : Spec α}, AgreeOff b S S' →
    (∀ op ∈ ops, ¬ op.Inserts b) → (DisciplinedRun S ops ↔ DisciplinedRun S' ops) := by
  induction ops with
  | nil => intro S S' _ _; exact Iff.rfl
  | cons o ops ih =>
    intro S S' A hni
    simp only [DisciplinedRun]
    rw [A.disciplined o, ih (step_agreeOff A o (hni o (by simp))).1 (fun op hop => hni op (List.mem_cons_of_mem _ hop))]

/-! ### only `insert` changes the global part -/

/-- **Between two commits the global state does not change**: every operation other than `insert`
leaves the global part as it is. -/
theorem step_g_of_not_insert (S : Spec α) (op : Op α) (hi : op.isInsert = false) : (step S op).1.g = S.g := by
  cases ht : op.target with
  | some b => exact (step_mutation_agreeOff S ht).g
  | none =>
    cases op with
    | extract id => simp only [step]; split <;> rfl
    | active => simp only [step]; split <;> rfl
    | global => rfl
    | insert sel => simp [Op.isInsert] at hi
    | setPos _ _ _ _ => simp [Op.target] at ht
    | newPos _ _ _ => simp [Op.target] at ht
    | setVel _ _ _ _ => simp [Op.target] at ht
    | newVel _ _ _ => simp [Op.target] at ht
    | tsUpdate _ _ _ _ => simp [Op.target] at ht
    | newTs _ _ _ => simp [Op.target] at ht

theorem run_g_of_no_insert (ops : List (Op α)) : ∀ (S : Spec α), (∀ op ∈ ops, op.isInsert = false) →
    (run S ops).1.g = S.g := by
  induction ops with
  | nil => intro S _; rfl
  | cons o ops ih =>
    intro S h
    simp only [run]
    rw [ih _ (fun op hop => h op (List.mem_cons_of_mem _ hop)), step_g_of_not_insert S o (h o (by simp))]

/-- what `extract_global_state` shows: one branch of values per root -/
def snapshot (g : Global α) : List (List (UVal α)) := (List.range g.phys.length).map fun r => branch g [r]

/-! ### what an extraction reads -/

theorem mem_branchIds_self {g : Global α} {id : Ident} (h : (unitAt g id).isSome = true) : id ∈ branchIds g id := by
  match id with
  | [] => simp [unitAt, node] at h
  | [r] => simp [branchIds]
  | [r, c] => simp [branchIds]
  | _ :: _ :: _ :: _ => simp [unitAt, node] at h

/-- a successful extraction of `id` is `branch g id`, and it contains what is stored under `id` -/
theorem extract_reads {g : Global α} {id : Ident} {us : List (UVal α)} (h : extract g id = .ok us) :
    us = (branchIds g id).filterMap (unitAt g) ∧ ∃ v, unitAt g id = some v ∧ v ∈ us := by
  simp only [extract] at h
  split at h
  · rename_i hs
    simp only [Except.ok.injEq] at h
    subst h
    refine ⟨rfl, ?_⟩
    obtain ⟨v, hv⟩ := Option.isSome_iff_exists.1 hs
    exact ⟨v, hv, List.mem_filterMap.2 ⟨id, mem_branchIds_self hs, hv⟩⟩
  · cases h

theorem extract_ok_of_isSome {g : Global α} {id : Ident} (h : (unitAt g id).isSome = true) :
    extract g id = .ok (branch g id) := by
  simp [extract, h]

theorem mapM_extract_ok {g : Global α} : ∀ {ids : List Ident} {bs : List (List (UVal α))},
    ids.mapM (extract g) = .ok bs → bs = ids.map (branch g) := by
  intro ids
  induction ids with
  | nil =>
    intro bs h
    simp only [List.mapM_nil] at h
    cases h
    rfl
  | cons id ids ih =>
    intro bs h
    rw [List.mapM_cons] at h
    cases h1 : extract g id with
    | error e => rw [h1] at h; cases h
    | ok us =>
      cases h2 : ids.mapM (extract g) with
      | error e => rw [h1, h2] at h; cases h
      | ok bs' =>
        rw [h1, h2] at h
        have hb : bs = us :: bs' := by cases h; rfl
        have hu : us = branch g id := (extract_reads h1).1
        rw [hb, hu, ih h2]
        rfl

/-! ### the independent-active rule -/

/-- `id` is active: it has a velocity and a time stamp in the lifting state -/
def active (g : Global α) (id : Ident) : Prop := (g.lift.lookup id).isSome = true

theorem mem_keys_iff {β : Type} (d : List (Ident × β)) (id : Ident) :
    id ∈ d.map (·.1) ↔ (d.lookup id).isSome = true := by
  induction d with
  | nil => simp
  | cons e d ih =>
    obtain ⟨k, x⟩ := e
    simp only [List.map_cons, List.mem_cons, List.lookup_cons]
    by_cases hk : id = k
    · subst hk; simp
    · simp only [hk, false_or, beq_false_of_ne hk, ih]

theorem mem_lifted {g : Global α} {n : Nat} (hn : n ≤ g.levels) (id : Ident) :
    id ∈ lifted g n ↔ id.length = n ∧ active g id := by
  simp only [lifted, hn, if_true, List.mem_filter, mem_keys_iff, decide_eq_true_eq, active]
  exact And.comm

/-- **Active extraction = the independent active units (two levels).**  The identifiers
`extract_active_global_state` extracts are, for every active composite object `[r]`, the object itself
if all its `perRoot` point masses are active, otherwise its active point masses. -/
theorem mem_independent {g : Global α} (hlv : g.levels = 2) (id : Ident) :
    id ∈ independent g ↔ ∃ r, active g [r] ∧
      ((id = [r] ∧ ∀ i, i < g.perRoot → active g [r, i]) ∨
       ((¬ ∀ i, i < g.perRoot → active g [r, i]) ∧ ∃ i, i < g.perRoot ∧ id = [r, i] ∧ active g [r, i])) := by
  have hl1 : ¬ g.levels = 1 := by rw [hlv]; decide
  have m1 := mem_lifted (g := g) (n := 1) (by rw [hlv]; decide)
  have m2 := mem_lifted (g := g) (n := 2) (by rw [hlv]; decide)
  simp only [independent, hl1, if_false, List.mem_flatMap]
  have full : ∀ r : Nat,
      (((List.range g.perRoot).map (fun i => [r] ++ [i])).filter (· ∈ lifted g 2)).length = g.perRoot ↔
        ∀ i, i < g.perRoot → active g [r, i] := by
    intro r
    have : ((List.range g.perRoot).map (fun i => [r] ++ [i])).length = g.perRoot := by simp
    conv => lhs; rhs; rw [← this]
    rw [List.length_filter_eq_length_iff]
    simp only [List.mem_map, List.mem_range, decide_eq_true_eq, forall_exists_index, and_imp]
    constructor
    · intro h i hi
      have := h _ i hi rfl
      exact ((m2 _).1 this).2
    · intro h x i hi hx
      subst hx
      exact (m2 _).2 ⟨rfl, h i hi⟩
  constructor
  · rintro ⟨root, hroot, hid⟩
    obtain ⟨hlen, hl⟩ := (m1 root).1 hroot
    obtain ⟨r, rfl⟩ : ∃ r, root = [r] := by
      match root, hlen with
      | [r], _ => exact ⟨r, rfl⟩
    refine ⟨r, hl, ?_⟩
    by_cases hf : ∀ i, i < g.perRoot → active g [r, i]
    · left
      rw [if_pos ((full r).2 hf)] at hid
      exact ⟨by simpa using hid, hf⟩
    · right
      rw [if_neg (fun h => hf ((full r).1 h))] at hid
      simp only [List.mem_filter, List.mem_map, List.mem_range, decide_eq_true_eq] at hid
      obtain ⟨⟨i, hi, rfl⟩, h2⟩ := hid
      exact ⟨hf, i, hi, rfl, ((m2 _).1 h2).2⟩
  · rintro ⟨r, hl, h⟩
    refine ⟨[r], (m1 _).2 ⟨rfl, hl⟩, ?_⟩
    rcases h with ⟨rfl, hf⟩ | ⟨hf, i, hi, rfl, hli⟩
    · rw [if_pos ((full r).2 hf)]; simp
    · rw [if_neg (fun h => hf ((full r).1 h))]
      simp only [List.mem_filter, List.mem_map, List.mem_range, decide_eq_true_eq]
      exact ⟨⟨i, hi, rfl⟩, (m2 _).2 ⟨rfl, hli⟩⟩

/-- one level: every active unit is independent -/
theorem mem_independent_one {g : Global α} (h1 : g.levels = 1) (id : Ident) :
    id ∈ independent g ↔ active g id := by
  simp only [independent, h1, if_true, mem_keys_iff, active]

end Spec
end JF.Store

namespace JF.Store
variable {α : Type}

/-- the discipline along a concrete history can be evaluated -/
instance Spec.decDisciplinedRun : ∀ (S : Spec α) (ops : List (Op α)), Decidable (Spec.DisciplinedRun S ops)
  | _, [] => isTrue trivial
  | S, op :: ops =>
    have := Spec.decDisciplinedRun (Spec.step S op).1 ops
    inferInstanceAs (Decidable (Spec.Disciplined S op ∧ Spec.DisciplinedRun (Spec.step S op).1 ops))

theorem Spec.disciplined_of_not_inPlace (S : Spec α) {op : Op α} (h : op.inPlace = none) : Spec.Disciplined S op := by
  simp only [Spec.Disciplined, h]

end JF.Store
