import JF.Model.Composite
import JF.Lemmas.PyArith
import Mathlib.Tactic.Linarith
import Mathlib.Tactic.Ring
import Mathlib.Tactic.FieldSimp
/-!
Helper lemmas for C12, part 1: list vectors in the exact reading (`α = ℚ`), congruence modulo a box length,
time-slicing of one unit, sums over the leaves of a composite object.
-/
namespace JF.Composite
open JF JF.Kin

/-! ### vectors -/

theorem getD_vscale (v : List ℚ) (w : ℚ) (k : Nat) : (vscale v w).getD k 0 = v.getD k 0 * w := by
  unfold vscale
  rw [List.getD_eq_getElem?_getD, List.getD_eq_getElem?_getD, List.getElem?_map]
  cases v[k]? <;> simp

theorem getD_vneg (v : List ℚ) (k : Nat) : (vneg v).getD k 0 = - v.getD k 0 := by
  unfold vneg
  rw [List.getD_eq_getElem?_getD, List.getD_eq_getElem?_getD, List.getElem?_map]
  cases v[k]? <;> simp

theorem getD_vadd : ∀ (a b : List ℚ), a.length = b.length → ∀ k : Nat,
    (vadd a b).getD k 0 = a.getD k 0 + b.getD k 0
  | [], [], _, k => by simp [vadd]
  | [], _ :: _, h, _ => by simp at h
  | _ :: _, [], h, _ => by simp at h
  | x :: a, y :: b, h, 0 => by simp [vadd]
  | x :: a, y :: b, h, k + 1 => by
    have := getD_vadd a b (by simpa using h) k
    simpa [vadd] using this

@[simp] theorem length_vscale (v : List ℚ) (w : ℚ) : (vscale v w).length = v.length := by simp [vscale]
@[simp] theorem length_vneg (v : List ℚ) : (vneg v).length = v.length := by simp [vneg]
theorem length_vadd (a b : List ℚ) (h : a.length = b.length) : (vadd a b).length = a.length := by
  simp [vadd, h]

@[simp] theorem scale1_rat (v : List ℚ) : scale1 Ops.rat v = v := by
  simp [scale1, vscale, one, Ops.rat]

@[simp] theorem scaleN_rat : ∀ (k : Nat) (v : List ℚ), scaleN Ops.rat k v = v
  | 0, v => rfl
  | k + 1, v => by simp [scaleN, scaleN_rat k]

@[simp] theorem length_zeros (v : List ℚ) : (zeros Ops.rat v).length = v.length := by simp [zeros]

theorem zeros_all (v : List ℚ) : (zeros Ops.rat v).all (fun c => c == 0) = true := by
  simp [zeros, Ops.rat]

/-- a vector is non-zero -/
def NZ (v : List ℚ) : Prop := ∃ k, v.getD k 0 ≠ 0

theorem all_zero_getD : ∀ (v : List ℚ), v.all (fun c => c == 0) = true → ∀ k, v.getD k 0 = 0
  | [], _, k => by simp
  | x :: v, h, 0 => by simp at h; simp [h.1]
  | x :: v, h, k + 1 => by
    simp at h
    have := all_zero_getD v (by simpa using h.2) k
    simpa using this

theorem not_all_zero_NZ : ∀ (v : List ℚ), v.all (fun c => c == 0) = false → NZ v
  | [], h => by simp at h
  | x :: v, h => by
    by_cases hx : x = 0
    · have : v.all (fun c => c == 0) = false := by simpa [hx] using h
      obtain ⟨k, hk⟩ := not_all_zero_NZ v this
      exact ⟨k + 1, by simpa using hk⟩
    · exact ⟨0, by simpa using hx⟩

theorem NZ_not_all_zero (v : List ℚ) (h : NZ v) : v.all (fun c => c == 0) = false := by
  cases hh : v.all (fun c => c == 0)
  · rfl
  · obtain ⟨k, hk⟩ := h
    exact absurd (all_zero_getD v hh k) hk

/-! ### congruence modulo a box length -/

/-- `x ≡ y (mod l)` with an explicit integer shift -/
def Cong (l x y : ℚ) : Prop := ∃ z : ℤ, x - y = z * l

theorem Cong.refl (l x : ℚ) : Cong l x x := ⟨0, by simp⟩
theorem Cong.of_eq {l x y : ℚ} (h : x = y) : Cong l x y := h ▸ Cong.refl l x
theorem Cong.symm {l x y : ℚ} (h : Cong l x y) : Cong l y x := by
  obtain ⟨z, hz⟩ := h; exact ⟨-z, by push_cast; linarith⟩
theorem Cong.trans {l x y w : ℚ} (h : Cong l x y) (h' : Cong l y w) : Cong l x w := by
  obtain ⟨z, hz⟩ := h; obtain ⟨z', hz'⟩ := h'; exact ⟨z + z', by push_cast; linarith⟩
theorem Cong.add {l x y x' y' : ℚ} (h : Cong l x y) (h' : Cong l x' y') : Cong l (x + x') (y + y') := by
  obtain ⟨z, hz⟩ := h; obtain ⟨z', hz'⟩ := h'; exact ⟨z + z', by push_cast; linarith⟩
theorem Cong.nat_mul {l x y : ℚ} (n : Nat) (h : Cong l x y) : Cong l (n * x) (n * y) := by
  obtain ⟨z, hz⟩ := h; exact ⟨n * z, by push_cast; rw [← mul_sub, hz]; ring⟩

theorem Cong.sum_map {β : Type} (l : ℚ) (f g : β → ℚ) : ∀ (xs : List β), (∀ x ∈ xs, Cong l (f x) (g x)) →
    Cong l (xs.map f).sum (xs.map g).sum
  | [], _ => by simpa using Cong.refl l 0
  | x :: xs, h => by
    simp only [List.map_cons, List.sum_cons]
    exact Cong.add (h x (by simp)) (Cong.sum_map l f g xs (fun y hy => h y (by simp [hy])))

/-! ### sums over lists -/

theorem sum_map_add' {β : Type} (f g : β → ℚ) : ∀ xs : List β,
    (xs.map (fun x => f x + g x)).sum = (xs.map f).sum + (xs.map g).sum
  | [] => by simp
  | x :: xs => by simp [sum_map_add' f g xs]; ring

theorem sum_map_mul_const {β : Type} (f : β → ℚ) (c : ℚ) : ∀ xs : List β,
    (xs.map (fun x => f x * c)).sum = (xs.map f).sum * c
  | [] => by simp
  | x :: xs => by simp [sum_map_mul_const f c xs]; ring

theorem sum_map_congr {β : Type} (f g : β → ℚ) : ∀ xs : List β, (∀ x ∈ xs, f x = g x) →
    (xs.map f).sum = (xs.map g).sum
  | [], _ => by simp
  | x :: xs, h => by
    simp only [List.map_cons, List.sum_cons]
    rw [h x (by simp), sum_map_congr f g xs (fun y hy => h y (by simp [hy]))]

/-- sum of `f` over a list after one entry was modified -/
theorem sum_map_modify {β : Type} (f : β → ℚ) (g : β → β) : ∀ (xs : List β) (j : Nat) (x : β), xs[j]? = some x →
    ((xs.modify j g).map f).sum = (xs.map f).sum - f x + f (g x)
  | [], j, x, h => by simp at h
  | y :: xs, 0, x, h => by
    simp at h; subst h; simp [List.modify]; ring
  | y :: xs, j + 1, x, h => by
    have := sum_map_modify f g xs j x (by simpa using h)
    simp [List.modify_succ_cons, this]; ring

theorem map_modify_of_eq {β γ : Type} (f : β → γ) (g : β → β) (hfg : ∀ x, f (g x) = f x) :
    ∀ (xs : List β) (j : Nat), (xs.modify j g).map f = xs.map f
  | [], j => by simp
  | y :: xs, 0 => by simp [List.modify, hfg]
  | y :: xs, j + 1 => by simp [List.modify_succ_cons, map_modify_of_eq f g hfg xs j]

theorem forall_mem_modify {β : Type} (P : β → Prop) (g : β → β) :
    ∀ (xs : List β) (j : Nat), (∀ x ∈ xs, P x) → (∀ x, xs[j]? = some x → P (g x)) → ∀ x ∈ xs.modify j g, P x
  | [], j, _, _ => by simp
  | y :: xs, 0, h, hg => by
    intro x hx
    simp [List.modify] at hx
    rcases hx with rfl | hx
    · exact hg y (by simp)
    · exact h x (by simp [hx])
  | y :: xs, j + 1, h, hg => by
    intro x hx
    simp [List.modify_succ_cons] at hx
    rcases hx with rfl | hx
    · exact h _ (by simp)
    · exact forall_mem_modify P g xs j (fun z hz => h z (by simp [hz])) (fun z hz => hg z (by simpa using hz)) x hx

/-! ### units -/

def velOpt (v : Option (List ℚ)) (k : Nat) : ℚ := match v with | some v => v.getD k 0 | none => 0
/-- component `k` of the velocity, `None` read as zero -/
def velAt (u : PUnit ℚ) (k : Nat) : ℚ := velOpt u.vel k
/-- value `quotient + remainder` of a time -/
def tval (t : Time ℚ) : ℚ := t.q + t.r
def tsVal (u : PUnit ℚ) : ℚ := match u.ts with | some t => tval t | none => 0
/-- coordinate `k` of the position advanced to time `τ` along the stored velocity from the stored time stamp
(not folded back into the box) -/
def advAt (u : PUnit ℚ) (τ : ℚ) (k : Nat) : ℚ := u.pos.getD k 0 + velAt u k * (τ - tsVal u)

/-- a well-formed unit in dimension `d`: position of length `d`; a moving unit has a velocity of length `d` and a
time stamp -/
def WFU (d : Nat) (u : PUnit ℚ) : Prop :=
  u.pos.length = d ∧ ∀ v, u.vel = some v → v.length = d ∧ u.ts.isSome

/-- a moving unit carries the time stamp `t` -/
def Sliced (t : Time ℚ) (u : PUnit ℚ) : Prop := u.vel ≠ none → u.ts = some t

theorem advAt_shift (u : PUnit ℚ) (τ τ' : ℚ) (k : Nat) : advAt u τ' k = advAt u τ k + velAt u k * (τ' - τ) := by
  unfold advAt; ring

theorem advAt_sliced {t : Time ℚ} {u : PUnit ℚ} (h : Sliced t u) (k : Nat) : advAt u (tval t) k = u.pos.getD k 0 := by
  unfold advAt
  by_cases hv : u.vel = none
  · simp [velAt, velOpt, hv]
  · simp [tsVal, h hv]

theorem sub_eq_tval (t ts : Time ℚ) : Time.sub t ts = tval t - tval ts := by
  unfold Time.sub tval; ring

theorem length_sliceVec : ∀ (L P V : List ℚ) (dt : ℚ), P.length = L.length → V.length = L.length →
    (sliceVec Ops.rat L P V dt).length = L.length
  | [], [], [], _, _, _ => by simp [sliceVec]
  | l :: L, p :: P, v :: V, dt, h1, h2 => by
    simp [sliceVec, length_sliceVec L P V dt (by simpa using h1) (by simpa using h2)]
  | [], _ :: _, _, _, h1, _ => by simp at h1
  | [], [], _ :: _, _, _, h2 => by simp at h2
  | _ :: _, [], _, _, h1, _ => by simp at h1
  | _ :: _, _ :: _, [], _, _, h2 => by simp at h2

theorem getD_sliceVec : ∀ (L P V : List ℚ) (dt : ℚ), P.length = L.length → V.length = L.length → ∀ k, k < L.length →
    (sliceVec Ops.rat L P V dt).getD k 0 = sliceCoord Ops.rat (L.getD k 0) (P.getD k 0) (V.getD k 0) dt
  | l :: L, p :: P, v :: V, dt, h1, h2, 0, _ => by simp [sliceVec]
  | l :: L, p :: P, v :: V, dt, h1, h2, k + 1, hk => by
    have := getD_sliceVec L P V dt (by simpa using h1) (by simpa using h2) k (by simpa using hk)
    simpa [sliceVec] using this
  | [], _, _, _, _, _, k, hk => by simp at hk
  | _ :: _, [], _, _, h1, _, _, _ => by simp at h1
  | _ :: _, _ :: _, [], _, _, h2, _, _ => by simp at h2

theorem sliceCoord_cong (l p v dt : ℚ) (hl : 0 < l) : Cong l (sliceCoord Ops.rat l p v dt) (p + v * dt) := by
  unfold sliceCoord
  rw [pywrap_rat_pos _ _ hl]
  exact ⟨-⌊(p + v * dt) / l⌋, by push_cast; ring⟩

/-- box lengths: dimension `d`, all positive -/
def BoxOK (d : Nat) (L : List ℚ) : Prop := L.length = d ∧ ∀ l ∈ L, 0 < l

theorem BoxOK.pos {d : Nat} {L : List ℚ} (h : BoxOK d L) {k : Nat} (hk : k < d) : 0 < L.getD k 0 := by
  have hk' : k < L.length := by rw [h.1]; exact hk
  rw [List.getD_eq_getElem?_getD, List.getElem?_eq_getElem hk']
  exact h.2 _ (List.getElem_mem hk')

@[simp] theorem timeSlice_vel (L : List ℚ) (t : Time ℚ) (u : PUnit ℚ) : (timeSlice Ops.rat L t u).vel = u.vel := by
  unfold timeSlice
  cases hv : u.vel <;> cases hts : u.ts <;> simp [hv]

/-- `_time_slice_unit` in the exact reading: the velocity stays, a moving unit carries the event time afterwards, and
the trajectory `τ ↦ pos + vel·(τ − time stamp)` is the same modulo the box -/
theorem timeSlice_spec {d : Nat} {L : List ℚ} (hL : BoxOK d L) (t : Time ℚ) {u : PUnit ℚ} (hu : WFU d u) :
    WFU d (timeSlice Ops.rat L t u) ∧ Sliced t (timeSlice Ops.rat L t u) ∧
    ∀ τ k, k < d → Cong (L.getD k 0) (advAt (timeSlice Ops.rat L t u) τ k) (advAt u τ k) := by
  obtain ⟨hp, hv⟩ := hu
  cases hvel : u.vel with
  | none =>
    have : timeSlice Ops.rat L t u = u := by unfold timeSlice; rw [hvel]
    rw [this]
    exact ⟨⟨hp, hv⟩, fun h => absurd hvel h, fun τ k _ => Cong.refl _ _⟩
  | some v =>
    obtain ⟨hvl, hts⟩ := hv v hvel
    obtain ⟨ts, hts⟩ := Option.isSome_iff_exists.mp hts
    have e : timeSlice Ops.rat L t u = { pos := sliceVec Ops.rat L u.pos v (Time.sub t ts), vel := some v, ts := some t } := by
      unfold timeSlice; rw [hvel, hts]
    rw [e]
    refine ⟨⟨?_, ?_⟩, fun _ => rfl, ?_⟩
    · simp only []
      rw [length_sliceVec L u.pos v _ (by rw [hp, hL.1]) (by rw [hvl, hL.1]), hL.1]
    · intro v' hv'
      simp only [Option.some.injEq] at hv'
      subst hv'
      exact ⟨hvl, rfl⟩
    · intro τ k hk
      unfold advAt velAt velOpt tsVal
      simp only [hvel, hts]
      rw [getD_sliceVec L u.pos v _ (by rw [hp, hL.1]) (by rw [hvl, hL.1]) k (by rw [hL.1]; exact hk)]
      obtain ⟨z, hz⟩ := sliceCoord_cong (L.getD k 0) (u.pos.getD k 0) (v.getD k 0) (Time.sub t ts) (hL.pos hk)
      refine ⟨z, ?_⟩
      rw [sub_eq_tval] at hz ⊢
      linarith

end JF.Composite
