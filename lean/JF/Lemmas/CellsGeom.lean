import JF.Model.Cells
import JF.Lemmas.PyArith
import JF.Lemmas.CellsNear
import JF.Lemmas.CellsStep
import Mathlib.Algebra.Order.Floor.Ring
import Mathlib.Data.Rat.Floor
import Mathlib.Tactic.Linarith
import Mathlib.Tactic.Ring
import Mathlib.Tactic.Positivity
import Mathlib.Tactic.FieldSimp
/-!
Exact reading (`ℚ`) of the position arithmetic of the cell systems:
`int(p / side)`, `x % L`, and the mid-point trick of `relative_cell` / `translate`.
-/
namespace JF.Cells

/-- CPython's float `%` in the exact reading, positive divisor: `x - y·⌊x/y⌋` -/
theorem pymod_rat (x y : ℚ) (hy : 0 < y) : pymod Ops.rat x y = x - y * ⌊x / y⌋ := by
  have hyn : ¬ (y < 0) := not_lt.mpr hy.le
  simp only [pymod, rat_ofInt, Int.cast_zero, rat_zeroLike, hyn, decide_false]
  simp only [Ops.rat]
  rcases le_or_gt 0 (x / y) with h | h
  · simp only [trunc_nonneg h]
    have hm : 0 ≤ x - y * (⌊x / y⌋ : ℚ) := by
      have := Int.floor_le (x / y)
      have : (⌊x / y⌋ : ℚ) * y ≤ x := by rwa [le_div_iff₀ hy] at this
      linarith
    by_cases hz : x - y * (⌊x / y⌋ : ℚ) = 0
    · simp [hz]
    · have : ¬ (x - y * (⌊x / y⌋ : ℚ) < 0) := not_lt.mpr hm
      simp [hz, this]
  · simp only [trunc_neg h]
    have hc : x ≤ y * (⌈x / y⌉ : ℚ) := by
      have := Int.le_ceil (x / y)
      have : x ≤ (⌈x / y⌉ : ℚ) * y := by rwa [div_le_iff₀ hy] at this
      linarith
    by_cases hz : x - y * (⌈x / y⌉ : ℚ) = 0
    · have hxy : x / y = (⌈x / y⌉ : ℚ) := by
        rw [div_eq_iff hy.ne']; linarith
      have : ⌊x / y⌋ = ⌈x / y⌉ := by rw [hxy]; simp
      simp only [hz, bne_self_eq_false, Bool.false_eq_true, if_false]
      rw [this]; linarith
    · have hlt : x - y * (⌈x / y⌉ : ℚ) < 0 := lt_of_le_of_ne (by linarith) hz
      have hfl : ⌊x / y⌋ = ⌈x / y⌉ - 1 := by
        rw [Int.floor_eq_iff]
        constructor
        · push_cast; linarith [Int.ceil_lt_add_one (x / y)]
        · push_cast
          have : x / y ≠ (⌈x / y⌉ : ℚ) := by
            intro e; apply hz; rw [div_eq_iff hy.ne'] at e; linarith
          have := lt_of_le_of_ne (Int.le_ceil (x / y)) this
          linarith
      simp only [bne_iff_ne, ne_eq, hz, not_false_eq_true, if_true, hlt, decide_true, Bool.false_bne]
      rw [hfl]; push_cast; ring

/-- `int(p / side) = i` for `i·side ≤ p < (i+1)·side`, `i ≥ 0` -/
theorem digit_rat {side p : ℚ} {i : ℤ} (hs : 0 < side) (i0 : 0 ≤ i) (h1 : i * side ≤ p) (h2 : p < (i + 1) * side) :
    digit Ops.rat side p = i := by
  simp only [digit, rat_toInt]
  have hq0 : (i : ℚ) ≤ p / side := by rw [le_div_iff₀ hs]; exact h1
  have hq1 : p / side < (i : ℚ) + 1 := by rw [div_lt_iff₀ hs]; exact h2
  have : (0 : ℚ) ≤ p / side := le_trans (by exact_mod_cast i0) hq0
  rw [trunc_nonneg this, Int.floor_eq_iff]
  exact ⟨hq0, hq1⟩

/-- `_cell_identifier`: the clamp `min(·, n - 1)` is inactive for a quotient inside the grid -/
theorem cellDigit_rat {side p : ℚ} {i n : ℤ} (hs : 0 < side) (i0 : 0 ≤ i) (hin : i < n) (h1 : i * side ≤ p)
    (h2 : p < (i + 1) * side) : cellDigit Ops.rat side n p = i := by
  unfold cellDigit; rw [digit_rat hs i0 h1 h2]; omega

/-- `_cell_identifier` of any non-negative entry is an identifier of the grid (also for `p = L`, which the assertion of
`position_to_cell` admits, and beyond) -/
theorem cellDigit_rat_bounds {side p : ℚ} {n : ℤ} (hs : 0 < side) (hn : 1 ≤ n) (p0 : 0 ≤ p) :
    0 ≤ cellDigit Ops.rat side n p ∧ cellDigit Ops.rat side n p < n := by
  have : 0 ≤ digit Ops.rat side p := by
    simp only [digit, rat_toInt]
    rw [trunc_nonneg (div_nonneg p0 hs.le)]
    exact Int.floor_nonneg.mpr (div_nonneg p0 hs.le)
  unfold cellDigit; omega

/-- `_cell_identifier(L) = n - 1`: the system length itself is mapped to the last cell -/
theorem cellDigit_rat_top {side : ℚ} {n : ℤ} (hs : 0 < side) : cellDigit Ops.rat side n (n * side) = n - 1 := by
  have : digit Ops.rat side (n * side) = n := by
    simp only [digit, rat_toInt]
    rw [mul_div_assoc, div_self hs.ne', mul_one]
    rcases le_or_gt 0 (n : ℚ) with h | h
    · rw [trunc_nonneg h]; simp
    · rw [trunc_neg h]; simp
  unfold cellDigit; omega

/-- the mid-point trick, one direction: if `x` lies strictly inside the (unwrapped) cell `m`, then
the corrected entry `w = correct_position_entry(x)` (`JF.pywrap`; `x % L` in this exact reading) lies in the box and
`int(w / side) = m mod n`. -/
theorem digit_pywrap {side x : ℚ} {n m : ℤ} (hs : 0 < side) (hn : 1 ≤ n)
    (h1 : m * side < x) (h2 : x < (m + 1) * side) :
    0 ≤ pywrap Ops.rat x (n * side) ∧ pywrap Ops.rat x (n * side) ≤ n * side ∧
      cellDigit Ops.rat side n (pywrap Ops.rat x (n * side)) = m % n := by
  have hnq : (1 : ℚ) ≤ n := by exact_mod_cast hn
  have hL : 0 < (n : ℚ) * side := by positivity
  rw [pywrap_rat_pos x _ hL]
  have hmd : (m : ℤ) = n * (m / n) + m % n := (Int.mul_ediv_add_emod m n).symm
  have hr0 : 0 ≤ m % n := Int.emod_nonneg m (by omega)
  have hr1 : m % n < n := Int.emod_lt_of_pos m (by omega)
  have hmq : (m : ℚ) = n * ((m / n : ℤ) : ℚ) + ((m % n : ℤ) : ℚ) := by exact_mod_cast hmd
  have hr0q : (0 : ℚ) ≤ ((m % n : ℤ) : ℚ) := by exact_mod_cast hr0
  have hr1q : ((m % n : ℤ) : ℚ) + 1 ≤ n := by exact_mod_cast hr1
  have hfloor : ⌊x / ((n : ℚ) * side)⌋ = m / n := by
    rw [Int.floor_eq_iff]
    constructor
    · rw [le_div_iff₀ hL]
      have : ((m / n : ℤ) : ℚ) * (n * side) ≤ m * side := by
        rw [hmq]; nlinarith
      linarith
    · rw [div_lt_iff₀ hL]
      have : ((m : ℚ) + 1) * side ≤ (((m / n : ℤ) : ℚ) + 1) * (n * side) := by
        rw [hmq]; nlinarith
      linarith
  rw [hfloor]
  have hp : x - n * side * ((m / n : ℤ) : ℚ) = x - (m - ((m % n : ℤ) : ℚ)) * side := by
    rw [hmq]; ring
  rw [hp]
  refine ⟨?_, ?_, ?_⟩
  · nlinarith
  · nlinarith
  · apply cellDigit_rat hs hr0 hr1
    · nlinarith
    · nlinarith

/-! ### per-direction geometry of a system, as recursive predicates over its lists -/

/-- `n_d ≥ 1`, `side_d > 0`, `L_d = n_d · side_d` -/
def DirOK : List Int → List ℚ → List ℚ → Prop
  | [], [], [] => True
  | n :: ns, sd :: sds, l :: ls => (1 ≤ n ∧ 0 < sd ∧ l = n * sd) ∧ DirOK ns sds ls
  | _, _, _ => False

/-- recorded extent within `side/8` of the ideal `[i·side, (i+1)·side]` in every direction -/
def ExtNear : List ℚ → List Int → List ℚ → List ℚ → Prop
  | [], [], [], [] => True
  | sd :: sds, i :: is, lo :: los, hi :: his =>
    (|lo - i * sd| ≤ sd / 8 ∧ |hi - (i + 1) * sd| ≤ sd / 8) ∧ ExtNear sds is los his
  | _, _, _, _ => False

/-- recorded extent equal to the ideal one -/
def ExtIdeal : List ℚ → List Int → List ℚ → List ℚ → Prop
  | [], [], [], [] => True
  | sd :: sds, i :: is, lo :: los, hi :: his => (lo = i * sd ∧ hi = (i + 1) * sd) ∧ ExtIdeal sds is los his
  | _, _, _, _ => False

theorem ExtIdeal.near : ∀ {side : List ℚ} {ident : List Int} {lo hi : List ℚ},
    (∀ sd ∈ side, 0 < sd) → ExtIdeal side ident lo hi → ExtNear side ident lo hi
  | [], [], [], [], _, _ => trivial
  | sd :: sds, i :: is, lo :: los, hi :: his, hp, h => by
    obtain ⟨⟨rfl, rfl⟩, hr⟩ := h
    have : 0 < sd := hp sd (by simp)
    refine ⟨⟨by simp; linarith, by simp; linarith⟩, ExtIdeal.near (fun x hx => hp x (by simp [hx])) hr⟩
  | [], [], [], _ :: _, _, h => by simp [ExtIdeal] at h
  | [], [], _ :: _, _, _, h => by simp [ExtIdeal] at h
  | [], _ :: _, _, _, _, h => by simp [ExtIdeal] at h
  | _ :: _, [], _, _, _, h => by simp [ExtIdeal] at h
  | _ :: _, _ :: _, [], _, _, h => by simp [ExtIdeal] at h
  | _ :: _, _ :: _, _ :: _, [], _, h => by simp [ExtIdeal] at h

/-- positions of the box: `0 ≤ p_d < L_d` -/
def InBox : List ℚ → List ℚ → Prop
  | [], [] => True
  | l :: ls, p :: ps => (0 ≤ p ∧ p < l) ∧ InBox ls ps
  | _, _ => False

/-- `lo_d ≤ p_d < hi_d` in every direction -/
def Contains : List ℚ → List ℚ → List ℚ → Prop
  | [], [], [] => True
  | lo :: los, hi :: his, p :: ps => (lo ≤ p ∧ p < hi) ∧ Contains los his ps
  | _, _, _ => False

/-- the assertion of `position_to_cell` -/
def assertInBox (lengths pos : List ℚ) : Bool :=
  (List.zipWith (fun p l => decide (Ops.rat.ofInt 0 ≤ p) && decide (p ≤ l)) pos lengths).all id

/-- the identifier `position_to_cell` looks up -/
def posIdent (side : List ℚ) (perSide : List Int) (pos : List ℚ) : List Int := cellDigits Ops.rat side perSide pos

/-- positions the assertion of `position_to_cell` admits: `0 ≤ p_d ≤ L_d` -/
def InClosedBox : List ℚ → List ℚ → Prop
  | [], [] => True
  | l :: ls, p :: ps => (0 ≤ p ∧ p ≤ l) ∧ InClosedBox ls ps
  | _, _ => False

/-- every position the assertion admits (`p_d = L_d` included) passes it and has a valid identifier: `position_to_cell`
cannot raise `IndexError` -/
theorem posIdent_valid_closed : ∀ {n : List Int} {side L p : List ℚ}, DirOK n side L → InClosedBox L p →
    assertInBox L p = true ∧ Valid n (posIdent side n p)
  | [], [], [], [], _, _ => ⟨rfl, trivial⟩
  | n :: ns, sd :: sds, l :: ls, p :: ps, hd, hb => by
    obtain ⟨⟨hn, hs, rfl⟩, hd'⟩ := hd
    obtain ⟨⟨p0, p1⟩, hb'⟩ := hb
    obtain ⟨ha, hv⟩ := posIdent_valid_closed hd' hb'
    obtain ⟨b0, b1⟩ := cellDigit_rat_bounds (n := n) hs hn p0
    refine ⟨?_, ?_⟩
    · simp only [assertInBox, List.zipWith_cons_cons, List.all_cons, rat_ofInt, Int.cast_zero] at ha ⊢
      simp [p0, p1, ha]
    · simp only [posIdent, cellDigits]
      exact ⟨b0, b1, hv⟩
  | [], [], [], _ :: _, _, h => by simp [InClosedBox] at h
  | [], [], _ :: _, _, h, _ => by simp [DirOK] at h
  | [], _ :: _, _, _, h, _ => by simp [DirOK] at h
  | _ :: _, [], _, _, h, _ => by simp [DirOK] at h
  | _ :: _, _ :: _, [], _, h, _ => by simp [DirOK] at h
  | _ :: _, _ :: _, _ :: _, [], _, h => by simp [InClosedBox] at h

/-- positions in the box pass the assertion, their digits form a valid identifier -/
theorem posIdent_valid : ∀ {n : List Int} {side L p : List ℚ}, DirOK n side L → InBox L p →
    assertInBox L p = true ∧ Valid n (posIdent side n p) ∧
      ∀ (ident : List Int) (lo hi : List ℚ), ExtIdeal side ident lo hi → Valid n ident →
        (Contains lo hi p ↔ ident = posIdent side n p)
  | [], [], [], [], _, _ => by
    refine ⟨rfl, trivial, ?_⟩
    intro ident lo hi h _
    cases ident <;> cases lo <;> cases hi <;> simp_all [ExtIdeal, Contains, posIdent, cellDigits]
  | n :: ns, sd :: sds, l :: ls, p :: ps, hd, hb => by
    obtain ⟨⟨hn, hs, rfl⟩, hd'⟩ := hd
    obtain ⟨⟨p0, p1⟩, hb'⟩ := hb
    obtain ⟨ha, hv, hc⟩ := posIdent_valid hd' hb'
    -- the digit of p
    have hq0 : (0 : ℚ) ≤ p / sd := div_nonneg p0 hs.le
    have hfl0 : 0 ≤ ⌊p / sd⌋ := Int.floor_nonneg.mpr hq0
    have hfl1 : ⌊p / sd⌋ < n := by
      rw [Int.floor_lt, div_lt_iff₀ hs]; exact p1
    have hlo : (⌊p / sd⌋ : ℚ) * sd ≤ p := by
      have := Int.floor_le (p / sd); rwa [le_div_iff₀ hs] at this
    have hhi : p < ((⌊p / sd⌋ : ℚ) + 1) * sd := by
      have := Int.lt_floor_add_one (p / sd); rwa [div_lt_iff₀ hs] at this
    have hdig : cellDigit Ops.rat sd n p = ⌊p / sd⌋ := cellDigit_rat hs hfl0 hfl1 hlo hhi
    refine ⟨?_, ?_, ?_⟩
    · simp only [assertInBox, List.zipWith_cons_cons, List.all_cons, rat_ofInt, Int.cast_zero] at ha ⊢
      simp [p0, p1.le, ha]
    · simp only [posIdent, cellDigits, hdig]
      exact ⟨hfl0, hfl1, hv⟩
    · intro ident lo hi hI hvI
      cases ident with
      | nil => simp [Valid] at hvI
      | cons i is =>
        cases lo with
        | nil => simp [ExtIdeal] at hI
        | cons lo0 los =>
          cases hi with
          | nil => simp [ExtIdeal] at hI
          | cons hi0 his =>
            obtain ⟨⟨rfl, rfl⟩, hI'⟩ := hI
            have := hc is los his hI' hvI.2.2
            simp only [Contains, posIdent, cellDigits, List.cons.injEq, hdig] at this ⊢
            rw [this]
            constructor
            · rintro ⟨⟨a, b⟩, e⟩
              refine ⟨?_, e⟩
              symm; rw [Int.floor_eq_iff]
              exact ⟨by rw [le_div_iff₀ hs]; exact a, by rw [div_lt_iff₀ hs]; exact b⟩
            · rintro ⟨e, e'⟩
              rw [e]; exact ⟨⟨hlo, hhi⟩, e'⟩
  | [], [], [], _ :: _, _, h => by simp [InBox] at h
  | [], [], _ :: _, _, h, _ => by simp [DirOK] at h
  | [], _ :: _, _, _, h, _ => by simp [DirOK] at h
  | _ :: _, [], _, _, h, _ => by simp [DirOK] at h
  | _ :: _, _ :: _, [], _, h, _ => by simp [DirOK] at h
  | _ :: _, _ :: _, _ :: _, [], _, h => by simp [InBox] at h

/-- one direction of the mid-point trick of `relative_cell` (`sign = false`, `m = i - j`) and `translate`
(`sign = true`, `m = i + j`) -/
theorem midEntry_digit {sd lo hi rlo : ℚ} {n i j : ℤ} (sign : Bool) (hs : 0 < sd) (hn : 1 ≤ n)
    (h1 : |lo - i * sd| ≤ sd / 8) (h2 : |hi - (i + 1) * sd| ≤ sd / 8) (h3 : |rlo - j * sd| ≤ sd / 8) :
    0 ≤ midEntry Ops.rat sign hi lo rlo (n * sd) ∧ midEntry Ops.rat sign hi lo rlo (n * sd) ≤ n * sd ∧
      cellDigit Ops.rat sd n (midEntry Ops.rat sign hi lo rlo (n * sd)) =
        (if sign then (i + j) % n else (i - j) % n) := by
  obtain ⟨a1, a2⟩ := abs_le.mp h1
  obtain ⟨b1, b2⟩ := abs_le.mp h2
  obtain ⟨c1, c2⟩ := abs_le.mp h3
  cases sign
  · simp only [midEntry, rat_ofInt, Bool.false_eq_true, if_false]
    have := digit_pywrap (side := sd) (x := (hi + lo) / ((2 : ℤ) : ℚ) - rlo) (n := n) (m := i - j) hs hn
      (by push_cast; linarith) (by push_cast; linarith)
    exact this
  · simp only [midEntry, rat_ofInt, if_true]
    have := digit_pywrap (side := sd) (x := (hi + lo) / ((2 : ℤ) : ℚ) + rlo) (n := n) (m := i + j) hs hn
      (by push_cast; linarith) (by push_cast; linarith)
    exact this

/-- all directions: the position handed to `position_to_cell` by `relative_cell` / `translate` passes the
assertion and has the digits `(c ∓ r) mod n` -/
theorem mid_digits (sign : Bool) : ∀ {n : List Int} {side L : List ℚ} {ci : List Int} {clo chi : List ℚ}
    {ri : List Int} {rlo rhi : List ℚ},
    DirOK n side L → ExtNear side ci clo chi → ExtNear side ri rlo rhi →
    assertInBox L (zipWith3' (fun (mm : ℚ × ℚ) om l => midEntry Ops.rat sign mm.1 mm.2 om l) (List.zip chi clo) rlo L)
        = true ∧
      posIdent side n (zipWith3' (fun (mm : ℚ × ℚ) om l => midEntry Ops.rat sign mm.1 mm.2 om l) (List.zip chi clo) rlo L)
        = (if sign then addMod n ci ri else subMod n ci ri)
  | [], [], [], [], [], [], [], [], [], _, _, _ => by
    cases sign <;> simp [assertInBox, posIdent, cellDigits, zipWith3', addMod, subMod]
  | n :: ns, sd :: sds, l :: ls, i :: is, lo :: los, hi :: his, j :: js, rlo :: rlos, rhi :: rhis, hd, hc, hr => by
    obtain ⟨⟨hn, hs, rfl⟩, hd'⟩ := hd
    obtain ⟨⟨h1, h2⟩, hc'⟩ := hc
    obtain ⟨⟨h3, _⟩, hr'⟩ := hr
    obtain ⟨ia, ib⟩ := mid_digits sign hd' hc' hr'
    obtain ⟨e0, e1, e2⟩ := midEntry_digit (n := n) sign hs hn h1 h2 h3
    constructor
    · simp only [assertInBox, List.zip_cons_cons, zipWith3', List.zipWith_cons_cons, List.all_cons, rat_ofInt,
        Int.cast_zero] at ia ⊢
      simp [e0, e1, ia]
    · simp only [posIdent, List.zip_cons_cons, zipWith3', cellDigits] at ib ⊢
      rw [e2, ib]
      cases sign <;> simp [addMod, subMod]
  | [], [], [], [], [], [], [], [], _ :: _, _, _, h => by simp [ExtNear] at h
  | [], [], [], [], [], [], [], _ :: _, _, _, _, h => by simp [ExtNear] at h
  | [], [], [], [], [], [], _ :: _, _, _, _, _, h => by simp [ExtNear] at h
  | [], [], [], [], [], _ :: _, _, _, _, _, h, _ => by simp [ExtNear] at h
  | [], [], [], [], _ :: _, _, _, _, _, _, h, _ => by simp [ExtNear] at h
  | [], [], [], _ :: _, _, _, _, _, _, _, h, _ => by simp [ExtNear] at h
  | [], [], _ :: _, _, _, _, _, _, _, h, _, _ => by simp [DirOK] at h
  | [], _ :: _, _, _, _, _, _, _, _, h, _, _ => by simp [DirOK] at h
  | _ :: _, [], _, _, _, _, _, _, _, h, _, _ => by simp [DirOK] at h
  | _ :: _, _ :: _, [], _, _, _, _, _, _, h, _, _ => by simp [DirOK] at h
  | _ :: _, _ :: _, _ :: _, [], _, _, _, _, _, _, h, _ => by simp [ExtNear] at h
  | _ :: _, _ :: _, _ :: _, _ :: _, [], _, _, _, _, _, h, _ => by simp [ExtNear] at h
  | _ :: _, _ :: _, _ :: _, _ :: _, _ :: _, [], _, _, _, _, h, _ => by simp [ExtNear] at h
  | _ :: _, _ :: _, _ :: _, _ :: _, _ :: _, _ :: _, [], _, _, _, _, h => by simp [ExtNear] at h
  | _ :: _, _ :: _, _ :: _, _ :: _, _ :: _, _ :: _, _ :: _, [], _, _, _, h => by simp [ExtNear] at h
  | _ :: _, _ :: _, _ :: _, _ :: _, _ :: _, _ :: _, _ :: _, _ :: _, [], _, _, h => by simp [ExtNear] at h

theorem DirOK.pos : ∀ {n : List Int} {side L : List ℚ}, DirOK n side L → (∀ x ∈ n, 1 ≤ x) ∧ (∀ sd ∈ side, 0 < sd)
  | [], [], [], _ => by simp
  | n :: ns, sd :: sds, l :: ls, h => by
    obtain ⟨a, b⟩ := DirOK.pos h.2
    constructor
    · intro x hx; rcases List.mem_cons.mp hx with rfl | hx
      · exact h.1.1
      · exact a x hx
    · intro x hx; rcases List.mem_cons.mp hx with rfl | hx
      · exact h.1.2.1
      · exact b x hx
  | [], [], _ :: _, h => by simp [DirOK] at h
  | [], _ :: _, _, h => by simp [DirOK] at h
  | _ :: _, [], _, h => by simp [DirOK] at h
  | _ :: _, _ :: _, [], h => by simp [DirOK] at h

theorem ExtNear.lengths : ∀ {side : List ℚ} {ident : List Int} {lo hi : List ℚ}, ExtNear side ident lo hi →
    ident.length = side.length
  | [], [], [], [], _ => rfl
  | _ :: _, _ :: _, _ :: _, _ :: _, h => by simp [ExtNear.lengths h.2]
  | [], [], [], _ :: _, h => by simp [ExtNear] at h
  | [], [], _ :: _, _, h => by simp [ExtNear] at h
  | [], _ :: _, _, _, h => by simp [ExtNear] at h
  | _ :: _, [], _, _, h => by simp [ExtNear] at h
  | _ :: _, _ :: _, [], _, h => by simp [ExtNear] at h
  | _ :: _, _ :: _, _ :: _, [], h => by simp [ExtNear] at h

theorem DirOK.lengths : ∀ {n : List Int} {side L : List ℚ}, DirOK n side L → side.length = n.length
  | [], [], [], _ => rfl
  | _ :: _, _ :: _, _ :: _, h => by simp [DirOK.lengths h.2]
  | [], [], _ :: _, h => by simp [DirOK] at h
  | [], _ :: _, _, h => by simp [DirOK] at h
  | _ :: _, [], _, h => by simp [DirOK] at h
  | _ :: _, _ :: _, [], h => by simp [DirOK] at h

/-- `side = L / n` gives `L = n · side` in exact arithmetic -/
theorem dirOK_of_div : ∀ (n : List Int) (L : List ℚ), n.length = L.length → (∀ x ∈ n, 1 ≤ x) → (∀ l ∈ L, 0 < l) →
    DirOK n (List.zipWith (fun l n => l / Ops.rat.ofInt n) L n) L
  | [], [], _, _, _ => by simp [DirOK]
  | n :: ns, l :: ls, hlen, hpos, hL => by
    have hn : 1 ≤ n := hpos n (by simp)
    have hnq : (0 : ℚ) < n := by exact_mod_cast (show (0 : Int) < n by omega)
    have hl : 0 < l := hL l (by simp)
    simp only [List.zipWith_cons_cons, DirOK, rat_ofInt]
    refine ⟨⟨hn, div_pos hl hnq, by field_simp⟩, ?_⟩
    exact dirOK_of_div ns ls (by simpa using hlen) (fun x hx => hpos x (by simp [hx])) (fun x hx => hL x (by simp [hx]))
  | [], _ :: _, h, _, _ => by simp at h
  | _ :: _, [], h, _, _ => by simp at h

/-! ### the stepper laws hold for a fixed-point grid over `ℚ` -/

theorem trunc_mono {a b : ℚ} (h : a ≤ b) : Rat.trunc a ≤ Rat.trunc b := by
  rcases le_or_gt 0 a with ha | ha
  · rw [trunc_nonneg ha, trunc_nonneg (le_trans ha h)]; exact Int.floor_le_floor h
  · rcases le_or_gt 0 b with hb | hb
    · rw [trunc_neg ha, trunc_nonneg hb]
      have : ⌈a⌉ ≤ 0 := Int.ceil_le.mpr (by exact_mod_cast ha.le)
      have : 0 ≤ ⌊b⌋ := Int.floor_nonneg.mpr hb
      omega
    · rw [trunc_neg ha, trunc_neg hb]; exact Int.ceil_le_ceil h

theorem trunc_slow {a b : ℚ} (h : b ≤ a + 1) : Rat.trunc b ≤ Rat.trunc a + 1 := by
  have := trunc_mono h
  suffices Rat.trunc (a + 1) ≤ Rat.trunc a + 1 by omega
  rcases le_or_gt 0 a with ha | ha
  · rw [trunc_nonneg ha, trunc_nonneg (by linarith)]; simp
  · rcases le_or_gt 0 (a + 1) with hb | hb
    · rw [trunc_neg ha, trunc_nonneg hb]
      have h1 : ⌊a + 1⌋ ≤ 0 := by
        have : ⌊a + 1⌋ < 1 := Int.floor_lt.mpr (by push_cast; linarith)
        omega
      have h2 : -1 ≤ ⌈a⌉ := by
        have h3 : (-1 : ℚ) ≤ a := by linarith
        have h4 := Int.le_ceil a
        have h5 : ((-1 : ℤ) : ℚ) ≤ ((⌈a⌉ : ℤ) : ℚ) := by push_cast; linarith
        exact_mod_cast h5
      omega
    · rw [trunc_neg ha, trunc_neg hb]; simp

theorem cellDigit_rat_mono {side : ℚ} (hs : 0 < side) (n : ℤ) {x y : ℚ} (h : x ≤ y) :
    cellDigit Ops.rat side n x ≤ cellDigit Ops.rat side n y := by
  have : digit Ops.rat side x ≤ digit Ops.rat side y := by
    simp only [digit, rat_toInt]
    exact trunc_mono (div_le_div_of_nonneg_right h hs.le)
  unfold cellDigit; omega

/-- a fixed-point grid of spacing `δ ≤ side` over `ℚ` satisfies the stepper laws (`n` cells, system length `n·side`) -/
theorem stepLaws_grid (side δ : ℚ) (n : ℤ) (hs : 0 < side) (hδ0 : 0 ≤ δ) (hδ : δ ≤ side) :
    StepLaws Ops.rat ⟨(· + δ), (· - δ)⟩ side n (n * side) := by
  refine ⟨fun x => by simp, fun x => by simp, ?_, ?_, fun x => not_le.symm, ?_, ?_⟩
  · intro x
    apply cellDigit_rat_mono hs
    show x - δ ≤ x
    linarith
  · intro x
    have : digit Ops.rat side x ≤ digit Ops.rat side (x - δ) + 1 := by
      simp only [digit, rat_toInt]
      apply trunc_slow
      have e : (x - δ) / side = x / side - δ / side := by ring
      have : δ / side ≤ 1 := (div_le_one hs).mpr hδ
      rw [e]; linarith
    show cellDigit Ops.rat side n x ≤ cellDigit Ops.rat side n (x - δ) + 1
    unfold cellDigit; omega
  · intro x hx
    show ¬ (n : ℚ) * side ≤ x - δ
    linarith [not_le.mp hx]
  · intro x hx _
    show cellDigit Ops.rat side n (x - δ) = n - 1
    have h1 : ((n - 1 : ℤ) : ℚ) ≤ (x - δ) / side := by
      rw [le_div_iff₀ hs]; push_cast; nlinarith
    have : n - 1 ≤ digit Ops.rat side (x - δ) := by
      simp only [digit, rat_toInt]
      have := trunc_mono h1
      rcases le_or_gt 0 (((n - 1 : ℤ) : ℚ)) with h | h
      · rw [trunc_nonneg h] at this; simpa using this
      · rw [trunc_neg h] at this; simpa using this
    unfold cellDigit; omega

end JF.Cells
