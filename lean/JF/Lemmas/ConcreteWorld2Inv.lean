import JF.Lemmas.ConcreteWorld2
import JF.Lemmas.ConcreteWorld
/-
Lemmas for `JF/Props/Footprints2.lean`, part 2: the world of composite objects as a `JF.Act.World`, the invariant its states
carry, and "who is active" under that invariant.

* `St` = global state `List (CObj ℚ)` + the GHOST mode (`Composite.Mode`, the component the model state lacks: `C12Chain`);
* `Inv` = `AllGood` (C12's invariant: every object consistent with its point masses) ∧ `Uniform` (every object has
  `setting.number_of_nodes_per_root_node` point masses) ∧ (`AllRest` — the state before the start-of-run event — ∨ `OneChainM` in
  the ghost mode — exactly one moving chain, `C12Chain`);
* `TrRaw2` = a `Composite.step` of an event of a kind the handler class of the committing tagger commits (`kindsOf`), weakly
  admissible (`C12.AdmW`), whose kind is possible in the ghost mode (`C12.modeStep`, THE MODE PREMISE: what
  `JF/Props/ModeDiscipline.lean` derives from the activation flags of a mode-sound wiring);
* `inv_step` — `Inv` is preserved by every such transition: nothing but the mode premise is assumed, the one-chain invariant is
  DERIVED along the run (`C12.step_chain_aux`, `C12.step_good`);
* `independent_leaf` / `independent_root` — under `Inv`, `yield_independent_lifted_identifiers` yields exactly one identifier:
  the moving point mass in leaf mode, the composite object in root mode (`.ident`: who is active is well defined);
* `count_step` — the number of active branches (what a mode-switch tagger is compared by) is the same before and after.
-/
namespace JF.CW2
open JF JF.Act JF.Composite JF.C12

/-! ### lists -/

theorem flatMap_range_single {β : Type} (f : Nat → List β) : ∀ (n i : Nat), i < n → (∀ k, k < n → k ≠ i → f k = []) →
    (List.range n).flatMap f = f i
  | 0, _, h, _ => absurd h (Nat.not_lt_zero _)
  | n + 1, i, hi, h => by
    rw [List.range_succ, List.flatMap_append]
    by_cases hin : i = n
    · subst hin
      have : (List.range i).flatMap f = [] :=
        List.flatMap_eq_nil_iff.mpr fun k hk => h k (by have := List.mem_range.mp hk; omega) (by have := List.mem_range.mp hk; omega)
      rw [this]; simp
    · have hi' : i < n := by omega
      rw [flatMap_range_single f n i hi' (fun k hk hne => h k (by omega) hne)]
      have : f n = [] := h n (by omega) (fun e => hin e.symm)
      simp [this]

theorem filter_range_single (p : Nat → Bool) : ∀ (n j : Nat), j < n → (∀ k, k < n → (p k = true ↔ k = j)) →
    (List.range n).filter p = [j]
  | 0, _, h, _ => absurd h (Nat.not_lt_zero _)
  | n + 1, j, hj, h => by
    rw [List.range_succ, List.filter_append]
    by_cases hjn : j = n
    · subst hjn
      have h1 : (List.range j).filter p = [] := by
        rw [List.filter_eq_nil_iff]
        intro k hk hp
        have := List.mem_range.mp hk
        have := (h k (by omega)).mp hp
        omega
      have h2 : p j = true := (h j (by omega)).mpr rfl
      rw [h1]; simp [h2]
    · have hj' : j < n := by omega
      rw [filter_range_single p n j hj' (fun k hk => h k (by omega))]
      have : p n = false := by
        cases hp : p n
        · rfl
        · exact absurd ((h n (by omega)).mp hp).symm hjn
      simp [this]

/-! ### states, invariant, world -/

/-- global state + the ghost mode -/
structure St where
  cs : List (CObj ℚ)
  mode : Composite.Mode

/-- every composite object has `setting.number_of_nodes_per_root_node` point masses -/
def Uniform (nPer : Nat) (cs : List (CObj ℚ)) : Prop := ∀ c ∈ cs, c.leaves.length = nPer

/-- **the invariant of the states of the world** -/
def Inv (env : Env ℚ) (s : St) : Prop :=
  AllGood env.d env.L s.cs ∧ Uniform env.nPer s.cs ∧ (AllRest s.cs ∨ ∃ sq, OneChainM s.cs sq s.mode)

/-- global states of the world -/
def G (env : Env ℚ) : Type := { s : St // Inv env s }

/-- the concrete world of the configuration `mw` -/
def world2 (env : Env ℚ) (mw : ModeWiring) : World (G env) :=
  { yieldOf := fun T g => yieldCls env T (mw.w.tagger T).cls g.1.cs
    view := fun T => viewOf (mw.w.tagger T)
    live := fun T => T < mw.w.n ∧ (mw.w.tagger T).kind ≠ .startOfRun }

theorem liveIs2 (env : Env ℚ) (mw : ModeWiring) : LiveIs mw.w (world2 env mw) := fun _ => Iff.rfl

/-- one commit by a handler of tagger `E`: the `Composite.step` of a weakly admissible event of a kind of `E`'s handler class
(`cm`: the mode at the request of the candidate time, which `kindsOf` needs for the end of chain), the kind being possible in the
ghost mode.  (An empty out-state — a dumping event — is `keep t []`.)  Since no mode allows a `start`, the start-of-run event is
NOT a transition: it is the first commit of `JF.Act.Run`, which is unconstrained. -/
def TrRaw2 (env : Env ℚ) (mw : ModeWiring) (E : TaggerIdx) (s s' : St) : Prop :=
  ∃ (e : Composite.Ev ℚ) (cm : WMode), evKind e ∈ kindsOf (mw.hmode E) cm ∧ modeStep s.mode e = some s'.mode ∧
    AdmW env.d env.L s.cs e ∧ s'.cs = step Ops.rat isZ env.L s.cs e

/-- the transition relation of configuration `mw` -/
def Tr2 (env : Env ℚ) (mw : ModeWiring) (E : TaggerIdx) (g g' : G env) : Prop := TrRaw2 env mw E g.1 g'.1

/-- the same without the mode premise (used to show that the premise is needed) -/
def TrNoMode2 (env : Env ℚ) (mw : ModeWiring) (E : TaggerIdx) (cs cs' : List (CObj ℚ)) : Prop :=
  ∃ (e : Composite.Ev ℚ) (cm : WMode), evKind e ∈ kindsOf (mw.hmode E) cm ∧ evKind e ≠ .start ∧
    AdmW env.d env.L cs e ∧ cs' = step Ops.rat isZ env.L cs e

/-- the start-of-run event from the state at rest (NOT part of `Tr2`) -/
def TrStart2 (env : Env ℚ) (mw : ModeWiring) (E : TaggerIdx) (s s' : St) : Prop :=
  ∃ (i : Nat) (P : List Nat) (v : List ℚ) (cm : WMode), EvKind.start ∈ kindsOf (mw.hmode E) cm ∧ AllRest s.cs ∧
    StartMode s.cs i P s'.mode ∧ AdmW env.d env.L s.cs (.start i P v) ∧ s'.cs = step Ops.rat isZ env.L s.cs (.start i P v)

/-! ### a non-quiet event needs a moving unit -/

theorem rest_getElem? {cs : List (CObj ℚ)} (h : AllRest cs) (k : Nat) (ck : CObj ℚ) (hk : cs[k]? = some ck) : RestL ck.leaves :=
  h ck (List.mem_of_getElem? hk)

theorem rest_sliceAt {cs : List (CObj ℚ)} (h : AllRest cs) (L : List ℚ) (t : Time ℚ) (S : List Nat) (k : Nat) (ck : CObj ℚ)
    (hk : (sliceAt Ops.rat L t S cs)[k]? = some ck) : RestL ck.leaves :=
  AllRest.sliceAt_aux L t S (rest_getElem? h) k ck hk

/-- the events after the start that are not `keep` / `snap` hand a velocity over: weak admissibility says the source moves -/
theorem admW_not_rest {d : Nat} {L : List ℚ} {cs : List (CObj ℚ)} {e : Composite.Ev ℚ} (ha : AdmW d L cs e)
    (hq : quietKind (evKind e) = false) (hs : evKind e ≠ .start) : ¬ AllRest cs := by
  intro hr
  cases e with
  | keep t S => simp [evKind, quietKind] at hq
  | snap t S i j dd x => simp [evKind, quietKind] at hq
  | start i P v => exact hs rfl
  | exchange t S i j i' j' =>
    obtain ⟨_, _, a, b, v, h1, h2, _⟩ := ha
    unfold leafOf at h1
    cases hc : (sliceAt Ops.rat L t S cs)[i]? with
    | none => rw [hc] at h1; cases h1
    | some c =>
      rw [hc] at h1
      have := rest_sliceAt hr L t S i c hc a (List.mem_of_getElem? h1)
      rw [h2] at this; cases this
  | pass t S iL iT =>
    obtain ⟨_, _, cL, cT, a, h1, _, h3, h4⟩ := ha
    exact h4 (rest_sliceAt hr L t S iL cL h1 a h3)
  | eocLeaf t i j i' j' vn =>
    obtain ⟨c0, c', a, b, old, h1, h2, h3, _⟩ := ha
    have := restL_congr (sliceComp_vels L t c0) (rest_getElem? hr i c0 h1) a (List.mem_of_getElem? h2)
    rw [h3] at this; cases this
  | eocRoot t i i' vn =>
    obtain ⟨c, c', a, old, h1, _, h3, h4, _⟩ := ha
    have := rest_sliceAt hr L t [i] i c h1 a h3
    rw [h4] at this; cases this
  | toLeaf t i ch =>
    obtain ⟨co, a, h1, h2, h3, _⟩ := ha
    exact h3 (rest_sliceAt hr L t [i] i co h1 a h2)
  | toRoot t i =>
    obtain ⟨co, a, h1, h2, h3⟩ := ha
    exact h3 (rest_sliceAt hr L t [i] i co h1 a h2)

/-! ### the invariant is preserved -/

theorem uniform_iff_lens (nPer : Nat) (cs : List (CObj ℚ)) : Uniform nPer cs ↔ ∀ n ∈ lens cs, n = nPer := by
  unfold Uniform lens
  constructor
  · intro h n hn
    obtain ⟨c, hc, rfl⟩ := List.mem_map.mp hn
    exact h c hc
  · intro h c hc
    exact h _ (List.mem_map.mpr ⟨c, hc, rfl⟩)

theorem uniform_step {nPer : Nat} {cs : List (CObj ℚ)} (h : Uniform nPer cs) (L : List ℚ) (e : Composite.Ev ℚ) :
    Uniform nPer (step Ops.rat isZ L cs e) := by
  rw [uniform_iff_lens, lens_step]
  exact (uniform_iff_lens nPer cs).mp h

theorem allRest_iff_vels (cs : List (CObj ℚ)) : AllRest cs ↔ ∀ p ∈ vels cs, ∀ v ∈ p.2, v = none := by
  unfold AllRest RestL vels
  constructor
  · intro h p hp v hv
    obtain ⟨c, hc, rfl⟩ := List.mem_map.mp hp
    obtain ⟨l, hl, rfl⟩ := List.mem_map.mp hv
    exact h c hc l hl
  · intro h c hc l hl
    exact h _ (List.mem_map.mpr ⟨c, hc, rfl⟩) _ (List.mem_map.mpr ⟨l, hl, rfl⟩)

theorem modeStep_quiet {m m' : Composite.Mode} {e : Composite.Ev ℚ} (hq : quietKind (evKind e) = true)
    (hm : modeStep m e = some m') : m' = m := by
  cases e <;> simp [evKind, quietKind] at hq <;> simp [modeStep] at hm <;> exact hm.symm

theorem modeStep_not_start {m m' : Composite.Mode} {e : Composite.Ev ℚ} (hm : modeStep m e = some m') : evKind e ≠ .start := by
  cases e <;> cases m <;> simp [modeStep, evKind] at hm ⊢

/-- **every transition keeps the invariant**: from a state satisfying `Inv`, a weakly admissible event whose kind is possible in
the ghost mode leads to a state satisfying `Inv` in the mode `modeStep` gives.  The "at rest" / "which leaves move" facts the
per-event theorems of C12 need are derived from the one-chain invariant (`C12.step_chain_aux`). -/
theorem inv_step {env : Env ℚ} (hL : BoxOK env.d env.L) {s : St} (hi : Inv env s) {e : Composite.Ev ℚ} {m' : Composite.Mode}
    (hm : modeStep s.mode e = some m') (ha : AdmW env.d env.L s.cs e) :
    Inv env ⟨step Ops.rat isZ env.L s.cs e, m'⟩ := by
  obtain ⟨hg, hu, hr⟩ := hi
  refine ⟨?_, uniform_step hu env.L e, ?_⟩
  · rcases hr with hr | ⟨sq, hc⟩
    · cases hq : quietKind (evKind e) with
      | false => exact absurd hr (admW_not_rest ha hq (modeStep_not_start hm))
      | true =>
        cases e with
        | keep t S => exact step_good hL hg (.keep t S) trivial
        | snap t S i j dd x => exact step_good hL hg (.snap t S i j dd x) ha
        | _ => simp [evKind, quietKind] at hq
    · exact step_good hL hg e (step_chain_aux hL hg hc e hm ha).1
  · rcases hr with hr | ⟨sq, hc⟩
    · cases hq : quietKind (evKind e) with
      | false => exact absurd hr (admW_not_rest ha hq (modeStep_not_start hm))
      | true =>
        left
        show AllRest (step Ops.rat isZ env.L s.cs e)
        rw [allRest_iff_vels, vels_quiet Ops.rat isZ env.L s.cs e hq]
        exact (allRest_iff_vels s.cs).mp hr
    · exact Or.inr ⟨sq, (step_chain_aux hL hg hc e hm ha).2⟩

theorem trRaw2_inv {env : Env ℚ} (hL : BoxOK env.d env.L) {mw : ModeWiring} {E : TaggerIdx} {s s' : St} (hi : Inv env s)
    (h : TrRaw2 env mw E s s') : Inv env s' := by
  obtain ⟨e, _, _, hm, ha, hs⟩ := h
  have := inv_step hL hi hm ha
  cases s' with
  | mk cs' m' =>
    simp only at hs
    subst hs
    exact this

/-- the start-of-run event establishes the invariant from the state at rest -/
theorem inv_start {env : Env ℚ} (hL : BoxOK env.d env.L) {cs : List (CObj ℚ)} (hg : AllGood env.d env.L cs)
    (hu : Uniform env.nPer cs) (hr : AllRest cs) {i : Nat} {P : List Nat} {v : List ℚ} (ha : AdmW env.d env.L cs (.start i P v))
    {m : Composite.Mode} (hm : StartMode cs i P m) : Inv env ⟨step Ops.rat isZ env.L cs (.start i P v), m⟩ :=
  ⟨step_good hL hg _ (admW_adm_start hr ha), uniform_step hu env.L (.start i P v), Or.inr ⟨_, start_oneChainM hr ha hm⟩⟩

/-- a state at rest satisfies the invariant (in any ghost mode) -/
theorem inv_rest {env : Env ℚ} {cs : List (CObj ℚ)} (hg : AllGood env.d env.L cs) (hu : Uniform env.nPer cs) (hr : AllRest cs)
    (m : Composite.Mode) : Inv env ⟨cs, m⟩ := ⟨hg, hu, Or.inl hr⟩

/-! ### who is active -/

theorem flags_getElem? (cs : List (CObj ℚ)) (k : Nat) : (flags cs)[k]? = (cs[k]?).map flagOf := by
  unfold flags; rw [List.getElem?_map]

theorem flagOf_leaf (c : CObj ℚ) (k : Nat) :
    ((flagOf c).2[k]?).getD false = ((c.leaves[k]?).map fun l => l.vel.isSome).getD false := by
  simp only [flagOf, List.getElem?_map]
  cases c.leaves[k]? <;> rfl

/-- an object at rest contributes no independent active identifier -/
theorem independentOf_rest {d : Nat} {L : List ℚ} {c : CObj ℚ} (hg : Good d L c) (hr : RestL c.leaves) (nPer k : Nat) :
    independentOf nPer k (flagOf c) = [] := by
  have : c.root.vel = none := (absent_iff hg.wf.2.2 hg.vel hg.sh hg.rnz).mpr hr
  simp [independentOf, flagOf, Kin.isMoving, this]

/-- leaf mode: the one moving point mass (the composite object itself if it has a single point mass) -/
theorem independentOf_one {d : Nat} {L : List ℚ} {c : CObj ℚ} (hg : Good d L c) {nPer : Nat} (hn : c.leaves.length = nPer)
    {j : Nat} {v : List ℚ} (h : OneL j v c.leaves) (i : Nat) :
    independentOf nPer i (flagOf c) = [if nPer = 1 then [i] else [i, j]] := by
  obtain ⟨⟨a, ha, hav⟩, ho⟩ := h
  have hroot : Kin.isMoving c.root = true := by
    have := root_moving hg (List.mem_of_getElem? ha) (by rw [hav]; simp)
    cases hv : c.root.vel with
    | none => exact absurd hv this
    | some _ => simp [Kin.isMoving, hv]
  have hj : j < nPer := hn ▸ lt_of_getElem? ha
  have hl : liftedLeaves nPer (flagOf c) = [j] := by
    unfold liftedLeaves
    apply filter_range_single _ nPer j hj
    intro k hk
    rw [flagOf_leaf]
    have hk' : k < c.leaves.length := hn ▸ hk
    rw [List.getElem?_eq_getElem hk']
    simp only [Option.map_some, Option.getD_some]
    constructor
    · intro hm
      by_contra hne
      have := ho k c.leaves[k] (List.getElem?_eq_getElem hk') hne
      rw [this] at hm; cases hm
    · rintro rfl
      have : c.leaves[k] = a := by
        have := List.getElem?_eq_getElem hk'
        rw [ha] at this
        exact (Option.some.inj this).symm
      rw [this, hav]; rfl
  unfold independentOf
  have h1 : (flagOf c).1 = true := hroot
  simp only [h1, if_true, hl, List.length_cons, List.length_nil, Nat.zero_add, beq_iff_eq, List.map_cons, List.map_nil]
  by_cases hn1 : nPer = 1
  · simp [hn1]
  · have : ¬ 1 = nPer := fun e => hn1 e.symm
    simp [hn1, this]

/-- root mode: the composite object -/
theorem independentOf_all {d : Nat} {L : List ℚ} {c : CObj ℚ} (hg : Good d L c) {nPer : Nat} (hn : c.leaves.length = nPer)
    {v : List ℚ} (h : AllL v c.leaves) (i : Nat) : independentOf nPer i (flagOf c) = [[i]] := by
  obtain ⟨hne, hall⟩ := h
  obtain ⟨a, ha⟩ := List.exists_mem_of_ne_nil _ hne
  have hroot : Kin.isMoving c.root = true := by
    have := root_moving hg ha (by rw [hall a ha]; simp)
    cases hv : c.root.vel with
    | none => exact absurd hv this
    | some _ => simp [Kin.isMoving, hv]
  have hl : liftedLeaves nPer (flagOf c) = List.range nPer := by
    unfold liftedLeaves
    rw [List.filter_eq_self]
    intro k hk
    have hk' : k < c.leaves.length := hn ▸ List.mem_range.mp hk
    rw [flagOf_leaf, List.getElem?_eq_getElem hk']
    simp [hall _ (List.getElem_mem hk')]
  unfold independentOf
  have h1 : (flagOf c).1 = true := hroot
  simp [h1, hl]

theorem independent_single {d : Nat} {L : List ℚ} {nPer : Nat} {cs : List (CObj ℚ)} (hg : AllGood d L cs) {i : Nat}
    {P : CObj ℚ → Prop} (hM : MovingAt cs i P) :
    ∃ c, cs[i]? = some c ∧ P c ∧ independent nPer (flags cs) = independentOf nPer i (flagOf c) := by
  obtain ⟨⟨c, hc, hp⟩, hrest⟩ := hM
  refine ⟨c, hc, hp, ?_⟩
  unfold independent
  have hlen : (flags cs).length = cs.length := by simp [flags]
  rw [hlen, flatMap_range_single _ cs.length i (lt_of_getElem? hc)]
  · rw [flags_getElem?, hc]; rfl
  · intro k hk hne
    rw [flags_getElem?, List.getElem?_eq_getElem hk]
    simp only [Option.map_some]
    exact independentOf_rest (hg _ (List.getElem_mem hk)) (hrest k _ (List.getElem?_eq_getElem hk) hne) nPer k

/-- **leaf mode: the active identifier is the moving point mass** -/
theorem independent_leaf {d : Nat} {L : List ℚ} {nPer : Nat} {cs : List (CObj ℚ)} (hg : AllGood d L cs) (hu : Uniform nPer cs)
    {i j : Nat} {v : List ℚ} (hM : MovingAt cs i (fun c => OneL j v c.leaves)) :
    independent nPer (flags cs) = [if nPer = 1 then [i] else [i, j]] := by
  obtain ⟨c, hc, hp, e⟩ := independent_single (nPer := nPer) hg hM
  rw [e]
  exact independentOf_one (hg.get hc) (hu c (List.mem_of_getElem? hc)) hp i

/-- **root mode: the active identifier is the composite object** -/
theorem independent_root {d : Nat} {L : List ℚ} {nPer : Nat} {cs : List (CObj ℚ)} (hg : AllGood d L cs) (hu : Uniform nPer cs)
    {i : Nat} {v : List ℚ} (hM : MovingAt cs i (fun c => AllL v c.leaves)) : independent nPer (flags cs) = [[i]] := by
  obtain ⟨c, hc, hp, e⟩ := independent_single (nPer := nPer) hg hM
  rw [e]
  exact independentOf_all (hg.get hc) (hu c (List.mem_of_getElem? hc)) hp i

/-- exactly one independent active identifier while a chain moves -/
theorem independent_length_chain {d : Nat} {L : List ℚ} {nPer : Nat} {cs : List (CObj ℚ)} (hg : AllGood d L cs)
    (hu : Uniform nPer cs) {sq : ℚ} {m : Composite.Mode} (hc : OneChainM cs sq m) : (independent nPer (flags cs)).length = 1 := by
  cases m with
  | leaf =>
    obtain ⟨i, j, v, _, hM⟩ := hc
    rw [independent_leaf hg hu hM]; rfl
  | root =>
    obtain ⟨i, v, _, hM⟩ := hc
    rw [independent_root hg hu hM]; rfl

/-- **the number of independent active identifiers does not change** along a transition -/
theorem count_step {env : Env ℚ} (hL : BoxOK env.d env.L) {mw : ModeWiring} {E : TaggerIdx} {s s' : St} (hi : Inv env s)
    (h : TrRaw2 env mw E s s') :
    (independent env.nPer (flags s'.cs)).length = (independent env.nPer (flags s.cs)).length := by
  have hi' := trRaw2_inv hL hi h
  obtain ⟨e, _, _, hm, ha, hs⟩ := h
  cases hq : quietKind (evKind e) with
  | true => rw [hs, flags_eq_of_vels (vels_quiet Ops.rat isZ env.L s.cs e hq)]
  | false =>
    obtain ⟨hg, hu, hr⟩ := hi
    rcases hr with hr | ⟨sq, hc⟩
    · exact absurd hr (admW_not_rest ha hq (modeStep_not_start hm))
    · have hc' := (step_chain_aux hL hg hc e hm ha).2
      rw [← hs] at hc'
      rw [independent_length_chain hi'.1 hi'.2.1 hc', independent_length_chain hg hu hc]

/-! ### reading `Supported2` -/

theorem supported2_agree {mw : ModeWiring} (hs : Supported2 mw = true) {E : TaggerIdx} (hE : E < mw.w.n) :
    kindAgrees (mw.w.tagger E).kind (mw.hmode E) = true := by
  unfold Supported2 at hs
  simp only [Bool.and_eq_true] at hs
  have := List.all_eq_true.mp hs.2 E (List.mem_range.mpr hE)
  simp only [Bool.and_eq_true] at this
  exact this.2

/-- a tagger whose commits do not affect `.ident` according to the table has a handler class that commits only `keep` / `snap` -/
theorem quiet_of_ident_false {mw : ModeWiring} (hs : Supported2 mw = true) {E : TaggerIdx}
    (ha : affects (mw.w.tagger E) .ident = false) {k : EvKind} {cm : WMode} (hk : k ∈ kindsOf (mw.hmode E) cm) :
    quietKind k = true := by
  by_cases hE : E < mw.w.n
  · have hag := supported2_agree hs hE
    revert ha hag hk
    unfold affects
    cases (mw.w.tagger E).kind <;> cases mw.hmode E <;> simp [kindAgrees, kindsOf] <;> rintro rfl <;> rfl
  · have : mw.w.taggers.length ≤ E := Nat.le_of_not_lt hE
    simp [affects, Wiring.tagger, List.getElem?_eq_none this] at ha

theorem viewOf_count {t : TaggerW} (h : idsView t = false) (l : List IdTuple) :
    l.map (viewOf t) = List.replicate l.length none := by
  induction l with
  | nil => rfl
  | cons x xs ih => simp [viewOf, h, ih, List.replicate_succ]

end JF.CW2
