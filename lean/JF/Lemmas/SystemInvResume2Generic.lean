import JF.Lemmas.SystemInvMP2Generic
import JF.Props.SystemInvResume
/-!
E50 — the generic part of E48's `JF/Props/SystemInvResume.lean` for a composed system `T : JF.SysGen.CSys`
(`JF/Lemmas/SystemInvMP2Generic.lean`): the runs `T.ReachD W` with the HEAP scheduler, dumped and resumed any number of times at any leg
boundaries (a dump replaces the mediator state `m` by `dumpH xcfg m`: scheduler pickled and rebuilt, everything else — the world and
ghost fields `x : T.X` included — as it was), and
* `reachD_minv`: E1's invariant along them (no tie hypothesis);
* `reachD_reach` (heap → spec, under E1's `NoTies`): the spec-level twin `T.ReachS` with the same commits, the same `x`, the same
  activator state and preceding handler;
* `resumed_is_uninterrupted` (no tie hypothesis): leg for leg an uninterrupted heap-level run, mediator states `LiveEq`;
* `resumed_mediator_runD`, `resumed_commits_uninterrupted`: the mediator component is what `C19Loop.runD` computes, its commits are
  those of the uninterrupted loop `runLegsE`;
* `reach_reachD` (spec → heap, non-vacuity): every spec-level run without ties with dumps inserted anywhere is a `ReachD` run.
The proofs are E48's, with `SysStepH` replaced by `leg` + `T.RStep`.
-/
namespace JF.SysGen
open JF JF.Act JF.Heap JF.Sched JF.Med JF.MediatorLoop JF.Sys
open JF.C19Loop (Step oraclesOf dumpH dumpWith StRel ExRel RunRel runD runLegsE heapBisim leg_congr)
open JF.SystemInvResume (oraclesOf_snoc_leg oraclesOf_snoc_dump noTies_snoc notDump filter_snoc_leg filter_snoc_dump runD_append
  runD_single runD_snoc_dump_fst)

/-- **a run of the composed system `T` (heap scheduler) that is dumped and resumed any number of times at any leg boundaries** -/
inductive CSys.ReachD (T : CSys) (W : Nat) :
    List (Step XTime) → List (Committed XTime) → MedState (HSched XTime) → T.X → Prop
  | init (m : MedState (HSched XTime)) (x : T.X) (hm : m = MedState.init (heapI xcfg W) T.M.w) (h : T.Init x) :
      ReachD T W [] [] m x
  | step {ss : List (Step XTime)} {cs : List (Committed XTime)} {m m' : MedState (HSched XTime)} {x x' : T.X}
      {o : Oracle XTime} {cm : Committed XTime} (prev : ReachD T W ss cs m x)
      (hgo : ∀ cl, cs.getLast? = some cl → cl.stop = false)
      (hleg : leg T.M (heapI xcfg W) m o = .ok (m', cm)) (hw : T.RStep (eraseS m) m.sched.last x o cm x') :
      ReachD T W (ss ++ [.leg o]) (cs ++ [cm]) m' x'
  | dump {ss : List (Step XTime)} {cs : List (Committed XTime)} {m : MedState (HSched XTime)} {x : T.X}
      (prev : ReachD T W ss cs m x) : ReachD T W (ss ++ [.dump]) cs (dumpH (W := W) xcfg m) x

section main
variable {T : CSys} {W : Nat}

/-- E1's loop invariant for the heap instance along every dumped-and-resumed run (a dump changes neither the ghost dictionary nor
the last commit time: `pickle_spec`) -/
theorem reachD_minv (hs : Static T.M) (hW : 0 < W) {ss : List (Step XTime)} {cs : List (Committed XTime)}
    {m : MedState (HSched XTime)} {x : T.X} (hr : T.ReachD W ss cs m x) :
    MInv (I := heapI xcfg W) T.M (HRelM xcfg W) m (pendOf (fun _ => none) cs) (lastOf xcfg.bot cs) := by
  induction hr with
  | init m x hm _ => rw [hm]; exact minv_init (heapLaws xcfg_strictWeak hW) T.M
  | step _ _ hleg _ ih =>
    rw [pendOf_snoc, lastOf_snoc]
    exact (leg_inv (heapLaws xcfg_strictWeak hW) hs ih hleg).1
  | dump _ ih =>
    obtain ⟨P1, _, P3, _⟩ := pickle_spec xcfg_strictWeak ih.rel.1
    exact ⟨ih.pool, ⟨P1, by show (HSched.pickle xcfg _).last = _; rw [P3]; exact ih.rel.2⟩, ih.mirror⟩

/-- **the main bridge, heap → spec** -/
theorem reachD_reach (hs : Static T.M) (hW : 0 < W) {ss : List (Step XTime)} {cs : List (Committed XTime)}
    {mH : MedState (HSched XTime)} {x : T.X} (hr : T.ReachD W ss cs mH x) (nt : NoTies xcfg xcfg.finite (fun _ => none) cs) :
    ∃ m : SM, T.ReachS (oraclesOf ss) cs m x ∧ m.act = mH.act ∧ m.preceding = mH.preceding := by
  induction hr with
  | init m x hm h =>
    refine ⟨MedState.init (specI xcfg) T.M.w, .init _ _ rfl h, ?_, ?_⟩ <;> rw [hm] <;> rfl
  | @step ss cs mH0 mH' x x' o cm prev hgo hleg hw ih =>
    obtain ⟨nt0, ntl⟩ := (noTies_snoc cs _ cm).mp nt
    obtain ⟨m, hreach, hact, hpre⟩ := ih nt0
    have invH := reachD_minv hs hW prev
    have invS : MInv (I := specI xcfg) T.M (SRel xcfg) m (pendOf (fun _ => none) cs) (lastOf xcfg.bot cs) :=
      (MediatorLoop.run_inv (specLaws xcfg_strictWeak) hs (reach_medRun hreach)
        (minv_init (specLaws xcfg_strictWeak) T.M)).1
    obtain ⟨m', hleg', hact', hpre', _⟩ :=
      refines_leg (heapLaws xcfg_strictWeak hW) (specLaws xcfg_strictWeak) hs (fun _ h => h)
        (fun a b _ hb hb' => by rw [hb] at hb'; cases hb') invH invS.rel hact hpre hleg ntl
    refine ⟨m', ?_, hact', hpre'⟩
    rw [oraclesOf_snoc_leg]
    refine .step hreach hgo hleg' ?_
    have e1 : eraseS m = eraseS mH0 := eraseS_congr hact hpre
    have e2 : SSched.last (κ := XTime) m.sched = mH0.sched.last := by
      have h1 : SSched.last (κ := XTime) m.sched = lastOf xcfg.bot cs := invS.rel.last
      have h2 : mH0.sched.last = lastOf xcfg.bot cs := invH.rel.2
      rw [h1, h2]
    show T.RStep (eraseS m) (SSched.last (κ := XTime) m.sched) x o cm x'
    rw [e1, e2]; exact hw
  | dump prev ih =>
    obtain ⟨m, hreach, hact, hpre⟩ := ih nt
    exact ⟨m, by rw [oraclesOf_snoc_dump]; exact hreach, hact, hpre⟩

/-- **resume = uninterrupted, leg for leg** (no tie hypothesis) -/
theorem resumed_is_uninterrupted (hs : Static T.M) (hW : 0 < W) {ss : List (Step XTime)} {cs : List (Committed XTime)}
    {mH : MedState (HSched XTime)} {x : T.X} (hr : T.ReachD W ss cs mH x) :
    ∃ m' : MedState (HSched XTime), T.ReachD W (ss.filter notDump) cs m' x ∧ StRel (LiveEq xcfg) m' mH := by
  induction hr with
  | init m x hm h =>
    have h0 : T.ReachD W [] [] m x := .init m x hm h
    exact ⟨m, h0, rfl, rfl, LiveEq.refl (reachD_minv hs hW h0).rel.1.inv⟩
  | @step ss cs mH0 mH' x x' o cm prev hgo hleg hw ih =>
    obtain ⟨m0, hr0, rel⟩ := ih
    have h := leg_congr (heapBisim xcfg_strictWeak W) T.M o rel
    rw [hleg] at h
    cases h1 : leg T.M (heapI xcfg W) m0 o with
    | error e => rw [h1] at h; exact h.elim
    | ok y =>
      rw [h1] at h
      obtain ⟨y1, cm'⟩ := y
      obtain ⟨hcm, rel'⟩ := h
      simp only at hcm
      subst hcm
      refine ⟨y1, ?_, rel'⟩
      rw [filter_snoc_leg]
      refine .step hr0 hgo h1 ?_
      rw [eraseS_congr rel.act rel.preceding, rel.sched.last]; exact hw
  | dump prev ih =>
    obtain ⟨m0, hr0, rel⟩ := ih
    have inv := reachD_minv hs hW prev
    refine ⟨m0, ?_, rel.act, rel.preceding, rel.sched.trans (pickle_liveEq xcfg_strictWeak inv.rel.1)⟩
    rw [filter_snoc_dump]; exact hr0

/-- in a run whose last commit is not the end of the run, no commit is -/
theorem reachD_allgo {ss : List (Step XTime)} {cs : List (Committed XTime)} {mH : MedState (HSched XTime)} {x : T.X}
    (hr : T.ReachD W ss cs mH x) :
    (∀ cl, cs.getLast? = some cl → cl.stop = false) → ∀ cl ∈ cs, cl.stop = false := by
  induction hr with
  | init => intro _ cl h; cases h
  | @step ss cs m m' x x' o cm prev hgo hleg hw ih =>
    intro hl cl hcl
    rcases List.mem_append.mp hcl with h | h
    · exact ih hgo cl h
    · have : cl = cm := by simpa using h
      subst this
      exact hl _ (by simp)
  | dump prev ih => exact ih

/-- **the mediator component of a dumped-and-resumed run is what `C19Loop.runD` computes** from the initial mediator state on the
same steps: the same commits — always —, and, as long as the run has not been ended by the end-of-run commit, the same final
mediator state -/
theorem resumed_mediator_runD {ss : List (Step XTime)} {cs : List (Committed XTime)} {mH : MedState (HSched XTime)} {x : T.X}
    (hr : T.ReachD W ss cs mH x) :
    (runD T.M (heapI xcfg W) (HSched.pickle xcfg) (MedState.init (heapI xcfg W) T.M.w) ss).1 = cs ∧
    ((∀ cl ∈ cs, cl.stop = false) →
      runD T.M (heapI xcfg W) (HSched.pickle xcfg) (MedState.init (heapI xcfg W) T.M.w) ss = (cs, .ok mH)) := by
  induction hr with
  | init m x hm _ => rw [hm]; exact ⟨rfl, fun _ => rfl⟩
  | @step ss cs m m' x x' o cm prev hgo hleg hw ih =>
    have hall := reachD_allgo prev hgo
    have happ := runD_append T.M (heapI xcfg W) (HSched.pickle xcfg) ss [Step.leg o] _ _ _ (ih.2 hall) hall
    have e1 := runD_single T.M (heapI xcfg W) (HSched.pickle xcfg) hleg
    have e2 : runD T.M (heapI xcfg W) (HSched.pickle xcfg)
        (MedState.init (heapI xcfg W) T.M.w) (ss ++ [Step.leg o]) = (cs ++ [cm], .ok m') :=
      happ.trans (congrArg (fun y => (cs ++ y.1, y.2)) e1)
    exact ⟨congrArg Prod.fst e2, fun _ => e2⟩
  | @dump ss cs m x prev ih =>
    refine ⟨(runD_snoc_dump_fst _ _ _ ss _).trans ih.1, fun hne => ?_⟩
    have happ := runD_append T.M (heapI xcfg W) (HSched.pickle xcfg) ss [Step.dump] _ _ _ (ih.2 hne) hne
    exact happ.trans (Prod.ext (List.append_nil cs) rfl)

/-- … hence (`C19Loop.resume_repeated`, no tie hypothesis) **the commits of a dumped-and-resumed run are exactly the commits of the
uninterrupted mediator loop** `runLegsE` with the heap scheduler on the oracle values of its legs -/
theorem resumed_commits_uninterrupted (hs : Static T.M) (hW : 0 < W) {ss : List (Step XTime)} {cs : List (Committed XTime)}
    {mH : MedState (HSched XTime)} {x : T.X} (hr : T.ReachD W ss cs mH x) :
    (runLegsE T.M (heapI xcfg W) (MedState.init (heapI xcfg W) T.M.w) (oraclesOf ss)).1 = cs :=
  (C19Loop.resume_repeated xcfg_strictWeak hW hs C19Loop.Reach.init ss).1.trans (resumed_mediator_runD hr).1

/-! ## the converse construction (spec → heap), for non-vacuity -/

theorem reach_nil_inv {I : SchedI XTime} {lastI : I.σ → XTime} {os : List (Oracle XTime)} {cs : List (Committed XTime)}
    {m : MedState I.σ} {x : T.X} (hr : T.Reach I lastI os cs m x) (he : os = []) :
    cs = [] ∧ m = MedState.init I T.M.w ∧ T.Init x := by
  cases hr with
  | init _ _ hm h => exact ⟨rfl, hm, h⟩
  | step _ _ _ _ => simp at he

theorem reach_snoc_inv {I : SchedI XTime} {lastI : I.σ → XTime} {os' : List (Oracle XTime)} {cs' : List (Committed XTime)}
    {m' : MedState I.σ} {x' : T.X} (hr : T.Reach I lastI os' cs' m' x') {os : List (Oracle XTime)} {o : Oracle XTime}
    (he : os' = os ++ [o]) :
    ∃ cs m x cm, cs' = cs ++ [cm] ∧ T.Reach I lastI os cs m x ∧ (∀ cl, cs.getLast? = some cl → cl.stop = false) ∧
      leg T.M I m o = .ok (m', cm) ∧ T.RStep (eraseS m) (lastI m.sched) x o cm x' := by
  cases hr with
  | init _ _ _ h => simp at he
  | @step os0 cs0 m0 _ x0 _ o0 cm0 prev hgo hleg hw =>
    obtain ⟨h1, h2⟩ := List.append_inj' he rfl
    simp only [List.cons.injEq, and_true] at h2
    subst h1 h2
    exact ⟨cs0, m0, x0, cm0, rfl, prev, hgo, hleg, hw⟩

/-- **spec → heap.**  Take any spec-level run of `T` without time ties, and insert dump/resume round trips at ANY leg boundaries, any
number of them (`ss` arbitrary with `oraclesOf ss = os`): the result is a dumped-and-resumed run `T.ReachD` with the same commits
and the same world and ghost fields. -/
theorem reach_reachD (hs : Static T.M) (hW : 0 < W) : ∀ (ss : List (Step XTime)) {cs : List (Committed XTime)} {m : SM}
    {x : T.X}, T.ReachS (oraclesOf ss) cs m x → NoTies xcfg xcfg.finite (fun _ => none) cs →
    ∃ mH : MedState (HSched XTime), T.ReachD W ss cs mH x ∧ mH.act = m.act ∧ mH.preceding = m.preceding := by
  intro ss
  induction ss using List.reverseRecOn with
  | nil =>
    intro cs m x hr _
    obtain ⟨rfl, hm, hi⟩ := reach_nil_inv hr rfl
    refine ⟨MedState.init (heapI xcfg W) T.M.w, .init _ _ rfl hi, ?_, ?_⟩ <;> rw [hm] <;> rfl
  | append_singleton ss y ih =>
    intro cs m x hr nt
    cases y with
    | dump =>
      rw [oraclesOf_snoc_dump] at hr
      obtain ⟨mH, hD, hact, hpre⟩ := ih hr nt
      exact ⟨dumpH (W := W) xcfg mH, CSys.ReachD.dump hD, hact, hpre⟩
    | leg o =>
      obtain ⟨cs0, m0, x0, cm, rfl, hr0, hgo, hleg, hw⟩ := reach_snoc_inv hr (oraclesOf_snoc_leg ss o)
      obtain ⟨nt0, ntl⟩ := (noTies_snoc cs0 _ cm).mp nt
      obtain ⟨mH0, hD, hact, hpre⟩ := ih hr0 nt0
      have invH := reachD_minv hs hW hD
      have invS : MInv (I := specI xcfg) T.M (SRel xcfg) m0 (pendOf (fun _ => none) cs0) (lastOf xcfg.bot cs0) :=
        (MediatorLoop.run_inv (specLaws xcfg_strictWeak) hs (reach_medRun hr0)
          (minv_init (specLaws xcfg_strictWeak) T.M)).1
      obtain ⟨mH', hleg', hact', hpre', _⟩ :=
        refines_leg (specLaws xcfg_strictWeak) (heapLaws xcfg_strictWeak hW) hs (fun _ h => h)
          (fun a b _ hb hb' => by rw [hb] at hb'; cases hb') invS invH.rel hact hpre hleg ntl
      refine ⟨mH', .step hD hgo hleg' ?_, hact', hpre'⟩
      have e1 : eraseS mH0 = eraseS m0 := eraseS_congr hact hpre
      have e2 : mH0.sched.last = SSched.last (κ := XTime) m0.sched := by
        have h1 : SSched.last (κ := XTime) m0.sched = lastOf xcfg.bot cs0 := invS.rel.last
        have h2 : mH0.sched.last = lastOf xcfg.bot cs0 := invH.rel.2
        rw [h1, h2]
      rw [e1, e2]; exact hw

end main

end JF.SysGen
