import JF.Lemmas.WalkerBuild
import Mathlib.Algebra.Order.Floor.Ring
import Mathlib.Data.Rat.Floor
import Mathlib.Tactic.Positivity
import Mathlib.Tactic.LinearCombination
/-!
Helper lemmas for C18: the exact reading of `CuboidPeriodicCells.translate` / `position_to_cell` on a cell
system whose cell boundaries are the exact multiples of the cell side length.
-/
namespace JF.Walker

theorem getElem!_map_range (f : ℕ → ℚ) (n i : ℕ) (h : i < n) : ((List.range n).map f)[i]! = f i := by
  simp [h]

/-- Python's float `%` with a non-negative dividend and a positive divisor, exact reading -/
theorem pymod_rat_nonneg (x y : ℚ) (hx : 0 ≤ x) (hy : 0 < y) : pymod Ops.rat x y = x - y * ⌊x / y⌋ := by
  have hq : 0 ≤ x / y := div_nonneg hx hy.le
  have hm : Ops.rat.fmod x y = x - y * ⌊x / y⌋ := by
    simp only [Ops.rat, trunc_nonneg hq]
  have hm0 : 0 ≤ x - y * ⌊x / y⌋ := by
    have := Int.floor_le (x / y)
    have : y * ⌊x / y⌋ ≤ y * (x / y) := by apply mul_le_mul_of_nonneg_left this hy.le
    rw [mul_div_cancel₀ _ (ne_of_gt hy)] at this
    linarith
  simp only [pymod, hm, rat_ofInt, Int.cast_zero, rat_zeroLike]
  by_cases hz : x - y * ⌊x / y⌋ = 0
  · simp [hz]
  · have : ¬ (x - y * ⌊x / y⌋ < 0) := not_lt.mpr hm0
    simp [hz, this, not_lt.mpr hy.le]

/-- a direction of an exact cell system: `cell_min[i] = i·side`, `cell_max[i] = (i+1)·side`, `L = n·side` -/
def DimExact (D : Dim ℚ) : Prop :=
  0 < D.n ∧ ∃ side : ℚ, 0 < side ∧ D.len = D.n * side ∧
    D.cmin = (List.range D.n).map (fun i : ℕ => (i : ℚ) * side) ∧
    D.cmax = (List.range D.n).map (fun i : ℕ => ((i : ℚ) + 1) * side)

theorem floor_half (r : ℕ) : ⌊(r : ℚ) + 1 / 2⌋ = (r : ℤ) := by
  rw [Int.floor_eq_iff]; constructor <;> push_cast <;> linarith

theorem floor_div_half (s n : ℕ) (hn : 0 < n) : ⌊((s : ℚ) + 1 / 2) / n⌋ = ((s / n : ℕ) : ℤ) := by
  have hnq : (0 : ℚ) < n := by exact_mod_cast hn
  have hdm : n * (s / n) + s % n = s := Nat.div_add_mod s n
  have hdmq : (n : ℚ) * ((s / n : ℕ) : ℚ) + ((s % n : ℕ) : ℚ) = s := by exact_mod_cast hdm
  have hrem : s % n + 1 ≤ n := Nat.mod_lt s hn
  have hremq : ((s % n : ℕ) : ℚ) + 1 ≤ n := by exact_mod_cast hrem
  rw [Int.floor_eq_iff]
  constructor
  · rw [le_div_iff₀ hnq]; simp only [Int.cast_natCast]
    have : (0:ℚ) ≤ ((s % n : ℕ) : ℚ) := by positivity
    nlinarith
  · rw [div_lt_iff₀ hnq]; simp only [Int.cast_natCast]
    nlinarith

/-- one direction of `translate`: the translated position entry and its cell identifier -/
theorem translate_dim (D : Dim ℚ) (hD : DimExact D) (c r : ℕ) :
    ∃ p : ℚ, pywrap Ops.rat ((D.cmax[c % D.n]! + D.cmin[c % D.n]!) / Ops.rat.ofInt 2 + D.cmin[r % D.n]!) D.len = p ∧
      0 ≤ p ∧ p ≤ D.len ∧
      min (Ops.rat.toInt (p / (D.len / Ops.rat.ofInt D.n))) ((D.n : ℤ) - 1) = (((c % D.n + r % D.n) % D.n : ℕ) : ℤ) := by
  obtain ⟨hn, side, hs, hlen, hmin, hmax⟩ := hD
  have ha : c % D.n < D.n := Nat.mod_lt _ hn
  have ho : r % D.n < D.n := Nat.mod_lt _ hn
  set a := c % D.n
  set o := r % D.n
  have hnq : (0 : ℚ) < D.n := by exact_mod_cast hn
  have hL : 0 < D.len := by rw [hlen]; positivity
  have hx : (D.cmax[a]! + D.cmin[a]!) / Ops.rat.ofInt 2 + D.cmin[o]! = (((a + o : ℕ) : ℚ) + 1 / 2) * side := by
    rw [hmin, hmax, getElem!_map_range _ _ _ ha, getElem!_map_range _ _ _ ha, getElem!_map_range _ _ _ ho]
    simp only [rat_ofInt]; push_cast; ring
  have hx0 : 0 ≤ (((a + o : ℕ) : ℚ) + 1 / 2) * side := by positivity
  have hdiv : (((a + o : ℕ) : ℚ) + 1 / 2) * side / D.len = (((a + o : ℕ) : ℚ) + 1 / 2) / D.n := by
    rw [hlen]; field_simp
  have hdm : D.n * ((a + o) / D.n) + (a + o) % D.n = a + o := Nat.div_add_mod _ _
  have hdmq : (D.n : ℚ) * (((a + o) / D.n : ℕ) : ℚ) + (((a + o) % D.n : ℕ) : ℚ) = ((a + o : ℕ) : ℚ) := by
    exact_mod_cast hdm
  have hrem : (a + o) % D.n + 1 ≤ D.n := Nat.mod_lt _ hn
  have hremq : (((a + o) % D.n : ℕ) : ℚ) + 1 ≤ D.n := by exact_mod_cast hrem
  have hp : pywrap Ops.rat ((D.cmax[a]! + D.cmin[a]!) / Ops.rat.ofInt 2 + D.cmin[o]!) D.len
      = ((((a + o) % D.n : ℕ) : ℚ) + 1 / 2) * side := by
    rw [hx, JF.pywrap_rat_pos _ _ hL, hdiv, floor_div_half _ _ hn, hlen]
    simp only [Int.cast_natCast]
    linear_combination side * hdmq.symm
  refine ⟨_, hp, by positivity, ?_, ?_⟩
  · rw [hlen]
    have : (((a + o) % D.n : ℕ) : ℚ) + 1 / 2 ≤ D.n := by linarith
    exact mul_le_mul_of_nonneg_right this hs.le
  · have hq : ((((a + o) % D.n : ℕ) : ℚ) + 1 / 2) * side / (D.len / Ops.rat.ofInt D.n)
        = (((a + o) % D.n : ℕ) : ℚ) + 1 / 2 := by
      rw [hlen]; simp only [rat_ofInt, Int.cast_natCast]; field_simp
    rw [hq, rat_toInt, trunc_nonneg (by positivity), floor_half]
    have : (((a + o) % D.n : ℕ) : ℤ) + 1 ≤ (D.n : ℤ) := by exact_mod_cast hrem
    omega

/-- the list index of the cell at offset `r` from cell `c` -/
def addIdx : List Nat → Nat → Nat → Nat
  | [], _, _ => 0
  | n :: ns, c, r => (c % n + r % n) % n + n * addIdx ns (c / n) (r / n)

/-- identifier of the cell at an offset: component-wise sum modulo the number of cells -/
def offsetId : List Nat → List Nat → List Nat → List Nat
  | n :: ns, a :: as, o :: os => (a + o) % n :: offsetId ns as os
  | _, _, _ => []

theorem addIdx_lt (ns : List Nat) (hpos : ∀ n ∈ ns, 0 < n) (c r : Nat) : addIdx ns c r < numCells ns := by
  induction ns generalizing c r with
  | nil => simp [addIdx, numCells]
  | cons n ns ih =>
    have hn := hpos n List.mem_cons_self
    have h1 : (c % n + r % n) % n < n := Nat.mod_lt _ hn
    have h2 := ih (fun k hk => hpos k (List.mem_cons_of_mem _ hk)) (c / n) (r / n)
    simp only [addIdx, numCells]
    calc (c % n + r % n) % n + n * addIdx ns (c / n) (r / n)
        < n + n * addIdx ns (c / n) (r / n) := by omega
      _ = n * (addIdx ns (c / n) (r / n) + 1) := by ring
      _ ≤ n * numCells ns := Nat.mul_le_mul_left _ h2

/-- **offset mapping**: the identifier of `addIdx ns c r` is the component-wise sum of the identifiers of
`c` and `r` modulo the numbers of cells -/
theorem cellId_addIdx (ns : List Nat) (hpos : ∀ n ∈ ns, 0 < n) (c r : Nat) :
    cellId ns (addIdx ns c r) = offsetId ns (cellId ns c) (cellId ns r) := by
  induction ns generalizing c r with
  | nil => simp [cellId, offsetId]
  | cons n ns ih =>
    have hn := hpos n List.mem_cons_self
    have h1 : (c % n + r % n) % n < n := Nat.mod_lt _ hn
    simp only [cellId, addIdx, offsetId]
    rw [Nat.add_mul_mod_self_left, Nat.mod_eq_of_lt h1, Nat.add_mul_div_left _ _ hn, Nat.div_eq_of_lt h1, zero_add,
      ih (fun k hk => hpos k (List.mem_cons_of_mem _ hk))]

theorem translate_dims (dims : List (Dim ℚ)) (hex : ∀ D ∈ dims, DimExact D) (c r : ℕ) :
    posInBox Ops.rat dims (translatePos Ops.rat dims c r) = true ∧
    posIndex Ops.rat dims (translatePos Ops.rat dims c r) = ((addIdx (dims.map (·.n)) c r : ℕ) : ℤ) := by
  induction dims generalizing c r with
  | nil => simp [posInBox, posIndex, addIdx]
  | cons D Ds ih =>
    obtain ⟨p, hp, h0, hL, hi⟩ := translate_dim D (hex D List.mem_cons_self) c r
    obtain ⟨ih1, ih2⟩ := ih (fun E hE => hex E (List.mem_cons_of_mem _ hE)) (c / D.n) (r / D.n)
    simp only [translatePos, posInBox, posIndex, List.map_cons, addIdx]
    rw [hp, hi, ih1, ih2]
    refine ⟨by simp [h0, hL], by push_cast; ring⟩

/-- **`translate` on an exact periodic cell system returns the cell at the offset** -/
theorem translate_rat (g : Grid ℚ) (hex : ∀ D ∈ g.dims, DimExact D) (c r : ℕ) :
    translate Ops.rat g c r = .ok (addIdx g.ns c r) := by
  obtain ⟨h1, h2⟩ := translate_dims g.dims hex c r
  have hlt := addIdx_lt g.ns (by
    intro n hn; simp only [Grid.ns, List.mem_map] at hn; obtain ⟨D, hD, rfl⟩ := hn; exact (hex D hD).1) c r
  simp only [translate, posToCell, h1, Bool.not_true, Bool.false_eq_true, if_false, h2, pyIndex]
  simp only [Grid.ns] at hlt ⊢
  have : (0:ℤ) ≤ ((addIdx (g.dims.map (·.n)) c r : ℕ) : ℤ) := by positivity
  simp [this, hlt]

/-! ### different offsets lead to different cells -/

theorem add_mod_cancel (n a x y : Nat) (hx : x < n) (hy : y < n) (ha : a < n) (h : (a + x) % n = (a + y) % n) :
    x = y := by
  have e : ∀ z, z < n → (a + z) % n = if a + z < n then a + z else a + z - n := by
    intro z hz
    split
    · exact Nat.mod_eq_of_lt ‹_›
    · rw [Nat.mod_eq_sub_mod (by omega), Nat.mod_eq_of_lt (by omega)]
  rw [e x hx, e y hy] at h
  split at h <;> split at h <;> omega

theorem addIdx_injective (ns : List Nat) (hpos : ∀ n ∈ ns, 0 < n) (c r₁ r₂ : Nat)
    (h₁ : r₁ < numCells ns) (h₂ : r₂ < numCells ns) (h : addIdx ns c r₁ = addIdx ns c r₂) : r₁ = r₂ := by
  induction ns generalizing c r₁ r₂ with
  | nil => simp only [numCells] at h₁ h₂; omega
  | cons n ns ih =>
    have hn := hpos n List.mem_cons_self
    simp only [addIdx] at h
    simp only [numCells] at h₁ h₂
    have ha : (c % n + r₁ % n) % n < n := Nat.mod_lt _ hn
    have hb : (c % n + r₂ % n) % n < n := Nat.mod_lt _ hn
    have hmod : (c % n + r₁ % n) % n = (c % n + r₂ % n) % n := by
      have := congrArg (· % n) h
      simpa [Nat.add_mul_mod_self_left, Nat.mod_eq_of_lt ha, Nat.mod_eq_of_lt hb] using this
    have hdiv : addIdx ns (c / n) (r₁ / n) = addIdx ns (c / n) (r₂ / n) := by
      have := congrArg (· / n) h
      simpa [Nat.add_mul_div_left _ _ hn, Nat.div_eq_of_lt ha, Nat.div_eq_of_lt hb] using this
    have hq : r₁ / n = r₂ / n := by
      apply ih (fun k hk => hpos k (List.mem_cons_of_mem _ hk)) (c / n) _ _ _ _ hdiv
      · exact Nat.div_lt_of_lt_mul h₁
      · exact Nat.div_lt_of_lt_mul h₂
    have hr : r₁ % n = r₂ % n := by
      have h1 : r₁ % n < n := Nat.mod_lt _ hn
      have h2 : r₂ % n < n := Nat.mod_lt _ hn
      have hc : c % n < n := Nat.mod_lt _ hn
      exact add_mod_cancel n (c % n) _ _ h1 h2 hc hmod
    calc r₁ = n * (r₁ / n) + r₁ % n := (Nat.div_add_mod r₁ n).symm
      _ = n * (r₂ / n) + r₂ % n := by rw [hq, hr]
      _ = r₂ := Nat.div_add_mod r₂ n

end JF.Walker
