import JF.Lemmas.HeapPickle
/-!
Observational content of the model of `heap.c`: every function of `heap.c` reads only the *live part*
of the array (indices `1 … length - 1`), the key of the sentinel at index 0 and the spare slot `length`
(which it writes before it reads it, or which holds an entry that was live a moment ago).  Hence two
blocks that agree on the live part — but may have different allocated sizes and different garbage beyond
`length` — are transformed into two blocks that again agree on the live part, with equal results.

`Sim n P a b` is the simulation relation used for all loops: equal `length`, equal fault flag, both
blocks have at least `n` entries, equal entries at the indices in `P`.
-/
namespace JF.Heap
variable {κ : Type} {cfg : Cfg κ}

/-- `a` and `b` cannot be told apart through `length`, the fault flag and the entries at the indices in
`P`; every index `< n` is inside both allocated blocks -/
structure Sim (cfg : Cfg κ) (n : Nat) (P : Nat → Prop) (a b : CHeap κ) : Prop where
  len : a.length = b.length
  flt : a.fault = b.fault
  sa : n ≤ a.mem.size
  sb : n ≤ b.mem.size
  eq : ∀ i, P i → get cfg a i = get cfg b i

section
variable {n : Nat} {P Q : Nat → Prop} {a b : CHeap κ}

theorem Sim.mono (h : Sim cfg n P a b) (hq : ∀ i, Q i → P i) : Sim cfg n Q a b :=
  ⟨h.len, h.flt, h.sa, h.sb, fun i hi => h.eq i (hq i hi)⟩

theorem Sim.chkA (h : Sim cfg n P a b) {i : Nat} (hi : i < n) : chk a i = a :=
  chk_of_lt a (Nat.lt_of_lt_of_le hi h.sa)
theorem Sim.chkB (h : Sim cfg n P a b) {i : Nat} (hi : i < n) : chk b i = b :=
  chk_of_lt b (Nat.lt_of_lt_of_le hi h.sb)

/-- the same write in both blocks; afterwards the written index agrees as well -/
theorem Sim.set (h : Sim cfg n P a b) {i : Nat} (hi : i < n) (e : Entry κ)
    (hq : ∀ j, Q j → j ≠ i → P j) : Sim cfg n Q (set a i e) (set b i e) := by
  have ha : i < a.mem.size := Nat.lt_of_lt_of_le hi h.sa
  have hb : i < b.mem.size := Nat.lt_of_lt_of_le hi h.sb
  refine ⟨by simp [h.len], by rw [fault_set a e ha, fault_set b e hb]; exact h.flt, by simp; exact h.sa,
    by simp; exact h.sb, fun j hj => ?_⟩
  rw [get_set_lt a j e ha, get_set_lt b j e hb]
  by_cases hji : j = i
  · simp only [hji, if_true]
  · simp only [hji, if_false]; exact h.eq j (hq j hj hji)

theorem Sim.withLen (h : Sim cfg n P a b) (k : Nat) :
    Sim cfg n P ({ a with length := k } : CHeap κ) ({ b with length := k } : CHeap κ) :=
  ⟨rfl, h.flt, h.sa, h.sb, fun i hi => h.eq i hi⟩

theorem Sim.withFault (h : Sim cfg n P a b) :
    Sim cfg n P ({ a with fault := true } : CHeap κ) ({ b with fault := true } : CHeap κ) :=
  ⟨h.len, rfl, h.sa, h.sb, fun i hi => h.eq i hi⟩
end

/-! ### lengths (unconditional) -/

theorem insertLoop_length (k : κ) : ∀ fuel (hp : CHeap κ) pos,
    (insertLoop cfg k fuel hp pos).1.length = hp.length := by
  intro fuel
  induction fuel with
  | zero => intro hp pos; rfl
  | succ fuel ih =>
    intro hp pos
    simp only [insertLoop]
    split
    · rw [ih]; simp
    · simp

theorem bubbleDownLoop_length : ∀ fuel (hp : CHeap κ) pos,
    (bubbleDownLoop cfg fuel hp pos).length = hp.length := by
  intro fuel
  induction fuel with
  | zero => intro hp pos; simp only [bubbleDownLoop]; split <;> rfl
  | succ fuel ih =>
    intro hp pos
    simp only [bubbleDownLoop]
    split
    · rw [ih]; simp
    · rfl

theorem bubbleDown_length (hp : CHeap κ) (pos : Nat) : (bubbleDown cfg hp pos).length = hp.length :=
  bubbleDownLoop_length _ _ _

theorem heapify_length : ∀ idx (hp : CHeap κ), (heapify cfg idx hp).length = hp.length := by
  intro idx
  induction idx with
  | zero => intro hp; rfl
  | succ idx ih =>
    intro hp
    simp only [heapify]
    rw [ih, bubbleDown_length]; simp

theorem delScan_length_le (h : Nat) : ∀ fuel (hp : CHeap κ) cur,
    (delScan cfg h fuel hp cur).length ≤ hp.length := by
  intro fuel
  induction fuel with
  | zero => intro hp cur; simp only [delScan]; split <;> exact Nat.le_refl _
  | succ fuel ih =>
    intro hp cur
    simp only [delScan]
    split
    · split
      · refine Nat.le_trans (ih _ _) ?_
        simp
      · refine Nat.le_trans (ih _ _) ?_
        simp
    · exact Nat.le_refl _

theorem rootLoop_length_le (dead : Nat → Nat → Bool) : ∀ fuel (hp : CHeap κ),
    (rootLoop cfg dead fuel hp).length ≤ hp.length := by
  intro fuel
  induction fuel with
  | zero => intro hp; simp only [rootLoop]; split <;> exact Nat.le_refl _
  | succ fuel ih =>
    intro hp
    simp only [rootLoop]
    split
    · split
      · refine Nat.le_trans (ih _) ?_
        rw [bubbleDown_length]; simp
      · simp
    · exact Nat.le_refl _

/-! ### heaps without entries: `root` and `delete_events` do nothing -/

theorem rootLoop_short (dead : Nat → Nat → Bool) (fuel : Nat) (hp : CHeap κ) (h : hp.length ≤ 1) :
    rootLoop cfg dead fuel hp = hp := by
  have : ¬ hp.length > 1 := by omega
  cases fuel <;> simp [rootLoop, this]

theorem root_short (dead : Nat → Nat → Bool) (hp : CHeap κ) (h : hp.length ≤ 1) :
    root cfg dead hp = (hp, nullEntry cfg) := by
  have : ¬ hp.length > 1 := by omega
  simp only [root, rootLoop_short dead _ hp h, this, if_false]

theorem deleteEvents_short (hp : CHeap κ) (h : Nat) (hl : hp.length ≤ 1) : deleteEvents cfg hp h = hp := by
  have h1 : ¬ 1 < hp.length := by omega
  have h2 : delScan cfg h hp.length hp 1 = hp := by
    cases hp.length <;> simp [delScan, h1]
  have h3 : hp.length / 2 = 0 := by omega
  simp only [deleteEvents, h2, h3, heapify]

/-! ### `bubble_down` -/

/-- `pick` reads the spare slot `length` and children below `length` only -/
theorem pick_congr {a b : CHeap κ} (hl : a.length = b.length) {pos : Nat} (h1 : 1 ≤ pos) (hpl : pos < a.length)
    (he : ∀ i, 1 ≤ i → i ≤ a.length → get cfg a i = get cfg b i) : pick cfg a pos = pick cfg b pos := by
  have hL : get cfg b a.length = get cfg a a.length := (he _ (by omega) (Nat.le_refl _)).symm
  unfold pick
  simp only [← hl, hL]
  by_cases c1 : pos * 2 < a.length
  · have e1 : get cfg b (pos * 2) = get cfg a (pos * 2) := (he _ (by omega) (by omega)).symm
    by_cases c2 : pos * 2 + 1 < a.length
    · have e2 : get cfg b (pos * 2 + 1) = get cfg a (pos * 2 + 1) := (he _ (by omega) (by omega)).symm
      simp only [e1, e2]
      split <;> simp only [e1, hL]
    · simp only [c2, decide_false, Bool.false_and, Bool.false_eq_true, if_false, e1]
  · have c2 : ¬ pos * 2 + 1 < a.length := by omega
    simp only [c1, c2, decide_false, Bool.false_and, Bool.false_eq_true, if_false]

theorem bubbleDownLoop_sim (o : StrictWeak cfg) (n L : Nat) (hLn : L < n) :
    ∀ fuel (a b : CHeap κ) pos, 1 ≤ pos → a.length = L →
      Sim cfg n (fun i => 1 ≤ i ∧ i ≤ L) a b →
      Sim cfg n (fun i => 1 ≤ i ∧ i ≤ L) (bubbleDownLoop cfg fuel a pos) (bubbleDownLoop cfg fuel b pos) := by
  intro fuel
  induction fuel with
  | zero =>
    intro a b pos _ haL h
    have hbL : b.length = L := by rw [← h.len]; exact haL
    by_cases hpl : pos < L
    · have hpa : pos < a.length := by omega
      have hpb : pos < b.length := by omega
      simp only [bubbleDownLoop, hpa, hpb, if_true]
      exact h.withFault
    · have hpa : ¬ pos < a.length := by omega
      have hpb : ¬ pos < b.length := by omega
      simp only [bubbleDownLoop, hpa, hpb, if_false]
      exact h
  | succ fuel ih =>
    intro a b pos hp1 haL h
    have hbL : b.length = L := by rw [← h.len]; exact haL
    by_cases hpl : pos < L
    · have hcm : pick cfg b pos = pick cfg a pos :=
        (pick_congr h.len hp1 (by omega) (fun i h1 h2 => h.eq i ⟨h1, by omega⟩)).symm
      have ca : chk a a.length = a := h.chkA (by omega)
      have cb : chk b b.length = b := h.chkB (by omega)
      have hpa : pos < a.length := by omega
      have hpb : pos < b.length := by omega
      simp only [bubbleDownLoop, hpa, hpb, if_true, ca, cb, hcm]
      obtain ⟨hcase, _⟩ := pick_spec o a pos
      generalize pick cfg a pos = cmp at hcase
      rw [haL] at hcase
      have hc1 : 1 ≤ cmp := by omega
      have hcL : cmp ≤ L := by omega
      rw [← h.eq cmp ⟨hc1, hcL⟩]
      exact ih _ _ cmp hc1 (by simp [haL]) (h.set (by omega) _ (fun j hj _ => hj))
    · have hpa : ¬ pos < a.length := by omega
      have hpb : ¬ pos < b.length := by omega
      simp only [bubbleDownLoop, hpa, hpb, if_false]
      exact h

theorem bubbleDown_sim (o : StrictWeak cfg) {n L : Nat} (hLn : L < n) {a b : CHeap κ} {pos : Nat}
    (hp1 : 1 ≤ pos) (haL : a.length = L) (h : Sim cfg n (fun i => 1 ≤ i ∧ i ≤ L) a b) :
    Sim cfg n (fun i => 1 ≤ i ∧ i ≤ L) (bubbleDown cfg a pos) (bubbleDown cfg b pos) := by
  unfold bubbleDown
  rw [← h.len]
  exact bubbleDownLoop_sim o n L hLn _ a b pos hp1 haL h

/-! ### `root` -/

theorem rootLoop_sim (o : StrictWeak cfg) (dead : Nat → Nat → Bool) (n : Nat) :
    ∀ fuel (a b : CHeap κ), a.length ≤ n →
      Sim cfg n (fun i => 1 ≤ i ∧ i < a.length) a b →
      Sim cfg n (fun i => 1 ≤ i ∧ i < (rootLoop cfg dead fuel a).length)
        (rootLoop cfg dead fuel a) (rootLoop cfg dead fuel b) := by
  intro fuel
  induction fuel with
  | zero =>
    intro a b _ h
    by_cases hl : a.length > 1
    · have hl' : b.length > 1 := by rw [← h.len]; exact hl
      have e1 : get cfg b 1 = get cfg a 1 := (h.eq 1 ⟨Nat.le_refl _, hl⟩).symm
      simp only [rootLoop, hl, hl', e1, decide_true, Bool.true_and]
      split
      · exact h.withFault
      · exact h
    · have hl' : ¬ b.length > 1 := by rw [← h.len]; exact hl
      simp only [rootLoop, hl, hl', decide_false, Bool.false_and, Bool.false_eq_true, if_false]
      exact h
  | succ fuel ih =>
    intro a b han h
    by_cases hl : a.length > 1
    · have hl' : b.length > 1 := by rw [← h.len]; exact hl
      have e1 : get cfg b 1 = get cfg a 1 := (h.eq 1 ⟨Nat.le_refl _, hl⟩).symm
      simp only [rootLoop, hl, hl', if_true, h.chkA (show 1 < n by omega), h.chkB (show 1 < n by omega), e1]
      cases hd : dead (get cfg a 1).h (get cfg a 1).c with
      | false => simp only [Bool.false_eq_true, if_false]; exact h
      | true =>
        simp only [if_true, ← h.len]
        generalize hL : a.length - 1 = L
        have h' := h.withLen L
        have hLn : L < n := by omega
        rw [h'.chkA hLn, h'.chkB hLn]
        have hgg : ∀ (x : CHeap κ) j, get cfg ({ x with length := L } : CHeap κ) j = get cfg x j := fun _ _ => rfl
        rw [hgg a, hgg b, ← h.eq L ⟨by omega, by omega⟩]
        have h2 : Sim cfg n (fun i => 1 ≤ i ∧ i ≤ L)
            (set ({ a with length := L } : CHeap κ) 1 (get cfg a L))
            (set ({ b with length := L } : CHeap κ) 1 (get cfg a L)) :=
          h'.set (by omega) _ (fun j hj _ => ⟨hj.1, by omega⟩)
        have h3 := bubbleDown_sim o hLn (Nat.le_refl 1) (by simp) h2
        have hl3 : (bubbleDown cfg (set ({ a with length := L } : CHeap κ) 1 (get cfg a L)) 1).length = L := by
          rw [bubbleDown_length]; simp
        refine ih _ _ (by rw [hl3]; omega) (h3.mono ?_)
        intro i hi; rw [hl3] at hi; exact ⟨hi.1, by omega⟩
    · have hl' : ¬ b.length > 1 := by rw [← h.len]; exact hl
      simp only [rootLoop, hl, hl', if_false]
      exact h

/-- `root` on two blocks with the same live part: same returned entry, and again the same live part -/
theorem root_sim (o : StrictWeak cfg) (dead : Nat → Nat → Bool) {n : Nat} {a b : CHeap κ} (han : a.length ≤ n)
    (h : Sim cfg n (fun i => 1 ≤ i ∧ i < a.length) a b) :
    Sim cfg n (fun i => 1 ≤ i ∧ i < (root cfg dead a).1.length) (root cfg dead a).1 (root cfg dead b).1 ∧
    (root cfg dead a).2 = (root cfg dead b).2 := by
  have R := rootLoop_sim o dead n a.length a b han h
  have hlen := rootLoop_length_le (cfg := cfg) dead a.length a
  unfold root
  rw [← h.len]
  generalize rootLoop cfg dead a.length a = ra at R hlen
  generalize rootLoop cfg dead a.length b = rb at R
  have hra : ra.length ≤ a.length := hlen
  by_cases hl : ra.length > 1
  · have hl' : rb.length > 1 := by rw [← R.len]; exact hl
    rw [if_pos hl, if_pos hl', R.chkA (show 1 < n by omega), R.chkB (show 1 < n by omega)]
    exact ⟨R, R.eq 1 ⟨Nat.le_refl _, hl⟩⟩
  · have hl' : ¬ rb.length > 1 := by rw [← R.len]; exact hl
    rw [if_neg hl, if_neg hl']
    exact ⟨R, rfl⟩

/-! ### `delete_events` -/

theorem delScan_sim (h : Nat) (n : Nat) :
    ∀ fuel (a b : CHeap κ) cur, 1 ≤ cur → a.length ≤ n →
      Sim cfg n (fun i => 1 ≤ i ∧ i < a.length) a b →
      Sim cfg n (fun i => 1 ≤ i ∧ i < (delScan cfg h fuel a cur).length)
        (delScan cfg h fuel a cur) (delScan cfg h fuel b cur) := by
  intro fuel
  induction fuel with
  | zero =>
    intro a b cur _ _ s
    by_cases hcl : cur < a.length
    · have hcl' : cur < b.length := by rw [← s.len]; exact hcl
      simp only [delScan, hcl, hcl', if_true]
      exact s.withFault
    · have hcl' : ¬ cur < b.length := by rw [← s.len]; exact hcl
      simp only [delScan, hcl, hcl', if_false]
      exact s
  | succ fuel ih =>
    intro a b cur hc1 han s
    by_cases hcl : cur < a.length
    · have hcl' : cur < b.length := by rw [← s.len]; exact hcl
      have e1 : get cfg b cur = get cfg a cur := (s.eq cur ⟨hc1, hcl⟩).symm
      simp only [delScan, hcl, hcl', if_true, s.chkA (show cur < n by omega), s.chkB (show cur < n by omega), e1]
      by_cases hh : (get cfg a cur).h = h
      · simp only [hh, beq_self_eq_true, if_true, ← s.len]
        generalize hL : a.length - 1 = L
        have s' := s.withLen L
        have hLn : L < n := by omega
        rw [s'.chkA hLn, s'.chkB hLn]
        have hgg : ∀ (x : CHeap κ) j, get cfg ({ x with length := L } : CHeap κ) j = get cfg x j := fun _ _ => rfl
        rw [hgg a, hgg b, ← s.eq L ⟨by omega, by omega⟩]
        have s2 : Sim cfg n (fun i => 1 ≤ i ∧ i < L)
            (set ({ a with length := L } : CHeap κ) cur (get cfg a L))
            (set ({ b with length := L } : CHeap κ) cur (get cfg a L)) :=
          s'.set (by omega) _ (fun j hj _ => ⟨hj.1, by omega⟩)
        exact ih _ _ cur hc1 (by simp; omega) (s2.mono (fun i hi => by simpa using hi))
      · have hh' : ((get cfg a cur).h == h) = false := by simpa using hh
        simp only [hh', Bool.false_eq_true, if_false]
        exact ih _ _ (cur + 1) (by omega) han s
    · have hcl' : ¬ cur < b.length := by rw [← s.len]; exact hcl
      simp only [delScan, hcl, hcl', if_false]
      exact s

theorem heapify_sim (o : StrictWeak cfg) (n L : Nat) (hLn : L < n) :
    ∀ idx (a b : CHeap κ), a.length = L → idx ≤ L / 2 →
      Sim cfg n (fun i => 1 ≤ i ∧ i < L) a b →
      Sim cfg n (fun i => 1 ≤ i ∧ i < L) (heapify cfg idx a) (heapify cfg idx b) := by
  intro idx
  induction idx with
  | zero => intro a b _ _ s; exact s
  | succ idx ih =>
    intro a b haL hidx s
    have hbL : b.length = L := by rw [← s.len]; exact haL
    have e1 : get cfg b (idx + 1) = get cfg a (idx + 1) := (s.eq _ ⟨by omega, by omega⟩).symm
    simp only [heapify, s.chkA (show idx + 1 < n by omega), s.chkB (show idx + 1 < n by omega), e1, haL, hbL]
    have s2 : Sim cfg n (fun i => 1 ≤ i ∧ i ≤ L) (set a L (get cfg a (idx + 1))) (set b L (get cfg a (idx + 1))) :=
      s.set hLn _ (fun j hj hne => ⟨hj.1, by omega⟩)
    have s3 := bubbleDown_sim o hLn (show 1 ≤ idx + 1 by omega) (by simp [haL]) s2
    refine ih _ _ (by rw [bubbleDown_length]; simp [haL]) (by omega) (s3.mono ?_)
    intro i hi; exact ⟨hi.1, by omega⟩

theorem deleteEvents_sim (o : StrictWeak cfg) (h : Nat) {n : Nat} {a b : CHeap κ} (han : a.length < n)
    (s : Sim cfg n (fun i => 1 ≤ i ∧ i < a.length) a b) :
    Sim cfg n (fun i => 1 ≤ i ∧ i < (deleteEvents cfg a h).length) (deleteEvents cfg a h) (deleteEvents cfg b h) := by
  have S := delScan_sim (cfg := cfg) h n a.length a b 1 (Nat.le_refl _) (by omega) s
  have hlen := delScan_length_le (cfg := cfg) h a.length a 1
  unfold deleteEvents
  rw [← s.len]
  generalize delScan cfg h a.length a 1 = ra at S hlen
  generalize delScan cfg h a.length b 1 = rb at S
  dsimp only
  rw [← S.len, heapify_length]
  exact heapify_sim o n ra.length (by omega) _ ra rb rfl (Nat.le_refl _) S

/-! ### `insert` -/

/-- the bubble-up loop: hole at `pos`; the only index below 1 it reads is the sentinel, and of that only the key -/
theorem insertLoop_sim (o : StrictWeak cfg) (k : κ) (n p : Nat) (hpn : p < n) :
    ∀ fuel (a b : CHeap κ) pos, 1 ≤ pos → pos ≤ p →
      (get cfg a 0).key = cfg.bot → (get cfg b 0).key = cfg.bot →
      Sim cfg n (fun i => 1 ≤ i ∧ i ≤ p ∧ i ≠ pos) a b →
      (insertLoop cfg k fuel a pos).2 = (insertLoop cfg k fuel b pos).2 ∧
      1 ≤ (insertLoop cfg k fuel a pos).2 ∧ (insertLoop cfg k fuel a pos).2 ≤ p ∧
      Sim cfg n (fun i => 1 ≤ i ∧ i ≤ p ∧ i ≠ (insertLoop cfg k fuel a pos).2)
        (insertLoop cfg k fuel a pos).1 (insertLoop cfg k fuel b pos).1 := by
  intro fuel
  induction fuel with
  | zero =>
    intro a b pos h1 hp _ _ s
    exact ⟨rfl, h1, hp, s.withFault⟩
  | succ fuel ih =>
    intro a b pos h1 hp za zb s
    have hpar : pos / 2 < n := by omega
    have ek : (get cfg b (pos / 2)).key = (get cfg a (pos / 2)).key := by
      by_cases h0 : pos / 2 = 0
      · rw [h0, za, zb]
      · rw [s.eq (pos / 2) ⟨by omega, by omega, by omega⟩]
    simp only [insertLoop, s.chkA hpar, s.chkB hpar, ek]
    cases hlt : cfg.lt k (get cfg a (pos / 2)).key with
    | false => simp only [Bool.false_eq_true, if_false]; exact ⟨trivial, h1, hp, s⟩
    | true =>
      simp only [if_true]
      have hpar1 : 1 ≤ pos / 2 := by
        rcases Nat.eq_zero_or_pos (pos / 2) with h0 | h0
        · rw [h0, za, o.bot_min] at hlt; cases hlt
        · exact h0
      rw [← s.eq (pos / 2) ⟨hpar1, by omega, by omega⟩]
      have z : ∀ (x : CHeap κ), pos < x.mem.size →
          get cfg (set x pos (get cfg a (pos / 2))) 0 = get cfg x 0 := by
        intro x hx; rw [get_set_lt x 0 _ hx]; simp only [show (0 : Nat) ≠ pos by omega, if_false]
      exact ih _ _ (pos / 2) hpar1 (by omega)
        (by rw [z a (Nat.lt_of_lt_of_le (by omega) s.sa)]; exact za)
        (by rw [z b (Nat.lt_of_lt_of_le (by omega) s.sb)]; exact zb)
        (s.set (by omega) _ (fun j hj hne => ⟨hj.1, hj.2.1, hne⟩))

/-- **`insert` does not look beyond the live part.**  Two well-formed blocks with the same live part (the
empty block `length = 0, size = 0` of a fresh heap counts as the block that holds just the sentinel) have
the same live part after the same insertion — whatever their allocated sizes and the garbage behind
`length`, and whether or not either of them is reallocated. -/
theorem insert_live (o : StrictWeak cfg) {a b : CHeap κ} (wa : WF cfg a) (wb : WF cfg b)
    (hl : max a.length 1 = max b.length 1)
    (he : ∀ i, 1 ≤ i → i < a.length → get cfg a i = get cfg b i) (k : κ) (h c : Nat) :
    (insert cfg a k h c).length = (insert cfg b k h c).length ∧
    ∀ i, 1 ≤ i → i < (insert cfg a k h c).length → get cfg (insert cfg a k h c) i = get cfg (insert cfg b k h c) i := by
  have Pa := prep_spec wa
  have Pb := prep_spec wb
  rw [insert_eq, insert_eq]
  generalize (prep cfg a).1 = a1 at Pa ⊢
  generalize hpa : (prep cfg a).2 = p at Pa ⊢
  generalize (prep cfg b).1 = b1 at Pb ⊢
  generalize hpb : (prep cfg b).2 = p' at Pb ⊢
  have hpp : p' = p := by
    have := Pa.pdef; have := Pb.pdef
    split at * <;> split at * <;> omega
  subst hpp
  have hpl : ∀ i, 1 ≤ i → i < p' → i < a.length := by
    intro i h1 hi; have := Pa.pdef; split at this <;> omega
  have s : Sim cfg (p' + 2) (fun i => 1 ≤ i ∧ i ≤ p' ∧ i ≠ p') a1 b1 := by
    refine ⟨by rw [Pa.len, Pb.len], by rw [Pa.nf, Pb.nf], Pa.sz, Pb.sz, fun i hi => ?_⟩
    have hip : i < p' := by omega
    rw [Pa.same i hi.1 hip, Pb.same i hi.1 hip]
    exact he i hi.1 (hpl i hi.1 hip)
  obtain ⟨e2, q1, qp, s2⟩ := insertLoop_sim o k (p' + 2) p' (by omega) (p' + 1) a1 b1 p' Pa.p1 (Nat.le_refl _)
    Pa.bot Pb.bot s
  have la : (insertLoop cfg k (p' + 1) a1 p').1.length = p' + 1 := by rw [insertLoop_length, Pa.len]
  generalize insertLoop cfg k (p' + 1) a1 p' = ra at e2 q1 qp s2 la
  generalize insertLoop cfg k (p' + 1) b1 p' = rb at e2 s2
  rw [← e2]
  have s3 : Sim cfg (p' + 2) (fun i => 1 ≤ i ∧ i ≤ p') (set ra.1 ra.2 ⟨k, h, c⟩) (set rb.1 ra.2 ⟨k, h, c⟩) :=
    s2.set (by omega) _ (fun j hj hne => ⟨hj.1, hj.2, hne⟩)
  refine ⟨s3.len, fun i h1 hi => s3.eq i ⟨h1, ?_⟩⟩
  rw [length_set, la] at hi; omega

/-! ### the same statements for well-formed blocks of arbitrary (different) sizes -/

/-- two well-formed blocks with the same live part (more than the sentinel) are `Sim`ilar up to the spare slot -/
theorem sim_of_live {a b : CHeap κ} (wa : WF cfg a) (wb : WF cfg b) (hl : a.length = b.length) (h2 : 1 < a.length)
    (he : ∀ i, 1 ≤ i → i < a.length → get cfg a i = get cfg b i) :
    Sim cfg (a.length + 1) (fun i => 1 ≤ i ∧ i < a.length) a b := by
  obtain ⟨fa, ha | ha⟩ := wa
  · omega
  · obtain ⟨fb, hb | hb⟩ := wb
    · omega
    · exact ⟨hl, by rw [fa, fb], ha.2.1, by rw [hl]; exact hb.2.1, fun i hi => he i hi.1 hi.2⟩

/-- **`root` (lazy deletion of dead roots, `bubble_down`) does not look beyond the live part**: same
returned entry, same live part afterwards -/
theorem root_live (o : StrictWeak cfg) (dead : Nat → Nat → Bool) {a b : CHeap κ} (wa : WF cfg a) (wb : WF cfg b)
    (hl : max a.length 1 = max b.length 1)
    (he : ∀ i, 1 ≤ i → i < a.length → get cfg a i = get cfg b i) :
    max (root cfg dead a).1.length 1 = max (root cfg dead b).1.length 1 ∧
    (∀ i, 1 ≤ i → i < (root cfg dead a).1.length →
      get cfg (root cfg dead a).1 i = get cfg (root cfg dead b).1 i) ∧
    (root cfg dead a).2 = (root cfg dead b).2 := by
  by_cases h1 : a.length ≤ 1
  · have h1' : b.length ≤ 1 := by omega
    rw [root_short dead a h1, root_short dead b h1']
    exact ⟨hl, he, rfl⟩
  · have hl' : a.length = b.length := by omega
    obtain ⟨S, e⟩ := root_sim o dead (Nat.le_succ _) (sim_of_live wa wb hl' (by omega) he)
    exact ⟨by rw [S.len], fun i h1 hi => S.eq i ⟨h1, hi⟩, e⟩

/-- **`delete_events` does not look beyond the live part** -/
theorem deleteEvents_live (o : StrictWeak cfg) (h : Nat) {a b : CHeap κ} (wa : WF cfg a) (wb : WF cfg b)
    (hl : max a.length 1 = max b.length 1)
    (he : ∀ i, 1 ≤ i → i < a.length → get cfg a i = get cfg b i) :
    max (deleteEvents cfg a h).length 1 = max (deleteEvents cfg b h).length 1 ∧
    (∀ i, 1 ≤ i → i < (deleteEvents cfg a h).length →
      get cfg (deleteEvents cfg a h) i = get cfg (deleteEvents cfg b h) i) := by
  by_cases h1 : a.length ≤ 1
  · have h1' : b.length ≤ 1 := by omega
    rw [deleteEvents_short a h h1, deleteEvents_short b h h1']
    exact ⟨hl, he⟩
  · have hl' : a.length = b.length := by omega
    have S := deleteEvents_sim o h (Nat.lt_succ_self _) (sim_of_live wa wb hl' (by omega) he)
    exact ⟨by rw [S.len], fun i h1 hi => S.eq i ⟨h1, hi⟩⟩

end JF.Heap
