import JF.Props.C09PoolsClosed
import JF.Props.ModeDiscipline
/-!
E46 / C09, last clause — (c): a concrete multi-leg run `Reach2` of `dipoles/dipole_motion.ini` (two dipoles, exact reading) as
non-vacuity witness for part B of `JF/Props/C09PoolsClosed.lean`.

The two dipoles `exC0`, `exC1` of `JF/Props/C12.lean` in the unit square, the composite events of `JF.C12.ModeExample.es`
(`JF/Props/ModeDiscipline.lean`), now as legs of the COMPOSED MEDIATOR LOOP (`JF.Med.leg`, every leg computed by `decide +kernel`):
start of run at 0 (point mass (0, 0) starts with velocity (1, 0)) — `leaf_to_root` at 1/4 (`toRoot`: dipole 0 moves as a whole) —
`coulomb_root` at 1/2 (`pass`: dipole 0 hands its velocity to dipole 1) — `end_of_chain` at 3/4, candidate requested in root mode
(`eocRoot`: dipole 1 stops, dipole 0 starts with velocity (0, 1)) — `root_to_leaf` at 1 (`toLeaf`: point mass (0, 1) goes on alone) —
`harmonic_leaf` at 5/4 (`exchange`: lifting (0, 1) → (0, 0)) — `end_of_chain` at 3/2, candidate requested in leaf mode (`eocLeaf`).
Both mode switches occur; the yields of every leg are COMPUTED from the state (`CW2.yieldCls`).
-/
namespace JF.C09Pools.Closed2.Example
open JF JF.Act JF.Act.Gen JF.Heap JF.Sched JF.Med JF.CW2 JF.C14 JF.MediatorLoop JF.Sys JF.Sys2 JF.Composite JF.C12 JF.SystemInv2
  JF.C09Pools JF.C09Pools.Gen

abbrev mw : ModeWiring := mcfg_dipoles_dipole_motion
abbrev cfg : Wiring := cfg_dipoles_dipole_motion
abbrev pc : PoolCfg := pool_dipoles_dipole_motion

/-- unit square, two point masses per dipole, the factor maps / factor types of the generated data of `dipole_motion.ini` -/
def env : CW2.Env ℚ := ⟨exL, 2, 2, pc.fs, pc.ftypeOf⟩

theorem box : BoxOK env.d env.L := exBox

/-- a handler has an in-state iff its tagger is not a `NoInStateTagger` -/
def needs : HandlerId → Bool := fun h =>
  match owner cfg.wires h with
  | some T => (cfg.tagger T).cls != .noInState
  | none => false

abbrev M : MWire := mwire cfg 10 needs

theorem hyp : Hyp2 env mw 10 := hyp2_dipole_motion env box

def s0 : Sys2 := Sys2.init mw [exC0, exC1]

theorem ex_uniform : Uniform env.nPer [exC0, exC1] := by
  intro c hc
  simp only [List.mem_cons, List.not_mem_nil, or_false] at hc
  rcases hc with rfl | rfl <;> rfl

theorem init0 : Init2 env mw s0 where
  med := rfl
  good := ex_initial
  unif := ex_uniform
  rest := ex_rest
  prev := rfl
  cmode := rfl

theorem ok_of_toOption {ε α : Type} {e : Except ε α} {x : α} (h : e.toOption = some x) : e = .ok x := by
  cases e with
  | error _ => simp [Except.toOption] at h
  | ok y => simp only [Except.toOption, Option.some.injEq] at h; rw [h]

/-- the result of a leg that succeeds -/
def legR (s : Sys2) (o : Oracle XTime) (h : (leg M (specI xcfg) s.med o).toOption.isSome = true) :
    MedState (SSched XTime) × Committed XTime := (leg M (specI xcfg) s.med o).toOption.get h

/-- the state after it, given the new global state -/
def nextS (s : Sys2) (o : Oracle XTime) (h : (leg M (specI xcfg) s.med o).toOption.isSome = true) (cs' : List (CObj ℚ)) : Sys2 :=
  ⟨(legR s o h).1, cs', assign s.ids (legR s o h).2.created, s.cs, midAct M s.med o,
    cmodeNext mw s.med.preceding s.cmode (midAct M s.med o)⟩

/-- the oracle of a leg: the yields are computed from the state, the candidate times are given -/
def mkO (cs : List (CObj ℚ)) (cand : HandlerId → XTime) : Oracle XTime :=
  ⟨fun T => CW2.yieldCls env T (cfg.tagger T).cls cs, cand⟩

theorem step_of (s : Sys2) (cand : HandlerId → XTime)
    (h : (leg M (specI xcfg) s.med (mkO s.cs cand)).toOption.isSome = true) (cs' : List (CObj ℚ))
    (hn : ∀ x, NormX (cand x))
    (hl : ∀ q ∈ (legR s _ h).2.created, xcfg.lt (cand q.1) s.med.sched.last = false)
    (hev : ∃ t E', (legR s _ h).2.time = .fin t ∧ owner mw.w.wires (legR s _ h).2.handler = some E' ∧
      Commits2 env mw E' ((nextS s _ h cs').cmode E') t s.cs cs') :
    SysStep2 env mw 10 needs s (mkO s.cs cand) (legR s _ h).2 (nextS s _ h cs') where
  yields := rfl
  leg := ok_of_toOption (Option.some_get h).symm
  cands := fun q hq => ⟨hn q.1, hl q hq⟩
  ev := hev
  ids' := rfl
  prev := rfl
  mid' := rfl
  cmode' := rfl

theorem normT (q : ℤ) (r : ℚ) (h0 : 0 ≤ r) (h1 : r < 1) : Normalised ⟨q, r⟩ := ⟨⟨q, rfl⟩, h0, h1⟩

/-- the event of a leg that is not the start of the run -/
theorem commits_of {E : TaggerIdx} {cmE : WMode} {t : Time ℚ} {cs : List (CObj ℚ)} (e : Composite.Ev ℚ)
    (hk : evKind e ∈ kindsOf (mw.hmode E) cmE) (ht : evTime Ops.rat e = t) (ha : AdmW env.d env.L cs e)
    (hs : ∀ i P v, e ≠ .start i P v) : Commits2 env mw E cmE t cs (step Ops.rat isZ env.L cs e) :=
  ⟨e, hk, ht, ⟨ha, fun i P v h => absurd h (hs i P v)⟩, rfl⟩

/-! the states the events of `JF.C12.ModeExample.es` meet, and their weak admissibility there -/

theorem adms : JF.C12.AdmWFree 2 exL (step Ops.rat isZ exL [exC0, exC1] (.start 0 [0] [1, 0])) JF.C12.ModeExample.es :=
  JF.C12.ModeExample.es_admWFree

/-! leg 1: the start-of-run handler (11) is handed out and commits at time 0 -/

def cand1 : HandlerId → XTime := fun _ => .fin ⟨0, 0⟩
theorem h1 : (leg M (specI xcfg) s0.med (mkO s0.cs cand1)).toOption.isSome = true := by decide +kernel
def cs1 : List (CObj ℚ) := step Ops.rat isZ env.L s0.cs (.start 0 [0] [1, 0])
def s1 : Sys2 := nextS s0 _ h1 cs1
def c1 : Committed XTime := (legR s0 _ h1).2

theorem step1 : SysStep2 env mw 10 needs s0 (mkO s0.cs cand1) c1 s1 := by
  refine step_of s0 cand1 h1 cs1 (fun _ => normT 0 0 (by norm_num) (by norm_num)) (by decide +kernel)
    ⟨⟨0, 0⟩, 10, by decide +kernel, by decide +kernel, ?_⟩
  exact ⟨.start 0 [0] [1, 0], by decide +kernel, rfl, ⟨JF.C12.ModeExample.start_admW, fun i P v h => by cases h; rfl⟩, rfl⟩

/-! leg 2: the leaf-mode factor taggers, sampling, `leaf_to_root` (candidate 1/4), end of chain (3/4), end of run are handed out;
`leaf_to_root` commits: dipole 0 moves as a whole -/

def cand2 : HandlerId → XTime := fun h =>
  if h = 7 then .fin ⟨0, 1/4⟩ else if h = 9 then .fin ⟨0, 3/4⟩ else if h = 6 then .fin ⟨7, 0⟩ else if h = 10 then .fin ⟨100, 0⟩
  else .inf
theorem norm2 : ∀ x, NormX (cand2 x) := by
  intro x; unfold cand2; split_ifs <;> first | trivial | exact normT _ _ (by norm_num) (by norm_num)
theorem h2 : (leg M (specI xcfg) s1.med (mkO s1.cs cand2)).toOption.isSome = true := by decide +kernel
def e2 : Composite.Ev ℚ := .toRoot ⟨0, 1/4⟩ 0
def cs2 : List (CObj ℚ) := step Ops.rat isZ env.L s1.cs e2
def s2 : Sys2 := nextS s1 _ h2 cs2
def c2 : Committed XTime := (legR s1 _ h2).2

theorem step2 : SysStep2 env mw 10 needs s1 (mkO s1.cs cand2) c2 s2 := by
  refine step_of s1 cand2 h2 cs2 norm2 (by decide +kernel) ⟨⟨0, 1/4⟩, 6, by decide +kernel, by decide +kernel, ?_⟩
  exact commits_of e2 (by decide +kernel) rfl adms.1 (fun _ _ _ h => by cases h)

/-! leg 3 (root mode): `coulomb_root` (candidate 1/2), `repulsive_root` (TWO in-states: pool 2), `root_to_leaf` (1), end of chain (3/4,
requested in root mode) are handed out; `coulomb_root` commits: dipole 0 passes its velocity to dipole 1 -/

def cand3 : HandlerId → XTime := fun h => if h = 3 then .fin ⟨0, 1/2⟩ else if h = 9 then .fin ⟨0, 3/4⟩ else if h = 8 then .fin ⟨1, 0⟩ else .inf
theorem norm3 : ∀ x, NormX (cand3 x) := by
  intro x; unfold cand3; split_ifs <;> first | trivial | exact normT _ _ (by norm_num) (by norm_num)
theorem h3 : (leg M (specI xcfg) s2.med (mkO s2.cs cand3)).toOption.isSome = true := by decide +kernel
def e3 : Composite.Ev ℚ := .pass ⟨0, 1/2⟩ [0, 1] 0 1
def cs3 : List (CObj ℚ) := step Ops.rat isZ env.L s2.cs e3
def s3 : Sys2 := nextS s2 _ h3 cs3
def c3 : Committed XTime := (legR s2 _ h3).2

theorem step3 : SysStep2 env mw 10 needs s2 (mkO s2.cs cand3) c3 s3 := by
  refine step_of s2 cand3 h3 cs3 norm3 (by decide +kernel) ⟨⟨0, 1/2⟩, 3, by decide +kernel, by decide +kernel, ?_⟩
  exact commits_of e3 (by decide +kernel) rfl adms.2.1 (fun _ _ _ h => by cases h)

/-! leg 4: the root-mode factor taggers are re-created; the end-of-chain event requested in root mode commits (`eocRoot`) -/

def cand4 : HandlerId → XTime := fun _ => .inf
theorem norm4 : ∀ x, NormX (cand4 x) := by
  intro x; unfold cand4; trivial
theorem h4 : (leg M (specI xcfg) s3.med (mkO s3.cs cand4)).toOption.isSome = true := by decide +kernel
def e4 : Composite.Ev ℚ := .eocRoot ⟨0, 3/4⟩ 1 0 [0, 1]
def cs4 : List (CObj ℚ) := step Ops.rat isZ env.L s3.cs e4
def s4 : Sys2 := nextS s3 _ h4 cs4
def c4 : Committed XTime := (legR s3 _ h4).2

theorem step4 : SysStep2 env mw 10 needs s3 (mkO s3.cs cand4) c4 s4 := by
  refine step_of s3 cand4 h4 cs4 norm4 (by decide +kernel) ⟨⟨0, 3/4⟩, 8, by decide +kernel, by decide +kernel, ?_⟩
  exact commits_of e4 (by decide +kernel) rfl adms.2.2.1 (fun _ _ _ h => by cases h)

/-! leg 5: end of chain re-created (candidate 5); `root_to_leaf`, pending since leg 3, commits: point mass (0, 1) goes on alone -/

def cand5 : HandlerId → XTime := fun h => if h = 9 then .fin ⟨5, 0⟩ else .inf
theorem norm5 : ∀ x, NormX (cand5 x) := by
  intro x; unfold cand5; split_ifs <;> first | trivial | exact normT _ _ (by norm_num) (by norm_num)
theorem h5 : (leg M (specI xcfg) s4.med (mkO s4.cs cand5)).toOption.isSome = true := by decide +kernel
def e5 : Composite.Ev ℚ := .toLeaf ⟨1, 0⟩ 0 1
def cs5 : List (CObj ℚ) := step Ops.rat isZ env.L s4.cs e5
def s5 : Sys2 := nextS s4 _ h5 cs5
def c5 : Committed XTime := (legR s4 _ h5).2

theorem step5 : SysStep2 env mw 10 needs s4 (mkO s4.cs cand5) c5 s5 := by
  refine step_of s4 cand5 h5 cs5 norm5 (by decide +kernel) ⟨⟨1, 0⟩, 7, by decide +kernel, by decide +kernel, ?_⟩
  exact commits_of e5 (by decide +kernel) rfl adms.2.2.2.1 (fun _ _ _ h => by cases h)

/-! leg 6 (leaf mode again): the leaf-mode factor taggers, `leaf_to_root`, end of chain (3/2, requested in leaf mode) are handed out;
`harmonic_leaf` commits: lifting (0, 1) → (0, 0) -/

def cand6 : HandlerId → XTime := fun h => if h = 0 then .fin ⟨1, 1/4⟩ else if h = 9 then .fin ⟨1, 1/2⟩ else if h = 7 then .fin ⟨9, 0⟩ else .inf
theorem norm6 : ∀ x, NormX (cand6 x) := by
  intro x; unfold cand6; split_ifs <;> first | trivial | exact normT _ _ (by norm_num) (by norm_num)
theorem h6 : (leg M (specI xcfg) s5.med (mkO s5.cs cand6)).toOption.isSome = true := by decide +kernel
def e6 : Composite.Ev ℚ := .exchange ⟨1, 1/4⟩ [0] 0 1 0 0
def cs6 : List (CObj ℚ) := step Ops.rat isZ env.L s5.cs e6
def s6 : Sys2 := nextS s5 _ h6 cs6
def c6 : Committed XTime := (legR s5 _ h6).2

theorem step6 : SysStep2 env mw 10 needs s5 (mkO s5.cs cand6) c6 s6 := by
  refine step_of s5 cand6 h6 cs6 norm6 (by decide +kernel) ⟨⟨1, 1/4⟩, 0, by decide +kernel, by decide +kernel, ?_⟩
  exact commits_of e6 (by decide +kernel) rfl adms.2.2.2.2.1 (fun _ _ _ h => by cases h)

/-! leg 7: the end-of-chain event requested in leaf mode commits (`eocLeaf`): point mass (1, 0) starts -/

def cand7 : HandlerId → XTime := fun _ => .inf
theorem norm7 : ∀ x, NormX (cand7 x) := by
  intro x; unfold cand7; trivial
theorem h7 : (leg M (specI xcfg) s6.med (mkO s6.cs cand7)).toOption.isSome = true := by decide +kernel
def e7 : Composite.Ev ℚ := .eocLeaf ⟨1, 1/2⟩ 0 0 1 0 [1, 0]
def cs7 : List (CObj ℚ) := step Ops.rat isZ env.L s6.cs e7
def s7 : Sys2 := nextS s6 _ h7 cs7
def c7 : Committed XTime := (legR s6 _ h7).2

theorem step7 : SysStep2 env mw 10 needs s6 (mkO s6.cs cand7) c7 s7 := by
  refine step_of s6 cand7 h7 cs7 norm7 (by decide +kernel) ⟨⟨1, 1/2⟩, 8, by decide +kernel, by decide +kernel, ?_⟩
  exact commits_of e7 (by decide +kernel) rfl adms.2.2.2.2.2.1 (fun _ _ _ h => by cases h)

/-! the run -/

def os7 : List (Oracle XTime) :=
  [] ++ [mkO s0.cs cand1] ++ [mkO s1.cs cand2] ++ [mkO s2.cs cand3] ++ [mkO s3.cs cand4] ++ [mkO s4.cs cand5] ++ [mkO s5.cs cand6]
    ++ [mkO s6.cs cand7]
def cs7c : List (Committed XTime) := [] ++ [c1] ++ [c2] ++ [c3] ++ [c4] ++ [c5] ++ [c6] ++ [c7]

theorem reach1 : Reach2 env mw 10 needs ([] ++ [mkO s0.cs cand1]) ([] ++ [c1]) s1 := .step (.init s0 init0) (by simp) step1
theorem reach2 : Reach2 env mw 10 needs ([] ++ [mkO s0.cs cand1] ++ [mkO s1.cs cand2]) ([] ++ [c1] ++ [c2]) s2 :=
  .step reach1 (by intro cl h; simp at h; subst h; decide +kernel) step2
theorem reach3 : Reach2 env mw 10 needs ([] ++ [mkO s0.cs cand1] ++ [mkO s1.cs cand2] ++ [mkO s2.cs cand3])
    ([] ++ [c1] ++ [c2] ++ [c3]) s3 :=
  .step reach2 (by intro cl h; simp at h; subst h; decide +kernel) step3
theorem reach4 : Reach2 env mw 10 needs ([] ++ [mkO s0.cs cand1] ++ [mkO s1.cs cand2] ++ [mkO s2.cs cand3] ++ [mkO s3.cs cand4])
    ([] ++ [c1] ++ [c2] ++ [c3] ++ [c4]) s4 :=
  .step reach3 (by intro cl h; simp at h; subst h; decide +kernel) step4
theorem reach5 : Reach2 env mw 10 needs
    ([] ++ [mkO s0.cs cand1] ++ [mkO s1.cs cand2] ++ [mkO s2.cs cand3] ++ [mkO s3.cs cand4] ++ [mkO s4.cs cand5])
    ([] ++ [c1] ++ [c2] ++ [c3] ++ [c4] ++ [c5]) s5 :=
  .step reach4 (by intro cl h; simp at h; subst h; decide +kernel) step5
theorem reach6 : Reach2 env mw 10 needs
    ([] ++ [mkO s0.cs cand1] ++ [mkO s1.cs cand2] ++ [mkO s2.cs cand3] ++ [mkO s3.cs cand4] ++ [mkO s4.cs cand5] ++ [mkO s5.cs cand6])
    ([] ++ [c1] ++ [c2] ++ [c3] ++ [c4] ++ [c5] ++ [c6]) s6 :=
  .step reach5 (by intro cl h; simp at h; subst h; decide +kernel) step6
theorem reach7 : Reach2 env mw 10 needs os7 cs7c s7 :=
  .step reach6 (by intro cl h; simp at h; subst h; decide +kernel) step7

/-- the committed handlers and times -/
theorem run_summary : cs7c.map (·.handler) = [11, 7, 3, 9, 8, 0, 9] ∧
    cs7c.map (·.time) = [.fin ⟨0, 0⟩, .fin ⟨0, 1/4⟩, .fin ⟨0, 1/2⟩, .fin ⟨0, 3/4⟩, .fin ⟨1, 0⟩, .fin ⟨1, 1/4⟩, .fin ⟨1, 1/2⟩] ∧
    cs7c.map (·.stop) = [false, false, false, false, false, false, false] := by
  decide +kernel

theorem fits (cs : List (CObj ℚ)) (h : cs.length = 2) : Fits2 pc env cs := ⟨rfl, by decide, h, rfl, fun _ => rfl⟩

end JF.C09Pools.Closed2.Example
