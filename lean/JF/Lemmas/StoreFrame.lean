import JF.Lemmas.StoreInv
/-!
Frame lemmas for single client operations, the initial state, and the lifting-state invariant
behind the independent-active rule.
-/
set_option linter.unusedSimpArgs false
namespace JF.Store
variable {α : Type}

/-! ### initial state -/

theorem initNodes_spec (w : α) : ∀ (ps : List (Option Nat × List α)) (h : Heap α),
    h.next ≤ (initNodes w h ps).1.next ∧ ∀ n ∈ (initNodes w h ps).2, n.pos < (initNodes w h ps).1.next := by
  intro ps
  induction ps with
  | nil => intro h; simp [initNodes]
  | cons p ps ih =>
    intro h
    obtain ⟨c, p⟩ := p
    simp only [initNodes]
    obtain ⟨i1, i2⟩ := ih (h.alloc (.vec p)).1
    refine ⟨Nat.le_trans (by simp) i1, ?_⟩
    intro n hn
    rcases List.mem_cons.1 hn with rfl | hn
    · exact Nat.lt_of_lt_of_le (by simp) i1
    · exact i2 n hn

theorem initRoots_spec [Div α] (o : Ops α) : ∀ (rs : List (Option Nat × List α × List (Option Nat × List α))) (h : Heap α),
    h.next ≤ (initRoots o h rs).1.next ∧
    ∀ r ∈ (initRoots o h rs).2.flatMap posRefs, r < (initRoots o h rs).1.next := by
  intro rs
  induction rs with
  | nil => intro h; simp [initRoots]
  | cons x rs ih =>
    intro h
    obtain ⟨c, p, ch⟩ := x
    simp only [initRoots]
    set a := h.alloc (.vec p) with adef
    obtain ⟨k1, k2⟩ := initNodes_spec (o.ofInt 1 / o.ofInt ch.length) ch a.1
    set k := initNodes (o.ofInt 1 / o.ofInt ch.length) a.1 ch with kdef
    obtain ⟨i1, i2⟩ := ih k.1
    have ha : h.next < a.1.next := by simp [adef]
    refine ⟨Nat.le_trans (Nat.le_of_lt ha) (Nat.le_trans k1 i1), ?_⟩
    intro r hr
    simp only [List.flatMap_cons, List.mem_append, posRefs, List.mem_cons, List.mem_map] at hr
    rcases hr with (hr | ⟨n, hn, rfl⟩) | hr
    · subst hr
      exact Nat.lt_of_lt_of_le ha (Nat.le_trans k1 i1)
    · exact Nat.lt_of_lt_of_le (k2 n hn) i1
    · exact i2 r (by simpa [posRefs] using hr)

theorem inv_init [Div α] (o : Ops α) (levels perRoot : Nat)
    (roots : List (Option Nat × List α × List (Option Nat × List α))) :
    Inv (Sess.init o levels perRoot roots) := by
  refine ⟨?_, by simp [Sess.init], by simp [Sess.init], by simp [Sess.init]⟩
  intro r hr
  simp only [Sess.init, Global.refs, List.flatMap_nil, List.append_nil] at hr
  exact (initRoots_spec o roots Heap.empty).2 r hr

/-! ### which part of the state an operation can touch -/

/-- the live branch a mutation goes through -/
def Op.target : Op α → Option Nat
  | .setPos b _ _ _ => some b
  | .newPos b _ _ => some b
  | .setVel b _ _ _ => some b
  | .newVel b _ _ => some b
  | .tsUpdate b _ _ _ => some b
  | .newTs b _ _ => some b
  | _ => none

def Op.isInsert : Op α → Bool
  | .insert _ => true
  | _ => false

theorem getUnit_refs_sub {b : Branch α} {u : Nat} {c : CUnit α} (hc : b.getUnit u = some c) :
    ∀ r ∈ c.refs, r ∈ b.refs := by
  obtain ⟨pre, post, hold, _⟩ := setUnit_refs c hc
  intro r hr; rw [hold]; simp [hr]

/-- A mutation through live branch `b` changes no object outside that branch, does not touch the
global state's own fields, and leaves every other live branch as it is. -/
theorem step_mutation_frame (s : Sess α) (op : Op α) {b : Nat} (ht : op.target = some b) :
    (step s op).1.g = s.g ∧
    (∀ j, j ≠ b → (step s op).1.live[j]? = s.live[j]?) ∧
    (∀ L, s.live[b]? = some L → ∀ r, r < s.h.next → r ∉ L.b.refs → (step s op).1.h.get? r = s.h.get? r) ∧
    s.h.next ≤ (step s op).1.h.next := by
  have setOther : ∀ (u : Nat) (x : CUnit α) (j : Nat), j ≠ b → (setLiveUnit s.live b u x)[j]? = s.live[j]? := by
    intro u x j hj
    simp only [setLiveUnit]
    cases hL : s.live[b]? with
    | none => rfl
    | some L => simp [List.getElem?_set_ne (Ne.symm hj)]
  have wr : ∀ {u : Nat} {c : CUnit α} {r : Ref} (o : Obj α), getLiveUnit s.live b u = some c → r ∈ c.refs →
      ∀ L, s.live[b]? = some L → ∀ x, x < s.h.next → x ∉ L.b.refs → (s.h.write r o).get? x = s.h.get? x := by
    intro u c r o hc hr L hL x _ hx
    obtain ⟨L', hL', hu, _⟩ := getLiveUnit_some hc
    rw [hL] at hL'; cases hL'
    apply Heap.get?_write_ne
    intro h; subst h
    exact hx (getUnit_refs_sub hu x hr)
  have al : ∀ (o : Obj α) (x : Ref), x < s.h.next → (s.h.alloc o).1.get? x = s.h.get? x :=
    fun o x hx => Heap.get?_alloc_old _ _ hx
  cases op with
  | extract id => simp [Op.target] at ht
  | active => simp [Op.target] at ht
  | global => simp [Op.target] at ht
  | insert sel => simp [Op.target] at ht
  | setPos b' u i x =>
    simp only [Op.target, Option.some.injEq] at ht; subst ht
    simp only [step]
    cases hc : getLiveUnit s.live b' u with
    | none => simp
    | some c =>
      simp only
      split
      · split
        · exact ⟨rfl, fun _ _ => rfl, wr _ hc (by simp [CUnit.refs]), by simp⟩
        · simp
      · simp
  | setVel b' u i x =>
    simp only [Op.target, Option.some.injEq] at ht; subst ht
    simp only [step]
    cases hc : getLiveUnit s.live b' u with
    | none => simp
    | some c =>
      simp only
      cases hv : c.vel with
      | none => simp
      | some r =>
        simp only
        split
        · split
          · exact ⟨rfl, fun _ _ => rfl, wr _ hc (by simp [CUnit.refs, hv]), by simp⟩
          · simp
        · simp
  | tsUpdate b' u q r =>
    simp only [Op.target, Option.some.injEq] at ht; subst ht
    simp only [step]
    cases hc : getLiveUnit s.live b' u with
    | none => simp
    | some c =>
      simp only
      cases hv : c.ts with
      | none => simp
      | some t => exact ⟨rfl, fun _ _ => rfl, wr _ hc (by simp [CUnit.refs, hv]), by simp⟩
  | newPos b' u xs =>
    simp only [Op.target, Option.some.injEq] at ht; subst ht
    simp only [step]
    cases hc : getLiveUnit s.live b' u with
    | none => simp
    | some c => exact ⟨rfl, setOther _ _, fun _ _ x hx _ => al _ x hx, by simp⟩
  | newVel b' u xs =>
    simp only [Op.target, Option.some.injEq] at ht; subst ht
    simp only [step]
    cases hc : getLiveUnit s.live b' u with
    | none => simp
    | some c =>
      cases xs with
      | none => exact ⟨rfl, setOther _ _, fun _ _ _ _ _ => rfl, Nat.le_refl _⟩
      | some xs => exact ⟨rfl, setOther _ _, fun _ _ x hx _ => al _ x hx, by simp⟩
  | newTs b' u t =>
    simp only [Op.target, Option.some.injEq] at ht; subst ht
    simp only [step]
    cases hc : getLiveUnit s.live b' u with
    | none => simp
    | some c =>
      cases t with
      | none => exact ⟨rfl, setOther _ _, fun _ _ _ _ _ => rfl, Nat.le_refl _⟩
      | some qr => exact ⟨rfl, setOther _ _, fun _ _ x hx _ => al _ x hx, by simp⟩

/-- extract / extract-active / extract-global only create new objects and new branches -/
theorem step_readonly_frame {s : Sess α} (I : Inv s) (op : Op α) (ht : op.target = none) (hi : op.isInsert = false) :
    (step s op).1.g = s.g ∧ Ext s.h (step s op).1.h ∧
    ∀ (j : Nat) (L : Live α), s.live[j]? = some L → (step s op).1.live[j]? = some L := by
  have app : ∀ (l l2 : List (Live α)) (j : Nat) (L : Live α), l[j]? = some L → (l ++ l2)[j]? = some L := by
    intro l l2 j L h
    rw [List.getElem?_append_left (List.getElem?_eq_some_iff.1 h).1]; exact h
  cases op with
  | extract id =>
    simp only [step]
    cases he : extract s.g s.h id with
    | error e => exact ⟨rfl, Ext.refl _, fun _ _ h => h⟩
    | ok x =>
      obtain ⟨h', b⟩ := x
      exact ⟨rfl, (extract_spec I.gok he).1, fun j L h => app _ _ j L h⟩
  | active =>
    simp only [step, extractActive]
    cases he : extractMany s.g s.h s.g.lift.independent with
    | error e => exact ⟨rfl, Ext.refl _, fun _ _ h => h⟩
    | ok x =>
      obtain ⟨h', bs⟩ := x
      exact ⟨rfl, (extractMany_spec _ I.gok he).1, fun j L h => app _ _ j L h⟩
  | global => exact ⟨rfl, Ext.refl _, fun j L h => app _ _ j L h⟩
  | insert sel => simp [Op.isInsert] at hi
  | setPos b u i x => simp [Op.target] at ht
  | newPos b u xs => simp [Op.target] at ht
  | setVel b u i x => simp [Op.target] at ht
  | newVel b u xs => simp [Op.target] at ht
  | tsUpdate b u q r => simp [Op.target] at ht
  | newTs b u t => simp [Op.target] at ht

end JF.Store
