import JF.Lemmas.CellsInt
/-!
Integer lemmas for the neighbour windows: `itertools.product` of ranges, wrapping, clipping, and the
torus laws of index arithmetic modulo the number of cells per side.
-/
namespace JF.Cells

/-- `t` is reached from `i` by at most `ℓ` index steps per direction, modulo `n` (periodic grid) -/
def NearMod (ℓ : Int) : List Int → List Int → List Int → Prop
  | [], [], [] => True
  | n :: ns, i :: is, t :: ts => (∃ k : Int, -ℓ ≤ k ∧ k ≤ ℓ ∧ t = (i + k) % n) ∧ NearMod ℓ ns is ts
  | _, _, _ => False

/-- `t` is a valid identifier at most `ℓ` index steps from `i` per direction (non-periodic grid) -/
def NearClip (ℓ : Int) : List Int → List Int → List Int → Prop
  | [], [], [] => True
  | n :: ns, i :: is, t :: ts => (i - ℓ ≤ t ∧ t ≤ i + ℓ ∧ 0 ≤ t ∧ t < n) ∧ NearClip ℓ ns is ts
  | _, _, _ => False

/-- `(a - b) mod n`, per direction -/
def subMod : List Int → List Int → List Int → List Int
  | n :: ns, a :: as, b :: bs => (a - b) % n :: subMod ns as bs
  | _, _, _ => []

/-- `(a + b) mod n`, per direction -/
def addMod : List Int → List Int → List Int → List Int
  | n :: ns, a :: as, b :: bs => (a + b) % n :: addMod ns as bs
  | _, _, _ => []

theorem mem_intRange (lo : Int) (c : Nat) (x : Int) : x ∈ intRange lo c ↔ lo ≤ x ∧ x < lo + c := by
  simp only [intRange, List.mem_map, List.mem_range]
  constructor
  · rintro ⟨k, hk, rfl⟩
    simp only [Int.ofNat_eq_natCast]; omega
  · rintro ⟨h1, h2⟩
    refine ⟨(x - lo).toNat, by omega, ?_⟩
    simp only [Int.ofNat_eq_natCast]; omega

theorem mem_window {ℓ : Int} (hℓ : 0 ≤ ℓ) (i x : Int) :
    x ∈ intRange (i - ℓ) (2 * ℓ + 1).toNat ↔ i - ℓ ≤ x ∧ x ≤ i + ℓ := by
  rw [mem_intRange]; omega

theorem mem_product : ∀ (rs : List (List Int)) (t : List Int),
    t ∈ product rs ↔ List.Forall₂ (fun x r => x ∈ r) t rs
  | [], t => by
    simp only [product, List.mem_singleton]
    constructor
    · rintro rfl; exact List.Forall₂.nil
    · intro h; cases h; rfl
  | r :: rs, t => by
    simp only [product, List.mem_flatMap, List.mem_map]
    constructor
    · rintro ⟨x, hx, u, hu, rfl⟩
      exact List.Forall₂.cons hx ((mem_product rs u).mp hu)
    · intro h
      cases h with
      | cons hx hu => exact ⟨_, hx, _, (mem_product rs _).mpr hu, rfl⟩

/-- in the window of `i`, per direction -/
def InWindow (ℓ : Int) : List Int → List Int → Prop
  | [], [] => True
  | i :: is, t :: ts => (i - ℓ ≤ t ∧ t ≤ i + ℓ) ∧ InWindow ℓ is ts
  | _, _ => False

theorem mem_product_windows {ℓ : Int} (hℓ : 0 ≤ ℓ) : ∀ (ident t : List Int),
    t ∈ product (windows ident ℓ) ↔ InWindow ℓ ident t
  | [], t => by
    simp only [windows, List.map_nil, product, List.mem_singleton]
    cases t <;> simp [InWindow]
  | i :: is, t => by
    have ih := mem_product_windows hℓ is
    simp only [windows, List.map_cons, product, List.mem_flatMap, List.mem_map] at ih ⊢
    constructor
    · rintro ⟨x, hx, u, hu, rfl⟩
      exact ⟨(mem_window hℓ i x).mp hx, (ih u).mp hu⟩
    · intro h
      cases t with
      | nil => simp [InWindow] at h
      | cons x u => exact ⟨x, (mem_window hℓ i x).mpr h.1, u, (ih u).mpr h.2, rfl⟩

theorem validIdent_iff : ∀ {n t : List Int}, t.length = n.length → (validIdent t n = true ↔ Valid n t)
  | [], [], _ => by simp [validIdent, Valid]
  | n :: ns, t :: ts, h => by
    have ih := validIdent_iff (n := ns) (t := ts) (by simpa using h)
    simp only [validIdent, Valid, Bool.and_eq_true, decide_eq_true_eq, ih, and_assoc]
  | [], _ :: _, h => by simp at h
  | _ :: _, [], h => by simp at h

theorem InWindow.length_eq {ℓ : Int} : ∀ {i t : List Int}, InWindow ℓ i t → t.length = i.length
  | [], [], _ => rfl
  | _ :: is, _ :: ts, h => by simp [InWindow.length_eq (i := is) (t := ts) h.2]
  | [], _ :: _, h => by simp [InWindow] at h
  | _ :: _, [], h => by simp [InWindow] at h

/-- membership in the identifier list of the periodic `_yield_nearby_cells` -/
theorem mem_nearbyIdents_periodic {ℓ : Int} (hℓ : 0 ≤ ℓ) : ∀ {n ident : List Int} (t : List Int),
    ident.length = n.length →
    (t ∈ nearbyIdents true n ℓ ident ↔ NearMod ℓ n ident t) := by
  intro n ident t hl
  simp only [nearbyIdents, if_true, List.mem_map, mem_product_windows hℓ]
  induction n generalizing ident t with
  | nil =>
    cases ident with
    | nil =>
      constructor
      · rintro ⟨u, hu, rfl⟩
        cases u <;> simp_all [InWindow, wrapIdent, NearMod]
      · intro h
        cases t with
        | nil => exact ⟨[], by simp [InWindow], by simp [wrapIdent]⟩
        | cons _ _ => simp [NearMod] at h
    | cons _ _ => simp at hl
  | cons n ns ih =>
    cases ident with
    | nil => simp at hl
    | cons i is =>
      have hl' : is.length = ns.length := by simpa using hl
      constructor
      · rintro ⟨u, hu, rfl⟩
        cases u with
        | nil => simp [InWindow] at hu
        | cons x us =>
          simp only [wrapIdent, List.zipWith_cons_cons, NearMod]
          refine ⟨⟨x - i, by have := hu.1; omega, by have := hu.1; omega, by congr 1; ring⟩, ?_⟩
          exact (ih (ident := is) (t := List.zipWith (fun i n => i % n) us ns) hl').mp ⟨us, hu.2, rfl⟩
      · intro h
        cases t with
        | nil => simp [NearMod] at h
        | cons t0 ts =>
          obtain ⟨⟨k, k0, k1, rfl⟩, hrest⟩ := h
          obtain ⟨us, hus, hw⟩ := (ih (ident := is) (t := ts) hl').mpr hrest
          refine ⟨(i + k) :: us, ⟨⟨by omega, by omega⟩, hus⟩, ?_⟩
          simp only [wrapIdent, List.zipWith_cons_cons] at hw ⊢
          rw [hw]

theorem inWindow_valid_iff {ℓ : Int} : ∀ {n ident t : List Int}, ident.length = n.length →
    (InWindow ℓ ident t ∧ Valid n t ↔ NearClip ℓ n ident t)
  | [], [], t, _ => by cases t <;> simp [InWindow, Valid, NearClip]
  | n :: ns, i :: is, t, h => by
    cases t with
    | nil => simp [InWindow, NearClip]
    | cons t0 ts =>
      have ih := inWindow_valid_iff (ℓ := ℓ) (n := ns) (ident := is) (t := ts) (by simpa using h)
      simp only [InWindow, Valid, NearClip, ← ih]
      tauto
  | [], _ :: _, _, h => by simp at h
  | _ :: _, [], _, h => by simp at h

/-- membership in the identifier list of the non-periodic `_yield_nearby_cells` -/
theorem mem_nearbyIdents_clipped {ℓ : Int} (hℓ : 0 ≤ ℓ) {n ident : List Int} (t : List Int)
    (hl : ident.length = n.length) :
    (t ∈ nearbyIdents false n ℓ ident ↔ NearClip ℓ n ident t) := by
  simp only [nearbyIdents, Bool.false_eq_true, if_false, List.mem_filter, mem_product_windows hℓ]
  rw [← inWindow_valid_iff hl]
  constructor
  · rintro ⟨hw, hv⟩
    exact ⟨hw, (validIdent_iff (by rw [hw.length_eq, hl])).mp hv⟩
  · rintro ⟨hw, hv⟩
    exact ⟨hw, (validIdent_iff (by rw [hw.length_eq, hl])).mpr hv⟩

/-! ### torus laws -/

theorem NearMod.valid {ℓ : Int} : ∀ {n a b : List Int}, (∀ x ∈ n, 1 ≤ x) → NearMod ℓ n a b → Valid n b
  | [], [], [], _, _ => trivial
  | n :: ns, a :: as, b :: bs, hp, h => by
    obtain ⟨⟨k, _, _, rfl⟩, hr⟩ := h
    have hn : 1 ≤ n := hp n (by simp)
    exact ⟨Int.emod_nonneg _ (by omega), Int.emod_lt_of_pos _ (by omega),
      NearMod.valid (fun x hx => hp x (by simp [hx])) hr⟩
  | [], [], _ :: _, _, h => by simp [NearMod] at h
  | [], _ :: _, _, _, h => by simp [NearMod] at h
  | _ :: _, [], _, _, h => by simp [NearMod] at h
  | _ :: _, _ :: _, [], _, h => by simp [NearMod] at h

theorem NearClip.valid {ℓ : Int} : ∀ {n a b : List Int}, NearClip ℓ n a b → Valid n b
  | [], [], [], _ => trivial
  | n :: ns, a :: as, b :: bs, h => ⟨h.1.2.2.1, h.1.2.2.2, NearClip.valid h.2⟩
  | [], [], _ :: _, h => by simp [NearClip] at h
  | [], _ :: _, _, h => by simp [NearClip] at h
  | _ :: _, [], _, h => by simp [NearClip] at h
  | _ :: _, _ :: _, [], h => by simp [NearClip] at h

theorem emod_shift_back {n a k : Int} (a0 : 0 ≤ a) (a1 : a < n) : a = ((a + k) % n + -k) % n := by
  rw [Int.emod_def (a + k) n]
  have : a + k - n * ((a + k) / n) + -k = a + n * (-((a + k) / n)) := by ring
  rw [this, Int.add_mul_emod_self_left, Int.emod_eq_of_lt a0 a1]

/-- the periodic nearby relation is symmetric -/
theorem NearMod.symm {ℓ : Int} : ∀ {n a b : List Int}, Valid n a → NearMod ℓ n a b → NearMod ℓ n b a
  | [], [], [], _, _ => trivial
  | n :: ns, a :: as, b :: bs, hv, h => by
    obtain ⟨⟨k, k0, k1, rfl⟩, hr⟩ := h
    exact ⟨⟨-k, by omega, by omega, emod_shift_back hv.1 hv.2.1⟩, NearMod.symm hv.2.2 hr⟩
  | [], [], _ :: _, _, h => by simp [NearMod] at h
  | [], _ :: _, _, _, h => by simp [NearMod] at h
  | _ :: _, [], _, _, h => by simp [NearMod] at h
  | _ :: _, _ :: _, [], _, h => by simp [NearMod] at h

/-- … and reflexive on valid identifiers -/
theorem NearMod.refl {ℓ : Int} (hℓ : 0 ≤ ℓ) : ∀ {n a : List Int}, Valid n a → NearMod ℓ n a a
  | [], [], _ => trivial
  | n :: ns, a :: as, hv =>
    ⟨⟨0, by omega, hℓ, by rw [add_zero, Int.emod_eq_of_lt hv.1 hv.2.1]⟩, NearMod.refl hℓ hv.2.2⟩
  | [], _ :: _, h => by simp [Valid] at h
  | _ :: _, [], h => by simp [Valid] at h

theorem NearClip.symm {ℓ : Int} : ∀ {n a b : List Int}, Valid n a → NearClip ℓ n a b → NearClip ℓ n b a
  | [], [], [], _, _ => trivial
  | n :: ns, a :: as, b :: bs, hv, h => by
    obtain ⟨⟨h1, h2, _, _⟩, hr⟩ := h
    exact ⟨⟨by omega, by omega, hv.1, hv.2.1⟩, NearClip.symm hv.2.2 hr⟩
  | [], [], _ :: _, _, h => by simp [NearClip] at h
  | [], _ :: _, _, _, h => by simp [NearClip] at h
  | _ :: _, [], _, _, h => by simp [NearClip] at h
  | _ :: _, _ :: _, [], _, h => by simp [NearClip] at h

theorem NearClip.refl {ℓ : Int} (hℓ : 0 ≤ ℓ) : ∀ {n a : List Int}, Valid n a → NearClip ℓ n a a
  | [], [], _ => trivial
  | n :: ns, a :: as, hv => ⟨⟨by omega, by omega, hv.1, hv.2.1⟩, NearClip.refl hℓ hv.2.2⟩
  | [], _ :: _, h => by simp [Valid] at h
  | _ :: _, [], h => by simp [Valid] at h

theorem subMod_valid : ∀ {n a b : List Int}, (∀ x ∈ n, 1 ≤ x) → a.length = n.length → b.length = n.length →
    Valid n (subMod n a b)
  | [], [], [], _, _, _ => trivial
  | n :: ns, a :: as, b :: bs, hp, ha, hb => by
    have hn : 1 ≤ n := hp n (by simp)
    exact ⟨Int.emod_nonneg _ (by omega), Int.emod_lt_of_pos _ (by omega),
      subMod_valid (fun x hx => hp x (by simp [hx])) (by simpa using ha) (by simpa using hb)⟩
  | [], [], _ :: _, _, _, h => by simp at h
  | [], _ :: _, _, _, h, _ => by simp at h
  | _ :: _, [], _, _, h, _ => by simp at h
  | _ :: _, _ :: _, [], _, _, h => by simp at h

theorem addMod_valid : ∀ {n a b : List Int}, (∀ x ∈ n, 1 ≤ x) → a.length = n.length → b.length = n.length →
    Valid n (addMod n a b)
  | [], [], [], _, _, _ => trivial
  | n :: ns, a :: as, b :: bs, hp, ha, hb => by
    have hn : 1 ≤ n := hp n (by simp)
    exact ⟨Int.emod_nonneg _ (by omega), Int.emod_lt_of_pos _ (by omega),
      addMod_valid (fun x hx => hp x (by simp [hx])) (by simpa using ha) (by simpa using hb)⟩
  | [], [], _ :: _, _, _, h => by simp at h
  | [], _ :: _, _, _, h, _ => by simp at h
  | _ :: _, [], _, _, h, _ => by simp at h
  | _ :: _, _ :: _, [], _, _, h => by simp at h

/-- `translate` inverts `relative_cell` on identifiers: `(r + (c - r) mod n) mod n = c` -/
theorem addMod_subMod : ∀ {n c r : List Int}, Valid n c → r.length = n.length →
    addMod n r (subMod n c r) = c
  | [], [], [], _, _ => rfl
  | n :: ns, c :: cs, r :: rs, hv, hr => by
    simp only [subMod, addMod]
    rw [addMod_subMod hv.2.2 (by simpa using hr)]
    congr 1
    rw [Int.add_emod_emod]
    have : r + (c - r) = c := by ring
    rw [this, Int.emod_eq_of_lt hv.1 hv.2.1]
  | [], [], _ :: _, _, h => by simp at h
  | [], _ :: _, _, h, _ => by simp [Valid] at h
  | _ :: _, [], _, h, _ => by simp [Valid] at h
  | _ :: _, _ :: _, [], _, h => by simp at h

/-- `relative_cell` inverts `translate` on identifiers: `((c + o) mod n - c) mod n = o` -/
theorem subMod_addMod : ∀ {n c o : List Int}, Valid n o → c.length = n.length →
    subMod n (addMod n c o) c = o
  | [], [], [], _, _ => rfl
  | n :: ns, c :: cs, o :: os, hv, hc => by
    simp only [subMod, addMod]
    rw [subMod_addMod hv.2.2 (by simpa using hc)]
    congr 1
    rw [Int.emod_sub_emod]
    have : c + o - c = o := by ring
    rw [this, Int.emod_eq_of_lt hv.1 hv.2.1]
  | [], [], _ :: _, h, _ => by simp [Valid] at h
  | [], _ :: _, _, _, h => by simp at h
  | _ :: _, [], _, _, h => by simp at h
  | _ :: _, _ :: _, [], h, _ => by simp [Valid] at h

/-- translation invariance of the periodic nearby relation:
`c'` is near `c` iff the relative identifier `(c' - c) mod n` is near the zero identifier -/
theorem nearMod_iff_relative {ℓ : Int} : ∀ {n c c' : List Int}, Valid n c' → c.length = n.length →
    (NearMod ℓ n c c' ↔ NearMod ℓ n (List.replicate n.length 0) (subMod n c' c))
  | [], [], [], _, _ => by simp [NearMod, subMod]
  | n :: ns, c :: cs, c' :: cs', hv, hc => by
    have ih := nearMod_iff_relative (ℓ := ℓ) (n := ns) (c := cs) (c' := cs') hv.2.2 (by simpa using hc)
    show NearMod ℓ (n :: ns) (c :: cs) (c' :: cs') ↔
      NearMod ℓ (n :: ns) (0 :: List.replicate ns.length 0) ((c' - c) % n :: subMod ns cs' cs)
    simp only [NearMod, ← ih]
    have hc' : c' % n = c' := Int.emod_eq_of_lt hv.1 hv.2.1
    constructor
    · rintro ⟨⟨k, k0, k1, hk⟩, hr⟩
      refine ⟨⟨k, k0, k1, ?_⟩, hr⟩
      rw [hk, Int.emod_sub_emod, zero_add]; congr 1; ring
    · rintro ⟨⟨k, k0, k1, hk⟩, hr⟩
      refine ⟨⟨k, k0, k1, ?_⟩, hr⟩
      rw [zero_add] at hk
      have : c' = (c + (c' - c)) % n := by
        have e : c + (c' - c) = c' := by ring
        rw [e, hc']
      rw [this, Int.add_emod, hk, ← Int.add_emod]
  | [], [], _ :: _, h, _ => by simp [Valid] at h
  | [], _ :: _, _, _, h => by simp at h
  | _ :: _, [], _, _, h => by simp at h
  | _ :: _, _ :: _, [], h, _ => by simp [Valid] at h

end JF.Cells
