import JF.Lemmas.DisplacementReal
/-!
# Uphill energy of a periodic path energy: translations, congruence, whole laps
-/
set_option linter.unusedVariables false
namespace JF.Uphill
open Set

variable {f g : ℝ → ℝ} {a b t L : ℝ}

theorem tv_translate (g : ℝ → ℝ) (a b t : ℝ) :
    eVariationOn (fun x => g (x + t)) (Icc a b) = eVariationOn g (Icc (a + t) (b + t)) := by
  have h := eVariationOn.comp_eq_of_monotoneOn g (t := Icc a b) (fun x => x + t)
    (fun x _ y _ hxy => by simpa using hxy)
  rw [Set.image_add_const_Icc] at h
  exact h

/-- the accumulated increase does not depend on where the origin of the path parameter is put -/
theorem uphill_translate (g : ℝ → ℝ) (a b t : ℝ) :
    uphill (fun x => g (x + t)) a b = uphill g (a + t) (b + t) := by
  unfold uphill; rw [tv_translate]

theorem bv_translate (h : BoundedVariationOn g (Icc (a + t) (b + t))) :
    BoundedVariationOn (fun x => g (x + t)) (Icc a b) := by
  unfold BoundedVariationOn at *; rwa [tv_translate]

theorem bv_translate' (h : BoundedVariationOn (fun x => g (x + t)) (Icc a b)) :
    BoundedVariationOn g (Icc (a + t) (b + t)) := by
  unfold BoundedVariationOn at *; rwa [tv_translate] at h

theorem uphill_congr (h : EqOn f g (Icc a b)) (hab : a ≤ b) : uphill f a b = uphill g a b := by
  unfold uphill
  rw [eVariationOn.eq_of_eqOn h, h (left_mem_Icc.2 hab), h (right_mem_Icc.2 hab)]

theorem bv_congr (h : EqOn f g (Icc a b)) (hg : BoundedVariationOn g (Icc a b)) :
    BoundedVariationOn f (Icc a b) := by
  unfold BoundedVariationOn at *; rwa [eVariationOn.eq_of_eqOn h]

/-- `g` restricted to `[a + u, a + v]` is the profile `f` on `[u, v]` -/
theorem uphill_of_profile {u v : ℝ} (huv : u ≤ v) (h : ∀ x, u ≤ x → x ≤ v → g (a + x) = f x) :
    uphill g (a + u) (a + v) = uphill f u v := by
  have e : EqOn (fun x => g (x + a)) f (Icc u v) := fun x hx => by
    show g (x + a) = f x
    rw [add_comm]; exact h x hx.1 hx.2
  rw [← uphill_congr e huv, uphill_translate, add_comm u a, add_comm v a]

theorem bv_of_profile {u v : ℝ} (h : ∀ x, u ≤ x → x ≤ v → g (a + x) = f x)
    (hf : BoundedVariationOn f (Icc u v)) : BoundedVariationOn g (Icc (a + u) (a + v)) := by
  have e : EqOn (fun x => g (x + a)) f (Icc u v) := fun x hx => by
    show g (x + a) = f x
    rw [add_comm]; exact h x hx.1 hx.2
  have := bv_translate' (g := g) (t := a) (a := u) (b := v) (bv_congr e hf)
  rwa [add_comm u a, add_comm v a] at this

/-- periodic path energy: shifting an interval by one period changes nothing -/
theorem uphill_period (hper : ∀ x, g (x + L) = g x) (a b : ℝ) :
    uphill g (a + L) (b + L) = uphill g a b := by
  rw [← uphill_translate]; congr 1; funext x; exact hper x

theorem bv_period (hper : ∀ x, g (x + L) = g x) (h : BoundedVariationOn g (Icc a b)) :
    BoundedVariationOn g (Icc (a + L) (b + L)) := by
  apply bv_translate'
  have : (fun x => g (x + L)) = g := by funext x; exact hper x
  rwa [this]

theorem periodic_nat (hper : ∀ x, g (x + L) = g x) (n : ℕ) (x : ℝ) : g (x + n * L) = g x := by
  induction n with
  | zero => simp
  | succ k ih =>
    have : x + ((k + 1 : ℕ) : ℝ) * L = (x + k * L) + L := by push_cast; ring
    rw [this, hper, ih]

theorem uphill_period_nat (hper : ∀ x, g (x + L) = g x) (n : ℕ) (a b : ℝ) :
    uphill g (a + n * L) (b + n * L) = uphill g a b :=
  uphill_period (L := n * L) (periodic_nat hper n) a b

theorem bv_period_nat (hper : ∀ x, g (x + L) = g x) (n : ℕ)
    (h : BoundedVariationOn g (Icc a b)) : BoundedVariationOn g (Icc (a + n * L) (b + n * L)) :=
  bv_period (L := n * L) (periodic_nat hper n) h

/-- `n` whole periods accumulate `n` times what one period accumulates -/
theorem uphill_laps (hper : ∀ x, g (x + L) = g x) (hL : 0 ≤ L)
    (hbv : BoundedVariationOn g (Icc a (a + L))) (n : ℕ) :
    uphill g a (a + n * L) = n * uphill g a (a + L) ∧ BoundedVariationOn g (Icc a (a + n * L)) := by
  induction n with
  | zero =>
    simp only [Nat.cast_zero, zero_mul, add_zero]
    exact ⟨uphill_mono (fun x hx y hy _ => by
      rw [le_antisymm hx.2 hx.1, le_antisymm hy.2 hy.1]) le_rfl |>.trans (by ring),
      bv_mono (fun x hx y hy _ => by rw [le_antisymm hx.2 hx.1, le_antisymm hy.2 hy.1]) le_rfl⟩
  | succ k ih =>
    have e : a + ((k + 1 : ℕ) : ℝ) * L = (a + L) + k * L := by push_cast; ring
    have hk : (0:ℝ) ≤ k * L := mul_nonneg (Nat.cast_nonneg k) hL
    have b2 : BoundedVariationOn g (Icc (a + k * L) ((a + L) + k * L)) := bv_period_nat hper k hbv
    rw [e]
    refine ⟨?_, bv_add (by linarith) (by linarith) ih.2 b2⟩
    rw [uphill_add (b := a + k * L) (by linarith) (by linarith) ih.2 b2, ih.1,
      uphill_period_nat hper k a (a + L)]
    push_cast; ring

end JF.Uphill
