import JF.Model.Kinematics
import JF.Lemmas.PyArith
import JF.Props.C14
import Mathlib.Tactic.Linarith
import Mathlib.Tactic.Ring
/-!
Vocabulary and helper lemmas for C07 (exact reading of `JF/Model/Kinematics.lean`):
congruence modulo the box, the free-flight map `advance`, in-box, well-formedness of the global state,
and list lemmas ("exactly one element satisfies `p`" as an index statement).
-/
namespace JF
namespace Kin

/-! ### congruence modulo one box length, and coordinate-wise modulo the box -/

/-- `b ≡ a (mod l)` with an explicit integer number of box lengths -/
def Cong (l a b : ℚ) : Prop := ∃ k : ℤ, b = a + k * l

theorem Cong.refl (l a : ℚ) : Cong l a a := ⟨0, by simp⟩
theorem Cong.symm {l a b : ℚ} : Cong l a b → Cong l b a := fun ⟨k, h⟩ => ⟨-k, by rw [h]; push_cast; ring⟩
theorem Cong.trans {l a b c : ℚ} : Cong l a b → Cong l b c → Cong l a c :=
  fun ⟨k, h⟩ ⟨k', h'⟩ => ⟨k + k', by rw [h', h]; push_cast; ring⟩
theorem Cong.add_right {l a b : ℚ} (c : ℚ) : Cong l a b → Cong l (a + c) (b + c) :=
  fun ⟨k, h⟩ => ⟨k, by rw [h]; ring⟩
theorem Cong.of_eq {l a b : ℚ} (h : a = b) : Cong l a b := h ▸ Cong.refl l a

/-- coordinate-wise congruence modulo the box `L`; all three lists have the same length -/
def CongVec : List ℚ → List ℚ → List ℚ → Prop
  | l :: L, p :: P, q :: Q => Cong l p q ∧ CongVec L P Q
  | [], [], [] => True
  | _, _, _ => False

/-- every coordinate lies in `[0, L_d)`; the lists have the same length -/
def InBox : List ℚ → List ℚ → Prop
  | l :: L, p :: P => (0 ≤ p ∧ p < l) ∧ InBox L P
  | [], [] => True
  | _, _ => False

/-- all box lengths positive -/
def PosBox (L : List ℚ) : Prop := ∀ l ∈ L, 0 < l

/-- free flight: `pos + vel * dt`, coordinate by coordinate -/
def advance (P V : List ℚ) (dt : ℚ) : List ℚ := List.zipWith (fun p v => p + v * dt) P V

/-- squared Euclidean norm -/
def normSq (v : List ℚ) : ℚ := (v.map (fun x => x * x)).sum

/-- index reading of `CongVec` -/
theorem congVec_iff : ∀ (L P Q : List ℚ), CongVec L P Q ↔
    P.length = L.length ∧ Q.length = L.length ∧
      ∀ d (hL : d < L.length) (hP : d < P.length) (hQ : d < Q.length), ∃ k : ℤ, Q[d] = P[d] + k * L[d]
  | [], [], [] => by simp [CongVec]
  | [], [], _ :: _ => by simp [CongVec]
  | [], _ :: _, _ => by simp [CongVec]
  | _ :: _, [], _ => by simp [CongVec]
  | _ :: _, _ :: _, [] => by simp [CongVec]
  | l :: L, p :: P, q :: Q => by
      simp only [CongVec, congVec_iff L P Q, List.length_cons, Nat.add_right_cancel_iff]
      constructor
      · rintro ⟨h0, h1, h2, h3⟩
        refine ⟨h1, h2, ?_⟩
        intro d hL hP hQ
        cases d with
        | zero => exact h0
        | succ d => exact h3 d (by omega) (by omega) (by omega)
      · rintro ⟨h1, h2, h3⟩
        refine ⟨h3 0 (by omega) (by omega) (by omega), h1, h2, ?_⟩
        intro d hL hP hQ
        exact h3 (d + 1) (by omega) (by omega) (by omega)

/-- index reading of `InBox` -/
theorem inBox_iff : ∀ (L P : List ℚ), InBox L P ↔
    P.length = L.length ∧ ∀ d (hL : d < L.length) (hP : d < P.length), 0 ≤ P[d] ∧ P[d] < L[d]
  | [], [] => by simp [InBox]
  | [], _ :: _ => by simp [InBox]
  | _ :: _, [] => by simp [InBox]
  | l :: L, p :: P => by
      simp only [InBox, inBox_iff L P, List.length_cons, Nat.add_right_cancel_iff]
      constructor
      · rintro ⟨h0, h1, h3⟩
        refine ⟨h1, ?_⟩
        intro d hL hP
        cases d with
        | zero => exact h0
        | succ d => exact h3 d (by omega) (by omega)
      · rintro ⟨h1, h3⟩
        refine ⟨h3 0 (by omega) (by omega), h1, ?_⟩
        intro d hL hP
        exact h3 (d + 1) (by omega) (by omega)

theorem CongVec.refl : ∀ (L P : List ℚ), P.length = L.length → CongVec L P P
  | [], [], _ => trivial
  | [], _ :: _, h => by simp at h
  | _ :: _, [], h => by simp at h
  | l :: L, p :: P, h => ⟨Cong.refl l p, CongVec.refl L P (by simpa using h)⟩

theorem CongVec.symm : ∀ {L P Q : List ℚ}, CongVec L P Q → CongVec L Q P
  | [], [], [], _ => trivial
  | [], [], _ :: _, h => by simp [CongVec] at h
  | [], _ :: _, _, h => by simp [CongVec] at h
  | _ :: _, [], _, h => by simp [CongVec] at h
  | _ :: _, _ :: _, [], h => by simp [CongVec] at h
  | _ :: _, _ :: _, _ :: _, h => ⟨h.1.symm, CongVec.symm h.2⟩

theorem CongVec.trans : ∀ {L P Q R : List ℚ}, CongVec L P Q → CongVec L Q R → CongVec L P R
  | [], [], [], [], _, _ => trivial
  | [], [], [], _ :: _, _, h => by simp [CongVec] at h
  | [], [], _ :: _, _, h, _ => by simp [CongVec] at h
  | [], _ :: _, _, _, h, _ => by simp [CongVec] at h
  | _ :: _, [], _, _, h, _ => by simp [CongVec] at h
  | _ :: _, _ :: _, [], _, h, _ => by simp [CongVec] at h
  | _ :: _, _ :: _, _ :: _, [], _, h => by simp [CongVec] at h
  | _ :: _, _ :: _, _ :: _, _ :: _, h, h' => ⟨h.1.trans h'.1, CongVec.trans h.2 h'.2⟩

theorem CongVec.length_left {L P Q : List ℚ} (h : CongVec L P Q) : P.length = L.length :=
  ((congVec_iff L P Q).mp h).1
theorem CongVec.length_right {L P Q : List ℚ} (h : CongVec L P Q) : Q.length = L.length :=
  ((congVec_iff L P Q).mp h).2.1
theorem InBox.length {L P : List ℚ} (h : InBox L P) : P.length = L.length :=
  ((inBox_iff L P).mp h).1

/-! ### one coordinate of the time slice -/

theorem sliceCoord_eq (L p v dt : ℚ) (hL : 0 < L) :
    sliceCoord Ops.rat L p v dt = p + v * dt - L * ⌊(p + v * dt) / L⌋ := by
  unfold sliceCoord; exact pymod_rat_pos _ _ hL

theorem sliceCoord_cong (L p v dt : ℚ) (hL : 0 < L) : Cong L (p + v * dt) (sliceCoord Ops.rat L p v dt) :=
  ⟨-⌊(p + v * dt) / L⌋, by rw [sliceCoord_eq L p v dt hL]; push_cast; ring⟩

theorem sliceCoord_inBox (L p v dt : ℚ) (hL : 0 < L) :
    0 ≤ sliceCoord Ops.rat L p v dt ∧ sliceCoord Ops.rat L p v dt < L :=
  ⟨pymod_rat_nonneg _ _ hL, pymod_rat_lt _ _ hL⟩

/-! ### all coordinates -/

theorem sliceVec_length : ∀ (L P V : List ℚ) (dt : ℚ), P.length = L.length → V.length = L.length →
    (sliceVec Ops.rat L P V dt).length = L.length
  | [], [], [], _, _, _ => rfl
  | [], [], _ :: _, _, _, h => by simp at h
  | [], _ :: _, _, _, h, _ => by simp at h
  | _ :: _, [], _, _, h, _ => by simp at h
  | _ :: _, _ :: _, [], _, _, h => by simp at h
  | l :: L, p :: P, v :: V, dt, h, h' => by
      simp only [sliceVec, List.length_cons, Nat.add_right_cancel_iff]
      exact sliceVec_length L P V dt (by simpa using h) (by simpa using h')

theorem sliceVec_cong : ∀ (L P V : List ℚ) (dt : ℚ), PosBox L → P.length = L.length → V.length = L.length →
    CongVec L (advance P V dt) (sliceVec Ops.rat L P V dt)
  | [], [], [], _, _, _, _ => trivial
  | [], [], _ :: _, _, _, _, h => by simp at h
  | [], _ :: _, _, _, _, h, _ => by simp at h
  | _ :: _, [], _, _, _, h, _ => by simp at h
  | _ :: _, _ :: _, [], _, _, _, h => by simp at h
  | l :: L, p :: P, v :: V, dt, hL, h, h' => by
      simp only [sliceVec, advance, List.zipWith_cons_cons, CongVec]
      exact ⟨sliceCoord_cong l p v dt (hL l (by simp)),
        sliceVec_cong L P V dt (fun x hx => hL x (by simp [hx])) (by simpa using h) (by simpa using h')⟩

theorem sliceVec_inBox : ∀ (L P V : List ℚ) (dt : ℚ), PosBox L → P.length = L.length → V.length = L.length →
    InBox L (sliceVec Ops.rat L P V dt)
  | [], [], [], _, _, _, _ => trivial
  | [], [], _ :: _, _, _, _, h => by simp at h
  | [], _ :: _, _, _, _, h, _ => by simp at h
  | _ :: _, [], _, _, _, h, _ => by simp at h
  | _ :: _, _ :: _, [], _, _, _, h => by simp at h
  | l :: L, p :: P, v :: V, dt, hL, h, h' => by
      simp only [sliceVec, InBox]
      exact ⟨sliceCoord_inBox l p v dt (hL l (by simp)),
        sliceVec_inBox L P V dt (fun x hx => hL x (by simp [hx])) (by simpa using h) (by simpa using h')⟩

/-- free flight from congruent points stays congruent -/
theorem advance_cong : ∀ {L P Q : List ℚ} (V : List ℚ) (dt : ℚ), CongVec L P Q → V.length = L.length →
    CongVec L (advance P V dt) (advance Q V dt)
  | [], [], [], [], _, _, _ => trivial
  | [], [], [], _ :: _, _, _, h => by simp at h
  | [], [], _ :: _, _, _, h, _ => by simp [CongVec] at h
  | [], _ :: _, _, _, _, h, _ => by simp [CongVec] at h
  | _ :: _, [], _, _, _, h, _ => by simp [CongVec] at h
  | _ :: _, _ :: _, [], _, _, h, _ => by simp [CongVec] at h
  | _ :: _, _ :: _, _ :: _, [], _, _, h => by simp at h
  | l :: L, p :: P, q :: Q, v :: V, dt, h, h' => by
      simp only [advance, List.zipWith_cons_cons, CongVec]
      exact ⟨h.1.add_right _, advance_cong V dt h.2 (by simpa using h')⟩

/-- free flight composes: first `dt`, then `dt'` is `dt + dt'` -/
theorem advance_advance : ∀ (P V : List ℚ) (dt dt' : ℚ), P.length = V.length →
    advance (advance P V dt) V dt' = advance P V (dt + dt')
  | [], [], _, _, _ => rfl
  | [], _ :: _, _, _, h => by simp at h
  | _ :: _, [], _, _, h => by simp at h
  | p :: P, v :: V, dt, dt', h => by
      have := advance_advance P V dt dt' (by simpa using h)
      simp only [advance, List.zipWith_cons_cons] at this ⊢
      rw [this]; congr 1; ring

theorem advance_length (P V : List ℚ) (dt : ℚ) (h : P.length = V.length) : (advance P V dt).length = P.length := by
  simp [advance, h]

/-! ### `setCoord` -/

theorem setCoord_length : ∀ (P : List ℚ) (d : Nat) (x : ℚ), (setCoord P d x).length = P.length
  | [], _, _ => rfl
  | _ :: _, 0, _ => rfl
  | _ :: P, d + 1, x => by simp [setCoord, setCoord_length P d x]

theorem setCoord_inBox : ∀ (L P : List ℚ) (d : Nat) (x : ℚ), InBox L P →
    (∀ h : d < L.length, 0 ≤ x ∧ x < L[d]) → InBox L (setCoord P d x)
  | [], [], _, _, _, _ => trivial
  | [], _ :: _, _, _, h, _ => by simp [InBox] at h
  | _ :: _, [], _, _, h, _ => by simp [InBox] at h
  | l :: L, p :: P, 0, x, h, hx => ⟨hx (by simp), h.2⟩
  | l :: L, p :: P, d + 1, x, h, hx =>
      ⟨h.1, setCoord_inBox L P d x h.2 (fun hd => hx (by simpa using hd))⟩

/-- writing a coordinate that is congruent to the one already there keeps the point congruent -/
theorem setCoord_cong : ∀ (L P : List ℚ) (d : Nat) (x : ℚ), P.length = L.length →
    (∀ (h : d < L.length) (h' : d < P.length), Cong L[d] P[d] x) → CongVec L P (setCoord P d x)
  | [], [], _, _, _, _ => trivial
  | [], _ :: _, _, _, h, _ => by simp at h
  | _ :: _, [], _, _, h, _ => by simp at h
  | l :: L, p :: P, 0, x, h, hx => ⟨hx (by simp) (by simp), CongVec.refl L P (by simpa using h)⟩
  | l :: L, p :: P, d + 1, x, h, hx =>
      ⟨Cong.refl l p, setCoord_cong L P d x (by simpa using h)
        (fun hd hd' => hx (by simpa using hd) (by simpa using hd'))⟩

end Kin
end JF
