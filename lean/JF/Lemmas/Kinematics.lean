import JF.Model.Kinematics
import JF.Lemmas.PyArith
import JF.Props.C14
import Mathlib.Tactic.Linarith
import Mathlib.Tactic.Ring
/-!
Vocabulary and helper lemmas for C07 (exact reading of `JF/Model/Kinematics.lean`):
congruence modulo the box, the free-flight map `advance`, in-box, well-formedness of the global state,
and list lemmas ("exactly one element satisfies `p`" as an index statement).
-/
namespace JF
namespace Kin

/-! ### congruence modulo one box length, and coordinate-wise modulo the box -/

/-- `b ≡ a (mod l)` with an explicit integer number of box lengths -/
def Cong (l a b : ℚ) : Prop := ∃ k : ℤ, b = a + k * l

theorem Cong.refl (l a : ℚ) : Cong l a a := ⟨0, by simp⟩
theorem Cong.symm {l a b : ℚ} : Cong l a b → Cong l b a := fun ⟨k, h⟩ => ⟨-k, by rw [h]; push_cast; ring⟩
theorem Cong.trans {l a b c : ℚ} : Cong l a b → Cong l b c → Cong l a c :=
  fun ⟨k, h⟩ ⟨k', h'⟩ => ⟨k + k', by rw [h', h]; push_cast; ring⟩
theorem Cong.add_right {l a b : ℚ} (c : ℚ) : Cong l a b → Cong l (a + c) (b + c) :=
  fun ⟨k, h⟩ => ⟨k, by rw [h]; ring⟩
theorem Cong.of_eq {l a b : ℚ} (h : a = b) : Cong l a b := h ▸ Cong.refl l a

/-- coordinate-wise congruence modulo the box `L`; all three lists have the same length -/
def CongVec : List ℚ → List ℚ → List ℚ → Prop
  | l :: L, p :: P, q :: Q => Cong l p q ∧ CongVec L P Q
  | [], [], [] => True
  | _, _, _ => False

/-- every coordinate lies in `[0, L_d)`; the lists have the same length -/
def InBox : List ℚ → List ℚ → Prop
  | l :: L, p :: P => (0 ≤ p ∧ p < l) ∧ InBox L P
  | [], [] => True
  | _, _ => False

/-- all box lengths positive -/
def PosBox (L : List ℚ) : Prop := ∀ l ∈ L, 0 < l

/-- free flight: `pos + vel * dt`, coordinate by coordinate -/
def advance (P V : List ℚ) (dt : ℚ) : List ℚ := List.zipWith (fun p v => p + v * dt) P V

/-- squared Euclidean norm -/
def normSq (v : List ℚ) : ℚ := (v.map (fun x => x * x)).sum

/-- index reading of `CongVec` -/
theorem congVec_iff : ∀ (L P Q : List ℚ), CongVec L P Q ↔
    P.length = L.length ∧ Q.length = L.length ∧
      ∀ d (hL : d < L.length) (hP : d < P.length) (hQ : d < Q.length), ∃ k : ℤ, Q[d] = P[d] + k * L[d]
  | [], [], [] => by simp [CongVec]
  | [], [], _ :: _ => by simp [CongVec]
  | [], _ :: _, _ => by simp [CongVec]
  | _ :: _, [], _ => by simp [CongVec]
  | _ :: _, _ :: _, [] => by simp [CongVec]
  | l :: L, p :: P, q :: Q => by
      simp only [CongVec, congVec_iff L P Q, List.length_cons, Nat.add_right_cancel_iff]
      constructor
      · rintro ⟨h0, h1, h2, h3⟩
        refine ⟨h1, h2, ?_⟩
        intro d hL hP hQ
        cases d with
        | zero => exact h0
        | succ d => exact h3 d (by omega) (by omega) (by omega)
      · rintro ⟨h1, h2, h3⟩
        refine ⟨h3 0 (by omega) (by omega) (by omega), h1, h2, ?_⟩
        intro d hL hP hQ
        exact h3 (d + 1) (by omega) (by omega) (by omega)

/-- index reading of `InBox` -/
theorem inBox_iff : ∀ (L P : List ℚ), InBox L P ↔
    P.length = L.length ∧ ∀ d (hL : d < L.length) (hP : d < P.length), 0 ≤ P[d] ∧ P[d] < L[d]
  | [], [] => by simp [InBox]
  | [], _ :: _ => by simp [InBox]
  | _ :: _, [] => by simp [InBox]
  | l :: L, p :: P => by
      simp only [InBox, inBox_iff L P, List.length_cons, Nat.add_right_cancel_iff]
      constructor
      · rintro ⟨h0, h1, h3⟩
        refine ⟨h1, ?_⟩
        intro d hL hP
        cases d with
        | zero => exact h0
        | succ d => exact h3 d (by omega) (by omega)
      · rintro ⟨h1, h3⟩
        refine ⟨h3 0 (by omega) (by omega), h1, ?_⟩
        intro d hL hP
        exact h3 (d + 1) (by omega) (by omega)

theorem CongVec.refl : ∀ (L P : List ℚ), P.length = L.length → CongVec L P P
  | [], [], _ => trivial
  | [], _ :: _, h => by simp at h
  | _ :: _, [], h => by simp at h
  | l :: L, p :: P, h => ⟨Cong.refl l p, CongVec.refl L P (by simpa using h)⟩

theorem CongVec.symm : ∀ {L P Q : List ℚ}, CongVec L P Q → CongVec L Q P
  | [], [], [], _ => trivial
  | [], [], _ :: _, h => by simp [CongVec] at h
  | [], _ :: _, _, h => by simp [CongVec] at h
  | _ :: _, [], _, h => by simp [CongVec] at h
  | _ :: _, _ :: _, [], h => by simp [CongVec] at h
  | _ :: _, _ :: _, _ :: _, h => ⟨h.1.symm, CongVec.symm h.2⟩

theorem CongVec.trans : ∀ {L P Q R : List ℚ}, CongVec L P Q → CongVec L Q R → CongVec L P R
  | [], [], [], [], _, _ => trivial
  | [], [], [], _ :: _, _, h => by simp [CongVec] at h
  | [], [], _ :: _, _, h, _ => by simp [CongVec] at h
  | [], _ :: _, _, _, h, _ => by simp [CongVec] at h
  | _ :: _, [], _, _, h, _ => by simp [CongVec] at h
  | _ :: _, _ :: _, [], _, h, _ => by simp [CongVec] at h
  | _ :: _, _ :: _, _ :: _, [], _, h => by simp [CongVec] at h
  | _ :: _, _ :: _, _ :: _, _ :: _, h, h' => ⟨h.1.trans h'.1, CongVec.trans h.2 h'.2⟩

theorem CongVec.length_left {L P Q : List ℚ} (h : CongVec L P Q) : P.length = L.length :=
  ((congVec_iff L P Q).mp h).1
theorem CongVec.length_right {L P Q : List ℚ} (h : CongVec L P Q) : Q.length = L.length :=
  ((congVec_iff L P Q).mp h).2.1
theorem InBox.length {L P : List ℚ} (h : InBox L P) : P.length = L.length :=
  ((inBox_iff L P).mp h).1

/-! ### one coordinate of the time slice -/

theorem sliceCoord_eq (L p v dt : ℚ) (hL : 0 < L) :
    sliceCoord Ops.rat L p v dt = p + v * dt - L * ⌊(p + v * dt) / L⌋ := by
  unfold sliceCoord; exact pywrap_rat_pos _ _ hL

theorem sliceCoord_cong (L p v dt : ℚ) (hL : 0 < L) : Cong L (p + v * dt) (sliceCoord Ops.rat L p v dt) :=
  ⟨-⌊(p + v * dt) / L⌋, by rw [sliceCoord_eq L p v dt hL]; push_cast; ring⟩

theorem sliceCoord_inBox (L p v dt : ℚ) (hL : 0 < L) :
    0 ≤ sliceCoord Ops.rat L p v dt ∧ sliceCoord Ops.rat L p v dt < L :=
  ⟨pywrap_rat_nonneg _ _ hL, pywrap_rat_lt _ _ hL⟩

/-! ### all coordinates -/

theorem sliceVec_length : ∀ (L P V : List ℚ) (dt : ℚ), P.length = L.length → V.length = L.length →
    (sliceVec Ops.rat L P V dt).length = L.length
  | [], [], [], _, _, _ => rfl
  | [], [], _ :: _, _, _, h => by simp at h
  | [], _ :: _, _, _, h, _ => by simp at h
  | _ :: _, [], _, _, h, _ => by simp at h
  | _ :: _, _ :: _, [], _, _, h => by simp at h
  | l :: L, p :: P, v :: V, dt, h, h' => by
      simp only [sliceVec, List.length_cons, Nat.add_right_cancel_iff]
      exact sliceVec_length L P V dt (by simpa using h) (by simpa using h')

theorem sliceVec_cong : ∀ (L P V : List ℚ) (dt : ℚ), PosBox L → P.length = L.length → V.length = L.length →
    CongVec L (advance P V dt) (sliceVec Ops.rat L P V dt)
  | [], [], [], _, _, _, _ => trivial
  | [], [], _ :: _, _, _, _, h => by simp at h
  | [], _ :: _, _, _, _, h, _ => by simp at h
  | _ :: _, [], _, _, _, h, _ => by simp at h
  | _ :: _, _ :: _, [], _, _, _, h => by simp at h
  | l :: L, p :: P, v :: V, dt, hL, h, h' => by
      simp only [sliceVec, advance, List.zipWith_cons_cons, CongVec]
      exact ⟨sliceCoord_cong l p v dt (hL l (by simp)),
        sliceVec_cong L P V dt (fun x hx => hL x (by simp [hx])) (by simpa using h) (by simpa using h')⟩

theorem sliceVec_inBox : ∀ (L P V : List ℚ) (dt : ℚ), PosBox L → P.length = L.length → V.length = L.length →
    InBox L (sliceVec Ops.rat L P V dt)
  | [], [], [], _, _, _, _ => trivial
  | [], [], _ :: _, _, _, _, h => by simp at h
  | [], _ :: _, _, _, _, h, _ => by simp at h
  | _ :: _, [], _, _, _, h, _ => by simp at h
  | _ :: _, _ :: _, [], _, _, _, h => by simp at h
  | l :: L, p :: P, v :: V, dt, hL, h, h' => by
      simp only [sliceVec, InBox]
      exact ⟨sliceCoord_inBox l p v dt (hL l (by simp)),
        sliceVec_inBox L P V dt (fun x hx => hL x (by simp [hx])) (by simpa using h) (by simpa using h')⟩

/-- free flight from congruent points stays congruent -/
theorem advance_cong : ∀ {L P Q : List ℚ} (V : List ℚ) (dt : ℚ), CongVec L P Q → V.length = L.length →
    CongVec L (advance P V dt) (advance Q V dt)
  | [], [], [], [], _, _, _ => trivial
  | [], [], [], _ :: _, _, _, h => by simp at h
  | [], [], _ :: _, _, _, h, _ => by simp [CongVec] at h
  | [], _ :: _, _, _, _, h, _ => by simp [CongVec] at h
  | _ :: _, [], _, _, _, h, _ => by simp [CongVec] at h
  | _ :: _, _ :: _, [], _, _, h, _ => by simp [CongVec] at h
  | _ :: _, _ :: _, _ :: _, [], _, _, h => by simp at h
  | l :: L, p :: P, q :: Q, v :: V, dt, h, h' => by
      simp only [advance, List.zipWith_cons_cons, CongVec]
      exact ⟨h.1.add_right _, advance_cong V dt h.2 (by simpa using h')⟩

/-- free flight composes: first `dt`, then `dt'` is `dt + dt'` -/
theorem advance_advance : ∀ (P V : List ℚ) (dt dt' : ℚ), P.length = V.length →
    advance (advance P V dt) V dt' = advance P V (dt + dt')
  | [], [], _, _, _ => rfl
  | [], _ :: _, _, _, h => by simp at h
  | _ :: _, [], _, _, h => by simp at h
  | p :: P, v :: V, dt, dt', h => by
      have := advance_advance P V dt dt' (by simpa using h)
      simp only [advance, List.zipWith_cons_cons] at this ⊢
      rw [this]; congr 1; ring

theorem advance_length (P V : List ℚ) (dt : ℚ) (h : P.length = V.length) : (advance P V dt).length = P.length := by
  simp [advance, h]

/-! ### `setCoord` -/

theorem setCoord_length : ∀ (P : List ℚ) (d : Nat) (x : ℚ), (setCoord P d x).length = P.length
  | [], _, _ => rfl
  | _ :: _, 0, _ => rfl
  | _ :: P, d + 1, x => by simp [setCoord, setCoord_length P d x]

theorem setCoord_inBox : ∀ (L P : List ℚ) (d : Nat) (x : ℚ), InBox L P →
    (∀ h : d < L.length, 0 ≤ x ∧ x < L[d]) → InBox L (setCoord P d x)
  | [], [], _, _, _, _ => trivial
  | [], _ :: _, _, _, h, _ => by simp [InBox] at h
  | _ :: _, [], _, _, h, _ => by simp [InBox] at h
  | l :: L, p :: P, 0, x, h, hx => ⟨hx (by simp), h.2⟩
  | l :: L, p :: P, d + 1, x, h, hx =>
      ⟨h.1, setCoord_inBox L P d x h.2 (fun hd => hx (by simpa using hd))⟩

/-- writing a coordinate that is congruent to the one already there keeps the point congruent -/
theorem setCoord_cong : ∀ (L P : List ℚ) (d : Nat) (x : ℚ), P.length = L.length →
    (∀ (h : d < L.length) (h' : d < P.length), Cong L[d] P[d] x) → CongVec L P (setCoord P d x)
  | [], [], _, _, _, _ => trivial
  | [], _ :: _, _, _, h, _ => by simp at h
  | _ :: _, [], _, _, h, _ => by simp at h
  | l :: L, p :: P, 0, x, h, hx => ⟨hx (by simp) (by simp), CongVec.refl L P (by simpa using h)⟩
  | l :: L, p :: P, d + 1, x, h, hx =>
      ⟨Cong.refl l p, setCoord_cong L P d x (by simpa using h)
        (fun hd hd' => hx (by simpa using hd) (by simpa using hd'))⟩

/-! ### list lemmas -/

/-- "exactly one element satisfies `p`", as a statement about indices -/
theorem filter_length_one_iff {β : Type} (p : β → Bool) : ∀ (l : List β),
    (l.filter p).length = 1 ↔ ∃ a, a < l.length ∧ ∀ i u, l[i]? = some u → (p u = true ↔ i = a)
  | [] => by simp
  | x :: l => by
      by_cases hx : p x = true
      · simp only [List.filter_cons_of_pos hx, List.length_cons, Nat.add_eq_right, List.length_eq_zero_iff,
          List.filter_eq_nil_iff]
        constructor
        · intro h
          refine ⟨0, by omega, ?_⟩
          intro i u hi
          cases i with
          | zero => simp at hi; subst hi; simp [hx]
          | succ i =>
              have : u ∈ l := List.mem_of_getElem? (by simpa using hi)
              simp [h u this]
        · rintro ⟨a, -, h⟩ u hu
          have ha : a = 0 := ((h 0 x (by simp)).mp hx).symm
          subst ha
          obtain ⟨i, hi⟩ := List.mem_iff_getElem?.mp hu
          have := h (i + 1) u (by simpa using hi)
          simpa using this
      · have hx' : p x = false := by simpa using hx
        rw [List.filter_cons_of_neg hx, filter_length_one_iff p l]
        constructor
        · rintro ⟨a, ha, h⟩
          refine ⟨a + 1, by simpa using ha, ?_⟩
          intro i u hi
          cases i with
          | zero => simp at hi; subst hi; simp [hx']
          | succ i => simpa using h i u (by simpa using hi)
        · rintro ⟨a, ha, h⟩
          cases a with
          | zero => exact absurd ((h 0 x (by simp)).mpr rfl) hx
          | succ a =>
              refine ⟨a, by simpa using ha, ?_⟩
              intro i u hi
              simpa using h (i + 1) u (by simpa using hi)

theorem forall_mem_modify {β : Type} {P : β → Prop} (f : β → β) (l : List β) (i : Nat)
    (h : ∀ u ∈ l, P u) (hf : ∀ u, l[i]? = some u → P (f u)) : ∀ u ∈ l.modify i f, P u := by
  intro u hu
  obtain ⟨j, hj⟩ := List.mem_iff_getElem?.mp hu
  rw [List.getElem?_modify] at hj
  cases hlj : l[j]? with
  | none => simp [hlj] at hj
  | some w =>
      have hw : w ∈ l := List.mem_of_getElem? hlj
      simp only [hlj, Option.map_eq_map, Option.map_some, Option.some.injEq] at hj
      subst hj
      split
      · next hij => subst hij; exact hf w hlj
      · exact h w hw

/-! ### units: well-formedness, time slice of a unit -/

/-- a unit of an `n`-dimensional system: `n` coordinates, a velocity iff a time stamp, `n` velocity components -/
def WFU (n : Nat) (u : PUnit ℚ) : Prop :=
  u.pos.length = n ∧ u.vel.isSome = u.ts.isSome ∧ ∀ v, u.vel = some v → v.length = n

/-- well-formed global state in the box `L` -/
def WF (L : List ℚ) (us : List (PUnit ℚ)) : Prop := ∀ u ∈ us, WFU L.length u

theorem timeSlice_vel (L : List ℚ) (t : Time ℚ) (u : PUnit ℚ) : (timeSlice Ops.rat L t u).vel = u.vel := by
  unfold timeSlice; split
  · next h _ => simp [h]
  · rfl

theorem timeSlice_isMoving (L : List ℚ) (t : Time ℚ) (u : PUnit ℚ) :
    isMoving (timeSlice Ops.rat L t u) = isMoving u := by
  simp [isMoving, timeSlice_vel]

theorem timeSlice_of_rest (L : List ℚ) (t : Time ℚ) (u : PUnit ℚ) (h : u.vel = none) :
    timeSlice Ops.rat L t u = u := by
  unfold timeSlice; rw [h]

theorem timeSlice_of_moving (L : List ℚ) (t : Time ℚ) (u : PUnit ℚ) {v : List ℚ} {s : Time ℚ}
    (hv : u.vel = some v) (hs : u.ts = some s) :
    timeSlice Ops.rat L t u = { pos := sliceVec Ops.rat L u.pos v (Time.sub t s), vel := some v, ts := some t } := by
  unfold timeSlice; rw [hv, hs]

theorem timeSlice_wfu (L : List ℚ) (t : Time ℚ) (u : PUnit ℚ) (h : WFU L.length u) :
    WFU L.length (timeSlice Ops.rat L t u) := by
  obtain ⟨h1, h2, h3⟩ := h
  cases hv : u.vel with
  | none => rw [timeSlice_of_rest L t u hv]; exact ⟨h1, h2, h3⟩
  | some v =>
      cases hs : u.ts with
      | none => simp [hv, hs] at h2
      | some s =>
          rw [timeSlice_of_moving L t u hv hs]
          refine ⟨sliceVec_length L u.pos v _ h1 (h3 v hv), rfl, ?_⟩
          intro w hw; cases hw; exact h3 v hv

theorem stop_wfu {n : Nat} (u : PUnit ℚ) (h : WFU n u) : WFU n (stop u) :=
  ⟨h.1, rfl, fun v hv => by simp [stop] at hv⟩

/-! ### the chain machine, pointwise -/
open JF.C14

theorem step_length (L : List ℚ) (us : List (PUnit ℚ)) (e : Ev ℚ) : (step Ops.rat L us e).length = us.length := by
  cases e <;> simp only [step] <;> (repeat' split) <;> simp [List.length_modify]

/-- position of a unit after an event, as a function of the unit before the event alone -/
def posAfter (L : List ℚ) (e : Ev ℚ) (u : PUnit ℚ) : List ℚ :=
  match e with
  | .start _ _ _ => u.pos
  | .snap t d x => if isMoving u then setCoord (timeSlice Ops.rat L t u).pos d x else u.pos
  | .keep t => (timeSlice Ops.rat L t u).pos
  | .lift t _ => (timeSlice Ops.rat L t u).pos
  | .endOfChain t _ _ => (timeSlice Ops.rat L t u).pos

theorem step_pos (L : List ℚ) (us : List (PUnit ℚ)) (e : Ev ℚ) (i : Nat) :
    (step Ops.rat L us e)[i]?.map (·.pos) = us[i]?.map (posAfter L e) := by
  cases e <;> simp only [step] <;> (repeat' split) <;>
    simp only [List.getElem?_modify, List.getElem?_map] <;> cases us[i]? <;>
    simp [posAfter, stop, timeSlice_isMoving] <;> (repeat' split) <;> simp_all [timeSlice_of_rest, isMoving]


def ChainI (L : List ℚ) (c : ℚ) (t : Time ℚ) (us : List (PUnit ℚ)) (a : Nat) : Prop :=
  a < us.length ∧ ∀ i u, us[i]? = some u →
    WFU L.length u ∧ InBox L u.pos ∧
      (if i = a then ∃ v, u.vel = some v ∧ normSq v = c ∧ u.ts = some t else u.vel = none)

theorem ChainI.activeIdx {L : List ℚ} {c : ℚ} {t : Time ℚ} {us : List (PUnit ℚ)} {a : Nat}
    (h : ChainI L c t us a) : activeIdx us = some a := by
  obtain ⟨ha, h⟩ := h
  unfold Kin.activeIdx
  rw [List.findIdx?_eq_some_iff_getElem]
  refine ⟨ha, ?_, ?_⟩
  · obtain ⟨-, -, h3⟩ := h a us[a] (by simp)
    simp only [if_true] at h3
    obtain ⟨v, hv, -⟩ := h3
    simp [isMoving, hv]
  · intro j hj
    obtain ⟨-, -, h3⟩ := h j us[j] (by simp [show j < us.length by omega])
    rw [if_neg (by omega)] at h3
    simp [isMoving, h3]

theorem ChainI.slice {L : List ℚ} {c : ℚ} {t : Time ℚ} {us : List (PUnit ℚ)} {a : Nat}
    (h : ChainI L c t us a) (hL : PosBox L) (t' : Time ℚ) :
    ChainI L c t' (us.map (timeSlice Ops.rat L t')) a := by
  obtain ⟨ha, h⟩ := h
  refine ⟨by simpa using ha, ?_⟩
  intro i u' hi
  rw [List.getElem?_map] at hi
  cases hu : us[i]? with
  | none => simp [hu] at hi
  | some u =>
      simp only [hu, Option.map_some, Option.some.injEq] at hi
      subst hi
      obtain ⟨h1, h2, h3⟩ := h i u hu
      by_cases hia : i = a
      · simp only [hia, if_true] at h3 ⊢
        obtain ⟨v, hv, hc, hs⟩ := h3
        rw [timeSlice_of_moving L t' u hv hs]
        exact ⟨timeSlice_of_moving L t' u hv hs ▸ timeSlice_wfu L t' u h1,
          sliceVec_inBox L u.pos v _ hL h1.1 (h1.2.2 v hv), v, rfl, hc, rfl⟩
      · simp only [hia, if_false] at h3 ⊢
        rw [timeSlice_of_rest L t' u h3]; exact ⟨h1, h2, h3⟩

theorem ChainI.get {L : List ℚ} {c : ℚ} {t : Time ℚ} {us : List (PUnit ℚ)} {a : Nat}
    (h : ChainI L c t us a) : ∃ ua v, us[a]? = some ua ∧ WFU L.length ua ∧ InBox L ua.pos ∧
      ua.vel = some v ∧ normSq v = c ∧ ua.ts = some t := by
  obtain ⟨ha, h⟩ := h
  obtain ⟨h1, h2, h3⟩ := h a us[a] (by simp)
  simp only [if_true] at h3
  obtain ⟨v, hv, hc, hs⟩ := h3
  exact ⟨us[a], v, by simp, h1, h2, hv, hc, hs⟩

theorem ChainI.step_keep {L : List ℚ} {c : ℚ} {t : Time ℚ} {us : List (PUnit ℚ)} {a : Nat}
    (h : ChainI L c t us a) (hL : PosBox L) (t' : Time ℚ) :
    ChainI L c t' (step Ops.rat L us (.keep t')) a := h.slice hL t'

theorem ChainI.step_snap {L : List ℚ} {c : ℚ} {t : Time ℚ} {us : List (PUnit ℚ)} {a : Nat}
    (h : ChainI L c t us a) (hL : PosBox L) (t' : Time ℚ) (d : Nat) (x : ℚ)
    (hx : ∀ hd : d < L.length, 0 ≤ x ∧ x < L[d]) :
    ChainI L c t' (step Ops.rat L us (.snap t' d x)) a := by
  obtain ⟨ha, h⟩ := h.slice hL t'
  simp only [step]
  refine ⟨by simpa using ha, ?_⟩
  intro i u' hi
  rw [List.getElem?_map] at hi
  cases hu : (us.map (timeSlice Ops.rat L t'))[i]? with
  | none => simp [hu] at hi
  | some u =>
      simp only [hu, Option.map_some, Option.some.injEq] at hi
      subst hi
      obtain ⟨h1, h2, h3⟩ := h i u hu
      split
      · exact ⟨⟨by simp [setCoord_length, h1.1], h1.2⟩, setCoord_inBox L u.pos d x h2 hx, h3⟩
      · exact ⟨h1, h2, h3⟩

theorem ChainI.step_lift {L : List ℚ} {c : ℚ} {t : Time ℚ} {us : List (PUnit ℚ)} {a : Nat}
    (h : ChainI L c t us a) (hL : PosBox L) (t' : Time ℚ) (b : Nat) (hb : b < us.length) :
    ChainI L c t' (step Ops.rat L us (.lift t' b)) b := by
  have hs := h.slice hL t'
  obtain ⟨ua, v, hua, wa, ba, hv, hc, hts⟩ := hs.get
  simp only [step, hs.activeIdx, hua]
  by_cases hab : a = b
  · subst hab; simpa using hs
  · have : (a == b) = false := by simpa using hab
    simp only [this, Bool.false_eq_true, if_false]
    obtain ⟨-, h⟩ := hs
    refine ⟨by simpa [List.length_modify] using hb, ?_⟩
    intro i u' hi
    simp only [List.getElem?_modify] at hi
    cases hu : (us.map (timeSlice Ops.rat L t'))[i]? with
    | none => simp [hu] at hi
    | some u =>
        simp only [hu, Option.map_eq_map, Option.map_some, Option.some.injEq] at hi
        subst hi
        obtain ⟨h1, h2, h3⟩ := h i u hu
        by_cases hib : i = b
        · subst hib
          have hne : ¬ a = i := hab
          have hne' : ¬ i = a := fun e => hab e.symm
          simp only [hne, hne', if_true, if_false] at h3 ⊢
          exact ⟨⟨h1.1, by simp [hv, hts], fun w hw => wa.2.2 w (by rw [← hw])⟩, h2, v, hv, hc, hts⟩
        · have hne : ¬ b = i := fun e => hib e.symm
          simp only [hne, hib, if_false]
          by_cases hia : i = a
          · subst hia
            simp only [if_true]
            exact ⟨stop_wfu u h1, h2, rfl⟩
          · have hne' : ¬ a = i := fun e => hia e.symm
            simp only [hia, hne', if_false] at h3 ⊢
            exact ⟨h1, h2, h3⟩

theorem ChainI.step_endOfChain {L : List ℚ} {c : ℚ} {t : Time ℚ} {us : List (PUnit ℚ)} {a : Nat}
    (h : ChainI L c t us a) (hL : PosBox L) (t' : Time ℚ) (b : Nat) (v : List ℚ) (hb : b < us.length)
    (hv : v.length = L.length) (hc : normSq v = c) :
    ChainI L c t' (step Ops.rat L us (.endOfChain t' b v)) b := by
  have hs := h.slice hL t'
  simp only [step, hs.activeIdx]
  obtain ⟨-, h⟩ := hs
  by_cases hab : a = b
  · subst hab
    simp only [beq_self_eq_true, if_true]
    refine ⟨by simpa [List.length_modify] using hb, ?_⟩
    intro i u' hi
    simp only [List.getElem?_modify] at hi
    cases hu : (us.map (timeSlice Ops.rat L t'))[i]? with
    | none => simp [hu] at hi
    | some u =>
        simp only [hu, Option.map_eq_map, Option.map_some, Option.some.injEq] at hi
        subst hi
        obtain ⟨h1, h2, h3⟩ := h i u hu
        by_cases hia : i = a
        · subst hia
          simp only [if_true] at h3 ⊢
          obtain ⟨w, hw, -, hts⟩ := h3
          exact ⟨⟨h1.1, by simp [hts], fun w' hw' => by cases hw'; exact hv⟩, h2, v, rfl, hc, hts⟩
        · have hne' : ¬ a = i := fun e => hia e.symm
          simp only [hia, hne', if_false] at h3 ⊢
          exact ⟨h1, h2, h3⟩
  · have : (a == b) = false := by simpa using hab
    simp only [this, Bool.false_eq_true, if_false]
    refine ⟨by simpa [List.length_modify] using hb, ?_⟩
    intro i u' hi
    simp only [List.getElem?_modify] at hi
    cases hu : (us.map (timeSlice Ops.rat L t'))[i]? with
    | none => simp [hu] at hi
    | some u =>
        simp only [hu, Option.map_eq_map, Option.map_some, Option.some.injEq] at hi
        subst hi
        obtain ⟨h1, h2, h3⟩ := h i u hu
        by_cases hib : i = b
        · subst hib
          have hne : ¬ a = i := hab
          simp only [hne, if_true, if_false]
          exact ⟨⟨h1.1, rfl, fun w' hw' => by cases hw'; exact hv⟩, h2, v, rfl, hc, trivial⟩
        · have hne : ¬ b = i := fun e => hib e.symm
          simp only [hne, hib, if_false]
          by_cases hia : i = a
          · subst hia
            simp only [if_true]
            exact ⟨stop_wfu u h1, h2, rfl⟩
          · have hne' : ¬ a = i := fun e => hia e.symm
            simp only [hia, hne', if_false] at h3 ⊢
            exact ⟨h1, h2, h3⟩

theorem ChainI.of_start {L : List ℚ} {us : List (PUnit ℚ)} (hwf : WF L us) (hbox : ∀ u ∈ us, InBox L u.pos)
    (hrest : ∀ u ∈ us, u.vel = none) (t : Time ℚ) (a : Nat) (v : List ℚ) (ha : a < us.length)
    (hv : v.length = L.length) :
    ChainI L (normSq v) t (step Ops.rat L us (.start t a v)) a := by
  simp only [step]
  refine ⟨by simpa [List.length_modify] using ha, ?_⟩
  intro i u' hi
  simp only [List.getElem?_modify] at hi
  cases hu : us[i]? with
  | none => simp [hu] at hi
  | some u =>
      simp only [hu, Option.map_eq_map, Option.map_some, Option.some.injEq] at hi
      subst hi
      have hm : u ∈ us := List.mem_of_getElem? hu
      by_cases hia : i = a
      · subst hia
        simp only [if_true]
        exact ⟨⟨(hwf u hm).1, rfl, fun w' hw' => by cases hw'; exact hv⟩, hbox u hm, v, rfl, rfl, trivial⟩
      · have hne' : ¬ a = i := fun e => hia e.symm
        simp only [hia, hne', if_false]
        exact ⟨hwf u hm, hbox u hm, hrest u hm⟩

/-- the chain invariant: one moving unit, its squared speed is `c`, its time stamp is `t`, everything in the box -/
structure Chain (L : List ℚ) (c : ℚ) (t : Time ℚ) (us : List (PUnit ℚ)) : Prop where
  wf : WF L us
  inBox : ∀ u ∈ us, InBox L u.pos
  one : (us.filter isMoving).length = 1
  speed : ∀ u ∈ us, ∀ v, u.vel = some v → normSq v = c
  stamp : ∀ u ∈ us, isMoving u = true → u.ts = some t

theorem chain_iff (L : List ℚ) (c : ℚ) (t : Time ℚ) (us : List (PUnit ℚ)) :
    Chain L c t us ↔ ∃ a, ChainI L c t us a := by
  constructor
  · rintro ⟨hwf, hbox, hone, hsp, hst⟩
    obtain ⟨a, ha, h⟩ := (filter_length_one_iff isMoving us).mp hone
    refine ⟨a, ha, ?_⟩
    intro i u hu
    have hm : u ∈ us := List.mem_of_getElem? hu
    refine ⟨hwf u hm, hbox u hm, ?_⟩
    have := h i u hu
    by_cases hia : i = a
    · simp only [hia, if_true]
      have hmv : isMoving u = true := this.mpr hia
      cases hv : u.vel with
      | none => simp [isMoving, hv] at hmv
      | some v => exact ⟨v, rfl, hsp u hm v hv, hst u hm hmv⟩
    · simp only [hia, if_false]
      have hmv : ¬ isMoving u = true := fun e => hia (this.mp e)
      cases hv : u.vel with
      | none => rfl
      | some v => simp [isMoving, hv] at hmv
  · rintro ⟨a, ha, h⟩
    refine ⟨?_, ?_, ?_, ?_, ?_⟩
    · intro u hu; obtain ⟨i, hi⟩ := List.mem_iff_getElem?.mp hu; exact (h i u hi).1
    · intro u hu; obtain ⟨i, hi⟩ := List.mem_iff_getElem?.mp hu; exact (h i u hi).2.1
    · refine (filter_length_one_iff isMoving us).mpr ⟨a, ha, ?_⟩
      intro i u hi
      have := (h i u hi).2.2
      by_cases hia : i = a
      · simp only [hia, if_true] at this ⊢
        obtain ⟨v, hv, -⟩ := this
        simp [isMoving, hv]
      · simp only [hia, if_false] at this ⊢
        simp [isMoving, this]
    · intro u hu v hv; obtain ⟨i, hi⟩ := List.mem_iff_getElem?.mp hu
      have := (h i u hi).2.2
      by_cases hia : i = a
      · simp only [hia, if_true] at this
        obtain ⟨w, hw, hc, -⟩ := this
        rw [hv] at hw; cases hw; exact hc
      · simp only [hia, if_false] at this; rw [hv] at this; cases this
    · intro u hu hmv; obtain ⟨i, hi⟩ := List.mem_iff_getElem?.mp hu
      have := (h i u hi).2.2
      by_cases hia : i = a
      · simp only [hia, if_true] at this
        obtain ⟨w, -, -, hts⟩ := this
        exact hts
      · simp only [hia, if_false] at this; simp [isMoving, this] at hmv

/-- admissibility of a committed event in the global state `us` -/
def Adm (L : List ℚ) (us : List (PUnit ℚ)) : Ev ℚ → Prop
  | .start _ a v => a < us.length ∧ v.length = L.length ∧ ∀ u ∈ us, u.vel = none
  | .keep _ => True
  | .snap _ d x => ∀ h : d < L.length, 0 ≤ x ∧ x < L[d]
  | .lift _ b => b < us.length
  | .endOfChain _ a v => a < us.length ∧ v.length = L.length ∧
      ∀ u ∈ us, ∀ v0, u.vel = some v0 → normSq v = normSq v0

/-- admissibility of a sequence of events, each in the state the previous ones produce -/
def AdmRun (L : List ℚ) : List (PUnit ℚ) → List (Ev ℚ) → Prop
  | _, [] => True
  | us, e :: es => Adm L us e ∧ AdmRun L (step Ops.rat L us e) es

/-- time of the last event of a list (`t` for the empty list) -/
def lastTime (t : Time ℚ) : List (Ev ℚ) → Time ℚ
  | [] => t
  | e :: es => lastTime e.time es

theorem lastTime_eq : ∀ (t : Time ℚ) (es : List (Ev ℚ)), lastTime t es = ((es.map Ev.time).getLast?).getD t
  | _, [] => rfl
  | t, [e] => by simp [lastTime]
  | t, e :: e' :: es => by
      have := lastTime_eq e.time (e' :: es)
      simp only [lastTime] at this ⊢
      rw [this]; simp [List.getLast?_cons]

theorem ChainI.vels {c : ℚ} {t : Time ℚ} {L : List ℚ} : ∀ {us : List (PUnit ℚ)} {a : Nat}, ChainI L c t us a →
    ∃ v, normSq v = c ∧ us.filterMap (·.vel) = [v]
  | [], _, h => absurd h.1 (by simp)
  | u :: us, 0, ⟨_, h⟩ => by
      obtain ⟨-, -, h3⟩ := h 0 u (by simp)
      simp only [if_true] at h3
      obtain ⟨v, hv, hc, -⟩ := h3
      refine ⟨v, hc, ?_⟩
      rw [List.filterMap_cons_some hv]
      congr 1
      rw [List.filterMap_eq_nil_iff]
      intro w hw
      obtain ⟨i, hi⟩ := List.mem_iff_getElem?.mp hw
      have := (h (i + 1) w (by simpa using hi)).2.2
      simpa using this
  | u :: us, a + 1, ⟨ha, h⟩ => by
      have h0 := (h 0 u (by simp)).2.2
      simp only [show ¬ (0 = a + 1) by omega, if_false] at h0
      have : ChainI L c t us a := ⟨by simpa using ha, fun i w hi => by
        have := h (i + 1) w (by simpa using hi)
        simpa using this⟩
      obtain ⟨v, hc, hv⟩ := this.vels
      exact ⟨v, hc, by rw [List.filterMap_cons_none h0, hv]⟩


theorem ChainI.vels_at {c : ℚ} {t : Time ℚ} {L : List ℚ} {us : List (PUnit ℚ)} {a i : Nat} (h : ChainI L c t us a)
    {u : PUnit ℚ} {w : List ℚ} (hu : us[i]? = some u) (hw : u.vel = some w) : us.filterMap (·.vel) = [w] := by
  obtain ⟨v, -, hv⟩ := h.vels
  have : w ∈ us.filterMap (·.vel) := List.mem_filterMap.mpr ⟨u, List.mem_of_getElem? hu, hw⟩
  rw [hv] at this
  rw [hv, List.mem_singleton.mp this]

/-- the velocity found at `b` after the pair event is the velocity the active unit had before -/
theorem ChainI.lift_vel {L : List ℚ} {c : ℚ} {t : Time ℚ} {us : List (PUnit ℚ)} {a : Nat}
    (h : ChainI L c t us a) (hL : PosBox L) (t' : Time ℚ) (b : Nat) (hb : b < us.length) :
    ((step Ops.rat L us (.lift t' b))[b]?).bind (·.vel) = (us[a]?).bind (·.vel) := by
  have hs := h.slice hL t'
  obtain ⟨ua, v, hua, wa, ba, hv, hc, hts⟩ := hs.get
  have hva : (us[a]?).bind (·.vel) = some v := by
    rw [List.getElem?_map] at hua
    cases hu : us[a]? with
    | none => simp [hu] at hua
    | some u =>
        simp only [hu, Option.map_some, Option.some.injEq] at hua
        subst hua
        rw [timeSlice_vel] at hv
        simp [hv]
  rw [hva]
  simp only [step, hs.activeIdx, hua]
  by_cases hab : a = b
  · subst hab; simp [hua, hv]
  · have : (a == b) = false := by simpa using hab
    simp only [this, Bool.false_eq_true, if_false]
    have hb' : b < (us.map (timeSlice Ops.rat L t')).length := by simpa using hb
    simp [hab, List.getElem?_eq_getElem hb', hv]

/-- dimension check of the velocities an event brings in -/
def EvWF (L : List ℚ) : Ev ℚ → Prop
  | .start _ _ v => v.length = L.length
  | .endOfChain _ _ v => v.length = L.length
  | _ => True

theorem map_timeSlice_wf {L : List ℚ} {us : List (PUnit ℚ)} (h : WF L us) (t : Time ℚ) :
    WF L (us.map (timeSlice Ops.rat L t)) := by
  intro u hu
  obtain ⟨w, hw, rfl⟩ := List.mem_map.mp hu
  exact timeSlice_wfu L t w (h w hw)

theorem step_wf (L : List ℚ) (us : List (PUnit ℚ)) (e : Ev ℚ) (h : WF L us) (he : EvWF L e) :
    WF L (step Ops.rat L us e) := by
  cases e with
  | start t a v =>
      exact forall_mem_modify _ _ _ h (fun u hu =>
        ⟨(h u (List.mem_of_getElem? hu)).1, rfl, fun w hw => by cases hw; exact he⟩)
  | keep t => exact map_timeSlice_wf h t
  | snap t d x =>
      intro u hu
      obtain ⟨w, hw, rfl⟩ := List.mem_map.mp hu
      have := map_timeSlice_wf h t w hw
      split
      · exact ⟨by simp [setCoord_length, this.1], this.2⟩
      · exact this
  | lift t b =>
      have hsl := map_timeSlice_wf h t
      simp only [step]
      split
      · exact hsl
      · split
        · exact hsl
        · next a _ ua hua =>
          split
          · exact hsl
          · have hwa := hsl ua (List.mem_of_getElem? hua)
            refine forall_mem_modify _ _ _ (forall_mem_modify _ _ _ hsl ?_) ?_
            · intro u hu
              exact ⟨(hsl u (List.mem_of_getElem? hu)).1, hwa.2.1, hwa.2.2⟩
            · intro u hu
              refine stop_wfu u (forall_mem_modify _ _ _ hsl ?_ u (List.mem_of_getElem? hu))
              intro u hu
              exact ⟨(hsl u (List.mem_of_getElem? hu)).1, hwa.2.1, hwa.2.2⟩
  | endOfChain t a v =>
      have hsl := map_timeSlice_wf h t
      simp only [step]
      split
      · exact hsl
      · next a0 hact =>
        split
        · next haa =>
          have haa : a0 = a := by simpa using haa
          subst haa
          refine forall_mem_modify _ _ _ hsl ?_
          intro u hu
          have hw := hsl u (List.mem_of_getElem? hu)
          unfold activeIdx at hact
          obtain ⟨hlt, hmv, -⟩ := List.findIdx?_eq_some_iff_getElem.mp hact
          have : u = (us.map (timeSlice Ops.rat L t))[a0] := by
            rw [List.getElem?_eq_getElem hlt] at hu; exact (Option.some.inj hu).symm
          rw [← this] at hmv
          refine ⟨hw.1, ?_, fun w' hw' => by cases hw'; exact he⟩
          have := hw.2.1
          simp only [isMoving] at hmv
          simp [← this, hmv]
        · refine forall_mem_modify _ _ _ (forall_mem_modify _ _ _ hsl ?_) ?_
          · intro u hu; exact stop_wfu u (hsl u (List.mem_of_getElem? hu))
          · intro u hu
            have := forall_mem_modify (P := WFU L.length) stop _ a0 hsl
              (fun u hu => stop_wfu u (hsl u (List.mem_of_getElem? hu))) u (List.mem_of_getElem? hu)
            exact ⟨this.1, rfl, fun w' hw' => by cases hw'; exact he⟩

/-! ### continuity -/

theorem posAfter_of_rest (L : List ℚ) (e : Ev ℚ) (u : PUnit ℚ) (h : u.vel = none) : posAfter L e u = u.pos := by
  cases e <;> simp [posAfter, timeSlice_of_rest, isMoving, h]

theorem timeSlice_pos_cong {L : List ℚ} (t : Time ℚ) {u : PUnit ℚ} {v : List ℚ} {s : Time ℚ} (hL : PosBox L)
    (hw : WFU L.length u) (hv : u.vel = some v) (hs : u.ts = some s) :
    CongVec L (advance u.pos v (val t - val s)) (timeSlice Ops.rat L t u).pos := by
  rw [timeSlice_of_moving L t u hv hs, ← sub_exact]
  exact sliceVec_cong L u.pos v _ hL hw.1 (hw.2.2 v hv)

theorem timeSlice_pos_inBox {L : List ℚ} (t : Time ℚ) {u : PUnit ℚ} {v : List ℚ} {s : Time ℚ} (hL : PosBox L)
    (hw : WFU L.length u) (hv : u.vel = some v) (hs : u.ts = some s) :
    InBox L (timeSlice Ops.rat L t u).pos := by
  rw [timeSlice_of_moving L t u hv hs]
  exact sliceVec_inBox L u.pos v _ hL hw.1 (hw.2.2 v hv)

/-- what an event must satisfy so that it is no jump: a start finds every unit at rest; the coordinate a
cell-boundary event writes is congruent (modulo the box length) to the time-sliced coordinate it overwrites -/
def Smooth (L : List ℚ) (us : List (PUnit ℚ)) : Ev ℚ → Prop
  | .start _ _ _ => ∀ u ∈ us, u.vel = none
  | .snap t d x => ∀ u ∈ us, isMoving u = true →
      ∀ (h : d < L.length) (h' : d < (timeSlice Ops.rat L t u).pos.length),
        Cong L[d] (timeSlice Ops.rat L t u).pos[d] x
  | _ => True

theorem posAfter_cong {L : List ℚ} {us : List (PUnit ℚ)} {e : Ev ℚ} {u : PUnit ℚ} {v : List ℚ} {s : Time ℚ}
    (hL : PosBox L) (hw : WFU L.length u) (hm : u ∈ us) (hsm : Smooth L us e)
    (hv : u.vel = some v) (hs : u.ts = some s) :
    CongVec L (advance u.pos v (val e.time - val s)) (posAfter L e u) := by
  cases e with
  | start t a w => rw [hsm u hm] at hv; cases hv
  | keep t => exact timeSlice_pos_cong t hL hw hv hs
  | lift t b => exact timeSlice_pos_cong t hL hw hv hs
  | endOfChain t a w => exact timeSlice_pos_cong t hL hw hv hs
  | snap t d x =>
      have hmv : isMoving u = true := by simp [isMoving, hv]
      simp only [posAfter, hmv, if_true, Ev.time]
      refine (timeSlice_pos_cong t hL hw hv hs).trans ?_
      exact setCoord_cong L _ d x (timeSlice_wfu L t u hw).1 (fun h h' => hsm u hm hmv h h')

/-! ### the leg loop seen from the scheduler -/

theorem time_le_trans {a b c : Time ℚ} (ha : Normalised a) (hb : Normalised b) (hc : Normalised c)
    (h : Time.le a b = true) (h' : Time.le b c = true) : Time.le a c = true := by
  rw [le_iff _ _ ha hb] at h; rw [le_iff _ _ hb hc] at h'; rw [le_iff _ _ ha hc]; exact le_trans h h'

/-- One leg of the event loop (`mediator.run`), reduced to what matters for the order of the committed times.
State: the time of the last commit and the multiset of live candidate times in the scheduler.
The scheduler returns a minimal live candidate `m` (C06); the leg trashes a sub-multiset `removed` of the
live candidates that contains `m`, keeps the others, and pushes new candidates, each normalised and not
before `m` (C14 `add_ge`: they are `time stamp of the moving unit + non-negative displacement`, and that time
stamp is the time of the last commit by the chain invariant). -/
inductive Leg : Time ℚ × List (Time ℚ) → Time ℚ × List (Time ℚ) → Prop
  | mk (now m : Time ℚ) (pending removed kept new : List (Time ℚ)) :
      m ∈ pending → (∀ p ∈ pending, Time.le m p = true) → List.Perm pending (removed ++ kept) → m ∈ removed →
      (∀ c ∈ new, Normalised c ∧ Time.le m c = true) → Leg (now, pending) (m, kept ++ new)

/-- a run of the leg loop together with the list of committed times -/
inductive Legs : Time ℚ × List (Time ℚ) → List (Time ℚ) → Time ℚ × List (Time ℚ) → Prop
  | nil (s : Time ℚ × List (Time ℚ)) : Legs s [] s
  | cons {s s' s'' : Time ℚ × List (Time ℚ)} {ts : List (Time ℚ)} : Leg s s' → Legs s' ts s'' → Legs s (s'.1 :: ts) s''

/-- invariant of the leg loop: no live candidate lies before the last commit -/
def LegInv (s : Time ℚ × List (Time ℚ)) : Prop :=
  Normalised s.1 ∧ ∀ p ∈ s.2, Normalised p ∧ Time.le s.1 p = true

theorem Leg.inv {s s' : Time ℚ × List (Time ℚ)} (h : Leg s s') (hi : LegInv s) :
    LegInv s' ∧ Time.le s.1 s'.1 = true := by
  cases h with
  | mk now m pending removed kept new hm hmin hperm hrem hnew =>
      obtain ⟨hn, hp⟩ := hi
      refine ⟨⟨(hp m hm).1, ?_⟩, (hp m hm).2⟩
      intro p hp'
      rcases List.mem_append.mp hp' with hk | hk
      · have : p ∈ pending := hperm.mem_iff.mpr (List.mem_append_right _ hk)
        exact ⟨(hp p this).1, hmin p this⟩
      · exact hnew p hk

theorem Legs.sorted {s s' : Time ℚ × List (Time ℚ)} {ts : List (Time ℚ)} (h : Legs s ts s') (hi : LegInv s) :
    (∀ x ∈ ts, Normalised x ∧ Time.le s.1 x = true) ∧ List.Pairwise (fun a b => Time.le a b = true) ts ∧ LegInv s' := by
  induction h with
  | nil s => exact ⟨by simp, List.Pairwise.nil, hi⟩
  | cons hl _ ih =>
      obtain ⟨hi', hle⟩ := hl.inv hi
      obtain ⟨h1, h2, h3⟩ := ih hi'
      refine ⟨?_, List.Pairwise.cons (fun x hx => (h1 x hx).2) h2, h3⟩
      intro x hx
      rcases List.mem_cons.mp hx with rfl | hx
      · exact ⟨hi'.1, hle⟩
      · exact ⟨(h1 x hx).1, time_le_trans hi.1 hi'.1 (h1 x hx).1 hle (h1 x hx).2⟩

/-! ### concrete data for the non-vacuity examples of `JF/Props/C07.lean` -/
namespace Ex
/-- a 4 × 3 box -/
def L0 : List ℚ := [4, 3]
/-- three point masses at rest -/
def us0 : List (PUnit ℚ) := [⟨[1, 1], none, none⟩, ⟨[3, 2], none, none⟩, ⟨[0, 5/2], none, none⟩]
def t0 : Time ℚ := ⟨0, 0⟩
def t1 : Time ℚ := ⟨1, 1/2⟩
def t2 : Time ℚ := ⟨3, 0⟩
def t3 : Time ℚ := ⟨3, 1/4⟩
def t4 : Time ℚ := ⟨5, 0⟩
/-- start unit 0 along x; sample; unit 0 reaches the upper cell boundary `x = 4 ≡ 0`; it hits unit 1; the chain ends
and unit 2 goes on along y -/
def evs : List (Ev ℚ) :=
  [.start t0 0 [1, 0], .keep t1, .snap t2 0 0, .lift t3 1, .endOfChain t4 2 [0, 1]]
theorem posBox : PosBox L0 := by intro l hl; simp [L0] at hl; rcases hl with rfl | rfl <;> norm_num
theorem wf0 : WF L0 us0 := by intro u hu; simp [us0] at hu; rcases hu with rfl | rfl | rfl <;> simp [WFU, L0]
theorem inBox0 : ∀ u ∈ us0, InBox L0 u.pos := by
  intro u hu; simp [us0] at hu; rcases hu with rfl | rfl | rfl <;> norm_num [InBox, L0]
theorem rest0 : ∀ u ∈ us0, u.vel = none := by
  intro u hu; simp [us0] at hu; rcases hu with rfl | rfl | rfl <;> rfl
end Ex

end Kin
end JF
