import JF.Model.Thinning
/-!
# Building block for a general-`n` version of `JF/Props/C04C12N.lean` (not used by it yet)

`sortUnits` (the model of Python's stable `sorted` in `_construct_leaf_units_of_composite_objects`) leaves a list alone
in which no later identifier is `idLt` an earlier one.
-/
namespace JF.C04C12N
open JF JF.Thin

theorem insSorted_append {α : Type} (x : LUnit α) : ∀ acc : List (LUnit α),
    (∀ y ∈ acc, idLt x.id y.id = false) → insSorted x acc = acc ++ [x]
  | [], _ => rfl
  | y :: ys, h => by
    have hy : idLt x.id y.id = false := h y (by simp)
    simp only [insSorted, hy, Bool.false_eq_true, if_false, List.cons_append]
    rw [insSorted_append x ys (fun z hz => h z (by simp [hz]))]

theorem foldl_insSorted_append {α : Type} : ∀ (us acc : List (LUnit α)),
    (acc ++ us).Pairwise (fun y x => idLt x.id y.id = false) →
    us.foldl (fun acc u => insSorted u acc) acc = acc ++ us
  | [], acc, _ => by simp
  | u :: us, acc, h => by
    have h' : (acc ++ [u] ++ us).Pairwise (fun y x => idLt x.id y.id = false) := by simpa using h
    have hu : ∀ y ∈ acc, idLt u.id y.id = false := by
      intro y hy
      rw [List.pairwise_append] at h
      exact h.2.2 y hy u (by simp)
    rw [List.foldl_cons, insSorted_append u acc hu, foldl_insSorted_append us (acc ++ [u]) h']
    simp

/-- a list in which no later identifier is `idLt` an earlier one is a fixed point of `sortUnits` -/
theorem sortUnits_sorted {α : Type} (us : List (LUnit α))
    (h : us.Pairwise (fun y x => idLt x.id y.id = false)) : sortUnits us = us := by
  have := foldl_insSorted_append us [] (by simpa using h)
  simpa [sortUnits] using this

end JF.C04C12N

namespace JF.C04C12N
open JF JF.Thin

theorem range_filterMap_getElem? {β γ : Type} (f : β → γ) : ∀ l : List β,
    (List.range l.length).filterMap (fun j => (l[j]?).map f) = l.map f
  | [] => by simp
  | x :: xs => by
    rw [List.length_cons, List.range_succ_eq_map, List.filterMap_cons]
    simp only [List.getElem?_cons_zero, Option.map_some, List.filterMap_map, List.map_cons]
    congr 1
    have := range_filterMap_getElem? f xs
    simpa [Function.comp_def] using this

/-- `_construct_leaf_cnodes` on two branches that both have children: the children of the first, then of the second -/
theorem leafUnits_pair {α : Type} (X Y : CNode α) (hX : X.children ≠ []) (hY : Y.children ≠ []) :
    leafUnits [X, Y] = X.children.map (·.1) ++ Y.children.map (·.1) := by
  simp only [leafUnits, leafRefs, List.zipIdx, List.flatMap_cons, List.flatMap_nil,
    List.isEmpty_iff, hX, hY, if_false, List.append_nil, List.filterMap_append, List.filterMap_map, Function.comp_def,
    getLeaf, List.getElem?_cons_zero, List.getElem?_cons_succ, Nat.zero_add]
  rw [range_filterMap_getElem?, range_filterMap_getElem?]

end JF.C04C12N
