import JF.Model.SystemRun
import JF.Props.MediatorLoop
import JF.Props.C14
/-!
Basic lemmas for the composed system (`JF/Model/SystemRun.lean`, `JF/Props/SystemInv.lean`):
the order on `XTime`, one leg of `JF.Med.leg` taken apart, owners of handlers, runs extended at the end.
-/
namespace JF.Sys
open JF JF.Act JF.Heap JF.Sched JF.Med JF.CW JF.C14 JF.MediatorLoop

/-! ### the order on `XTime` -/

theorem xlt_fin (a b : Time ℚ) : xcfg.lt (.fin a) (.fin b) = Time.cLt a b := rfl

theorem cLt_trans' (a b c : Time ℚ) : Time.cLt a b = true → Time.cLt b c = true → Time.cLt a c = true := by
  simp only [C06.cLt_iff]
  rintro (h | ⟨h1, h2⟩) (h' | ⟨h1', h2'⟩)
  · exact Or.inl (lt_trans h h')
  · exact Or.inl (h1' ▸ h)
  · exact Or.inl (h1 ▸ h')
  · exact Or.inr ⟨h1.trans h1', lt_trans h2 h2'⟩

theorem xcfg_strictWeak : StrictWeak xcfg where
  irrefl a := by
    cases a with
    | bot => rfl
    | inf => rfl
    | fin a => show Time.cLt a a = false; rw [C06.cLt_false_iff]; exact Or.inr ⟨rfl, le_refl _⟩
  trans a b c := by
    cases a <;> cases b <;> cases c <;> simp only [xcfg, XTime.lt] <;> try simp
    next a b c => exact cLt_trans' a b c
  ntrans a b c := by
    cases a <;> cases b <;> cases c <;> simp only [xcfg, XTime.lt] <;> try simp
    next a b c => exact C06.cLt_ntrans a b c
  bot_min a := by cases a <;> rfl

/-- a finite time of the exact reading: a normalised `Time ℚ` -/
def NormX : XTime → Prop
  | .fin t => Normalised t
  | .inf => True
  | .bot => False

theorem xlt_false_iff {a b : Time ℚ} (ha : Normalised a) (hb : Normalised b) :
    xcfg.lt (.fin a) (.fin b) = false ↔ val b ≤ val a := by
  rw [xlt_fin, ← Bool.not_eq_true, cLt_iff a b ha hb]; exact not_lt

theorem xlt_true_iff {a b : Time ℚ} (ha : Normalised a) (hb : Normalised b) :
    xcfg.lt (.fin a) (.fin b) = true ↔ val a < val b := by
  rw [xlt_fin, cLt_iff a b ha hb]

/-- normalised times with the same value are the same time -/
theorem normalised_ext {a b : Time ℚ} (ha : Normalised a) (hb : Normalised b) (h : val a = val b) : a = b := by
  have h1 : Time.cLt a b = false := by rw [← Bool.not_eq_true, cLt_iff a b ha hb, h]; exact lt_irrefl _
  have h2 : Time.cLt b a = false := by rw [← Bool.not_eq_true, cLt_iff b a hb ha, h]; exact lt_irrefl _
  exact C06.time_total a b h1 h2

theorem finite_iff (t : XTime) : xcfg.finite t = true ↔ ∃ τ, t = .fin τ := by
  cases t <;> simp [xcfg, XTime.finite]

/-! ### one leg, taken apart -/

/-- what `leg … = .ok (st', c)` says, call by call -/
theorem leg_ok {κ : Type} {M : MWire} {I : SchedI κ} {st st' : MedState I.σ} {o : Oracle κ} {c : Committed κ}
    (e : leg M I st o = .ok (st', c)) :
    ∃ (a1 : ActSt) (s1 : I.σ) (a2 : ActSt) (s3 : I.σ),
      getToRun M.w M.S st.act st.preceding o.yields = (a1, .ok c.created) ∧
      pushLoop M I o st.sched c.created = .ok s1 ∧
      (I.get s1).2 = .ok c.handler c.time ∧
      getTrashable M.w a1 c.handler = (a2, .ok c.trashed) ∧
      trashAll I (I.get s1).1 c.trashed = .ok s3 ∧
      st' = ⟨a2, s3, some c.handler⟩ ∧
      c.pushed = c.created.map (fun p => (p.1, o.cand p.1)) ∧ c.stop = M.endOfRun c.handler := by
  unfold leg at e
  simp only at e
  split at e
  · cases e
  · cases e
  · cases e
  · next created hcr =>
    split at e
    · cases e
    · next s1 hpush =>
      split at e
      · cases e
      · cases e
      · next h t hget =>
        split at e
        · cases e
        · cases e
        · next trashed htr =>
          split at e
          · cases e
          · next s3 htall =>
            simp only [Except.ok.injEq, Prod.mk.injEq] at e
            obtain ⟨rfl, rfl⟩ := e
            exact ⟨_, s1, _, s3, Prod.ext rfl hcr, hpush, hget, Prod.ext rfl htr, htall, rfl, rfl, rfl⟩

theorem midAct_eq {κ : Type} {M : MWire} {σ : Type} {st : MedState σ} {o : Oracle κ} {a1 : ActSt} {r : RunOut}
    (h : getToRun M.w M.S st.act st.preceding o.yields = (a1, r)) : midAct M st o = a1.ts := by
  unfold midAct; rw [h]

/-- the ghost dictionary in the middle of a leg mirrors the running lists of that moment -/
theorem mid_mirror {κ : Type} {I : SchedI κ} {R : I.σ → Pend κ → κ → Prop} {M : MWire}
    (hs : Med.Static M) {st st' : MedState I.σ} {p : Pend κ} {l : κ} {o : Oracle κ} {c : Committed κ}
    (inv : MInv M R st p l) (e : leg M I st o = .ok (st', c)) :
    PoolInv M.w (midAct M st o) ∧
    (∀ x, (pendPushed p c x).isSome ↔ ∃ T, x ∈ (getT (midAct M st o) T).running) ∧
    (∀ x ∈ c.created.map Prod.fst, p x = none) := by
  obtain ⟨a1, s1, a2, s3, hrun, _, _, _, _, _, hpushed, _⟩ := leg_ok e
  obtain ⟨pinv1, cnd, cfresh, crun⟩ := getToRun_ok hs inv.pool hrun
  rw [midAct_eq hrun]
  have hfresh : ∀ h ∈ c.created.map Prod.fst, p h = none := by
    intro h hh
    cases hp : p h with
    | none => rfl
    | some t =>
      obtain ⟨T, hT⟩ := (inv.mirror h).mp (by simp [hp])
      exact absurd hT (cfresh h hh T)
  refine ⟨pinv1, ?_, hfresh⟩
  intro x
  unfold pendPushed
  rw [pushAll_isSome, hpushed]
  have hkeys : (c.created.map fun q => (q.1, o.cand q.1)).map Prod.fst = c.created.map Prod.fst := by
    rw [List.map_map]; rfl
  rw [hkeys, crun x, inv.mirror x]

/-! ### owners -/

theorem owner_of_mem_pool {w : Wires} (pok : PoolsOK w) {h : HandlerId} {E : TaggerIdx} (hE : E < w.length)
    (hm : h ∈ (getW w E).pool) : owner w h = some E := by
  have hex : ∃ t ∈ w, (t.pool.contains h) = true := by
    refine ⟨w[E], List.getElem_mem hE, ?_⟩
    have : getW w E = w[E] := by unfold getW; rw [List.getElem?_eq_getElem hE]; rfl
    rw [this] at hm
    exact List.contains_iff_mem.mpr hm
  have hlt : w.findIdx (fun t => t.pool.contains h) < w.length := List.findIdx_lt_length_of_exists hex
  have ho : owner w h = some (w.findIdx (fun t => t.pool.contains h)) := by
    unfold owner; simp only [hlt, if_true]
  have hm' := owner_mem ho
  by_cases hEq : w.findIdx (fun t => t.pool.contains h) = E
  · rw [ho, hEq]
  · exact absurd hm (pok.2 _ _ hEq h hm')

theorem owner_of_running {w : Wires} (pok : PoolsOK w) {s : Act} (pinv : PoolInv w s) {h : HandlerId} {T : TaggerIdx}
    (hr : h ∈ (getT s T).running) : owner w h = some T := by
  have hT : T < w.length := by
    rcases Nat.lt_or_ge T w.length with h1 | h1
    · exact h1
    · rw [getT_of_le s T (by rw [pinv.1]; exact h1)] at hr; simp [TState.empty] at hr
  exact owner_of_mem_pool pok hT (pinv.mem_pool_of_running hr)

theorem kindOfH_of_owner {c : Wiring} {h : HandlerId} {E : TaggerIdx} (ho : owner c.wires h = some E) :
    kindOfH c h = (c.tagger E).kind := by
  unfold kindOfH; rw [ho]

/-! ### runs of the mediator loop, extended at the end -/

theorem run_snoc {κ : Type} {M : MWire} {I : SchedI κ} {st st1 st2 : MedState I.σ} {os : List (Oracle κ)}
    {cs : List (Committed κ)} {o : Oracle κ} {c : Committed κ} (hr : Run M I st os cs st1)
    (hl : leg M I st1 o = .ok (st2, c)) : Run M I st (os ++ [o]) (cs ++ [c]) st2 := by
  induction hr with
  | nil st => exact .cons hl (.nil _)
  | cons hleg _ ih => exact .cons hleg (ih hl)

theorem pendOf_snoc {κ : Type} (p : Pend κ) (cs : List (Committed κ)) (c : Committed κ) :
    pendOf p (cs ++ [c]) = pendAfter (pendOf p cs) c := by
  simp [pendOf, List.foldl_append]

theorem lastOf_snoc {κ : Type} (l : κ) (cs : List (Committed κ)) (c : Committed κ) :
    lastOf l (cs ++ [c]) = c.time := by
  simp [lastOf, List.foldl_append]

end JF.Sys
