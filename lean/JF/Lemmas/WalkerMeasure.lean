import JF.Lemmas.WalkerBuild
import Mathlib.MeasureTheory.Measure.Lebesgue.Basic
/-!
Helper lemmas for C18: the Lebesgue measure of the set of real draws on which a table row returns a given item.
-/
namespace JF.Walker
open MeasureTheory

/-- a row of the exact table read over the reals (so that the draw can be any real number) -/
def Item.toReal (it : Item ℚ) : Item ℝ := ⟨it.item, (it.rate : ℝ)⟩

def Row.toReal : Row ℚ → Row ℝ
  | .pair s l => .pair s.toReal l.toReal
  | .single x => .single x.toReal

/-- the set of real draws `x ∈ (0, m]` on which `sample_cell`, having chosen `row`, returns item `i` -/
noncomputable def drawSet (m : ℚ) (row : Row ℚ) (i : Nat) : Set ℝ :=
  {x : ℝ | 0 < x ∧ x ≤ (m : ℝ) ∧ sampleRow row.toReal x = .ok i}

theorem drawSet_pair (m : ℚ) (s l : Item ℚ) (i : Nat) (hrow : RowOK m (.pair s l)) :
    drawSet m (.pair s l) i =
      (if s.item = i then Set.Ioc (0 : ℝ) s.rate else ∅) ∪ (if l.item = i then Set.Ioc (s.rate : ℝ) m else ∅) := by
  obtain ⟨h0, hm, -, -⟩ := hrow
  have h0' : (0 : ℝ) ≤ s.rate := by exact_mod_cast h0
  have hm' : (s.rate : ℝ) ≤ m := by exact_mod_cast hm
  ext x
  simp only [drawSet, Row.toReal, Item.toReal, sampleRow, Set.mem_ofPred_eq, Set.mem_union]
  by_cases hx : x ≤ (s.rate : ℝ)
  · by_cases h1 : s.item = i <;> by_cases h2 : l.item = i <;>
      simp [hx, h1, h2, Set.mem_Ioc, not_lt.mpr hx] <;> intro _ <;> linarith
  · by_cases h1 : s.item = i <;> by_cases h2 : l.item = i <;>
      simp [hx, h1, h2, Set.mem_Ioc, not_le.mp hx] <;> intro _ <;> linarith [not_le.mp hx]

theorem drawSet_single (m : ℚ) (y : Item ℚ) (i : Nat) (hrow : RowOK m (.single y)) :
    drawSet m (.single y) i = if y.item = i then Set.Ioc (0 : ℝ) m else ∅ := by
  have hy : y.rate = m := hrow
  ext x
  simp only [drawSet, Row.toReal, Item.toReal, sampleRow, Set.mem_ofPred_eq, hy]
  by_cases hx : x ≤ (m : ℝ) <;> by_cases h1 : y.item = i <;> simp [hx, h1, Set.mem_Ioc]

/-- **the Lebesgue measure of the set of draws on which a row returns item `i` is `contrib i row`** -/
theorem volume_drawSet (m : ℚ) (row : Row ℚ) (i : Nat) (hrow : RowOK m row) :
    volume (drawSet m row i) = ENNReal.ofReal ((contrib i row : ℚ) : ℝ) := by
  cases row with
  | pair s l =>
    rw [drawSet_pair m s l i hrow]
    obtain ⟨h0, hm, hl, hne⟩ := hrow
    by_cases h1 : s.item = i
    · have h2 : ¬ l.item = i := fun h => hne (h1.trans h.symm)
      simp only [h1, h2, if_true, if_false, Set.union_empty, contrib, add_zero, Real.volume_Ioc, sub_zero]
    · by_cases h2 : l.item = i
      · simp only [h1, h2, if_true, if_false, Set.empty_union, contrib, zero_add, Real.volume_Ioc, hl]
        push_cast; rfl
      · simp [h1, h2, contrib]
  | single y =>
    rw [drawSet_single m y i hrow]
    have hy : y.rate = m := hrow
    by_cases h1 : y.item = i
    · simp only [h1, if_true, contrib, Real.volume_Ioc, sub_zero, hy]
    · simp [h1, contrib]

theorem volume_drawSet_toReal (m : ℚ) (hm : 0 ≤ m) (row : Row ℚ) (i : Nat) (hrow : RowOK m row) :
    (volume (drawSet m row i)).toReal = ((contrib i row : ℚ) : ℝ) := by
  rw [volume_drawSet m row i hrow, ENNReal.toReal_ofReal]
  have : 0 ≤ contrib i row := by
    cases row with
    | pair s l =>
      obtain ⟨h0, h1, hl, -⟩ := hrow
      simp only [contrib, hl]
      have : 0 ≤ m - s.rate := by linarith
      split <;> split <;> linarith
    | single y =>
      have hy : y.rate = m := hrow
      simp only [contrib, hy]; split <;> linarith
  exact_mod_cast this

end JF.Walker
