import JF.Lemmas.HeapBasic
/-! `insert` of the model of `heap.c` preserves the heap invariant and adds exactly the new entry. -/
namespace JF.Heap
variable {κ : Type} {cfg : Cfg κ}

/-- the set-up part of `insert` (post-increment of `length`, reallocation, sentinel) -/
def prep (cfg : Cfg κ) (hp : CHeap κ) : CHeap κ × Nat :=
  let position := hp.length
  let hp := { hp with length := hp.length + 1 }
  if hp.length + 1 > hp.mem.size then
    let oldSize := hp.mem.size
    let newSize := if oldSize != 0 then oldSize * 2 else 64
    let hp := { hp with mem := grow cfg hp.mem newSize }
    if oldSize == 0 then
      let hp := set hp 0 (nullEntry cfg)
      ({ hp with length := hp.length + 1 }, position + 1)
    else (hp, position)
  else (hp, position)

theorem insert_eq (cfg : Cfg κ) (hp : CHeap κ) (k : κ) (h c : Nat) :
    insert cfg hp k h c =
      set (insertLoop cfg k ((prep cfg hp).2 + 1) (prep cfg hp).1 (prep cfg hp).2).1
        (insertLoop cfg k ((prep cfg hp).2 + 1) (prep cfg hp).1 (prep cfg hp).2).2 ⟨k, h, c⟩ := by
  rfl

attribute [local irreducible] grow

structure PrepSpec (cfg : Cfg κ) (hp hp1 : CHeap κ) (p : Nat) : Prop where
  nf : hp1.fault = false
  len : hp1.length = p + 1
  sz : p + 2 ≤ hp1.mem.size
  szmono : hp.mem.size ≤ hp1.mem.size
  p1 : 1 ≤ p
  pdef : p = if hp.length = 0 then 1 else hp.length
  bot : (get cfg hp1 0).key = cfg.bot
  same : ∀ i, 1 ≤ i → i < p → get cfg hp1 i = get cfg hp i

theorem prep_spec {hp : CHeap κ} (hw : WF cfg hp) : PrepSpec cfg hp (prep cfg hp).1 (prep cfg hp).2 := by
  obtain ⟨hnf, h | ⟨h1, h2, h3⟩⟩ := hw
  · obtain ⟨hl, hs⟩ := h
    have : prep cfg hp = ({ set { hp with length := 1, mem := grow cfg hp.mem 64 } 0 (nullEntry cfg) with length := 2 }, 1) := by
      simp [prep, hl, hs]
    rw [this]
    refine ⟨?_, ?_, ?_, ?_, ?_, ?_, ?_, ?_⟩
    · show (set _ 0 _).fault = false
      rw [fault_set _ _ (by simp)]; exact hnf
    · rfl
    · show 1 + 2 ≤ (set _ 0 _).mem.size
      simp
    · show hp.mem.size ≤ (set _ 0 _).mem.size
      simp [hs]
    · omega
    · simp [hl]
    · show (get cfg (set _ 0 _) 0).key = _
      rw [get_set]; simp [nullEntry]
    · intro i h1 h2; omega
  · by_cases hg : hp.length + 1 + 1 > hp.mem.size
    · have hs0 : hp.mem.size ≠ 0 := by omega
      have : prep cfg hp = ({ hp with length := hp.length + 1, mem := grow cfg hp.mem (hp.mem.size * 2) }, hp.length) := by
        simp [prep, hg, hs0]
      rw [this]
      refine ⟨hnf, rfl, by simp; omega, by simp; omega, h1, by simp; omega, ?_, ?_⟩
      · have := get_grow cfg { hp with length := hp.length + 1 } (hp.mem.size * 2) 0 (by simp; omega)
        simp only [get] at this h3 ⊢; rw [this]; exact h3
      · intro i _ _
        have := get_grow cfg { hp with length := hp.length + 1 } (hp.mem.size * 2) i (by simp; omega)
        simp only [get] at this ⊢; rw [this]
    · have : prep cfg hp = ({ hp with length := hp.length + 1 }, hp.length) := by
        simp [prep, hg]
      rw [this]
      exact ⟨hnf, rfl, by simp; omega, by simp, h1, by simp; omega, h3, fun i _ _ => rfl⟩

theorem insert_spec (o : StrictWeak cfg) {hp : CHeap κ} (k : κ) (h c : Nat) (hI : Inv cfg hp) :
    Inv cfg (insert cfg hp k h c) ∧
    (∀ e, Mem cfg (insert cfg hp k h c) e ↔ e = ⟨k, h, c⟩ ∨ Mem cfg hp e) ∧
    (insert cfg hp k h c).length = (if hp.length = 0 then 2 else hp.length + 1) ∧
    hp.mem.size ≤ (insert cfg hp k h c).mem.size := by
  obtain ⟨hw, ho⟩ := hI
  have P := prep_spec hw
  rw [insert_eq]
  generalize (prep cfg hp).1 = hp1 at P ⊢
  generalize (prep cfg hp).2 = p at P ⊢
  have hlen : hp.length ≠ 0 → p = hp.length := by intro h; have := P.pdef; simp [h] at this; exact this
  have hlen0 : hp.length = 0 → p = 1 := by intro h; have := P.pdef; simp [h] at this; exact this
  have U : UpInv cfg k (p + 1) (Mem cfg hp) hp1 p := by
    refine ⟨P.nf, P.len, by have := P.sz; omega, P.p1, by omega, P.bot, ?_, ?_, ?_⟩
    · intro i h1 hL hne hne2
      have hip : i < p := by omega
      rw [P.same i h1 hip]
      by_cases hl0 : hp.length = 0
      · have := hlen0 hl0; omega
      · by_cases h2 : i / 2 = 0
        · rw [h2, P.bot]; exact o.bot_min _
        · rw [P.same (i / 2) (by omega) (by omega)]
          exact ho i h1 (by have := hlen hl0; omega)
    · intro c hL hc; have := P.p1; omega
    · intro e
      constructor
      · rintro ⟨i, h1, hL, hne, he⟩
        have hip : i < p := by omega
        rw [P.same i h1 hip] at he
        by_cases hl0 : hp.length = 0
        · have := hlen0 hl0; omega
        · exact ⟨i, h1, by have := hlen hl0; omega, he⟩
      · rintro ⟨i, h1, hL, he⟩
        have := hlen (by omega)
        exact ⟨i, h1, by omega, by omega, by rw [P.same i h1 (by omega)]; exact he⟩
  obtain ⟨V, hex⟩ := insertLoop_spec o k (p + 1) (Mem cfg hp) (p + 1) hp1 p (by omega) U
  have hsz := insertLoop_size (cfg := cfg) k (p + 1) hp1 p
  generalize (insertLoop cfg k (p + 1) hp1 p).1 = hp2 at V hex hsz ⊢
  generalize (insertLoop cfg k (p + 1) hp1 p).2 = q at V hex ⊢
  have hqs : q < hp2.mem.size := by have := V.sz; have := V.posL; omega
  have hg : ∀ j, get cfg (set hp2 q ⟨k, h, c⟩) j = if j = q then ⟨k, h, c⟩ else get cfg hp2 j :=
    fun j => get_set_lt hp2 j _ hqs
  refine ⟨⟨⟨?_, Or.inr ⟨?_, ?_, ?_⟩⟩, ?_⟩, ?_, ?_, ?_⟩
  · rw [fault_set _ _ hqs]; exact V.nf
  · simp [V.len]
  · simp [V.len]; exact V.sz
  · rw [hg]; have := V.pos1; simp only [show (0:Nat) ≠ q by omega, if_false]; exact V.bot
  · intro i h1 hL
    simp only [length_set, V.len] at hL
    rw [hg, hg]
    by_cases hiq : i = q
    · subst hiq
      have : i / 2 ≠ i := by omega
      simp only [this, if_true, if_false]; exact hex
    · simp only [hiq, if_false]
      by_cases h2 : i / 2 = q
      · simp only [h2, if_true]; exact (V.b i hL h2).1
      · simp only [h2, if_false]; exact V.a i h1 hL hiq h2
  · intro e
    rw [← V.cont e]
    constructor
    · rintro ⟨i, h1, hL, he⟩
      simp only [length_set, V.len] at hL
      rw [hg] at he
      by_cases hiq : i = q
      · simp only [hiq, if_true] at he; exact Or.inl he.symm
      · simp only [hiq, if_false] at he; exact Or.inr ⟨i, h1, hL, hiq, he⟩
    · rintro (he | ⟨i, h1, hL, hne, he⟩)
      · exact ⟨q, V.pos1, by simp [V.len]; exact V.posL, by rw [hg]; simp [he]⟩
      · exact ⟨i, h1, by simp [V.len]; exact hL, by rw [hg]; simp only [hne, if_false]; exact he⟩
  · simp only [length_set, V.len]
    by_cases hl0 : hp.length = 0
    · simp [hl0, hlen0 hl0]
    · simp [hl0, hlen hl0]
  · have := P.szmono; simp; omega
end JF.Heap
