/-
The bookkeeping invariant (no handler lost or duplicated) and the freshness invariant of C09 for the TagActivator model.
Core Lean only.
-/
import JF.Lemmas.ActivatorBasic
namespace JF.Act

/-! ### list helpers -/

theorem nodup_flatMap_of {α β : Type} {f : α → List β} {l : List α} (nd : l.Nodup)
    (h1 : ∀ x ∈ l, (f x).Nodup) (h2 : ∀ x ∈ l, ∀ y ∈ l, x ≠ y → ∀ a ∈ f x, a ∉ f y) : (l.flatMap f).Nodup := by
  induction l with
  | nil => simp
  | cons x l ih =>
    rw [List.flatMap_cons, List.nodup_append]
    obtain ⟨hx, ndl⟩ := List.nodup_cons.mp nd
    refine ⟨h1 x List.mem_cons_self, ih ndl (fun y hy => h1 y (List.mem_cons_of_mem _ hy))
      (fun y hy z hz => h2 y (List.mem_cons_of_mem _ hy) z (List.mem_cons_of_mem _ hz)), ?_⟩
    intro a ha b hb hab
    obtain ⟨y, hy, hby⟩ := List.mem_flatMap.mp hb
    have hne : x ≠ y := fun hc => hx (hc ▸ hy)
    exact h2 x List.mem_cons_self y (List.mem_cons_of_mem _ hy) hne a ha (hab ▸ hby)

/-! ### pools -/

/-- the handler pools of a wiring: each without duplicates, pairwise disjoint
(`TagActivator._event_handlers` is the concatenation of the taggers' handler lists, all distinct objects) -/
def PoolsOK (w : Wires) : Prop :=
  (∀ i, (getW w i).pool.Nodup) ∧ ∀ i j, i ≠ j → ∀ h, h ∈ (getW w i).pool → h ∉ (getW w j).pool

/-- bookkeeping invariant: for every tagger `running ++ notRunning` is a permutation of its pool -/
def PoolInv (w : Wires) (s : Act) : Prop :=
  s.length = w.length ∧ ∀ j, ((getT s j).running ++ (getT s j).notRunning).Perm (getW w j).pool

theorem getT_initAct (w : Wires) (j : TaggerIdx) :
    getT (initAct w) j = if j < w.length then ⟨true, [], (getW w j).pool⟩ else TState.empty := by
  unfold getT getW initAct
  by_cases h : j < w.length
  · simp [h]
  · simp [h, List.getElem?_eq_none (Nat.le_of_not_lt h)]

theorem poolInv_init (w : Wires) : PoolInv w (initAct w) := by
  refine ⟨by simp [initAct], fun j => ?_⟩
  rw [getT_initAct]
  by_cases h : j < w.length
  · simp [h]
  · have : getW w j = TWire.empty := by unfold getW; simp [List.getElem?_eq_none (Nat.le_of_not_lt h)]
    simp [h, TState.empty, this, TWire.empty]

theorem perm_popMany {t t' : TState} {ys : List IdTuple} {out : List (HandlerId × IdTuple)}
    (e : popMany t ys = some (t', out)) : (t'.running ++ t'.notRunning).Perm (t.running ++ t.notRunning) := by
  obtain ⟨h1, h2, _, _⟩ := popMany_some e
  rw [h1, h2, List.append_assoc]
  apply List.Perm.append_left
  exact (List.perm_append_comm.trans (List.Perm.append_left _ (List.reverse_perm _).symm))

theorem perm_trashed (t : TState) : ((trashed t).running ++ (trashed t).notRunning).Perm (t.running ++ t.notRunning) := by
  simp only [trashed, List.nil_append]
  exact List.perm_append_comm

theorem poolInv_applyActivation {w : Wires} {s : Act} (E : TaggerIdx) (h : PoolInv w s) :
    PoolInv w (applyActivation w s E) := by
  refine ⟨by rw [applyActivation_length]; exact h.1, fun j => ?_⟩
  rw [applyActivation_running, applyActivation_notRunning]; exact h.2 j

theorem poolInv_createLoop {w : Wires} {yields : TaggerIdx → List IdTuple} {Ts : List TaggerIdx} {s s' : Act}
    {out : List (HandlerId × IdTuple)} (h : PoolInv w s) (e : createLoop yields s Ts = some (s', out)) : PoolInv w s' := by
  refine ⟨by rw [createLoop_length e]; exact h.1, ?_⟩
  exact createLoop_inv (P := fun j t => (t.running ++ t.notRunning).Perm (getW w j).pool)
    (fun j t ys t' out hp e => (perm_popMany e).trans hp) h.2 e

theorem poolInv_trashLoop {w : Wires} {s : Act} (Ts : List TaggerIdx) (h : PoolInv w s) : PoolInv w (trashLoop s Ts).1 := by
  refine ⟨by rw [trashLoop_length]; exact h.1, ?_⟩
  exact trashLoop_inv (P := fun j t => (t.running ++ t.notRunning).Perm (getW w j).pool)
    (fun j t hp => (perm_trashed t).trans hp) Ts h.2

theorem poolInv_update {w : Wires} {s s' : Act} {E : TaggerIdx} {yields : TaggerIdx → List IdTuple}
    {out : List (HandlerId × IdTuple)} (h : PoolInv w s) (e : update w s E yields = some (s', out)) : PoolInv w s' :=
  poolInv_createLoop (poolInv_applyActivation E h) e

theorem poolInv_first {w : Wires} {s s' : Act} {S : TaggerIdx} {yields : TaggerIdx → List IdTuple}
    {out : List (HandlerId × IdTuple)} (h : PoolInv w s) (e : first w s S yields = some (s', out)) : PoolInv w s' :=
  poolInv_createLoop (poolInv_applyActivation S h) e

theorem poolInv_trash {w : Wires} {s : Act} (E : TaggerIdx) (h : PoolInv w s) : PoolInv w (trash w s E).1 :=
  poolInv_trashLoop _ h

/-- consequences of the invariant: running and not-running handlers of a tagger are distinct members of its pool -/
theorem PoolInv.nodup {w : Wires} {s : Act} (h : PoolInv w s) (pok : PoolsOK w) (j : TaggerIdx) :
    ((getT s j).running ++ (getT s j).notRunning).Nodup := (h.2 j).nodup_iff.mpr (pok.1 j)

theorem PoolInv.mem_pool_of_running {w : Wires} {s : Act} (h : PoolInv w s) {j : TaggerIdx} {x : HandlerId}
    (hx : x ∈ (getT s j).running) : x ∈ (getW w j).pool :=
  (h.2 j).mem_iff.mp (List.mem_append_left _ hx)

theorem PoolInv.mem_pool_of_notRunning {w : Wires} {s : Act} (h : PoolInv w s) {j : TaggerIdx} {x : HandlerId}
    (hx : x ∈ (getT s j).notRunning) : x ∈ (getW w j).pool :=
  (h.2 j).mem_iff.mp (List.mem_append_right _ hx)

/-! ### keys of the handlers a create loop returns -/

theorem outOf_keys_sub {yields : TaggerIdx → List IdTuple} {s : Act} {T : TaggerIdx} {x : HandlerId}
    (hx : x ∈ (outOf yields s T).map Prod.fst) : x ∈ (getT s T).notRunning := by
  unfold outOf at hx
  cases h1 : popMany (getT s T) (yieldEff (getT s T) (yields T)) with
  | none => rw [h1] at hx; simp at hx
  | some p =>
    rw [h1] at hx
    obtain ⟨a, _, _, _⟩ := popMany_some (t' := p.1) (out := p.2) h1
    rw [a]; exact List.mem_append_right _ (List.mem_reverse.mpr hx)

theorem outOf_keys_nodup {yields : TaggerIdx → List IdTuple} {s : Act} {T : TaggerIdx}
    (nd : (getT s T).notRunning.Nodup) : ((outOf yields s T).map Prod.fst).Nodup := by
  unfold outOf
  cases h1 : popMany (getT s T) (yieldEff (getT s T) (yields T)) with
  | none => simp
  | some p =>
    obtain ⟨a, _, _, _⟩ := popMany_some (t' := p.1) (out := p.2) h1
    rw [a] at nd
    have := (List.nodup_append.mp nd).2.1
    exact ((List.reverse_perm _).nodup_iff).mp this

/-- the handlers returned by `update`/`first` are pairwise distinct, each was not running before (it sat in the
not-running list of a listed tagger) -/
theorem createLoop_keys {w : Wires} {yields : TaggerIdx → List IdTuple} {Ts : List TaggerIdx} {s s' : Act}
    {out : List (HandlerId × IdTuple)} (pok : PoolsOK w) (pinv : PoolInv w s) (nd : Ts.Nodup)
    (hr : ∀ T ∈ Ts, T < s.length) (e : createLoop yields s Ts = some (s', out)) :
    (out.map Prod.fst).Nodup ∧ ∀ x ∈ out.map Prod.fst, ∃ T ∈ Ts, x ∈ (getT s T).notRunning := by
  obtain ⟨ho, _⟩ := createLoop_some nd hr e
  rw [ho, List.map_flatMap]
  constructor
  · apply nodup_flatMap_of nd
    · intro T _
      exact outOf_keys_nodup ((List.nodup_append.mp (pinv.nodup pok T)).2.1)
    · intro T _ U _ hne a ha hb
      exact pok.2 T U hne a (pinv.mem_pool_of_notRunning (outOf_keys_sub ha)) (pinv.mem_pool_of_notRunning (outOf_keys_sub hb))
  · intro x hx
    obtain ⟨T, hT, hxT⟩ := List.mem_flatMap.mp hx
    exact ⟨T, hT, outOf_keys_sub hxT⟩

/-! ### identifier tuples attached to handlers -/

/-- `dictionary[handler] = identifiers` for every returned pair, in order (a later pair overrides an earlier one) -/
def assign (ids : HandlerId → IdTuple) : List (HandlerId × IdTuple) → HandlerId → IdTuple
  | [] => ids
  | p :: ps => assign (fun h => if h = p.1 then p.2 else ids h) ps

theorem assign_not_mem {ids : HandlerId → IdTuple} {ps : List (HandlerId × IdTuple)} {h : HandlerId}
    (hn : h ∉ ps.map Prod.fst) : assign ids ps h = ids h := by
  induction ps generalizing ids with
  | nil => rfl
  | cons p ps ih =>
    simp only [List.map_cons, List.mem_cons, not_or] at hn
    rw [assign, ih hn.2]; simp [hn.1]

theorem assign_mem {ids : HandlerId → IdTuple} {ps : List (HandlerId × IdTuple)} (nd : (ps.map Prod.fst).Nodup)
    {p : HandlerId × IdTuple} (hp : p ∈ ps) : assign ids ps p.1 = p.2 := by
  induction ps generalizing ids with
  | nil => simp at hp
  | cons q ps ih =>
    simp only [List.map_cons, List.nodup_cons] at nd
    rcases List.mem_cons.mp hp with rfl | hp
    · rw [assign, assign_not_mem nd.1]; simp
    · rw [assign]; exact ih nd.2 hp

/-! ### the freshness invariant -/

/-- the abstract world of a run: global states `G`, what each tagger generates from scratch on a state, and the
comparison the property makes per tagger (`view T` = identity for interaction-type taggers, constant for the count-only ones) -/
structure World (G : Type) where
  yieldOf : TaggerIdx → G → List IdTuple
  view : TaggerIdx → IdTuple → IdTuple
  /-- the taggers the property speaks about (all but the start-of-run tagger) -/
  live : TaggerIdx → Prop

/-- activator + the identifier tuples the pending handlers were created with + the current global state -/
structure RS (G : Type) where
  act : Act
  ids : HandlerId → IdTuple
  g : G

/-- C09 for tagger `T`: the multiset of (views of) in-state identifier tuples of the pending events equals what the
tagger generates from scratch for the current state (nothing if deactivated) -/
def Fresh {G : Type} (W : World G) (rs : RS G) (T : TaggerIdx) : Prop :=
  ((getT rs.act T).running.map fun h => W.view T (rs.ids h)).Perm
    ((yieldEff (getT rs.act T) (W.yieldOf T rs.g)).map (W.view T))

/-- one leg of the mediator loop seen from the activator: the event of tagger `E` is committed (global state becomes
`g'`), `get_trashable_events`, then `get_event_handlers_to_run` on the new state -/
def commit {G : Type} (w : Wires) (W : World G) (rs : RS G) (E : TaggerIdx) (g' : G) : Option (RS G) :=
  match update w (trash w rs.act E).1 E (fun T => W.yieldOf T g') with
  | none => none
  | some r => some ⟨r.1, assign rs.ids r.2, g'⟩

/-- what tagger `T` generates from scratch after the commit of `E` -/
def yieldAfter {G : Type} (w : Wires) (W : World G) (rs : RS G) (E : TaggerIdx) (g' : G) (T : TaggerIdx) : List IdTuple :=
  if actAfter w E T (getT rs.act T).activated then W.yieldOf T g' else []

/-- hypotheses about ONE commit (DESIGN §5 C09, clauses (a)–(c)) -/
structure StepOK {G : Type} (w : Wires) (W : World G) (rs : RS G) (E : TaggerIdx) (g' : G) : Prop where
  a : ∀ T, W.live T → T ∈ (getW w E).creates → T ∉ (getW w E).trashes → (getT rs.act T).running = []
  b : ∀ T, W.live T → T ∈ (getW w E).trashes → T ∉ (getW w E).creates → yieldAfter w W rs E g' T = []
  c : ∀ T, W.live T → T ∉ (getW w E).trashes → T ∉ (getW w E).creates →
        ((yieldAfter w W rs E g' T).map (W.view T)).Perm
          ((yieldEff (getT rs.act T) (W.yieldOf T rs.g)).map (W.view T))

/-- static well-formedness of the create lists -/
def WFw (w : Wires) : Prop := ∀ E, (getW w E).creates.Nodup ∧ ∀ T ∈ (getW w E).creates, T < w.length

theorem commit_poolInv {G : Type} {w : Wires} {W : World G} {rs rs' : RS G} {E : TaggerIdx} {g' : G}
    (pinv : PoolInv w rs.act) (e : commit w W rs E g' = some rs') : PoolInv w rs'.act := by
  unfold commit at e
  cases h : update w (trash w rs.act E).1 E (fun T => W.yieldOf T g') with
  | none => rw [h] at e; simp at e
  | some r =>
    rw [h] at e; simp only [Option.some.injEq] at e; rw [← e]
    exact poolInv_update (poolInv_trash E pinv) h

/-- core of the induction step: after a commit every live tagger is fresh, provided (a) created-but-not-trashed taggers had
nothing pending, (b) trashed-but-not-created taggers yield nothing afterwards, (c') untouched taggers' pending tuples already
match what they yield afterwards -/
theorem fresh_commit {G : Type} {w : Wires} {W : World G} {rs rs' : RS G} {E : TaggerIdx} {g' : G}
    (wf : WFw w) (pok : PoolsOK w) (pinv : PoolInv w rs.act)
    (oka : ∀ T, W.live T → T ∈ (getW w E).creates → T ∉ (getW w E).trashes → (getT rs.act T).running = [])
    (okb : ∀ T, W.live T → T ∈ (getW w E).trashes → T ∉ (getW w E).creates → yieldAfter w W rs E g' T = [])
    (okc : ∀ T, W.live T → T ∉ (getW w E).trashes → T ∉ (getW w E).creates →
        ((getT rs.act T).running.map fun h => W.view T (rs.ids h)).Perm ((yieldAfter w W rs E g' T).map (W.view T)))
    (e : commit w W rs E g' = some rs') : ∀ T, W.live T → Fresh W rs' T := by
  intro T hlive
  unfold commit at e
  cases hu : update w (trash w rs.act E).1 E (fun T => W.yieldOf T g') with
  | none => rw [hu] at e; simp at e
  | some r =>
  rw [hu] at e; simp only [Option.some.injEq] at e; subst e
  obtain ⟨s2, created⟩ := r
  -- names for the intermediate states
  have hs1 : PoolInv w (trash w rs.act E).1 := poolInv_trash E pinv
  have hs1a : PoolInv w (applyActivation w (trash w rs.act E).1 E) := poolInv_applyActivation E hs1
  unfold update at hu
  have hlen : (applyActivation w (trash w rs.act E).1 E).length = w.length := hs1a.1
  have hr : ∀ U ∈ (getW w E).creates, U < (applyActivation w (trash w rs.act E).1 E).length := by
    intro U hU; rw [hlen]; exact (wf E).2 U hU
  obtain ⟨hout, hpop⟩ := createLoop_some (wf E).1 hr hu
  obtain ⟨knd, ksub⟩ := createLoop_keys pok hs1a (wf E).1 hr hu
  unfold Fresh
  simp only []
  rcases Nat.lt_or_ge T w.length with hT | hT
  case inr =>
    -- out of range: nothing runs, nothing is yielded
    have hge : s2.length ≤ T := by rw [createLoop_length hu, hlen]; exact hT
    rw [getT_of_le s2 T hge]; simp [TState.empty, yieldEff]
  have hTs : T < rs.act.length := by rw [pinv.1]; exact hT
  have hT1 : T < (trash w rs.act E).1.length := by rw [hs1.1]; exact hT
  -- the tagger's state after trash + activation
  have hact1 : (getT (trash w rs.act E).1 T).activated = (getT rs.act T).activated := trashLoop_activated _ _ _
  have h1a : getT (applyActivation w (trash w rs.act E).1 E) T =
      { getT (trash w rs.act E).1 T with activated := actAfter w E T (getT rs.act T).activated } := by
    rw [getT_applyActivation _ _ _ _ hT1, hact1]
  by_cases hc : T ∈ (getW w E).creates
  · -- created: the pending handlers are exactly the popped ones, carrying the yielded tuples
    have hp := hpop T hc
    obtain ⟨_, p2, p3, p4⟩ := popMany_some hp
    have hrun0 : (getT (applyActivation w (trash w rs.act E).1 E) T).running = [] := by
      rw [applyActivation_running]
      by_cases ht : T ∈ (getW w E).trashes
      · rw [trash, trashLoop_mem _ _ ht hTs]; rfl
      · rw [trash, trashLoop_frame _ _ ht]; exact oka T hlive hc ht
    rw [hrun0, List.nil_append] at p2
    have hy : yieldEff (getT s2 T) (W.yieldOf T g') =
        yieldEff (getT (applyActivation w (trash w rs.act E).1 E) T) (W.yieldOf T g') := by
      unfold yieldEff; rw [p4]
    rw [p2, hy, ← p3, List.map_map, List.map_map]
    apply List.Perm.of_eq
    apply List.map_congr_left
    intro p hp'
    have hmem : p ∈ created := by rw [hout]; exact List.mem_flatMap.mpr ⟨T, hc, hp'⟩
    simp only [Function.comp]
    rw [assign_mem knd hmem]
  · -- not created: untouched by the create loop
    rw [createLoop_frame hu hc, h1a]
    by_cases ht : T ∈ (getW w E).trashes
    · have : (getT (trash w rs.act E).1 T).running = [] := by rw [trash, trashLoop_mem _ _ ht hTs]; rfl
      have hb := okb T hlive ht hc
      unfold yieldAfter at hb
      simp only [this, List.map_nil, yieldEff]
      rw [hb]; simp
    · have hsame : getT (trash w rs.act E).1 T = getT rs.act T := by rw [trash, trashLoop_frame _ _ ht]
      rw [hsame]
      have hcc := okc T hlive ht hc
      unfold yieldAfter at hcc
      simp only [yieldEff] at hcc ⊢
      refine List.Perm.trans (List.Perm.of_eq ?_) hcc
      apply List.map_congr_left
      intro x hx
      have hnk : x ∉ created.map Prod.fst := by
        intro hk
        obtain ⟨U, hU, hxU⟩ := ksub x hk
        have hUT : U ≠ T := fun h => hc (h ▸ hU)
        have hx1 : x ∈ (getW w T).pool := pinv.mem_pool_of_running hx
        have hx2 : x ∈ (getW w U).pool := hs1a.mem_pool_of_notRunning hxU
        exact pok.2 U T hUT x hx2 hx1
      rw [assign_not_mem hnk]

/-- **the induction step of C09**: a commit that satisfies `StepOK` keeps every live tagger fresh -/
theorem fresh_step {G : Type} {w : Wires} {W : World G} {rs rs' : RS G} {E : TaggerIdx} {g' : G}
    (wf : WFw w) (pok : PoolsOK w) (pinv : PoolInv w rs.act) (fr : ∀ T, W.live T → Fresh W rs T)
    (ok : StepOK w W rs E g') (e : commit w W rs E g' = some rs') : ∀ T, W.live T → Fresh W rs' T :=
  fresh_commit wf pok pinv ok.a ok.b
    (fun T hl ht hc => (fr T hl).trans (ok.c T hl ht hc).symm) e

/-- hypotheses about the commit of the start-of-run event (clause (g)): every live tagger is created by the start-of-run
tagger or generates nothing on the state after the start -/
def StartOK {G : Type} (w : Wires) (W : World G) (rs : RS G) (S : TaggerIdx) (g' : G) : Prop :=
  ∀ T, W.live T → T ∈ (getW w S).creates ∨ yieldAfter w W rs S g' T = []

/-- **base case**: before the start-of-run event only the start-of-run tagger has a pending handler; after its commit
every live tagger is fresh -/
theorem fresh_start {G : Type} {w : Wires} {W : World G} {rs rs' : RS G} {S : TaggerIdx} {g' : G}
    (wf : WFw w) (pok : PoolsOK w) (pinv : PoolInv w rs.act)
    (empty : ∀ T, W.live T → (getT rs.act T).running = [])
    (ok : StartOK w W rs S g') (e : commit w W rs S g' = some rs') : ∀ T, W.live T → Fresh W rs' T := by
  refine fresh_commit wf pok pinv (fun T hl _ _ => empty T hl) ?_ ?_ e
  · intro T hl _ hc
    rcases ok T hl with h | h
    · exact absurd h hc
    · exact h
  · intro T hl _ hc
    rcases ok T hl with h | h
    · exact absurd h hc
    · rw [empty T hl, h]; exact List.Perm.refl _

end JF.Act
