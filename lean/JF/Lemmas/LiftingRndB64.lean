import JF.Lemmas.RoundedBinary
import Mathlib.Tactic.NormNum
/-!
Concrete evaluations of `FloatModel.binary64.rnd` (IEEE-754 binary64, round to nearest even, as constructed and proved
in `JF/Lemmas/RoundedBinary.lean`) that `JF/Props/C05Float.lean` needs to run the witness of the outside-first
fall-through finding of C05 inside the rounding-abstract reading `R binary64`:

* `binary64u_rnd_unit` : RNE of a rational in `[1, 2)` is `rneInt (x · 2^52) / 2^52`;
* `x55 = 3·2^-55`, `e52 = 2^-52`; `rnd_one_add_x55 : fl(1 + 3·2^-55) = 1` (three eighths of an ulp: down),
  `rnd_one_add_x55x : fl(1 + 3·2^-54) = 1 + 2^-52` (three quarters of an ulp: up); the membership facts.
-/
namespace JF.Lifting

/-- binary64 RNE of a number in `[1, 2)`: round `x·2^52` to the nearest integer, ties to even -/
theorem binary64u_rnd_unit {x : ℚ} (h1 : 1 ≤ x) (h2 : x < 2) :
    FloatModel.binary64u.rnd x = (rneInt (x * 2 ^ 52) : ℚ) / 2 ^ 52 := by
  have hl : lg x = 0 := lg_eq (k := 0) (by rw [abs_of_nonneg (by linarith)]; simpa using h1)
    (by rw [abs_of_nonneg (by linarith)]; simpa using h2)
  have he : ex 53 (-1074) x = -52 := by simp [ex, hl]
  show brnd rne 53 (-1074) x = _
  simp only [brnd, he, rne]
  rw [zpow_neg]
  rw [div_inv_eq_mul, div_eq_mul_inv]
  rfl

/-- the saturation at `maxDouble` does not touch small results -/
theorem binary64_rnd_of_u {x y : ℚ} (h : FloatModel.binary64u.rnd x = y) (hy : |y| ≤ 2) :
    FloatModel.binary64.rnd x = y := by
  show max (-maxDouble) (min maxDouble (FloatModel.binary64u.rnd x)) = y
  have hB : (2 : ℚ) ≤ maxDouble :=
    le_trans (by simpa using pow_le_pow_right₀ (by norm_num : (1:ℚ) ≤ 2) (by norm_num : 1 ≤ 1023)) maxDouble_ge
  rw [h]
  have := abs_le.mp hy
  rw [min_eq_right (by linarith), max_eq_right (by linarith)]

/-- `1.5·2^-54`, three eighths of an ulp of `1.0` -/
def x55 : ℚ := 3 / 2 ^ 55
/-- the ulp of `1.0` -/
def e52 : ℚ := 1 / 2 ^ 52

theorem rnd_one_add_x55 : FloatModel.binary64.rnd (1 + x55) = 1 := by
  apply binary64_rnd_of_u _ (by norm_num)
  rw [binary64u_rnd_unit (by norm_num [x55]) (by norm_num [x55])]
  have : rneInt ((1 + x55) * 2 ^ 52) = 2 ^ 52 := by
    unfold rneInt x55
    norm_num
  rw [this]; norm_num

theorem rnd_one_add_x55x : FloatModel.binary64.rnd (1 + (x55 + x55)) = 1 + e52 := by
  apply binary64_rnd_of_u _ (by norm_num [e52])
  rw [binary64u_rnd_unit (by norm_num [x55]) (by norm_num [x55])]
  have : rneInt ((1 + (x55 + x55)) * 2 ^ 52) = 2 ^ 52 + 1 := by
    unfold rneInt x55
    norm_num
  rw [this]; norm_num [e52]

theorem x55_pos : 0 < x55 := by norm_num [x55]
theorem x55_mem : x55 ∈ FloatModel.binary64.F :=
  binary64_mem 3 (-55) (by norm_num) (by norm_num) (by rw [x55, zpow_neg]; norm_num) (by norm_num [x55])
theorem x55x_mem : x55 + x55 ∈ FloatModel.binary64.F :=
  binary64_mem 3 (-54) (by norm_num) (by norm_num) (by rw [x55, zpow_neg]; norm_num) (by norm_num [x55])
theorem one_add_e52_mem : 1 + e52 ∈ FloatModel.binary64.F :=
  binary64_mem (2 ^ 52 + 1) (-52) (by norm_num) (by norm_num) (by rw [e52, zpow_neg]; norm_num)
    (by norm_num [e52])

end JF.Lifting
