import JF.Lemmas.Periodic
/-!
Rounding-abstract reading of the scalar layer for C15.

`RQ R` are rational numbers whose `+` and `-` round their exact result with an arbitrary *monotone, idempotent*
rounding function `R.rnd : ℚ → ℚ` (every IEEE-754 rounding mode restricted to the range without overflow is one;
this is NOT proved here about Lean's `Float`, it is the standard abstraction).  `fmod` is exact, as in C.
The model functions `wrap` / `wrapSep` of `JF.Model.Periodic` are instantiated at this scalar type unchanged.
-/
namespace JF.Periodic
open JF

/-- an abstract rounding: monotone and idempotent -/
structure Rnd where
  rnd : ℚ → ℚ
  mono : ∀ {a b : ℚ}, a ≤ b → rnd a ≤ rnd b
  idem : ∀ a : ℚ, rnd (rnd a) = rnd a

/-- `a` is representable -/
def Rnd.Rep (R : Rnd) (a : ℚ) : Prop := R.rnd a = a

theorem Rnd.rep_rnd (R : Rnd) (a : ℚ) : R.Rep (R.rnd a) := R.idem a

/-- rationals with rounded addition and subtraction -/
structure RQ (R : Rnd) where
  val : ℚ

namespace RQ
variable {R : Rnd}
instance : Add (RQ R) := ⟨fun a b => ⟨R.rnd (a.val + b.val)⟩⟩
instance : Sub (RQ R) := ⟨fun a b => ⟨R.rnd (a.val - b.val)⟩⟩
instance : LT (RQ R) := ⟨fun a b => a.val < b.val⟩
instance : DecidableLT (RQ R) := fun a b => inferInstanceAs (Decidable (a.val < b.val))
instance : BEq (RQ R) := ⟨fun a b => a.val == b.val⟩
@[simp] theorem add_val (a b : RQ R) : (a + b).val = R.rnd (a.val + b.val) := rfl
@[simp] theorem sub_val (a b : RQ R) : (a - b).val = R.rnd (a.val - b.val) := rfl
@[simp] theorem lt_iff (a b : RQ R) : a < b ↔ a.val < b.val := Iff.rfl
@[simp] theorem bne_iff (a b : RQ R) : (a != b) = (a.val != b.val) := rfl
end RQ

/-- the scalar operations over `RQ R`: exact `fmod` (C semantics), signed zeros not distinguished -/
def opsRq (R : Rnd) : Ops (RQ R) where
  ofInt n := ⟨(n : ℚ)⟩
  floor x := ⟨(⌊x.val⌋ : ℚ)⟩
  fmod x y := ⟨Ops.rat.fmod x.val y.val⟩
  toInt x := Rat.trunc x.val
  isInf _ := false
  zeroLike _ := ⟨0⟩
  sqrt x := x

/-- Python's `x % L` in rounded arithmetic is the exact result, rounded ONCE
(given that `fmod`'s exact result is representable, which holds for binary floating point) -/
theorem rq_pymod (R : Rnd) (x L : RQ R) (h0 : R.Rep 0) (hm : R.Rep (Ops.rat.fmod x.val L.val)) :
    (pymod (opsRq R) x L).val = R.rnd (pymod Ops.rat x.val L.val) := by
  unfold pymod
  simp only [opsRq, RQ.bne_iff, RQ.lt_iff, rat_ofInt, rat_zeroLike, Int.cast_zero]
  by_cases hz : Ops.rat.fmod x.val L.val = 0
  · simp [hz]
    exact h0.symm
  · by_cases hneg : (decide (L.val < 0) != decide (Ops.rat.fmod x.val L.val < 0)) = true
    · simp [hz, hneg]
    · simp [hz, hneg]
      exact hm.symm

/-- `fmod` leaves a number of `[0, L)` alone -/
theorem fmod_rat_fixed {y L : ℚ} (h0 : 0 ≤ y) (h1 : y < L) : Ops.rat.fmod y L = y := by
  have hL : 0 < L := lt_of_le_of_lt h0 h1
  have hq : 0 ≤ y / L := div_nonneg h0 hL.le
  rw [fmod_rat_nonneg hq]
  have : ⌊y / L⌋ = 0 := by
    rw [Int.floor_eq_iff]; constructor
    · simpa using hq
    · simp; rw [div_lt_one hL]; exact h1
  rw [this]; simp

end JF.Periodic
