import JF.Model.CellTaggers
import JF.Model.FactorMaps
import JF.Lemmas.FactorCells
import JF.Lemmas.FactorMaps
/-!
Definitions used in the statements of `JF/Props/C10.lean` and the helper lemmas of their proofs
(everything that is not itself a statement of property C10).
-/
namespace JF.C10
open JF.CellTaggers

/-- the cells of the grid that are not nearby `c`, in grid order -/
def nonNearby (g : Grid) (c : Cell) : List Cell := (allCells g.n).filter fun x => !(isNearby g c x)

theorem nodup_nonNearby (g : Grid) (c : Cell) : (nonNearby g c).Nodup :=
  (nodup_allCells g.n).filter _

theorem vetoDomain_eq (g : Grid) : vetoDomain g = nonNearby g (zeroCell g.n) := by
  simp [vetoDomain, vetoDomainKeyed, nonNearby, List.map_map, Function.comp_def]

theorem vetoArgs_filterMap (s : Occ) (c : Cell) : (vetoArgs s c).filterMap id = s.occ c := by
  unfold vetoArgs
  split
  · rename_i h
    have : s.occ c = [] := by simpa using h
    simp [this]
  · induction s.occ c with
    | nil => rfl
    | cons x xs ih => simp

theorem targetsVeto_eq (g : Grid) (s : Occ) (ac : Cell) (a : Ident) (h : s.active = some (ac, a)) :
    targetsVeto g s = ((vetoDomain g).map (translate g.n ac)).flatMap s.occ := by
  simp only [targetsVeto, vetoTargets, h]
  induction vetoDomain g with
  | nil => rfl
  | cons r rs ih =>
    simp only [List.map_cons, List.flatMap_cons]
    rw [ih, vetoArgs_filterMap]

theorem flatMap_filter_nonempty {α β : Type} (f : α → List β) (p : α → Bool) (l : List α) :
    (l.filter fun c => !(f c).isEmpty && p c).flatMap f = (l.filter p).flatMap f := by
  induction l with
  | nil => rfl
  | cons x xs ih =>
    by_cases hp : p x = true <;> by_cases he : (f x).isEmpty = true
    · have : f x = [] := by simpa using he
      simp [hp, ih, this]
    · simp [hp, he, ih]
    · simp [hp, he, ih]
    · simp [hp, he, ih]

theorem targetsBounding_eq (g : Grid) (s : Occ) (ac : Cell) (a : Ident) (h : s.active = some (ac, a)) :
    targetsBounding g s = (nonNearby g ac).flatMap s.occ := by
  simp only [targetsBounding, cellBoundingTagger, h, nonNearby]
  rw [← flatMap_filter_nonempty s.occ (fun x => !(isNearby g ac x))]
  induction (allCells g.n).filter fun c => !(s.occ c).isEmpty && !(isNearby g ac c) with
  | nil => rfl
  | cons x xs ih => simp [List.flatMap_cons, ih]

theorem pairTargets_pairs {α : Type} (a : Ident) (f : α → List Ident) (l : List α) :
    pairTargets (l.flatMap fun x => (f x).map fun o => [a, o]) = l.flatMap f := by
  have inner : ∀ ys : List Ident, (ys.map fun o => [a, o]).flatMap List.tail = ys := by
    intro ys
    induction ys with
    | nil => rfl
    | cons y ys ih => simp [List.flatMap_cons, ih]
  induction l with
  | nil => rfl
  | cons x xs ih =>
    simp only [pairTargets] at ih ⊢
    simp [List.flatMap_cons, List.flatMap_append, inner, ih]

theorem targetsExcluded_eq (g : Grid) (s : Occ) (ac : Cell) (a : Ident) (h : s.active = some (ac, a)) :
    targetsExcluded g s = (nearby g ac).flatMap s.occ := by
  simp only [targetsExcluded, excludedCellsTagger, h]
  exact pairTargets_pairs a s.occ _

theorem targetsSurplus_eq (s : Occ) (ac : Cell) (a : Ident) (h : s.active = some (ac, a)) :
    targetsSurplus s = s.yieldSurplus := by
  simp only [targetsSurplus, surplusCellsTagger, h]
  induction s.yieldSurplus with
  | nil => rfl
  | cons x xs ih =>
    simp only [pairTargets] at ih ⊢
    simp [List.flatMap_cons, ih]

open JF.FactorMaps

/-- the other composite objects, in the order of `range(number_of_root_nodes)` -/
def others (s : Setting) (r : Nat) : List Nat := (List.range s.nRoots).filter fun o => o != r

/-- `ty` is an inter-object factor type of the file: one of its lines names a point mass of the
second composite object -/
def InterType (s : Setting) (lines : List Line) (ty : String) : Prop :=
  ∃ S ∈ linesOf lines ty, ∃ t ∈ S, s.nPer ≤ t

/-- `ty` is an intra-object factor type of the file: it occurs, and all its lines stay within the
first composite object -/
def IntraType (s : Setting) (lines : List Line) (ty : String) : Prop :=
  linesOf lines ty ≠ [] ∧ ∀ S ∈ linesOf lines ty, ∀ t ∈ S, t < s.nPer

theorem match_lookup_eq_getL {β : Type} (m : IndexMap) (i : Nat) (f : List Nat → β) :
    (match m.lookup i with | none => [] | some ls => ls.map f) = (getL m i).map f := by
  unfold getL
  cases m.lookup i <;> rfl

/-- the dictionary entry of a type that occurs in an accepted file -/
theorem lookup_of_lines {s : Setting} {lines : List Line} {fs : Factors} {ty : String}
    (h : instantiate s lines [] = .ok fs) (hne : linesOf lines ty ≠ []) :
    ∃ tm, fs.lookup ty = some tm ∧ GoodTy s (linesOf lines ty) tm := by
  have hg := good_of_instantiate h
  cases hl : fs.lookup ty with
  | none => exact absurd (hg.1 _ hl) hne
  | some tm => exact ⟨tm, rfl, hg.2 _ _ hl⟩

theorem instFun_injective (n r o : Nat) (hor : o ≠ r) :
    Function.Injective fun t : Nat => if t < n then [r, t] else [o, t - n] := by
  intro t t' h
  dsimp only at h
  split at h <;> split at h <;> simp only [List.cons.injEq, and_true] at h
  · exact h.2
  · exact absurd h.1.symm hor
  · exact absurd h.1 hor
  · omega

theorem inst_injective (n r o : Nat) (hor : o ≠ r) : Function.Injective (inst n r o) :=
  List.map_injective_iff.mpr (instFun_injective n r o hor)

/-- an instantiated line that reaches into the other composite object tells which one it is -/
theorem inst_other_eq {n r o o' : Nat} {S S' : List Nat} (hor : o ≠ r) (t : Nat) (ht : t ∈ S) (htn : n ≤ t)
    (h : inst n r o S = inst n r o' S') : o = o' := by
  have hm : [o, t - n] ∈ inst n r o S := by
    simp only [inst, List.mem_map]
    exact ⟨t, ht, by simp [Nat.not_lt.mpr htn]⟩
  rw [h] at hm
  simp only [inst, List.mem_map] at hm
  obtain ⟨t', _, ht'⟩ := hm
  split at ht' <;> simp only [List.cons.injEq, and_true] at ht'
  · exact absurd ht'.1.symm hor
  · exact ht'.1.symm

theorem inst_same_injOn (n r : Nat) : ∀ (S S' : List Nat), (∀ t ∈ S, t < n) → (∀ t ∈ S', t < n) →
    inst n r r S = inst n r r S' → S = S'
  | [], [], _, _, _ => rfl
  | [], _ :: _, _, _, h => by simp [inst] at h
  | _ :: _, [], _, _, h => by simp [inst] at h
  | t :: S, t' :: S', hS, hS', h => by
    simp only [inst, List.map_cons, List.cons.injEq] at h
    have h1 := hS t (by simp)
    have h2 := hS' t' (by simp)
    simp only [h1, h2, if_true, List.cons.injEq, and_true, true_and] at h
    rw [h.1, inst_same_injOn n r S S' (fun x hx => hS x (by simp [hx])) (fun x hx => hS' x (by simp [hx])) h.2]

theorem yieldAll_ok {s : Setting} {fs : Factors} {ty : String} : ∀ {leaves : List FactorMaps.Ident} {l : List InState},
    yieldAll s fs ty leaves = .ok l →
    ∀ f, f ∈ l ↔ ∃ leaf ∈ leaves, ∃ l', yieldFactor s fs ty leaf = .ok l' ∧ f ∈ l'
  | [], l, h, f => by
    simp only [yieldAll] at h
    injection h with h
    subst h; simp
  | a :: rest, l, h, f => by
    simp only [yieldAll] at h
    split at h
    · cases h
    · rename_i la hla
      split at h
      · cases h
      · rename_i lr hlr
        injection h with h
        subst h
        rw [List.mem_append, yieldAll_ok hlr f]
        constructor
        · rintro (hf | ⟨leaf, hleaf, l', hl', hf⟩)
          · exact ⟨a, by simp, la, hla, hf⟩
          · exact ⟨leaf, by simp [hleaf], l', hl', hf⟩
        · rintro ⟨leaf, hleaf, l', hl', hf⟩
          rcases List.mem_cons.mp hleaf with rfl | hleaf
          · rw [hla] at hl'; injection hl' with hl'; subst hl'; exact Or.inl hf
          · exact Or.inr ⟨leaf, hleaf, l', hl', hf⟩

theorem yieldAll_error {s : Setting} {fs : Factors} {ty : String} : ∀ {leaves : List FactorMaps.Ident} {e : String},
    yieldAll s fs ty leaves = .error e → ∃ leaf ∈ leaves, yieldFactor s fs ty leaf = .error e
  | [], e, h => by simp [yieldAll] at h
  | a :: rest, e, h => by
    simp only [yieldAll] at h
    split at h
    · rename_i e' he'
      injection h with h
      subst h; exact ⟨a, by simp, he'⟩
    · split at h
      · rename_i e' he'
        injection h with h
        subst h
        obtain ⟨leaf, hleaf, hl⟩ := yieldAll_error he'
        exact ⟨leaf, by simp [hleaf], hl⟩
      · cases h

/-- a parsed factor file is well formed for composite objects of `n` point masses: every index
addresses one of two composite objects, and the lines of one factor type are either all
intra-object or all inter-object -/
def WellFormed (n : Nat) (lines : List Line) : Prop :=
  (∀ ln ∈ lines, ∀ i ∈ ln.idx, i < 2 * n) ∧
  (∀ ln ∈ lines, ∀ ln' ∈ lines, ln.ty = ln'.ty → isLocalLine n ln.idx = isLocalLine n ln'.idx)

instance (n : Nat) (lines : List Line) : Decidable (WellFormed n lines) := by
  unfold WellFormed; infer_instance

theorem mem_linesOf {lines : List Line} {ty : String} {S : List Nat} :
    S ∈ linesOf lines ty ↔ ∃ ln ∈ lines, ln.ty = ty ∧ ln.idx = S := by
  simp only [linesOf, List.mem_map, List.mem_filter, beq_iff_eq]
  constructor
  · rintro ⟨ln, ⟨h1, h2⟩, h3⟩; exact ⟨ln, h1, h2, h3⟩
  · rintro ⟨ln, h1, h2, h3⟩; exact ⟨ln, ⟨h1, h2⟩, h3⟩

theorem instantiate_bound {s : Setting} : ∀ {lines : List Line} {fs fs' : Factors},
    instantiate s lines fs = .ok fs' → ∀ ln ∈ lines, ∀ i ∈ ln.idx, i < 2 * s.nPer
  | [], _, _, _, ln, hln => by simp at hln
  | l0 :: rest, fs, fs', h, ln, hln => by
    simp only [instantiate] at h
    split at h
    · cases h
    · rename_i fs1 h1
      rcases List.mem_cons.mp hln with rfl | hln
      · intro i hi
        unfold addLine at h1
        split at h1
        · cases h1
        · rename_i hany
          simp only [List.any_eq_true, not_exists, not_and, decide_eq_true_eq] at hany
          have := hany i hi
          omega
      · exact instantiate_bound h ln hln

theorem addLine_ok_of {s : Setting} {seen : List Line} {fs : Factors} {ln : Line}
    (hg : Good s seen fs) (hb : ∀ i ∈ ln.idx, i < 2 * s.nPer)
    (hc : ∀ ln' ∈ seen, ln'.ty = ln.ty → isLocalLine s.nPer ln'.idx = isLocalLine s.nPer ln.idx) :
    ∃ fs', addLine s fs ln = .ok fs' := by
  unfold addLine
  have hany : ¬ (ln.idx.any fun i => decide (i ≥ 2 * s.nPer)) = true := by
    simp only [List.any_eq_true, not_exists, not_and, decide_eq_true_eq]
    intro i hi; have := hb i hi; omega
  rw [if_neg hany]
  cases hfl : fs.lookup ln.ty with
  | none => simp [setLocal]
  | some tm0 =>
    have g0 := hg.2 _ _ hfl
    obtain ⟨b0, hb0, hall⟩ := g0.loc
    obtain ⟨S, hS⟩ := List.exists_mem_of_ne_nil _ g0.nonempty
    obtain ⟨ln', hln', hty, rfl⟩ := mem_linesOf.mp hS
    have h1 := hall _ hS
    have h2 := hc ln' hln' hty
    have hbb : ((ln.idx.all fun i => decide (i < s.nPer)) != b0) = false := by
      have : (ln.idx.all fun i => decide (i < s.nPer)) = b0 := by
        rw [← h1, h2]; rfl
      simp [this]
    simp [setLocal, hb0, hbb]

theorem instantiate_ok_of {s : Setting} : ∀ {lines seen : List Line} {fs : Factors},
    Good s seen fs → WellFormed s.nPer (seen ++ lines) → ∃ fs', instantiate s lines fs = .ok fs'
  | [], _, fs, _, _ => ⟨fs, rfl⟩
  | ln :: rest, seen, fs, hg, hw => by
    have hmem : ln ∈ seen ++ ln :: rest := by simp
    obtain ⟨fs1, h1⟩ := addLine_ok_of (ln := ln) hg (hw.1 ln hmem)
      (fun ln' hln' hty => hw.2 ln' (by simp [hln']) ln hmem hty)
    have hg1 := good_addLine hg h1
    have hw1 : WellFormed s.nPer ((seen ++ [ln]) ++ rest) := by simpa using hw
    obtain ⟨fs', h'⟩ := instantiate_ok_of hg1 hw1
    exact ⟨fs', by simp only [instantiate, h1, h']⟩

/-- the additional tidiness the "exactly once" reading needs: every line is an index *set*, no
line is repeated within its type, and every intra-object type mentions every point mass of the
composite object (otherwise the real code raises `KeyError` for the unmentioned one) -/
def Tidy (n : Nat) (lines : List Line) : Prop :=
  (∀ ln ∈ lines, ln.idx.Nodup) ∧ (∀ ln ∈ lines, (linesOf lines ln.ty).Nodup) ∧
  (∀ ln ∈ lines, isLocalLine n ln.idx = true → ∀ i < n, ∃ S ∈ linesOf lines ln.ty, i ∈ S)

instance (n : Nat) (lines : List Line) : Decidable (Tidy n lines) := by
  unfold Tidy; infer_instance

/-! ### the same factor seen from its other composite object -/

/-- a line with the roles of the two composite objects exchanged -/
def mirror (n : Nat) (S : List Nat) : List Nat := S.map fun t => if t < n then t + n else t - n

/-- every line of the type is present (up to the order of its indices) with exchanged roles -/
def Mirrored (n : Nat) (lines : List Line) (ty : String) : Prop :=
  ∀ S ∈ linesOf lines ty, ∃ S' ∈ linesOf lines ty, S'.Perm (mirror n S)

instance (n : Nat) (lines : List Line) (ty : String) : Decidable (Mirrored n lines ty) := by
  unfold Mirrored; infer_instance

theorem inst_mirror (n r o : Nat) (S : List Nat) (hS : ∀ t ∈ S, t < 2 * n) :
    inst n o r (mirror n S) = inst n r o S := by
  simp only [inst, mirror, List.map_map]
  apply List.map_congr_left
  intro t ht
  have := hS t ht
  simp only [Function.comp]
  by_cases h : t < n
  · have h2 : ¬ t + n < n := by omega
    simp [h, h2]
  · have h2 : t - n < n := by omega
    simp [h, h2]

end JF.C10
