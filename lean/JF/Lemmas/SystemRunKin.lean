import JF.Lemmas.Kinematics
import JF.Lemmas.ConcreteWorld
import Mathlib.Algebra.Order.Floor.Ring
/-!
Kinematic lemmas for the composed system: time slices compose exactly (exact reading), the one-mover invariant `KinI` of the
point-mass chain machine with the mover's position, velocity and time stamp explicit, the active units of such a state, and
what `SingleActiveCellOccupancy.update` records as the active cell.
-/
namespace JF.Sys
open JF JF.Kin JF.C14 JF.CW

/-! ### time slices compose -/

theorem pywrap_pywrap_add (x y L : ℚ) (hL : 0 < L) :
    pywrap Ops.rat (pywrap Ops.rat x L + y) L = pywrap Ops.rat (x + y) L := by
  rw [pywrap_rat_pos _ _ hL, pywrap_rat_pos _ _ hL, pywrap_rat_pos _ _ hL]
  have hne : L ≠ 0 := ne_of_gt hL
  have : (x - L * ⌊x / L⌋ + y) / L = (x + y) / L - (⌊x / L⌋ : ℤ) := by
    field_simp; ring
  rw [this, Int.floor_sub_intCast]
  push_cast; ring

theorem sliceCoord_comp (L p v a b : ℚ) (hL : 0 < L) :
    sliceCoord Ops.rat L (sliceCoord Ops.rat L p v a) v b = sliceCoord Ops.rat L p v (a + b) := by
  unfold sliceCoord
  rw [pywrap_pywrap_add _ _ _ hL]
  congr 1; ring

theorem sliceVec_comp : ∀ (L P V : List ℚ) (a b : ℚ), PosBox L → P.length = L.length → V.length = L.length →
    sliceVec Ops.rat L (sliceVec Ops.rat L P V a) V b = sliceVec Ops.rat L P V (a + b)
  | [], [], [], _, _, _, _, _ => rfl
  | [], [], _ :: _, _, _, _, _, h => by simp at h
  | [], _ :: _, _, _, _, _, h, _ => by simp at h
  | _ :: _, [], _, _, _, _, h, _ => by simp at h
  | _ :: _, _ :: _, [], _, _, _, _, h => by simp at h
  | l :: L, p :: P, v :: V, a, b, hL, h, h' => by
      simp only [sliceVec]
      rw [sliceCoord_comp l p v a b (hL l (by simp)),
        sliceVec_comp L P V a b (fun x hx => hL x (by simp [hx])) (by simpa using h) (by simpa using h')]

/-- slicing an in-box position by `0` does nothing -/
theorem sliceCoord_zero (L p v : ℚ) (hL : 0 < L) (h0 : 0 ≤ p) (h1 : p < L) : sliceCoord Ops.rat L p v 0 = p := by
  unfold sliceCoord
  rw [pywrap_rat_pos _ _ hL]
  have : ⌊(p + v * 0) / L⌋ = 0 := by
    rw [Int.floor_eq_iff]
    refine ⟨by simpa using div_nonneg h0 hL.le, ?_⟩
    rw [div_lt_iff₀ hL]; simpa using h1
  rw [this]; simp

theorem sliceVec_zero : ∀ (L P V : List ℚ), PosBox L → InBox L P → V.length = L.length →
    sliceVec Ops.rat L P V 0 = P
  | [], [], [], _, _, _ => rfl
  | [], [], _ :: _, _, _, h => by simp at h
  | [], _ :: _, _, _, h, _ => by simp [InBox] at h
  | _ :: _, [], _, _, h, _ => by simp [InBox] at h
  | _ :: _, _ :: _, [], _, _, h => by simp at h
  | l :: L, p :: P, v :: V, hL, h, h' => by
      simp only [sliceVec]
      rw [sliceCoord_zero l p v (hL l (by simp)) h.1.1 h.1.2,
        sliceVec_zero L P V (fun x hx => hL x (by simp [hx])) h.2 (by simpa using h')]

/-! ### the one-mover invariant -/

/-- exactly unit `a` moves, from position `pos` with velocity `v` since time `ts`; every unit is well-formed and in the box -/
def KinI (L : List ℚ) (us : List (PUnit ℚ)) (a : Nat) (pos v : List ℚ) (ts : Time ℚ) : Prop :=
  (∃ ua, us[a]? = some ua ∧ ua.pos = pos ∧ ua.vel = some v ∧ ua.ts = some ts) ∧
  ∀ i u, us[i]? = some u → WFU L.length u ∧ InBox L u.pos ∧ (i ≠ a → u.vel = none)

theorem KinI.lt {L : List ℚ} {us : List (PUnit ℚ)} {a : Nat} {pos v : List ℚ} {ts : Time ℚ} (h : KinI L us a pos v ts) :
    a < us.length := by
  obtain ⟨⟨ua, hua, _⟩, _⟩ := h
  exact (List.getElem?_eq_some_iff.mp hua).1

theorem KinI.vlen {L : List ℚ} {us : List (PUnit ℚ)} {a : Nat} {pos v : List ℚ} {ts : Time ℚ} (h : KinI L us a pos v ts) :
    v.length = L.length ∧ pos.length = L.length ∧ InBox L pos := by
  obtain ⟨⟨ua, hua, hp, hv, _⟩, hall⟩ := h
  obtain ⟨hw, hb, _⟩ := hall a ua hua
  exact ⟨hw.2.2 v hv, hp ▸ hw.1, hp ▸ hb⟩

theorem KinI.activeIdx {L : List ℚ} {us : List (PUnit ℚ)} {a : Nat} {pos v : List ℚ} {ts : Time ℚ}
    (h : KinI L us a pos v ts) : activeIdx us = some a := by
  have ha := h.lt
  obtain ⟨⟨ua, hua, _, hv, _⟩, hall⟩ := h
  unfold Kin.activeIdx
  rw [List.findIdx?_eq_some_iff_getElem]
  refine ⟨ha, ?_, ?_⟩
  · have : us[a] = ua := by rw [List.getElem?_eq_getElem ha] at hua; exact Option.some.inj hua
    simp [isMoving, this, hv]
  · intro j hj
    have := (hall j us[j] (by simp [show j < us.length by omega])).2.2 (by omega)
    simp [isMoving, this]

/-- the active units of such a state -/
theorem KinI.movers {L : List ℚ} {us : List (PUnit ℚ)} {a : Nat} {pos v : List ℚ} {ts : Time ℚ}
    (h : KinI L us a pos v ts) : movers us = [a] := by
  have ha := h.lt
  obtain ⟨⟨ua, hua, _, hv, _⟩, hall⟩ := h
  have key : ∀ n, ((List.range n).filter fun i => (us[i]?).any Kin.isMoving) = if a < n then [a] else [] := by
    intro n
    induction n with
    | zero => simp
    | succ n ih =>
      rw [List.range_succ, List.filter_append, ih]
      by_cases hn : n = a
      · subst hn
        simp [hua, isMoving, hv]
      · have hrest : (us[n]?).any Kin.isMoving = false := by
          cases hu : us[n]? with
          | none => rfl
          | some u => simp [isMoving, (hall n u hu).2.2 hn]
        simp only [List.filter_cons, hrest, List.filter_nil, List.append_nil]
        by_cases h1 : a < n
        · simp [h1, show a < n + 1 by omega]
        · simp [h1, show ¬ a < n + 1 by omega]
  unfold CW.movers
  rw [key, if_pos ha]

theorem KinI.slice {L : List ℚ} {us : List (PUnit ℚ)} {a : Nat} {pos v : List ℚ} {ts : Time ℚ}
    (h : KinI L us a pos v ts) (hL : PosBox L) (t : Time ℚ) :
    KinI L (us.map (timeSlice Ops.rat L t)) a (sliceVec Ops.rat L pos v (Time.sub t ts)) v t := by
  obtain ⟨⟨ua, hua, hp, hv, hts⟩, hall⟩ := h
  refine ⟨⟨timeSlice Ops.rat L t ua, by rw [List.getElem?_map, hua]; rfl, ?_, ?_, ?_⟩, ?_⟩
  · rw [timeSlice_of_moving L t ua hv hts, hp]
  · rw [timeSlice_of_moving L t ua hv hts]
  · rw [timeSlice_of_moving L t ua hv hts]
  · intro i u' hi
    rw [List.getElem?_map] at hi
    cases hu : us[i]? with
    | none => simp [hu] at hi
    | some u =>
      simp only [hu, Option.map_some, Option.some.injEq] at hi
      subst hi
      obtain ⟨h1, h2, h3⟩ := hall i u hu
      refine ⟨timeSlice_wfu L t u h1, ?_, fun hne => by rw [timeSlice_vel]; exact h3 hne⟩
      cases hvu : u.vel with
      | none => rw [timeSlice_of_rest L t u hvu]; exact h2
      | some w =>
        cases hsu : u.ts with
        | none => have := h1.2.1; simp [hvu, hsu] at this
        | some s => exact timeSlice_pos_inBox t hL h1 hvu hsu

theorem KinI.step_keep {L : List ℚ} {us : List (PUnit ℚ)} {a : Nat} {pos v : List ℚ} {ts : Time ℚ}
    (h : KinI L us a pos v ts) (hL : PosBox L) (t : Time ℚ) :
    KinI L (step Ops.rat L us (.keep t)) a (sliceVec Ops.rat L pos v (Time.sub t ts)) v t := h.slice hL t

theorem KinI.step_snap {L : List ℚ} {us : List (PUnit ℚ)} {a : Nat} {pos v : List ℚ} {ts : Time ℚ}
    (h : KinI L us a pos v ts) (hL : PosBox L) (t : Time ℚ) (d : Nat) (x : ℚ)
    (hx : ∀ hd : d < L.length, 0 ≤ x ∧ x < L[d]) :
    KinI L (step Ops.rat L us (.snap t d x)) a (setCoord (sliceVec Ops.rat L pos v (Time.sub t ts)) d x) v t := by
  obtain ⟨⟨ua, hua, hp, hv, hts⟩, hall⟩ := h.slice hL t
  simp only [step]
  refine ⟨⟨{ ua with pos := setCoord ua.pos d x }, ?_, by simp [hp], hv, hts⟩, ?_⟩
  · rw [List.getElem?_map, hua]
    simp [isMoving, hv]
  · intro i u' hi
    rw [List.getElem?_map] at hi
    cases hu : (us.map (timeSlice Ops.rat L t))[i]? with
    | none => simp [hu] at hi
    | some u =>
      simp only [hu, Option.map_some, Option.some.injEq] at hi
      subst hi
      obtain ⟨h1, h2, h3⟩ := hall i u hu
      split
      · exact ⟨⟨by simp [setCoord_length, h1.1], h1.2⟩, setCoord_inBox L u.pos d x h2 hx, h3⟩
      · exact ⟨h1, h2, h3⟩

/-- an accepted pair event: the target `b` moves on with the same velocity from where it stood -/
theorem KinI.step_lift {L : List ℚ} {us : List (PUnit ℚ)} {a : Nat} {pos v : List ℚ} {ts : Time ℚ}
    (h : KinI L us a pos v ts) (hL : PosBox L) (t : Time ℚ) (b : Nat) (hb : b < us.length) :
    ∃ pos', KinI L (step Ops.rat L us (.lift t b)) b pos' v t := by
  have hs := h.slice hL t
  have hact := hs.activeIdx
  obtain ⟨⟨ua, hua, hp, hv, hts⟩, hall⟩ := id hs
  simp only [step, hact, hua]
  by_cases hab : a = b
  · subst hab
    simp only [beq_self_eq_true, if_true]
    exact ⟨_, hs⟩
  · have : (a == b) = false := by simpa using hab
    simp only [this, Bool.false_eq_true, if_false]
    have hb' : b < (us.map (timeSlice Ops.rat L t)).length := by simpa using hb
    obtain ⟨hwb, hbb, hvb⟩ := hall b _ (List.getElem?_eq_getElem hb')
    refine ⟨((us.map (timeSlice Ops.rat L t))[b]).pos,
      ⟨⟨{ (us.map (timeSlice Ops.rat L t))[b] with vel := ua.vel, ts := ua.ts }, ?_, rfl, hv, hts⟩, ?_⟩⟩
    · rw [List.getElem?_modify, List.getElem?_modify]
      have hne : ¬ b = a := fun e => hab e.symm
      simp [List.getElem?_eq_getElem hb', hne, hab]
    · intro i u' hi
      simp only [List.getElem?_modify] at hi
      cases hu : (us.map (timeSlice Ops.rat L t))[i]? with
      | none => simp [hu] at hi
      | some u =>
        simp only [hu, Option.map_eq_map, Option.map_some, Option.some.injEq] at hi
        subst hi
        obtain ⟨h1, h2, h3⟩ := hall i u hu
        by_cases hib : i = b
        · subst hib
          have hne : ¬ a = i := hab
          simp only [hne, if_true, if_false]
          exact ⟨⟨h1.1, by simp [hv, hts], fun w hw => (hall a ua hua).1.2.2 w (by rw [← hw])⟩, h2,
            fun hc => absurd rfl hc⟩
        · have hne : ¬ b = i := fun e => hib e.symm
          simp only [hne, if_false]
          by_cases hia : i = a
          · subst hia
            simp only [if_true]
            exact ⟨stop_wfu u h1, h2, fun _ => rfl⟩
          · have hne' : ¬ a = i := fun e => hia e.symm
            simp only [hne', if_false]
            exact ⟨h1, h2, fun _ => h3 hia⟩

/-- end of chain: unit `b` moves on with the new velocity `w` -/
theorem KinI.step_endOfChain {L : List ℚ} {us : List (PUnit ℚ)} {a : Nat} {pos v : List ℚ} {ts : Time ℚ}
    (h : KinI L us a pos v ts) (hL : PosBox L) (t : Time ℚ) (b : Nat) (w : List ℚ) (hb : b < us.length)
    (hw : w.length = L.length) : ∃ pos', KinI L (step Ops.rat L us (.endOfChain t b w)) b pos' w t := by
  have hs := h.slice hL t
  have hact := hs.activeIdx
  obtain ⟨⟨ua, hua, hp, hv, hts⟩, hall⟩ := id hs
  simp only [step, hact]
  have hb' : b < (us.map (timeSlice Ops.rat L t)).length := by simpa using hb
  by_cases hab : a = b
  · subst hab
    simp only [beq_self_eq_true, if_true]
    refine ⟨ua.pos, ⟨⟨{ ua with vel := some w }, ?_, rfl, rfl, hts⟩, ?_⟩⟩
    · rw [List.getElem?_modify, hua]; simp
    · intro i u' hi
      simp only [List.getElem?_modify] at hi
      cases hu : (us.map (timeSlice Ops.rat L t))[i]? with
      | none => simp [hu] at hi
      | some u =>
        simp only [hu, Option.map_eq_map, Option.map_some, Option.some.injEq] at hi
        subst hi
        obtain ⟨h1, h2, h3⟩ := hall i u hu
        by_cases hia : i = a
        · subst hia
          simp only [if_true]
          have hu' : u = ua := by rw [hua] at hu; exact (Option.some.inj hu).symm
          subst hu'
          exact ⟨⟨h1.1, by simp [hts], fun w' hw' => by cases hw'; exact hw⟩, h2, fun hc => absurd rfl hc⟩
        · have hne' : ¬ a = i := fun e => hia e.symm
          simp only [hne', if_false]
          exact ⟨h1, h2, fun _ => h3 hia⟩
  · have : (a == b) = false := by simpa using hab
    simp only [this, Bool.false_eq_true, if_false]
    refine ⟨((us.map (timeSlice Ops.rat L t))[b]).pos,
      ⟨⟨{ (us.map (timeSlice Ops.rat L t))[b] with vel := some w, ts := some t }, ?_, rfl, rfl, rfl⟩, ?_⟩⟩
    · rw [List.getElem?_modify, List.getElem?_modify]
      have hne : ¬ a = b := hab
      simp [List.getElem?_eq_getElem hb', hne]
    · intro i u' hi
      simp only [List.getElem?_modify] at hi
      cases hu : (us.map (timeSlice Ops.rat L t))[i]? with
      | none => simp [hu] at hi
      | some u =>
        simp only [hu, Option.map_eq_map, Option.map_some, Option.some.injEq] at hi
        subst hi
        obtain ⟨h1, h2, h3⟩ := hall i u hu
        by_cases hib : i = b
        · subst hib
          have hne : ¬ a = i := hab
          simp only [hne, if_true, if_false]
          exact ⟨⟨h1.1, rfl, fun w' hw' => by cases hw'; exact hw⟩, h2, fun hc => absurd rfl hc⟩
        · have hne : ¬ b = i := fun e => hib e.symm
          simp only [hne, if_false]
          by_cases hia : i = a
          · subst hia
            simp only [if_true]
            exact ⟨stop_wfu u h1, h2, fun _ => rfl⟩
          · have hne' : ¬ a = i := fun e => hia e.symm
            simp only [hne', if_false]
            exact ⟨h1, h2, fun _ => h3 hia⟩

/-- the start-of-run event on a state at rest -/
theorem KinI.of_start {L : List ℚ} {us : List (PUnit ℚ)} (hwf : WF L us) (hbox : ∀ u ∈ us, InBox L u.pos)
    (hrest : ∀ u ∈ us, u.vel = none) (t : Time ℚ) (a : Nat) (v : List ℚ) (ha : a < us.length) (hv : v.length = L.length) :
    ∃ pos, KinI L (step Ops.rat L us (.start t a v)) a pos v t := by
  simp only [step]
  refine ⟨us[a].pos, ⟨⟨{ us[a] with vel := some v, ts := some t }, ?_, rfl, rfl, rfl⟩, ?_⟩⟩
  · rw [List.getElem?_modify, List.getElem?_eq_getElem ha]; simp
  · intro i u' hi
    simp only [List.getElem?_modify] at hi
    cases hu : us[i]? with
    | none => simp [hu] at hi
    | some u =>
      simp only [hu, Option.map_eq_map, Option.map_some, Option.some.injEq] at hi
      subst hi
      have hm : u ∈ us := List.mem_of_getElem? hu
      by_cases hia : i = a
      · subst hia
        simp only [if_true]
        exact ⟨⟨(hwf u hm).1, rfl, fun w' hw' => by cases hw'; exact hv⟩, hbox u hm, fun hc => absurd rfl hc⟩
      · have hne' : ¬ a = i := fun e => hia e.symm
        simp only [hne', if_false]
        exact ⟨hwf u hm, hbox u hm, fun _ => hrest u hm⟩

/-! ### the active cell `update` records -/

theorem activate_activeCell {s1 s' : Occ.State} {new : Occ.UnitIn} (h : Occ.activate s1 new = .ok s')
    (hr : new.relevant = true) : s'.activeCell = some new.cell := by
  unfold Occ.activate at h
  simp only [hr, if_true] at h
  split at h
  · split at h
    · cases h
    · injection h with h; subst h
      simp [(dropEmpty_active _ _).2]
  · split at h
    · cases h
    · split at h
      · injection h with h; subst h
        simp [(dropEmpty_active _ _).2]
      · cases h

/-- whatever branch `update` takes for a relevant unit: afterwards `_active_cell` is the cell of the position it was called with -/
theorem update_activeCell {s s' : Occ.State} {new : Occ.UnitIn} (h : Occ.update s new = .ok s')
    (hr : new.relevant = true) : s'.activeCell = some new.cell := by
  by_cases hid : s.activeId = some new.id
  · rw [update_same hid] at h
    injection h with h; subst h; rfl
  · unfold Occ.update at h
    have hne : (some new.id != s.activeId) = true := by
      simp only [bne_iff_ne, ne_eq]; exact fun e => hid e.symm
    simp only [hne, if_true] at h
    cases hre : Occ.reinsertOld s with
    | error e => rw [hre] at h; cases h
    | ok s1 => rw [hre] at h; exact activate_activeCell h hr

end JF.Sys
