import JF.Model.ConcreteWorld3
import JF.Lemmas.ConcreteWorld2Inv
/-
Lemmas for `JF/Props/Footprints3.lean`: the world of composite objects WITH cell-occupancy systems as a `JF.Act.World`.

* generic in the scalar type: what `SingleActiveCellOccupancy.update` does to ONE carried occupancy when the active unit on its cell
  level is / is not the same as before (`consistent_after`, `occ_after_same`, `veto_same`, `occ_quiet` — the counterparts of E8's lemmas,
  now for any cell level and any number of occupancies);
* exact reading: `St3` = E10's state (global state + ghost mode) + one `Occ.State` per internal state; `Inv3` = E10's invariant `CW2.Inv`
  ∧ every carried occupancy is consistent with the active unit on its level; `TrRaw3` = E10's transition `CW2.TrRaw2` + the activator's
  update of EVERY internal state + the history premise `StaysInRecordedCell` for every internal state `l` whose active cell the committing
  tagger does not affect according to the table (`affects · (.cell l) = false`); `trRaw3_inv`: the invariant is preserved.
-/
namespace JF.CW3
open JF JF.Act JF.Composite JF.C12

/-! ### one carried occupancy (any scalar type) -/

section
variable {α : Type}

theorem expected_some {rel : Nat → Bool} {acts : List Nat} {a : Nat} (h : expectedActive rel acts = some a) :
    acts = [a] ∧ rel a = true := by
  cases acts with
  | nil => cases h
  | cons b rest =>
    cases rest with
    | nil =>
      simp only [expectedActive] at h
      by_cases hr : rel b = true
      · simp only [hr, if_true, Option.some.injEq] at h; subst h; exact ⟨rfl, hr⟩
      · simp [hr] at h
    | cons _ _ => cases h

/-- what `occAfter … = some occ'` says -/
theorem occAfter_some {nPer : Nat} {oe : OccEnv α} {occ occ' : Occ.State} {cs' : List (CObj α)}
    (h : occAfter nPer oe occ cs' = some occ') :
    ∃ a, unitsOn nPer oe.level (CW2.flags cs') = [a] ∧ Occ.update occ (unitIn nPer oe cs' a) = .ok occ' := by
  unfold occAfter at h
  split at h
  · next a hm =>
    refine ⟨a, hm, ?_⟩
    split at h
    · next s hs => injection h with h; subst h; exact hs
    · cases h
  · cases h

/-- **a carried occupancy stays consistent**: after any commit + update, whatever the event was -/
theorem consistent_after {nPer : Nat} {oe : OccEnv α} {occ occ' : Occ.State} {cs cs' : List (CObj α)}
    (hc : ConsistentOcc oe.relevant (unitsOn nPer oe.level (CW2.flags cs)) occ)
    (ho : occAfter nPer oe occ cs' = some occ') :
    ConsistentOcc oe.relevant (unitsOn nPer oe.level (CW2.flags cs')) occ' := by
  obtain ⟨a, hm, hu⟩ := occAfter_some ho
  obtain ⟨h1, h2⟩ := CW.update_active hu
  refine ⟨?_, h2⟩
  rw [h1, hm]
  simp only [unitIn, expectedActive]
  by_cases hid : occ.activeId = some a
  · have hr : oe.relevant a = true := (expected_some (hc.1 ▸ hid)).2
    simp [hid, hr]
  · by_cases hr : oe.relevant a = true <;> simp [hid, hr]

/-- a commit that keeps the active unit on the cell level: the occupancy is unchanged except for `_active_cell`, or is unchanged -/
theorem occ_after_same {nPer : Nat} {oe : OccEnv α} {occ occ' : Occ.State} {cs cs' : List (CObj α)}
    (hc : ConsistentOcc oe.relevant (unitsOn nPer oe.level (CW2.flags cs)) occ)
    (ho : occAfter nPer oe occ cs' = some occ')
    (hm : unitsOn nPer oe.level (CW2.flags cs') = unitsOn nPer oe.level (CW2.flags cs)) :
    ∃ a, unitsOn nPer oe.level (CW2.flags cs') = [a] ∧
      ((oe.relevant a = true ∧ occ.activeId = some a ∧ occ' = { occ with activeCell := some (unitIn nPer oe cs' a).cell }) ∨
       (oe.relevant a = false ∧ occ.activeId = none ∧ occ' = occ)) := by
  obtain ⟨a, hma, hu⟩ := occAfter_some ho
  refine ⟨a, hma, ?_⟩
  obtain ⟨h1, h2⟩ := hc
  rw [← hm, hma] at h1
  simp only [expectedActive] at h1
  by_cases hr : oe.relevant a = true
  · left
    simp only [hr, if_true] at h1
    rw [CW.update_same (by exact h1)] at hu
    injection hu with hu
    exact ⟨hr, h1, hu.symm⟩
  · right
    have hr' : oe.relevant a = false := by simpa using hr
    simp only [hr', Bool.false_eq_true, if_false] at h1
    rw [CW.update_irrelevant h1 (by exact hr')] at hu
    injection hu with hu
    refine ⟨hr', h1, ?_⟩
    rw [← hu]
    have hcell : occ.activeCell = none := by
      rw [h1] at h2
      cases hx : occ.activeCell with
      | none => rfl
      | some _ => rw [hx] at h2; simp at h2
    cases occ with
    | mk cap occupants surplus activeId activeCell =>
      simp only at h1 hcell
      subst h1; subst hcell; rfl

/-- `CellBoundaryTagger` / `CellVetoTagger` yield `(active_identifier,)`: unchanged while the active unit on the level is the same -/
theorem veto_same {nPer : Nat} {oe : OccEnv α} {occ occ' : Occ.State} {cs cs' : List (CObj α)}
    (hc : ConsistentOcc oe.relevant (unitsOn nPer oe.level (CW2.flags cs)) occ)
    (ho : occAfter nPer oe occ cs' = some occ')
    (hm : unitsOn nPer oe.level (CW2.flags cs') = unitsOn nPer oe.level (CW2.flags cs)) :
    CellTaggers.cellVetoTagger (tocc nPer oe occ') = CellTaggers.cellVetoTagger (tocc nPer oe occ) := by
  obtain ⟨a, _, h | h⟩ := occ_after_same hc ho hm
  · obtain ⟨_, hid, ho'⟩ := h
    have h2 := hc.2
    rw [hid] at h2
    cases hx : occ.activeCell with
    | none => rw [hx] at h2; simp at h2
    | some c0 =>
      rw [ho']
      simp [CellTaggers.cellVetoTagger, tocc, hid, hx]
  · rw [h.2.2]

/-- a commit that keeps the active unit, under the premise, leaves the whole occupancy as it is -/
theorem occ_quiet {nPer : Nat} {oe : OccEnv α} {occ occ' : Occ.State} {cs cs' : List (CObj α)}
    (hc : ConsistentOcc oe.relevant (unitsOn nPer oe.level (CW2.flags cs)) occ)
    (ho : occAfter nPer oe occ cs' = some occ')
    (hm : unitsOn nPer oe.level (CW2.flags cs') = unitsOn nPer oe.level (CW2.flags cs))
    (hp : StaysInRecordedCell nPer oe occ cs') : occ' = occ := by
  obtain ⟨a, hma, h | h⟩ := occ_after_same hc ho hm
  · obtain ⟨hr, _, ho'⟩ := h
    have := hp a hma hr
    rw [ho', ← this]
  · exact h.2.2

/-- a freshly initialised occupancy is consistent with a state at rest (no active branch) -/
theorem consistent_init (rel : Nat → Bool) (cap : Int) (units : List Occ.UnitIn) :
    ConsistentOcc rel [] (Occ.init cap units) := by
  simp [ConsistentOcc, expectedActive, (CW.init_active cap units).1, (CW.init_active cap units).2]

end

/-! ### states, invariant, world (exact reading) -/

/-- global state + ghost mode (E10) + one carried occupancy per internal state of the activator -/
structure St3 where
  cs : List (CObj ℚ)
  mode : Composite.Mode
  occs : List Occ.State

/-- E10's part of the state -/
def St3.st (s : St3) : CW2.St := ⟨s.cs, s.mode⟩

/-- every carried occupancy is consistent with the active unit on its cell level -/
def ConsAll (env : Env ℚ) (n : Nat) (s : St3) : Prop :=
  ∀ l, l < n → ConsistentOcc (env.oe l).relevant (unitsOn env.base.nPer (env.oe l).level (CW2.flags s.cs)) (getOcc s.occs l)

/-- **the invariant of the states of the world**: E10's (`AllGood ∧ Uniform ∧ (AllRest ∨ OneChainM)`) and the consistency of every
carried occupancy -/
def Inv3 (env : Env ℚ) (mw : ModeWiring) (s : St3) : Prop :=
  CW2.Inv env.base s.st ∧ ConsAll env mw.w.labels.length s

/-- global states of the world -/
def G3 (env : Env ℚ) (mw : ModeWiring) : Type := { s : St3 // Inv3 env mw s }

/-- the concrete world of the configuration `mw` -/
def world3 (env : Env ℚ) (mw : ModeWiring) : World (G3 env mw) :=
  { yieldOf := fun T g => yieldCls3 env T (mw.w.tagger T).cls (mw.w.tagger T).label g.1.cs g.1.occs
    view := fun T => CW2.viewOf (mw.w.tagger T)
    live := fun T => T < mw.w.n ∧ (mw.w.tagger T).kind ≠ .startOfRun }

theorem liveIs3 (env : Env ℚ) (mw : ModeWiring) : LiveIs mw.w (world3 env mw) := fun _ => Iff.rfl

/-- the activator's update of every internal state after the commit (`occs'` from `occs` on the new global state `cs'`) -/
def OccsUpdated (env : Env ℚ) (n : Nat) (occs occs' : List Occ.State) (cs' : List (CObj ℚ)) : Prop :=
  ∀ l, l < n → occAfter env.base.nPer (env.oe l) (getOcc occs l) cs' = some (getOcc occs' l)

/-- one commit by a handler of tagger `E` followed by the activator's update of its internal states:
* E10's transition (`CW2.TrRaw2`: the `Composite.step` of a weakly admissible event of a kind of `E`'s handler class, possible in the
  ghost mode),
* `internal_state.update(extracted_active_global_state)` for every internal state,
* **the history premise of C11** for every internal state `l` whose active cell the table declares untouched by `E`
  (`affects · (.cell l) = false`: sampling, dumping, end of run — and the cell-boundary handler of ANOTHER internal state). -/
def TrRaw3 (env : Env ℚ) (mw : ModeWiring) (E : TaggerIdx) (s s' : St3) : Prop :=
  CW2.TrRaw2 env.base mw E s.st s'.st
  ∧ OccsUpdated env mw.w.labels.length s.occs s'.occs s'.cs
  ∧ (∀ l, l < mw.w.labels.length → affects (mw.w.tagger E) (.cell l) = false →
      StaysInRecordedCell env.base.nPer (env.oe l) (getOcc s.occs l) s'.cs)

/-- the same without the premise (used to show that the premise is needed) -/
def TrNoPremise3 (env : Env ℚ) (mw : ModeWiring) (E : TaggerIdx) (s s' : St3) : Prop :=
  CW2.TrRaw2 env.base mw E s.st s'.st ∧ OccsUpdated env mw.w.labels.length s.occs s'.occs s'.cs

/-- the transition relation of configuration `mw` -/
def Tr3 (env : Env ℚ) (mw : ModeWiring) (E : TaggerIdx) (g g' : G3 env mw) : Prop := TrRaw3 env mw E g.1 g'.1

/-- the start-of-run event from the state at rest followed by the update of the internal states (NOT part of `Tr3`, as in E10) -/
def TrStart3 (env : Env ℚ) (mw : ModeWiring) (E : TaggerIdx) (s s' : St3) : Prop :=
  CW2.TrStart2 env.base mw E s.st s'.st ∧ OccsUpdated env mw.w.labels.length s.occs s'.occs s'.cs

theorem consAll_after {env : Env ℚ} {n : Nat} {s s' : St3} (hc : ConsAll env n s)
    (ho : OccsUpdated env n s.occs s'.occs s'.cs) : ConsAll env n s' :=
  fun l hl => consistent_after (hc l hl) (ho l hl)

/-- **every transition keeps the invariant** -/
theorem trRaw3_inv {env : Env ℚ} (hL : BoxOK env.base.d env.base.L) {mw : ModeWiring} {E : TaggerIdx} {s s' : St3}
    (hi : Inv3 env mw s) (h : TrRaw3 env mw E s s') : Inv3 env mw s' :=
  ⟨CW2.trRaw2_inv hL hi.1 h.1, consAll_after hi.2 h.2.1⟩

/-- the start-of-run event establishes the invariant from the state at rest with consistent (e.g. freshly initialised) occupancies -/
theorem inv3_start {env : Env ℚ} (hL : BoxOK env.base.d env.base.L) {mw : ModeWiring} {s : St3}
    (hg : AllGood env.base.d env.base.L s.cs) (hu : CW2.Uniform env.base.nPer s.cs) (hr : AllRest s.cs)
    (hc : ConsAll env mw.w.labels.length s) {i : Nat} {P : List Nat} {v : List ℚ}
    (ha : AdmW env.base.d env.base.L s.cs (.start i P v)) {m : Composite.Mode} (hm : StartMode s.cs i P m) {occs' : List Occ.State}
    (ho : OccsUpdated env mw.w.labels.length s.occs occs' (step Ops.rat isZ env.base.L s.cs (.start i P v))) :
    Inv3 env mw ⟨step Ops.rat isZ env.base.L s.cs (.start i P v), m, occs'⟩ :=
  ⟨CW2.inv_start hL hg hu hr ha hm, consAll_after (s' := ⟨_, m, occs'⟩) hc ho⟩

/-! ### reading `disjointFP` and `Supported3` -/

theorem disjoint_cell {c : Wiring} {e t : TaggerW} {l : Nat} (hl : l < c.labels.length) (h : disjointFP c e t = true) :
    affects e (.cell l) = true → reads t (.cell l) = false := by
  unfold disjointFP at h
  have := List.all_eq_true.mp h (.cell l) (by
    simp only [aspects, List.mem_append, List.mem_map, List.mem_range]
    exact Or.inr ⟨l, hl, rfl⟩)
  intro ha
  simpa [ha] using this

theorem supported3_agree {mw : ModeWiring} (hs : Supported3 mw = true) {E : TaggerIdx} (hE : E < mw.w.n) :
    kindAgrees (mw.w.tagger E).kind (mw.hmode E) = true := by
  unfold Supported3 at hs
  simp only [Bool.and_eq_true] at hs
  have := List.all_eq_true.mp hs.2 E (List.mem_range.mpr hE)
  simp only [Bool.and_eq_true] at this
  exact this.2

/-- every tagger index of a supported wiring: a tagger of this world, or (out of range) the default tagger -/
theorem supported3_tagger {mw : ModeWiring} (hs : Supported3 mw = true) (i : TaggerIdx) :
    okT mw.w.labels.length (mw.w.tagger i) = true ∨ ((mw.w.tagger i).cls = .unknown ∧ (mw.w.tagger i).kind = .unknown) := by
  by_cases hi : i < mw.w.n
  · left
    unfold Supported3 at hs
    simp only [Bool.and_eq_true] at hs
    exact List.all_eq_true.mp hs.1.2 _ (tagger_mem mw.w hi)
  · right
    have : mw.w.taggers.length ≤ i := Nat.le_of_not_lt hi
    simp [Wiring.tagger, List.getElem?_eq_none this]

/-- a cell tagger of a supported wiring names one of its internal states -/
theorem supported3_label {mw : ModeWiring} (hs : Supported3 mw = true) {T : TaggerIdx} (hc : isCellCls (mw.w.tagger T).cls = true) :
    ∃ l, (mw.w.tagger T).label = some l ∧ l < mw.w.labels.length := by
  rcases supported3_tagger hs T with h | ⟨h, _⟩
  · simp only [okT, Bool.and_eq_true, Bool.or_eq_true, Bool.not_eq_true'] at h
    rcases h.1.2 with h' | h'
    · rw [hc] at h'; cases h'
    · cases hl : (mw.w.tagger T).label with
      | none => rw [hl] at h'; cases h'
      | some l => rw [hl] at h'; exact ⟨l, rfl, by simpa using h'⟩
  · rw [h] at hc; cases hc

/-- a tagger whose commits do not affect `.ident` according to the table has a handler class that commits only `keep` / `snap` -/
theorem quiet_of_ident_false3 {mw : ModeWiring} (hs : Supported3 mw = true) {E : TaggerIdx}
    (ha : affects (mw.w.tagger E) .ident = false) {k : EvKind} {cm : WMode} (hk : k ∈ kindsOf (mw.hmode E) cm) :
    CW2.quietKind k = true := by
  by_cases hE : E < mw.w.n
  · have hag := supported3_agree hs hE
    revert ha hag hk
    unfold affects
    cases (mw.w.tagger E).kind <;> cases mw.hmode E <;> simp [kindAgrees, kindsOf] <;> rintro rfl <;> rfl
  · have : mw.w.taggers.length ≤ E := Nat.le_of_not_lt hE
    simp [affects, Wiring.tagger, List.getElem?_eq_none this] at ha

/-- a commit whose table entry `affects · .ident` is `false` leaves the velocity of every unit as it is -/
theorem vels_quiet3 {env : Env ℚ} {mw : ModeWiring} (hs : Supported3 mw = true) {E : TaggerIdx} {s s' : CW2.St}
    (ha : affects (mw.w.tagger E) .ident = false) (h : CW2.TrRaw2 env.base mw E s s') : CW2.vels s'.cs = CW2.vels s.cs := by
  obtain ⟨e, cm, hk, _, _, hcs⟩ := h
  rw [hcs]
  exact CW2.vels_quiet Ops.rat isZ env.base.L s.cs e (quiet_of_ident_false3 hs ha hk)

end JF.CW3
