import JF.Model.CellTaggers
import Mathlib.Data.List.Perm.Basic
import Mathlib.Data.List.Nodup
import Mathlib.Data.Int.ModEq
/-!
Helper lemmas for C10 (cell half): the integer torus behind `CuboidPeriodicCells`.

* `dedupe` is a set: same members, no duplicates;
* `allCells` enumerates exactly the valid identifiers, each once;
* `nearby` is characterised coordinate-wise (`NearRel`);
* translation by a valid cell is a bijection of the grid that maps the neighbourhood of the zero
  cell onto the neighbourhood of the cell.
-/
namespace JF.CellTaggers

/-! ### `dedupe` -/

theorem mem_dedupe {α : Type} [BEq α] [LawfulBEq α] {x : α} : ∀ {l : List α}, x ∈ dedupe l ↔ x ∈ l
  | [] => by simp [dedupe]
  | y :: ys => by
    by_cases h : ys.contains y = true
    · have hy : y ∈ ys := by simpa using h
      simp only [dedupe, h, if_true, List.mem_cons, mem_dedupe (l := ys)]
      constructor
      · exact Or.inr
      · rintro (rfl | h')
        · exact hy
        · exact h'
    · simp only [dedupe, h, Bool.false_eq_true, if_false, List.mem_cons]
      rw [mem_dedupe (l := ys)]

theorem nodup_dedupe {α : Type} [BEq α] [LawfulBEq α] : ∀ (l : List α), (dedupe l).Nodup
  | [] => by simp [dedupe]
  | y :: ys => by
    by_cases h : ys.contains y = true
    · simp only [dedupe, h, if_true]; exact nodup_dedupe ys
    · have hy : y ∉ ys := by simpa using h
      simp only [dedupe, h]
      simp only [Bool.false_eq_true, if_false, List.nodup_cons]
      exact ⟨fun hm => hy (mem_dedupe.mp hm), nodup_dedupe ys⟩

/-! ### valid identifiers and `allCells` -/

@[simp] theorem valid_nil_nil : Valid [] [] = True := rfl
@[simp] theorem valid_cons_cons (n c : Nat) (ns : List Nat) (cs : Cell) :
    Valid (n :: ns) (c :: cs) = (c < n ∧ Valid ns cs) := rfl
@[simp] theorem valid_nil_cons (c : Nat) (cs : Cell) : Valid [] (c :: cs) = False := rfl
@[simp] theorem valid_cons_nil (n : Nat) (ns : List Nat) : Valid (n :: ns) [] = False := rfl

theorem mem_allCells : ∀ {ns : List Nat} {c : Cell}, c ∈ allCells ns ↔ Valid ns c
  | [], c => by cases c <;> simp [allCells]
  | n :: ns, c => by
    simp only [allCells, List.mem_flatMap, List.mem_map, List.mem_range]
    constructor
    · rintro ⟨t, ht, x, hx, rfl⟩
      exact ⟨hx, mem_allCells.mp ht⟩
    · intro h
      cases c with
      | nil => simp at h
      | cons x t => exact ⟨t, mem_allCells.mpr h.2, x, h.1, rfl⟩

theorem nodup_allCells : ∀ (ns : List Nat), (allCells ns).Nodup
  | [] => by simp [allCells]
  | n :: ns => by
    simp only [allCells]
    rw [List.nodup_flatMap]
    refine ⟨fun t _ => ?_, ?_⟩
    · exact (List.nodup_range).map (fun a b h => by simpa using h)
    · refine (nodup_allCells ns).pairwise_of_forall_ne fun a _ b _ hab => ?_
      simp only [Function.onFun, List.Disjoint, List.mem_map, List.mem_range]
      rintro c ⟨x, _, rfl⟩ ⟨y, _, h⟩
      simp only [List.cons.injEq] at h
      exact hab h.2.symm

theorem valid_pos : ∀ {ns : List Nat} {c : Cell}, Valid ns c → ∀ n ∈ ns, 0 < n
  | [], [], _ => by simp
  | n :: ns, c :: cs, h => by
    intro m hm
    simp only [valid_cons_cons] at h
    rcases List.mem_cons.mp hm with rfl | hm
    · omega
    · exact valid_pos h.2 m hm
  | [], _ :: _, h => by simp at h
  | _ :: _, [], h => by simp at h

theorem valid_zeroCell : ∀ {ns : List Nat}, (∀ n ∈ ns, 0 < n) → Valid ns (zeroCell ns)
  | [], _ => by simp [zeroCell]
  | n :: ns, h => by
    simp only [zeroCell, List.map_cons, valid_cons_cons]
    exact ⟨h n (by simp), valid_zeroCell fun m hm => h m (by simp [hm])⟩

/-! ### one coordinate -/

theorem mem_near1 {n ℓ c x : Nat} :
    x ∈ near1 n ℓ c ↔ ∃ k, k < 2 * ℓ + 1 ∧ (((c : Int) - ℓ + k) % n).toNat = x := by
  simp [near1, List.mem_map, List.mem_range]

theorem near1_lt {n ℓ c x : Nat} (hn : 0 < n) (h : x ∈ near1 n ℓ c) : x < n := by
  obtain ⟨k, _, rfl⟩ := mem_near1.mp h
  have h1 := Int.emod_lt_of_pos ((c : Int) - ℓ + k) (b := (n : Int)) (by exact_mod_cast hn)
  have h2 := Int.emod_nonneg ((c : Int) - ℓ + k) (b := (n : Int)) (by omega)
  omega

/-- membership in the corrected range, as a congruence -/
theorem mem_near1_iff {n ℓ c x : Nat} (hn : 0 < n) (hx : x < n) :
    x ∈ near1 n ℓ c ↔ ∃ k : Nat, k < 2 * ℓ + 1 ∧ (x : Int) ≡ (c : Int) - ℓ + k [ZMOD n] := by
  rw [mem_near1]
  have hn' : (n : Int) ≠ 0 := by omega
  refine exists_congr fun k => and_congr_right fun _ => ?_
  have h2 := Int.emod_nonneg ((c : Int) - ℓ + k) hn'
  have hxm : (x : Int) % n = x := Int.emod_eq_of_lt (by omega) (by exact_mod_cast hx)
  unfold Int.ModEq
  rw [hxm]
  constructor
  · intro h; omega
  · intro h; omega

theorem mod_cases {a n : Nat} (h : a < 2 * n) : a % n = if a < n then a else a - n := by
  split
  · exact Nat.mod_eq_of_lt (by assumption)
  · rw [Nat.mod_eq_sub_mod (by omega)]
    exact Nat.mod_eq_of_lt (by omega)

/-- translation invariance of the neighbourhood, one coordinate -/
theorem near1_translate {n ℓ c r : Nat} (_hc : c < n) (hr : r < n) :
    (c + r) % n ∈ near1 n ℓ c ↔ r ∈ near1 n ℓ 0 := by
  have hn : 0 < n := by omega
  rw [mem_near1_iff hn (Nat.mod_lt _ hn), mem_near1_iff hn hr]
  refine exists_congr fun k => and_congr_right fun _ => ?_
  have e1 : (((c + r) % n : Nat) : Int) ≡ (c : Int) + r [ZMOD n] := by
    rw [Int.natCast_mod]; push_cast; exact Int.mod_modEq _ _
  constructor
  · intro h
    have h3 : (c : Int) + r ≡ (c : Int) + (((0 : Nat) : Int) - ℓ + k) [ZMOD n] := by
      refine (e1.symm.trans h).trans ?_
      have : (c : Int) - ℓ + k = (c : Int) + (((0 : Nat) : Int) - ℓ + k) := by omega
      rw [this]
    exact Int.ModEq.add_left_cancel' _ h3
  · intro h
    refine e1.trans ?_
    have : (c : Int) - ℓ + k = (c : Int) + (((0 : Nat) : Int) - ℓ + k) := by omega
    rw [this]
    exact Int.ModEq.add_left _ h

theorem translate1_inj {n c r r' : Nat} (hc : c < n) (hr : r < n) (hr' : r' < n)
    (h : (c + r) % n = (c + r') % n) : r = r' := by
  rw [mod_cases (by omega), mod_cases (by omega)] at h
  split at h <;> split at h <;> omega

theorem translate1_relative {n c x : Nat} (hc : c < n) (hx : x < n) :
    (c + (x + (n - c % n)) % n) % n = x := by
  rw [Nat.mod_eq_of_lt hc, mod_cases (a := x + (n - c)) (by omega)]
  split
  · rw [mod_cases (by omega)]; split <;> omega
  · rw [mod_cases (by omega)]; split <;> omega

theorem relative1_zero {n c : Nat} (hc : c < n) : (c + (n - 0 % n)) % n = c := by
  simp [Nat.mod_eq_of_lt hc]

/-! ### all coordinates -/

/-- coordinate-wise description of `nearby_cells` -/
def NearRel (ℓ : Nat) : List Nat → Cell → Cell → Prop
  | [], [], [] => True
  | n :: ns, c :: cs, x :: xs => x ∈ near1 n ℓ c ∧ NearRel ℓ ns cs xs
  | _, _, _ => False

theorem mem_nearbyProduct {ℓ : Nat} : ∀ {ns : List Nat} {c x : Cell}, Valid ns c →
    (x ∈ nearbyProduct ℓ ns c ↔ NearRel ℓ ns c x)
  | [], [], x, _ => by cases x <;> simp [nearbyProduct, NearRel]
  | n :: ns, c :: cs, x, h => by
    simp only [valid_cons_cons] at h
    simp only [nearbyProduct, List.mem_flatMap, List.mem_map]
    constructor
    · rintro ⟨y, hy, t, ht, rfl⟩
      exact ⟨hy, (mem_nearbyProduct h.2).mp ht⟩
    · intro hx
      cases x with
      | nil => simp [NearRel] at hx
      | cons y t => exact ⟨y, hx.1, t, (mem_nearbyProduct h.2).mpr hx.2, rfl⟩
  | [], _ :: _, _, h => by simp at h
  | _ :: _, [], _, h => by simp at h

theorem nearRel_valid {ℓ : Nat} : ∀ {ns : List Nat} {c x : Cell}, Valid ns c → NearRel ℓ ns c x → Valid ns x
  | [], [], [], _, _ => by simp
  | n :: ns, c :: cs, x :: xs, h, hx => by
    simp only [valid_cons_cons] at h ⊢
    exact ⟨near1_lt (by omega) hx.1, nearRel_valid h.2 hx.2⟩
  | [], [], _ :: _, _, hx => by simp [NearRel] at hx
  | _ :: _, _ :: _, [], _, hx => by simp [NearRel] at hx
  | [], _ :: _, _, h, _ => by simp at h
  | _ :: _, [], _, h, _ => by simp at h

theorem mem_nearby {g : Grid} {c x : Cell} (hc : Valid g.n c) :
    x ∈ nearby g c ↔ NearRel g.layers g.n c x := by
  rw [nearby, mem_dedupe, mem_nearbyProduct hc]

theorem isNearby_iff {g : Grid} {c x : Cell} (hc : Valid g.n c) :
    isNearby g c x = true ↔ NearRel g.layers g.n c x := by
  rw [isNearby, List.contains_iff_mem, mem_nearby hc]

theorem nodup_nearby (g : Grid) (c : Cell) : (nearby g c).Nodup := nodup_dedupe _

theorem nearby_valid {g : Grid} {c x : Cell} (hc : Valid g.n c) (hx : x ∈ nearby g c) : Valid g.n x :=
  nearRel_valid hc ((mem_nearby hc).mp hx)

theorem translate_valid : ∀ {ns : List Nat} {c r : Cell}, Valid ns c → Valid ns r → Valid ns (translate ns c r)
  | [], [], [], _, _ => by simp [translate]
  | n :: ns, c :: cs, r :: rs, hc, hr => by
    simp only [valid_cons_cons] at hc hr
    simp only [translate, valid_cons_cons]
    exact ⟨Nat.mod_lt _ (by omega), translate_valid hc.2 hr.2⟩
  | [], [], _ :: _, _, hr => by simp at hr
  | _ :: _, _ :: _, [], _, hr => by simp at hr
  | [], _ :: _, _, h, _ => by simp at h
  | _ :: _, [], _, h, _ => by simp at h

theorem relative_valid : ∀ {ns : List Nat} {c r : Cell}, Valid ns c → Valid ns r → Valid ns (relative ns c r)
  | [], [], [], _, _ => by simp [relative]
  | n :: ns, c :: cs, r :: rs, hc, hr => by
    simp only [valid_cons_cons] at hc hr
    simp only [relative, valid_cons_cons]
    exact ⟨Nat.mod_lt _ (by omega), relative_valid hc.2 hr.2⟩
  | [], [], _ :: _, _, hr => by simp at hr
  | _ :: _, _ :: _, [], _, hr => by simp at hr
  | [], _ :: _, _, h, _ => by simp at h
  | _ :: _, [], _, h, _ => by simp at h

/-- `translate(c, ·)` maps the neighbourhood of the zero cell onto the neighbourhood of `c` -/
theorem nearRel_translate {ℓ : Nat} : ∀ {ns : List Nat} {c r : Cell}, Valid ns c → Valid ns r →
    (NearRel ℓ ns c (translate ns c r) ↔ NearRel ℓ ns (zeroCell ns) r)
  | [], [], [], _, _ => by simp [translate, zeroCell, NearRel]
  | n :: ns, c :: cs, r :: rs, hc, hr => by
    simp only [valid_cons_cons] at hc hr
    simp only [translate, zeroCell, List.map_cons, NearRel]
    rw [near1_translate hc.1 hr.1]
    exact and_congr_right fun _ => nearRel_translate hc.2 hr.2
  | [], [], _ :: _, _, hr => by simp at hr
  | _ :: _, _ :: _, [], _, hr => by simp at hr
  | [], _ :: _, _, h, _ => by simp at h
  | _ :: _, [], _, h, _ => by simp at h

theorem translate_inj : ∀ {ns : List Nat} {c r r' : Cell}, Valid ns c → Valid ns r → Valid ns r' →
    translate ns c r = translate ns c r' → r = r'
  | [], [], [], [], _, _, _, _ => rfl
  | n :: ns, c :: cs, r :: rs, r' :: rs', hc, hr, hr', h => by
    simp only [valid_cons_cons] at hc hr hr'
    simp only [translate, List.cons.injEq] at h
    rw [translate1_inj hc.1 hr.1 hr'.1 h.1, translate_inj hc.2 hr.2 hr'.2 h.2]
  | [], [], _ :: _, _, _, hr, _, _ => by simp at hr
  | [], [], [], _ :: _, _, _, hr, _ => by simp at hr
  | _ :: _, _ :: _, [], _, _, hr, _, _ => by simp at hr
  | _ :: _, _ :: _, _ :: _, [], _, _, hr, _ => by simp at hr
  | [], _ :: _, _, _, h, _, _, _ => by simp at h
  | _ :: _, [], _, _, h, _, _, _ => by simp at h

/-- `translate(c, relative_cell(x, c)) = x` -/
theorem translate_relative : ∀ {ns : List Nat} {c x : Cell}, Valid ns c → Valid ns x →
    translate ns c (relative ns x c) = x
  | [], [], [], _, _ => by simp [translate]
  | n :: ns, c :: cs, x :: xs, hc, hx => by
    simp only [valid_cons_cons] at hc hx
    simp only [translate, relative]
    rw [translate1_relative hc.1 hx.1, translate_relative hc.2 hx.2]
  | [], [], _ :: _, _, hr => by simp at hr
  | _ :: _, _ :: _, [], _, hr => by simp at hr
  | [], _ :: _, _, h, _ => by simp at h
  | _ :: _, [], _, h, _ => by simp at h

/-- `relative_cell(c, zero_cell) = c`: the key of the derivative-bound table is the walker item -/
theorem relative_zero : ∀ {ns : List Nat} {c : Cell}, Valid ns c → relative ns c (zeroCell ns) = c
  | [], [], _ => by simp [relative]
  | n :: ns, c :: cs, hc => by
    simp only [valid_cons_cons] at hc
    simp only [relative, zeroCell, List.map_cons]
    rw [relative1_zero hc.1]
    exact congrArg _ (relative_zero hc.2)
  | [], _ :: _, h => by simp at h
  | _ :: _, [], h => by simp at h

end JF.CellTaggers
