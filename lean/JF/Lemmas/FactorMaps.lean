import JF.Model.FactorMaps
import JF.Lemmas.FactorCells
import Mathlib.Data.List.Perm.Basic
import Mathlib.Data.List.Nodup
/-!
Helper lemmas for C10 (factor-file half): what `_instantiate_factor_type_maps` leaves in the maps.

`Good s seen fs`: after the lines `seen`, the dictionary `fs` has an entry exactly for the factor
types that occurred, its `local` flag is the common locality of all lines of that type, and
`map[i]` is — for an index `i` of the first composite object — the list of all lines of the type
that contain `i` (once per occurrence), in file order, and absent iff there is none.
-/
namespace JF.FactorMaps

/-- `self._map.get(j, [])` -/
def getL (m : IndexMap) (j : Nat) : List (List Nat) := (m.lookup j).getD []

/-- no key with an empty list (keys are created only together with a first entry) -/
def NoEmpty (m : IndexMap) : Prop := ∀ j l, m.lookup j = some l → l ≠ []

theorem lookup_none_iff {m : IndexMap} (h : NoEmpty m) (j : Nat) : m.lookup j = none ↔ getL m j = [] := by
  unfold getL
  cases hl : m.lookup j with
  | none => simp
  | some l => simpa using h j l hl

theorem lookup_some_getL {m : IndexMap} {j : Nat} {l : List (List Nat)} (h : m.lookup j = some l) :
    getL m j = l := by simp [getL, h]

theorem lookup_mapAppend (m : IndexMap) (i : Nat) (S : List Nat) (j : Nat) :
    (mapAppend m i S).lookup j = if j = i then some (getL m i ++ [S]) else m.lookup j := by
  induction m with
  | nil =>
    by_cases h : j = i
    · subst h; simp [mapAppend, getL]
    · have : (j == i) = false := by simpa using h
      simp [mapAppend, List.lookup_cons, h, this]
  | cons p rest ih =>
    obtain ⟨k, l⟩ := p
    by_cases hik : i = k
    · subst hik
      by_cases hji : j = i
      · subst hji; simp [mapAppend, getL]
      · have : (j == i) = false := by simpa using hji
        simp [mapAppend, List.lookup_cons, hji, this]
    · have hik' : (i == k) = false := by simpa using hik
      by_cases hjk : j = k
      · subst hjk
        have hji : ¬ j = i := fun h => hik h.symm
        simp [mapAppend, hik', hji]
      · have hjk' : (j == k) = false := by simpa using hjk
        simp only [mapAppend, hik', Bool.false_eq_true, if_false, List.lookup_cons, hjk', ih, getL]

theorem getL_mapAppend (m : IndexMap) (i : Nat) (S : List Nat) (j : Nat) :
    getL (mapAppend m i S) j = if j = i then getL m i ++ [S] else getL m j := by
  unfold getL
  rw [lookup_mapAppend]
  split <;> simp [getL]

theorem noEmpty_mapAppend {m : IndexMap} (h : NoEmpty m) (i : Nat) (S : List Nat) :
    NoEmpty (mapAppend m i S) := by
  intro j l hl
  rw [lookup_mapAppend] at hl
  split at hl
  · simp only [Option.some.injEq] at hl; subst hl; simp
  · exact h j l hl

/-- the loop of `append_to_map` over a tail `is` of the index list `S` -/
def foldAppend (n : Nat) (S : List Nat) (is : List Nat) (m : IndexMap) : IndexMap :=
  is.foldl (fun m index => if index ≥ n then m else mapAppend m index S) m

theorem appendToMap_eq (n : Nat) (m : IndexMap) (S : List Nat) : appendToMap n m S = foldAppend n S S m := rfl

theorem getL_foldAppend (n : Nat) (S : List Nat) : ∀ (is : List Nat) (m : IndexMap) (j : Nat),
    getL (foldAppend n S is m) j = getL m j ++ if j < n then List.replicate (is.count j) S else []
  | [], m, j => by simp [foldAppend]
  | i :: is, m, j => by
    simp only [foldAppend, List.foldl_cons]
    by_cases hi : i ≥ n
    · simp only [hi, if_true]
      have := getL_foldAppend n S is m j
      simp only [foldAppend] at this
      rw [this]
      by_cases hj : j < n
      · have : ¬ i = j := by omega
        simp [hj, this]
      · simp [hj]
    · simp only [hi, if_false]
      have := getL_foldAppend n S is (mapAppend m i S) j
      simp only [foldAppend] at this
      rw [this, getL_mapAppend]
      by_cases hji : j = i
      · subst hji
        have hj : j < n := by omega
        simp [hj, List.replicate_succ]
      · have : ¬ i = j := fun h => hji h.symm
        simp [hji, this]

theorem noEmpty_foldAppend (n : Nat) (S : List Nat) : ∀ (is : List Nat) (m : IndexMap),
    NoEmpty m → NoEmpty (foldAppend n S is m)
  | [], m, h => by simpa [foldAppend] using h
  | i :: is, m, h => by
    simp only [foldAppend, List.foldl_cons]
    by_cases hi : i ≥ n
    · simp only [hi, if_true]; exact noEmpty_foldAppend n S is m h
    · simp only [hi, if_false]; exact noEmpty_foldAppend n S is _ (noEmpty_mapAppend h i S)

theorem lookup_upsert (fs : Factors) (k : String) (v : TypeMap) (k' : String) :
    (upsert fs k v).lookup k' = if k' = k then some v else fs.lookup k' := by
  induction fs with
  | nil =>
    by_cases h : k' = k
    · subst h; simp [upsert]
    · have : (k' == k) = false := by simpa using h
      simp [upsert, List.lookup_cons, h, this]
  | cons p rest ih =>
    obtain ⟨a, b⟩ := p
    by_cases hka : k = a
    · subst hka
      by_cases h : k' = k
      · subst h; simp [upsert]
      · have : (k' == k) = false := by simpa using h
        simp [upsert, List.lookup_cons, h, this]
    · have hka' : (k == a) = false := by simpa using hka
      by_cases h : k' = a
      · subst h
        have : ¬ k' = k := fun e => hka e.symm
        simp [upsert, hka', this]
      · have h' : (k' == a) = false := by simpa using h
        simp only [upsert, hka', Bool.false_eq_true, if_false, List.lookup_cons, h', ih]

/-! ### the invariant of the parsing loop -/

/-- index lists of the lines of factor type `ty`, in file order -/
def linesOf (lines : List Line) (ty : String) : List (List Nat) :=
  (lines.filter fun ln => ln.ty == ty).map (·.idx)

/-- the lines that contain `i`, once per occurrence of `i` in the line -/
def entries (i : Nat) (L : List (List Nat)) : List (List Nat) :=
  L.flatMap fun S => List.replicate (S.count i) S

/-- `all(index < n for index in line)` -/
def isLocalLine (n : Nat) (S : List Nat) : Bool := S.all fun i => i < n

structure GoodTy (s : Setting) (L : List (List Nat)) (tm : TypeMap) : Prop where
  nonempty : L ≠ []
  loc : ∃ b, tm.isLocal = some b ∧ ∀ S ∈ L, isLocalLine s.nPer S = b
  map : ∀ j, getL tm.map j = if j < s.nPer then entries j L else []
  noEmpty : NoEmpty tm.map

def Good (s : Setting) (seen : List Line) (fs : Factors) : Prop :=
  (∀ ty, fs.lookup ty = none → linesOf seen ty = []) ∧
  (∀ ty tm, fs.lookup ty = some tm → GoodTy s (linesOf seen ty) tm)

theorem good_nil (s : Setting) : Good s [] [] := by
  constructor
  · intro ty _; rfl
  · intro ty tm h; simp at h

theorem linesOf_append_same (seen : List Line) (ln : Line) :
    linesOf (seen ++ [ln]) ln.ty = linesOf seen ln.ty ++ [ln.idx] := by
  simp [linesOf, List.filter_append]

theorem linesOf_append_other (seen : List Line) (ln : Line) (ty : String) (h : ¬ ty = ln.ty) :
    linesOf (seen ++ [ln]) ty = linesOf seen ty := by
  have : (ln.ty == ty) = false := by
    simpa using fun e : ln.ty = ty => h e.symm
  simp [linesOf, List.filter_append, this]

theorem entries_append (i : Nat) (L : List (List Nat)) (S : List Nat) :
    entries i (L ++ [S]) = entries i L ++ List.replicate (S.count i) S := by
  simp [entries, List.flatMap_append]

theorem good_addLine {s : Setting} {seen : List Line} {fs fs' : Factors} {ln : Line}
    (hg : Good s seen fs) (h : addLine s fs ln = .ok fs') : Good s (seen ++ [ln]) fs' := by
  unfold addLine at h
  split at h
  · cases h
  rename_i hidx
  cases hfl : fs.lookup ln.ty with
  | none =>
    -- first line of this type
    simp only [hfl, Option.getD_none, setLocal] at h
    injection h with h
    subst h
    have hL : linesOf seen ln.ty = [] := hg.1 _ hfl
    constructor
    · intro ty hty
      rw [lookup_upsert] at hty
      split at hty
      · cases hty
      · rename_i hne
        rw [linesOf_append_other _ _ _ hne]; exact hg.1 _ hty
    · intro ty tm hty
      rw [lookup_upsert] at hty
      split at hty
      · rename_i he
        subst he
        injection hty with hty
        subst hty
        rw [linesOf_append_same, hL]
        refine ⟨by simp, ⟨_, rfl, ?_⟩, ?_, ?_⟩
        · intro S hS
          simp only [List.nil_append, List.mem_singleton] at hS
          subst hS; rfl
        · intro j
          simp only [appendToMap_eq, getL_foldAppend, List.nil_append]
          simp [getL, entries]
        · rw [appendToMap_eq]
          exact noEmpty_foldAppend _ _ _ _ (by intro j l hl; simp at hl)
      · rename_i hne
        rw [linesOf_append_other _ _ _ hne]; exact hg.2 _ _ hty
  | some tm0 =>
    have g0 := hg.2 _ _ hfl
    obtain ⟨b0, hb0, hall⟩ := g0.loc
    simp only [hfl, Option.getD_some, setLocal, hb0] at h
    by_cases hb : ((ln.idx.all fun i => decide (i < s.nPer)) != b0) = true
    · rw [if_pos hb] at h; cases h
    rw [if_neg hb] at h
    dsimp only at h
    have hbeq : (ln.idx.all fun i => decide (i < s.nPer)) = b0 := by simpa using hb
    injection h with h
    subst h
    constructor
    · intro ty hty
      rw [lookup_upsert] at hty
      split at hty
      · cases hty
      · rename_i hne
        rw [linesOf_append_other _ _ _ hne]; exact hg.1 _ hty
    · intro ty tm hty
      rw [lookup_upsert] at hty
      split at hty
      · rename_i he
        subst he
        injection hty with hty
        subst hty
        rw [linesOf_append_same]
        refine ⟨by simp, ⟨b0, hb0, ?_⟩, ?_, ?_⟩
        · intro S hS
          rcases List.mem_append.mp hS with hS | hS
          · exact hall S hS
          · simp only [List.mem_singleton] at hS
            subst hS; exact hbeq
        · intro j
          simp only [appendToMap_eq, getL_foldAppend, g0.map j, entries_append]
          split <;> simp
        · rw [appendToMap_eq]
          exact noEmpty_foldAppend _ _ _ _ g0.noEmpty
      · rename_i hne
        rw [linesOf_append_other _ _ _ hne]; exact hg.2 _ _ hty

theorem good_instantiate {s : Setting} : ∀ {lines seen : List Line} {fs fs' : Factors},
    Good s seen fs → instantiate s lines fs = .ok fs' → Good s (seen ++ lines) fs'
  | [], seen, fs, fs', hg, h => by
    simp only [instantiate] at h
    injection h with h
    subst h; simpa using hg
  | ln :: rest, seen, fs, fs', hg, h => by
    simp only [instantiate] at h
    split at h
    · cases h
    · rename_i fs1 h1
      have := good_instantiate (good_addLine hg h1) h
      simpa using this

/-- what the parser leaves behind for an accepted file -/
theorem good_of_instantiate {s : Setting} {lines : List Line} {fs : Factors}
    (h : instantiate s lines [] = .ok fs) : Good s lines fs := by
  simpa using good_instantiate (good_nil s) h

/-! ### index *sets* -/

theorem entries_of_nodup (i : Nat) : ∀ (L : List (List Nat)), (∀ S ∈ L, S.Nodup) →
    entries i L = L.filter fun S => S.contains i
  | [], _ => rfl
  | S :: L, h => by
    have ih := entries_of_nodup i L fun S' hS' => h S' (by simp [hS'])
    have hS := h S (by simp)
    simp only [entries, List.flatMap_cons] at ih ⊢
    rw [ih, List.filter_cons]
    by_cases hi : i ∈ S
    · have : S.contains i = true := by simpa using hi
      rw [List.count_eq_one_of_mem hS hi, this]; rfl
    · have : S.contains i = false := by simpa using hi
      rw [List.count_eq_zero.mpr hi, this]; rfl

end JF.FactorMaps
