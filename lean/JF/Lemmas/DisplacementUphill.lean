import Mathlib.Topology.EMetricSpace.BoundedVariation
/-!
# Accumulated energy increase ("uphill energy") along a path

`uphill f a b` is the *positive variation* of `f` on `[a, b]`, defined without integrals through the
Jordan decomposition: half of (total variation + net change).  For a piecewise monotone `f` it is the
sum of the increments over the increasing pieces — lemmas `uphill_mono`, `uphill_anti`, `uphill_add`.
-/
namespace JF.Uphill
open Set

/-- accumulated increase of `f` over `[a, b]` (positive variation) -/
noncomputable def uphill (f : ℝ → ℝ) (a b : ℝ) : ℝ :=
  ((eVariationOn f (Icc a b)).toReal + (f b - f a)) / 2

variable {f : ℝ → ℝ} {a b c : ℝ}

theorem tv_mono (hf : MonotoneOn f (Icc a b)) (hab : a ≤ b) :
    eVariationOn f (Icc a b) = ENNReal.ofReal (f b - f a) := by
  have h := hf.eVariationOn_eq (a := a) (b := b) (left_mem_Icc.2 hab) (right_mem_Icc.2 hab)
  rwa [inter_self] at h

theorem tv_neg (f : ℝ → ℝ) (s : Set ℝ) : eVariationOn (fun x => -f x) s = eVariationOn f s := by
  have h : ∀ x y : ℝ, edist (-x) (-y) = edist x y := by
    intro x y; rw [edist_dist, edist_dist, Real.dist_eq, Real.dist_eq, neg_sub_neg, abs_sub_comm]
  simp only [eVariationOn, h]

theorem tv_anti (hf : AntitoneOn f (Icc a b)) (hab : a ≤ b) :
    eVariationOn f (Icc a b) = ENNReal.ofReal (f a - f b) := by
  rw [← tv_neg f, tv_mono (f := fun x => -f x) (fun x hx y hy hxy => neg_le_neg (hf hx hy hxy)) hab]
  congr 1; ring

theorem bv_mono (hf : MonotoneOn f (Icc a b)) (hab : a ≤ b) : BoundedVariationOn f (Icc a b) := by
  unfold BoundedVariationOn; rw [tv_mono hf hab]; exact ENNReal.ofReal_ne_top

theorem bv_anti (hf : AntitoneOn f (Icc a b)) (hab : a ≤ b) : BoundedVariationOn f (Icc a b) := by
  unfold BoundedVariationOn; rw [tv_anti hf hab]; exact ENNReal.ofReal_ne_top

/-- on an increasing stretch the whole increment is accumulated -/
theorem uphill_mono (hf : MonotoneOn f (Icc a b)) (hab : a ≤ b) : uphill f a b = f b - f a := by
  have h : 0 ≤ f b - f a := sub_nonneg.2 (hf (left_mem_Icc.2 hab) (right_mem_Icc.2 hab) hab)
  rw [uphill, tv_mono hf hab, ENNReal.toReal_ofReal h]; ring

/-- on a decreasing stretch nothing is accumulated -/
theorem uphill_anti (hf : AntitoneOn f (Icc a b)) (hab : a ≤ b) : uphill f a b = 0 := by
  have h : 0 ≤ f a - f b := sub_nonneg.2 (hf (left_mem_Icc.2 hab) (right_mem_Icc.2 hab) hab)
  rw [uphill, tv_anti hf hab, ENNReal.toReal_ofReal h]; ring

/-- the accumulated increase is additive over consecutive stretches -/
theorem uphill_add (hab : a ≤ b) (hbc : b ≤ c) (h1 : BoundedVariationOn f (Icc a b))
    (h2 : BoundedVariationOn f (Icc b c)) : uphill f a c = uphill f a b + uphill f b c := by
  have h := eVariationOn.Icc_add_Icc f (s := univ) hab hbc (mem_univ b)
  simp only [univ_inter] at h
  rw [uphill, uphill, uphill, ← h, ENNReal.toReal_add h1 h2]; ring

theorem bv_add (hab : a ≤ b) (hbc : b ≤ c) (h1 : BoundedVariationOn f (Icc a b))
    (h2 : BoundedVariationOn f (Icc b c)) : BoundedVariationOn f (Icc a c) := by
  have h := eVariationOn.Icc_add_Icc f (s := univ) hab hbc (mem_univ b)
  simp only [univ_inter] at h
  unfold BoundedVariationOn at *
  rw [← h]; exact ENNReal.add_ne_top.2 ⟨h1, h2⟩

/-- down, then up: only the climb counts -/
theorem uphill_anti_mono (hab : a ≤ b) (hbc : b ≤ c) (h1 : AntitoneOn f (Icc a b))
    (h2 : MonotoneOn f (Icc b c)) : uphill f a c = f c - f b := by
  rw [uphill_add hab hbc (bv_anti h1 hab) (bv_mono h2 hbc), uphill_anti h1 hab, uphill_mono h2 hbc]
  ring

/-- up, then down: only the climb counts -/
theorem uphill_mono_anti (hab : a ≤ b) (hbc : b ≤ c) (h1 : MonotoneOn f (Icc a b))
    (h2 : AntitoneOn f (Icc b c)) : uphill f a c = f b - f a := by
  rw [uphill_add hab hbc (bv_mono h1 hab) (bv_anti h2 hbc), uphill_mono h1 hab, uphill_anti h2 hbc]
  ring

theorem uphill_nonneg (hab : a ≤ b) (h : BoundedVariationOn f (Icc a b)) : 0 ≤ uphill f a b := by
  have h1 : |f b - f a| ≤ (eVariationOn f (Icc a b)).toReal := by
    have := h.dist_le (left_mem_Icc.2 hab) (right_mem_Icc.2 hab)
    rwa [Real.dist_eq, abs_sub_comm] at this
  have := neg_abs_le (f b - f a)
  unfold uphill; linarith

end JF.Uphill
