import JF.Lemmas.SystemInv3OccPos
import JF.Lemmas.SystemRunOcc
/-!
E46 / C11 for composite objects with cells — the run-level pieces of `c11_occinv_closed3`:

* `TieFreeAll3`: the strong no-tie hypothesis (E9's `TieFreeAll`, per cell system);
* `activeOn_char`: who is active on a cell level, from E10's invariant (at rest: nobody; one chain in leaf mode: the moving point
  mass on level 2 / its composite object on level 1 — and no other unit on that level moves);
* `old_active_stays3`: **`stays` ALSO AT LIFTING COMMITS** — after the commit of ANY event (any kind) whose time is not the time of a
  pending cell-boundary candidate of cell system `l`, the unit that was active on the level of `l` is in the cell it was in
  (pending cell-boundary candidate by C09's freshness + minimality + `Geo` + no tie, and `step_unit_pres`);
* `occ_step3`: the step of C11's full `OccInv` from one leg to the next (`hmove` of `C11.update_inv` discharged).
-/
namespace JF.Sys3Occ
open JF JF.Act JF.Heap JF.Sched JF.Med JF.CW3 JF.C14 JF.MediatorLoop JF.Sys JF.Sys3 JF.Sys3L JF.Composite JF.C12 JF.Kin JF.Footprints3
  JF.Sys2

/-! ### the strong no-tie hypothesis -/

section
variable (mw : ModeWiring)

/-- no event other than the cell-boundary event of cell system `l` itself is committed at exactly the time of a pending
cell-boundary candidate of `l` -/
def TieFreeLegAll3 (p : Pend XTime) (cm : Committed XTime) : Prop :=
  ∀ E l, owner mw.w.wires cm.handler = some E → l < mw.w.labels.length → isCBT mw.w l E = false → NoTie3 mw l p cm

/-- **(ii) `TieFreeAll3`** — counted on runs like `TieFree3`: at a tie a lifting would re-insert the previous active unit, which then
stands ON the cell boundary, under its old cell -/
def TieFreeAll3 (cs : List (Committed XTime)) : Prop :=
  ∀ k cm, cs[k]? = some cm → TieFreeLegAll3 mw (pendOf (fun _ => none) (cs.take k)) cm

end

section
variable {mw : ModeWiring}

theorem not_isCBT_of_cell_false {l : Nat} {E : TaggerIdx} (h : affects (mw.w.tagger E) (.cell l) = false) :
    isCBT mw.w l E = false := by
  unfold affects at h
  unfold isCBT
  cases hk : (mw.w.tagger E).kind <;> simp_all

theorem tieFree3_of_all {cs : List (Committed XTime)} (h : TieFreeAll3 mw cs) : TieFree3 mw cs :=
  fun k cm hk E l hE hl haff => h k cm hk E l hE hl (not_isCBT_of_cell_false haff)

theorem tieFreeAll3_snoc {cs : List (Committed XTime)} {cm : Committed XTime} (h : TieFreeAll3 mw (cs ++ [cm])) :
    TieFreeAll3 mw cs ∧ TieFreeLegAll3 mw (pendOf (fun _ => none) cs) cm := by
  constructor
  · intro k x hk
    have hlt : k < cs.length := (List.getElem?_eq_some_iff.mp hk).1
    have := h k x (by rw [List.getElem?_append_left hlt]; exact hk)
    rwa [List.take_append_of_le_length (Nat.le_of_lt hlt)] at this
  · have := h cs.length cm (by simp)
    simpa using this

theorem tieFreeAll3_take {cs : List (Committed XTime)} (h : TieFreeAll3 mw cs) (k : Nat) : TieFreeAll3 mw (cs.take k) := by
  intro j x hj
  rw [List.getElem?_take] at hj
  split at hj
  · next hjk =>
    have := h j x hj
    rwa [List.take_take, Nat.min_eq_left (Nat.le_of_lt hjk)]
  · cases hj

end

/-! ### who is active on a cell level -/

section
variable {env : Env ℚ}

theorem independent_rest' {d : Nat} {L : List ℚ} (nPer : Nat) {cs : List (CObj ℚ)} (hg : AllGood d L cs) (hr : AllRest cs) :
    CW2.independent nPer (CW2.flags cs) = [] := by
  unfold CW2.independent
  rw [List.flatMap_eq_nil_iff]
  intro k hk
  have hlen : (CW2.flags cs).length = cs.length := by simp [CW2.flags]
  rw [hlen] at hk
  have hk' := List.mem_range.mp hk
  rw [CW2.flags_getElem?, List.getElem?_eq_getElem hk']
  simp only [Option.map_some]
  exact CW2.independentOf_rest (hg _ (List.getElem_mem hk')) (hr _ (List.getElem_mem hk')) nPer k

/-- **who is active on the cell level of internal state `l`**: in a state at rest nobody, and no unit moves; in a one-chain state
(leaf mode) exactly one unit on that level moves — the moving point mass resp. its composite object — and it is the active one -/
theorem activeOn_char {cs : List (CObj ℚ)} (hi : CW2.Inv env.base ⟨cs, .leaf⟩) (l : Nat) :
    (activeOn env l cs = [] ∧ ∀ id y, unitAt cs id = some y → y.vel = none) ∨
    ∃ a x, activeOn env l cs = [a] ∧ unitAt cs (identL env l a) = some x ∧ x.vel ≠ none ∧
      ∀ u y, unitAt cs (identL env l u) = some y → y.vel ≠ none → u = a := by
  obtain ⟨hg, hu, hr⟩ := hi
  have hg' : AllGood env.base.d env.base.L cs := hg
  have hu' : CW2.Uniform env.base.nPer cs := hu
  have rootRest : ∀ (k : Nat) (ck : CObj ℚ), cs[k]? = some ck → RestL ck.leaves → ck.root.vel = none := by
    intro k ck hk hrest
    have g := hg'.get hk
    exact (absent_iff g.wf.2.2 g.vel g.sh g.rnz).mpr hrest
  rcases hr with hr | ⟨sq, hc⟩
  · left
    have hr' : AllRest cs := hr
    refine ⟨?_, ?_⟩
    · unfold activeOn unitsOn CW2.branches
      rw [independent_rest' env.base.nPer hg' hr']
      simp
    · intro id y hy
      match id with
      | [] => simp [unitAt] at hy
      | [a] =>
        simp only [unitAt] at hy
        cases hc : cs[a]? with
        | none => rw [hc] at hy; simp at hy
        | some c =>
          rw [hc] at hy; simp only [Option.map_some, Option.some.injEq] at hy
          subst hy
          exact rootRest a c hc (hr' c (List.mem_of_getElem? hc))
      | [a, b] =>
        simp only [unitAt] at hy
        cases hc : cs[a]? with
        | none => rw [hc] at hy; simp at hy
        | some c =>
          rw [hc] at hy; simp only [Option.bind_some] at hy
          exact hr' c (List.mem_of_getElem? hc) y (List.mem_of_getElem? hy)
      | _ :: _ :: _ :: _ => simp [unitAt] at hy
  · right
    obtain ⟨i, j, v, _, hM⟩ := hc
    have hM' : MovingAt cs i (fun c => OneL j v c.leaves) := hM
    obtain ⟨⟨c, hci, hone⟩, hothers⟩ := id hM'
    obtain ⟨⟨al, hal, halv⟩, hrestj⟩ := id hone
    have hnP : c.leaves.length = env.base.nPer := hu' c (List.mem_of_getElem? hci)
    have hj : j < env.base.nPer := hnP ▸ lt_of_getElem? hal
    have hroot : c.root.vel ≠ none := root_moving (hg'.get hci) (List.mem_of_getElem? hal) (by rw [halv]; simp)
    have hind := CW2.independent_leaf (nPer := env.base.nPer) hg' hu' hM'
    -- the single branch
    have hbr : CW2.branches env.base.nPer (CW2.flags cs) = [⟨i, [j]⟩] := by
      unfold CW2.branches
      rw [hind]
      by_cases hn : env.base.nPer = 1
      · have hj0 : j = 0 := by omega
        simp only [hn, if_true, List.map_cons, List.map_nil, CW2.branchOf]
        rw [CW2.flags_getElem?, hci]
        simp only [Option.map_some, Option.getD_some, CW2.flagOf, List.length_map, hnP, hn, hj0]
        rfl
      · simp only [hn, if_false, List.map_cons, List.map_nil, CW2.branchOf]
    by_cases h1 : ((env.oe l).level == 1) = true
    · refine ⟨i, c.root, ?_, ?_, hroot, ?_⟩
      · unfold activeOn unitsOn; rw [hbr]; simp [h1]
      · unfold identL identOf; simp only [h1, if_true, unitAt, hci, Option.map_some]
      · intro u y hy hym
        unfold identL identOf at hy
        simp only [h1, if_true, unitAt] at hy
        cases hcu : cs[u]? with
        | none => rw [hcu] at hy; simp at hy
        | some cu =>
          rw [hcu] at hy; simp only [Option.map_some, Option.some.injEq] at hy
          subst hy
          by_contra hne
          exact hym (rootRest u cu hcu (hothers u cu hcu hne))
    · have h1' : ((env.oe l).level == 1) = false := by simpa using h1
      have hpos : 0 < env.base.nPer := by omega
      have hdiv : (i * env.base.nPer + j) / env.base.nPer = i := by
        rw [Nat.mul_comm, Nat.mul_add_div hpos, Nat.div_eq_of_lt hj]; rfl
      have hmod : (i * env.base.nPer + j) % env.base.nPer = j := by
        rw [Nat.mul_comm, Nat.mul_add_mod, Nat.mod_eq_of_lt hj]
      refine ⟨i * env.base.nPer + j, al, ?_, ?_, by rw [halv]; simp, ?_⟩
      · unfold activeOn unitsOn; rw [hbr]; simp [h1']
      · unfold identL identOf
        simp only [h1', Bool.false_eq_true, if_false, unitAt, hdiv, hmod, hci, Option.bind_some, hal]
      · intro u y hy hym
        unfold identL identOf at hy
        simp only [h1', Bool.false_eq_true, if_false, unitAt] at hy
        cases hcu : cs[u / env.base.nPer]? with
        | none => rw [hcu] at hy; simp at hy
        | some cu =>
          rw [hcu] at hy; simp only [Option.bind_some] at hy
          cases hyv : y.vel with
          | none => exact absurd hyv hym
          | some w =>
            obtain ⟨e1, e2, _, _⟩ := hM'.src_leaf hcu hy hyv
            have := Nat.div_add_mod u env.base.nPer
            rw [e1, e2] at this
            rw [← this, Nat.mul_comm]

end

/-! ### `stays` also at lifting commits -/

section
variable {env : Env ℚ} {geo : ∀ l, Geo (cwEnv env l)} {mw : ModeWiring} {S : TaggerIdx} {needs : HandlerId → Bool}
variable {cs : List (Committed XTime)} {cl : Committed XTime} {s : Sys3} {E : TaggerIdx} {tl : Time ℚ}

/-- **the unit that was active stays in its cell — for EVERY committed event** (lifting, end of chain, … included) whose time is
not the time of a pending cell-boundary candidate of cell system `l`: the unit active on the level of `l` in the state the leg's
candidates were computed on (`s.cs`) is, after the commit (`s'.cs`), in the cell it was in.  (Units at rest are not displaced:
`composite_step_rest_fixed`; a moving one has a pending cell-boundary candidate — C09's freshness —, which is not before the commit —
minimality —, hence, no tie, strictly later, and until then the unit stays in its cell — `Geo` —: `step_unit_pres`.) -/
theorem old_active_stays3 (H : Hyp3L env mw S) (big : Big3 env mw S needs cs cl s E tl) (hgo : cl.stop = false)
    (ntl : TieFreeLeg3 mw (pendOf (fun _ => none) cs.dropLast) cl)
    {o : Oracle XTime} {cm : Committed XTime} {s' : Sys3} (st : SysStep3 env geo mw S needs s o cm s')
    {l : Nat} (hl : l < mw.w.labels.length) (hnt : NoTie3 mw l (pendOf (fun _ => none) cs) cm) :
    ∀ a, activeOn env l s.cs = [a] → (env.oe l).relevant a = true →
      (env.oe l).cellOf (posOn env.base.nPer (env.oe l).level s'.cs a) =
        (env.oe l).cellOf (posOn env.base.nPer (env.oe l).level s.cs a) := by
  have hs : Med.Static (mwire mw.w S needs) := hyp3_static H
  have pok : PoolsOK mw.w.wires := poolsOK_wires mw.w
  obtain ⟨hi', hrun'⟩ := mid_run3 H big hgo ntl st
  have inv' := runInv3 H hrun'
  obtain ⟨minv', ok, hpushed, hprec', hstop', E', hE0, hrunE0, htr0, hts0⟩ :=
    leg_inv (specLaws xcfg_strictWeak) hs big.med st.leg
  obtain ⟨pmid0, mirr0, _⟩ := mid_mirror hs big.med st.leg
  have pmid : PoolInv mw.w.wires s'.mid := by rw [st.mid']; exact pmid0
  have mirr : ∀ x, (pendPushed (pendOf (fun _ => none) cs) cm x).isSome ↔ ∃ T, x ∈ (getT s'.mid T).running := by
    rw [st.mid']; exact mirr0
  obtain ⟨t', E'', ht'eq, hE'', hcom⟩ := st.ev
  have hcands := st.cands
  rw [big.med.rel.last, big.time] at hcands
  have normP : ∀ h t, pendPushed (pendOf (fun _ => none) cs) cm h = some t → NormX t := by
    intro h t e
    rcases pushAll_some _ _ e with h1 | h1
    · exact big.norm h t h1
    · rw [hpushed] at h1; exact (pushed_facts3 (geo := geo) H.supp big.tnorm hcands h1).1
  have midcb : ∀ hb tb, isCBH mw l hb →
      pendPushed (pendOf (fun _ => none) cs) cm hb = some tb → ∃ τ, tb = .fin τ ∧ Normalised τ ∧ Track env l s.cs tl τ := by
    intro hb tb hcb e
    rcases pushAll_some _ _ e with h1 | h1
    · exact big.cb l hl hgo ntl hb tb hcb h1
    · rw [hpushed] at h1; exact (pushed_facts3 (geo := geo) H.supp big.tnorm hcands h1).2.2 l hcb
  have ht'n : Normalised t' := by
    have := normP _ _ ok.pending
    rw [ht'eq] at this; exact this
  have hle : val tl ≤ val t' := by
    have := ok.guard
    rw [ht'eq, big.time] at this
    exact (xlt_false_iff ht'n big.tnorm).mp this
  obtain ⟨e', _, hte, ⟨ha', _⟩, hcs'⟩ := hcom
  intro a hm hrel
  have hLeq : env.base.L = env.base.L := rfl
  cases hu : unitAt s.cs (identOf env.base.nPer (env.oe l).level a) with
  | none =>
    have h2 := step_unit_isSome env.base.L s.cs e' ha' (identOf env.base.nPer (env.oe l).level a)
    rw [hu, ← hcs'] at h2
    have h3 : unitAt s'.cs (identOf env.base.nPer (env.oe l).level a) = none := by
      cases h4 : unitAt s'.cs (identOf env.base.nPer (env.oe l).level a) with
      | none => rfl
      | some _ => rw [h4] at h2; simp at h2
    rw [posOn_unitAt, posOn_unitAt, hu, h3]
  | some u =>
    cases hv : u.vel with
    | none =>
      obtain ⟨u', hu', hp⟩ := composite_step_rest_fixed env.base.L s.cs e' ha' hu hv
      rw [← hcs'] at hu'
      rw [posOn_unitAt, posOn_unitAt, hu, hu']
      simp [hp]
    | some v =>
      obtain ⟨B, hB, hBc, hBl, _, hBr⟩ := cbWired3_spec H.cb hl
      have hBa : (getT s'.mid B).activated = true := by
        have := hBr _ inv'.reach
        rw [aGet_absOf] at this; exact this
      obtain ⟨hb, hhb⟩ := cb_exists3 (rs := ⟨s'.mid, s'.ids, ⟨_, hi'⟩⟩) inv' hl hB hBc hBl hBa hm hrel
      have hcbh : isCBH mw l hb := ⟨B, owner_of_running pok pmid hhb, hBl⟩
      obtain ⟨tb, htb⟩ := Option.isSome_iff_exists.mp ((mirr hb).mpr ⟨B, hhb⟩)
      obtain ⟨τ, hτ, hτn, htrack⟩ := midcb hb tb hcbh htb
      have hlt : val t' < val τ := by
        have hmin := ok.minimal hb tb htb (by rw [hτ]; rfl)
        rw [hτ, ht'eq] at hmin
        have h1 := (xlt_false_iff hτn ht'n).mp hmin
        refine lt_of_le_of_ne h1 ?_
        intro heq
        apply hnt hb hcbh
        rw [htb, hτ, ht'eq, normalised_ext hτn ht'n heq.symm]
      obtain ⟨a0, u0, v0, ts0, hact0, hu0, hv0, hts0', hle0, hpl, hvl, hst0⟩ := htrack
      have ha0 : a0 = a := by rw [hm] at hact0; simpa using hact0.symm
      subst ha0
      have hu0' : unitAt s.cs (identOf env.base.nPer (env.oe l).level a0) = some u0 := hu0
      rw [hu] at hu0'
      cases hu0'
      obtain ⟨u', w, hu', hw, hpw⟩ := step_unit_pres env.base.L s.cs e' ha' hu
        (P := fun x => x.vel = some v0 ∧ ∃ ts, x.ts = some ts ∧ val ts ≤ val t' ∧ x.pos.length = env.base.L.length ∧
          v0.length = env.base.L.length ∧ (env.oe l).cellOf x.pos = (env.oe l).cellOf u.pos ∧
          StayUntil (cwEnv env l) x.pos v0 ts τ)
        ⟨hv0, ts0, hts0', le_trans hle0 hle, hpl, hvl, rfl, hst0⟩
        (by rw [hte]; exact fun x hx => track_timeSlice (env := env) (l := l) H.box.2 hlt x hx)
      rw [← hcs'] at hu'
      rw [posOn_unitAt, posOn_unitAt, hu, hu']
      simp only [Option.map_some, Option.getD_some]
      rw [hpw]
      exact hw.2.choose_spec.2.2.2.2.1

end

/-! ### the occupancy step -/

section
variable (env : Env ℚ) (l : Nat)

/-- the unit with encoded identifier `u` on the cell level of internal state `l` exists (in the state `cs0`; the set of units does
not change along a run) and passes the charge filter of the occupancy -/
def relG (cs0 : List (CObj ℚ)) (u : Nat) : Bool := (unitAt cs0 (identL env l u)).isSome && (env.oe l).relevant u

/-- the cell that contains the position of unit `u` in the state `cs` (for the units the occupancy keeps track of) -/
def cellG (cs0 cs : List (CObj ℚ)) (u : Nat) : Nat :=
  if relG env l cs0 u then (env.oe l).cellOf (posOn env.base.nPer (env.oe l).level cs u) else 0

end

/-- the same units exist -/
def SameUnits (cs0 cs : List (CObj ℚ)) : Prop := ∀ id, (unitAt cs id).isSome = (unitAt cs0 id).isSome

theorem SameUnits.refl (cs : List (CObj ℚ)) : SameUnits cs cs := fun _ => rfl

section
variable {env : Env ℚ} {l : Nat}

/-- **the occupancy step**: from C11's `OccInv` for the state one leg worked on (`csPrev`) to `OccInv` for the state the next leg
works on (`csN`), the premise `hmove` of `JF.C11.update_inv` discharged: units at rest are not displaced (`hrest`), and the unit that
stops being active has not left its cell (`hstays`) -/
theorem occ_step3 {cs0 csPrev csN : List (CObj ℚ)} {occ occ' : Occ.State}
    (ih : C11.OccInv (relG env l cs0) (cellG env l cs0 csPrev) occ)
    (hinv : CW2.Inv env.base ⟨csPrev, .leaf⟩)
    (hcons : ConsistentOcc (env.oe l).relevant (activeOn env l csPrev) occ)
    (hinvN : CW2.Inv env.base ⟨csN, .leaf⟩) (su : SameUnits cs0 csPrev) (suN : SameUnits cs0 csN)
    (hrest : ∀ id u, unitAt csPrev id = some u → u.vel = none → ∃ u', unitAt csN id = some u' ∧ u'.pos = u.pos)
    (hstays : ∀ a, activeOn env l csPrev = [a] → (env.oe l).relevant a = true → activeOn env l csN ≠ [a] →
      (env.oe l).cellOf (posOn env.base.nPer (env.oe l).level csN a) =
        (env.oe l).cellOf (posOn env.base.nPer (env.oe l).level csPrev a))
    (hocc : occAfter env.base.nPer (env.oe l) occ csN = some occ') :
    C11.OccInv (relG env l cs0) (cellG env l cs0 csN) occ' := by
  obtain ⟨a', hm, hu⟩ := occAfter_some hocc
  have hm' : activeOn env l csN = [a'] := hm
  -- the new active unit exists
  have hex : (unitAt cs0 (identL env l a')).isSome = true := by
    rcases activeOn_char hinvN l with ⟨h0, _⟩ | ⟨a, x, ha, hx, _, _⟩
    · rw [hm'] at h0; cases h0
    · rw [hm'] at ha
      have : a' = a := by simpa using ha
      subst this
      rw [← suN, hx]; rfl
  set new : Occ.UnitIn := unitIn env.base.nPer (env.oe l) csN a' with hnew
  have hupd : Occ.update occ new = Occ.update occ { new with cell := cellG env l cs0 csN a' } := by
    by_cases hr : (env.oe l).relevant a' = true
    · have : cellG env l cs0 csN a' = new.cell := by
        unfold cellG relG
        simp [hex, hr, hnew, unitIn]
      rw [this]
    · have hr' : new.relevant = false := by simpa [hnew, unitIn] using hr
      apply JF.Sys.update_cell_indep hr'
      intro hid
      rcases ih.active with ⟨hn, _⟩ | ⟨b, hb, _, hrb⟩
      · rw [hn] at hid; cases hid
      · rw [hb] at hid
        have : b = a' := by simpa [hnew, unitIn] using hid
        subst this
        unfold relG at hrb
        simp only [Bool.and_eq_true] at hrb
        exact hr hrb.2
  rw [hupd] at hu
  have hmove : ∀ u, ¬(u = a' ∧ occ.activeId = some u) → cellG env l cs0 csN u = cellG env l cs0 csPrev u := by
    intro u hnu
    unfold cellG
    by_cases hr : relG env l cs0 u = true
    · simp only [hr, if_true]
      have hr2 := hr
      unfold relG at hr2
      simp only [Bool.and_eq_true] at hr2
      obtain ⟨hue, hurel⟩ := hr2
      have hup : (unitAt csPrev (identL env l u)).isSome = true := by rw [su]; exact hue
      obtain ⟨x, hx⟩ := Option.isSome_iff_exists.mp hup
      have hx' : unitAt csPrev (identOf env.base.nPer (env.oe l).level u) = some x := hx
      cases hv : x.vel with
      | none =>
        obtain ⟨x', hx1, hp⟩ := hrest _ x hx hv
        have hx1' : unitAt csN (identOf env.base.nPer (env.oe l).level u) = some x' := hx1
        rw [posOn_unitAt, posOn_unitAt, hx', hx1']
        simp [hp]
      | some w =>
        rcases activeOn_char hinv l with ⟨_, h0⟩ | ⟨a, x0, ha, _, _, huniq⟩
        · rw [h0 _ x hx] at hv; cases hv
        · have hua : u = a := huniq u x hx (by rw [hv]; simp)
          subst hua
          have hact : occ.activeId = some u := by
            have := hcons.1
            rw [ha] at this
            simpa [expectedActive, hurel] using this
          have hne : u ≠ a' := fun e => hnu ⟨e, hact⟩
          refine hstays u ha hurel ?_
          rw [hm']
          intro e
          exact hne (by simpa using e.symm)
    · simp [hr]
  have hrel : ({ new with cell := cellG env l cs0 csN a' } : Occ.UnitIn).relevant =
      relG env l cs0 ({ new with cell := cellG env l cs0 csN a' } : Occ.UnitIn).id := by
    show (env.oe l).relevant a' = relG env l cs0 a'
    unfold relG; rw [hex]; simp
  obtain ⟨s', he, hinv'⟩ := C11.update_inv (cellOf' := cellG env l cs0 csN) _ ih hrel rfl hmove
  rw [he] at hu
  cases hu
  exact hinv'

end

/-! ### runs with their initial state -/

section
variable (env : Env ℚ) (geo : ∀ l, Geo (cwEnv env l)) (mw : ModeWiring) (S : TaggerIdx) (needs : HandlerId → Bool)

/-- `Reach3` with the initial state as a parameter -/
inductive Reach3From (s0 : Sys3) : List (Oracle XTime) → List (Committed XTime) → Sys3 → Prop
  | init (h : Init3 env mw s0) : Reach3From s0 [] [] s0
  | step {os : List (Oracle XTime)} {cs : List (Committed XTime)} {s s' : Sys3} {o : Oracle XTime} {cm : Committed XTime}
      (prev : Reach3From s0 os cs s) (hgo : ∀ cl, cs.getLast? = some cl → cl.stop = false)
      (hstep : SysStep3 env geo mw S needs s o cm s') : Reach3From s0 (os ++ [o]) (cs ++ [cm]) s'

end

section
variable {env : Env ℚ} {geo : ∀ l, Geo (cwEnv env l)} {mw : ModeWiring} {S : TaggerIdx} {needs : HandlerId → Bool}

theorem Reach3From.reach {s0 : Sys3} {os : List (Oracle XTime)} {cs : List (Committed XTime)} {s : Sys3}
    (h : Reach3From env geo mw S needs s0 os cs s) : Reach3 env geo mw S needs os cs s := by
  induction h with
  | init h => exact .init _ h
  | step _ hgo hstep ih => exact .step ih hgo hstep

theorem Reach3From.init0 {s0 : Sys3} {os : List (Oracle XTime)} {cs : List (Committed XTime)} {s : Sys3}
    (h : Reach3From env geo mw S needs s0 os cs s) : Init3 env mw s0 := by
  induction h with
  | init h => exact h
  | step _ _ _ ih => exact ih

/-- every run has an initial state -/
theorem reach3_from {os : List (Oracle XTime)} {cs : List (Committed XTime)} {s : Sys3}
    (h : Reach3 env geo mw S needs os cs s) : ∃ s0, Reach3From env geo mw S needs s0 os cs s := by
  induction h with
  | init s h => exact ⟨s, .init h⟩
  | step _ hgo hstep ih =>
    obtain ⟨s0, h0⟩ := ih
    exact ⟨s0, .step h0 hgo hstep⟩

end

end JF.Sys3Occ
