import JF.Num.Rounded
import Mathlib.Tactic.Positivity
import Mathlib.Tactic.FieldSimp
/-!
The hypotheses of `FloatModel` are satisfiable: two concrete instances.

* `FloatModel.exact`   : the trivial one, no rounding at all (`rnd = id`, every rational representable, `eps = 0`);
* `FloatModel.fixed k` : a GENUINELY ROUNDING one: fixed-point numbers with `k ≥ 1` fractional bits, i.e.
  `F = {m / 2^k : m ∈ ℤ}`, rounding toward zero (IEEE mode `roundTowardZero`).  This is what a binary
  format looks like whose whole range is "subnormal": absolute spacing `2^-k` everywhere, so the relative
  error bound `2^-k |x|` holds from `tiny = 1` upwards, and below `tiny` sums of representable numbers are
  exact - exactly the two-regime structure (`rel_err` / `add_tiny`) that `FloatModel` abstracts from
  binary64.

The instance that matters - IEEE-754 binary64 round-to-nearest-even itself, `eps = 2^-53`, `tiny = 2^-1022` - is
constructed and proved in `JF/Lemmas/RoundedBinary.lean` (`FloatModel.binary64`).
-/
namespace JF
namespace FloatModel

/-- no rounding at all -/
def exact : FloatModel where
  rnd := id
  F := Set.univ
  eps := 0
  tiny := 0
  huge := 2 ^ 55
  rnd_mem _ := Set.mem_univ _
  rnd_id _ _ := rfl
  rnd_mono := monotone_id
  rnd_neg _ := rfl
  eps_nonneg := le_refl _
  eps_le_half := by norm_num
  huge_ge := le_refl _
  rel_err x _ _ := by simp
  add_tiny _ _ _ _ _ := Set.mem_univ _
  int_mem _ _ := Set.mem_univ _
  floor_mem _ _ _ := Set.mem_univ _
  fract_mem _ _ _ := Set.mem_univ _

/-- round toward zero to a multiple of `1/g` -/
def rz (g x : ℚ) : ℚ := if 0 ≤ x then ((⌊x * g⌋ : ℤ) : ℚ) / g else ((⌈x * g⌉ : ℤ) : ℚ) / g

theorem rz_grid {g : ℚ} (hg : 0 < g) (m : ℤ) : rz g ((m:ℚ) / g) = (m:ℚ) / g := by
  unfold rz
  have e : (m:ℚ) / g * g = m := by field_simp
  split <;> simp [e]

theorem rz_mono {g : ℚ} (hg : 0 < g) : Monotone (rz g) := by
  intro a b hab
  unfold rz
  have hag : a * g ≤ b * g := mul_le_mul_of_nonneg_right hab hg.le
  by_cases ha : 0 ≤ a
  · have hb : 0 ≤ b := le_trans ha hab
    simp only [ha, hb, if_true]
    exact div_le_div_of_nonneg_right (by exact_mod_cast Int.floor_le_floor hag) hg.le
  · by_cases hb : 0 ≤ b
    · simp only [ha, hb, if_true, if_false]
      have h1 : ((⌈a * g⌉ : ℤ) : ℚ) ≤ 0 := by
        have : ⌈a * g⌉ ≤ 0 := Int.ceil_le.mpr (by
          push_cast; exact mul_nonpos_of_nonpos_of_nonneg (le_of_lt (not_le.mp ha)) hg.le)
        exact_mod_cast this
      have h2 : (0:ℚ) ≤ ((⌊b * g⌋ : ℤ) : ℚ) := by
        have : 0 ≤ ⌊b * g⌋ := Int.floor_nonneg.mpr (mul_nonneg hb hg.le)
        exact_mod_cast this
      calc ((⌈a * g⌉ : ℤ) : ℚ) / g ≤ 0 := div_nonpos_of_nonpos_of_nonneg h1 hg.le
        _ ≤ ((⌊b * g⌋ : ℤ) : ℚ) / g := div_nonneg h2 hg.le
    · simp only [ha, hb, if_false]
      exact div_le_div_of_nonneg_right (by exact_mod_cast Int.ceil_le_ceil hag) hg.le

theorem rz_neg (g x : ℚ) : rz g (-x) = -rz g x := by
  unfold rz
  rcases lt_trichotomy x 0 with h | h | h
  · have h1 : ¬ (0 ≤ x) := not_le.mpr h
    have h2 : 0 ≤ -x := by linarith
    simp only [h1, h2, if_true, if_false, neg_mul, Int.floor_neg, Int.cast_neg, neg_div]
  · subst h; simp
  · have h1 : 0 ≤ x := h.le
    have h2 : ¬ (0 ≤ -x) := by linarith
    simp only [h1, h2, if_true, if_false, neg_mul, Int.ceil_neg, Int.cast_neg, neg_div]

/-- the absolute error of rounding toward zero is below one grid step -/
theorem rz_abs_err {g : ℚ} (hg : 0 < g) (x : ℚ) : |rz g x - x| ≤ 1 / g := by
  have key : ∀ a : ℚ, |a - x * g| ≤ 1 → |a / g - x| ≤ 1 / g := by
    intro a h
    have e : a / g - x = (a - x * g) / g := by field_simp
    rw [e, abs_div, abs_of_pos hg]; exact div_le_div_of_nonneg_right h hg.le
  unfold rz
  split
  · have h1 := Int.floor_le (x * g)
    have h2 := Int.lt_floor_add_one (x * g)
    apply key; rw [abs_le]; constructor <;> linarith
  · have h1 := Int.le_ceil (x * g)
    have h2 := Int.ceil_lt_add_one (x * g)
    apply key; rw [abs_le]; constructor <;> linarith

/-- fixed point with `k ≥ 1` fractional bits, rounding toward zero -/
def fixed (k : ℕ) (hk : 1 ≤ k) : FloatModel :=
  have hg : (0:ℚ) < 2 ^ k := by positivity
  { rnd := rz (2 ^ k)
    F := {x | ∃ m : ℤ, x = (m:ℚ) / 2 ^ k}
    eps := 1 / 2 ^ k
    tiny := 1
    huge := 2 ^ 55
    rnd_mem := fun x => by
      unfold rz; split
      · exact ⟨_, rfl⟩
      · exact ⟨_, rfl⟩
    rnd_id := fun x ⟨m, hm⟩ => by rw [hm]; exact rz_grid hg m
    rnd_mono := rz_mono hg
    rnd_neg := rz_neg _
    eps_nonneg := by positivity
    eps_le_half := by
      have : (2:ℚ) ^ 1 ≤ 2 ^ k := pow_le_pow_right₀ (by norm_num) hk
      rw [div_le_div_iff₀ hg (by norm_num)]; linarith
    huge_ge := le_refl _
    rel_err := fun x h1 _ => by
      calc |rz (2 ^ k) x - x| ≤ 1 / 2 ^ k := rz_abs_err hg x
        _ = 1 / 2 ^ k * 1 := (mul_one _).symm
        _ ≤ 1 / 2 ^ k * |x| := mul_le_mul_of_nonneg_left h1 (by positivity)
    add_tiny := fun a b ⟨m, hm⟩ ⟨n, hn⟩ _ => ⟨m + n, by rw [hm, hn]; push_cast; ring⟩
    int_mem := fun n _ => ⟨n * 2 ^ k, by push_cast; field_simp⟩
    floor_mem := fun x _ _ => ⟨⌊x⌋ * 2 ^ k, by push_cast; field_simp⟩
    fract_mem := fun x ⟨m, hm⟩ _ => ⟨m - ⌊x⌋ * 2 ^ k, by rw [hm]; push_cast; field_simp⟩ }

/-- the fixed-point model really rounds: `rnd (1/3) = 1/4 ≠ 1/3` with two fractional bits -/
example : (fixed 2 (by norm_num)).rnd (1 / 3) = 1 / 4 := by
  show rz (2 ^ 2) (1 / 3) = 1 / 4
  unfold rz
  have : ⌊(1 / 3 : ℚ) * 2 ^ 2⌋ = 1 := by rw [Int.floor_eq_iff]; norm_num
  norm_num [this]

end FloatModel
end JF
