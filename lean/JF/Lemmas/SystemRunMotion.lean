import JF.Lemmas.SystemRunGeo
import JF.Props.C08
/-!
The concrete motion relation of C08 for the point-mass world: unit `u` has in `us'` the velocity it has in `us`, the same position
if it is at rest, and — if it moves — a position on the straight line through its old position along its velocity, up to whole box
lengths.  The relation is reflexive and transitive for ALL states (as `JF.C08.Motion` demands), and every event that the footprint
table declares not motion-changing (`keep`, a smooth `snap`, or nothing at all) preserves it for every unit of a well-formed state.
-/
namespace JF.Sys
open JF JF.Act JF.CW JF.Kin JF.C14

/-- `Q` lies on the straight line through `P` with direction `v`, up to whole box lengths -/
def OnLine (L P v Q : List ℚ) : Prop :=
  P.length = Q.length ∧ ∃ d : ℚ, ∀ i (hP : i < P.length) (hQ : i < Q.length),
    ∃ k : ℤ, Q[i] = P[i] + v.getD i 0 * d + k * L.getD i 0

theorem OnLine.refl (L P v : List ℚ) : OnLine L P v P :=
  ⟨rfl, 0, fun i _ _ => ⟨0, by simp⟩⟩

theorem OnLine.trans {L P v Q R : List ℚ} (h1 : OnLine L P v Q) (h2 : OnLine L Q v R) : OnLine L P v R := by
  obtain ⟨l1, d1, e1⟩ := h1
  obtain ⟨l2, d2, e2⟩ := h2
  refine ⟨l1.trans l2, d1 + d2, fun i hP hR => ?_⟩
  have hQ : i < Q.length := by omega
  obtain ⟨k1, a1⟩ := e1 i hP hQ
  obtain ⟨k2, a2⟩ := e2 i hQ hR
  exact ⟨k1 + k2, by rw [a2, a1]; push_cast; ring⟩

/-- unit `u` keeps its motion from `us` to `us'` -/
def SameMotion (L : List ℚ) (us us' : List (PUnit ℚ)) (u : Nat) : Prop :=
  match us[u]?, us'[u]? with
  | some x, some y => x.vel = y.vel ∧ (x.vel = none → x.pos = y.pos) ∧ ∀ v, x.vel = some v → OnLine L x.pos v y.pos
  | none, none => True
  | _, _ => False

theorem SameMotion.refl (L : List ℚ) (us : List (PUnit ℚ)) (u : Nat) : SameMotion L us us u := by
  unfold SameMotion
  cases us[u]? with
  | none => trivial
  | some x => exact ⟨rfl, fun _ => rfl, fun v _ => OnLine.refl L x.pos v⟩

theorem SameMotion.trans {L : List ℚ} {us1 us2 us3 : List (PUnit ℚ)} {u : Nat} (h1 : SameMotion L us1 us2 u)
    (h2 : SameMotion L us2 us3 u) : SameMotion L us1 us3 u := by
  unfold SameMotion at h1 h2 ⊢
  cases e1 : us1[u]? <;> cases e2 : us2[u]? <;> cases e3 : us3[u]? <;> rw [e1, e2] at h1 <;> rw [e2, e3] at h2 <;>
    simp only at h1 h2 ⊢ <;> try trivial
  next x y z =>
    obtain ⟨a1, a2, a3⟩ := h1
    obtain ⟨b1, b2, b3⟩ := h2
    refine ⟨a1.trans b1, fun hx => (a2 hx).trans (b2 (a1 ▸ hx)), fun v hv => ?_⟩
    exact (a3 v hv).trans (b3 v (a1 ▸ hv))

/-- the motion world of configuration `c`: units are point masses (the first entry of each identifier of an in-state tuple) -/
def motionOf (env : Env ℚ) (c : Wiring) : C08.Motion (G env c) Nat where
  units ids := (ids.getD []).filterMap List.head?
  same g g' u := SameMotion env.L g.1.us g'.1.us u
  same_refl g u := SameMotion.refl env.L g.1.us u
  same_trans _ _ _ _ h1 h2 := h1.trans h2
  moves E := affects (c.tagger E) .motion = true
  bound T := T < c.n ∧ motionBound (c.tagger T) = true

/-! ### events that do not change any unit's motion -/

theorem setCoord_getElem : ∀ (P : List ℚ) (d : Nat) (x : ℚ) (i : Nat) (h : i < (setCoord P d x).length) (h' : i < P.length),
    (setCoord P d x)[i] = if i = d then x else P[i]
  | [], _, _, _, _, h' => by simp at h'
  | p :: P, 0, x, 0, _, _ => by simp [setCoord]
  | p :: P, 0, x, i + 1, _, _ => by simp [setCoord]
  | p :: P, d + 1, x, 0, _, _ => by simp [setCoord]
  | p :: P, d + 1, x, i + 1, h, h' => by
      simp only [setCoord, List.getElem_cons_succ]
      rw [setCoord_getElem P d x i (by simpa [setCoord] using h) (by simpa using h')]
      simp

/-- a time slice keeps a well-formed unit on its line -/
theorem onLine_timeSlice {L : List ℚ} (hL : PosBox L) (t : Time ℚ) {x : PUnit ℚ} (hw : WFU L.length x) {v : List ℚ}
    (hv : x.vel = some v) : OnLine L x.pos v (timeSlice Ops.rat L t x).pos := by
  cases hs : x.ts with
  | none => have := hw.2.1; simp [hv, hs] at this
  | some s =>
    rw [timeSlice_of_moving L t x hv hs]
    have hpl := hw.1
    have hvl := hw.2.2 v hv
    have hsl := sliceVec_length L x.pos v (Time.sub t s) hpl hvl
    refine ⟨by simp only; omega, Time.sub t s, fun i hP hQ => ?_⟩
    have hiL : i < L.length := by omega
    have hiv : i < v.length := by omega
    simp only at hQ ⊢
    rw [sliceVec_getElem L x.pos v _ i hiL hP hiv hQ, sliceCoord_eq _ _ _ _ (hL _ (List.getElem_mem hiL))]
    refine ⟨-⌊(x.pos[i] + v[i] * Time.sub t s) / L[i]⌋, ?_⟩
    rw [← List.getElem_eq_getD (h := hiv) 0, ← List.getElem_eq_getD (h := hiL) 0]
    push_cast; ring

/-- `keep`: every unit keeps its motion -/
theorem same_keep {L : List ℚ} (hL : PosBox L) {us : List (PUnit ℚ)} (hwf : ∀ u ∈ us, WFU L.length u) (t : Time ℚ) (u : Nat) :
    SameMotion L us (step Ops.rat L us (.keep t)) u := by
  unfold SameMotion
  simp only [step, List.getElem?_map]
  cases hx : us[u]? with
  | none => trivial
  | some x =>
    simp only [Option.map_some]
    refine ⟨(timeSlice_vel L t x).symm, fun h => by rw [timeSlice_of_rest L t x h], fun v hv => ?_⟩
    exact onLine_timeSlice hL t (hwf x (List.mem_of_getElem? hx)) hv

/-- a smooth `snap` (the written coordinate is congruent to the time-sliced one): every unit keeps its motion -/
theorem same_snap {L : List ℚ} (hL : PosBox L) {us : List (PUnit ℚ)} (hwf : ∀ u ∈ us, WFU L.length u) (t : Time ℚ) (d : Nat)
    (x : ℚ) (hsm : Smooth L us (.snap t d x)) (u : Nat) : SameMotion L us (step Ops.rat L us (.snap t d x)) u := by
  unfold SameMotion
  simp only [step, List.getElem?_map]
  cases hx : us[u]? with
  | none => trivial
  | some y =>
    simp only [Option.map_some]
    have hm : y ∈ us := List.mem_of_getElem? hx
    have hw := hwf y hm
    by_cases hmv : isMoving y = true
    · rw [if_pos (by rw [timeSlice_isMoving]; exact hmv)]
      refine ⟨(timeSlice_vel L t y).symm, fun h => by simp [isMoving, h] at hmv, fun v hv => ?_⟩
      obtain ⟨hlen, dd, hline⟩ := onLine_timeSlice hL t hw hv
      refine ⟨by simp only [setCoord_length]; exact hlen, dd, fun i hP hQ => ?_⟩
      simp only at hQ ⊢
      have hQ' : i < (timeSlice Ops.rat L t y).pos.length := by simpa [setCoord_length] using hQ
      rw [setCoord_getElem _ d x i hQ hQ']
      by_cases hid : i = d
      · subst hid
        simp only [if_true]
        obtain ⟨k0, e0⟩ := hline i hP hQ'
        have hiL : i < L.length := by rw [← hw.1]; exact hP
        obtain ⟨k1, e1⟩ := hsm y hm hmv hiL hQ'
        refine ⟨k0 + k1, ?_⟩
        rw [e1, e0, ← List.getElem_eq_getD (h := hiL) 0]
        push_cast; ring
      · simp only [hid, if_false]
        exact hline i hP hQ'
    · have hmv' : isMoving y = false := by simpa using hmv
      rw [if_neg (by rw [timeSlice_isMoving]; simp [hmv'])]
      have hrest : y.vel = none := by
        cases hv : y.vel with
        | none => rfl
        | some v => simp [isMoving, hv] at hmv'
      rw [timeSlice_of_rest L t y hrest]
      exact ⟨rfl, fun _ => rfl, fun v hv => by rw [hrest] at hv; cases hv⟩

end JF.Sys
