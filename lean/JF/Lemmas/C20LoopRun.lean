import JF.Lemmas.C20LoopEnv
import JF.Props.MediatorLoop
/-!
# C20 over the concrete loop, part 2: `runSP medEnv` unfolds to the legs of `JF.Med.leg`

One successful `JF.Med.leg` is exactly one `activate`/`choose`/`trash` round of `medEnv` (`leg_raw`), hence one step of
`JF.MP.runSP (medEnv …)` (`runSP_succ_of_leg`); along a run the ghost dictionary of pending candidate times is what the handlers
computed at their last start (`Link`), so the committed time of the scheduler is `timeOf c (last c) (hist (last c))`.
-/
namespace JF.C20Loop
open JF JF.Act JF.Heap JF.Sched JF.Med JF.MediatorLoop

variable {κ : Type}

/-! ### small facts about the push loop -/

theorem pushLoop_congr (M : MWire) (I : SchedI κ) (o o' : Oracle κ) : ∀ (created : List (HandlerId × IdTuple)) (s : I.σ),
    (∀ h ∈ created.map Prod.fst, o.cand h = o'.cand h) → pushLoop M I o s created = pushLoop M I o' s created := by
  intro created
  induction created with
  | nil => intro s _; rfl
  | cons a rest ih =>
    intro s hc
    obtain ⟨h, ids⟩ := a
    unfold pushLoop
    rw [hc h (by simp)]
    split
    · rfl
    · exact ih _ (fun x hx => hc x (by simp [hx]))

theorem timeIn_map (dflt : κ) (f : Nat → κ) : ∀ (created : List (HandlerId × IdTuple)) (h : Nat), h ∈ created.map Prod.fst →
    timeIn dflt (created.map fun q => (q.1, f q.1)) h = f h := by
  intro created
  induction created with
  | nil => intro h hh; simp at hh
  | cons a rest ih =>
    intro h hh
    unfold timeIn
    rw [List.map_cons, List.lookup_cons]
    by_cases ha : h = a.1
    · subst ha; simp
    · have : (h == a.1) = false := by simpa using ha
      rw [this]
      simp only [List.map_cons, List.mem_cons, ha, false_or] at hh
      exact ih h hh

/-! ### one leg = one round of the environment -/

section leg
variable {cfg : Cfg κ} {I : SchedI κ} {vis : κ → Bool} {R : I.σ → Pend κ → κ → Prop} {M : MWire}

/-- a successful `JF.Med.leg` is the composition of the three operations of the environment, on the pushes the single-process
mediator makes -/
theorem leg_raw (L : Laws cfg I vis R) (hs : Static M) (dflt : κ) {st st1 : MedState I.σ} {p : Pend κ} {l : κ}
    {o : Oracle κ} {c : Committed κ} (inv : MInv M R st p l) (e : leg M I st o = .ok (st1, c)) :
    ∃ (a1 : ActSt) (s2 : I.σ),
      actRaw M I o.yields (.boundary st) = (c.created.map Prod.fst, .activated st a1 c.created) ∧
      chooseRaw M I dflt (.activated st a1 c.created) (c.created.map fun q => (q.1, o.cand q.1)) =
        (c.handler, .chosen a1 s2 c.handler) ∧
      trashRaw M I (.chosen a1 s2 c.handler) c.handler = (c.trashed, .boundary st1) := by
  obtain ⟨_, _, _, _, _, E, _, hrunE, _, _⟩ := leg_inv L hs inv e
  unfold leg at e
  simp only at e
  split at e
  · cases e
  · cases e
  · cases e
  · next created hcr =>
    split at e
    · cases e
    · next s1 hpush =>
      split at e
      · cases e
      · cases e
      · next h t hget =>
        split at e
        · cases e
        · cases e
        · next trashed htr =>
          split at e
          · cases e
          · next s3 htall =>
            simp only [Except.ok.injEq, Prod.mk.injEq] at e
            obtain ⟨rfl, rfl⟩ := e
            refine ⟨(getToRun M.w M.S st.act st.preceding o.yields).1, (I.get s1).1, ?_, ?_, ?_⟩
            · have hne : (runningList (getToRun M.w M.S st.act st.preceding o.yields).1.ts).isEmpty = false := by
                have : h ∈ runningList (getToRun M.w M.S st.act st.preceding o.yields).1.ts :=
                  (mem_runningList _ _).mpr ⟨E, hrunE⟩
                cases hl : runningList (getToRun M.w M.S st.act st.preceding o.yields).1.ts with
                | nil => rw [hl] at this; cases this
                | cons _ _ => rfl
              simp only [actRaw, hcr, hne]
              rfl
            · have hk : (created.map fun q => (q.1, o.cand q.1)).map Prod.fst = created.map Prod.fst := by
                rw [List.map_map]; rfl
              have hp : pushLoop M I ⟨fun _ => [], timeIn dflt (created.map fun q => (q.1, o.cand q.1))⟩ st.sched created =
                  .ok s1 := by
                rw [← hpush]
                exact pushLoop_congr M I _ _ created _ (fun x hx => timeIn_map dflt o.cand created x hx)
              simp only [chooseRaw, hk, hp, hget]
              rfl
            · simp only [trashRaw, htr, htall]
              rfl

end leg

/-! ### the oracle values of a run of the environment -/

section run
variable {G O : Type}

/-- the inputs of the legs `n, n+1, …` of `JF.Med.runLegs` along a sequence of commits starting in global state `g`: the yields of
the taggers on the global state at the start of the leg, and the candidate time every handler would compute in that leg -/
def oracles (W : World G O κ) : Nat → G → List (MP.Commit G κ O) → List (Oracle κ)
  | _, _, [] => []
  | n, g, c :: cs => ⟨W.yields g, fun h => W.cand h n g⟩ :: oracles W (n + 1) c.post cs

theorem oracles_length (W : World G O κ) : ∀ (cs : List (MP.Commit G κ O)) (n : Nat) (g : G),
    (oracles W n g cs).length = cs.length := by
  intro cs
  induction cs with
  | nil => intro _ _; rfl
  | cons c cs ih => intro n g; simp [oracles, ih]

/-- the ghost dictionary of pending candidate times holds what the handlers computed at their last start, which was in an earlier
leg -/
def Link (W : World G O κ) (p : Pend κ) (last : Nat → Nat) (hist : Nat → G) (n : Nat) : Prop :=
  ∀ h t, p h = some t → last h < n ∧ t = W.cand h (last h) (hist (last h))

theorem link_pushed {cfg : Cfg κ} {vis : κ → Bool} {W : World G O κ} {p : Pend κ} {last : Nat → Nat} {hist : Nat → G} {n : Nat}
    {g : G} {l : κ} {c : Committed κ} (lk : Link W p last hist n) (ok : LegOK cfg vis p l c)
    (hp : c.pushed = c.created.map fun q => (q.1, W.cand q.1 n g)) :
    Link W (pendPushed p c) (fun h => if h ∈ c.created.map Prod.fst then n else last h)
      (fun m => if m = n then g else hist m) (n + 1) := by
  intro h t e
  rcases pushAll_some _ _ e with h1 | h1
  · have hn : h ∉ c.created.map Prod.fst := by
      intro hc
      have := ok.fresh h (by rw [ok.pushed_keys]; exact hc)
      rw [this] at h1; cases h1
    obtain ⟨l1, l2⟩ := lk h t h1
    have hne : last h ≠ n := by omega
    simp only [hn, if_false, hne]
    exact ⟨by omega, l2⟩
  · rw [hp] at h1
    obtain ⟨q, hq, hqe⟩ := List.mem_map.mp h1
    simp only [Prod.mk.injEq] at hqe
    have hin : h ∈ c.created.map Prod.fst := List.mem_map.mpr ⟨q, hq, hqe.1⟩
    simp only [hin, if_true]
    exact ⟨by omega, by rw [← hqe.2, hqe.1]⟩

theorem link_after {W : World G O κ} {p : Pend κ} {last : Nat → Nat} {hist : Nat → G} {n : Nat} {c : Committed κ}
    (lk : Link W (pendPushed p c) last hist n) : Link W (pendAfter p c) last hist n := by
  intro h t e
  have e' : dropAll (pendPushed p c) c.trashed h = some t := e
  rw [dropAll_eq] at e'
  split at e'
  · cases e'
  · exact lk h t e'

variable {cfg : Cfg κ} {I : SchedI κ} {vis : κ → Bool} {R : I.σ → Pend κ → κ → Prop} {M : MWire}

/-- **one step of `runSP (medEnv …)` from a boundary state is one `JF.Med.leg`**: same handler; the committed time of the
scheduler is the candidate time the handler computed at its last start -/
theorem runSP_succ_of_leg (L : Laws cfg I vis R) (hs : Static M) (W : World G O κ) {st st1 : MedState I.σ} {p : Pend κ}
    {l : κ} {c : Committed κ} {n : Nat} {g : G} {last : Nat → Nat} {hist : Nat → G}
    (inv : MInv M R st p l) (lk : Link W p last hist n)
    (e : leg M I st ⟨W.yields g, fun h => W.cand h n g⟩ = .ok (st1, c)) (gd : Good M R (.boundary st)) (k : Nat) :
    ∃ gd1 : Good M R (.boundary st1),
      MP.runSP (medEnv L hs W) (k + 1) n g ⟨.boundary st, gd⟩ last hist =
        ⟨c.handler, c.time,
          W.out c.handler ((fun h => if h ∈ c.created.map Prod.fst then n else last h) c.handler)
            ((fun m => if m = n then g else hist m) ((fun h => if h ∈ c.created.map Prod.fst then n else last h) c.handler)),
          W.commit g (W.out c.handler ((fun h => if h ∈ c.created.map Prod.fst then n else last h) c.handler)
            ((fun m => if m = n then g else hist m) ((fun h => if h ∈ c.created.map Prod.fst then n else last h) c.handler)))⟩ ::
        MP.runSP (medEnv L hs W) k (n + 1)
          (W.commit g (W.out c.handler ((fun h => if h ∈ c.created.map Prod.fst then n else last h) c.handler)
            ((fun m => if m = n then g else hist m) ((fun h => if h ∈ c.created.map Prod.fst then n else last h) c.handler))))
          ⟨.boundary st1, gd1⟩ (fun h => if h ∈ c.created.map Prod.fst then n else last h)
          (fun m => if m = n then g else hist m) := by
  obtain ⟨inv1, ok, hpushed, _⟩ := leg_inv L hs inv e
  obtain ⟨a1, s2, hA, hC, hT⟩ := leg_raw L hs cfg.bot inv e
  simp only at hA hC hT
  have gA : Good M R (.activated st a1 c.created) := by
    have := actRaw_good (M := M) (R := R) (W.yields g) gd
    rw [hA] at this; exact this
  have gC : Good M R (.chosen a1 s2 c.handler) := by
    have := chooseRaw_good (dflt := cfg.bot) L hs gA (c.created.map fun q => (q.1, W.cand q.1 n g))
    rw [hC] at this; exact this
  have gT : Good M R (.boundary st1) := by
    have := trashRaw_good L hs gC c.handler
    rw [hT] at this; exact this
  have hact : (medEnv L hs W).activate g ⟨.boundary st, gd⟩ = (c.created.map Prod.fst, ⟨.activated st a1 c.created, gA⟩) :=
    Prod.ext (by show (actRaw M I (W.yields g) (.boundary st)).1 = _; rw [hA])
      (Subtype.ext (by show (actRaw M I (W.yields g) (.boundary st)).2 = _; rw [hA]))
  have hl : ((c.created.map Prod.fst).map fun h => (h, (medEnv L hs W).timeOf h n g)) =
      c.created.map fun q => (q.1, W.cand q.1 n g) := by
    rw [List.map_map]; rfl
  have hch : (medEnv L hs W).choose ⟨.activated st a1 c.created, gA⟩
      ((c.created.map Prod.fst).map fun h => (h, (medEnv L hs W).timeOf h n g)) =
      (c.handler, ⟨.chosen a1 s2 c.handler, gC⟩) := by
    rw [hl]
    exact Prod.ext (by show (chooseRaw M I cfg.bot _ _).1 = _; rw [hC])
      (Subtype.ext (by show (chooseRaw M I cfg.bot _ _).2 = _; rw [hC]))
  have htr : (medEnv L hs W).trash ⟨.chosen a1 s2 c.handler, gC⟩ c.handler = (c.trashed, ⟨.boundary st1, gT⟩) :=
    Prod.ext (by show (trashRaw M I _ _).1 = _; rw [hT])
      (Subtype.ext (by show (trashRaw M I _ _).2 = _; rw [hT]))
  -- the committed time is the candidate of the last start
  have htime : c.time = W.cand c.handler ((fun h => if h ∈ c.created.map Prod.fst then n else last h) c.handler)
      ((fun m => if m = n then g else hist m) ((fun h => if h ∈ c.created.map Prod.fst then n else last h) c.handler)) :=
    (link_pushed lk ok hpushed c.handler c.time ok.pending).2
  refine ⟨gT, ?_⟩
  simp only [MP.runSP, hact, hch, htr]
  rw [htime]
  rfl

/-- `(handler, time)` of a commit of the concrete loop / of the closed system of `JF.MP` -/
def keyMed (c : Committed κ) : Nat × κ := (c.handler, c.time)
def keyMP (c : MP.Commit G κ O) : Nat × κ := (c.handler, c.time)

theorem run_length {st st' : MedState I.σ} {os : List (Oracle κ)} {cs : List (Committed κ)} (hrun : Run M I st os cs st') :
    os.length = cs.length := by
  induction hrun with
  | nil st => rfl
  | cons _ _ ih => simp [ih]

/-- **the legs of the concrete loop are the steps of `runSP (medEnv …)`**: if the concrete loop makes the legs `cs` on the oracle
values read off the run of `runSP` (a prefix of them), then `cs` is, handler by handler and time by time, the corresponding prefix
of the commits of `runSP` -/
theorem runSP_run (L : Laws cfg I vis R) (hs : Static M) (W : World G O κ) {st st' : MedState I.σ} {os : List (Oracle κ)}
    {cs : List (Committed κ)} (hrun : Run M I st os cs st') :
    ∀ (k n : Nat) (g : G) (last : Nat → Nat) (hist : Nat → G) (p : Pend κ) (l : κ) (gd : Good M R (.boundary st)) (m : Nat),
      MInv M R st p l → Link W p last hist n →
      os = (oracles W n g (MP.runSP (medEnv L hs W) k n g ⟨.boundary st, gd⟩ last hist)).take m →
      cs.map keyMed = ((MP.runSP (medEnv L hs W) k n g ⟨.boundary st, gd⟩ last hist).take cs.length).map keyMP := by
  induction hrun with
  | nil st => intro k n g last hist p l gd m _ _ _; rfl
  | @cons st st1 st' o os c cs hleg _ ih =>
    intro k n g last hist p l gd m inv lk hos
    cases k with
    | zero => cases m <;> simp [MP.runSP, oracles] at hos
    | succ k =>
      cases m with
      | zero => simp at hos
      | succ m =>
        -- the first oracle value does not depend on what is committed
        have ho : o = ⟨W.yields g, fun h => W.cand h n g⟩ := by
          cases hsp : MP.runSP (medEnv L hs W) (k + 1) n g ⟨.boundary st, gd⟩ last hist with
          | nil => rw [hsp] at hos; simp [oracles] at hos
          | cons a b =>
            rw [hsp] at hos
            simp only [oracles, List.take_succ_cons, List.cons.injEq] at hos
            exact hos.1
        subst ho
        obtain ⟨inv1, ok, hpushed, _⟩ := leg_inv L hs inv hleg
        obtain ⟨gd1, hstep⟩ := runSP_succ_of_leg L hs W inv lk hleg gd k
        have lk1 := link_after (link_pushed lk ok hpushed)
        rw [hstep] at hos ⊢
        simp only [oracles, List.take_succ_cons, List.cons.injEq, true_and] at hos
        simp only [List.map_cons, List.length_cons, List.take_succ_cons, List.cons.injEq]
        exact ⟨rfl, ih k (n + 1) _ _ _ _ _ gd1 m inv1 lk1 hos⟩

end run

/-! ### `runLegs` and `Run` -/

section runlegs
variable {I : SchedI κ} {M : MWire}

/-- the commits `runLegs` makes (also when it ends with an exception) are a `Run` on the oracle values it consumed -/
theorem runLegs_prefix_run : ∀ (os : List (Oracle κ)) (st : MedState I.σ) (cs : List (Committed κ)) (fin : Option (MedState I.σ)),
    runLegs M I st os = (cs, fin) → ∃ st', Run M I st (os.take cs.length) cs st' := by
  intro os
  induction os with
  | nil =>
    intro st cs fin e
    simp only [runLegs, Prod.mk.injEq] at e
    obtain ⟨rfl, _⟩ := e
    exact ⟨st, .nil _⟩
  | cons o os ih =>
    intro st cs fin e
    unfold runLegs at e
    split at e
    · simp only [Prod.mk.injEq] at e
      obtain ⟨rfl, _⟩ := e
      exact ⟨st, .nil _⟩
    · next st1 c hleg =>
      split at e
      · simp only [Prod.mk.injEq] at e
        obtain ⟨rfl, _⟩ := e
        exact ⟨st1, .cons hleg (.nil _)⟩
      · simp only [Prod.mk.injEq] at e
        obtain ⟨rfl, _⟩ := e
        obtain ⟨st', hr⟩ := ih st1 _ _ rfl
        exact ⟨st', .cons hleg hr⟩

/-- … and when `runLegs` ends without an exception, the run ends in the state it returns -/
theorem runLegs_run_take : ∀ (os : List (Oracle κ)) (st st' : MedState I.σ) (cs : List (Committed κ)),
    runLegs M I st os = (cs, some st') → Run M I st (os.take cs.length) cs st' := by
  intro os
  induction os with
  | nil =>
    intro st st' cs e
    simp only [runLegs, Prod.mk.injEq, Option.some.injEq] at e
    obtain ⟨rfl, rfl⟩ := e
    exact .nil _
  | cons o os ih =>
    intro st st' cs e
    unfold runLegs at e
    split at e
    · simp at e
    · next st1 c hleg =>
      split at e
      · simp only [Prod.mk.injEq, Option.some.injEq] at e
        obtain ⟨rfl, rfl⟩ := e
        exact .cons hleg (.nil _)
      · simp only [Prod.mk.injEq] at e
        obtain ⟨rfl, e2⟩ := e
        exact .cons hleg (ih st1 st' _ (Prod.ext rfl e2))

/-- `runLegs` consumes the whole oracle list unless an exception or the end-of-run commit ends the loop -/
theorem runLegs_length : ∀ (os : List (Oracle κ)) (st : MedState I.σ) (cs : List (Committed κ)) (fin : Option (MedState I.σ)),
    runLegs M I st os = (cs, fin) →
    cs.length = os.length ∨ fin = none ∨ ∃ c, cs.getLast? = some c ∧ c.stop = true := by
  intro os
  induction os with
  | nil =>
    intro st cs fin e
    simp only [runLegs, Prod.mk.injEq] at e
    obtain ⟨rfl, _⟩ := e
    exact Or.inl rfl
  | cons o os ih =>
    intro st cs fin e
    unfold runLegs at e
    split at e
    · simp only [Prod.mk.injEq] at e
      exact Or.inr (Or.inl e.2.symm)
    · next st1 c hleg =>
      split at e
      · next hstop =>
        simp only [Prod.mk.injEq] at e
        obtain ⟨rfl, _⟩ := e
        exact Or.inr (Or.inr ⟨c, rfl, hstop⟩)
      · simp only [Prod.mk.injEq] at e
        obtain ⟨rfl, rfl⟩ := e
        rcases ih st1 _ _ rfl with h | h | ⟨c', h1, h2⟩
        · exact Or.inl (by simp [h])
        · exact Or.inr (Or.inl h)
        · refine Or.inr (Or.inr ⟨c', ?_, h2⟩)
          rw [List.getLast?_cons, h1]; rfl

theorem run_append {st st1 st2 st3 : MedState I.σ} {os os' : List (Oracle κ)} {cs cs' : List (Committed κ)} {o : Oracle κ}
    {c : Committed κ} (h1 : Run M I st os cs st1) (hleg : leg M I st1 o = .ok (st2, c)) (h2 : Run M I st2 os' cs' st3) :
    Run M I st (os ++ o :: os') (cs ++ c :: cs') st3 := by
  induction h1 with
  | nil st => exact .cons hleg h2
  | cons hl _ ih => exact .cons hl (ih hleg)

end runlegs

end JF.C20Loop
