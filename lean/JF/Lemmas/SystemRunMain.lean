import JF.Lemmas.SystemRunInv
/-!
The induction step of the joint invariant of the composed system: the first leg (`first_step`) and every later leg (`big_step`).
-/
namespace JF.Sys
open JF JF.Act JF.Heap JF.Sched JF.Med JF.CW JF.C14 JF.MediatorLoop JF.Kin

section
variable {env : Env ℚ} {geo : Geo env} {c : Wiring} {S : TaggerIdx} {needs : HandlerId → Bool}

/-- the candidate times pushed in a leg are normalised finite times or `inf`; the cell-boundary candidates among them are the
times until which the mover stays in the cell of its position -/
theorem pushed_facts {us : List (PUnit ℚ)} {a : Nat} {pos v : List ℚ} {ts : Time ℚ} {last : XTime} {o : Oracle XTime}
    {created : List (HandlerId × IdTuple)} (hk : KinI env.L us a pos v ts) (hv : geo.velOK v) (hts : Normalised ts)
    (hc : CandsOK env geo c us last o created) {h : HandlerId} {t : XTime}
    (hm : (h, t) ∈ created.map (fun q => (q.1, o.cand q.1))) :
    NormX t ∧ (kindOfH c h = .cellBoundary → ∃ τ, t = .fin τ ∧ Normalised τ ∧ StayUntil env pos v ts τ ∧ val ts < val τ) ∧
    (kindOfH c h ≠ .cellBoundary → xcfg.lt t last = false) := by
  obtain ⟨q, hq, hqe⟩ := List.mem_map.mp hm
  simp only [Prod.mk.injEq] at hqe
  obtain ⟨rfl, rfl⟩ := hqe
  obtain ⟨h1, h2⟩ := hc q hq
  by_cases hkq : kindOfH c q.1 = .cellBoundary
  · obtain ⟨a0, u, v0, ts0, _, hu, hv0, hts0, hcand⟩ := h1 hkq
    obtain ⟨_, hp, hv0e, hts0e⟩ := mover_unique hk hu hv0 hts0
    rw [hcand, hp, hv0e, hts0e]
    refine ⟨add_normalised _ _ hts, fun _ => ⟨_, rfl, add_normalised _ _ hts, ?_, ?_⟩, fun hne => absurd hkq hne⟩
    · exact stayUntil_of_geo geo hk.vlen.2.2 hv
    · rw [add_val]; linarith [geo.pos pos v hk.vlen.2.2 hv]
  · exact ⟨(h2 hkq).1, fun hc' => absurd hc' hkq, fun _ => (h2 hkq).2⟩

/-- **the induction step** (every leg after the first) -/
theorem big_step (H : Hyp env c S) {cs : List (Committed XTime)} {cl : Committed XTime} {s : Sys} {E : TaggerIdx}
    {tl : Time ℚ} {a : Nat} {pos v : List ℚ} {ts : Time ℚ} (big : Big env geo c S needs cs cl s E tl a pos v ts)
    (hgo : cl.stop = false) (ntl : TieFreeLeg c (pendOf (fun _ => none) cs.dropLast) cl)
    {o : Oracle XTime} {cm : Committed XTime} {s' : Sys}
    (st : SysStep env geo c S needs s o cm s') :
    ∃ E' tl' a' pos' v' ts', Big env geo c S needs (cs ++ [cm]) cm s' E' tl' a' pos' v' ts' := by
  have hs : Med.Static (mwire c S needs) := hyp_static H
  have pok : PoolsOK c.wires := poolsOK_wires c
  obtain ⟨hc', hrun'⟩ := mid_run H big hgo ntl st
  obtain ⟨_, born', hr8'⟩ := mid_cur H big hgo st
  have inv' := Act.run_inv c (world env c) (Tr env c) S H.sound H.hS (Footprints.footprintsSound_concrete env c H.sup) (liveIs env c) hrun'
  obtain ⟨minv', ok, hpushed, hprec', hstop', E', hE', hrunE', htr', hts'⟩ :=
    leg_inv (specLaws xcfg_strictWeak) hs big.med st.leg
  obtain ⟨pmid, mirr, _⟩ := mid_mirror hs big.med st.leg
  obtain ⟨a1, s1, a2, s3, hgtr, _, _, hgtrash, _, hst', _, _⟩ := leg_ok st.leg
  have hrunE' : cm.handler ∈ (getT s'.mid E').running := by rw [st.mid']; exact hrunE'
  have htr' : cm.trashed = (trash c.wires s'.mid E').2 := by rw [st.mid']; exact htr'
  have hts' : s'.med.act.ts = (trash c.wires s'.mid E').1 := by rw [st.mid']; exact hts'
  have pmid : PoolInv c.wires s'.mid := by rw [st.mid']; exact pmid
  have mirr : ∀ x, (pendPushed (pendOf (fun _ => none) cs) cm x).isSome ↔ ∃ T, x ∈ (getT s'.mid T).running := by
    rw [st.mid']; exact mirr
  have hE' : owner c.wires cm.handler = some E' := hE'
  obtain ⟨t', ht'eq, hcom⟩ := st.ev
  have hocc : occAfter env (hasOccOf c) s.occ s.us = some s'.occ := by
    have := st.occ1; unfold occNext at this; rw [big.started] at this; simpa using this
  have hlast : s.med.sched.last = cl.time := big.med.rel.last
  have hcands := st.cands
  rw [hlast] at hcands
  -- every pending time in the middle of the leg
  have normP : ∀ h t, pendPushed (pendOf (fun _ => none) cs) cm h = some t → NormX t := by
    intro h t e
    rcases pushAll_some _ _ e with h1 | h1
    · exact big.norm h t h1
    · rw [hpushed] at h1; exact (pushed_facts big.kin big.vel big.tsnorm hcands h1).1
  -- every pending cell-boundary candidate in the middle of the leg
  have midcb : hasOccOf c = true → ∀ hb tb, kindOfH c hb = .cellBoundary →
      pendPushed (pendOf (fun _ => none) cs) cm hb = some tb →
      ∃ τ, tb = .fin τ ∧ Normalised τ ∧ StayUntil env pos v ts τ := by
    intro hO hb tb hkb e
    rcases pushAll_some _ _ e with h1 | h1
    · exact big.cb hO hgo ntl hb tb hkb h1
    · rw [hpushed] at h1
      obtain ⟨τ, h2, h3, h4, _⟩ := (pushed_facts big.kin big.vel big.tsnorm hcands h1).2.1 hkb
      exact ⟨τ, h2, h3, h4⟩
  -- the committed time
  have ht'n : Normalised t' := by
    have := normP _ _ ok.pending
    rw [ht'eq] at this; exact this
  have hle : val tl ≤ val t' := by
    have := ok.guard
    rw [ht'eq, big.time] at this
    exact (xlt_false_iff ht'n big.tnorm).mp this
  have hkE' : kindOfH c cm.handler = (c.tagger E').kind := kindOfH_of_owner hE'
  rw [hkE'] at hcom
  obtain ⟨a', pos', v', ts', hk', hv', hts'n, hts'le, htsEq', hquiet⟩ :=
    kin_step H.ho big.kin big.vel big.tsnorm ht'n (le_trans big.tsle hle) hcom
  -- a pending cell-boundary candidate is not before the commit; strictly after it if a sampling / dumping event commits
  have cb_after : ∀ hb tb τ, kindOfH c hb = .cellBoundary → pendPushed (pendOf (fun _ => none) cs) cm hb = some tb →
      tb = .fin τ → Normalised τ → val t' ≤ val τ ∧
        (NoTieAll c (pendOf (fun _ => none) cs) cm → val t' < val τ) := by
    intro hb tb τ hkb e hτ hτn
    have hmin := ok.minimal hb tb e (by rw [hτ]; rfl)
    rw [hτ, ht'eq] at hmin
    have h1 := (xlt_false_iff hτn ht'n).mp hmin
    refine ⟨h1, fun hnt => lt_of_le_of_ne h1 ?_⟩
    intro heq
    apply hnt hb hkb
    rw [e, hτ, ht'eq, normalised_ext hτn ht'n heq.symm]
  have hpl : pos.length = env.L.length := big.kin.vlen.2.1
  have hvl : v.length = env.L.length := big.kin.vlen.1
  have hstopE' : cm.stop = ((c.tagger E').kind == HandlerKind.endOfRun) := by
    rw [hstop']
    show (match owner c.wires cm.handler with
      | some E => (c.tagger E).kind == HandlerKind.endOfRun
      | none => false) = _
    rw [hE']
  cases hs' : s' with
  | mk med' us' occ' ids' usPrev' mid' =>
  subst hs'
  have hprev := st.prev
  simp only at hprev
  subst hprev
  refine ⟨E', t', a', pos', v', ts', ?_⟩
  refine
    { med := by rw [pendOf_snoc]; exact minv'
      started := ?_
      prec := hprec'
      owner := hE'
      stopEq := hstop'
      trashEq := hts'
      running := hrunE'
      time := ht'eq
      tnorm := ht'n
      norm := ?_
      kin := hk'
      vel := hv'
      tsnorm := hts'n
      tsle := hts'le
      tsEq := htsEq'
      phase := ⟨hc', Or.inr hrun'⟩
      cur := ⟨hc', born', hr8'⟩
      wfPrev := fun u hu => let ⟨i, hi⟩ := List.mem_iff_getElem?.mp hu; (big.kin.2 i u hi).1
      kinPrev := Or.inr ⟨a, pos, v, ts, big.kin⟩
      commit := hcom
      mirror := ?_
      stays := ?_
      cb := ?_ }
  · -- started
    have h1 := getToRun_ok_started hgtr
    have h2 := getTrashable_started hgtrash
    have : med' = ⟨a2, s3, some cm.handler⟩ := hst'
    rw [this]; show a2.started = true; rw [h2, h1]
  · -- norm
    intro h t e
    rw [pendOf_snoc] at e
    have e' : dropAll (pendPushed (pendOf (fun _ => none) cs) cm) cm.trashed h = some t := e
    rw [dropAll_eq] at e'
    split at e'
    · cases e'
    · exact normP h t e'
  · -- mirror
    intro hO a0 hm hrel
    rw [big.kin.movers] at hm
    have : a0 = a := by simpa using hm.symm
    subst this
    rw [hO] at hocc
    rw [occ_activeCell_mid hocc big.kin hrel]
    obtain ⟨⟨ua, hua, hp, _⟩, _⟩ := big.kin
    simp [unitIn, hua, hp]
  · -- stays
    intro hO hncb hnt a0 hm hrel
    rw [List.dropLast_concat] at hnt
    rw [big.kin.movers] at hm
    have : a0 = a := by simpa using hm.symm
    subst this
    have hcell : occ'.activeCell = some (env.cellOf pos) := by
      rw [hO] at hocc
      exact occ_activeCell_mid hocc big.kin hrel
    rw [hcell]
    rcases old_mover_pos H.ho big.kin hcom hncb with hpos | hsame
    · -- time-sliced: the pending cell-boundary event is strictly later
      have hunit : (unitIn env us' a0).cell = env.cellOf (sliceVec Ops.rat env.L pos v (Time.sub t' ts)) := by
        cases hu : us'[a0]? with
        | none => rw [hu] at hpos; simp at hpos
        | some u =>
          rw [hu] at hpos
          simp only [Option.map_some, Option.some.injEq] at hpos
          simp [unitIn, hu, hpos]
      rw [hunit]
      obtain ⟨B, hB, hBc, hBk, _, hBr⟩ := cbWired_spec H.cb hO
      have hBa : (getT mid' B).activated = true := by
        have := hBr _ inv'.reach
        rw [aGet_absOf] at this; exact this
      obtain ⟨hb, hhb⟩ := cb_exists (rs := ⟨mid', ids', ⟨⟨s.us, occ'⟩, hc'⟩⟩) inv' hO hB hBc hBk hBa big.kin hrel
      have hkb : kindOfH c hb = .cellBoundary := by
        rw [kindOfH_of_owner (owner_of_running pok pmid hhb)]; exact hBk
      obtain ⟨tb, htb⟩ := Option.isSome_iff_exists.mp ((mirr hb).mpr ⟨B, hhb⟩)
      obtain ⟨τ, hτ, hτn, hstay⟩ := midcb hO hb tb hkb htb
      have hlt := (cb_after hb tb τ hkb htb hτ hτn).2 hnt
      rw [(stayUntil_slice geo.posBox hpl hvl hstay (le_trans big.tsle hle) hlt).1]
    · subst hsame
      obtain ⟨⟨ua, hua, hp, _⟩, _⟩ := big.kin
      simp [unitIn, hua, hp]
  · -- the pending cell-boundary candidates after the trash
    intro hO hstop hntc hb tb hkb e
    rw [List.dropLast_concat] at hntc
    rw [pendOf_snoc] at e
    have e' : dropAll (pendPushed (pendOf (fun _ => none) cs) cm) cm.trashed hb = some tb := e
    rw [dropAll_eq] at e'
    split at e'
    · cases e'
    · next hnt =>
      obtain ⟨τ, hτ, hτn, hstay⟩ := midcb hO hb tb hkb e'
      by_cases hq : (c.tagger E').kind = .sampling ∨ (c.tagger E').kind = .dumping
      · obtain ⟨rfl, rfl, hpos'⟩ := hquiet hq
        refine ⟨τ, hτ, hτn, ?_⟩
        rcases hpos' with ⟨rfl, rfl⟩ | ⟨rfl, rfl⟩
        · exact (stayUntil_slice geo.posBox hpl hvl hstay (le_trans big.tsle hle)
            ((cb_after hb tb τ hkb e' hτ hτn).2 (hntc (by rw [hkE']; exact hq)))).2
        · exact hstay
      · -- any other commit trashes the cell-boundary tagger
        exfalso
        apply hnt
        obtain ⟨B, hB, hBc, hBk, hBu, hBr⟩ := cbWired_spec H.cb hO
        obtain ⟨T, hT⟩ := (mirr hb).mp (by rw [e']; rfl)
        have hoT := owner_of_running pok pmid hT
        have hTn : T < c.n := by rw [← c.wires_length]; exact owner_lt hoT
        have hTB : T = B := hBu T hTn (by rw [← kindOfH_of_owner hoT]; exact hkb)
        subst hTB
        have hend : (c.tagger E').kind ≠ .endOfRun := by
          intro hk; rw [hstopE', hk] at hstop; simp at hstop
        have hE'n : E' < c.n := by rw [← c.wires_length]; exact owner_lt hE'
        have hin : T ∈ (c.tagger E').trashes := by
          by_cases hcbk : (c.tagger E').kind = .cellBoundary
          · have := hBu E' hE'n hcbk
            subst this
            obtain ⟨hwf, _, _⟩ := sound_unpack H.sound H.hS
            exact (static_of_wfStatic hwf).self_trash E' hE'n
          · have hBa : aGet (absOf mid') T = true := hBr _ inv'.reach
            exact trashes_cb_of_ident (rs := ⟨mid', ids', ⟨⟨s.us, occ'⟩, hc'⟩⟩) H.sound H.hS inv'
              (List.ne_nil_of_mem hrunE') hend
              (affects_ident_of (fun h => hq (Or.inl h)) (fun h => hq (Or.inr h)) hend hcbk) hB hBc hBk hBa
        rw [htr']
        exact (trashLoop_out_mem _ _ hb).mpr ⟨T, by rw [(getW_wires c E').2.1]; exact hin, hT⟩

/-- **`CandOK` of E1 for a leg after the first** (every candidate of a handler handed out is not before the last commit): by
hypothesis for the handlers that are not cell-boundary handlers, DERIVED for the cell-boundary handler — its candidate is the time
stamp of the active unit, which is the time of the last commit, plus a positive time to the boundary (`Geo.pos`, i.e.
`JF.C11.boundary_pos`).  Stated for whatever `get_event_handlers_to_run` hands out (the leg need not succeed). -/
theorem candOK_created (H : Hyp env c S) (hdq : dumpQuiet c = true) {cs : List (Committed XTime)} {cl : Committed XTime}
    {s : Sys} {E : TaggerIdx} {tl : Time ℚ} {a : Nat} {pos v : List ℚ} {ts : Time ℚ}
    (big : Big env geo c S needs cs cl s E tl a pos v ts) {o : Oracle XTime} {a1 : ActSt}
    {created : List (HandlerId × IdTuple)}
    (hgtr : getToRun (mwire c S needs).w (mwire c S needs).S s.med.act s.med.preceding o.yields = (a1, .ok created))
    (hcands : CandsOK env geo c s.us s.med.sched.last o created) :
    ∀ q ∈ created, xcfg.lt (o.cand q.1) cl.time = false := by
  have hs : Med.Static (mwire c S needs) := hyp_static H
  have pok : PoolsOK c.wires := poolsOK_wires c
  rw [big.prec] at hgtr
  have hupd : update c.wires s.med.act.ts E o.yields = some (a1.ts, created) :=
    getToRun_started big.started big.owner hgtr
  have hcr := (C09.update_returns_only_not_running hs.wf pok big.med.pool hupd).2
  rw [big.med.rel.last] at hcands
  intro q hq
  have hq' : (q.1, o.cand q.1) ∈ created.map (fun p => (p.1, o.cand p.1)) := List.mem_map.mpr ⟨q, hq, rfl⟩
  obtain ⟨_, hcb, hother⟩ := pushed_facts big.kin big.vel big.tsnorm hcands hq'
  by_cases hk : kindOfH c q.1 = .cellBoundary
  · obtain ⟨τ, hτ, hτn, _, hlt⟩ := hcb hk
    have hnd : (c.tagger E).kind ≠ .dumping := by
      intro hd
      -- a dumping tagger creates no cell-boundary handler
      have hkey : q.1 ∈ created.map Prod.fst := List.mem_map.mpr ⟨q, hq, rfl⟩
      obtain ⟨⟨T, hT, hnr⟩, _⟩ := hcr q.1 hkey
      have hEn : E < c.n := by rw [← c.wires_length]; exact owner_lt big.owner
      have hTn : T < c.wires.length := (hs.wf E).2 T hT
      have hown : owner c.wires q.1 = some T := owner_of_mem_pool pok hTn (big.med.pool.mem_pool_of_notRunning hnr)
      rw [kindOfH_of_owner hown] at hk
      have := List.all_eq_true.mp hdq E (List.mem_range.mpr hEn)
      simp only [hd, bne_self_eq_false, Bool.false_or, List.all_eq_true, bne_iff_ne, ne_eq] at this
      have hT' : T ∈ (c.tagger E).creates := by rw [← (getW_wires c E).1]; exact hT
      exact this T hT' hk
    rw [hτ, big.time, xlt_false_iff hτn big.tnorm, ← big.tsEq hnd]
    exact le_of_lt hlt
  · exact hother hk

theorem candOK_step (H : Hyp env c S) (hdq : dumpQuiet c = true) {cs : List (Committed XTime)} {cl : Committed XTime}
    {s : Sys} {E : TaggerIdx} {tl : Time ℚ} {a : Nat} {pos v : List ℚ} {ts : Time ℚ}
    (big : Big env geo c S needs cs cl s E tl a pos v ts) {o : Oracle XTime} {cm : Committed XTime} {s' : Sys}
    (st : SysStep env geo c S needs s o cm s') : ∀ q ∈ cm.pushed, xcfg.lt q.2 cl.time = false := by
  obtain ⟨a1, s1, a2, s3, hgtr, _, _, _, _, _, hpushed, _⟩ := leg_ok st.leg
  intro q hq
  rw [hpushed] at hq
  obtain ⟨p, hp, rfl⟩ := List.mem_map.mp hq
  exact candOK_created H hdq big hgtr st.cands p hp

/-- **C08, clause (h) at a leg of the composed system** (no footprint hypothesis): when the committed event may change the motion
of a unit, every handler of an interaction / cell-veto tagger that is running in the middle of the leg is in the leg's trash list -/
theorem stale_trashed_step (H : Hyp env c S) {cs : List (Committed XTime)} {cl : Committed XTime} {s : Sys} {E : TaggerIdx}
    {tl : Time ℚ} {a : Nat} {pos v : List ℚ} {ts : Time ℚ} (big : Big env geo c S needs cs cl s E tl a pos v ts)
    (hgo : cl.stop = false) (ntl : TieFreeLeg c (pendOf (fun _ => none) cs.dropLast) cl)
    {o : Oracle XTime} {cm : Committed XTime} {s' : Sys} (st : SysStep env geo c S needs s o cm s')
    {E' : TaggerIdx} (hE' : owner c.wires cm.handler = some E') (hm : affects (c.tagger E') .motion = true)
    {T : TaggerIdx} (hT : T < c.n) (hb : motionBound (c.tagger T) = true) {h : HandlerId}
    (hh : h ∈ (getT s'.mid T).running) : h ∈ cm.trashed := by
  have hs : Med.Static (mwire c S needs) := hyp_static H
  obtain ⟨hc', hrun'⟩ := mid_run H big hgo ntl st
  obtain ⟨_, _, _, _, _, E0, hE0, hrunE0, htr0, _⟩ := leg_inv (specLaws xcfg_strictWeak) hs big.med st.leg
  have hE0' : owner c.wires cm.handler = some E0 := hE0
  rw [hE'] at hE0'
  have : E' = E0 := Option.some.inj hE0'
  subst this
  have hrunE' : cm.handler ∈ (getT s'.mid E').running := by rw [st.mid']; exact hrunE0
  have htr' : cm.trashed = (trash c.wires s'.mid E').2 := by rw [st.mid']; exact htr0
  have hend : (c.tagger E').kind ≠ .endOfRun := by
    intro hk; simp [affects, hk] at hm
  rcases run_clause_h c (world env c) (Tr env c) S H.sound H.hS (Footprints.footprintsSound_concrete env c H.sup)
      (liveIs env c) hrun' (E := E') (List.ne_nil_of_mem hrunE') hend hm hT hb with h1 | h1
  · rw [htr']
    exact (trashLoop_out_mem _ _ h).mpr ⟨T, h1, hh⟩
  · have h1' : (getT s'.mid T).running = [] := h1
    rw [h1'] at hh; cases hh

/-- in the first leg only the start-of-run handler has a pending event -/
theorem first_leg_pending_kind (H : Hyp env c S) {s : Sys} (hi : Init env c s) {o : Oracle XTime} {cm : Committed XTime}
    {s' : Sys} (st : SysStep env geo c S needs s o cm s') {h : HandlerId}
    (hp : (pendPushed (fun _ => none) cm h).isSome) : kindOfH c h = .startOfRun := by
  have hs : Med.Static (mwire c S needs) := hyp_static H
  have pok : PoolsOK c.wires := poolsOK_wires c
  obtain ⟨_, hSk, _⟩ := start_spec H.hS
  have minv0 : MInv (I := specI xcfg) (mwire c S needs) (SRel xcfg) s.med (fun _ => none) xcfg.bot := by
    rw [hi.med]; exact minv_init (specLaws xcfg_strictWeak) (mwire c S needs)
  obtain ⟨pmid0, mirr0, _⟩ := mid_mirror hs minv0 st.leg
  obtain ⟨a1, s1, a2, s3, hgtr, _⟩ := leg_ok st.leg
  have pmid : PoolInv c.wires s'.mid := by rw [st.mid']; exact pmid0
  have mirr : ∀ x, (pendPushed (fun _ => none) cm x).isSome ↔ ∃ T, x ∈ (getT s'.mid T).running := by
    rw [st.mid']; exact mirr0
  have hmid : s'.mid = a1.ts := by rw [st.mid']; exact midAct_eq hgtr
  have hact0 : s.med.act = ⟨false, initAct c.wires⟩ := by rw [hi.med]; rfl
  have hpre0 : s.med.preceding = none := by rw [hi.med]; rfl
  rw [hpre0] at hgtr
  obtain ⟨hfirst, _⟩ := getToRun_first (by rw [hact0]) hgtr
  rw [hact0] at hfirst
  have hfirst : first c.wires (initAct c.wires) S o.yields = some (s'.mid, cm.created) := by rw [hmid]; exact hfirst
  obtain ⟨T, hT⟩ := (mirr h).mp hp
  have : T = S := by
    by_contra hne
    have hne' : T ∉ [S] := by simp [hne]
    have hf := hfirst
    unfold first at hf
    rw [createLoop_frame hf hne', applyActivation_running, getT_initAct] at hT
    split at hT <;> simp [TState.empty] at hT
  subst this
  rw [kindOfH_of_owner (owner_of_running pok pmid hT)]; exact hSk

/-- **the base case**: the first leg (the start-of-run handler is handed out and commits) -/
theorem first_step (H : Hyp env c S) {s : Sys} (hi : Init env c s) {o : Oracle XTime} {cm : Committed XTime} {s' : Sys}
    (st : SysStep env geo c S needs s o cm s') :
    ∃ E' tl' a' pos' v' ts', Big env geo c S needs ([] ++ [cm]) cm s' E' tl' a' pos' v' ts' := by
  have hs : Med.Static (mwire c S needs) := hyp_static H
  have pok : PoolsOK c.wires := poolsOK_wires c
  obtain ⟨hSn, hSk, _⟩ := start_spec H.hS
  have minv0 : MInv (I := specI xcfg) (mwire c S needs) (SRel xcfg) s.med (fun _ => none) xcfg.bot := by
    rw [hi.med]; exact minv_init (specLaws xcfg_strictWeak) (mwire c S needs)
  obtain ⟨minv', ok, hpushed, hprec', hstop', E', hE0, hrunE0, htr0, hts0⟩ :=
    leg_inv (specLaws xcfg_strictWeak) hs minv0 st.leg
  obtain ⟨pmid0, mirr0, _⟩ := mid_mirror hs minv0 st.leg
  obtain ⟨a1, s1, a2, s3, hgtr, _, _, hgtrash, _, hst', _, _⟩ := leg_ok st.leg
  have hrunE' : cm.handler ∈ (getT s'.mid E').running := by rw [st.mid']; exact hrunE0
  have htr' : cm.trashed = (trash c.wires s'.mid E').2 := by rw [st.mid']; exact htr0
  have hts' : s'.med.act.ts = (trash c.wires s'.mid E').1 := by rw [st.mid']; exact hts0
  have pmid : PoolInv c.wires s'.mid := by rw [st.mid']; exact pmid0
  have mirr : ∀ x, (pendPushed (fun _ => none) cm x).isSome ↔ ∃ T, x ∈ (getT s'.mid T).running := by
    rw [st.mid']; exact mirr0
  have hE' : owner c.wires cm.handler = some E' := hE0
  clear hrunE0 htr0 hts0 pmid0 mirr0 hE0
  have hmid : s'.mid = a1.ts := by rw [st.mid']; exact midAct_eq hgtr
  -- the first call of the activator
  have hact0 : s.med.act = ⟨false, initAct c.wires⟩ := by rw [hi.med]; rfl
  have hpre0 : s.med.preceding = none := by rw [hi.med]; rfl
  rw [hpre0] at hgtr
  obtain ⟨hfirst, hst1⟩ := getToRun_first (by rw [hact0]) hgtr
  rw [hact0] at hfirst
  have hfirst : first c.wires (initAct c.wires) S o.yields = some (s'.mid, cm.created) := by rw [hmid]; exact hfirst
  -- only the start-of-run tagger runs something
  have honly : ∀ T, T ≠ S → (getT s'.mid T).running = [] := by
    intro T hT
    have hne : T ∉ [S] := by simp [hT]
    have hf := hfirst
    unfold first at hf
    rw [createLoop_frame hf hne, applyActivation_running, getT_initAct]
    split <;> rfl
  have hES : E' = S := by
    by_contra hne
    rw [honly E' hne] at hrunE'; simp at hrunE'
  subst hES
  have hkS : ∀ x, (∃ T, x ∈ (getT s'.mid T).running) → kindOfH c x = .startOfRun := by
    rintro x ⟨T, hT⟩
    have : T = E' := by
      by_contra hne
      rw [honly T hne] at hT; simp at hT
    subst this
    rw [kindOfH_of_owner (owner_of_running pok pmid hT)]; exact hSk
  obtain ⟨t', ht'eq, hcom⟩ := st.ev
  have hocc : s'.occ = s.occ := by
    have := st.occ1; unfold occNext at this; rw [hact0] at this; simpa using this.symm
  have hlast : s.med.sched.last = xcfg.bot := by rw [hi.med]; rfl
  have hcands := st.cands
  -- pending times in the middle of the leg: only those pushed now, none of cell-boundary kind
  have normP : ∀ h t, pendPushed (fun _ => none) cm h = some t → NormX t ∧ kindOfH c h ≠ .cellBoundary := by
    intro h t e
    have hk : kindOfH c h = .startOfRun := hkS h ((mirr h).mp (by rw [e]; rfl))
    have hne : kindOfH c h ≠ .cellBoundary := by rw [hk]; decide
    rcases pushAll_some _ _ e with h1 | h1
    · cases h1
    · rw [hpushed] at h1
      obtain ⟨q, hq, hqe⟩ := List.mem_map.mp h1
      simp only [Prod.mk.injEq] at hqe
      obtain ⟨rfl, rfl⟩ := hqe
      exact ⟨((hcands q hq).2 hne).1, hne⟩
  have ht'n : Normalised t' := by
    have := (normP _ _ ok.pending).1
    rw [ht'eq] at this; exact this
  have hkE' : kindOfH c cm.handler = (c.tagger E').kind := kindOfH_of_owner hE'
  rw [hkE', hSk] at hcom
  -- the start-of-run event
  obtain ⟨a', pos', v', hk', hv'⟩ : ∃ a' pos' v', KinI env.L s'.us a' pos' v' t' ∧ geo.velOK v' := by
    rcases hcom with ⟨ev, hal, hev, hadm, hus⟩ | ⟨hd, _⟩
    · cases ev with
      | start t0 b w =>
        have : t0 = t' := hev
        subst this
        obtain ⟨p, hp⟩ := KinI.of_start hi.wf hi.box hi.rest t0 b w hadm.1 (geo.vlen w hadm.2.1)
        rw [hus, H.ho]
        exact ⟨b, p, w, hp, hadm.2.1⟩
      | keep t0 => simp [allowedEv] at hal
      | snap t0 d x => simp [allowedEv] at hal
      | lift t0 b => simp [allowedEv] at hal
      | endOfChain t0 b w => simp [allowedEv] at hal
    · cases hd
  have hrest : movers s.us = [] := movers_rest hi.rest
  cases hs' : s' with
  | mk med' us' occ' ids' usPrev' mid' =>
  subst hs'
  have hprev := st.prev
  simp only at hprev hocc
  subst hprev
  subst hocc
  have hc0 : Consistent env (hasOccOf c) ⟨s.us, s.occ⟩ := by
    intro _
    simp [hrest, expectedActive, hi.occId, hi.occCell]
  refine ⟨E', t', a', pos', v', t', ?_⟩
  refine
    { med := by rw [pendOf_snoc]; exact minv'
      started := ?_
      prec := hprec'
      owner := hE'
      stopEq := hstop'
      trashEq := hts'
      running := hrunE'
      time := ht'eq
      tnorm := ht'n
      norm := ?_
      kin := hk'
      vel := hv'
      tsnorm := ht'n
      tsle := le_refl _
      tsEq := fun _ => rfl
      phase := ⟨hc0, Or.inl ⟨rfl, rfl, s.ids, cm.created, ?_, st.ids'⟩⟩
      cur := ⟨hc0, fun _ => ⟨⟨s.us, s.occ⟩, hc0⟩, ?_⟩
      wfPrev := hi.wf
      kinPrev := Or.inl hi.rest
      commit := by rw [hSk]; exact hcom
      mirror := ?_
      stays := ?_
      cb := ?_ }
  · have h2 := getTrashable_started hgtrash
    have : med' = ⟨a2, s3, some cm.handler⟩ := hst'
    rw [this]; show a2.started = true; rw [h2, hst1]
  · intro h t e
    rw [pendOf_snoc] at e
    have e' : dropAll (pendPushed (fun _ => none) cm) cm.trashed h = some t := e
    rw [dropAll_eq] at e'
    split at e'
    · cases e'
    · exact (normP h t e').1
  · have hy : (fun T => (world env c).yieldOf T ⟨⟨s.us, s.occ⟩, hc0⟩) = o.yields := by rw [st.yields]; rfl
    rw [hy]; exact hfirst
  · have hy : (fun T => (world env c).yieldOf T ⟨⟨s.us, s.occ⟩, hc0⟩) = o.yields := by rw [st.yields]; rfl
    have hids : ids' = assign s.ids cm.created := st.ids'
    rw [hids]
    exact C08.Reach8.start s.ids (⟨⟨s.us, s.occ⟩, hc0⟩ : G env c) mid' cm.created (by rw [hy]; exact hfirst)
  · intro _ a0 hm _
    rw [hrest] at hm; cases hm
  · intro _ _ _ a0 hm _
    rw [hrest] at hm; cases hm
  · intro _ _ _ hb tb hkb e
    rw [pendOf_snoc] at e
    have e' : dropAll (pendPushed (fun _ => none) cm) cm.trashed hb = some tb := e
    rw [dropAll_eq] at e'
    split at e'
    · cases e'
    · exact absurd hkb (normP hb tb e').2

end

end JF.Sys
