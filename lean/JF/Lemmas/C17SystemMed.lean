import JF.Lemmas.SystemRun
import JF.Props.C17
/-!
C17 at the system level, part 1 (E19): the clock of the sampling handler and the end-of-run handler inside the composed mediator
loop — everything that needs only the MEDIATOR component of a run.

`MRun M os cs st` = a run of `JF.Med.leg` (spec-level scheduler over the exact times `XTime`) from the initial state in which no leg
follows a commit that raised `EndOfRun`.  The mediator component of a run of `JF.Sys.Reach` (E9) and of `JF.Sys2.Reach2` (E16) is
such a run (`JF/Props/C17System.lean`), so every theorem here holds for both systems with one proof.

* `SamplingCands` / `EndCands` (together `ClockCands`): what the two handlers COMPUTE — the candidate time the sampling handler
  returns at its `j`-th request is `Sampling.clock … j` (`self._event_time += self._sampling_interval; return self._event_time`),
  the end-of-run handler always returns `Sampling.endTime tEnd`.  The hypothesis speaks about the oracle values `o.cand` of the
  legs in which the handler is handed out (its `send_event_time` is called exactly then: `JF.Med.pushLoop`), counts the requests
  along the run (`reqs`), and reads nothing of the global state.
* `OwnTrash M T h`: tagger `T` has the one handler `h` and is trashed only by its own commit or by an end-of-run commit.
* `samp_inv`: ONE induction over the legs — the pending sampling candidate is always the tick with index
  `1 + number of sampling commits so far`; requests and commits alternate.
* `sampling_commit_time`, `sampling_times`, `sampling_times_val`: (a).  `mrun_sorted`, `end_commit_*`, `commit_le_end`: (b).
  `sampling_strictMono`: (d).
-/
namespace JF.C17System
open JF JF.Act JF.Heap JF.Sched JF.Med JF.C14 JF.MediatorLoop JF.Sys JF.Sampling JF.C17

/-! ### runs of the mediator loop that stop at the end-of-run commit -/

/-- runs of `JF.Med.leg` with the spec-level scheduler over `XTime` from the initial state; no leg after a commit that raised
`EndOfRun` (`SingleProcessMediator.run` leaves its `while True` there) -/
inductive MRun (M : MWire) : List (Oracle XTime) → List (Committed XTime) → MedState (SSched XTime) → Prop
  | init : MRun M [] [] (MedState.init (specI xcfg) M.w)
  | step {os : List (Oracle XTime)} {cs : List (Committed XTime)} {st st' : MedState (SSched XTime)} {o : Oracle XTime}
      {cm : Committed XTime} (prev : MRun M os cs st) (hgo : ∀ cl, cs.getLast? = some cl → cl.stop = false)
      (hleg : leg M (specI xcfg) st o = .ok (st', cm)) : MRun M (os ++ [o]) (cs ++ [cm]) st'

section
variable {M : MWire}

theorem mrun_run {os : List (Oracle XTime)} {cs : List (Committed XTime)} {st : MedState (SSched XTime)}
    (hr : MRun M os cs st) : MediatorLoop.Run M (specI xcfg) (MedState.init (specI xcfg) M.w) os cs st := by
  induction hr with
  | init => exact .nil _
  | step _ _ hleg ih => exact run_snoc ih hleg

theorem mrun_len {os : List (Oracle XTime)} {cs : List (Committed XTime)} {st : MedState (SSched XTime)}
    (hr : MRun M os cs st) : os.length = cs.length := by
  induction hr with
  | init => rfl
  | step _ _ _ ih => simp [ih]

/-- E1's invariant at the end of a run -/
theorem mrun_minv (hs : Static M) {os : List (Oracle XTime)} {cs : List (Committed XTime)} {st : MedState (SSched XTime)}
    (hr : MRun M os cs st) :
    MInv (I := specI xcfg) M (SRel xcfg) st (pendOf (fun _ => none) cs) (lastOf xcfg.bot cs) :=
  (MediatorLoop.run_inv (specLaws xcfg_strictWeak) hs (mrun_run hr) (minv_init (specLaws xcfg_strictWeak) M)).1

/-- an indexed family of facts about the legs of a run is extended leg by leg -/
theorem idx_snoc {α : Type} {P : List α → α → Prop} {cs : List α} {c : α}
    (ih : ∀ k x, cs[k]? = some x → P (cs.take k) x) (hc : P cs c) :
    ∀ k x, (cs ++ [c])[k]? = some x → P ((cs ++ [c]).take k) x := by
  intro k x hk
  by_cases hlt : k < cs.length
  · rw [List.getElem?_append_left hlt] at hk
    rw [List.take_append_of_le_length (Nat.le_of_lt hlt)]
    exact ih k x hk
  · have hke : k = cs.length := by
      have := (List.getElem?_eq_some_iff.mp hk).1
      simp at this; omega
    subst hke
    simp only [List.getElem?_concat_length, Option.some.injEq] at hk
    subst hk
    rw [List.take_left' rfl]; exact hc

/-- every leg of a run satisfies E1's `LegOK` (for the ghost dictionary and last commit time of its moment), its record of the
pushes is the oracle's candidates of the handlers handed out, and `stop` says whether the committed handler is an end-of-run
handler -/
theorem mrun_legOK (hs : Static M) {os : List (Oracle XTime)} {cs : List (Committed XTime)} {st : MedState (SSched XTime)}
    (hr : MRun M os cs st) : ∀ k cm, cs[k]? = some cm →
      LegOK xcfg xcfg.finite (pendOf (fun _ => none) (cs.take k)) (lastOf xcfg.bot (cs.take k)) cm ∧
      cm.stop = M.endOfRun cm.handler := by
  induction hr with
  | init => intro k cm hk; simp at hk
  | @step os cs st st' o cm prev hgo hleg ih =>
    refine idx_snoc (P := fun pre cm => LegOK xcfg xcfg.finite (pendOf (fun _ => none) pre) (lastOf xcfg.bot pre) cm ∧
      cm.stop = M.endOfRun cm.handler) ih ?_
    obtain ⟨_, ok, _, _, hstop, _⟩ := leg_inv (specLaws xcfg_strictWeak) hs (mrun_minv hs prev) hleg
    exact ⟨ok, hstop⟩

/-- no leg follows a commit that raised `EndOfRun` -/
theorem mrun_stopLast {os : List (Oracle XTime)} {cs : List (Committed XTime)} {st : MedState (SSched XTime)}
    (hr : MRun M os cs st) : ∀ k cm, cs[k]? = some cm → cm.stop = true → k + 1 = cs.length := by
  induction hr with
  | init => intro k cm hk; simp at hk
  | @step os cs st st' o cm prev hgo hleg ih =>
    intro k x hk hx
    by_cases hlt : k < cs.length
    · rw [List.getElem?_append_left hlt] at hk
      have h1 := ih k x hk hx
      have hl : cs.getLast? = some x := by
        rw [List.getLast?_eq_getElem?, ← h1]; simpa using hk
      have := hgo x hl
      rw [hx] at this; cases this
    · have := (List.getElem?_eq_some_iff.mp hk).1
      simp at this ⊢; omega

/-- **commit times never decrease along a run** — here from the scheduler's own guard (`LegOK.guard`: a leg whose
`get_succeeding_event` would return a time before the last returned one raises and is not a leg of a run); under the hypotheses
of E9 the guard never fires (`JF.SystemInv.guard_never_fires_closed`) -/
theorem mrun_sorted (hs : Static M) {os : List (Oracle XTime)} {cs : List (Committed XTime)} {st : MedState (SSched XTime)}
    (hr : MRun M os cs st) :
    cs.Pairwise (fun a b => xcfg.lt b.time a.time = false) ∧ ∀ a ∈ cs, xcfg.lt (lastOf xcfg.bot cs) a.time = false := by
  induction hr with
  | init => simp
  | @step os cs st st' o cm prev hgo hleg ih =>
    obtain ⟨_, ok, _⟩ := leg_inv (specLaws xcfg_strictWeak) hs (mrun_minv hs prev) hleg
    have hall : ∀ a ∈ cs, xcfg.lt cm.time a.time = false := fun a ha =>
      xcfg_strictWeak.ntrans _ _ _ ok.guard (ih.2 a ha)
    constructor
    · rw [List.pairwise_append]
      refine ⟨ih.1, by simp, ?_⟩
      intro a ha b hb
      simp only [List.mem_singleton] at hb
      subst hb
      exact hall a ha
    · intro a ha
      rw [lastOf_snoc]
      rcases List.mem_append.mp ha with h | h
      · exact hall a h
      · simp only [List.mem_singleton] at h
        subst h
        exact xcfg_strictWeak.irrefl _

end

/-! ### counting requests and commits of a handler -/

/-- number of legs in which handler `h` was handed out (= number of calls of its `send_event_time`) -/
def reqs (h : HandlerId) (cs : List (Committed XTime)) : Nat := cs.countP (fun c => (c.created.map Prod.fst).contains h)

/-- number of legs that committed an event of handler `h` -/
def commits (h : HandlerId) (cs : List (Committed XTime)) : Nat := cs.countP (fun c => c.handler == h)

theorem reqs_snoc (h : HandlerId) (cs : List (Committed XTime)) (c : Committed XTime) :
    reqs h (cs ++ [c]) = reqs h cs + if h ∈ c.created.map Prod.fst then 1 else 0 := by
  unfold reqs
  rw [List.countP_append, List.countP_singleton]
  simp only [List.contains_iff_mem]

theorem commits_snoc (h : HandlerId) (cs : List (Committed XTime)) (c : Committed XTime) :
    commits h (cs ++ [c]) = commits h cs + if c.handler = h then 1 else 0 := by
  unfold commits
  rw [List.countP_append, List.countP_singleton]
  simp only [beq_iff_eq]

theorem commits_take_le (h : HandlerId) (cs : List (Committed XTime)) (k : Nat) : commits h (cs.take k) ≤ commits h cs := by
  conv_rhs => rw [← List.take_append_drop k cs]
  unfold commits
  rw [List.countP_append]; omega

/-- a commit of `h` at leg `i` is counted in every longer prefix -/
theorem commits_take_lt {h : HandlerId} {cs : List (Committed XTime)} {i j : Nat} {ci : Committed XTime}
    (hi : cs[i]? = some ci) (hh : ci.handler = h) (hij : i < j) : commits h (cs.take i) < commits h (cs.take j) := by
  have hlt : i < cs.length := (List.getElem?_eq_some_iff.mp hi).1
  have h1 : (cs.take j).take (i + 1) = cs.take i ++ [ci] := by
    rw [List.take_take, Nat.min_eq_left (by omega), List.take_add_one, hi]; rfl
  have h2 := commits_take_le h (cs.take j) (i + 1)
  rw [h1, commits_snoc, if_pos hh] at h2
  omega

/-! ### what the two handlers compute -/

/-- **the sampling handler's clock**: in every leg `k` that hands the sampling handler `hs` out, the candidate time it returns is
the tick of C17's clock model with index `1 + number of earlier requests` (`FixedIntervalSamplingEventHandler.send_event_time`:
`self._event_time += self._sampling_interval; return self._event_time`, `_event_time` initialised by the constructor) -/
def SamplingCands (delta : ℚ) (zf : Bool) (hs : HandlerId) (os : List (Oracle XTime)) (cs : List (Committed XTime)) : Prop :=
  ∀ (k : Nat) (o : Oracle XTime) (cm : Committed XTime), os[k]? = some o → cs[k]? = some cm →
    hs ∈ cm.created.map Prod.fst → o.cand hs = XTime.fin (clock Ops.rat delta zf (reqs hs (cs.take k) + 1))

/-- **the end-of-run handler's time**: whenever the end-of-run handler `he` is handed out it returns `Time.from_float(end_of_run_time)`
(`FinalTimeEndOfRunEventHandler.send_event_time`: `return self._event_time`) -/
def EndCands (tEnd : ℚ) (he : HandlerId) (os : List (Oracle XTime)) (cs : List (Committed XTime)) : Prop :=
  ∀ (k : Nat) (o : Oracle XTime) (cm : Committed XTime), os[k]? = some o → cs[k]? = some cm →
    he ∈ cm.created.map Prod.fst → o.cand he = XTime.fin (endTime Ops.rat tEnd)

/-- **`ClockCands`**: both -/
structure ClockCands (delta tEnd : ℚ) (zf : Bool) (hs he : HandlerId) (os : List (Oracle XTime))
    (cs : List (Committed XTime)) : Prop where
  sampling : SamplingCands delta zf hs os cs
  endOfRun : EndCands tEnd he os cs

theorem samplingCands_snoc {delta : ℚ} {zf : Bool} {hs : HandlerId} {os : List (Oracle XTime)} {cs : List (Committed XTime)}
    {o : Oracle XTime} {cm : Committed XTime} (hl : os.length = cs.length)
    (h : SamplingCands delta zf hs (os ++ [o]) (cs ++ [cm])) :
    SamplingCands delta zf hs os cs ∧
      (hs ∈ cm.created.map Prod.fst → o.cand hs = .fin (clock Ops.rat delta zf (reqs hs cs + 1))) := by
  unfold SamplingCands at h ⊢
  constructor
  · intro k o' c' ho hc hin
    have hlt : k < cs.length := (List.getElem?_eq_some_iff.mp hc).1
    have := h k o' c' (by rw [List.getElem?_append_left (by omega)]; exact ho)
      (by rw [List.getElem?_append_left hlt]; exact hc) hin
    rwa [List.take_append_of_le_length (Nat.le_of_lt hlt)] at this
  · intro hin
    have := h cs.length o cm (by rw [← hl]; simp) (by simp) hin
    rwa [List.take_left' rfl] at this

theorem endCands_snoc {tEnd : ℚ} {he : HandlerId} {os : List (Oracle XTime)} {cs : List (Committed XTime)}
    {o : Oracle XTime} {cm : Committed XTime} (hl : os.length = cs.length)
    (h : EndCands tEnd he (os ++ [o]) (cs ++ [cm])) :
    EndCands tEnd he os cs ∧ (he ∈ cm.created.map Prod.fst → o.cand he = .fin (endTime Ops.rat tEnd)) := by
  unfold EndCands at h ⊢
  constructor
  · intro k o' c' ho hc hin
    have hlt : k < cs.length := (List.getElem?_eq_some_iff.mp hc).1
    exact h k o' c' (by rw [List.getElem?_append_left (by omega)]; exact ho)
      (by rw [List.getElem?_append_left hlt]; exact hc) hin
  · intro hin
    exact h cs.length o cm (by rw [← hl]; simp) (by simp) hin

/-! ### the wiring condition for safety: trashed only by its own commit or by the end of the run -/

/-- tagger `T` owns exactly the handler `h`, and its events are trashed only by its own commit or by the commit of an end-of-run
handler (the docstring of both handlers: "its events should not be trashed by other events") -/
structure OwnTrash (M : MWire) (T : TaggerIdx) (h : HandlerId) : Prop where
  lt : T < M.w.length
  pool : (getW M.w T).pool = [h]
  trashedBy : ∀ E, T ∈ (getW M.w E).trashes → E = T ∨ ∀ x, owner M.w x = some E → M.endOfRun x = true

section
variable {M : MWire}

theorem OwnTrash.owner {T : TaggerIdx} {h : HandlerId} (W : OwnTrash M T h) (hs : Static M) : owner M.w h = some T :=
  owner_of_mem_pool hs.pok W.lt (by rw [W.pool]; simp)

/-- in a leg that does not end the run, the handler of such a tagger is trashed iff it is the one that committed -/
theorem trashed_iff (hs : Static M) {T : TaggerIdx} {h : HandlerId} (W : OwnTrash M T h) {st st' : MedState (SSched XTime)}
    {p : Pend XTime} {l : XTime} {o : Oracle XTime} {cm : Committed XTime}
    (inv : MInv (I := specI xcfg) M (SRel xcfg) st p l) (hleg : leg M (specI xcfg) st o = .ok (st', cm))
    (hgo : cm.stop = false) : h ∈ cm.trashed ↔ cm.handler = h := by
  obtain ⟨_, ok, _, _, hstop, E, hE, _, htr, _⟩ := leg_inv (specLaws xcfg_strictWeak) hs inv hleg
  constructor
  · intro hin
    rw [htr] at hin
    obtain ⟨U, hU, hrun⟩ := (trashLoop_out_mem _ _ h).mp hin
    have hUo := owner_of_running hs.pok (mid_mirror hs inv hleg).1 hrun
    rw [W.owner hs] at hUo
    have hUT : T = U := Option.some.inj hUo
    subst hUT
    rcases W.trashedBy E hU with rfl | hend
    · have := owner_mem hE
      rw [W.pool] at this
      simpa using this
    · rw [hstop, hend cm.handler hE] at hgo; cases hgo
  · intro he
    rw [← he]; exact ok.self_trashed

/-! ### (a): the sampling clock inside the loop -/

/-- the pending sampling candidate in the middle of a leg: the tick after the ones already committed -/
def SampMid (delta : ℚ) (zf : Bool) (hs : HandlerId) (pre : List (Committed XTime)) (cm : Committed XTime) : Prop :=
  ∀ t, pendPushed (pendOf (fun _ => none) pre) cm hs = some t → t = .fin (clock Ops.rat delta zf (commits hs pre + 1))

/-- between two legs: either the sampling handler has no pending event and every request has been answered by a commit, or its
pending event is the tick with the index of its last request, one request being open -/
def SampEnd (delta : ℚ) (zf : Bool) (hs : HandlerId) (cs : List (Committed XTime)) : Prop :=
  (pendOf (fun _ => none) cs hs = none ∧ reqs hs cs = commits hs cs) ∨
  (pendOf (fun _ => none) cs hs = some (.fin (clock Ops.rat delta zf (reqs hs cs))) ∧ reqs hs cs = commits hs cs + 1)

/-- **the clock invariant of the composed loop** (ONE induction over the legs) -/
theorem samp_inv (hs : Static M) {Ts : TaggerIdx} {hsm : HandlerId} (W : OwnTrash M Ts hsm) {delta : ℚ} {zf : Bool}
    {os : List (Oracle XTime)} {cs : List (Committed XTime)} {st : MedState (SSched XTime)} (hr : MRun M os cs st)
    (hc : SamplingCands delta zf hsm os cs) :
    (∀ k cm, cs[k]? = some cm → SampMid delta zf hsm (cs.take k) cm) ∧
    ((∀ cl, cs.getLast? = some cl → cl.stop = false) → SampEnd delta zf hsm cs) := by
  induction hr with
  | init =>
    refine ⟨fun k cm hk => by simp at hk, fun _ => Or.inl ⟨rfl, rfl⟩⟩
  | @step os cs st st' o cm prev hgo hleg ih =>
    obtain ⟨hc0, hcn⟩ := samplingCands_snoc (mrun_len prev) hc
    obtain ⟨ihm, ihe⟩ := ih hc0
    have ie := ihe hgo
    have inv := mrun_minv hs prev
    obtain ⟨_, ok, hpushed, _, _, _⟩ := leg_inv (specLaws xcfg_strictWeak) hs inv hleg
    -- the pending sampling candidate in the middle of the new leg
    have hkeys : hsm ∈ cm.pushed.map Prod.fst ↔ hsm ∈ cm.created.map Prod.fst := by rw [ok.pushed_keys]
    have hmidv : (hsm ∈ cm.created.map Prod.fst ∧ pendOf (fun _ => none) cs hsm = none ∧ reqs hsm cs = commits hsm cs ∧
          pendPushed (pendOf (fun _ => none) cs) cm hsm = some (.fin (clock Ops.rat delta zf (reqs hsm cs + 1)))) ∨
        (hsm ∉ cm.created.map Prod.fst ∧
          pendPushed (pendOf (fun _ => none) cs) cm hsm = pendOf (fun _ => none) cs hsm) := by
      by_cases hin : hsm ∈ cm.created.map Prod.fst
      · left
        have hp : pendOf (fun _ => none) cs hsm = none := ok.fresh hsm (hkeys.mpr hin)
        have hrc : reqs hsm cs = commits hsm cs := by
          rcases ie with ⟨_, h⟩ | ⟨h, _⟩
          · exact h
          · rw [hp] at h; cases h
        refine ⟨hin, hp, hrc, ?_⟩
        obtain ⟨q, hq, hq1⟩ := List.mem_map.mp hin
        have hmem : (q.1, o.cand q.1) ∈ cm.pushed := by
          rw [hpushed]; exact List.mem_map.mpr ⟨q, hq, rfl⟩
        have := pushAll_mem (pendOf (fun _ => none) cs) ok.nodup hmem
        simp only [hq1] at this
        unfold pendPushed
        rw [this, hcn hin]
      · right
        exact ⟨hin, pushAll_not_mem _ _ (fun h => hin (hkeys.mp h))⟩
    constructor
    · refine idx_snoc (P := SampMid delta zf hsm) ihm ?_
      intro t ht
      rcases hmidv with ⟨_, _, hrc, hv⟩ | ⟨_, hv⟩
      · rw [hv] at ht
        rw [← hrc]; exact (Option.some.inj ht).symm
      · rw [hv] at ht
        rcases ie with ⟨h, _⟩ | ⟨h, hrc⟩
        · rw [h] at ht; cases ht
        · rw [h] at ht
          rw [← hrc]; exact (Option.some.inj ht).symm
    · intro hlast
      have hgo' : cm.stop = false := hlast cm (by simp)
      have htr := trashed_iff hs W inv hleg hgo'
      unfold SampEnd
      rw [pendOf_snoc, reqs_snoc, commits_snoc]
      have hafter : pendAfter (pendOf (fun _ => none) cs) cm hsm =
          if cm.handler = hsm then none else pendPushed (pendOf (fun _ => none) cs) cm hsm := by
        show dropAll _ cm.trashed hsm = _
        rw [dropAll_eq]
        by_cases hh : cm.handler = hsm
        · rw [if_pos (htr.mpr hh), if_pos hh]
        · rw [if_neg (fun h => hh (htr.mp h)), if_neg hh]
      rw [hafter]
      rcases hmidv with ⟨hin, _, hrc, hv⟩ | ⟨hin, hv⟩
      · rw [if_pos hin, hv]
        by_cases hh : cm.handler = hsm
        · left; rw [if_pos hh, if_pos hh]; exact ⟨rfl, by omega⟩
        · right; rw [if_neg hh, if_neg hh]; exact ⟨rfl, by omega⟩
      · rw [if_neg hin, hv]
        rcases ie with ⟨h, hrc⟩ | ⟨h, hrc⟩
        · have hh : cm.handler ≠ hsm := by
            intro hh
            have := ok.pending
            rw [hh, hv, h] at this; cases this
          left; rw [if_neg hh, if_neg hh]; exact ⟨h, by omega⟩
        · by_cases hh : cm.handler = hsm
          · left; rw [if_pos hh, if_pos hh]; exact ⟨rfl, by omega⟩
          · right; rw [if_neg hh, if_neg hh]; exact ⟨h, by omega⟩

/-- **(a), indexed form.**  In every run, the sampling event committed in leg `k` has exactly the time of the clock tick with
index `1 + number of sampling commits before leg k`: the `j`-th committed sampling event (counted from 1) is at tick `j`. -/
theorem sampling_commit_time (hs : Static M) {Ts : TaggerIdx} {hsm : HandlerId} (W : OwnTrash M Ts hsm) {delta : ℚ}
    {zf : Bool} {os : List (Oracle XTime)} {cs : List (Committed XTime)} {st : MedState (SSched XTime)}
    (hr : MRun M os cs st) (hc : SamplingCands delta zf hsm os cs) {k : Nat} {cm : Committed XTime}
    (hk : cs[k]? = some cm) (hh : cm.handler = hsm) :
    cm.time = .fin (clock Ops.rat delta zf (commits hsm (cs.take k) + 1)) := by
  have hp := ((mrun_legOK hs hr) k cm hk).1.pending
  rw [hh] at hp
  exact (samp_inv hs W hr hc).1 k cm hk _ hp

/-- a list fact: if the `g`-value of every element satisfying `P` is `F` of the number of earlier such elements, the `g`-values
of the filtered list are `F 0, F 1, …` -/
theorem filter_map_of_indexed {α β : Type} (P : α → Bool) (g : α → β) :
    ∀ (cs : List α) (F : Nat → β), (∀ k x, cs[k]? = some x → P x = true → g x = F ((cs.take k).countP P)) →
      (cs.filter P).map g = (List.range (cs.countP P)).map F := by
  intro cs
  induction cs with
  | nil => intro F _; simp
  | cons a cs ih =>
    intro F h
    by_cases ha : P a = true
    · have h0 : g a = F 0 := by simpa using h 0 a (by simp) ha
      have h' : ∀ k x, cs[k]? = some x → P x = true → g x = (fun j => F (j + 1)) ((cs.take k).countP P) := by
        intro k x hk hx
        have := h (k + 1) x (by simpa using hk) hx
        simpa [List.take_succ_cons, List.countP_cons, ha] using this
      rw [List.filter_cons_of_pos ha, List.map_cons, ih (fun j => F (j + 1)) h', List.countP_cons_of_pos ha, List.range_succ_eq_map,
        List.map_cons, List.map_map, h0]
      rfl
    · have h' : ∀ k x, cs[k]? = some x → P x = true → g x = F ((cs.take k).countP P) := by
        intro k x hk hx
        have := h (k + 1) x (by simpa using hk) hx
        simpa [List.take_succ_cons, List.countP_cons, ha] using this
      rw [List.filter_cons_of_neg ha, ih _ h', List.countP_cons_of_neg ha]

/-- **(a), list form: no sample skipped, none duplicated, in order.**  The times of the committed sampling events of a run, in
the order of the commits, are exactly the clock ticks `1, 2, …, n`. -/
theorem sampling_times (hs : Static M) {Ts : TaggerIdx} {hsm : HandlerId} (W : OwnTrash M Ts hsm) {delta : ℚ}
    {zf : Bool} {os : List (Oracle XTime)} {cs : List (Committed XTime)} {st : MedState (SSched XTime)}
    (hr : MRun M os cs st) (hc : SamplingCands delta zf hsm os cs) :
    (cs.filter (fun c => c.handler == hsm)).map (·.time) =
      (List.range (commits hsm cs)).map (fun j => XTime.fin (clock Ops.rat delta zf (j + 1))) := by
  refine filter_map_of_indexed (fun c => c.handler == hsm) (·.time) cs
    (fun j => XTime.fin (clock Ops.rat delta zf (j + 1))) ?_
  intro k x hk hx
  exact sampling_commit_time hs W hr hc hk (by simpa using hx)

/-- **(a) in the rational order: the `j`-th committed sampling event has time exactly `nominal delta zf j`** (`JF.C17.nominal`:
`j · delta`, or `(j − 1) · delta` with `first_event_time_zero`), as a normalised `Time` -/
theorem sampling_commit_time_val (hs : Static M) {Ts : TaggerIdx} {hsm : HandlerId} (W : OwnTrash M Ts hsm) {delta : ℚ}
    {zf : Bool} {os : List (Oracle XTime)} {cs : List (Committed XTime)} {st : MedState (SSched XTime)}
    (hr : MRun M os cs st) (hc : SamplingCands delta zf hsm os cs) {k : Nat} {cm : Committed XTime}
    (hk : cs[k]? = some cm) (hh : cm.handler = hsm) :
    ∃ t, cm.time = .fin t ∧ Normalised t ∧ val t = nominal delta zf (commits hsm (cs.take k) + 1) :=
  ⟨_, sampling_commit_time hs W hr hc hk hh, (clock_val delta zf _).2, (clock_val delta zf _).1⟩

/-- `nominal` is strictly increasing in the tick index when the interval is positive -/
theorem nominal_strictMono {delta : ℚ} (hd : 0 < delta) (zf : Bool) {i j : Nat} (h : i < j) :
    nominal delta zf i < nominal delta zf j := by
  have : (i : ℚ) < (j : ℚ) := by exact_mod_cast h
  cases zf <;> simp only [nominal] <;> simp <;> nlinarith

/-- **(d): the commit times of the sampling events are strictly increasing** when `0 < delta` (the constructor of the handler
raises otherwise) -/
theorem sampling_strictMono (hs : Static M) {Ts : TaggerIdx} {hsm : HandlerId} (W : OwnTrash M Ts hsm) {delta : ℚ}
    (hd : 0 < delta) {zf : Bool} {os : List (Oracle XTime)} {cs : List (Committed XTime)} {st : MedState (SSched XTime)}
    (hr : MRun M os cs st) (hc : SamplingCands delta zf hsm os cs) {i j : Nat} {ci cj : Committed XTime}
    (hi : cs[i]? = some ci) (hj : cs[j]? = some cj) (hhi : ci.handler = hsm) (hhj : cj.handler = hsm) (hij : i < j) :
    ∃ ti tj, ci.time = .fin ti ∧ cj.time = .fin tj ∧ val ti < val tj ∧ xcfg.lt ci.time cj.time = true := by
  obtain ⟨ti, e1, n1, v1⟩ := sampling_commit_time_val hs W hr hc hi hhi
  obtain ⟨tj, e2, n2, v2⟩ := sampling_commit_time_val hs W hr hc hj hhj
  have hlt : val ti < val tj := by
    rw [v1, v2]
    exact nominal_strictMono hd zf (by have := commits_take_lt hi hhi hij; omega)
  refine ⟨ti, tj, e1, e2, hlt, ?_⟩
  rw [e1, e2]; exact (xlt_true_iff n1 n2).mpr hlt

/-! ### (b): the end of the run -/

/-- the pending end-of-run candidate is always `endTime tEnd` -/
theorem end_inv {he : HandlerId} {tEnd : ℚ} {os : List (Oracle XTime)} {cs : List (Committed XTime)}
    {st : MedState (SSched XTime)} (hr : MRun M os cs st) (hc : EndCands tEnd he os cs) :
    (∀ k cm, cs[k]? = some cm → ∀ t, pendPushed (pendOf (fun _ => none) (cs.take k)) cm he = some t →
        t = .fin (endTime Ops.rat tEnd)) ∧
    ∀ t, pendOf (fun _ => none) cs he = some t → t = .fin (endTime Ops.rat tEnd) := by
  induction hr with
  | init => exact ⟨fun k cm hk => by simp at hk, fun t h => by cases h⟩
  | @step os cs st st' o cm prev hgo hleg ih =>
    obtain ⟨hc0, hcn⟩ := endCands_snoc (mrun_len prev) hc
    obtain ⟨ihm, ihe⟩ := ih hc0
    obtain ⟨_, _, _, _, _, _, _, _, _, _, hpushed, _⟩ := leg_ok hleg
    have hmid : ∀ t, pendPushed (pendOf (fun _ => none) cs) cm he = some t → t = .fin (endTime Ops.rat tEnd) := by
      intro t ht
      rcases pushAll_some _ _ ht with h1 | h1
      · exact ihe t h1
      · rw [hpushed] at h1
        obtain ⟨q, hq, hqe⟩ := List.mem_map.mp h1
        simp only [Prod.mk.injEq] at hqe
        rw [← hqe.2, hqe.1]
        exact hcn (List.mem_map.mpr ⟨q, hq, hqe.1⟩)
    constructor
    · exact idx_snoc (P := fun (pre : List (Committed XTime)) (cm : Committed XTime) =>
        ∀ t : XTime, pendPushed (pendOf (fun _ => none) pre) cm he = some t → t = XTime.fin (endTime Ops.rat tEnd)) ihm hmid
    · intro t ht
      rw [pendOf_snoc] at ht
      have ht' : dropAll (pendPushed (pendOf (fun _ => none) cs) cm) cm.trashed he = some t := ht
      rw [dropAll_eq] at ht'
      split at ht'
      · cases ht'
      · exact hmid t ht'

/-- **(b1): the end-of-run event is committed at exactly `endTime tEnd`, and it is the last commit of the run** -/
theorem end_commit (hs : Static M) {he : HandlerId} (hE : M.endOfRun he = true) {tEnd : ℚ} {os : List (Oracle XTime)}
    {cs : List (Committed XTime)} {st : MedState (SSched XTime)} (hr : MRun M os cs st) (hc : EndCands tEnd he os cs)
    {K : Nat} {cE : Committed XTime} (hK : cs[K]? = some cE) (hh : cE.handler = he) :
    cE.time = .fin (endTime Ops.rat tEnd) ∧ K + 1 = cs.length := by
  obtain ⟨ok, hstop⟩ := mrun_legOK hs hr K cE hK
  have hp := ok.pending
  rw [hh] at hp
  refine ⟨(end_inv hr hc).1 K cE hK _ hp, mrun_stopLast hr K cE hK ?_⟩
  rw [hstop, hh]; exact hE

/-- **(b2): once the end-of-run event has been committed, no event of the run has a time beyond `tEnd`** (in the scheduler's
order; `commit_le_end_val` in ℚ) — in particular none is committed after the end-of-run commit at a later time: there is no later
commit at all (`end_commit`), and every earlier one is not later -/
theorem commit_le_end (hs : Static M) {he : HandlerId} (hE : M.endOfRun he = true) {tEnd : ℚ} {os : List (Oracle XTime)}
    {cs : List (Committed XTime)} {st : MedState (SSched XTime)} (hr : MRun M os cs st) (hc : EndCands tEnd he os cs)
    {K : Nat} {cE : Committed XTime} (hK : cs[K]? = some cE) (hh : cE.handler = he) {k : Nat} {cm : Committed XTime}
    (hk : cs[k]? = some cm) : k ≤ K ∧ xcfg.lt (.fin (endTime Ops.rat tEnd)) cm.time = false := by
  obtain ⟨ht, hlast⟩ := end_commit hs hE hr hc hK hh
  have hkl : k < cs.length := (List.getElem?_eq_some_iff.mp hk).1
  refine ⟨by omega, ?_⟩
  rw [← ht]
  by_cases hkK : k = K
  · subst hkK
    rw [hK] at hk; cases hk
    exact xcfg_strictWeak.irrefl _
  · have hlt : k < K := by omega
    have hKl : K < cs.length := (List.getElem?_eq_some_iff.mp hK).1
    have := List.pairwise_iff_getElem.mp (mrun_sorted hs hr).1 k K hkl hKl hlt
    rw [List.getElem?_eq_getElem hkl] at hk
    rw [List.getElem?_eq_getElem hKl] at hK
    cases hk; cases hK
    exact this

theorem commit_le_end_val (hs : Static M) {he : HandlerId} (hE : M.endOfRun he = true) {tEnd : ℚ} {os : List (Oracle XTime)}
    {cs : List (Committed XTime)} {st : MedState (SSched XTime)} (hr : MRun M os cs st) (hc : EndCands tEnd he os cs)
    {K : Nat} {cE : Committed XTime} (hK : cs[K]? = some cE) (hh : cE.handler = he) {k : Nat} {cm : Committed XTime}
    (hk : cs[k]? = some cm) {t : Time ℚ} (ht : cm.time = .fin t) (htn : Normalised t) : val t ≤ tEnd := by
  have := (commit_le_end hs hE hr hc hK hh hk).2
  rw [ht] at this
  have := (xlt_false_iff (endTime_val tEnd).2 htn).mp this
  rwa [(endTime_val tEnd).1] at this

/-- **(b3): every sampling commit is before the end-of-run commit or tied with it**: the `j`-th sample of a run that has
committed its end-of-run event has `nominal delta zf j ≤ tEnd` -/
theorem sampling_le_end (hs : Static M) {Ts : TaggerIdx} {hsm he : HandlerId} (W : OwnTrash M Ts hsm)
    (hE : M.endOfRun he = true) {delta tEnd : ℚ} {zf : Bool} {os : List (Oracle XTime)} {cs : List (Committed XTime)}
    {st : MedState (SSched XTime)} (hr : MRun M os cs st) (hc : ClockCands delta tEnd zf hsm he os cs)
    {K : Nat} {cE : Committed XTime} (hK : cs[K]? = some cE) (hh : cE.handler = he) {k : Nat} {cm : Committed XTime}
    (hk : cs[k]? = some cm) (hhs : cm.handler = hsm) :
    k ≤ K ∧ nominal delta zf (commits hsm (cs.take k) + 1) ≤ tEnd := by
  obtain ⟨t, e, n, v⟩ := sampling_commit_time_val hs W hr hc.sampling hk hhs
  refine ⟨(commit_le_end hs hE hr hc.endOfRun hK hh hk).1, ?_⟩
  rw [← v]
  exact commit_le_end_val hs hE hr hc.endOfRun hK hh hk e n

end

end JF.C17System
