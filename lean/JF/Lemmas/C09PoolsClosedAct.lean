import JF.Lemmas.C09PoolsRun
/-!
E42 / C09, last clause — ACTIVATION-AWARE versions of the activator-level lemmas of `JF/Lemmas/C09PoolsRun.lean`.

`TagActivator._get_event_handlers_to_run_update` asks `tagger.yield_identifiers_send_event_time(state)` of every tagger of the create
list, but a DEACTIVATED tagger is bound to `_deactivated_yield_identifiers_send_event_time` (`iter(())`): it takes nothing out of its
pool.  So the demand that matters is the demand of the taggers that are activated AFTER the activate / deactivate lists of the
committing tagger were applied (`actAfter`, = `aGet (aStep c (absOf s) E) T`).  `commit_isSome_act` / `run_next_commit_isSome_act`
ask for the bound only there; `update_isSome_of_run` is the form the composed systems use (the trash of the last leg is already done).
-/
namespace JF.C09Pools
open JF JF.Act

/-- **one leg does not raise `TagActivatorError`** if every tagger of the create list (i) is trashed in the same leg or has no
pending handler and (ii) — IF IT IS ACTIVATED after the activate / deactivate lists of `E` — yields at most as many in-states on the
new state as its pool holds -/
theorem commit_isSome_act {G : Type} {w : Wires} {W : World G} {rs : RS G} {E : TaggerIdx} {g' : G} (wf : WFw w)
    (pinv : PoolInv w rs.act)
    (hidle : ∀ T ∈ (getW w E).creates, T ∈ (getW w E).trashes ∨ (getT rs.act T).running = [])
    (hb : ∀ T ∈ (getW w E).creates, actAfter w E T (getT rs.act T).activated = true →
      (W.yieldOf T g').length ≤ (getW w T).pool.length) :
    (commit w W rs E g').isSome = true := by
  have pinv' : PoolInv w (trash w rs.act E).1 := poolInv_trash E pinv
  cases hu : update w (trash w rs.act E).1 E (fun T => W.yieldOf T g') with
  | some r => unfold commit; rw [hu]; rfl
  | none =>
    exfalso
    obtain ⟨T, hT, hlt⟩ := (C09.update_error_iff wf pinv'.1 E _).mp hu
    obtain ⟨_, htr, hfr⟩ := C09.trash_returns_exactly_running w rs.act E
    have hrun : (getT (trash w rs.act E).1 T).running = [] := by
      by_cases ht : T ∈ (getW w E).trashes
      · exact htr T ht
      · rw [hfr T ht]
        rcases hidle T hT with h | h
        · exact absurd h ht
        · exact h
    have hperm := (pinv'.2 T).length_eq
    rw [hrun, List.nil_append] at hperm
    have hact : (getT (trash w rs.act E).1 T).activated = (getT rs.act T).activated := trashLoop_activated _ _ _
    rw [hact] at hlt
    cases ha : actAfter w E T (getT rs.act T).activated with
    | false => rw [ha] at hlt; simp at hlt
    | true =>
      rw [ha] at hlt
      simp only [if_true] at hlt
      have := hb T hT ha
      omega

/-- **in every run of a sound configuration the next leg does not raise**, provided the taggers of the create list of the
committing tagger THAT ARE ACTIVATED in the activation state after the commit (`aStep`) yield at most `pool` in-states on the new
state -/
theorem run_next_commit_isSome_act {G : Type} (c : Wiring) (W : World G) (Tr : TaggerIdx → G → G → Prop) (S : TaggerIdx)
    (sound : WiringSound c = true) (hS : c.start? = some S) (fps : FootprintsSound c W Tr) (hlive : LiveIs c W)
    {rs : RS G} (hrun : Run c W Tr S rs) {E : TaggerIdx} (hpending : (getT rs.act E).running ≠ [])
    (hend : (c.tagger E).kind ≠ .endOfRun) {g' : G}
    (hb : ∀ T ∈ (c.tagger E).creates, aGet (aStep c (absOf rs.act) E) T = true →
      (W.yieldOf T g').length ≤ (c.tagger T).pool) :
    (commit c.wires W rs E g').isSome = true := by
  have ih := run_inv c W Tr S sound hS fps hlive hrun
  unfold WiringSound at sound
  rw [hS] at sound
  simp only [Bool.and_eq_true] at sound
  obtain ⟨⟨⟨hwf, _⟩, _⟩, hviol⟩ := sound
  have st := static_of_wfStatic hwf
  have wf := wfw_of_static st
  obtain ⟨hSn, hSk, hSu⟩ := start_spec hS
  have hEn : E < c.n := by
    rcases Nat.lt_or_ge E c.n with h | h
    · exact h
    · exfalso; apply hpending
      rw [getT_of_le _ _ (by rw [ih.pool.1, c.wires_length]; exact h)]; rfl
  have hEk : (c.tagger E).kind ≠ .startOfRun := by
    intro hk
    have := hSu E hEn hk
    subst this
    exact hpending ih.startIdle
  have hEl : W.live E := (hlive E).mpr ⟨hEn, hEk⟩
  have hEa : aGet (absOf rs.act) E = true := by
    rw [aGet_absOf]
    cases ha : (getT rs.act E).activated
    · exact absurd (fresh_nil_of_deactivated (ih.fresh E hEl) ha) hpending
    · rfl
  have hcan : canCommit c (absOf rs.act) E = true := by
    unfold canCommit
    simp only [hEa, Bool.true_and, Bool.and_eq_true, bne_iff_ne, ne_eq]
    exact ⟨hEk, hend⟩
  refine commit_isSome_act wf ih.pool ?_ ?_
  · intro T hT
    rw [(getW_wires c E).1] at hT
    rw [(getW_wires c E).2.1]
    by_cases ht : T ∈ (c.tagger E).trashes
    · exact Or.inl ht
    · right
      have hTn : T < c.n := st.creates_lt E T hT
      have hTk : (c.tagger T).kind ≠ .startOfRun := by
        intro hk
        have := hSu T hTn hk
        subst this
        exact st.start_not_created E hT
      have hTl : W.live T := (hlive T).mpr ⟨hTn, hTk⟩
      have := (clauses_of_no_violation (no_violation hviol ih.reach hEn hcan hTn) hTk).1 hT ht
      rw [aGet_absOf] at this
      exact fresh_nil_of_deactivated (ih.fresh T hTl) this
  · intro T hT hact
    rw [(getW_wires c E).1] at hT
    rw [pool_length_wires]
    have hTn : T < c.n := st.creates_lt E T hT
    refine hb T hT ?_
    rw [aGet_aStep c rs.act E T (by rw [ih.pool.1, c.wires_length]; exact hTn)]
    exact hact

/-- the commit of the start-of-run event (second call of `get_event_handlers_to_run`), activation-aware -/
theorem start_commit_isSome_act {G : Type} (c : Wiring) (W : World G) (S : TaggerIdx) (sound : WiringSound c = true)
    (hS : c.start? = some S) {s0 : Act} {out : List (HandlerId × IdTuple)} {ys : TaggerIdx → List IdTuple}
    (hfirst : first c.wires (initAct c.wires) S ys = some (s0, out)) (ids : HandlerId → IdTuple) (g0 g1 : G)
    (hb : ∀ T ∈ (c.tagger S).creates, aGet (aStep c (absOf s0) S) T = true → (W.yieldOf T g1).length ≤ (c.tagger T).pool) :
    (commit c.wires W ⟨s0, ids, g0⟩ S g1).isSome = true := by
  have sound' := sound
  unfold WiringSound at sound'
  rw [hS] at sound'
  simp only [Bool.and_eq_true] at sound'
  obtain ⟨⟨⟨hwf, _⟩, _⟩, _⟩ := sound'
  have st := static_of_wfStatic hwf
  have wf := wfw_of_static st
  have p0 : PoolInv c.wires s0 := poolInv_first (poolInv_init c.wires) hfirst
  refine commit_isSome_act wf p0 ?_ ?_
  · intro T hT
    right
    rw [(getW_wires c S).1] at hT
    have hne : T ∉ [S] := by
      simp only [List.mem_singleton]; intro e; subst e; exact st.start_not_created T hT
    unfold first at hfirst
    show (getT s0 T).running = []
    rw [createLoop_frame hfirst hne, applyActivation_running, getT_initAct]
    split <;> rfl
  · intro T hT hact
    rw [(getW_wires c S).1] at hT
    rw [pool_length_wires]
    have hTn : T < c.n := st.creates_lt S T hT
    refine hb T hT ?_
    rw [aGet_aStep c s0 S T (by rw [p0.1, c.wires_length]; exact hTn)]
    exact hact

/-- `commit … ≠ none` read as "`update` after the trash does not raise" (the composed systems do the trash at the end of the previous leg) -/
theorem update_isSome_of_commit {G : Type} {w : Wires} {W : World G} {rs : RS G} {E : TaggerIdx} {g' : G}
    (h : (commit w W rs E g').isSome = true) : (update w (trash w rs.act E).1 E (fun T => W.yieldOf T g')).isSome = true := by
  unfold commit at h
  cases hu : update w (trash w rs.act E).1 E (fun T => W.yieldOf T g') with
  | none => rw [hu] at h; simp at h
  | some r => rfl

end JF.C09Pools
