import JF.Model.ConcreteWorld
import JF.Lemmas.FactorCells
import JF.Props.C11
/-!
Definitions and helper lemmas for `JF/Props/C10C11.lean` (the link C11 ⟶ C10): the conversion of C11's occupancy state
(`JF.Occ.State`: cells and units are numbers) into the occupancy the cell taggers of C10 read (`JF.CellTaggers.Occ`: cells and
units are identifier tuples), and the counting argument that turns C11's per-cell record counts into C10's global permutation.
-/
namespace JF.C10C11
open JF JF.CellTaggers

abbrev UId := JF.Occ.UId

/-- number of cells of the grid (`len(list(cells.yield_cells()))`) -/
def numCells (g : Grid) : Nat := (allCells g.n).length
/-- the global-state identifier of point mass `u` is the tuple `(u,)` -/
def wrap (u : UId) : Ident := [u]
def idents (l : List UId) : List Ident := l.map wrap

/-- **The conversion** `Occ.State → CellTaggers.Occ`: the occupancy as the cell taggers read it.  C11's cell number `k` is the
`k`-th cell in `yield_cells()` order (`CW.cellAt`, `CW.cellIdx`: position in `allCells g.n`), unit `u` is the identifier `(u,)`;
`__getitem__` = occupants of the cell's index, `_surplus` entry by entry in dictionary order, `yield_active_cells` = the recorded
pair if both `_active_cell` and `_active_unit_identifier` are set.  It is E8's `CW.tocc` (which `harness/fpcorr.py` feeds from the
real class) without the unused fields of its environment: `tocc_eq`, by `rfl`. -/
def toTaggerOcc (g : Grid) (s : JF.Occ.State) : CellTaggers.Occ :=
  { occ := fun c => (s.occupants (CW.cellIdx g c)).map fun u => [u]
    surplus := s.surplus.map fun e => (CW.cellAt g e.1, e.2.map fun u => [u])
    active := match s.activeCell, s.activeId with
      | some c, some a => some (CW.cellAt g c, [a])
      | _, _ => none }

theorem tocc_eq {α : Type} (env : CW.Env α) (s : JF.Occ.State) : CW.tocc env s = toTaggerOcc env.grid s := rfl

/-- the positions of the members of a duplicate-free list, in order, are `0, 1, …` -/
theorem map_idxOf_self {β : Type} [BEq β] [LawfulBEq β] (l : List β) (h : l.Nodup) :
    l.map (fun x => l.idxOf x) = List.range l.length := by
  apply List.ext_getElem (by simp)
  intro i h1 h2
  simp [List.Nodup.idxOf_getElem h]

/-- summing per-cell counts: if `u` can only be listed under cell `k0`, it occurs in the concatenation over the cells `0 … N-1`
as often as in the list of `k0` — provided `k0` is one of these cells -/
theorem count_flatMap_range {β : Type} [DecidableEq β] (f : Nat → List β) (u : β) (k0 : Nat)
    (hz : ∀ k, k ≠ k0 → (f k).count u = 0) (N : Nat) :
    ((List.range N).flatMap f).count u = if k0 < N then (f k0).count u else 0 := by
  induction N with
  | zero => simp
  | succ N ih =>
    rw [List.range_succ, List.flatMap_append, List.count_append, ih]
    simp only [List.flatMap_cons, List.flatMap_nil, List.append_nil]
    by_cases h : N = k0
    · subst h; simp
    · rw [hz N h]
      have : (k0 < N + 1) = (k0 < N) := by
        apply propext; omega
      simp [this]

theorem map_erase_wrap (l : List UId) (a : UId) : (l.erase a).map wrap = (l.map wrap).erase (wrap a) := by
  induction l with
  | nil => rfl
  | cons x t ih =>
    by_cases h : x = a
    · subst h; simp
    · have : wrap x ≠ wrap a := by simpa [wrap] using h
      simp [h, this, ih]


theorem cellAt_valid (g : Grid) {k : Nat} (hk : k < numCells g) : Valid g.n (CW.cellAt g k) := by
  unfold CW.cellAt
  rw [List.getElem?_eq_getElem hk]
  exact mem_allCells.mp (List.getElem_mem hk)

/-- everything the converted occupancy stores, read off the `Occ.State` -/
def storedIds (g : Grid) (s : JF.Occ.State) : List UId :=
  (List.range (numCells g)).flatMap s.occupants ++ JF.Occ.yieldSurplus s

/-- what C10 calls `stored` (occupants of all cells of the grid in `yield_cells()` order, then surplus), for a converted state -/
theorem stored_toTaggerOcc (g : Grid) (s : JF.Occ.State) :
    stored g (toTaggerOcc g s) = idents (storedIds g s) := by
  have h1 : (allCells g.n).flatMap (toTaggerOcc g s).occ =
      ((List.range (numCells g)).flatMap s.occupants).map wrap := by
    rw [List.map_flatMap, numCells, ← map_idxOf_self _ (nodup_allCells g.n), List.flatMap_map]
    rfl
  have h2 : (toTaggerOcc g s).yieldSurplus = (JF.Occ.yieldSurplus s).map wrap := by
    simp only [CellTaggers.Occ.yieldSurplus, toTaggerOcc, JF.Occ.yieldSurplus, JF.Occ.Dict.values,
      List.map_flatten, List.map_map, List.flatMap_def]
    rfl
  rw [stored, h1, h2, idents, storedIds, List.map_append]


/-- **per-cell counts ⟶ global count.**  C11's invariant speaks cell by cell (`recCount s u c` is 1 for the cell of `u`'s
position, 0 for every other cell); summed over the cells of the grid a relevant non-active unit whose cell is a cell of the grid
is stored exactly once, everybody else not at all. -/
theorem count_storedIds {rel : UId → Bool} {cellOf : UId → JF.Occ.Cell} {s : JF.Occ.State}
    (h : C11.OccInv rel cellOf s) (g : Grid) (u : UId)
    (hin : rel u = true → s.activeId ≠ some u → cellOf u < numCells g) :
    (storedIds g s).count u = if rel u = true ∧ s.activeId ≠ some u then 1 else 0 := by
  have hrc := h.count u
  have hz : ∀ k, k ≠ cellOf u → (s.occupants k).count u = 0 := by
    intro k hk
    have hne : ¬ cellOf u = k := fun e => hk e.symm
    have h0 : C11.recCount s u k = 0 := by
      rw [hrc k]
      by_cases hc : rel u = true ∧ s.activeId ≠ some u
      · simp [hc, hne]
      · simp [hc]
    simp only [C11.recCount] at h0
    omega
  rw [storedIds, List.count_append, count_flatMap_range _ u (cellOf u) hz, C11.count_yieldSurplus h]
  have hc := hrc (cellOf u)
  simp only [C11.recCount] at hc
  by_cases hcond : rel u = true ∧ s.activeId ≠ some u
  · rw [if_pos (hin hcond.1 hcond.2), if_pos hcond]
    simpa [hcond] using hc
  · rw [if_neg hcond]
    simp only [hcond, if_false] at hc
    have : ¬ ((none : Option JF.Occ.Cell) = some (cellOf u)) := by simp
    simp only [this, if_false] at hc
    split <;> omega


/-- … hence the stored units are a permutation of any duplicate-free enumeration of the relevant units, minus the active one -/
theorem storedIds_perm {rel : UId → Bool} {cellOf : UId → JF.Occ.Cell} {s : JF.Occ.State}
    (h : C11.OccInv rel cellOf s) (g : Grid) (relevant : List UId) (hnd : relevant.Nodup)
    (hmem : ∀ u, u ∈ relevant ↔ rel u = true) (hgrid : ∀ u ∈ relevant, cellOf u < numCells g)
    {a : UId} (ha : s.activeId = some a) : (storedIds g s).Perm (relevant.erase a) := by
  rw [List.perm_iff_count]
  intro u
  rw [count_storedIds h g u (fun hr _ => hgrid u ((hmem u).mpr hr)), List.count_erase,
    List.Nodup.count hnd, ha]
  by_cases hu : u = a
  · subst hu; by_cases hr : rel u = true <;> simp [hr, (hmem u)]
  · have h1 : ¬ a = u := fun e => hu e.symm
    by_cases hr : rel u = true <;> simp [hr, (hmem u), h1]

theorem wrap_injective : Function.Injective wrap := fun a b h => by simpa [wrap] using h

end JF.C10C11
