import JF.Lemmas.Store
/-!
The isolation invariant of a client session (`JF.Store.Sess`) and its preservation by every
operation.
-/
set_option linter.unusedSimpArgs false
namespace JF.Store
variable {α : Type}

/-- Isolation invariant.  All references exist; a branch whose ghost flag `iso` is set
(extracted, not yet handed to `insert`) has pairwise different references, none of which occurs in
the global state or in any other live branch. -/
structure Inv (s : Sess α) : Prop where
  gok : ∀ r ∈ s.g.refs, r < s.h.next
  bok : ∀ L ∈ s.live, ∀ r ∈ L.b.refs, r < s.h.next
  iso : ∀ L ∈ s.live, L.iso = true → L.b.refs.Nodup ∧ ∀ r ∈ L.b.refs, r ∉ s.g.refs
  sep : ∀ (i j : Nat) (L L' : Live α), i ≠ j → s.live[i]? = some L → s.live[j]? = some L' → L.iso = true →
    ∀ r ∈ L.b.refs, r ∉ L'.b.refs

theorem getElem?_append_map {β γ : Type} (l : List γ) (nb : List β) (f : β → γ) (i : Nat) (x : γ)
    (h : (l ++ nb.map f)[i]? = some x) :
    (i < l.length ∧ l[i]? = some x) ∨ (l.length ≤ i ∧ ∃ b, nb[i - l.length]? = some b ∧ x = f b) := by
  rw [List.getElem?_append] at h
  split at h
  · left; exact ⟨by assumption, h⟩
  · right
    refine ⟨by omega, ?_⟩
    rw [List.getElem?_map] at h
    cases hb : nb[i - l.length]? with
    | none => simp [hb] at h
    | some b => simp only [hb, Option.map_some, Option.some.injEq] at h; exact ⟨b, rfl, h.symm⟩

theorem inv_add_fresh {s : Sess α} (I : Inv s) {h' : Heap α} (e : Ext s.h h') (nb : List (Branch α))
    (hf : ∀ b ∈ nb, b.refs.Nodup ∧ ∀ r ∈ b.refs, s.h.next ≤ r ∧ r < h'.next)
    (hd : ∀ (i j : Nat) (b b' : Branch α), i ≠ j → nb[i]? = some b → nb[j]? = some b' → ∀ r ∈ b.refs, r ∉ b'.refs) :
    Inv ⟨s.g, h', s.live ++ nb.map (⟨·, true⟩)⟩ := by
  have lt_irr : ∀ {a b : Nat}, a < b → b ≤ a → False := fun h1 h2 => Nat.lt_irrefl _ (Nat.lt_of_lt_of_le h1 h2)
  refine ⟨fun r hr => Nat.lt_of_lt_of_le (I.gok r hr) e.1, ?_, ?_, ?_⟩
  · intro L hL r hr
    simp only [List.mem_append, List.mem_map] at hL
    rcases hL with hL | ⟨b, hb, rfl⟩
    · exact Nat.lt_of_lt_of_le (I.bok L hL r hr) e.1
    · exact ((hf b hb).2 r hr).2
  · intro L hL hiso
    simp only [List.mem_append, List.mem_map] at hL
    rcases hL with hL | ⟨b, hb, rfl⟩
    · exact I.iso L hL hiso
    · exact ⟨(hf b hb).1, fun r hr hg => lt_irr (I.gok r hg) ((hf b hb).2 r hr).1⟩
  · intro i j L L' hij hi hj hiso r hr hr'
    rcases getElem?_append_map _ _ _ i L hi with ⟨_, hi⟩ | ⟨li, b, hb, rfl⟩
    · rcases getElem?_append_map _ _ _ j L' hj with ⟨_, hj⟩ | ⟨lj, b', hb', rfl⟩
      · exact I.sep i j L L' hij hi hj hiso r hr hr'
      · exact lt_irr (I.bok L (List.mem_of_getElem? hi) r hr) ((hf b' (List.mem_of_getElem? hb')).2 r hr').1
    · rcases getElem?_append_map _ _ _ j L' hj with ⟨_, hj⟩ | ⟨lj, b', hb', rfl⟩
      · exact lt_irr (I.bok L' (List.mem_of_getElem? hj) r hr') ((hf b (List.mem_of_getElem? hb)).2 r hr).1
      · exact hd _ _ b b' (by omega) hb hb' r hr hr'

theorem inv_add_alias {s : Sess α} (I : Inv s) (nb : List (Branch α))
    (ha : ∀ b ∈ nb, ∀ r ∈ b.refs, r ∈ s.g.refs) :
    Inv ⟨s.g, s.h, s.live ++ nb.map (⟨·, false⟩)⟩ := by
  refine ⟨I.gok, ?_, ?_, ?_⟩
  · intro L hL r hr
    simp only [List.mem_append, List.mem_map] at hL
    rcases hL with hL | ⟨b, hb, rfl⟩
    · exact I.bok L hL r hr
    · exact I.gok r (ha b hb r hr)
  · intro L hL hiso
    simp only [List.mem_append, List.mem_map] at hL
    rcases hL with hL | ⟨b, hb, rfl⟩
    · exact I.iso L hL hiso
    · simp at hiso
  · intro i j L L' hij hi hj hiso r hr hr'
    rcases getElem?_append_map _ _ _ i L hi with ⟨_, hi⟩ | ⟨li, b, hb, rfl⟩
    · rcases getElem?_append_map _ _ _ j L' hj with ⟨_, hj⟩ | ⟨lj, b', hb', rfl⟩
      · exact I.sep i j L L' hij hi hj hiso r hr hr'
      · exact (I.iso L (List.mem_of_getElem? hi) hiso).2 r hr (ha b' (List.mem_of_getElem? hb') r hr')
    · simp at hiso

theorem inv_heap_write {s : Sess α} (I : Inv s) (r : Ref) (o : Obj α) :
    Inv { s with h := s.h.write r o } :=
  ⟨fun x hx => by simpa using I.gok x hx, fun L hL x hx => by simpa using I.bok L hL x hx, I.iso, I.sep⟩

/-! #### replacing a unit of a live branch -/

theorem list_set_split {β : Type} (x : β) : ∀ (l : List β) (k : Nat) (c : β), l[k]? = some c →
    ∃ l1 l2, l = l1 ++ c :: l2 ∧ l.set k x = l1 ++ x :: l2 := by
  intro l
  induction l with
  | nil => intro k c h; simp at h
  | cons a l ih =>
    intro k c h
    cases k with
    | zero => simp only [List.getElem?_cons_zero, Option.some.injEq] at h; subst h; exact ⟨[], l, rfl, rfl⟩
    | succ k =>
      simp only [List.getElem?_cons_succ] at h
      obtain ⟨l1, l2, h1, h2⟩ := ih k c h
      exact ⟨a :: l1, l2, by simp [h1], by simp [h2]⟩

theorem setUnit_refs {b : Branch α} {u : Nat} {c : CUnit α} (x : CUnit α) (hc : b.getUnit u = some c) :
    ∃ pre post, b.refs = pre ++ c.refs ++ post ∧ (b.setUnit u x).refs = pre ++ x.refs ++ post := by
  cases u with
  | zero =>
    simp only [Branch.getUnit, Option.some.injEq] at hc
    subst hc
    exact ⟨[], b.children.flatMap CUnit.refs, by simp [Branch.refs, Branch.units],
      by simp [Branch.refs, Branch.units, Branch.setUnit]⟩
  | succ k =>
    simp only [Branch.getUnit] at hc
    obtain ⟨l1, l2, h1, h2⟩ := list_set_split x b.children k c hc
    refine ⟨b.root.refs ++ l1.flatMap CUnit.refs, l2.flatMap CUnit.refs, ?_, ?_⟩
    · simp [Branch.refs, Branch.units, h1]
    · simp [Branch.refs, Branch.units, Branch.setUnit, h2]

theorem nodup_replace {pre mid mid' post : List Ref} (h : (pre ++ mid ++ post).Nodup) (hm : mid'.Nodup)
    (hs : ∀ r ∈ mid', r ∈ mid ∨ (r ∉ pre ∧ r ∉ post)) : (pre ++ mid' ++ post).Nodup := by
  simp only [List.nodup_append, List.mem_append] at h ⊢
  obtain ⟨⟨hpre, hmid, h1⟩, hpost, h2⟩ := h
  refine ⟨⟨hpre, hm, ?_⟩, hpost, ?_⟩
  · intro a ha b hb hab
    subst hab
    rcases hs a hb with h | h
    · exact h1 a ha a h rfl
    · exact h.1 ha
  · intro a ha b hb hab
    subst hab
    rcases ha with ha | ha
    · exact h2 a (Or.inl ha) a hb rfl
    · rcases hs a ha with h | h
      · exact h2 a (Or.inr h) a hb rfl
      · exact h.2 hb

/-- a unit of live branch `b` is replaced by one whose references are old ones of that unit or new
objects of the step -/
theorem inv_set_unit {s : Sess α} (I : Inv s) {h' : Heap α} (e : Ext s.h h') {b u : Nat} {L : Live α}
    {c x : CUnit α} (hL : s.live[b]? = some L) (hc : L.b.getUnit u = some c)
    (hx : ∀ r ∈ x.refs, r ∈ c.refs ∨ (s.h.next ≤ r ∧ r < h'.next)) (hnd : c.refs.Nodup → x.refs.Nodup) :
    Inv ⟨s.g, h', s.live.set b { L with b := L.b.setUnit u x }⟩ := by
  have lt_irr : ∀ {a b : Nat}, a < b → b ≤ a → False := fun h1 h2 => Nat.lt_irrefl _ (Nat.lt_of_lt_of_le h1 h2)
  obtain ⟨pre, post, hold, hnew⟩ := setUnit_refs x hc
  have memL : L ∈ s.live := List.mem_of_getElem? hL
  have hblt : b < s.live.length := (List.getElem?_eq_some_iff.1 hL).1
  -- the new branch's references
  have newsub : ∀ r ∈ (L.b.setUnit u x).refs, r ∈ L.b.refs ∨ (s.h.next ≤ r ∧ r < h'.next) := by
    intro r hr
    rw [hnew] at hr; rw [hold]
    simp only [List.mem_append] at hr ⊢
    rcases hr with (hr | hr) | hr
    · left; left; left; exact hr
    · rcases hx r hr with h | h
      · left; left; right; exact h
      · right; exact h
    · left; right; exact hr
  refine ⟨fun r hr => Nat.lt_of_lt_of_le (I.gok r hr) e.1, ?_, ?_, ?_⟩
  · intro L' hL' r hr
    rcases List.mem_or_eq_of_mem_set hL' with h | h
    · exact Nat.lt_of_lt_of_le (I.bok L' h r hr) e.1
    · subst h
      rcases newsub r hr with h | h
      · exact Nat.lt_of_lt_of_le (I.bok L memL r h) e.1
      · exact h.2
  · intro L' hL' hiso
    rcases List.mem_or_eq_of_mem_set hL' with h | h
    · exact I.iso L' h hiso
    · subst h
      have hi : L.iso = true := hiso
      obtain ⟨nd, ng⟩ := I.iso L memL hi
      refine ⟨?_, ?_⟩
      · show (L.b.setUnit u x).refs.Nodup
        rw [hnew]; rw [hold] at nd
        apply nodup_replace nd
        · apply hnd
          simp only [List.nodup_append] at nd
          exact nd.1.2.1
        · intro r hr
          rcases hx r hr with h | h
          · left; exact h
          · right
            have hlt : ∀ y ∈ L.b.refs, y < s.h.next := I.bok L memL
            rw [hold] at hlt
            exact ⟨fun hp => lt_irr (hlt r (by simp [hp])) h.1, fun hp => lt_irr (hlt r (by simp [hp])) h.1⟩
      · intro r hr hg
        rcases newsub r hr with h | h
        · exact ng r h hg
        · exact lt_irr (I.gok r hg) h.1
  · intro i j L1 L2 hij hi hj hiso r hr hr'
    rw [List.getElem?_set] at hi hj
    by_cases hbi : b = i
    · subst hbi
      simp only [if_true, hblt, Option.some.injEq] at hi
      subst hi
      simp only [if_neg hij] at hj
      rcases newsub r hr with h | h
      · exact I.sep b j L L2 hij hL hj hiso r h hr'
      · exact lt_irr (I.bok L2 (List.mem_of_getElem? hj) r hr') h.1
    · simp only [if_neg hbi] at hi
      by_cases hbj : b = j
      · subst hbj
        simp only [if_true, hblt, Option.some.injEq] at hj
        subst hj
        rcases newsub r hr' with h | h
        · exact I.sep i b L1 L hij hi hL hiso r hr h
        · exact lt_irr (I.bok L1 (List.mem_of_getElem? hi) r hr) h.1
      · simp only [if_neg hbj] at hj
        exact I.sep i j L1 L2 hij hi hj hiso r hr hr'

/-! #### several fresh branches -/

theorem nodup_flatMap_index {β : Type} (f : β → List Ref) : ∀ (l : List β), (l.flatMap f).Nodup →
    (∀ a ∈ l, (f a).Nodup) ∧
    ∀ (i j : Nat) (a b : β), i ≠ j → l[i]? = some a → l[j]? = some b → ∀ r ∈ f a, r ∉ f b := by
  intro l
  induction l with
  | nil => intro _; exact ⟨by simp, by simp⟩
  | cons x l ih =>
    intro h
    simp only [List.flatMap_cons, List.nodup_append] at h
    obtain ⟨hx, hl, hd⟩ := h
    obtain ⟨ih1, ih2⟩ := ih hl
    refine ⟨?_, ?_⟩
    · intro a ha
      rcases List.mem_cons.1 ha with rfl | ha
      · exact hx
      · exact ih1 a ha
    · intro i j a b hij hi hj r hr hr'
      cases i with
      | zero =>
        cases j with
        | zero => exact hij rfl
        | succ j =>
          simp only [List.getElem?_cons_zero, Option.some.injEq] at hi
          simp only [List.getElem?_cons_succ] at hj
          subst hi
          exact hd r hr r (List.mem_flatMap.2 ⟨b, List.mem_of_getElem? hj, hr'⟩) rfl
      | succ i =>
        cases j with
        | zero =>
          simp only [List.getElem?_cons_zero, Option.some.injEq] at hj
          simp only [List.getElem?_cons_succ] at hi
          subst hj
          exact hd r hr' r (List.mem_flatMap.2 ⟨a, List.mem_of_getElem? hi, hr⟩) rfl
        | succ j =>
          simp only [List.getElem?_cons_succ] at hi hj
          exact ih2 i j a b (by omega) hi hj r hr hr'

theorem inv_add_fresh_of_FreshRefs {s : Sess α} (I : Inv s) {h' : Heap α} (e : Ext s.h h') (nb : List (Branch α))
    (hf : FreshRefs s.h h' (nb.flatMap Branch.refs)) :
    Inv ⟨s.g, h', s.live ++ nb.map (⟨·, true⟩)⟩ := by
  obtain ⟨n1, n2⟩ := nodup_flatMap_index Branch.refs nb hf.1
  apply inv_add_fresh I e nb
  · intro b hb
    exact ⟨n1 b hb, fun r hr => hf.2 r (List.mem_flatMap.2 ⟨b, hb, hr⟩)⟩
  · exact n2

/-! #### read-only operations -/

theorem unitAt_refs {g : Global α} {id : Ident} {u : CUnit α} (hu : unitAt g id = some u) :
    ∀ r ∈ u.refs, r ∈ g.refs := by
  simp only [unitAt] at hu
  cases hg : physGet g.roots id with
  | error e => simp [hg] at hu
  | ok n =>
    simp only [hg, Option.some.injEq] at hu
    subst hu
    match id, hg with
    | [r], hg =>
      simp only [physGet] at hg
      cases hR : g.roots[r]? with
      | none => simp [hR] at hg
      | some R =>
        simp only [hR, Except.ok.injEq] at hg
        exact aliasUnit_refs_sub (List.mem_of_getElem? hR) (Or.inl hg.symm) _
    | [r, c], hg =>
      simp only [physGet] at hg
      cases hR : g.roots[r]? with
      | none => simp [hR] at hg
      | some R =>
        simp only [hR] at hg
        cases hL : R.children[c]? with
        | none => simp [hL] at hg
        | some L =>
          simp only [hL, Except.ok.injEq] at hg
          subst hg
          exact aliasUnit_refs_sub (List.mem_of_getElem? hR) (Or.inr (List.mem_of_getElem? hL)) _
    | [], hg => simp [physGet] at hg
    | _ :: _ :: _ :: _, hg => simp [physGet] at hg

/-- the value of the global state depends only on the objects it refers to -/
theorem readAt_congr {g : Global α} {h h' : Heap α} (hf : ∀ r ∈ g.refs, h'.get? r = h.get? r) (id : Ident) :
    readAt g h' id = readAt g h id := by
  simp only [readAt]
  cases hu : unitAt g id with
  | none => rfl
  | some u =>
    simp only [Option.map_some, Option.some.injEq]
    exact readUnit_congr (fun r hr => hf r (unitAt_refs hu r hr))

theorem readAt_ext {g : Global α} {h h' : Heap α} (ok : GlobalOK g h) (e : Ext h h') (id : Ident) :
    readAt g h' id = readAt g h id :=
  readAt_congr (fun r hr => e.2 r (ok r hr)) id

theorem GlobalOK.ext {g : Global α} {h h' : Heap α} (ok : GlobalOK g h) (e : Ext h h') : GlobalOK g h' :=
  fun r hr => Nat.lt_of_lt_of_le (ok r hr) e.1

/-- what `extract` promises about a branch built for `id` from global state `g` in heap `h` -/
def BranchSpec (g : Global α) (h h' : Heap α) (id : Ident) (b : Branch α) : Prop :=
  b.units.map (·.id) = branchIds g id ∧ ∀ u ∈ b.units, some (readUnit h' u) = readAt g h u.id

theorem extractMany_spec {g : Global α} : ∀ (ids : List Ident) {h h' : Heap α} {bs : List (Branch α)},
    GlobalOK g h → extractMany g h ids = .ok (h', bs) →
    Ext h h' ∧ FreshRefs h h' (bs.flatMap Branch.refs) ∧ bs.length = ids.length ∧
    ∀ (k : Nat) (id : Ident) (b : Branch α), ids[k]? = some id → bs[k]? = some b → BranchSpec g h h' id b := by
  intro ids
  induction ids with
  | nil =>
    intro h h' bs _ he
    simp only [extractMany, Except.ok.injEq, Prod.mk.injEq] at he
    obtain ⟨rfl, rfl⟩ := he
    exact ⟨Ext.refl _, ⟨by simp, by simp⟩, rfl, by simp⟩
  | cons id ids ih =>
    intro h h' bs ok he
    simp only [extractMany] at he
    cases h1 : extract g h id with
    | error e => simp [h1] at he
    | ok x =>
      obtain ⟨h1', b⟩ := x
      simp only [h1] at he
      cases h2 : extractMany g h1' ids with
      | error e => simp [h2] at he
      | ok y =>
        obtain ⟨h2', bs'⟩ := y
        simp only [h2, Except.ok.injEq, Prod.mk.injEq] at he
        obtain ⟨rfl, rfl⟩ := he
        obtain ⟨e1, f1, s1, v1⟩ := extract_spec ok h1
        obtain ⟨e2, f2, len2, s2⟩ := ih (ok.ext e1) h2
        refine ⟨e1.trans e2, ?_, by simp [len2], ?_⟩
        · simpa using f1.append f2 e1.1 e2.1
        · intro k id' b' hk hb
          cases k with
          | zero =>
            simp only [List.getElem?_cons_zero, Option.some.injEq] at hk hb
            subst hk; subst hb
            refine ⟨s1, ?_⟩
            intro u hu
            rw [← v1 u hu]
            congr 1
            apply readUnit_congr
            intro r hr
            exact e2.2 r (f1.2 r (List.mem_flatMap.2 ⟨u, hu, hr⟩)).2
          | succ k =>
            simp only [List.getElem?_cons_succ] at hk hb
            obtain ⟨a1, a2⟩ := s2 k id' b' hk hb
            exact ⟨a1, fun u hu => by rw [a2 u hu, readAt_ext ok e1]⟩

/-- the alias branches of `extract_global_state` refer to objects of the global state only -/
theorem extractGlobal_refs (g : Global α) (h : Heap α) : ∀ b ∈ extractGlobal g h, ∀ r ∈ b.refs, r ∈ g.refs := by
  have key : ∀ (Rs : List (PRoot α)) (k : Nat), (∀ R ∈ Rs, R ∈ g.roots) →
      ∀ b ∈ aliasBranches g.lift h Rs k, ∀ r ∈ b.refs, r ∈ g.refs := by
    intro Rs
    induction Rs with
    | nil => intro k _ b hb; simp [aliasBranches] at hb
    | cons R Rs ih =>
      intro k hm b hb r hr
      simp only [aliasBranches, List.mem_cons] at hb
      rcases hb with rfl | hb
      · have hR : R ∈ g.roots := hm R (by simp)
        simp only [aliasBranch, Branch.refs, Branch.units, List.flatMap_cons, List.mem_append, mkCNode_false] at hr
        rcases hr with hr | hr
        · exact aliasUnit_refs_sub hR (Or.inl rfl) _ r hr
        · have ch : ∀ (ns : List (PNode α)) (i : Nat), (∀ n ∈ ns, n ∈ R.children) →
              ∀ u ∈ (mkChildren false g.lift k h ns i).2, ∀ r ∈ u.refs, r ∈ g.refs := by
            intro ns
            induction ns with
            | nil => intro i _ u hu; simp [mkChildren] at hu
            | cons n ns ih2 =>
              intro i hn u hu r hr
              simp only [mkChildren, mkCNode_false, List.mem_cons] at hu
              rcases hu with rfl | hu
              · exact aliasUnit_refs_sub hR (Or.inr (hn n (by simp))) _ r hr
              · exact ih2 (i + 1) (fun m hm => hn m (List.mem_cons_of_mem _ hm)) u hu r hr
          obtain ⟨u, hu, hru⟩ := List.mem_flatMap.1 hr
          exact ch R.children 0 (fun _ hn => hn) u hu r hru
      · exact ih (k + 1) (fun R' hR' => hm R' (List.mem_cons_of_mem _ hR')) b hb r hr
  exact key g.roots 0 (fun _ h => h)

/-! #### commits -/

theorem selBranch_refs {live : List (Live α)} {s : Nat × Nat} {b : Branch α} (hs : selBranch live s = some b) :
    ∃ L, live[s.1]? = some L ∧ ∀ r ∈ b.refs, r ∈ L.b.refs := by
  simp only [selBranch] at hs
  cases hL : live[s.1]? with
  | none => simp [hL] at hs
  | some L =>
    refine ⟨L, rfl, ?_⟩
    simp only [hL] at hs
    cases hk : s.2 with
    | zero => simp only [hk, Option.some.injEq] at hs; subst hs; exact fun _ h => h
    | succ k =>
      simp only [hk] at hs
      cases hc : L.b.children[k]? with
      | none => simp [hc] at hs
      | some c =>
        simp only [hc, Option.map_some, Option.some.injEq] at hs
        subst hs
        intro r hr
        simp only [Branch.refs, Branch.units, List.flatMap_cons, List.flatMap_nil, List.append_nil] at hr
        simp only [Branch.refs, Branch.units, List.flatMap_cons, List.mem_append, List.mem_flatMap]
        right; exact ⟨c, List.mem_of_getElem? hc, hr⟩

theorem selBranches_refs {live : List (Live α)} : ∀ {sel : List (Nat × Nat)} {bs : List (Branch α)},
    selBranches live sel = some bs →
    ∀ r ∈ bs.flatMap Branch.refs, ∃ i L, i ∈ sel.map (·.1) ∧ live[i]? = some L ∧ r ∈ L.b.refs := by
  intro sel
  induction sel with
  | nil => intro bs hs r hr; simp only [selBranches, Option.some.injEq] at hs; subst hs; simp at hr
  | cons s sel ih =>
    intro bs hs r hr
    simp only [selBranches] at hs
    cases h1 : selBranch live s with
    | none => simp [h1] at hs
    | some b =>
      cases h2 : selBranches live sel with
      | none => simp [h1, h2] at hs
      | some bs' =>
        simp only [h1, h2, Option.some.injEq] at hs
        subst hs
        simp only [List.flatMap_cons, List.mem_append] at hr
        rcases hr with hr | hr
        · obtain ⟨L, hL, hsub⟩ := selBranch_refs h1
          exact ⟨s.1, L, by simp, hL, hsub r hr⟩
        · obtain ⟨i, L, hi, hL, hr⟩ := ih h2 r hr
          exact ⟨i, L, by simp only [List.map_cons, List.mem_cons]; right; exact hi, hL, hr⟩

theorem getElem?_markInserted (hs : List Nat) (live : List (Live α)) (i : Nat) :
    (markInserted hs live)[i]? = live[i]?.map (fun L => if i ∈ hs then { L with iso := false } else L) := by
  simp [markInserted, List.getElem?_mapIdx]

theorem markInserted_cases {hs : List Nat} {live : List (Live α)} {i : Nat} {L' : Live α}
    (h : (markInserted hs live)[i]? = some L') :
    ∃ L, live[i]? = some L ∧ L'.b = L.b ∧ (L'.iso = true → L.iso = true ∧ i ∉ hs) := by
  rw [getElem?_markInserted] at h
  cases hL : live[i]? with
  | none => simp [hL] at h
  | some L =>
    simp only [hL, Option.map_some, Option.some.injEq] at h
    refine ⟨L, rfl, ?_⟩
    by_cases hi : i ∈ hs
    · simp only [hi, if_true] at h; subst h; simp
    · simp only [hi, if_false] at h; subst h; exact ⟨rfl, fun h => ⟨h, hi⟩⟩

theorem inv_insert {s : Sess α} (I : Inv s) {sel : List (Nat × Nat)} {bs : List (Branch α)}
    (hsel : selBranches s.live sel = some bs) :
    Inv ⟨(insert s.g bs).1, s.h, markInserted (sel.map (·.1)) s.live⟩ := by
  have gsub : ∀ r ∈ (insert s.g bs).1.refs, r ∈ s.g.refs ∨
      ∃ i L, i ∈ sel.map (·.1) ∧ s.live[i]? = some L ∧ r ∈ L.b.refs := by
    intro r hr
    rcases insertUnits_refs_sub _ s.g r hr with h | h
    · left; exact h
    · right
      apply selBranches_refs hsel
      simpa [Branch.refs, List.flatMap_assoc] using h
  refine ⟨?_, ?_, ?_, ?_⟩
  · intro r hr
    rcases gsub r hr with h | ⟨i, L, _, hL, hr⟩
    · exact I.gok r h
    · exact I.bok L (List.mem_of_getElem? hL) r hr
  · intro L' hL' r hr
    obtain ⟨i, hi⟩ := List.getElem?_of_mem hL'
    obtain ⟨L, hL, hb, _⟩ := markInserted_cases hi
    exact I.bok L (List.mem_of_getElem? hL) r (hb ▸ hr)
  · intro L' hL' hiso
    obtain ⟨i, hi⟩ := List.getElem?_of_mem hL'
    obtain ⟨L, hL, hb, hflag⟩ := markInserted_cases hi
    obtain ⟨hLiso, hnot⟩ := hflag hiso
    obtain ⟨nd, ng⟩ := I.iso L (List.mem_of_getElem? hL) hLiso
    rw [hb]
    refine ⟨nd, ?_⟩
    intro r hr hg
    rcases gsub r hg with h | ⟨j, L2, hj, hL2, hr2⟩
    · exact ng r hr h
    · have hij : i ≠ j := fun h => hnot (h ▸ hj)
      exact I.sep i j L L2 hij hL hL2 hLiso r hr hr2
  · intro i j L1' L2' hij hi hj hiso r hr hr'
    obtain ⟨L1, hL1, hb1, hf1⟩ := markInserted_cases hi
    obtain ⟨L2, hL2, hb2, _⟩ := markInserted_cases hj
    exact I.sep i j L1 L2 hij hL1 hL2 (hf1 hiso).1 r (hb1 ▸ hr) (hb2 ▸ hr')

/-! #### every operation preserves the invariant -/

theorem getLiveUnit_some {live : List (Live α)} {b u : Nat} {c : CUnit α} (h : getLiveUnit live b u = some c) :
    ∃ L, live[b]? = some L ∧ L.b.getUnit u = some c ∧
      ∀ x, setLiveUnit live b u x = live.set b { L with b := L.b.setUnit u x } := by
  simp only [getLiveUnit] at h
  cases hL : live[b]? with
  | none => simp [hL] at h
  | some L =>
    simp only [hL] at h
    exact ⟨L, rfl, h, fun x => by simp [setLiveUnit, hL]⟩

theorem FreshRefs.perm {h h' : Heap α} {a b : List Ref} (f : FreshRefs h h' a) (p : a.Perm b) : FreshRefs h h' b :=
  ⟨f.1.perm p, fun r hr => f.2 r (p.mem_iff.2 hr)⟩

theorem inv_step {s : Sess α} (I : Inv s) (op : Op α) : Inv (step s op).1 := by
  cases op with
  | extract id =>
    simp only [step]
    cases he : extract s.g s.h id with
    | error e => exact I
    | ok x =>
      obtain ⟨h', b⟩ := x
      obtain ⟨e, f, _, _⟩ := extract_spec I.gok he
      have := inv_add_fresh_of_FreshRefs I e [b] (by simpa using f)
      simpa using this
  | active =>
    simp only [step, extractActive]
    cases he : extractMany s.g s.h s.g.lift.independent with
    | error e => exact I
    | ok x =>
      obtain ⟨h', bs⟩ := x
      obtain ⟨e, f, _, _⟩ := extractMany_spec _ I.gok he
      have p := (List.mergeSort_perm bs (fun a b => lexLe a.key b.key)).symm
      exact inv_add_fresh_of_FreshRefs I e _ (f.perm (p.flatMap_right _))
  | global =>
    simp only [step]
    exact inv_add_alias I _ (extractGlobal_refs s.g s.h)
  | insert sel =>
    simp only [step]
    cases hs : selBranches s.live sel with
    | none => exact I
    | some bs => exact inv_insert I hs
  | setPos b u i x =>
    simp only [step]
    cases hc : getLiveUnit s.live b u with
    | none => exact I
    | some c =>
      simp only
      split
      · split
        · exact inv_heap_write I _ _
        · exact I
      · exact I
  | setVel b u i x =>
    simp only [step]
    cases hc : getLiveUnit s.live b u with
    | none => exact I
    | some c =>
      simp only
      cases c.vel with
      | none => exact I
      | some r =>
        simp only
        split
        · split
          · exact inv_heap_write I _ _
          · exact I
        · exact I
  | tsUpdate b u q r =>
    simp only [step]
    cases hc : getLiveUnit s.live b u with
    | none => exact I
    | some c =>
      simp only
      cases c.ts with
      | none => exact I
      | some t => exact inv_heap_write I _ _
  | newPos b u xs =>
    simp only [step]
    cases hc : getLiveUnit s.live b u with
    | none => exact I
    | some c =>
      obtain ⟨L, hL, hu, hset⟩ := getLiveUnit_some hc
      simp only [hset]
      apply inv_set_unit I (Ext.alloc _ _) hL hu
      · intro r hr
        simp only [CUnit.refs, List.mem_cons, List.mem_append, Option.mem_toList, Heap.alloc_ref] at hr ⊢
        rcases hr with hr | hr
        · right; subst hr; simp
        · left; right; exact hr
      · intro nd
        simp only [CUnit.refs, List.nodup_cons, Heap.alloc_ref] at nd ⊢
        exact ⟨fun hm => Nat.lt_irrefl _ (I.bok L (List.mem_of_getElem? hL) _ (by
          obtain ⟨pre, post, hold, _⟩ := setUnit_refs c hu
          rw [hold]; simp only [List.mem_append, CUnit.refs, List.mem_cons]; left; right; right; exact List.mem_append.1 hm)), nd.2⟩
  | newVel b u xs =>
    simp only [step]
    cases hc : getLiveUnit s.live b u with
    | none => exact I
    | some c =>
      obtain ⟨L, hL, hu, hset⟩ := getLiveUnit_some hc
      have cold : ∀ r ∈ c.refs, r < s.h.next := by
        intro r hr
        obtain ⟨pre, post, hold, _⟩ := setUnit_refs c hu
        exact I.bok L (List.mem_of_getElem? hL) r (by rw [hold]; simp [hr])
      cases xs with
      | none =>
        simp only [hset]
        apply inv_set_unit I (Ext.refl _) hL hu
        · intro r hr
          simp only [CUnit.refs, List.mem_cons, List.mem_append, Option.mem_toList, Option.toList_none,
            List.nil_append] at hr ⊢
          rcases hr with hr | hr
          · left; left; exact hr
          · left; right; right; exact hr
        · intro nd
          simp only [CUnit.refs, List.nodup_cons, List.mem_append, Option.mem_toList, List.nodup_append,
            Option.toList_none, List.nil_append] at nd ⊢
          exact ⟨fun h => nd.1 (Or.inr h), nd.2.2.1⟩
      | some xs =>
        simp only [hset]
        apply inv_set_unit I (Ext.alloc _ _) hL hu
        · intro r hr
          simp only [CUnit.refs, List.mem_cons, List.mem_append, Option.mem_toList, Heap.alloc_ref,
            Option.toList_some, List.mem_singleton, List.not_mem_nil, or_false] at hr ⊢
          rcases hr with hr | hr | hr
          · left; left; exact hr
          · right; subst hr; simp
          · left; right; right; exact hr
        · intro nd
          have fr : ∀ r ∈ c.refs, r ≠ s.h.next := fun r hr h => Nat.lt_irrefl _ (h ▸ cold r hr)
          simp only [CUnit.refs, List.nodup_cons, List.mem_append, Option.mem_toList, List.nodup_append,
            Heap.alloc_ref, Option.toList_some, List.mem_singleton, List.mem_cons, List.not_mem_nil, or_false] at nd fr ⊢
          refine ⟨?_, by simp, nd.2.2.1, ?_⟩
          · rintro (h | h)
            · exact fr _ (Or.inl rfl) h
            · exact nd.1 (Or.inr h)
          · intro a ha b hb hab
            subst ha; subst hab
            exact fr _ (Or.inr (Or.inr hb)) rfl
  | newTs b u t =>
    simp only [step]
    cases hc : getLiveUnit s.live b u with
    | none => exact I
    | some c =>
      obtain ⟨L, hL, hu, hset⟩ := getLiveUnit_some hc
      have cold : ∀ r ∈ c.refs, r < s.h.next := by
        intro r hr
        obtain ⟨pre, post, hold, _⟩ := setUnit_refs c hu
        exact I.bok L (List.mem_of_getElem? hL) r (by rw [hold]; simp [hr])
      cases t with
      | none =>
        simp only [hset]
        apply inv_set_unit I (Ext.refl _) hL hu
        · intro r hr
          simp only [CUnit.refs, List.mem_cons, List.mem_append, Option.mem_toList, Option.toList_none,
            List.append_nil] at hr ⊢
          rcases hr with hr | hr
          · left; left; exact hr
          · left; right; left; exact hr
        · intro nd
          simp only [CUnit.refs, List.nodup_cons, List.mem_append, Option.mem_toList, List.nodup_append,
            Option.toList_none, List.append_nil] at nd ⊢
          exact ⟨fun h => nd.1 (Or.inl h), nd.2.1⟩
      | some qr =>
        obtain ⟨q, r⟩ := qr
        simp only [hset]
        apply inv_set_unit I (Ext.alloc _ _) hL hu
        · intro x hx
          simp only [CUnit.refs, List.mem_cons, List.mem_append, Option.mem_toList, Heap.alloc_ref,
            Option.toList_some, List.mem_singleton, List.not_mem_nil, or_false] at hx ⊢
          rcases hx with hx | hx | hx
          · left; left; exact hx
          · left; right; left; exact hx
          · right; subst hx; simp
        · intro nd
          have fr : ∀ r ∈ c.refs, r ≠ s.h.next := fun r hr h => Nat.lt_irrefl _ (h ▸ cold r hr)
          simp only [CUnit.refs, List.nodup_cons, List.mem_append, Option.mem_toList, List.nodup_append,
            Heap.alloc_ref, Option.toList_some, List.mem_singleton, List.mem_cons, List.not_mem_nil, or_false] at nd fr ⊢
          refine ⟨?_, nd.2.1, by simp, ?_⟩
          · rintro (h | h)
            · exact nd.1 (Or.inl h)
            · exact fr _ (Or.inl rfl) h
          · intro a ha b hb hab
            subst hb; subst hab
            exact fr _ (Or.inr (Or.inl ha)) rfl

theorem inv_run {s : Sess α} (I : Inv s) (ops : List (Op α)) : Inv (run s ops) := by
  induction ops generalizing s with
  | nil => exact I
  | cons op ops ih => exact ih (inv_step I op)

end JF.Store
