import JF.Lemmas.CompositeSteps
/-!
One-chain invariant of the two-level machine `JF.Composite.step`, part 1: vocabulary and generic lemmas.

* `RestL / OneL j v / AllL v` describe the velocities of the leaves of ONE composite object (all at rest / exactly leaf
  `j` moves, with velocity `v` / all leaves move with `v`).  They depend only on the list of leaf velocities
  (`restL_congr` …), hence survive time-slicing and the cell-boundary `snap`.
* `MovingAt cs i P`: object `i` of the global state satisfies `P`, every other object is at rest.
* `Mode` (`leaf` / `root`) and `OneChainM cs sq m`: the one-chain invariant in the given mode; `OneChain cs sq` is the
  mode-free statement (`oneChain_iff`).
* velocities of the leaves after `setLeaves` (`setLeaves_get` and the special update lists used by the event handlers).
-/
namespace JF.Composite
open JF JF.Kin

/-- squared norm of a velocity (same definition as `JF.Kin.normSq` of `JF/Lemmas/Kinematics.lean`) -/
def nsq (v : List ℚ) : ℚ := (v.map (fun x => x * x)).sum

/-! ### the leaves of one object -/

/-- every leaf is at rest -/
def RestL (ls : List (PUnit ℚ)) : Prop := ∀ l ∈ ls, l.vel = none
/-- every leaf moves with velocity `v` (and there is a leaf) -/
def AllL (v : List ℚ) (ls : List (PUnit ℚ)) : Prop := ls ≠ [] ∧ ∀ l ∈ ls, l.vel = some v
/-- leaf `j` exists and moves with velocity `v`, every other leaf is at rest -/
def OneL (j : Nat) (v : List ℚ) (ls : List (PUnit ℚ)) : Prop :=
  (∃ a, ls[j]? = some a ∧ a.vel = some v) ∧ ∀ k l, ls[k]? = some l → k ≠ j → l.vel = none

theorem getElem?_vel_congr {ls ls' : List (PUnit ℚ)} (h : ls'.map (·.vel) = ls.map (·.vel)) (k : Nat) :
    (ls'[k]?).map (·.vel) = (ls[k]?).map (·.vel) := by
  have := congrArg (fun x => x[k]?) h
  simpa [List.getElem?_map] using this

theorem restL_congr {ls ls' : List (PUnit ℚ)} (h : ls'.map (·.vel) = ls.map (·.vel)) (hr : RestL ls) : RestL ls' := by
  intro l' hl'
  have hm : l'.vel ∈ ls'.map (·.vel) := List.mem_map_of_mem hl'
  rw [h] at hm
  obtain ⟨l, hl, e⟩ := List.mem_map.mp hm
  rw [← e]; exact hr l hl

theorem allL_congr {v : List ℚ} {ls ls' : List (PUnit ℚ)} (h : ls'.map (·.vel) = ls.map (·.vel)) (hr : AllL v ls) :
    AllL v ls' := by
  refine ⟨?_, ?_⟩
  · intro e
    rw [e] at h
    exact hr.1 (List.map_eq_nil_iff.mp h.symm)
  · intro l' hl'
    have hm : l'.vel ∈ ls'.map (·.vel) := List.mem_map_of_mem hl'
    rw [h] at hm
    obtain ⟨l, hl, e⟩ := List.mem_map.mp hm
    rw [← e]; exact hr.2 l hl

theorem oneL_congr {j : Nat} {v : List ℚ} {ls ls' : List (PUnit ℚ)} (h : ls'.map (·.vel) = ls.map (·.vel))
    (hr : OneL j v ls) : OneL j v ls' := by
  obtain ⟨⟨a, ha, hav⟩, ho⟩ := hr
  refine ⟨?_, ?_⟩
  · have e := getElem?_vel_congr h j
    rw [ha] at e
    cases h' : ls'[j]? with
    | none => simp [h'] at e
    | some a' =>
      simp only [h', Option.map_some, Option.some.injEq] at e
      exact ⟨a', rfl, by rw [e, hav]⟩
  · intro k l' hk hne
    have e := getElem?_vel_congr h k
    rw [hk] at e
    cases h' : ls[k]? with
    | none => simp [h'] at e
    | some l =>
      simp only [h', Option.map_some, Option.some.injEq] at e
      rw [e]; exact ho k l h' hne

/-- the index of the first moving leaf, as computed by the switcher -/
theorem activeLeaf_of_oneL {c : CObj ℚ} {j : Nat} {v : List ℚ} (h : OneL j v c.leaves) : activeLeaf c = some j := by
  obtain ⟨⟨a, ha, hav⟩, ho⟩ := h
  unfold activeLeaf
  rw [List.findIdx?_eq_some_iff_getElem]
  obtain ⟨hj, e⟩ := List.getElem?_eq_some_iff.mp ha
  refine ⟨hj, ?_, ?_⟩
  · rw [e]; simp [isMoving, hav]
  · intro k hk
    have := ho k c.leaves[k] (List.getElem?_eq_getElem (by omega)) (by omega)
    simp [isMoving, this]

/-! ### the global state -/

/-- `P` depends only on the velocities of the leaves -/
def VelInv (P : CObj ℚ → Prop) : Prop :=
  ∀ c c' : CObj ℚ, c'.leaves.map (·.vel) = c.leaves.map (·.vel) → P c → P c'

theorem velInv_rest : VelInv (fun c => RestL c.leaves) := fun _ _ h => restL_congr h
theorem velInv_one (j : Nat) (v : List ℚ) : VelInv (fun c => OneL j v c.leaves) := fun _ _ h => oneL_congr h
theorem velInv_all (v : List ℚ) : VelInv (fun c => AllL v c.leaves) := fun _ _ h => allL_congr h

/-- object `i` satisfies `P`, every leaf of every other object is at rest -/
def MovingAt (cs : List (CObj ℚ)) (i : Nat) (P : CObj ℚ → Prop) : Prop :=
  (∃ c, cs[i]? = some c ∧ P c) ∧ ∀ k ck, cs[k]? = some ck → k ≠ i → RestL ck.leaves

/-- the whole state is at rest -/
def AllRest (cs : List (CObj ℚ)) : Prop := ∀ c ∈ cs, RestL c.leaves

inductive Mode where
  /-- a single point mass moves -/
  | leaf
  /-- all point masses of one composite object move -/
  | root
  deriving DecidableEq, Repr

/-- the one-chain invariant in mode `m`, squared speed `sq` -/
def OneChainM (cs : List (CObj ℚ)) (sq : ℚ) : Mode → Prop
  | .leaf => ∃ i j v, nsq v = sq ∧ MovingAt cs i (fun c => OneL j v c.leaves)
  | .root => ∃ i v, nsq v = sq ∧ MovingAt cs i (fun c => AllL v c.leaves)

/-- **One chain.** Exactly one object has a moving leaf; in it either exactly one leaf moves or all leaves move; the
moving leaves share one velocity `v` of squared norm `sq`; every leaf of every other object is at rest. -/
def OneChain (cs : List (CObj ℚ)) (sq : ℚ) : Prop :=
  ∃ (i : Nat) (c : CObj ℚ) (v : List ℚ), cs[i]? = some c ∧ nsq v = sq ∧ ((∃ j, OneL j v c.leaves) ∨ AllL v c.leaves) ∧
    ∀ (k : Nat) (ck : CObj ℚ), cs[k]? = some ck → k ≠ i → RestL ck.leaves

theorem oneChain_iff (cs : List (CObj ℚ)) (sq : ℚ) : OneChain cs sq ↔ ∃ m, OneChainM cs sq m := by
  constructor
  · rintro ⟨i, c, v, hc, hv, hm | hm, ho⟩
    · obtain ⟨j, hj⟩ := hm
      exact ⟨.leaf, i, j, v, hv, ⟨c, hc, hj⟩, ho⟩
    · exact ⟨.root, i, v, hv, ⟨c, hc, hm⟩, ho⟩
  · rintro ⟨m, hm⟩
    cases m with
    | leaf =>
      obtain ⟨i, j, v, hv, ⟨c, hc, hj⟩, ho⟩ := hm
      exact ⟨i, c, v, hc, hv, Or.inl ⟨j, hj⟩, ho⟩
    | root =>
      obtain ⟨i, v, hv, ⟨c, hc, hj⟩, ho⟩ := hm
      exact ⟨i, c, v, hc, hv, Or.inr hj, ho⟩

theorem MovingAt.rest_of_ne {cs : List (CObj ℚ)} {i : Nat} {P : CObj ℚ → Prop} (h : MovingAt cs i P) {k : Nat} {ck : CObj ℚ}
    (hk : cs[k]? = some ck) (hne : k ≠ i) : RestL ck.leaves := h.2 k ck hk hne

/-- an object with a moving leaf is THE moving object -/
theorem MovingAt.eq_of_moving {cs : List (CObj ℚ)} {i : Nat} {P : CObj ℚ → Prop} (h : MovingAt cs i P) {k : Nat} {ck : CObj ℚ}
    (hk : cs[k]? = some ck) {a : PUnit ℚ} (ha : a ∈ ck.leaves) (hav : a.vel ≠ none) : k = i := by
  by_contra hne
  exact hav (h.2 k ck hk hne a ha)

theorem MovingAt.get {cs : List (CObj ℚ)} {i : Nat} {P : CObj ℚ → Prop} (h : MovingAt cs i P) {c : CObj ℚ}
    (hc : cs[i]? = some c) : P c := by
  obtain ⟨⟨c0, hc0, hp⟩, _⟩ := h
  rw [hc] at hc0; simp only [Option.some.injEq] at hc0; subst hc0; exact hp

/-- leaf mode: a moving leaf is THE moving leaf -/
theorem MovingAt.src_leaf {cs : List (CObj ℚ)} {i0 j0 : Nat} {v0 : List ℚ} (hM : MovingAt cs i0 (fun c => OneL j0 v0 c.leaves))
    {i j : Nat} {c : CObj ℚ} {a : PUnit ℚ} {v : List ℚ} (hc : cs[i]? = some c) (ha : c.leaves[j]? = some a)
    (hav : a.vel = some v) : i = i0 ∧ j = j0 ∧ v = v0 ∧ OneL j0 v0 c.leaves := by
  have hi : i = i0 := hM.eq_of_moving hc (List.mem_of_getElem? ha) (by rw [hav]; simp)
  subst hi
  have hone := hM.get hc
  have hj : j = j0 := by
    by_contra hne
    have := hone.2 j a ha hne
    rw [hav] at this; exact absurd this (by simp)
  subst hj
  obtain ⟨⟨a', ha', hav'⟩, _⟩ := id hone
  rw [ha] at ha'; simp only [Option.some.injEq] at ha'; subst ha'
  rw [hav] at hav'; simp only [Option.some.injEq] at hav'
  exact ⟨rfl, rfl, hav', hone⟩

/-- root mode: an object with a moving leaf is THE moving object -/
theorem MovingAt.src_root {cs : List (CObj ℚ)} {i0 : Nat} {v0 : List ℚ} (hM : MovingAt cs i0 (fun c => AllL v0 c.leaves))
    {i : Nat} {c : CObj ℚ} {a : PUnit ℚ} (hc : cs[i]? = some c) (ha : a ∈ c.leaves) (hav : a.vel ≠ none) :
    i = i0 ∧ AllL v0 c.leaves := by
  have hi : i = i0 := hM.eq_of_moving hc ha hav
  subst hi
  exact ⟨rfl, hM.get hc⟩

/-- a modification of any object that keeps the leaf velocities keeps `MovingAt` -/
theorem MovingAt.modify_vel {cs : List (CObj ℚ)} {i : Nat} {P : CObj ℚ → Prop} (hP : VelInv P) (h : MovingAt cs i P)
    (k : Nat) (f : CObj ℚ → CObj ℚ) (hf : ∀ c, (f c).leaves.map (·.vel) = c.leaves.map (·.vel)) :
    MovingAt (cs.modify k f) i P := by
  obtain ⟨⟨c, hc, hp⟩, ho⟩ := h
  refine ⟨?_, ?_⟩
  · by_cases hki : k = i
    · subst hki
      exact ⟨f c, by rw [getElem?_modify_self, hc]; rfl, hP c (f c) (hf c) hp⟩
    · exact ⟨c, by rw [getElem?_modify_ne _ _ hki]; exact hc, hp⟩
  · intro k' ck hk' hne
    by_cases hkk : k = k'
    · subst hkk
      rw [getElem?_modify_self] at hk'
      cases h0 : cs[k]? with
      | none => simp [h0] at hk'
      | some c0 =>
        simp only [h0, Option.map_some, Option.some.injEq] at hk'
        subst hk'
        exact restL_congr (hf c0) (ho k c0 h0 hne)
    · rw [getElem?_modify_ne _ _ hkk] at hk'
      exact ho k' ck hk' hne

theorem sliceComp_vels (L : List ℚ) (t : Time ℚ) (c : CObj ℚ) :
    (sliceComp Ops.rat L t c).leaves.map (·.vel) = c.leaves.map (·.vel) := by
  simp only [sliceComp, List.map_map]
  exact List.map_congr_left (fun l _ => by simp)

/-- time-slicing keeps `MovingAt` -/
theorem MovingAt.sliceAt {P : CObj ℚ → Prop} (hP : VelInv P) (L : List ℚ) (t : Time ℚ) : ∀ (S : List Nat) {cs : List (CObj ℚ)}
    {i : Nat}, MovingAt cs i P → MovingAt (sliceAt Ops.rat L t S cs) i P
  | [], _, _, h => h
  | k :: S, _, _, h => by
    rw [sliceAt_cons]
    exact MovingAt.sliceAt hP L t S (h.modify_vel hP k _ (sliceComp_vels L t))

theorem AllRest.sliceAt_aux (L : List ℚ) (t : Time ℚ) : ∀ (S : List Nat) {cs : List (CObj ℚ)},
    (∀ (k : Nat) (ck : CObj ℚ), cs[k]? = some ck → RestL ck.leaves) →
    ∀ (k : Nat) (ck : CObj ℚ), (sliceAt Ops.rat L t S cs)[k]? = some ck → RestL ck.leaves
  | [], _, h => h
  | j :: S, cs, h => by
    rw [sliceAt_cons]
    apply AllRest.sliceAt_aux L t S
    intro k ck hk
    by_cases hjk : j = k
    · subst hjk
      rw [getElem?_modify_self] at hk
      cases h0 : cs[j]? with
      | none => simp [h0] at hk
      | some c0 =>
        simp only [h0, Option.map_some, Option.some.injEq] at hk
        subst hk
        exact restL_congr (sliceComp_vels L t c0) (h j c0 h0)
    · rw [getElem?_modify_ne _ _ hjk] at hk
      exact h k ck hk

/-- the moving object changes its leaf velocities from `P` to `Q` -/
theorem MovingAt.modify_self {cs : List (CObj ℚ)} {i : Nat} {P Q : CObj ℚ → Prop} (h : MovingAt cs i P) (f : CObj ℚ → CObj ℚ)
    (hf : ∀ c, cs[i]? = some c → P c → Q (f c)) : MovingAt (cs.modify i f) i Q := by
  obtain ⟨⟨c, hc, hp⟩, ho⟩ := h
  refine ⟨⟨f c, by rw [getElem?_modify_self, hc]; rfl, hf c hc hp⟩, ?_⟩
  intro k ck hk hne
  rw [getElem?_modify_ne _ _ (fun e => hne e.symm)] at hk
  exact ho k ck hk hne

/-- the moving object `i` comes to rest, another object `i'` (at rest before) takes over -/
theorem MovingAt.move {cs : List (CObj ℚ)} {i i' : Nat} {P Q : CObj ℚ → Prop} (h : MovingAt cs i P) (hne : i ≠ i')
    (f g : CObj ℚ → CObj ℚ) (hf : ∀ c, cs[i]? = some c → P c → RestL (f c).leaves) {c' : CObj ℚ} (hc' : cs[i']? = some c')
    (hg : RestL c'.leaves → Q (g c')) : MovingAt ((cs.modify i f).modify i' g) i' Q := by
  obtain ⟨⟨c, hc, hp⟩, ho⟩ := h
  refine ⟨⟨g c', ?_, hg (ho i' c' hc' (fun e => hne e.symm))⟩, ?_⟩
  · rw [getElem?_modify_self, getElem?_modify_ne _ _ hne, hc']; rfl
  · intro k ck hk hk'
    rw [getElem?_modify_ne _ _ (fun e => hk' e.symm)] at hk
    by_cases hik : i = k
    · subst hik
      rw [getElem?_modify_self, hc] at hk
      simp only [Option.map_some, Option.some.injEq] at hk
      subst hk
      exact hf c hc hp
    · rw [getElem?_modify_ne _ _ hik] at hk
      exact ho k ck hk (fun e => hik e.symm)

/-- from the state at rest: object `i` starts to move -/
theorem MovingAt.of_rest {cs : List (CObj ℚ)} (h : AllRest cs) {i : Nat} {c : CObj ℚ} (hc : cs[i]? = some c) {Q : CObj ℚ → Prop}
    (f : CObj ℚ → CObj ℚ) (hf : RestL c.leaves → Q (f c)) : MovingAt (cs.modify i f) i Q := by
  refine ⟨⟨f c, by rw [getElem?_modify_self, hc]; rfl, hf (h c (List.mem_of_getElem? hc))⟩, ?_⟩
  intro k ck hk hne
  rw [getElem?_modify_ne _ _ (fun e => hne e.symm)] at hk
  exact h ck (List.mem_of_getElem? hk)

/-! ### velocities of the leaves after `setLeaves` -/

/-- a leaf of the result is an untouched old leaf or carries the velocity of an update that addresses it -/
theorem setLeaves_get : ∀ (ups : List (Upd ℚ)) (ls : List (PUnit ℚ)) (k : Nat) (l : PUnit ℚ),
    (setLeaves ls ups)[k]? = some l →
    (k ∉ ups.map (·.leaf) ∧ ls[k]? = some l) ∨ (∃ u ∈ ups, u.leaf = k ∧ l.vel = u.vel)
  | [], ls, k, l, h => Or.inl ⟨by simp, h⟩
  | u :: ups, ls, k, l, h => by
    rw [setLeaves_cons] at h
    rcases setLeaves_get ups _ k l h with ⟨hn, hk⟩ | ⟨u', hu', e1, e2⟩
    · by_cases hku : u.leaf = k
      · right
        refine ⟨u, by simp, hku, ?_⟩
        subst hku
        rw [getElem?_modify_self] at hk
        cases h0 : ls[u.leaf]? with
        | none => simp [h0] at hk
        | some l0 =>
          simp only [h0, Option.map_some, Option.some.injEq] at hk
          subst hk; rfl
      · left
        rw [getElem?_modify_ne _ _ hku] at hk
        refine ⟨?_, hk⟩
        simp only [List.map_cons, List.mem_cons, not_or]
        exact ⟨fun e => hku e.symm, hn⟩
    · right; exact ⟨u', by simp [hu'], e1, e2⟩

theorem lt_of_getElem? {β : Type} {ls : List β} {k : Nat} {l : β} (h : ls[k]? = some l) : k < ls.length :=
  (List.getElem?_eq_some_iff.mp h).1

theorem setLeaves_exists (ups : List (Upd ℚ)) {ls : List (PUnit ℚ)} {k : Nat} {l : PUnit ℚ} (h : ls[k]? = some l) :
    ∃ l', (setLeaves ls ups)[k]? = some l' := by
  have : k < (setLeaves ls ups).length := by rw [setLeaves_length]; exact lt_of_getElem? h
  exact ⟨_, List.getElem?_eq_getElem this⟩

theorem setLeaves_ne_nil (ups : List (Upd ℚ)) {ls : List (PUnit ℚ)} (h : ls ≠ []) : setLeaves ls ups ≠ [] := by
  intro e
  have := setLeaves_length ups ls
  rw [e] at this
  exact h (List.length_eq_zero_iff.mp this.symm)

/-- every leaf is addressed, every update stops its leaf -/
theorem restL_setAll {ls : List (PUnit ℚ)} {ups : List (Upd ℚ)} (hv : ∀ u ∈ ups, u.vel = none)
    (hcov : ∀ k, k < ls.length → k ∈ ups.map (·.leaf)) : RestL (setLeaves ls ups) := by
  intro l hl
  obtain ⟨k, hk⟩ := List.getElem?_of_mem hl
  rcases setLeaves_get ups ls k l hk with ⟨hn, h0⟩ | ⟨u, hu, _, e⟩
  · exact absurd (hcov k (lt_of_getElem? h0)) hn
  · rw [e]; exact hv u hu

/-- every leaf is addressed, every update sets the velocity `v` -/
theorem allL_setAll {v : List ℚ} {ls : List (PUnit ℚ)} {ups : List (Upd ℚ)} (hne : ls ≠ []) (hv : ∀ u ∈ ups, u.vel = some v)
    (hcov : ∀ k, k < ls.length → k ∈ ups.map (·.leaf)) : AllL v (setLeaves ls ups) := by
  refine ⟨setLeaves_ne_nil ups hne, ?_⟩
  intro l hl
  obtain ⟨k, hk⟩ := List.getElem?_of_mem hl
  rcases setLeaves_get ups ls k l hk with ⟨hn, h0⟩ | ⟨u, hu, _, e⟩
  · exact absurd (hcov k (lt_of_getElem? h0)) hn
  · rw [e]; exact hv u hu

/-- all leaves moved; every leaf but `ch` is addressed and stopped -/
theorem oneL_keep_only {v : List ℚ} {ls : List (PUnit ℚ)} {ups : List (Upd ℚ)} {ch : Nat} (hall : AllL v ls)
    (hch : ch < ls.length) (hv : ∀ u ∈ ups, u.vel = none) (hnot : ch ∉ ups.map (·.leaf))
    (hcov : ∀ k, k < ls.length → k ≠ ch → k ∈ ups.map (·.leaf)) : OneL ch v (setLeaves ls ups) := by
  obtain ⟨a, ha, ham⟩ := exists_getElem?_of_lt hch
  refine ⟨⟨a, by rw [setLeaves_getElem?_of_not_mem _ _ _ hnot]; exact ha, hall.2 a ham⟩, ?_⟩
  intro k l hk hne
  rcases setLeaves_get ups ls k l hk with ⟨hn, h0⟩ | ⟨u, hu, _, e⟩
  · exact absurd (hcov k (lt_of_getElem? h0) hne) hn
  · rw [e]; exact hv u hu

/-- the single moving leaf stops -/
theorem restL_stop {j : Nat} {v : List ℚ} {ls : List (PUnit ℚ)} (h : OneL j v ls) (ts : Option (Time ℚ)) (dv : Option (List ℚ)) :
    RestL (setLeaves ls [⟨j, none, ts, dv⟩]) := by
  intro l hl
  obtain ⟨k, hk⟩ := List.getElem?_of_mem hl
  rcases setLeaves_get _ ls k l hk with ⟨hn, h0⟩ | ⟨u, hu, _, e⟩
  · simp only [List.map_cons, List.map_nil, List.mem_cons, List.not_mem_nil, or_false] at hn
    exact h.2 k l h0 hn
  · simp only [List.mem_cons, List.not_mem_nil, or_false] at hu
    subst hu; exact e

/-- a leaf of an object at rest starts to move -/
theorem oneL_go {j : Nat} {ls : List (PUnit ℚ)} (h : RestL ls) {b : PUnit ℚ} (hb : ls[j]? = some b) (v : List ℚ)
    (ts : Option (Time ℚ)) (dv : Option (List ℚ)) : OneL j v (setLeaves ls [⟨j, some v, ts, dv⟩]) := by
  refine ⟨?_, ?_⟩
  · obtain ⟨l', hl'⟩ := setLeaves_exists [⟨j, some v, ts, dv⟩] hb
    refine ⟨l', hl', ?_⟩
    rcases setLeaves_get _ ls j l' hl' with ⟨hn, _⟩ | ⟨u, hu, _, e⟩
    · simp at hn
    · simp only [List.mem_cons, List.not_mem_nil, or_false] at hu
      subst hu; exact e
  · intro k l hk hne
    rcases setLeaves_get _ ls k l hk with ⟨_, h0⟩ | ⟨u, hu, e1, _⟩
    · exact h l (List.mem_of_getElem? h0)
    · simp only [List.mem_cons, List.not_mem_nil, or_false] at hu
      subst hu; exact absurd e1.symm hne

/-- the moving leaf `j` stops, leaf `j'` of the same object moves on with `w` -/
theorem oneL_move {j j' : Nat} {v : List ℚ} {ls : List (PUnit ℚ)} (h : OneL j v ls) {b : PUnit ℚ} (hb : ls[j']? = some b)
    (hjj : j ≠ j') (w : List ℚ) (t1 t2 : Option (Time ℚ)) (d1 d2 : Option (List ℚ)) :
    OneL j' w (setLeaves ls [⟨j, none, t1, d1⟩, ⟨j', some w, t2, d2⟩]) := by
  refine ⟨?_, ?_⟩
  · obtain ⟨l', hl'⟩ := setLeaves_exists [⟨j, none, t1, d1⟩, ⟨j', some w, t2, d2⟩] hb
    refine ⟨l', hl', ?_⟩
    rcases setLeaves_get _ ls j' l' hl' with ⟨hn, _⟩ | ⟨u, hu, e1, e⟩
    · simp at hn
    · simp only [List.mem_cons, List.not_mem_nil, or_false] at hu
      rcases hu with rfl | rfl
      · exact absurd e1 hjj
      · exact e
  · intro k l hk hne
    rcases setLeaves_get _ ls k l hk with ⟨hn, h0⟩ | ⟨u, hu, e1, e⟩
    · simp only [List.map_cons, List.map_nil, List.mem_cons, List.not_mem_nil, or_false, not_or] at hn
      exact h.2 k l h0 hn.1
    · simp only [List.mem_cons, List.not_mem_nil, or_false] at hu
      rcases hu with rfl | rfl
      · exact e
      · exact absurd e1.symm hne

/-- the moving leaf changes its velocity -/
theorem oneL_change {j : Nat} {v : List ℚ} {ls : List (PUnit ℚ)} (h : OneL j v ls) (w : List ℚ) (ts : Option (Time ℚ))
    (dv : Option (List ℚ)) : OneL j w (setLeaves ls [⟨j, some w, ts, dv⟩]) := by
  obtain ⟨⟨a, ha, _⟩, ho⟩ := h
  refine ⟨?_, ?_⟩
  · obtain ⟨l', hl'⟩ := setLeaves_exists [⟨j, some w, ts, dv⟩] ha
    refine ⟨l', hl', ?_⟩
    rcases setLeaves_get _ ls j l' hl' with ⟨hn, _⟩ | ⟨u, hu, _, e⟩
    · simp at hn
    · simp only [List.mem_cons, List.not_mem_nil, or_false] at hu
      subst hu; exact e
  · intro k l hk hne
    rcases setLeaves_get _ ls k l hk with ⟨_, h0⟩ | ⟨u, hu, e1, _⟩
    · exact ho k l h0 hne
    · simp only [List.mem_cons, List.not_mem_nil, or_false] at hu
      subst hu; exact absurd e1.symm hne

/-- `List.range n` with one index removed still lists every other index -/
theorem mem_filter_range_ne {n a k : Nat} (hk : k < n) (hne : k ≠ a) : k ∈ (List.range n).filter (· != a) :=
  List.mem_filter.mpr ⟨List.mem_range.mpr hk, by simpa using hne⟩

theorem not_mem_filter_range_ne (n a : Nat) : a ∉ (List.range n).filter (· != a) := by
  intro h
  have := (List.mem_filter.mp h).2
  simp at this

end JF.Composite
