import JF.Lemmas.MediatorInv
import JF.Lemmas.MPRun
/-!
# C20 over the concrete loop, part 1: the rest of the application of `JF.MP` built from the components of `JF.Med`

`JF.MP.Env` (`JF/Model/MPMediator.lean`) is the *rest of the application* both mediators are closed over: activator, scheduler,
handler computations, global state.  Here it is instantiated with the concrete components of the composed single-process loop
`JF.Med.leg` (`JF/Model/Mediator.lean`):

* `activate` = `JF.Act.getToRun` (for a configuration `M : MWire`, with the preceding handler the state remembers),
* `choose`   = the push loop `JF.Med.pushLoop` (with the in-state assertions) followed by `I.get` of a scheduler instance `I`,
* `trash`    = `JF.Act.getTrashable` followed by `JF.Med.trashAll`,
* the handlers' computations and the global state = a `World` (any type of global states, any functions).

Two things of `Env`/`Protocol` have no counterpart in `JF.Med.leg` and are made explicit here:

1. **`Env` is total, `JF.Med.leg` raises.**  An exception of the activator / the in-state assertion / the scheduler ends the real
   run.  `Env` cannot express that, so the state type has a mode `halted`: after the first exception the environment behaves like a
   trivial application that keeps the protocol (hands out handler `0` if nothing runs, commits a running handler, trashes it).  The
   refinement statements only speak about the legs before the first exception (where `JF.Med.leg` returns `.ok`).
2. **`Protocol` quantifies over ALL states `e`**, the invariants of the loop (`JF.Med.MInv`) hold for reachable ones.  The state type
   of the environment is therefore the subtype of the states satisfying `Good` (= `MInv` for the phase the state is in), and the
   three operations are shown to preserve it (`actRaw_good`, `chooseRaw_good`, `trashRaw_good`: the three thirds of
   `JF.Med.leg_inv`).  Calls in the wrong phase (e.g. `choose` on a state `activate` did not produce) also go to `halted`.
-/
namespace JF.C20Loop
open JF JF.Act JF.Heap JF.Sched JF.Med

variable {κ : Type}

/-- what depends on physics or on the random streams: the yields of all taggers on a global state, the candidate event time /
the out-state handler `h` computes in leg `n` from (the in-state extracted from) global state `g`, and the effect of a commit -/
structure World (G O κ : Type) where
  yields : G → TaggerIdx → List IdTuple
  cand : HandlerId → Nat → G → κ
  out : HandlerId → Nat → G → O
  commit : G → O → G

/-- state of activator + scheduler + `_event_handler_with_shortest_event_time` between the calls the mediator makes -/
inductive EState (σ : Type) where
  /-- between two legs -/
  | boundary (st : MedState σ)
  /-- after `get_event_handlers_to_run`: activator state `a1`, returned dictionary `created`; nothing pushed yet -/
  | activated (st : MedState σ) (a1 : ActSt) (created : List (HandlerId × IdTuple))
  /-- after `get_succeeding_event` returned `h` -/
  | chosen (a1 : ActSt) (s2 : σ) (h : HandlerId)
  /-- after an exception (not a state of the real program, see the module docstring): a set of "running" handlers -/
  | halted (running : List Nat)

/-- all handlers in some `_running_event_handlers[tagger]` -/
def runningList (ts : Act) : List Nat := ts.flatMap (·.running)

theorem mem_runningList (ts : Act) (h : Nat) : h ∈ runningList ts ↔ ∃ T, h ∈ (getT ts T).running := by
  unfold runningList
  rw [List.mem_flatMap]
  constructor
  · rintro ⟨t, ht, hh⟩
    obtain ⟨i, hi⟩ := List.mem_iff_getElem?.mp ht
    exact ⟨i, by unfold getT; rw [hi]; exact hh⟩
  · rintro ⟨T, hT⟩
    unfold getT at hT
    cases hc : ts[T]? with
    | none => rw [hc] at hT; simp [TState.empty] at hT
    | some t => rw [hc] at hT; exact ⟨t, List.mem_of_getElem? hc, hT⟩

def EState.running {σ : Type} : EState σ → List Nat
  | .boundary st => runningList st.act.ts
  | .activated _ a1 _ => runningList a1.ts
  | .chosen a1 _ _ => runningList a1.ts
  | .halted r => r

/-! ### the halted mode -/

def haltAct {σ : Type} (r : List Nat) : List Nat × EState σ :=
  if r.isEmpty then ([0], .halted [0]) else ([], .halted r)
def haltChoose {σ : Type} (r : List Nat) : Nat × EState σ := (r.headD 0, .halted r)
def haltTrash {σ : Type} (r : List Nat) (c : Nat) : List Nat × EState σ := ([c], .halted (r.filter (· != c)))

/-- the candidate time the mediator hands to `push_event` for `h` -/
def timeIn (dflt : κ) (l : List (Nat × κ)) (h : Nat) : κ := (l.lookup h).getD dflt

section raw
variable (M : MWire) (I : SchedI κ) (dflt : κ)

/-- `activator.get_event_handlers_to_run(state, self._event_handler_with_shortest_event_time)` on the yields `ys` -/
def actRaw (ys : TaggerIdx → List IdTuple) : EState I.σ → List Nat × EState I.σ
  | .boundary st =>
    match (getToRun M.w M.S st.act st.preceding ys).2 with
    | .ok created =>
      if (runningList (getToRun M.w M.S st.act st.preceding ys).1.ts).isEmpty then haltAct (runningList st.act.ts)
      else (created.map Prod.fst, .activated st (getToRun M.w M.S st.act st.preceding ys).1 created)
    | _ => haltAct (runningList st.act.ts)
  | x => haltAct x.running

/-- the `push_event` calls `l` (handler, candidate time) the mediator makes — one per handler of the dictionary, in the dictionary's
order, else `halted`; the in-state assertions of the single-process loop are evaluated on the way (`JF.Med.pushLoop`) — followed
by `get_succeeding_event` -/
def chooseRaw : EState I.σ → List (Nat × κ) → Nat × EState I.σ
  | .activated st a1 created, l =>
    if l.map Prod.fst = created.map Prod.fst then
      match pushLoop M I ⟨fun _ => [], timeIn dflt l⟩ st.sched created with
      | .ok s1 =>
        match (I.get s1).2 with
        | .ok h _ => (h, .chosen a1 (I.get s1).1 h)
        | _ => haltChoose (runningList a1.ts)
      | .error _ => haltChoose (runningList a1.ts)
    else haltChoose (runningList a1.ts)
  | x, _ => haltChoose x.running

/-- `get_trashable_events(c)` and one `trash_event` per listed handler -/
def trashRaw : EState I.σ → Nat → List Nat × EState I.σ
  | .chosen a1 s2 h, c =>
    if c = h then
      match (getTrashable M.w a1 h).2 with
      | .ok trashed =>
        match Med.trashAll I s2 trashed with
        | .ok s3 => (trashed, .boundary ⟨(getTrashable M.w a1 h).1, s3, some h⟩)
        | .error _ => haltTrash (runningList a1.ts) c
      | _ => haltTrash (runningList a1.ts) c
    else haltTrash (runningList a1.ts) c
  | x, c => haltTrash x.running c

end raw

/-! ### the invariant per phase -/

section good
variable {cfg : Cfg κ} {I : SchedI κ} {vis : κ → Bool} (M : MWire) (R : I.σ → Pend κ → κ → Prop)

/-- `JF.Med.MInv` for the phase the state is in -/
def Good : EState I.σ → Prop
  | .boundary st => ∃ p l, MInv M R st p l
  | .activated st a1 created => (∃ p l, MInv M R st p l) ∧
      (∃ ys, getToRun M.w M.S st.act st.preceding ys = (a1, .ok created)) ∧ runningList a1.ts ≠ []
  | .chosen a1 s2 h => ∃ p l, MInv M R ⟨a1, s2, none⟩ p l ∧ (p h).isSome
  | .halted _ => True

/-- what `activate` returns: never a state in which nothing runs -/
def PostAct : EState I.σ → Prop
  | .activated _ _ _ => True
  | .halted r => r ≠ []
  | _ => False

end good

theorem haltAct_postAct {I : SchedI κ} (r : List Nat) : PostAct (haltAct (σ := I.σ) r).2 := by
  unfold haltAct
  cases r with
  | nil => simp [PostAct]
  | cons a r => simp [PostAct]

theorem haltAct_spec {σ : Type} (r : List Nat) :
    (haltAct (σ := σ) r).1.Nodup ∧ (∀ h ∈ (haltAct (σ := σ) r).1, h ∉ r) ∧
    ∀ h, h ∈ (haltAct (σ := σ) r).2.running ↔ h ∈ r ∨ h ∈ (haltAct (σ := σ) r).1 := by
  unfold haltAct
  cases r with
  | nil => simp [EState.running]
  | cons a r => simp [EState.running]

section proofs
variable {cfg : Cfg κ} {I : SchedI κ} {vis : κ → Bool} {R : I.σ → Pend κ → κ → Prop} {M : MWire} {dflt : κ}

/-! ### `activate` -/

theorem actRaw_postAct (ys : TaggerIdx → List IdTuple) (x : EState I.σ) : PostAct (actRaw M I ys x).2 := by
  cases x with
  | boundary st =>
    simp only [actRaw]
    split
    · split
      · exact haltAct_postAct _
      · trivial
    · exact haltAct_postAct _
  | activated st a1 cr => exact haltAct_postAct _
  | chosen a1 s2 h => exact haltAct_postAct _
  | halted r => exact haltAct_postAct _

theorem actRaw_good (ys : TaggerIdx → List IdTuple) {x : EState I.σ} (gx : Good M R x) :
    Good M R (actRaw M I ys x).2 := by
  cases x with
  | boundary st =>
    simp only [actRaw]
    split
    · next created hcr =>
      split
      · unfold haltAct; split <;> trivial
      · next hne =>
        refine ⟨gx, ⟨ys, by rw [← hcr]⟩, ?_⟩
        intro hc; rw [hc] at hne; simp at hne
    · unfold haltAct; split <;> trivial
  | activated st a1 cr => simp only [actRaw]; unfold haltAct; split <;> trivial
  | chosen a1 s2 h => simp only [actRaw]; unfold haltAct; split <;> trivial
  | halted r => simp only [actRaw]; unfold haltAct; split <;> trivial

/-- `get_event_handlers_to_run` returns a dictionary (distinct handlers), taken from the handlers that are not running, and
they are running afterwards (`JF.Med.getToRun_ok`) -/
theorem actRaw_spec (hs : Static M) (ys : TaggerIdx → List IdTuple) {x : EState I.σ} (gx : Good M R x) :
    (actRaw M I ys x).1.Nodup ∧ (∀ h ∈ (actRaw M I ys x).1, h ∉ x.running) ∧
    ∀ h, h ∈ (actRaw M I ys x).2.running ↔ h ∈ x.running ∨ h ∈ (actRaw M I ys x).1 := by
  cases x with
  | boundary st =>
    simp only [actRaw]
    split
    · next created hcr =>
      split
      · exact haltAct_spec _
      · obtain ⟨p, l, inv⟩ := gx
        have hrun : getToRun M.w M.S st.act st.preceding ys =
            ((getToRun M.w M.S st.act st.preceding ys).1, .ok created) := by rw [← hcr]
        obtain ⟨_, cnd, cfresh, crun⟩ := getToRun_ok hs inv.pool hrun
        refine ⟨cnd, ?_, ?_⟩
        · intro h hh hr
          obtain ⟨T, hT⟩ := (mem_runningList _ _).mp hr
          exact cfresh h hh T hT
        · intro h
          simp only [EState.running, mem_runningList]
          exact crun h
    · exact haltAct_spec _
  | activated st a1 cr => exact haltAct_spec _
  | chosen a1 s2 h => exact haltAct_spec _
  | halted r => exact haltAct_spec _

/-! ### `choose` -/

theorem chooseRaw_running (x : EState I.σ) (l : List (Nat × κ)) :
    (chooseRaw M I dflt x l).2.running = x.running := by
  cases x with
  | activated st a1 cr =>
    simp only [chooseRaw]
    split
    · split
      · split <;> rfl
      · rfl
    · rfl
  | boundary st => rfl
  | chosen a1 s2 h => rfl
  | halted r => rfl

/-- the state after the pushes and `get_succeeding_event` (second third of `JF.Med.leg_inv`) -/
theorem choose_core (L : Laws cfg I vis R) (hs : Static M) {st : MedState I.σ} {a1 : ActSt}
    {created : List (HandlerId × IdTuple)} {p : Pend κ} {l : κ} (inv : MInv M R st p l) {ys : TaggerIdx → List IdTuple}
    (hrun : getToRun M.w M.S st.act st.preceding ys = (a1, .ok created)) {o : Oracle κ} {s1 : I.σ}
    (hpush : pushLoop M I o st.sched created = .ok s1) {h : HandlerId} {t : κ} (hget : (I.get s1).2 = .ok h t) :
    MInv M R ⟨a1, (I.get s1).1, none⟩ (pushAll p (created.map fun q => (q.1, o.cand q.1))) t ∧
    pushAll p (created.map fun q => (q.1, o.cand q.1)) h = some t := by
  obtain ⟨pinv1, cnd, cfresh, crun⟩ := getToRun_ok hs inv.pool hrun
  have hfresh : ∀ h ∈ created.map Prod.fst, p h = none := by
    intro h hh
    cases hp : p h with
    | none => rfl
    | some t =>
      obtain ⟨T, hT⟩ := (inv.mirror h).mp (by simp [hp])
      exact absurd hT (cfresh h hh T)
  have R1 := pushLoop_rel L M o created st.sched s1 p l inv.rel cnd hfresh hpush
  have hkeys : (created.map fun q => (q.1, o.cand q.1)).map Prod.fst = created.map Prod.fst := by
    rw [List.map_map]; rfl
  have G := L.get R1
  unfold GetSpec at G
  rw [hget] at G
  simp only at G
  obtain ⟨gp, _, _, _, R2⟩ := G
  refine ⟨⟨pinv1, R2, ?_⟩, gp⟩
  intro x
  rw [pushAll_isSome, hkeys, crun x, inv.mirror x]

theorem chooseRaw_good (L : Laws cfg I vis R) (hs : Static M) {x : EState I.σ} (gx : Good M R x) (l : List (Nat × κ)) :
    Good M R (chooseRaw M I dflt x l).2 := by
  cases x with
  | activated st a1 cr =>
    simp only [chooseRaw]
    split
    · split
      · next s1 hpush =>
        split
        · next h t hget =>
          obtain ⟨⟨p, l0, inv⟩, ⟨ys, hrun⟩, _⟩ := gx
          obtain ⟨i1, i2⟩ := choose_core L hs inv hrun hpush hget
          exact ⟨_, _, i1, by rw [i2]; rfl⟩
        · trivial
      · trivial
    · trivial
  | boundary st => trivial
  | chosen a1 s2 h => trivial
  | halted r => trivial

/-- `get_succeeding_event` returns a running handler -/
theorem chooseRaw_run (L : Laws cfg I vis R) (hs : Static M) {x : EState I.σ} (gx : Good M R x) (px : PostAct x)
    (l : List (Nat × κ)) : (chooseRaw M I dflt x l).1 ∈ x.running := by
  have hd : ∀ r : List Nat, r ≠ [] → r.headD 0 ∈ r := by
    intro r hr
    cases r with
    | nil => exact absurd rfl hr
    | cons a r => simp
  cases x with
  | activated st a1 cr =>
    obtain ⟨⟨p, l0, inv⟩, ⟨ys, hrun⟩, hne⟩ := gx
    simp only [chooseRaw]
    split
    · split
      · next s1 hpush =>
        split
        · next h t hget =>
          obtain ⟨i1, i2⟩ := choose_core L hs inv hrun hpush hget
          simp only [EState.running, mem_runningList]
          exact (i1.mirror h).mp (by rw [i2]; rfl)
        · exact hd _ hne
      · exact hd _ hne
    · exact hd _ hne
  | boundary st => exact absurd px (by simp [PostAct])
  | chosen a1 s2 h => exact absurd px (by simp [PostAct])
  | halted r => exact hd _ px

/-! ### `trash` -/

theorem haltTrash_spec {σ : Type} (r : List Nat) (c : Nat) :
    c ∈ (haltTrash (σ := σ) r c).1 ∧
    ∀ h, h ∈ (haltTrash (σ := σ) r c).2.running ↔ h ∈ r ∧ h ∉ (haltTrash (σ := σ) r c).1 := by
  simp [haltTrash, EState.running]

/-- the state after the trash loop (last third of `JF.Med.leg_inv`) -/
theorem trash_core (L : Laws cfg I vis R) (hs : Static M) {a1 : ActSt} {s2 s3 : I.σ} {pre : Option HandlerId}
    {p : Pend κ} {l : κ} (inv : MInv M R ⟨a1, s2, pre⟩ p l) {h : HandlerId} {trashed : List HandlerId}
    (htr : (getTrashable M.w a1 h).2 = .ok trashed) (htall : Med.trashAll I s2 trashed = .ok s3) :
    MInv M R ⟨(getTrashable M.w a1 h).1, s3, some h⟩ (dropAll p trashed) l ∧ h ∈ trashed ∧
    ∀ x, (∃ T, x ∈ (getT (getTrashable M.w a1 h).1.ts T).running) ↔ (∃ T, x ∈ (getT a1.ts T).running) ∧ x ∉ trashed := by
  have htrash : getTrashable M.w a1 h = ((getTrashable M.w a1 h).1, .ok trashed) := by rw [← htr]
  obtain ⟨E, _, _, _, _, hself, _, pinv2, _, trun⟩ := getTrashable_ok hs inv.pool htrash
  have R3 := trashAll_rel L trashed _ s3 _ _ inv.rel htall
  refine ⟨⟨pinv2, R3, ?_⟩, hself, trun⟩
  intro x
  show (dropAll p trashed x).isSome ↔ _
  rw [dropAll_eq, trun x, ← inv.mirror x]
  by_cases hx : x ∈ trashed
  · simp [hx]
  · simp [hx]

theorem trashRaw_good (L : Laws cfg I vis R) (hs : Static M) {x : EState I.σ} (gx : Good M R x) (c : Nat) :
    Good M R (trashRaw M I x c).2 := by
  cases x with
  | chosen a1 s2 h =>
    simp only [trashRaw]
    split
    · split
      · next trashed htr =>
        split
        · next s3 htall =>
          obtain ⟨p, l, inv, _⟩ := gx
          exact ⟨_, _, (trash_core L hs inv htr htall).1⟩
        · trivial
      · trivial
    · trivial
  | boundary st => trivial
  | activated st a1 cr => trivial
  | halted r => trivial

/-- `get_trashable_events(c)` contains `c`; exactly the listed handlers stop running -/
theorem trashRaw_spec (L : Laws cfg I vis R) (hs : Static M) {x : EState I.σ} (gx : Good M R x) (c : Nat) :
    c ∈ (trashRaw M I x c).1 ∧
    ∀ h, h ∈ (trashRaw M I x c).2.running ↔ h ∈ x.running ∧ h ∉ (trashRaw M I x c).1 := by
  cases x with
  | chosen a1 s2 h =>
    simp only [trashRaw]
    split
    · next hc =>
      split
      · next trashed htr =>
        split
        · next s3 htall =>
          obtain ⟨p, l, inv, _⟩ := gx
          obtain ⟨_, hself, trun⟩ := trash_core L hs inv htr htall
          refine ⟨hc ▸ hself, fun x => ?_⟩
          simp only [EState.running, mem_runningList]
          exact trun x
        · exact haltTrash_spec _ _
      · exact haltTrash_spec _ _
    · exact haltTrash_spec _ _
  | boundary st => exact haltTrash_spec _ _
  | activated st a1 cr => exact haltTrash_spec _ _
  | halted r => exact haltTrash_spec _ _

end proofs

/-! ### the environment -/

section env
variable {G O : Type} {cfg : Cfg κ} {I : SchedI κ} {vis : κ → Bool} {R : I.σ → Pend κ → κ → Prop} {M : MWire}

/-- the state type of the environment: the states satisfying the invariant of their phase -/
abbrev EGood (M : MWire) {I : SchedI κ} (R : I.σ → Pend κ → κ → Prop) := { x : EState I.σ // Good M R x }

/-- **the rest of the application, built from the components of the single-process loop `JF.Med.leg`** -/
def medEnv (L : Laws cfg I vis R) (hs : Static M) (W : World G O κ) : MP.Env G (EGood M R) κ O where
  activate g e := ((actRaw M I (W.yields g) e.1).1, ⟨(actRaw M I (W.yields g) e.1).2, actRaw_good _ e.2⟩)
  timeOf := W.cand
  outOf := W.out
  choose e l := ((chooseRaw M I cfg.bot e.1 l).1, ⟨(chooseRaw M I cfg.bot e.1 l).2, chooseRaw_good L hs e.2 l⟩)
  commit := W.commit
  trash e c := ((trashRaw M I e.1 c).1, ⟨(trashRaw M I e.1 c).2, trashRaw_good L hs e.2 c⟩)

/-- `h` is in `_running_event_handlers` (of some tagger) -/
def Running (e : EGood M R) (h : Nat) : Bool := decide (h ∈ e.1.running)

/-- the initial state: `TagActivator.initialize`, an empty scheduler, no preceding handler -/
def medInit (L : Laws cfg I vis R) (M : MWire) : EGood M R :=
  ⟨.boundary (MedState.init I M.w), _, _, minv_init L M⟩

theorem running_iff (e : EGood M R) (h : Nat) : Running e h = true ↔ h ∈ e.1.running := by
  unfold Running; exact decide_eq_true_iff

theorem running_false_iff (e : EGood M R) (h : Nat) : Running e h = false ↔ h ∉ e.1.running := by
  unfold Running; exact decide_eq_false_iff_not

theorem medInit_running (L : Laws cfg I vis R) (M : MWire) (h : Nat) : Running (medInit L M) h = false := by
  rw [running_false_iff]
  show h ∉ runningList (initAct M.w)
  rw [mem_runningList]
  rintro ⟨T, hT⟩
  rw [getT_initAct] at hT
  split at hT <;> simp [TState.empty] at hT

/-- **The activator/scheduler protocol `mp_refines_sp` assumes is a theorem for the concrete single-process loop**: every field
is one of E1's lemmas about `getToRun` (`getToRun_ok`), the scheduler laws (`Laws.get`: the returned handler has a pending event;
`MInv.mirror`: pending ⇔ running) and `getTrashable` (`getTrashable_ok`). -/
theorem medProtocol (L : Laws cfg I vis R) (hs : Static M) (W : World G O κ) :
    MP.Protocol (medEnv L hs W) Running where
  act_nodup := fun g e => (actRaw_spec hs (W.yields g) e.2).1
  act_fresh := fun g e h hh => (running_false_iff e h).mpr ((actRaw_spec hs (W.yields g) e.2).2.1 h hh)
  act_run := fun g e h => by
    have := (actRaw_spec hs (W.yields g) e.2).2.2 h
    rw [Bool.eq_iff_iff, Bool.or_eq_true, running_iff, running_iff, decide_eq_true_iff]
    exact this
  choose_run := fun g e l =>
    (running_iff _ _).mpr
      (chooseRaw_run (dflt := cfg.bot) L hs (actRaw_good (W.yields g) e.2) (actRaw_postAct (W.yields g) e.1) l)
  choose_keep := fun e l h => by
    rw [Bool.eq_iff_iff, running_iff, running_iff]
    show h ∈ (chooseRaw M I cfg.bot e.1 l).2.running ↔ _
    rw [chooseRaw_running]
  trash_self := fun e c => (trashRaw_spec L hs e.2 c).1
  trash_run := fun e c h => by
    have := (trashRaw_spec L hs e.2 c).2 h
    rw [Bool.eq_iff_iff, Bool.and_eq_true, running_iff, running_iff, Bool.not_eq_true', decide_eq_false_iff_not]
    exact this

end env

end JF.C20Loop
