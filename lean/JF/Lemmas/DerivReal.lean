import JF.Model.Potential.Derivative
import JF.Model.Potential.DerivativeEwald
import Mathlib.Analysis.SpecialFunctions.Pow.Deriv
import Mathlib.Analysis.SpecialFunctions.Sqrt
import Mathlib.Analysis.SpecialFunctions.Trigonometric.InverseDeriv
/-!
The exact (`ℝ`) reading of the scalar record `DOps` of `JF/Model/Potential/Derivative.lean`, and the
evaluation lemmas that turn the Python-semantics helpers (`pyDiv`, `pyPow`, `pySum`, `norm`,
`analyseVelocity`) into ordinary real expressions.  `erfc` is a parameter (Mathlib has no error function).
-/
namespace JF.Deriv
open Real

/-- exact reading: Mathlib's real functions; nothing overflows (`isFinite = true`) -/
noncomputable def DOps.real (erfc : ℝ → ℝ) : DOps ℝ where
  ofInt n := (n : ℝ)
  isFinite _ := true
  sqrt := Real.sqrt
  pow := fun x y => x ^ y
  exp := Real.exp
  erfc := erfc
  cos := Real.cos
  sin := Real.sin
  acos := Real.arccos
  pi := Real.pi

variable (e : ℝ → ℝ)

@[simp] theorem real_ofInt (n : ℤ) : (DOps.real e).ofInt n = (n : ℝ) := rfl
@[simp] theorem real_isFinite (x : ℝ) : (DOps.real e).isFinite x = true := rfl
@[simp] theorem real_pow (x y : ℝ) : (DOps.real e).pow x y = x ^ y := rfl
@[simp] theorem real_sqrt (x : ℝ) : (DOps.real e).sqrt x = √x := rfl
@[simp] theorem real_exp (x : ℝ) : (DOps.real e).exp x = Real.exp x := rfl
@[simp] theorem real_erfc (x : ℝ) : (DOps.real e).erfc x = e x := rfl
@[simp] theorem real_cos (x : ℝ) : (DOps.real e).cos x = Real.cos x := rfl
@[simp] theorem real_sin (x : ℝ) : (DOps.real e).sin x = Real.sin x := rfl
@[simp] theorem real_acos (x : ℝ) : (DOps.real e).acos x = Real.arccos x := rfl
@[simp] theorem real_pi : (DOps.real e).pi = π := rfl

theorem pyDiv_real (x y : ℝ) (hy : y ≠ 0) : pyDiv (DOps.real e) x y = .ok (x / y) := by
  simp [pyDiv, hy]

theorem pyDiv_real_zero (x : ℝ) : pyDiv (DOps.real e) x 0 = .error "ZeroDivisionError" := by
  simp [pyDiv]

theorem pyPow_real (x y : ℝ) : pyPow (DOps.real e) x y = .ok (x ^ y) := by
  simp [pyPow]

theorem sumStep_real (st : ℝ × ℝ) (x : ℝ) : sumStep (DOps.real e) st x = (st.1 + x, st.2) := by
  simp only [sumStep]
  split_ifs <;> (ext <;> simp)

theorem pySum3_real (a b c : ℝ) : pySum (DOps.real e) [a, b, c] = a + b + c := by
  simp [pySum, List.foldl, sumStep_real]

/-- squared euclidean norm -/
def V3.nsq (s : V3 ℝ) : ℝ := s.x * s.x + s.y * s.y + s.z * s.z

theorem V3.nsq_nonneg (s : V3 ℝ) : 0 ≤ s.nsq := by
  unfold V3.nsq; nlinarith [mul_self_nonneg s.x, mul_self_nonneg s.y, mul_self_nonneg s.z]

theorem norm_real (s : V3 ℝ) : norm (DOps.real e) s = .ok (√(s.nsq)) := by
  simp only [norm, pySum3_real, pyPow_real, half, real_ofInt, V3.nsq]
  rw [Real.sqrt_eq_rpow]; norm_num

end JF.Deriv

namespace JF.Deriv
open Real
variable (e : ℝ → ℝ)

/-! ### velocities and moved separations -/

/-- `v` is a standard velocity: speed `sp > 0` along axis `d`, the other components zero -/
def StdVel (v : V3 ℝ) (d : ℕ) (sp : ℝ) : Prop :=
  0 < sp ∧ ((d = 0 ∧ v = ⟨sp, 0, 0⟩) ∨ (d = 1 ∧ v = ⟨0, sp, 0⟩) ∨ (d = 2 ∧ v = ⟨0, 0, sp⟩))

/-- the separation (target minus active) after the ACTIVE unit has moved by `x` along axis `d` -/
def V3.moved (s : V3 ℝ) (d : ℕ) (x : ℝ) : V3 ℝ :=
  match d with
  | 0 => ⟨s.x - x, s.y, s.z⟩
  | 1 => ⟨s.x, s.y - x, s.z⟩
  | _ => ⟨s.x, s.y, s.z - x⟩

/-- a separation after one of its end points moved by `+x` along axis `d` (bending potential) -/
def V3.pushed (s : V3 ℝ) (d : ℕ) (x : ℝ) : V3 ℝ := s.moved d (-x)

/-- `s - t • v` -/
def V3.subSmul (s v : V3 ℝ) (t : ℝ) : V3 ℝ := ⟨s.x - t * v.x, s.y - t * v.y, s.z - t * v.z⟩

theorem subSmul_of_stdVel {v : V3 ℝ} {d : ℕ} {sp : ℝ} (hv : StdVel v d sp) (s : V3 ℝ) (t : ℝ) :
    s.subSmul v t = s.moved d (sp * t) := by
  obtain ⟨_, ⟨rfl, rfl⟩ | ⟨rfl, rfl⟩ | ⟨rfl, rfl⟩⟩ := hv <;>
    simp [V3.subSmul, V3.moved, mul_comm]

theorem analyseVelocity_of_stdVel {v : V3 ℝ} {d : ℕ} {sp : ℝ} (hv : StdVel v d sp) :
    analyseVelocity (DOps.real e) v = .ok (d, sp) := by
  have hb : ∀ x : ℝ, 0 < x → (x == (0 : ℝ)) = false := fun x hx => by simp [hx.ne']
  obtain ⟨hsp, ⟨rfl, rfl⟩ | ⟨rfl, rfl⟩ | ⟨rfl, rfl⟩⟩ := hv <;>
    simp [analyseVelocity, List.filter, V3.get, hb _ hsp, hsp]

/-- completeness: `_analyse_velocity` succeeds ONLY on standard velocities -/
theorem stdVel_of_analyseVelocity {v : V3 ℝ} {d : ℕ} {sp : ℝ}
    (h : analyseVelocity (DOps.real e) v = .ok (d, sp)) : StdVel v d sp := by
  obtain ⟨x, y, z⟩ := v
  cases hbx : (x == (0 : ℝ)) <;> cases hby : (y == (0 : ℝ)) <;> cases hbz : (z == (0 : ℝ)) <;>
    simp [analyseVelocity, List.filter, V3.get, hbx, hby, hbz] at h
  all_goals
    split_ifs at h with h0
    simp only [Except.ok.injEq, Prod.mk.injEq] at h
    obtain ⟨rfl, rfl⟩ := h
    simp only [beq_iff_eq] at hbx hby hbz
    simp [StdVel, h0, hbx, hby, hbz]

/-- `StandardVelocityPotential.derivative`: chain rule `d/dt U(s - t v) = speed · d/dx U(s - x e_d)` -/
theorem timeDerivative_hasDerivAt {U : V3 ℝ → ℝ} {svd : ℕ → Res ℝ} {v s : V3 ℝ} {d : ℕ} {sp r : ℝ}
    (hv : StdVel v d sp) (hsvd : svd d = .ok r) (hU : HasDerivAt (fun x => U (s.moved d x)) r 0) :
    timeDerivative (DOps.real e) v svd = .ok (r * sp) ∧
      HasDerivAt (fun t => U (s.subSmul v t)) (r * sp) 0 := by
  constructor
  · simp [timeDerivative, analyseVelocity_of_stdVel e hv, hsvd, bind, Except.bind, pure, Except.pure]
  · have hlin : HasDerivAt (fun t : ℝ => sp * t) sp 0 := by
      simpa using (hasDerivAt_id (0 : ℝ)).const_mul sp
    have hU' : HasDerivAt (fun x => U (s.moved d x)) r (sp * 0) := by simpa using hU
    have := hU'.comp (0 : ℝ) hlin
    simp only [subSmul_of_stdVel hv]
    exact this

theorem quad_hasDerivAt (a b : ℝ) : HasDerivAt (fun x : ℝ => (a - x) * (a - x) + b) (-2 * a) 0 := by
  have h1 : HasDerivAt (fun x : ℝ => a - x) (-1) 0 := by
    simpa using (hasDerivAt_id (0 : ℝ)).const_sub a
  have h := (h1.mul h1).add_const b
  have e : (-1 * (a - 0) + (a - 0) * -1) = -2 * a := by ring
  rw [e] at h
  exact h

theorem nsq_moved_hasDerivAt (s : V3 ℝ) (d : ℕ) :
    HasDerivAt (fun x => (s.moved d x).nsq) (-2 * s.get d) 0 := by
  match d with
  | 0 =>
    have h := quad_hasDerivAt s.x (s.y * s.y + s.z * s.z)
    have e : (fun x => (s.moved 0 x).nsq) = fun x => (s.x - x) * (s.x - x) + (s.y * s.y + s.z * s.z) := by
      funext x; simp only [V3.moved, V3.nsq]; ring
    rw [e]; exact h
  | 1 =>
    have h := quad_hasDerivAt s.y (s.x * s.x + s.z * s.z)
    have e : (fun x => (s.moved 1 x).nsq) = fun x => (s.y - x) * (s.y - x) + (s.x * s.x + s.z * s.z) := by
      funext x; simp only [V3.moved, V3.nsq]; ring
    rw [e]; exact h
  | (n + 2) =>
    have h := quad_hasDerivAt s.z (s.x * s.x + s.y * s.y)
    have e : (fun x => (s.moved (n + 2) x).nsq) = fun x => (s.z - x) * (s.z - x) + (s.x * s.x + s.y * s.y) := by
      funext x; simp only [V3.moved, V3.nsq]; ring
    rw [e]; exact h

@[simp] theorem moved_zero (s : V3 ℝ) (d : ℕ) : s.moved d 0 = s := by
  unfold V3.moved; split <;> simp

/-- the euclidean norm along the motion of the active unit: `d/dx |s - x e_d| = - s_d / |s|` -/
theorem norm_moved_hasDerivAt (s : V3 ℝ) (d : ℕ) (hs : s.nsq ≠ 0) :
    HasDerivAt (fun x => √((s.moved d x).nsq)) (-(s.get d) / √(s.nsq)) 0 := by
  have h := (nsq_moved_hasDerivAt s d).sqrt (by simpa using hs)
  convert h using 1
  simp only [moved_zero]; ring

end JF.Deriv
