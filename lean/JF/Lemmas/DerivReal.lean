import JF.Model.Potential.Derivative
import JF.Model.Potential.DerivativeEwald
import Mathlib.Analysis.SpecialFunctions.Pow.Deriv
import Mathlib.Analysis.SpecialFunctions.Sqrt
import Mathlib.Analysis.SpecialFunctions.Trigonometric.InverseDeriv
/-!
The exact (`ℝ`) reading of the scalar record `DOps` of `JF/Model/Potential/Derivative.lean`, and the
evaluation lemmas that turn the Python-semantics helpers (`pyDiv`, `pyPow`, `pySum`, `norm`,
`analyseVelocity`) into ordinary real expressions.  `erfc` is a parameter (Mathlib has no error function).
-/
namespace JF.Deriv
open Real

/-- exact reading: Mathlib's real functions; nothing overflows (`isFinite = true`) -/
noncomputable def DOps.real (erfc : ℝ → ℝ) : DOps ℝ where
  ofInt n := (n : ℝ)
  isFinite _ := true
  sqrt := Real.sqrt
  pow := fun x y => x ^ y
  exp := Real.exp
  erfc := erfc
  cos := Real.cos
  sin := Real.sin
  acos := Real.arccos
  pi := Real.pi

variable (e : ℝ → ℝ)

@[simp] theorem real_ofInt (n : ℤ) : (DOps.real e).ofInt n = (n : ℝ) := rfl
@[simp] theorem real_isFinite (x : ℝ) : (DOps.real e).isFinite x = true := rfl
@[simp] theorem real_pow (x y : ℝ) : (DOps.real e).pow x y = x ^ y := rfl
@[simp] theorem real_sqrt (x : ℝ) : (DOps.real e).sqrt x = √x := rfl
@[simp] theorem real_exp (x : ℝ) : (DOps.real e).exp x = Real.exp x := rfl
@[simp] theorem real_erfc (x : ℝ) : (DOps.real e).erfc x = e x := rfl
@[simp] theorem real_cos (x : ℝ) : (DOps.real e).cos x = Real.cos x := rfl
@[simp] theorem real_sin (x : ℝ) : (DOps.real e).sin x = Real.sin x := rfl
@[simp] theorem real_acos (x : ℝ) : (DOps.real e).acos x = Real.arccos x := rfl
@[simp] theorem real_pi : (DOps.real e).pi = π := rfl

theorem pyDiv_real (x y : ℝ) (hy : y ≠ 0) : pyDiv (DOps.real e) x y = .ok (x / y) := by
  simp [pyDiv, hy]

theorem pyDiv_real_zero (x : ℝ) : pyDiv (DOps.real e) x 0 = .error "ZeroDivisionError" := by
  simp [pyDiv]

theorem pyPow_real (x y : ℝ) : pyPow (DOps.real e) x y = .ok (x ^ y) := by
  simp [pyPow]

theorem sumStep_real (st : ℝ × ℝ) (x : ℝ) : sumStep (DOps.real e) st x = (st.1 + x, st.2) := by
  simp only [sumStep]
  split_ifs <;> (ext <;> simp)

theorem pySum3_real (a b c : ℝ) : pySum (DOps.real e) [a, b, c] = a + b + c := by
  simp [pySum, List.foldl, sumStep_real]

/-- squared euclidean norm -/
def V3.nsq (s : V3 ℝ) : ℝ := s.x * s.x + s.y * s.y + s.z * s.z

theorem V3.nsq_nonneg (s : V3 ℝ) : 0 ≤ s.nsq := by
  unfold V3.nsq; nlinarith [mul_self_nonneg s.x, mul_self_nonneg s.y, mul_self_nonneg s.z]

theorem norm_real (s : V3 ℝ) : norm (DOps.real e) s = .ok (√(s.nsq)) := by
  simp only [norm, pySum3_real, pyPow_real, half, real_ofInt, V3.nsq]
  rw [Real.sqrt_eq_rpow]; norm_num

end JF.Deriv
