import JF.Model.Store
/-!
# C13 — the purely functional specification of the state handler, and the abstraction map

`JF/Model/Store.lean` models `TreeStateHandler` with an explicit heap of mutable objects
(position lists, velocity lists, `Time` objects), references and copies.  This file is the
*specification* that model is proved to refine (`JF/Props/C13Refine.lean`, `refines_functional`):
there is **no heap and no reference** here.  The global state is a map from identifiers to plain
values, a held branch is a list of plain values, and every operation of the client interface
`Op` is a pure function on these values.  Whatever a client can observe of the reference-level
store is a function of `abs s` (which reads every reference through the heap).

Reading guide: `Spec` (the state) — `Spec.unitAt`/`Spec.branch` (what is stored under an
identifier / the branch of an identifier) — `Spec.independent` (active rule) — `Spec.insertUnit`
(commit) — `Spec.step` (all ten client operations) — `abs`.
-/
namespace JF.Store
namespace Spec

/-- the content of a position / velocity / `Time` object (`none`: a dangling reference, which
never occurs in a reachable state) -/
abbrev Val (α : Type) := Option (Obj α)

/-- what the physical state keeps per node: the position (a value), the charge, the weight -/
structure Node (α : Type) where
  pos : Val α
  charge : Option Nat
  weight : α

/-- The global state as values.  `phys` is the finite map identifier ↦ node: `[r] ↦ phys[r].1`,
`[r, c] ↦ phys[r].2[c]`.  `lift` is the lifting state: the active identifiers with velocity and time
stamp, in the order in which they became active (a Python `dict`).  `levels`, `perRoot` are the two
settings; they never change. -/
structure Global (α : Type) where
  levels : Nat
  perRoot : Nat
  phys : List (Node α × List (Node α))
  lift : List (Ident × Val α × Val α)

end Spec

/-- Specification state: the global state and the branches the client holds, all as values.  A held
branch is the list of its unit values (`UVal`: identifier, position, charge, velocity, time stamp,
weight) in preorder — root cnode, then child cnodes — with the ghost flag "extracted and not yet
inserted". -/
structure Spec (α : Type) where
  g : Spec.Global α
  held : List (List (UVal α) × Bool)

/-- the held branch whose objects an operation changes in place -/
def Op.inPlace {α : Type} : Op α → Option Nat
  | .setPos b _ _ _ | .setVel b _ _ _ | .tsUpdate b _ _ _ => some b
  | _ => none

namespace Spec
variable {α : Type}

/-! ### reading the global state -/

def node (g : Global α) : Ident → Option (Node α)
  | [r] => g.phys[r]?.map (·.1)
  | [r, c] => g.phys[r]?.bind (·.2[c]?)
  | _ => none

/-- the unit stored under `id`; velocity and time stamp are `None` unless `id` is active -/
def unitAt (g : Global α) (id : Ident) : Option (UVal α) :=
  (node g id).map fun n =>
    ⟨id, n.pos, n.charge, (g.lift.lookup id).map (·.1), (g.lift.lookup id).map (·.2), n.weight⟩

/-- identifiers of the branch of `id`: ancestors, the node, all descendants (preorder) -/
def branchIds (g : Global α) : Ident → List Ident
  | [r] => [r] :: (List.range ((g.phys[r]?.map (·.2.length)).getD 0)).map (fun c => [r, c])
  | [r, c] => [[r], [r, c]]
  | _ => []

/-- the branch of `id` with the current values -/
def branch (g : Global α) (id : Ident) : List (UVal α) := (branchIds g id).filterMap (unitAt g)

/-- `extract_from_global_state`: `IndexError` for an identifier that is not in the tree -/
def extract (g : Global α) (id : Ident) : Except Err (List (UVal α)) :=
  if (unitAt g id).isSome then .ok (branch g id) else .error .index

/-- the active identifiers of node level `n` (there are the levels `1 .. levels`) -/
def lifted (g : Global α) (n : Nat) : List Ident :=
  if n ≤ g.levels then (g.lift.map (·.1)).filter (·.length = n) else []

/-- `yield_independent_lifted_identifiers`: with one level every active unit; otherwise per active
root the root itself if all its `perRoot` children are active, else its active children -/
def independent (g : Global α) : List Ident :=
  if g.levels = 1 then g.lift.map (·.1)
  else (lifted g 1).flatMap fun root =>
    let ls := ((List.range g.perRoot).map (fun i => root ++ [i])).filter (· ∈ lifted g 2)
    if ls.length = g.perRoot then [root] else ls

/-! ### committing -/

/-- `TreePhysicalState.set` -/
def physSet (phys : List (Node α × List (Node α))) (id : Ident) (p : Val α) :
    Except Err (List (Node α × List (Node α))) :=
  match id with
  | [r] => match phys[r]? with
    | none => .error .index
    | some R => .ok (phys.set r ({ R.1 with pos := p }, R.2))
  | [r, c] => match phys[r]? with
    | none => .error .index
    | some R => match R.2[c]? with
      | none => .error .index
      | some L => .ok (phys.set r (R.1, R.2.set c { L with pos := p }))
  | _ => .error .index

/-- `d[id] = x`: an existing key keeps its place, a new one goes to the end -/
def assocSet {β : Type} : List (Ident × β) → Ident → β → List (Ident × β)
  | [], id, x => [(id, x)]
  | (k, y) :: rest, id, x => if k = id then (k, x) :: rest else (k, y) :: assocSet rest id x

/-- `TreeLiftingState.set` for an identifier of the tree (length 1 or 2): `AssertionError` unless
velocity and time stamp are both given or both `None`; `KeyError` (after the dictionary was
written) if there is no node level `len(id)` -/
def liftSet (g : Global α) (id : Ident) (v t : Option (Val α)) : Global α × Option Err :=
  let levelErr : Option Err := if id.length ≤ g.levels then none else some .key
  match v, t with
  | some v, some t => ({ g with lift := assocSet g.lift id (v, t) }, levelErr)
  | none, none =>
    if (g.lift.lookup id).isSome then ({ g with lift := g.lift.filter (·.1 ≠ id) }, levelErr) else (g, none)
  | _, _ => (g, some .assertion)

/-- one unit of `insert_into_global_state`: its position, velocity and time stamp replace the
stored ones (charge and weight of the unit are ignored) -/
def insertUnit (g : Global α) (u : UVal α) : Global α × Option Err :=
  match physSet g.phys u.id u.pos with
  | .error e => (g, some e)
  | .ok phys => liftSet { g with phys := phys } u.id u.vel u.ts

/-- unit after unit, up to the first exception -/
def insertUnits (g : Global α) : List (UVal α) → Global α × Option Err
  | [] => (g, none)
  | u :: us =>
    match insertUnit g u with
    | (g1, none) => insertUnits g1 us
    | r => r

/-! ### the client's held branches -/

/-- unit `u` of held branch `b` (`u = 0`: root cnode, `u = k + 1`: child cnode `k`) -/
def getHeld (held : List (List (UVal α) × Bool)) (b u : Nat) : Option (UVal α) :=
  held[b]?.bind (·.1[u]?)

def setHeld (held : List (List (UVal α) × Bool)) (b u : Nat) (x : UVal α) : List (List (UVal α) × Bool) :=
  held.modify b fun L => (L.1.set u x, L.2)

/-- the selection `(b, 0)`: held branch `b`; `(b, k + 1)`: its child cnode `k` on its own -/
def pick (held : List (List (UVal α) × Bool)) (s : Nat × Nat) : Option (List (UVal α)) :=
  held[s.1]?.bind fun L => if s.2 = 0 then some L.1 else L.1[s.2]?.map ([·])

/-- sort key of a branch: its identifiers in preorder -/
def key (us : List (UVal α)) : List Nat := us.flatMap (·.id)

/-- a mutation of unit `u` of held branch `b`: **only that held value changes** -/
def mutate (s : Spec α) (b u : Nat) (f : UVal α → Except Err (UVal α)) : Spec α × Outcome :=
  match getHeld s.held b u with
  | none => (s, some .key)
  | some c =>
    match f c with
    | .error e => (s, some e)
    | .ok c' => ({ s with held := setHeld s.held b u c' }, none)

/-- one client operation on values, with its outcome token -/
def step (s : Spec α) : Op α → Spec α × Outcome
  | .extract id =>
    match extract s.g id with
    | .error e => (s, some e)
    | .ok us => ({ s with held := s.held ++ [(us, true)] }, none)
  | .active =>
    match (independent s.g).mapM (extract s.g) with
    | .error e => (s, some e)
    | .ok bs =>
      ({ s with held := s.held ++ (bs.mergeSort fun a b => lexLe (key a) (key b)).map (·, true) }, none)
  | .global =>
    ({ s with held := s.held ++ (List.range s.g.phys.length).map fun r => (branch s.g [r], false) }, none)
  | .insert sel =>
    match sel.mapM (pick s.held) with
    | none => (s, some .key)
    | some bs =>
      let r := insertUnits s.g bs.flatten
      (⟨r.1, s.held.mapIdx fun i L => if i ∈ sel.map (·.1) then (L.1, false) else L⟩, r.2)
  | .setPos b u i x => mutate s b u fun c =>
      match c.pos with
      | some (.vec l) => if i < l.length then .ok { c with pos := some (.vec (l.set i x)) } else .error .index
      | _ => .error .type
  | .newPos b u xs => mutate s b u fun c => .ok { c with pos := some (.vec xs) }
  | .setVel b u i x => mutate s b u fun c =>
      match c.vel with
      | none => .error .type
      | some (some (.vec l)) =>
        if i < l.length then .ok { c with vel := some (some (.vec (l.set i x))) } else .error .index
      | some _ => .error .type
  | .newVel b u xs => mutate s b u fun c => .ok { c with vel := xs.map fun xs => some (.vec xs) }
  | .tsUpdate b u q r => mutate s b u fun c =>
      match c.ts with
      | none => .error .attribute
      | some _ => .ok { c with ts := some (some (.time q r)) }
  | .newTs b u t => mutate s b u fun c => .ok { c with ts := t.map fun qr => some (.time qr.1 qr.2) }

/-- run a list of operations; final state and the trace of outcome tokens -/
def run (s : Spec α) : List (Op α) → Spec α × List Outcome
  | [] => (s, [])
  | op :: ops => ((run (step s op).1 ops).1, (step s op).2 :: (run (step s op).1 ops).2)

/-- The discipline under which the store *is* this value map: an object is changed **in place**
(`position[i] = x`, `velocity[i] = x`, `time_stamp.update(..)`) only through a branch that was
extracted and not yet inserted.  (Re-binding a field of a held unit to a new object is always
harmless.)  After its insertion a branch shares its objects with the global state, by construction
of the code; the property, and this specification, speak of the time before. -/
def Disciplined (s : Spec α) (op : Op α) : Prop :=
  match op.inPlace with
  | some b => s.held[b]?.map (·.2) ≠ some false
  | none => True

instance (s : Spec α) (op : Op α) : Decidable (Disciplined s op) := by
  unfold Disciplined; split <;> infer_instance

/-- the discipline along a whole history -/
def DisciplinedRun (s : Spec α) : List (Op α) → Prop
  | [] => True
  | op :: ops => Disciplined s op ∧ DisciplinedRun (step s op).1 ops

end Spec

/-! ### the abstraction map -/

def absNode {α : Type} (h : Heap α) (n : PNode α) : Spec.Node α := ⟨h.get? n.pos, n.charge, n.weight⟩

/-- the global state read through the heap -/
def absG {α : Type} (g : Global α) (h : Heap α) : Spec.Global α :=
  ⟨g.lift.levels, g.lift.perRoot,
   g.roots.map (fun R => (absNode h R.node, R.children.map (absNode h))),
   g.lift.dict.map (fun e => (e.1, h.get? e.2.1, h.get? e.2.2))⟩

/-- **The abstraction map**: every reference is read through the heap.  Heap addresses, the
allocation order, unreachable objects (e.g. the copies made by an extraction that then raised)
and the two sets of lifted identifiers (which mirror the dictionary) have no image in `Spec`. -/
def abs {α : Type} (s : Sess α) : Spec α :=
  ⟨absG s.g s.h, s.live.map fun L => (readBranch s.h L.b, L.iso)⟩

end JF.Store
