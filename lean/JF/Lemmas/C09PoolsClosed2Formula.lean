import JF.Gen.Pools
/-!
E46 / C09, last clause — (d): the demand bound of the FACTOR taggers as a CLOSED FORMULA in `nRoots` / `nPer`, proved once.

`demandBound` (E40) computes the bound of a `FactorTypeMapInStateTagger` on composite objects (`nPer ≠ 1`) by brute force: the maximum of
the yield over ALL one-chain extracted states (`demandMax`: `1 + nRoots · nPer` states, each with a `set(...)` of up to
`(nRoots − 1) · k` in-states) — minutes in the kernel for the 81 dipoles of `hard_disk_dipoles.ini`.  For a tagger that is asked in
leaf mode only (`sel = 0`) C10's specification of the factor maps gives the bound in closed form:
* inter-object factor type (some line of the type reaches into the second composite object): `(nRoots − 1) · maxEntries`,
* intra-object factor type: `maxEntries`,
where `maxEntries` = the largest number of lines of the type that contain one point-mass index (counted per occurrence).
`demandBoundF` uses the formula where it applies and `demandBound` elsewhere; `demandBound_le_F`, `shortfalls_nil_of_F`:
`shortfallsF pc = [] → shortfalls pc = []`.  The formula side is cheap for the kernel (`instantiate` reads `nPer` only).
-/
namespace JF.C09Pools
open JF JF.Act JF.CellTaggers JF.FactorMaps
open JF.CW2 (Branch leafIds)

/-- the largest number of lines of type `ty` that contain one point-mass index `j < nPer` (per occurrence) -/
def maxEntries (nPer : Nat) (lines : List Line) (ty : String) : Nat :=
  ((List.range nPer).map fun j => (entries j (linesOf lines ty)).length).foldl max 0

/-- some line of the type reaches into the second composite object (`C10.InterType`, as a Boolean) -/
def interB (nPer : Nat) (lines : List Line) (ty : String) : Bool :=
  (linesOf lines ty).any fun S => S.any fun t => decide (nPer ≤ t)

/-- the type occurs and all its lines stay within the first composite object (`C10.IntraType`, as a Boolean) -/
def intraB (nPer : Nat) (lines : List Line) (ty : String) : Bool :=
  !(linesOf lines ty).isEmpty && (linesOf lines ty).all fun S => S.all fun t => decide (t < nPer)

theorem interB_spec {s : Setting} {lines : List Line} {ty : String} (h : interB s.nPer lines ty = true) :
    C10.InterType s lines ty := by
  unfold interB at h
  simp only [List.any_eq_true, decide_eq_true_eq] at h
  obtain ⟨S, hS, t, ht, htn⟩ := h
  exact ⟨S, hS, t, ht, htn⟩

theorem intraB_spec {s : Setting} {lines : List Line} {ty : String} (h : intraB s.nPer lines ty = true) :
    C10.IntraType s lines ty := by
  unfold intraB at h
  simp only [Bool.and_eq_true, Bool.not_eq_true', List.all_eq_true, decide_eq_true_eq] at h
  refine ⟨?_, fun S hS t ht => h.2 S hS t ht⟩
  intro e
  rw [e] at h
  simp at h

theorem foldl_max_le : ∀ (l : List Nat) (a B : Nat), a ≤ B → (∀ x ∈ l, x ≤ B) → l.foldl max a ≤ B
  | [], _, _, ha, _ => ha
  | y :: ys, a, B, ha, h => by
    rw [List.foldl_cons]
    exact foldl_max_le ys _ B (Nat.max_le.mpr ⟨ha, h y (by simp)⟩) (fun x hx => h x (by simp [hx]))

theorem entries_le_max {nPer j : Nat} (hj : j < nPer) (lines : List Line) (ty : String) :
    (entries j (linesOf lines ty)).length ≤ maxEntries nPer lines ty :=
  le_foldl_max _ 0 _ (Or.inl (List.mem_map.mpr ⟨j, List.mem_range.mpr hj, rfl⟩))

/-- the extracted states a leaf-mode tagger is asked on: none, or one point mass -/
theorem mem_oneChainBranches_zero {nRoots nPer : Nat} {bs : List Branch} (h : bs ∈ oneChainBranches 0 nRoots nPer) :
    bs = [] ∨ ∃ i j, i < nRoots ∧ j < nPer ∧ bs = [⟨i, [j]⟩] := by
  unfold oneChainBranches at h
  rcases List.mem_cons.mp h with h | h
  · exact Or.inl h
  · right
    obtain ⟨i, hi, h⟩ := List.mem_flatMap.mp h
    simp only [beq_self_eq_true, if_true, List.nil_append] at h
    have : ((0 : Nat) == 1) = false := rfl
    simp only [this, Bool.false_eq_true, if_false] at h
    obtain ⟨j, hj, rfl⟩ := List.mem_map.mp h
    exact ⟨i, j, List.mem_range.mp hi, List.mem_range.mp hj, rfl⟩

/-- **the parametric lemma**: for a factor tagger asked in leaf mode only, on composite objects (`nPer ≠ 1`), with the factor maps
`fs` of an accepted factor file `lines`: if every point mass's factor map yields at most `B` in-states, the demand over ALL one-chain
states is at most `B` -/
theorem demandMax_leaf_le_of (s : Setting) (fs : Factors) (ty : String) (B : Nat)
    (hB : ∀ i j, i < s.nRoots → j < s.nPer → perLeaf s fs ty [i, j] ≤ B) :
    demandMax 0 s.nRoots s.nPer fs ty .factorTypeMap ≤ B := by
  unfold demandMax
  refine foldl_max_le _ 0 B (Nat.zero_le _) ?_
  intro x hx
  obtain ⟨bs, hbs, rfl⟩ := List.mem_map.mp hx
  rcases mem_oneChainBranches_zero hbs with rfl | ⟨i, j, hi, hj, rfl⟩
  · simp [yieldB, taggerYield, yieldAll, dedupe]
  · have hleaf : ([⟨i, [j]⟩] : List Branch).flatMap leafIds = [[i, j]] := by simp [leafIds]
    simp only [yieldB, hleaf]
    cases hy : taggerYield ⟨s.nRoots, s.nPer⟩ fs ty [[i, j]] with
    | error e => simp
    | ok l =>
      simp only [List.length_map]
      have := factor_demand_le_sum ⟨s.nRoots, s.nPer⟩ fs ty [[i, j]] l hy
      simp only [List.map_cons, List.map_nil, List.sum_cons, List.sum_nil, Nat.add_zero] at this
      exact Nat.le_trans this (hB i j hi hj)

/-- **closed formula, inter-object factor type**: `(nRoots − 1) · maxEntries` -/
theorem demandMax_leaf_inter (s : Setting) (lines : List Line) (fs : Factors) (ty : String)
    (h : instantiate s lines [] = .ok fs) (hinter : C10.InterType s lines ty) (hn : s.nPer ≠ 1) :
    demandMax 0 s.nRoots s.nPer fs ty .factorTypeMap ≤ (s.nRoots - 1) * maxEntries s.nPer lines ty := by
  refine demandMax_leaf_le_of s fs ty _ (fun i j hi hj => ?_)
  rw [factor_demand_inter s lines fs ty i j h hinter hn hi hj]
  exact Nat.mul_le_mul_left _ (entries_le_max hj lines ty)

/-- **closed formula, intra-object factor type**: `maxEntries` -/
theorem demandMax_leaf_intra (s : Setting) (lines : List Line) (fs : Factors) (ty : String)
    (h : instantiate s lines [] = .ok fs) (hintra : C10.IntraType s lines ty) :
    demandMax 0 s.nRoots s.nPer fs ty .factorTypeMap ≤ maxEntries s.nPer lines ty := by
  refine demandMax_leaf_le_of s fs ty _ (fun i j hi hj => ?_)
  rw [factor_demand_intra s lines fs ty i j h hintra hi hj]
  exact entries_le_max hj lines ty

/-- the formula for a leaf-mode factor tagger, if it applies (`none`: fall back on the brute-force bound) -/
def leafFormula (pc : PoolCfg) (T : TaggerIdx) : Option Nat :=
  match instantiate ⟨pc.nRoots, pc.nPer⟩ pc.lines [] with
  | .ok _ =>
    if interB pc.nPer pc.lines (pc.ftypeOf T) then some ((pc.nRoots - 1) * maxEntries pc.nPer pc.lines (pc.ftypeOf T))
    else if intraB pc.nPer pc.lines (pc.ftypeOf T) then some (maxEntries pc.nPer pc.lines (pc.ftypeOf T))
    else none
  | .error _ => none

/-- **the demand bound with the closed formula** for leaf-mode factor taggers on composite objects; `demandBound` otherwise -/
def demandBoundF (pc : PoolCfg) (T : TaggerIdx) : Nat :=
  if (pc.w.tagger T).cls == .factorTypeMap && pc.nPer != 1 && pc.selOf T == 0 then
    match leafFormula pc T with
    | some b => b
    | none => demandBound pc T
  else demandBound pc T

theorem demandBound_le_F (pc : PoolCfg) (T : TaggerIdx) : demandBound pc T ≤ demandBoundF pc T := by
  unfold demandBoundF
  split
  · next hc =>
    simp only [Bool.and_eq_true, beq_iff_eq, bne_iff_ne, ne_eq] at hc
    obtain ⟨⟨hcls, hn⟩, hsel⟩ := hc
    cases hf : leafFormula pc T with
    | none => exact Nat.le_refl _
    | some b =>
      simp only
      have hdb : demandBound pc T = demandMax 0 pc.nRoots pc.nPer pc.fs (pc.ftypeOf T) .factorTypeMap := by
        unfold demandBound
        rw [hcls]
        have : (pc.nPer == 1) = false := by simpa using hn
        simp only [this, Bool.false_eq_true, if_false, hsel]
      rw [hdb]
      unfold leafFormula at hf
      cases hi : instantiate ⟨pc.nRoots, pc.nPer⟩ pc.lines [] with
      | error e => rw [hi] at hf; cases hf
      | ok fs =>
        rw [hi] at hf
        have hfs : pc.fs = fs := by unfold PoolCfg.fs; rw [hi]
        rw [hfs]
        simp only at hf
        split at hf
        · next hint =>
          cases hf
          exact demandMax_leaf_inter ⟨pc.nRoots, pc.nPer⟩ pc.lines fs _ hi (interB_spec (s := ⟨pc.nRoots, pc.nPer⟩) hint) hn
        · split at hf
          · next hint =>
            cases hf
            exact demandMax_leaf_intra ⟨pc.nRoots, pc.nPer⟩ pc.lines fs _ hi (intraB_spec (s := ⟨pc.nRoots, pc.nPer⟩) hint)
          · cases hf
  · exact Nat.le_refl _

/-- the taggers whose shipped pool is smaller than the formula bound -/
def shortfallsF (pc : PoolCfg) : List (TaggerIdx × Nat × Nat) :=
  (List.range pc.w.n).filterMap fun T =>
    if (pc.w.tagger T).pool < demandBoundF pc T then some (T, (pc.w.tagger T).pool, demandBoundF pc T) else none

/-- **the cheap obligation implies the generated one** -/
theorem shortfalls_nil_of_F {pc : PoolCfg} (h : shortfallsF pc = []) : shortfalls pc = [] := by
  unfold shortfalls
  rw [List.filterMap_eq_nil_iff]
  intro T hT
  have hF : ¬ (pc.w.tagger T).pool < demandBoundF pc T := by
    intro hlt
    have : (T, (pc.w.tagger T).pool, demandBoundF pc T) ∈ shortfallsF pc := by
      unfold shortfallsF
      refine List.mem_filterMap.mpr ⟨T, hT, ?_⟩
      simp [hlt]
    rw [h] at this; cases this
  have := demandBound_le_F pc T
  rw [if_neg (by omega)]

end JF.C09Pools
