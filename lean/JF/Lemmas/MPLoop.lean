import JF.Lemmas.MPLocal
/-!
# C20 helper lemmas 2: the receive loop — invariant, variant, no error under a legitimate adversary
-/
namespace JF.MP
set_option linter.unusedSimpArgs false

theorem upd_apply (s : St) (h k : Nat) (x : HS) : upd s h x k = if k = h then x else s k := rfl

theorem upd_upd_same (s : St) (h : Nat) (x y : HS) : upd (upd s h x) h y = upd s h y := by
  funext k; simp only [upd_apply]; split <;> rfl

theorem upd_comm (s : St) {h p : Nat} (x y : HS) (hp : p ≠ h) :
    upd (upd s h x) p y = upd (upd s p y) h x := by
  funext k; simp only [upd_apply]; split <;> split <;> simp_all

/-! ### weighted sums over the handlers of the leg -/

def wsum (l : List Nat) (f : Nat → Nat) : Nat := (l.map f).sum

theorem wsum_congr {l : List Nat} {f f' : Nat → Nat} (h : ∀ k ∈ l, f' k = f k) : wsum l f' = wsum l f := by
  induction l with
  | nil => rfl
  | cons a l ih =>
    simp only [wsum, List.map_cons, List.sum_cons] at *
    rw [h a (by simp), ih (fun k hk => h k (by simp [hk]))]

theorem wsum_upd {l : List Nat} {f f' : Nat → Nat} {h : Nat} (hn : l.Nodup) (hm : h ∈ l)
    (hf : ∀ k ∈ l, k ≠ h → f' k = f k) : wsum l f' + f h = wsum l f + f' h := by
  induction l with
  | nil => simp at hm
  | cons a l ih =>
    rw [List.nodup_cons] at hn
    simp only [wsum, List.map_cons, List.sum_cons] at *
    by_cases ha : a = h
    · subst ha
      have : (l.map f').sum = (l.map f).sum := by
        have := wsum_congr (l := l) (f := f) (f' := f') (fun k hk => hf k (by simp [hk]) (by
          intro e; subst e; exact hn.1 hk))
        simpa [wsum] using this
      omega
    · have hm' : h ∈ l := by
        rcases List.mem_cons.1 hm with e | e
        · exact absurd e.symm ha
        · exact e
      have := ih hn.2 hm' (fun k hk hkh => hf k (by simp [hk]) hkh)
      have h2 := hf a (by simp) ha
      omega

theorem wsum_const_one {l : List Nat} {f : Nat → Nat} (h : ∀ k ∈ l, f k = 1) : wsum l f = l.length := by
  induction l with
  | nil => rfl
  | cons a l ih =>
    simp only [wsum, List.map_cons, List.sum_cons, List.length_cons] at *
    rw [h a (by simp), ih (fun k hk => h k (by simp [hk]))]; omega

theorem wsum_eq_zero {l : List Nat} {f : Nat → Nat} (h : wsum l f = 0) : ∀ k ∈ l, f k = 0 := by
  induction l with
  | nil => simp
  | cons a l ih =>
    simp only [wsum, List.map_cons, List.sum_cons] at *
    intro k hk
    rcases List.mem_cons.1 hk with e | e
    · subst e; omega
    · exact ih (by omega) k e

theorem wsum_pos {l : List Nat} {f : Nat → Nat} (h : 0 < wsum l f) : ∃ k ∈ l, 0 < f k := by
  induction l with
  | nil => simp [wsum] at h
  | cons a l ih =>
    simp only [wsum, List.map_cons, List.sum_cons] at *
    by_cases ha : 0 < f a
    · exact ⟨a, by simp, ha⟩
    · obtain ⟨k, hk, hk'⟩ := ih (by omega)
      exact ⟨k, by simp [hk], hk'⟩

theorem wsum_le {l : List Nat} {f g : Nat → Nat} (h : ∀ k ∈ l, f k ≤ g k) : wsum l f ≤ wsum l g := by
  induction l with
  | nil => simp [wsum]
  | cons a l ih =>
    simp only [wsum, List.map_cons, List.sum_cons] at *
    have := h a (by simp)
    have := ih (fun k hk => h k (by simp [hk]))
    omega

theorem wsum_const {l : List Nat} {f : Nat → Nat} {c : Nat} (h : ∀ k ∈ l, f k = c) : wsum l f = c * l.length := by
  induction l with
  | nil => simp [wsum]
  | cons a l ih =>
    simp only [wsum, List.map_cons, List.sum_cons, List.length_cons] at *
    rw [h a (by simp), ih (fun k hk => h k (by simp [hk])), Nat.mul_add]; omega

/-- indicator of `event_time_started` -/
def tsInd (s : St) (h : Nat) : Nat := if (s h).stage = .timeStarted then 1 else 0

/-- number of handlers of the leg whose candidate time is still to come -/
def tcount (created : List Nat) (s : St) : Nat := wsum created (tsInd s)

/-- weight of a handler in the variant: objects it will still send into its pipe during the receive loop, at most -/
def wt (L : Loop) (h : Nat) : Nat :=
  match (L.st h).stage with
  | .timeStarted => 2
  | .outStarted => 1
  | .suspended => if h ∈ L.deque then 1 else 0
  | .idle => 0

/-- **the variant of the receive loop** -/
def mu (created : List Nat) (L : Loop) : Nat := wsum created (wt L)

/-- invariant of the receive loop of leg `n` over the handlers `created`; `s0` is the state the loop started from -/
structure LInv (n : Nat) (created : List Nat) (s0 : St) (L : Loop) : Prop where
  nodup : created.Nodup
  coh : ∀ h, (L.st h).coh = true
  tag : ∀ h ∈ created, (L.st h).tag = n
  frame : ∀ h, h ∉ created → L.st h = s0 h
  dqNodup : L.deque.Nodup
  dq : ∀ p ∈ L.deque, p ∈ created ∧ (L.st p).stage = .suspended
  cnt : L.received + tcount created L.st = created.length
  pushNodup : L.recvd.Nodup
  push1 : ∀ p ∈ L.recvd, p.2 = n ∧ p.1 ∈ created ∧ (L.st p.1).stage ≠ .timeStarted
  push2 : ∀ h ∈ created, (L.st h).stage ≠ .timeStarted → (h, n) ∈ L.recvd
  stor : ∀ h ∈ created, (L.st h).stage = .idle → (L.st h).stored ≠ none

/-- stages only move forward along `suspended → out_state_started` for handlers that are not being received -/
def StageMono (s s' : St) (k : Nat) : Prop :=
  (s' k).stage = (s k).stage ∨ ((s k).stage = .suspended ∧ (s' k).stage = .outStarted)

theorem LInv.seen {n : Nat} {created : List Nat} {s0 : St} {L : Loop} (h : LInv n created s0 L) (x : List (List Stage)) :
    LInv n created s0 { L with seen := x } :=
  ⟨h.nodup, h.coh, h.tag, h.frame, h.dqNodup, h.dq, h.cnt, h.pushNodup, h.push1, h.push2, h.stor⟩

theorem mu_seen (created : List Nat) (L : Loop) (x : List (List Stage)) : mu created { L with seen := x } = mu created L := rfl

/-! ### step B: `startNext` -/

theorem startNext_ok {n : Nat} {created : List Nat} {s0 : St} {L : Loop} (hI : LInv n created s0 L) :
    ∃ L', startNext L = .ok L' ∧ LInv n created s0 L' ∧ mu created L' = mu created L ∧
      L'.received = L.received ∧ (∀ k, StageMono L.st L'.st k) := by
  rcases hd : L.deque with _ | ⟨p, ps⟩
  · exact ⟨L, by simp [startNext, hd], hI, rfl, rfl, fun k => Or.inl rfl⟩
  · have hp : p ∈ L.deque := by simp [hd]
    obtain ⟨hpc, hps⟩ := hI.dq p hp
    obtain ⟨y, hy, hys, hyc, hyt, hyst⟩ := startOut_ok (L.st p) (hI.coh p) hps
    have hdn := hI.dqNodup
    rw [hd, List.nodup_cons] at hdn
    refine ⟨{ L with st := upd L.st p y, deque := ps, pre := L.pre ++ [p] }, by simp [startNext, hd, hy], ?_, ?_, rfl, ?_⟩
    · refine ⟨hI.nodup, ?_, ?_, ?_, hdn.2, ?_, ?_, hI.pushNodup, ?_, ?_, ?_⟩
      · intro k; simp only [upd_apply]; split
        · exact hyc
        · exact hI.coh k
      · intro k hk; simp only [upd_apply]; split
        · rename_i e; subst e; rw [hyt]; exact hI.tag _ hk
        · exact hI.tag k hk
      · intro k hk; simp only [upd_apply]; split
        · rename_i e; subst e; exact absurd hpc hk
        · exact hI.frame k hk
      · intro q hq
        have hq' : q ∈ L.deque := by simp [hd, hq]
        have hne : q ≠ p := by intro e; subst e; exact hdn.1 hq
        simp only [upd_apply, hne, if_false]
        exact hI.dq q hq'
      · have : tcount created (upd L.st p y) = tcount created L.st := by
          apply wsum_congr
          intro k _
          simp only [tsInd, upd_apply]
          split
          · rename_i e; subst e; simp [hys, hps]
          · rfl
        simp only [this]; exact hI.cnt
      · intro q hq
        obtain ⟨h1, h2, h3⟩ := hI.push1 q hq
        refine ⟨h1, h2, ?_⟩
        simp only [upd_apply]; split
        · simp [hys]
        · exact h3
      · intro k hk hst
        apply hI.push2 k hk
        simp only [upd_apply] at hst
        split at hst
        · rename_i e; subst e; simp [hps]
        · exact hst
      · intro k hk hst
        simp only [upd_apply] at hst ⊢
        split
        · rename_i e; subst e; simp [hys] at hst
        · rename_i e; simp only [e, if_false] at hst; exact hI.stor k hk hst
    · apply wsum_congr
      intro k _
      simp only [wt, upd_apply]
      by_cases e : k = p
      · subst e; simp [hys, hps, hd]
      · simp only [e, if_false, hd, List.mem_cons, false_or]
    · intro k
      simp only [StageMono, upd_apply]
      split
      · rename_i e; subst e; exact Or.inr ⟨hps, hys⟩
      · exact Or.inl rfl

/-! ### step A: a candidate event time arrives -/

/-- loop variables after the receipt of the candidate time of `h` (before the pre-computation trigger) -/
def Loop.afterTime (L : Loop) (c : Cfg) (h n : Nat) (y : HS) : Loop :=
  { L with st := upd L.st h y,
           deque := if c.outArgs h then L.deque else L.deque ++ [h],
           received := L.received + 1,
           recvd := L.recvd ++ [(h, n)] }

theorem stepTime_ok {n : Nat} {created : List Nat} {s0 : St} {L : Loop} (c : Cfg) (hI : LInv n created s0 L) {h : Nat}
    (hc : h ∈ created) (hs : (L.st h).stage = .timeStarted) :
    ∃ y, (L.st h).recvTime = .ok (n, y) ∧
      LInv n created s0 (L.afterTime c h n y) ∧ mu created (L.afterTime c h n y) + 1 ≤ mu created L ∧
      (L.afterTime c h n y).received = L.received + 1 ∧
      (∀ k, k ≠ h → ((L.afterTime c h n y).st k).stage = (L.st k).stage) := by
  obtain ⟨y, hy, hys, hyc, hyt, hyst⟩ := recvTime_ok (L.st h) (hI.coh h) hs
  rw [hI.tag h hc] at hy hyt
  have hnd : h ∉ L.deque := by
    intro hm; have := (hI.dq h hm).2; rw [hs] at this; cases this
  have hmem : ∀ k, k ≠ h → (k ∈ (if c.outArgs h then L.deque else L.deque ++ [h]) ↔ k ∈ L.deque) := by
    intro k hk; split <;> simp [hk]
  refine ⟨y, hy, ?_, ?_, rfl, ?_⟩
  · unfold Loop.afterTime
    refine ⟨hI.nodup, ?_, ?_, ?_, ?_, ?_, ?_, ?_, ?_, ?_, ?_⟩
    · intro k; simp only [upd_apply]; split
      · exact hyc
      · exact hI.coh k
    · intro k hk; simp only [upd_apply]; split
      · exact hyt
      · exact hI.tag k hk
    · intro k hk; simp only [upd_apply]; split
      · rename_i e; subst e; exact absurd hc hk
      · exact hI.frame k hk
    · show (if c.outArgs h then L.deque else L.deque ++ [h]).Nodup
      split
      · exact hI.dqNodup
      · rw [List.nodup_append]
        refine ⟨hI.dqNodup, by simp, ?_⟩
        intro a ha b hb
        simp at hb; subst hb
        intro e; subst e; exact hnd ha
    · intro p hp
      have hp' : p ∈ L.deque ∨ p = h := by
        revert hp
        show p ∈ (if c.outArgs h then L.deque else L.deque ++ [h]) → _
        split
        · exact fun a => Or.inl a
        · intro a; simpa using a
      simp only [upd_apply]
      rcases hp' with hp' | hp'
      · have hne : p ≠ h := by intro e; subst e; exact hnd hp'
        simp only [hne, if_false]; exact hI.dq p hp'
      · subst hp'; simp [hc, hys]
    · have : tcount created (upd L.st h y) + 1 = tcount created L.st + 0 := by
        have := wsum_upd (f := tsInd L.st) (f' := tsInd (upd L.st h y)) hI.nodup hc (by
          intro k _ hk; simp [tsInd, upd_apply, hk])
        simpa [tsInd, hs, hys, tcount] using this
      have h0 := hI.cnt
      show L.received + 1 + tcount created (upd L.st h y) = created.length
      omega
    · show (L.recvd ++ [(h, n)]).Nodup
      rw [List.nodup_append]
      refine ⟨hI.pushNodup, by simp, ?_⟩
      intro a ha b hb
      simp at hb; subst hb
      intro e; subst e
      exact (hI.push1 _ ha).2.2 hs
    · intro p hp
      have hp' : p ∈ L.recvd ∨ p = (h, n) := by simpa using hp
      rcases hp' with hp' | hp'
      · obtain ⟨h1, h2, h3⟩ := hI.push1 p hp'
        refine ⟨h1, h2, ?_⟩
        simp only [upd_apply]; split
        · simp [hys]
        · exact h3
      · subst hp'; simp [hc, hys]
    · intro k hk hst
      show (k, n) ∈ L.recvd ++ [(h, n)]
      by_cases e : k = h
      · subst e; simp
      · simp only [upd_apply, e, if_false] at hst
        simp [hI.push2 k hk hst]
    · intro k hk hst
      simp only [upd_apply] at hst ⊢
      split
      · rename_i e; subst e; simp [hys] at hst
      · rename_i e; simp only [e, if_false] at hst; exact hI.stor k hk hst
  · have hw := wsum_upd (f := wt L) (f' := wt (L.afterTime c h n y)) hI.nodup hc (by
        intro k _ hk
        simp only [wt, Loop.afterTime, upd_apply, hk, if_false, hmem k hk])
    have h1 : wt L h = 2 := by simp [wt, hs]
    have h2 : wt (L.afterTime c h n y) h ≤ 1 := by
      simp only [wt, Loop.afterTime, upd_same, hys]; split <;> simp
    simp only [mu]
    omega
  · intro k hk; simp [Loop.afterTime, upd_apply, hk]

/-! ### step C: a pre-computed out-state arrives -/

theorem stepOut_ok {n : Nat} {created : List Nat} {s0 : St} {L : Loop} (hI : LInv n created s0 L) {h : Nat}
    (hc : h ∈ created) (hs : (L.st h).stage = .outStarted) :
    ∃ y, ({ L.st h with stage := .idle } : HS).recvOut = .ok y ∧
      let L2 : Loop := { L with st := upd L.st h y }
      LInv n created s0 L2 ∧ mu created L2 + 1 ≤ mu created L ∧ L2.received = L.received ∧
        (∀ k, k ≠ h → (L2.st k).stage = (L.st k).stage) := by
  obtain ⟨y, hy, hys, hyc, hyt, hyst⟩ := recvOut_ok (L.st h) (hI.coh h) hs
  refine ⟨y, hy, ?_, ?_, rfl, ?_⟩
  · have hnd : h ∉ L.deque := by
      intro hm; have := (hI.dq h hm).2; rw [hs] at this; cases this
    refine ⟨hI.nodup, ?_, ?_, ?_, hI.dqNodup, ?_, ?_, hI.pushNodup, ?_, ?_, ?_⟩
    · intro k; simp only [upd_apply]; split
      · exact hyc
      · exact hI.coh k
    · intro k hk; simp only [upd_apply]; split
      · rename_i e; subst e; rw [hyt]; exact hI.tag _ hk
      · exact hI.tag k hk
    · intro k hk; simp only [upd_apply]; split
      · rename_i e; subst e; exact absurd hc hk
      · exact hI.frame k hk
    · intro p hp
      have hne : p ≠ h := by intro e; subst e; exact hnd hp
      simp only [upd_apply, hne, if_false]; exact hI.dq p hp
    · have : tcount created (upd L.st h y) = tcount created L.st := by
        apply wsum_congr
        intro k _
        simp only [tsInd, upd_apply]
        split
        · rename_i e; subst e; simp [hys, hs]
        · rfl
      simp only [this]; exact hI.cnt
    · intro q hq
      obtain ⟨h1, h2, h3⟩ := hI.push1 q hq
      refine ⟨h1, h2, ?_⟩
      simp only [upd_apply]; split
      · simp [hys]
      · exact h3
    · intro k hk hst
      apply hI.push2 k hk
      simp only [upd_apply] at hst
      split at hst
      · rename_i e; subst e; simp [hs]
      · exact hst
    · intro k hk hst
      simp only [upd_apply] at hst ⊢
      split
      · simp [hyst]
      · rename_i e; simp only [e, if_false] at hst; exact hI.stor k hk hst
  · have hw := wsum_upd (f := wt L) (f' := wt { L with st := upd L.st h y }) hI.nodup hc (by
        intro k _ hk
        simp only [wt, upd_apply, hk, if_false])
    have h1 : wt L h = 1 := by simp [wt, hs]
    have h2 : wt { L with st := upd L.st h y } h = 0 := by simp [wt, hys]
    simp only [mu]
    omega
  · intro k hk; simp [upd_apply, hk]

/-- in the `out_state_started` branch the source starts the next pre-computation *between* `state = idle` and
`recv()`; the two concern different handlers and commute -/
theorem procPipe_out {n : Nat} {created : List Nat} {s0 : St} {L : Loop} (c : Cfg) (total : Nat)
    (hI : LInv n created s0 L) {h : Nat} (hs : (L.st h).stage = .outStarted) {y : HS}
    (hy : ({ L.st h with stage := .idle } : HS).recvOut = .ok y) :
    procPipe c total L h = startNext { L with st := upd L.st h y } := by
  rcases hd : L.deque with _ | ⟨p, ps⟩
  · simp [procPipe, hs, startNext, hd, hy, upd_upd_same]
  · have hp : p ∈ L.deque := by simp [hd]
    obtain ⟨-, hps⟩ := hI.dq p hp
    have hne : p ≠ h := by intro e; subst e; rw [hs] at hps; cases hps
    obtain ⟨yp, hyp, -⟩ := startOut_ok (L.st p) (hI.coh p) hps
    have hne' : h ≠ p := fun e => hne e.symm
    simp [procPipe, hs, startNext, hd, upd_other _ _ hne, upd_other _ _ hne', hyp, hy]
    rw [upd_comm _ _ _ hne, upd_upd_same, upd_comm _ _ _ hne']

/-! ### one pipe, one `wait`, the whole loop -/

theorem procPipe_ok {n : Nat} {created : List Nat} {s0 : St} {L : Loop} (c : Cfg) (hI : LInv n created s0 L) {h : Nat}
    (hc : h ∈ created) (hf : (L.st h).stage.inFlight = true) :
    ∃ L', procPipe c created.length L h = .ok L' ∧ LInv n created s0 L' ∧ mu created L' + 1 ≤ mu created L ∧
      L.received ≤ L'.received ∧ (∀ k, k ≠ h → StageMono L.st L'.st k) := by
  cases hs : (L.st h).stage with
  | idle => simp [hs, Stage.inFlight] at hf
  | suspended => simp [hs, Stage.inFlight] at hf
  | timeStarted =>
    obtain ⟨y, hy, hI1, hm1, hr1, hst1⟩ := stepTime_ok c hI hc hs
    have hpp : procPipe c created.length L h =
        if 0 < created.length - (L.afterTime c h n y).received ∧
            created.length - (L.afterTime c h n y).received < c.cores - 1 ∧ (L.afterTime c h n y).deque ≠ []
        then startNext (L.afterTime c h n y) else .ok (L.afterTime c h n y) := by
      simp only [procPipe, hs, hy]; rfl
    rw [hpp]
    by_cases htr : 0 < created.length - (L.afterTime c h n y).received ∧
            created.length - (L.afterTime c h n y).received < c.cores - 1 ∧ (L.afterTime c h n y).deque ≠ []
    · rw [if_pos htr]
      obtain ⟨L', hL', hI', hm', hr', hst'⟩ := startNext_ok hI1
      refine ⟨L', hL', hI', by omega, by omega, ?_⟩
      intro k hk
      have h1 := hst1 k hk
      rcases hst' k with h2 | h2
      · exact Or.inl (by rw [h2, h1])
      · exact Or.inr ⟨by rw [← h1]; exact h2.1, h2.2⟩
    · rw [if_neg htr]
      exact ⟨_, rfl, hI1, hm1, by omega, fun k hk => Or.inl (hst1 k hk)⟩
  | outStarted =>
    obtain ⟨y, hy, hI2, hm2, hr2, hst2⟩ := stepOut_ok hI hc hs
    rw [procPipe_out c created.length hI hs hy]
    obtain ⟨L', hL', hI', hm', hr', hst'⟩ := startNext_ok hI2
    refine ⟨L', hL', hI', by omega, by simp only [hr', hr2]; omega, ?_⟩
    intro k hk
    have h1 := hst2 k hk
    rcases hst' k with h2 | h2
    · exact Or.inl (by rw [h2, h1])
    · exact Or.inr ⟨by rw [← h1]; exact h2.1, h2.2⟩

theorem StageMono.inFlight {s s' : St} {k : Nat} (h : StageMono s s' k) (hf : (s k).stage.inFlight = true) :
    (s' k).stage.inFlight = true := by
  rcases h with h | h
  · rw [h]; exact hf
  · rw [h.2]; rfl

theorem procWait_ok {n : Nat} {created : List Nat} {s0 : St} (c : Cfg) (w : List Nat) :
    ∀ {L : Loop}, LInv n created s0 L → w.Nodup → (∀ h ∈ w, h ∈ created ∧ (L.st h).stage.inFlight = true) →
    ∃ L', procWait c created.length L w = .ok L' ∧ LInv n created s0 L' ∧ mu created L' + w.length ≤ mu created L ∧
      L.received ≤ L'.received := by
  induction w with
  | nil => intro L hI _ _; exact ⟨L, rfl, hI, by simp, Nat.le_refl _⟩
  | cons h hs ih =>
    intro L hI hn hw
    rw [List.nodup_cons] at hn
    obtain ⟨hc, hf⟩ := hw h (by simp)
    obtain ⟨L1, hL1, hI1, hm1, hr1, hst1⟩ := procPipe_ok c hI hc hf
    obtain ⟨L', hL', hI', hm', hr'⟩ := ih hI1 hn.2 (by
      intro k hk
      obtain ⟨hkc, hkf⟩ := hw k (by simp [hk])
      have hne : k ≠ h := by intro e; subst e; exact hn.1 hk
      exact ⟨hkc, (hst1 k hne).inFlight hkf⟩)
    refine ⟨L', by simp [procWait, hL1, hL'], hI', by simp only [List.length_cons]; omega, by omega⟩

theorem waitOK_iff (created : List Nat) (s : St) (w : List Nat) :
    waitOK created s w = true ↔ w ≠ [] ∧ w.Nodup ∧ ∀ h ∈ w, h ∈ created ∧ (s h).stage.inFlight = true := by
  simp [waitOK, List.isEmpty_iff, and_assoc]

/-- while the loop condition holds some pipe of the leg has something in flight: `connection.wait` cannot block
forever -/
theorem LInv.inflight_of_lt {n : Nat} {created : List Nat} {s0 : St} {L : Loop} (hI : LInv n created s0 L)
    (hlt : L.received < created.length) : (created.any fun h => (L.st h).stage.inFlight) = true := by
  have h0 := hI.cnt
  have : 0 < tcount created L.st := by omega
  obtain ⟨k, hk, hk'⟩ := wsum_pos this
  rw [List.any_eq_true]
  refine ⟨k, hk, ?_⟩
  simp only [tsInd] at hk'
  split at hk'
  · rename_i e; rw [e]; rfl
  · omega

/-- a loop that still runs has at least weight 2 left -/
theorem LInv.mu_pos {n : Nat} {created : List Nat} {s0 : St} {L : Loop} (hI : LInv n created s0 L)
    (hlt : L.received < created.length) : 2 ≤ mu created L := by
  have h0 := hI.cnt
  have h1 : tcount created L.st ≤ mu created L := by
    apply wsum_le
    intro k _
    simp only [tsInd, wt]
    split
    · rename_i e; simp [e]
    · omega
  have : 0 < tcount created L.st := by omega
  obtain ⟨k, hk, hk'⟩ := wsum_pos this
  have hks : (L.st k).stage = .timeStarted := by
    simp only [tsInd] at hk'
    split at hk'
    · assumption
    · omega
  -- weight of k is 2
  have := wsum_upd (f := wt L) (f' := fun j => if j = k then 0 else wt L j) hI.nodup hk (by
    intro j _ hj; simp [hj])
  simp only [if_true] at this
  have hwk : wt L k = 2 := by simp [wt, hks]
  simp only [mu]
  omega

/-- **the receive loop under a legitimate adversary**: it never raises and never deadlocks; it either runs out of
`wait` results (`starved`, only possible if fewer than `mu` were supplied) or ends with the invariant, all candidate
times received, having consumed at most `mu` (≤ `2 * len(created)`) `wait` results -/
theorem recvLoop_ok {n : Nat} {created : List Nat} {s0 : St} (c : Cfg) (ws : List (List Nat)) :
    ∀ {L : Loop}, LInv n created s0 L → legit c created L ws = true →
      (recvLoop c created L ws = .error .starved ∧ ws.length < mu created L) ∨
      ∃ L' rest, recvLoop c created L ws = .ok (L', rest) ∧ LInv n created s0 L' ∧ created.length ≤ L'.received ∧
        rest.length ≤ ws.length ∧ ws.length - rest.length ≤ mu created L := by
  induction ws with
  | nil =>
    intro L hI _
    by_cases hlt : L.received < created.length
    · left
      have := hI.mu_pos hlt
      exact ⟨by simp [recvLoop, hlt, hI.inflight_of_lt hlt], by simp; omega⟩
    · right
      exact ⟨L, [], by simp [recvLoop, hlt], hI, by omega, by simp, by simp⟩
  | cons w ws ih =>
    intro L hI hl
    by_cases hlt : L.received < created.length
    · simp only [legit, hlt, if_true, Bool.and_eq_true] at hl
      obtain ⟨hw, hl'⟩ := hl
      rw [waitOK_iff] at hw
      obtain ⟨hne, hnd, hall⟩ := hw
      obtain ⟨L1, hL1, hI1, hm1, hr1⟩ :=
        procWait_ok c w (hI.seen ((w.map fun h => (L.st h).stage) :: L.seen)) hnd hall
      rw [hL1] at hl'
      simp only at hl'
      have hwl : 1 ≤ w.length := by
        cases w with
        | nil => exact absurd rfl hne
        | cons _ _ => simp
      have hm1' : mu created L1 + w.length ≤ mu created L := hm1
      have hr1' : L.received ≤ L1.received := hr1
      have hrec : recvLoop c created L (w :: ws) = recvLoop c created L1 ws := by
        simp [recvLoop, hlt, hI.inflight_of_lt hlt, hL1]
      rcases ih hI1 hl' with ⟨h1, h2⟩ | ⟨L', rest, h1, h2, h3, h4, h5⟩
      · left; exact ⟨by rw [hrec]; exact h1, by simp only [List.length_cons]; omega⟩
      · right
        exact ⟨L', rest, by rw [hrec]; exact h1, h2, h3, by simp only [List.length_cons]; omega,
          by simp only [List.length_cons]; omega⟩
    · right
      exact ⟨L, w :: ws, by simp [recvLoop, hlt], hI, by omega, by simp, by simp⟩

end JF.MP
