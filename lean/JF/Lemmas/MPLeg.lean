import JF.Lemmas.MPLoop
/-!
# C20 helper lemmas 3: one whole leg — sending, receive loop, commit, trash loop — preserves the boundary invariant
-/
namespace JF.MP
set_option linter.unusedSimpArgs false

/-- boundary invariant of the whole system; `running` = `_running_event_handlers` of the activator -/
def BInv (running : Nat → Bool) (s : St) : Prop := ∀ h, (s h).boundary (running h) = true

theorem boundary_iff (x : HS) (r : Bool) : x.boundary r = true ↔
    x.coh = true ∧ x.stage ≠ .timeStarted ∧ (r = true → x.stage = .idle → x.stored ≠ none) ∧
      (r = false → x.stage = .idle ∧ x.stored = none) := by
  cases r
  · simp [HS.boundary, and_assoc]
  · simp only [HS.boundary, if_true, Bool.and_eq_true, decide_eq_true_eq, and_assoc, true_implies]
    constructor
    · rintro ⟨a, b, c⟩; exact ⟨a, b, c, by simp⟩
    · rintro ⟨a, b, c, -⟩; exact ⟨a, b, c⟩

/-! ### "Send in-states" -/

theorem sendAll_ok (n : Nat) (created : List Nat) :
    ∀ {s : St}, created.Nodup →
      (∀ h ∈ created, (s h).coh = true ∧ (s h).stage = .idle ∧ (s h).stored = none) →
      ∃ s1, sendAll n s created = .ok s1 ∧
        (∀ h ∈ created, (s1 h).stage = .timeStarted ∧ (s1 h).coh = true ∧ (s1 h).tag = n ∧ (s1 h).stored = none) ∧
        (∀ h, h ∉ created → s1 h = s h) := by
  induction created with
  | nil => intro s _ _; exact ⟨s, rfl, by simp, fun _ _ => rfl⟩
  | cons a l ih =>
    intro s hn hp
    rw [List.nodup_cons] at hn
    obtain ⟨h1, h2, h3⟩ := hp a (by simp)
    obtain ⟨y, hy, hys, hyc, hyt, hyst⟩ := send_ok (s a) n h1 h2 h3
    obtain ⟨s1, hs1, hA, hB⟩ := ih (s := upd s a y) hn.2 (by
      intro h hh
      have hne : h ≠ a := by intro e; subst e; exact hn.1 hh
      rw [upd_other _ _ hne]
      exact hp h (by simp [hh]))
    refine ⟨s1, by simp [sendAll, hy, hs1], ?_, ?_⟩
    · intro h hh
      rcases List.mem_cons.1 hh with e | e
      · subst e
        rw [hB h hn.1, upd_same]
        exact ⟨hys, hyc, hyt, hyst⟩
      · exact hA h e
    · intro h hh
      have h1 : h ≠ a := by intro e; subst e; exact hh (by simp)
      have h2 : h ∉ l := by intro e; exact hh (by simp [e])
      rw [hB h h2, upd_other _ _ h1]

/-- what holds after the receive loop of leg `n` -/
structure PostLoop (n : Nat) (created : List Nat) (s : St) (L : Loop) : Prop where
  coh : ∀ h, (L.st h).coh = true
  cr : ∀ h ∈ created, (L.st h).stage ≠ .timeStarted ∧ (L.st h).tag = n ∧ ((L.st h).stage = .idle → (L.st h).stored ≠ none)
  frame : ∀ h, h ∉ created → L.st h = s h
  times : ∀ h ∈ created, (h, n) ∈ L.recvd
  timesTag : ∀ p ∈ L.recvd, p.2 = n

theorem nodup_map_pair {l : List Nat} (n : Nat) (h : l.Nodup) : (l.map fun h => (h, n)).Nodup := by
  induction l with
  | nil => simp
  | cons a l ih =>
    rw [List.nodup_cons] at h
    simp only [List.map_cons, List.nodup_cons, List.mem_map, Prod.mk.injEq, and_true, exists_eq_right]
    exact ⟨h.1, ih h.2⟩

theorem lookup_of_mem {n h : Nat} : ∀ (l : List (Nat × Nat)), (∀ p ∈ l, p.2 = n) → (h, n) ∈ l → l.lookup h = some n := by
  intro l
  induction l with
  | nil => intro _ hm; cases hm
  | cons a l ih =>
    intro hp hm
    obtain ⟨a1, a2⟩ := a
    have ha2 : a2 = n := hp (a1, a2) (by simp)
    subst ha2
    by_cases e : h = a1
    · subst e; simp [List.lookup]
    · have hm' : (h, a2) ∈ l := by
        rcases List.mem_cons.1 hm with e' | e'
        · exact absurd (congrArg Prod.fst e') e
        · exact e'
      have : (h == a1) = false := by simpa using e
      rw [List.lookup_cons, this]
      exact ih (fun p hp' => hp p (by simp [hp'])) hm'

/-- after the receive loop every candidate time of the leg is in `received_event_times`: the pushes are exactly the
handlers the activator returned, in that order -/
theorem pushAll_ok {n : Nat} {recvd : List (Nat × Nat)} (htag : ∀ p ∈ recvd, p.2 = n) :
    ∀ (created : List Nat), (∀ h ∈ created, (h, n) ∈ recvd) → pushAll recvd created = .ok (created.map fun h => (h, n)) := by
  intro created
  induction created with
  | nil => intro _; rfl
  | cons a l ih =>
    intro hm
    have h1 : recvd.reverse.lookup a = some n :=
      lookup_of_mem recvd.reverse (fun p hp => htag p (List.mem_reverse.1 hp)) (List.mem_reverse.2 (hm a (by simp)))
    simp [pushAll, h1, ih (fun h hh => hm h (by simp [hh]))]

/-- **first half of a leg** under the boundary invariant, the activator protocol and a legitimate adversary -/
theorem legRecv_ok (c : Cfg) (n : Nat) {running : Nat → Bool} {s : St} {created : List Nat} (waits : List (List Nat))
    (hB : BInv running s) (hn : created.Nodup) (hfresh : ∀ h ∈ created, running h = false)
    (hl : legLegit c n s created waits = true) :
    (legRecv c n s created waits = .error .starved ∧ waits.length < 2 * created.length) ∨
    ∃ L rest, legRecv c n s created waits = .ok (L, created.map (fun h => (h, n)), rest) ∧ PostLoop n created s L ∧
      rest.length ≤ waits.length ∧ waits.length - rest.length ≤ 2 * created.length := by
  obtain ⟨s1, hs1, hA, hF⟩ := sendAll_ok n created (s := s) hn (by
    intro h hh
    have := (boundary_iff _ _).1 (hB h)
    exact ⟨this.1, (this.2.2.2 (hfresh h hh)).1, (this.2.2.2 (hfresh h hh)).2⟩)
  have hI : LInv n created s1 { st := s1 } := by
    refine ⟨hn, ?_, fun h hh => (hA h hh).2.2.1, fun _ _ => rfl, by simp, by simp, ?_, by simp, by simp, ?_, ?_⟩
    · intro h
      by_cases hh : h ∈ created
      · exact (hA h hh).2.1
      · show (s1 h).coh = true
        rw [hF h hh]; exact ((boundary_iff _ _).1 (hB h)).1
    · show 0 + tcount created s1 = created.length
      rw [Nat.zero_add]
      exact wsum_const_one (fun k hk => by simp [tsInd, (hA k hk).1])
    · intro h hh hst; exact absurd (hA h hh).1 hst
    · intro h hh hst
      have : (s1 h).stage = .timeStarted := (hA h hh).1
      have hst' : (s1 h).stage = .idle := hst
      rw [this] at hst'; cases hst'
  have hmu : mu created { st := s1 } = 2 * created.length :=
    wsum_const (fun k hk => by simp [wt, (hA k hk).1])
  have hl' : legit c created { st := s1 } waits = true := by
    simpa [legLegit, hs1] using hl
  rcases recvLoop_ok c waits hI hl' with ⟨h1, h2⟩ | ⟨L, rest, h1, h2, h3, h4, h5⟩
  · left; exact ⟨by simp [legRecv, hs1, h1], by omega⟩
  · right
    have ht : tcount created L.st = 0 := by have := h2.cnt; omega
    have hnt : ∀ h ∈ created, (L.st h).stage ≠ .timeStarted := by
      intro h hh e
      have := wsum_eq_zero ht h hh
      simp [tsInd, e] at this
    have htimes : ∀ h ∈ created, (h, n) ∈ L.recvd := fun h hh => h2.push2 h hh (hnt h hh)
    have htag : ∀ p ∈ L.recvd, p.2 = n := fun p hp => (h2.push1 p hp).1
    refine ⟨L, rest, by simp [legRecv, hs1, h1, pushAll_ok htag created htimes], ?_, h4, by omega⟩
    refine ⟨h2.coh, fun h hh => ⟨hnt h hh, h2.tag h hh, h2.stor h hh⟩, ?_, htimes, htag⟩
    intro h hh; rw [h2.frame h hh]; exact hF h hh

/-! ### commit -/

/-- the handler returned by the scheduler is running (after this leg's activation): its commit block succeeds with
the out-state computed from the in-state the worker holds -/
theorem commitPhase_ok {n : Nat} {running : Nat → Bool} {s : St} {created : List Nat} {L : Loop}
    (hB : BInv running s) (hP : PostLoop n created s L) {chosen : Nat}
    (hrun : running chosen = true ∨ chosen ∈ created) :
    ∃ p y, (L.st chosen).commit = .ok ((L.st chosen).tag, p, y) ∧ y.stage = .idle ∧ y.coh = true ∧
      y.tag = (L.st chosen).tag ∧ y.stored = some (L.st chosen).tag := by
  by_cases hc : chosen ∈ created
  · obtain ⟨h1, -, h3⟩ := hP.cr chosen hc
    exact commit_ok _ (hP.coh chosen) h1 h3
  · have hr : running chosen = true := by
      rcases hrun with h | h
      · exact h
      · exact absurd h hc
    have hb := (boundary_iff _ _).1 (hB chosen)
    rw [hP.frame chosen hc]
    exact commit_ok _ hb.1 hb.2.1 (hb.2.2.1 hr)

/-- state of every handler at commit time -/
theorem atCommit_ok {n : Nat} {running : Nat → Bool} {s : St} {created : List Nat} {L : Loop}
    (hB : BInv running s) (hP : PostLoop n created s L) :
    ∀ h, (L.st h).coh = true ∧ (L.st h).stage ≠ .timeStarted := by
  intro h
  by_cases hc : h ∈ created
  · exact ⟨hP.coh h, (hP.cr h hc).1⟩
  · rw [hP.frame h hc]
    have hb := (boundary_iff _ _).1 (hB h)
    exact ⟨hb.1, hb.2.1⟩

/-! ### trash loop -/

theorem trashAll_ok (tr : List Nat) :
    ∀ {s : St}, (∀ h, (s h).coh = true ∧ (s h).stage ≠ .timeStarted) →
      ∃ s' ds, trashAll s tr = .ok (s', ds) ∧
        ∀ h, (s' h).coh = true ∧ (s' h).stage ≠ .timeStarted ∧ (s' h).tag = (s h).tag ∧
          (h ∈ tr → (s' h).stage = .idle ∧ (s' h).stored = none ∧ (s' h).quiescent = true) ∧
          (h ∉ tr → s' h = s h) := by
  induction tr with
  | nil =>
    intro s hp
    exact ⟨s, [], rfl, fun h => ⟨(hp h).1, (hp h).2, rfl, by simp, fun _ => rfl⟩⟩
  | cons a l ih =>
    intro s hp
    obtain ⟨y, d, hy, hys, hyc, hyt, hyst, hyq⟩ := trash_ok (s a) (hp a).1 (hp a).2
    obtain ⟨s', ds, hs', hA⟩ := ih (s := upd s a y) (by
      intro h
      simp only [upd_apply]; split
      · exact ⟨hyc, by rw [hys]; simp⟩
      · exact hp h)
    refine ⟨s', if d then a :: ds else ds, by simp [trashAll, hy, hs'], ?_⟩
    intro h
    obtain ⟨h1, h2, h3, h4, h5⟩ := hA h
    refine ⟨h1, h2, ?_, ?_, ?_⟩
    · rw [h3]; simp only [upd_apply]; split
      · rename_i e; subst e; exact hyt
      · rfl
    · intro hh
      by_cases hl : h ∈ l
      · exact h4 hl
      · have e : h = a := by
          rcases List.mem_cons.1 hh with e | e
          · exact e
          · exact absurd e hl
        subst e
        rw [h5 hl, upd_same]
        exact ⟨hys, hyst, hyq⟩
    · intro hh
      have hne : h ≠ a := by intro e; subst e; exact hh (by simp)
      have hl : h ∉ l := by intro e; exact hh (by simp [e])
      rw [h5 hl, upd_other _ _ hne]

/-- `_running_event_handlers` after the leg -/
def running' (running : Nat → Bool) (created trash : List Nat) : Nat → Bool :=
  fun h => (running h || decide (h ∈ created)) && !decide (h ∈ trash)

/-- leg of the last `send_event_time` after the leg -/
def last' (last : Nat → Nat) (created : List Nat) (n : Nat) : Nat → Nat :=
  fun h => if h ∈ created then n else last h

/-- **second half of a leg**: commit and trash loop re-establish the boundary invariant -/
theorem legEnd_ok {n : Nat} {running : Nat → Bool} {last : Nat → Nat} {s : St} {created : List Nat} {L : Loop}
    (hB : BInv running s) (hlast : ∀ h, (s h).tag = last h) (hP : PostLoop n created s L) {chosen : Nat}
    (hrun : running chosen = true ∨ chosen ∈ created) {trash : List Nat} (htr : chosen ∈ trash) :
    ∃ p y s3 ds, (L.st chosen).commit = .ok (last' last created n chosen, p, y) ∧
      trashAll (upd L.st chosen y) trash = .ok (s3, ds) ∧
      BInv (running' running created trash) s3 ∧ (∀ h, (s3 h).tag = last' last created n h) ∧
      (∀ h, running' running created trash h = false → (s3 h).quiescent = true) ∧
      (∀ h, (s3 h).stage ≠ .outStarted → (s3 h).quiescent = true) := by
  have htag : ∀ h, (L.st h).tag = last' last created n h := by
    intro h
    simp only [last']
    split
    · rename_i hc; exact (hP.cr h hc).2.1
    · rename_i hc; rw [hP.frame h hc]; exact hlast h
  obtain ⟨p, y, hy, hys, hyc, hyt, hyst⟩ := commitPhase_ok hB hP hrun
  rw [htag chosen] at hy hyt hyst
  have hac := atCommit_ok hB hP
  obtain ⟨s3, ds, hs3, hA⟩ := trashAll_ok trash (s := upd L.st chosen y) (by
    intro h
    simp only [upd_apply]; split
    · exact ⟨hyc, by rw [hys]; simp⟩
    · exact hac h)
  have hq : ∀ h, (s3 h).stage ≠ .outStarted → (s3 h).quiescent = true := by
    intro h hne
    obtain ⟨h1, h2, -⟩ := hA h
    rw [coh_iff] at h1
    obtain ⟨h1, -⟩ := h1
    simp only [HS.quiescent, decide_eq_true_eq]
    cases hst : (s3 h).stage with
    | timeStarted => exact absurd hst h2
    | outStarted => exact absurd hst hne
    | idle => rw [hst] at h1; exact h1
    | suspended => rw [hst] at h1; exact ⟨Or.inr h1.1, h1.2⟩
  refine ⟨p, y, s3, ds, hy, hs3, ?_, ?_, ?_, hq⟩
  · intro h
    obtain ⟨h1, h2, h3, h4, h5⟩ := hA h
    rw [boundary_iff]
    refine ⟨h1, h2, ?_, ?_⟩
    · intro hr hst
      simp only [running', Bool.and_eq_true, Bool.or_eq_true, decide_eq_true_eq, Bool.not_eq_true',
        decide_eq_false_iff_not] at hr
      obtain ⟨hr1, hr2⟩ := hr
      have hne : h ≠ chosen := by intro e; subst e; exact hr2 htr
      rw [h5 hr2, upd_other _ _ hne] at hst ⊢
      by_cases hc : h ∈ created
      · exact (hP.cr h hc).2.2 hst
      · have hr' : running h = true := by
          rcases hr1 with a | a
          · exact a
          · exact absurd a hc
        rw [hP.frame h hc] at hst ⊢
        exact ((boundary_iff _ _).1 (hB h)).2.2.1 hr' hst
    · intro hr
      by_cases ht : h ∈ trash
      · exact ⟨(h4 ht).1, (h4 ht).2.1⟩
      · have hne : h ≠ chosen := by intro e; subst e; exact ht htr
        have hr0 : running h = false ∧ h ∉ created := by
          simp only [running', ht, decide_false, Bool.not_false, Bool.and_true, Bool.or_eq_false_iff,
            decide_eq_false_iff_not] at hr
          exact hr
        rw [h5 ht, upd_other _ _ hne, hP.frame h hr0.2]
        exact ((boundary_iff _ _).1 (hB h)).2.2.2 hr0.1
  · intro h
    obtain ⟨-, -, h3, -, -⟩ := hA h
    rw [h3]
    simp only [upd_apply]; split
    · rename_i e; subst e; exact hyt
    · exact htag h
  · intro h hr
    apply hq
    intro hst
    obtain ⟨h1, h2, h3, h4, h5⟩ := hA h
    by_cases ht : h ∈ trash
    · rw [(h4 ht).1] at hst; cases hst
    · -- not trashed and not running afterwards: was not running and not created, hence idle
      have hne : h ≠ chosen := by intro e; subst e; exact ht htr
      have hr0 : running h = false ∧ h ∉ created := by
        simp only [running', ht, decide_false, Bool.not_false, Bool.and_true, Bool.or_eq_false_iff,
          decide_eq_false_iff_not] at hr
        exact hr
      rw [h5 ht, upd_other _ _ hne, hP.frame h hr0.2] at hst
      have := (((boundary_iff _ _).1 (hB h)).2.2.2 hr0.1).1
      rw [this] at hst; cases hst

end JF.MP
