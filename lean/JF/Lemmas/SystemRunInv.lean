import JF.Lemmas.SystemRunStep
/-!
Pieces of the induction step of the joint invariant (`JF.Sys.Big`, `JF/Lemmas/SystemRunStep.lean`).
-/
namespace JF.Sys
open JF JF.Act JF.Heap JF.Sched JF.Med JF.CW JF.C14 JF.MediatorLoop JF.Kin

/-! ### reading the decidable side conditions -/

theorem cbWired_spec {c : Wiring} {S : TaggerIdx} (h : cbWired c S = true) (hO : hasOccOf c = true) :
    ∃ B, B < c.n ∧ (c.tagger B).cls = .cellBoundary ∧ (c.tagger B).kind = .cellBoundary ∧
      (∀ T, T < c.n → (c.tagger T).kind = .cellBoundary → T = B) ∧ ∀ σ ∈ reach c S, aGet σ B = true := by
  unfold cbWired at h
  simp only [hO, Bool.not_true, Bool.false_or, List.any_eq_true, List.mem_range, Bool.and_eq_true, beq_iff_eq,
    List.all_eq_true, Bool.or_eq_true, bne_iff_ne, ne_eq] at h
  obtain ⟨B, hB, ⟨⟨h1, h2⟩, h3⟩, h4⟩ := h
  refine ⟨B, hB, h1, h2, ?_, h4⟩
  intro T hT hk
  rcases h3 T hT with h5 | h5
  · exact h5
  · exact absurd hk h5

theorem sound_unpack {c : Wiring} {S : TaggerIdx} (sound : WiringSound c = true) (hS : c.start? = some S) :
    wfStatic c S = true ∧ closed c (reach c S) = true ∧ (violations c (reach c S)).isEmpty = true := by
  unfold WiringSound at sound
  rw [hS] at sound
  simp only [Bool.and_eq_true] at sound
  exact ⟨sound.1.1.1, sound.1.2, sound.2⟩

/-- kinds whose events may change which unit is active -/
theorem affects_ident_of {t : TaggerW} (h1 : t.kind ≠ .sampling) (h2 : t.kind ≠ .dumping) (h3 : t.kind ≠ .endOfRun)
    (h4 : t.kind ≠ .cellBoundary) : affects t .ident = true := by
  unfold affects
  cases hk : t.kind <;> simp_all

section
variable {env : Env ℚ} {c : Wiring} {S : TaggerIdx}

/-- in a state of a run: the tagger of a pending handler is in range, live, activated, and may commit -/
theorem can_commit (hS : c.start? = some S) {rs : RS (G env c)}
    (inv : RunInv c (world env c) S rs) {E : TaggerIdx} (hE : (getT rs.act E).running ≠ [])
    (hend : (c.tagger E).kind ≠ .endOfRun) :
    E < c.n ∧ (c.tagger E).kind ≠ .startOfRun ∧ canCommit c (absOf rs.act) E = true := by
  obtain ⟨hSn, hSk, hSu⟩ := start_spec hS
  have hEn : E < c.n := by
    rcases Nat.lt_or_ge E c.n with h | h
    · exact h
    · exfalso; apply hE
      rw [getT_of_le _ _ (by rw [inv.pool.1, c.wires_length]; exact h)]; rfl
  have hEk : (c.tagger E).kind ≠ .startOfRun := by
    intro hk
    have := hSu E hEn hk
    subst this
    exact hE inv.startIdle
  have hEl : (world env c).live E := ⟨hEn, hEk⟩
  have hEa : aGet (absOf rs.act) E = true := by
    rw [aGet_absOf]
    cases ha : (getT rs.act E).activated
    · exact absurd (fresh_nil_of_deactivated (inv.fresh E hEl) ha) hE
    · rfl
  refine ⟨hEn, hEk, ?_⟩
  unfold canCommit
  simp only [hEa, Bool.true_and, Bool.and_eq_true, bne_iff_ne, ne_eq]
  exact ⟨hEk, hend⟩

/-- **a commit that may change the active unit trashes the (activated) cell-boundary tagger** — read off `WiringSound` (clauses
(a) and (c): the cell-boundary tagger's yield reads the identity of the active unit) -/
theorem trashes_cb_of_ident (sound : WiringSound c = true) (hS : c.start? = some S) {rs : RS (G env c)}
    (inv : RunInv c (world env c) S rs) {E : TaggerIdx} (hE : (getT rs.act E).running ≠ [])
    (hend : (c.tagger E).kind ≠ .endOfRun) (haff : affects (c.tagger E) .ident = true)
    {B : TaggerIdx} (hB : B < c.n) (hBc : (c.tagger B).cls = .cellBoundary) (hBk : (c.tagger B).kind = .cellBoundary)
    (hBa : aGet (absOf rs.act) B = true) : B ∈ (c.tagger E).trashes := by
  obtain ⟨hEn, _, hcan⟩ := can_commit hS inv hE hend
  obtain ⟨_, _, hviol⟩ := sound_unpack sound hS
  have hBs : (c.tagger B).kind ≠ .startOfRun := by rw [hBk]; decide
  obtain ⟨cl1, _, cl3, _⟩ := clauses_of_no_violation (no_violation hviol inv.reach hEn hcan hB) hBs
  by_contra ht
  by_cases hc : B ∈ (c.tagger E).creates
  · have := cl1 hc ht; rw [hBa] at this; cases this
  · rcases (cl3 ht hc).2 with h | h
    · rw [hBa] at h; cases h
    · have := disjoint_ident h haff
      simp [reads, hBc] at this

end

/-! ### staying in the cell until a time -/

/-- strictly before `τ` the unit that is at `pos` at time `ts`, time-sliced along `v`, is in the cell of `pos` -/
def StayUntil (env : Env ℚ) (pos v : List ℚ) (ts τ : Time ℚ) : Prop :=
  ∀ x, val ts ≤ x → x < val τ → env.cellOf (sliceVec Ops.rat env.L pos v (x - val ts)) = env.cellOf pos

theorem stayUntil_slice {env : Env ℚ} {pos v : List ℚ} {ts τ t : Time ℚ} (hL : PosBox env.L)
    (hp : pos.length = env.L.length) (hv : v.length = env.L.length) (h : StayUntil env pos v ts τ)
    (h0 : val ts ≤ val t) (h1 : val t < val τ) :
    env.cellOf (sliceVec Ops.rat env.L pos v (Time.sub t ts)) = env.cellOf pos ∧
    StayUntil env (sliceVec Ops.rat env.L pos v (Time.sub t ts)) v t τ := by
  rw [sub_exact]
  have hcell := h (val t) h0 h1
  refine ⟨hcell, ?_⟩
  intro x hx0 hx1
  rw [sliceVec_comp env.L pos v _ _ hL hp hv, hcell]
  have := h x (le_trans h0 hx0) hx1
  rw [show val t - val ts + (x - val t) = x - val ts by ring]
  exact this

theorem stayUntil_of_geo {env : Env ℚ} (geo : Geo env) {pos v : List ℚ} {ts : Time ℚ} (hb : InBox env.L pos)
    (hv : geo.velOK v) : StayUntil env pos v ts (Time.add Ops.rat ts (geo.ttb pos v)) := by
  intro x h0 h1
  rw [add_val] at h1
  exact geo.stays pos v (x - val ts) hb hv (by linarith) (by linarith)

/-! ### what one commit does to the one-mover state -/

section
variable {env : Env ℚ} {geo : Geo env}

/-- the global state after a commit: again one mover with an admissible velocity whose time stamp is not after the commit; a
sampling / dumping commit keeps the mover and either time-slices it to the committed time or (dumping) leaves everything -/
theorem kin_step (ho : env.o = Ops.rat) {us us' : List (PUnit ℚ)} {a : Nat} {pos v : List ℚ} {ts t : Time ℚ}
    {kind : HandlerKind} (hk : KinI env.L us a pos v ts) (hv : geo.velOK v) (hts : Normalised ts) (ht : Normalised t)
    (hle : val ts ≤ val t) (hc : Commits env geo kind t us us') :
    ∃ a' pos' v' ts', KinI env.L us' a' pos' v' ts' ∧ geo.velOK v' ∧ Normalised ts' ∧ val ts' ≤ val t ∧
      (kind ≠ .dumping → ts' = t) ∧
      ((kind = .sampling ∨ kind = .dumping) → a' = a ∧ v' = v ∧
        ((pos' = sliceVec Ops.rat env.L pos v (Time.sub t ts) ∧ ts' = t) ∨ (pos' = pos ∧ ts' = ts))) := by
  have hL := geo.posBox
  rcases hc with ⟨ev, hal, hev, hadm, rfl⟩ | ⟨_, rfl⟩
  · rw [ho]
    cases ev with
    | start t0 b w =>
      exfalso
      obtain ⟨⟨ua, hua, _, hvel, _⟩, _⟩ := hk
      have := hadm.2.2 ua (List.mem_of_getElem? hua)
      rw [hvel] at this; cases this
    | keep t0 =>
      have : t0 = t := hev
      subst this
      exact ⟨a, _, v, t0, hk.step_keep hL t0, hv, ht, le_refl _, fun _ => rfl, fun _ => ⟨rfl, rfl, Or.inl ⟨rfl, rfl⟩⟩⟩
    | snap t0 d x =>
      have : t0 = t := hev
      subst this
      refine ⟨a, _, v, t0, hk.step_snap hL t0 d x hadm.1, hv, ht, le_refl _, fun _ => rfl, fun hq => ?_⟩
      rcases hq with rfl | rfl <;> simp [allowedEv] at hal
    | lift t0 b =>
      have : t0 = t := hev
      subst this
      obtain ⟨pos', hk'⟩ := hk.step_lift hL t0 b hadm
      refine ⟨b, pos', v, t0, hk', hv, ht, le_refl _, fun _ => rfl, fun hq => ?_⟩
      rcases hq with rfl | rfl <;> simp [allowedEv] at hal
    | endOfChain t0 b w =>
      have : t0 = t := hev
      subst this
      obtain ⟨pos', hk'⟩ := hk.step_endOfChain hL t0 b w hadm.1 (geo.vlen w hadm.2)
      refine ⟨b, pos', w, t0, hk', hadm.2, ht, le_refl _, fun _ => rfl, fun hq => ?_⟩
      rcases hq with rfl | rfl <;> simp [allowedEv] at hal
  · next hd => exact ⟨a, pos, v, ts, hk, hv, hts, hle, fun h => absurd hd h, fun _ => ⟨rfl, rfl, Or.inr ⟨rfl, rfl⟩⟩⟩

/-- where the unit that was moving is after the commit of anything but a cell-boundary event: time-sliced to the committed time
(or, after a dumping event with its empty out-state, where it was) -/
theorem old_mover_pos (ho : env.o = Ops.rat) {us us' : List (PUnit ℚ)} {a : Nat} {pos v : List ℚ} {ts t : Time ℚ}
    {kind : HandlerKind} (hk : KinI env.L us a pos v ts) (hc : Commits env geo kind t us us')
    (hncb : kind ≠ .cellBoundary) :
    (us'[a]?).map (·.pos) = some (sliceVec Ops.rat env.L pos v (Time.sub t ts)) ∨ us' = us := by
  rcases hc with ⟨ev, hal, hev, hadm, rfl⟩ | ⟨_, rfl⟩
  · left
    rw [ho, step_pos env.L us ev a]
    obtain ⟨⟨ua, hua, hp, hvel, hts⟩, _⟩ := hk
    rw [hua]
    simp only [Option.map_some, Option.some.injEq]
    have hsl : ∀ t0, t0 = t → (timeSlice Ops.rat env.L t0 ua).pos = sliceVec Ops.rat env.L pos v (Time.sub t ts) := by
      intro t0 h0; subst h0
      rw [timeSlice_of_moving env.L t0 ua hvel hts, hp]
    cases ev with
    | start t0 b w =>
      exfalso
      have := hadm.2.2 ua (List.mem_of_getElem? hua)
      rw [hvel] at this; cases this
    | keep t0 => exact hsl t0 hev
    | lift t0 b => exact hsl t0 hev
    | endOfChain t0 b w => exact hsl t0 hev
    | snap t0 d x =>
      exfalso
      cases kind <;> simp [allowedEv] at hal
      exact hncb rfl
  · exact Or.inr rfl

end

/-! ### the pending cell-boundary event exists, the occupancy records the cell of the mover -/

section
variable {env : Env ℚ} {c : Wiring} {S : TaggerIdx}

theorem movers_rest {us : List (PUnit ℚ)} (h : ∀ u ∈ us, u.vel = none) : movers us = [] := by
  unfold movers
  rw [List.filter_eq_nil_iff]
  intro i _
  cases hu : us[i]? with
  | none => simp
  | some u => simp [Kin.isMoving, h u (List.mem_of_getElem? hu)]

/-- C09's freshness for the cell-boundary tagger says that its event IS pending while a relevant unit is active -/
theorem cb_exists {rs : RS (G env c)} (inv : RunInv c (world env c) S rs) (hO : hasOccOf c = true)
    {B : TaggerIdx} (hB : B < c.n) (hBc : (c.tagger B).cls = .cellBoundary) (hBk : (c.tagger B).kind = .cellBoundary)
    (hBa : (getT rs.act B).activated = true) {a : Nat} {pos v : List ℚ} {ts : Time ℚ}
    (hk : KinI env.L rs.g.1.us a pos v ts) (hrel : env.relevant a = true) :
    ∃ hb, hb ∈ (getT rs.act B).running := by
  have fr := inv.fresh B ⟨hB, by rw [hBk]; decide⟩
  have len := fr.length_eq
  simp only [List.length_map] at len
  obtain ⟨h1, h2⟩ := rs.g.2 hO
  rw [hk.movers] at h1
  simp only [expectedActive, hrel, if_true] at h1
  rw [h1] at h2
  have hy : (world env c).yieldOf B rs.g = [some [[a]]] := by
    show yieldCls env (c.tagger B).cls rs.g.1 = _
    rw [hBc]
    cases hx : rs.g.1.occ.activeCell with
    | none => rw [hx] at h2; simp at h2
    | some c0 => simp [yieldCls, wrapIds, CellTaggers.cellVetoTagger, tocc, h1, hx]
  rw [hy] at len
  simp only [yieldEff, hBa, if_true, List.length_singleton] at len
  cases hr : (getT rs.act B).running with
  | nil => rw [hr] at len; simp at len
  | cons x _ => exact ⟨x, by simp⟩

/-- after the activator's `update` the recorded active cell is the cell of the mover's position -/
theorem occ_activeCell_mid {occ occ' : Occ.State} {us : List (PUnit ℚ)} {a : Nat} {pos v : List ℚ} {ts : Time ℚ}
    (ho : occAfter env true occ us = some occ') (hk : KinI env.L us a pos v ts) (hrel : env.relevant a = true) :
    occ'.activeCell = some (env.cellOf pos) := by
  obtain ⟨a0, hm, hu⟩ := occAfter_some ho
  rw [hk.movers] at hm
  have : a0 = a := by simpa using hm.symm
  subst this
  have := update_activeCell hu (by rw [unitIn_relevant]; exact hrel)
  rw [this]
  obtain ⟨⟨ua, hua, hp, _⟩, _⟩ := hk
  simp [unitIn, hua, hp]

/-- the unit a cell-boundary handler reads its candidate from is the mover -/
theorem mover_unique {L : List ℚ} {us : List (PUnit ℚ)} {a : Nat} {pos v : List ℚ} {ts : Time ℚ}
    (hk : KinI L us a pos v ts) {a0 : Nat} {u : PUnit ℚ} {v0 : List ℚ} {ts0 : Time ℚ} (hu : us[a0]? = some u)
    (hv : u.vel = some v0) (hts : u.ts = some ts0) : a0 = a ∧ u.pos = pos ∧ v0 = v ∧ ts0 = ts := by
  obtain ⟨⟨ua, hua, hp, hva, htsa⟩, hall⟩ := hk
  by_cases h : a0 = a
  · subst h
    rw [hua] at hu
    have : ua = u := Option.some.inj hu
    subst this
    rw [hva] at hv; rw [htsa] at hts
    exact ⟨rfl, hp, (Option.some.inj hv).symm, (Option.some.inj hts).symm⟩
  · have := (hall a0 u hu).2.2 h
    rw [this] at hv; cases hv

end

theorem getToRun_ok_started {w : Wires} {S : TaggerIdx} {a a1 : ActSt} {pre : Option HandlerId}
    {ys : TaggerIdx → List IdTuple} {created : List (HandlerId × IdTuple)}
    (e : getToRun w S a pre ys = (a1, .ok created)) : a1.started = true := by
  unfold getToRun at e
  split at e
  · split at e
    · simp at e
    · split at e
      · simp at e
      · simp only [Prod.mk.injEq, RunOut.ok.injEq] at e; rw [← e.1]
  · split at e
    · simp at e
    · split at e
      · simp at e
      · simp only [Prod.mk.injEq, RunOut.ok.injEq] at e; rw [← e.1]

end JF.Sys
