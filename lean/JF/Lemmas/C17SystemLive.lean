import JF.Lemmas.C17SystemMed
import JF.Lemmas.SystemRunStep
/-!
C17 at the system level, part 2 (E19): the sampling tagger and the end-of-run tagger are ALWAYS ON — from the second leg on their
handler has a pending event in the middle of every leg — and, with it, the number of samples of a finished run (c).

`AlwaysOn M T h` (a condition on the wiring; `by decide` for the shipped ones): `OwnTrash`, and tagger `T` is created by the
start-of-run event, re-created by its own commit, and never deactivated.  With one identifier tuple yielded per request
(`NoInStateTagger`: `yield None`) this is the activator-level half of "the instance of this event handler should always be
active" of the two handlers' docstrings; it is a SAFETY statement about the bookkeeping (the handler HAS a pending event whenever
the scheduler is asked), not liveness of the run.
-/
namespace JF.C17System
open JF JF.Act JF.Heap JF.Sched JF.Med JF.C14 JF.MediatorLoop JF.Sys JF.Sampling JF.C17

/-- tagger `T` (handler `h`): `OwnTrash`, created by the start-of-run event, re-created by its own commit (unless that commit ends
the run), never deactivated -/
structure AlwaysOn (M : MWire) (T : TaggerIdx) (h : HandlerId) : Prop extends OwnTrash M T h where
  byStart : T ∈ (getW M.w M.S).creates
  bySelf : T ∈ (getW M.w T).creates ∨ ∀ x, owner M.w x = some T → M.endOfRun x = true
  noDeact : ∀ E, T ∉ (getW M.w E).deactivates

/-- between two legs (after the first): the tagger is activated, and its handler has a pending event or is about to get one
(the tagger of the handler that has just committed creates `T`) -/
def Alive (M : MWire) (T : TaggerIdx) (h : HandlerId) (st : MedState (SSched XTime)) (p : Pend XTime) : Prop :=
  st.act.started = true ∧ (getT st.act.ts T).activated = true ∧
  ((p h).isSome ∨ ∃ hp E, st.preceding = some hp ∧ owner M.w hp = some E ∧ T ∈ (getW M.w E).creates)

theorem getToRun_update {w : Wires} {S : TaggerIdx} {a a1 : ActSt} {pre : Option HandlerId}
    {ys : TaggerIdx → List IdTuple} {created : List (HandlerId × IdTuple)} (hst : a.started = true)
    (e : getToRun w S a pre ys = (a1, .ok created)) :
    ∃ hp E, pre = some hp ∧ owner w hp = some E ∧ update w a.ts E ys = some (a1.ts, created) ∧ a1.started = true := by
  unfold getToRun at e
  simp only [hst, Bool.not_true, Bool.false_eq_true, if_false] at e
  cases pre with
  | none => simp at e
  | some hp =>
    simp only [Option.bind_some] at e
    cases ho : owner w hp with
    | none => rw [ho] at e; simp at e
    | some E =>
      rw [ho] at e
      simp only at e
      cases hu : update w a.ts E ys with
      | none => rw [hu] at e; simp at e
      | some r =>
        rw [hu] at e
        simp only [Prod.mk.injEq, RunOut.ok.injEq] at e
        obtain ⟨rfl, rfl⟩ := e
        exact ⟨hp, E, rfl, ho, by rw [hu], rfl⟩

section
variable {M : MWire}

theorem activated_applyActivation {T : TaggerIdx} {h : HandlerId} (A : AlwaysOn M T h) {s : Act} (hl : s.length = M.w.length)
    (ha : (getT s T).activated = true) (E : TaggerIdx) : (getT (applyActivation M.w s E) T).activated = true := by
  rw [getT_applyActivation M.w s E T (by rw [hl]; exact A.lt)]
  simp only [actAfter, if_neg (A.noDeact E), ha]
  split <;> rfl

/-- **one leg keeps the tagger alive**: if `T` is alive before a leg (not the first one) and yields at least one identifier tuple
when asked, its handler has a pending event in the middle of the leg, and `T` is alive after the leg unless the leg ended the run -/
theorem alive_step (hs : Static M) {T : TaggerIdx} {h : HandlerId} (A : AlwaysOn M T h) {st st' : MedState (SSched XTime)}
    {p : Pend XTime} {l : XTime} {o : Oracle XTime} {cm : Committed XTime}
    (inv : MInv (I := specI xcfg) M (SRel xcfg) st p l) (al : Alive M T h st p)
    (hleg : leg M (specI xcfg) st o = .ok (st', cm)) (hy : o.yields T ≠ []) :
    (pendPushed p cm h).isSome ∧ (cm.stop = false → Alive M T h st' (pendAfter p cm)) := by
  obtain ⟨a1, s1, a2, s3, hrun, _, _, htrash, _, hst', _, hstop⟩ := leg_ok hleg
  obtain ⟨pinv1, _, _, crun⟩ := getToRun_ok hs inv.pool hrun
  obtain ⟨hstarted, hact, hal⟩ := al
  obtain ⟨hp, E, hpre, hoE, hupd, hst1⟩ := getToRun_update hstarted hrun
  have hlen : st.act.ts.length = M.w.length := inv.pool.1
  have hact0 : (getT (applyActivation M.w st.act.ts E) T).activated = true := activated_applyActivation A hlen hact E
  have hact1 : (getT a1.ts T).activated = true := by
    rw [createLoop_activated hupd T]; exact hact0
  -- the handler runs in the middle of the leg
  have hmidrun : ∃ U, h ∈ (getT a1.ts U).running := by
    rcases hal with hsome | ⟨hp', E', hpre', hoE', hcr⟩
    · exact (crun h).mpr (Or.inl ((inv.mirror h).mp hsome))
    · rw [hpre] at hpre'
      cases hpre'
      rw [hoE] at hoE'
      cases hoE'
      have hr : ∀ U ∈ (getW M.w E).creates, U < (applyActivation M.w st.act.ts E).length := by
        intro U hU; rw [applyActivation_length, hlen]; exact (hs.wf E).2 U hU
      obtain ⟨_, hpop⟩ := createLoop_some (hs.wf E).1 hr hupd
      have hpT := hpop T hcr
      rw [yieldEff, if_pos hact0] at hpT
      obtain ⟨_, p2, p3, _⟩ := popMany_some hpT
      have hne : (outOf o.yields (applyActivation M.w st.act.ts E) T).map Prod.fst ≠ [] := by
        intro hc
        have : (outOf o.yields (applyActivation M.w st.act.ts E) T) = [] := List.map_eq_nil_iff.mp hc
        rw [this] at p3
        exact hy p3.symm
      obtain ⟨x, hx⟩ := List.exists_mem_of_ne_nil _ hne
      have hxr : x ∈ (getT a1.ts T).running := by rw [p2]; exact List.mem_append_right _ hx
      have hxp := pinv1.mem_pool_of_running hxr
      rw [A.pool] at hxp
      simp only [List.mem_singleton] at hxp
      subst hxp
      exact ⟨T, hxr⟩
  have hmid : (pendPushed p cm h).isSome := by
    rw [(mid_mirror hs inv hleg).2.1 h, midAct_eq hrun]; exact hmidrun
  refine ⟨hmid, fun hgo => ?_⟩
  obtain ⟨E2, hoE2, hts2, _⟩ := getTrashable_ok hs pinv1 htrash
  subst hst'
  refine ⟨?_, ?_, ?_⟩
  · show a2.started = true
    rw [getTrashable_started htrash]; exact hst1
  · show (getT a2.ts T).activated = true
    rw [hts2, trash, trashLoop_activated]; exact hact1
  · by_cases hh : cm.handler = h
    · right
      refine ⟨cm.handler, T, rfl, by rw [hh]; exact A.toOwnTrash.owner hs, ?_⟩
      rcases A.bySelf with hc | hend
      · exact hc
      · exfalso
        rw [hstop, hend cm.handler (by rw [hh]; exact A.toOwnTrash.owner hs)] at hgo
        cases hgo
    · left
      have hnt : h ∉ cm.trashed := fun hin => hh ((trashed_iff hs A.toOwnTrash inv hleg hgo).mp hin)
      show (dropAll (pendPushed p cm) cm.trashed h).isSome
      rw [dropAll_eq, if_neg hnt]; exact hmid

/-- **the first leg** commits the start-of-run event (the only handler handed out), after which `T` is alive -/
theorem alive_first (hs : Static M) {T : TaggerIdx} {h : HandlerId} (A : AlwaysOn M T h) {st' : MedState (SSched XTime)}
    {o : Oracle XTime} {cm : Committed XTime}
    (hleg : leg M (specI xcfg) (MedState.init (specI xcfg) M.w) o = .ok (st', cm)) :
    owner M.w cm.handler = some M.S ∧ Alive M T h st' (pendAfter (fun _ => none) cm) := by
  obtain ⟨a1, s1, a2, s3, hrun, _, _, htrash, _, hst', _, _⟩ := leg_ok hleg
  have pinv0 : PoolInv M.w (MedState.init (specI xcfg) M.w).act.ts := poolInv_init M.w
  obtain ⟨pinv1, _, _, _⟩ := getToRun_ok hs pinv0 hrun
  obtain ⟨hfirst, hst1⟩ := getToRun_first (S := M.S) (a := (MedState.init (specI xcfg) M.w).act) rfl hrun
  have hfirst' : createLoop o.yields (applyActivation M.w (initAct M.w) M.S) [M.S] = some (a1.ts, cm.created) := hfirst
  obtain ⟨E2, hoE2, hts2, _, hrunE, _⟩ := getTrashable_ok hs pinv1 htrash
  have hE2 : E2 = M.S := by
    by_contra hne
    rw [createLoop_frame hfirst' (by simpa using hne), applyActivation_running, getT_initAct] at hrunE
    split at hrunE <;> simp [TState.empty] at hrunE
  subst hE2
  refine ⟨hoE2, ?_⟩
  subst hst'
  refine ⟨?_, ?_, Or.inr ⟨cm.handler, M.S, rfl, hoE2, A.byStart⟩⟩
  · show a2.started = true
    rw [getTrashable_started htrash]; exact hst1
  · show (getT a2.ts T).activated = true
    rw [hts2, trash, trashLoop_activated, createLoop_activated hfirst' T]
    refine activated_applyActivation A (by simp [initAct]) ?_ M.S
    rw [getT_initAct, if_pos A.lt]

theorem mrun_nil {os : List (Oracle XTime)} {st : MedState (SSched XTime)} (hr : MRun M os [] st) :
    st = MedState.init (specI xcfg) M.w := by
  generalize hcs : ([] : List (Committed XTime)) = cs at hr
  cases hr with
  | init => rfl
  | step _ _ _ => simp at hcs

/-- **an always-on tagger has a pending event in the middle of every leg but the first** (in every run in which it yields an
identifier tuple whenever it is asked), and the first leg commits the start-of-run event -/
theorem alive_inv (hs : Static M) {T : TaggerIdx} {h : HandlerId} (A : AlwaysOn M T h) {os : List (Oracle XTime)}
    {cs : List (Committed XTime)} {st : MedState (SSched XTime)} (hr : MRun M os cs st) (hy : ∀ o ∈ os, o.yields T ≠ []) :
    (∀ k cm, cs[k]? = some cm →
      (cs.take k = [] → owner M.w cm.handler = some M.S) ∧
      (cs.take k ≠ [] → (pendPushed (pendOf (fun _ => none) (cs.take k)) cm h).isSome)) ∧
    (cs ≠ [] → (∀ cl, cs.getLast? = some cl → cl.stop = false) → Alive M T h st (pendOf (fun _ => none) cs)) := by
  induction hr with
  | init => exact ⟨fun k cm hk => by simp at hk, fun h => absurd rfl h⟩
  | @step os cs st st' o cm prev hgo hleg ih =>
    obtain ⟨ihm, ihe⟩ := ih (fun o ho => hy o (List.mem_append_left _ ho))
    have hyo : o.yields T ≠ [] := hy o (by simp)
    by_cases hcs : cs = []
    · subst hcs
      have := mrun_nil prev
      subst this
      obtain ⟨h1, h2⟩ := alive_first hs A hleg
      constructor
      · refine idx_snoc (P := fun pre cm => (pre = [] → owner M.w cm.handler = some M.S) ∧
          (pre ≠ [] → (pendPushed (pendOf (fun _ => none) pre) cm h).isSome)) ihm ⟨fun _ => h1, fun hne => absurd rfl hne⟩
      · intro _ _
        rw [pendOf_snoc]; exact h2
    · have al := ihe hcs hgo
      obtain ⟨h1, h2⟩ := alive_step hs A (mrun_minv hs prev) al hleg hyo
      constructor
      · refine idx_snoc (P := fun pre cm => (pre = [] → owner M.w cm.handler = some M.S) ∧
          (pre ≠ [] → (pendPushed (pendOf (fun _ => none) pre) cm h).isSome)) ihm ⟨fun hc => absurd hc hcs, fun _ => h1⟩
      · intro _ hlast
        rw [pendOf_snoc]; exact h2 (hlast cm (by simp))

/-- the handler of an always-on tagger is pending in the middle of leg `k ≥ 1` -/
theorem alive_pending (hs : Static M) {T : TaggerIdx} {h : HandlerId} (A : AlwaysOn M T h) {os : List (Oracle XTime)}
    {cs : List (Committed XTime)} {st : MedState (SSched XTime)} (hr : MRun M os cs st) (hy : ∀ o ∈ os, o.yields T ≠ [])
    {k : Nat} {cm : Committed XTime} (hk : cs[k]? = some cm) (h1 : 1 ≤ k) :
    (pendPushed (pendOf (fun _ => none) (cs.take k)) cm h).isSome := by
  refine ((alive_inv hs A hr hy).1 k cm hk).2 ?_
  intro hc
  have hlt : k < cs.length := (List.getElem?_eq_some_iff.mp hk).1
  have := congrArg List.length hc
  rw [List.length_take, Nat.min_eq_left (Nat.le_of_lt hlt)] at this
  simp at this; omega

/-- the first leg commits a handler of the start-of-run tagger -/
theorem first_owner (hs : Static M) {T : TaggerIdx} {h : HandlerId} (A : AlwaysOn M T h) {os : List (Oracle XTime)}
    {cs : List (Committed XTime)} {st : MedState (SSched XTime)} (hr : MRun M os cs st) (hy : ∀ o ∈ os, o.yields T ≠ [])
    {cm : Committed XTime} (hk : cs[0]? = some cm) : owner M.w cm.handler = some M.S :=
  ((alive_inv hs A hr hy).1 0 cm hk).1 (by simp)

/-! ### what is committed while the two clocks are pending -/

/-- **nothing is committed after the next due sample**: in every leg `k ≥ 1`, the committed time is not later than the clock tick
with index `1 + number of sampling commits before the leg` (the pending sampling candidate) — `no_sample_skipped` with the
candidate's VALUE -/
theorem commit_le_due_sample (hs : Static M) {Ts : TaggerIdx} {hsm : HandlerId} (A : AlwaysOn M Ts hsm) {delta : ℚ} {zf : Bool}
    {os : List (Oracle XTime)} {cs : List (Committed XTime)} {st : MedState (SSched XTime)} (hr : MRun M os cs st)
    (hc : SamplingCands delta zf hsm os cs) (hy : ∀ o ∈ os, o.yields Ts ≠ []) {k : Nat} {cm : Committed XTime}
    (hk : cs[k]? = some cm) (h1 : 1 ≤ k) :
    pendPushed (pendOf (fun _ => none) (cs.take k)) cm hsm =
        some (.fin (clock Ops.rat delta zf (commits hsm (cs.take k) + 1))) ∧
      xcfg.lt (.fin (clock Ops.rat delta zf (commits hsm (cs.take k) + 1))) cm.time = false := by
  obtain ⟨t, ht⟩ := Option.isSome_iff_exists.mp (alive_pending hs A hr hy hk h1)
  have htv := (samp_inv hs A.toOwnTrash hr hc).1 k cm hk t ht
  subst htv
  exact ⟨ht, (mrun_legOK hs hr k cm hk).1.minimal hsm _ ht rfl⟩

/-- **no event of a run is committed at a time beyond `tEnd`** (legs `k ≥ 1`; whether or not the end-of-run event has been
committed yet): the end-of-run candidate `endTime tEnd` is pending in the middle of every such leg -/
theorem commit_le_end_pending (hs : Static M) {Te : TaggerIdx} {he : HandlerId} (A : AlwaysOn M Te he) {tEnd : ℚ}
    {os : List (Oracle XTime)} {cs : List (Committed XTime)} {st : MedState (SSched XTime)} (hr : MRun M os cs st)
    (hc : EndCands tEnd he os cs) (hy : ∀ o ∈ os, o.yields Te ≠ []) {k : Nat} {cm : Committed XTime}
    (hk : cs[k]? = some cm) (h1 : 1 ≤ k) : xcfg.lt (.fin (endTime Ops.rat tEnd)) cm.time = false := by
  obtain ⟨t, ht⟩ := Option.isSome_iff_exists.mp (alive_pending hs A hr hy hk h1)
  have htv := (end_inv hr hc).1 k cm hk t ht
  subst htv
  exact (mrun_legOK hs hr k cm hk).1.minimal he _ ht rfl

/-! ### (c): the number of samples of a finished run -/

/-- **(c), in terms of the nominal times.**  When the end-of-run event has been committed (leg `K`), with `n` = the number of
committed sampling events of the run: the ticks `1 … n` are `≤ tEnd` (each sample was committed before the end of the run or tied
with it) and tick `n + 1` is `≥ tEnd` (it was the pending sampling candidate when the end-of-run event was returned as a minimal
event). -/
theorem samples_at_end (hs : Static M) {Ts : TaggerIdx} {hsm he : HandlerId} (A : AlwaysOn M Ts hsm)
    (hE : M.endOfRun he = true) (hne : he ≠ hsm) (hS : ∀ x, owner M.w x = some M.S → M.endOfRun x = false)
    {delta tEnd : ℚ} {zf : Bool} {os : List (Oracle XTime)} {cs : List (Committed XTime)} {st : MedState (SSched XTime)}
    (hr : MRun M os cs st) (hc : ClockCands delta tEnd zf hsm he os cs) (hy : ∀ o ∈ os, o.yields Ts ≠ [])
    {K : Nat} {cE : Committed XTime} (hK : cs[K]? = some cE) (hh : cE.handler = he) :
    (∀ j, j < commits hsm cs → nominal delta zf (j + 1) ≤ tEnd) ∧ tEnd ≤ nominal delta zf (commits hsm cs + 1) := by
  constructor
  · intro j hj
    have hl := sampling_times hs A.toOwnTrash hr hc.sampling
    have hj' : ((cs.filter (fun c => c.handler == hsm)).map (·.time))[j]? =
        some (XTime.fin (clock Ops.rat delta zf (j + 1))) := by
      rw [hl]; simp [hj]
    rw [List.getElem?_map] at hj'
    obtain ⟨cm, hcm, ht⟩ := Option.map_eq_some_iff.mp hj'
    have hmem := List.mem_of_getElem? hcm
    obtain ⟨k, hk⟩ := List.getElem?_of_mem (List.mem_filter.mp hmem).1
    have := commit_le_end_val hs hE hr hc.endOfRun hK hh hk ht (clock_val delta zf (j + 1)).2
    rwa [(clock_val delta zf (j + 1)).1] at this
  · obtain ⟨htE, hlast⟩ := end_commit hs hE hr hc.endOfRun hK hh
    have h1 : 1 ≤ K := by
      by_contra h0
      have hK0 : K = 0 := by omega
      subst hK0
      have := hS _ (first_owner hs A hr hy hK)
      rw [hh, hE] at this; cases this
    obtain ⟨_, hmin⟩ := commit_le_due_sample hs A hr hc.sampling hy hK h1
    rw [htE] at hmin
    have hv := (xlt_false_iff (clock_val delta zf _).2 (endTime_val tEnd).2).mp hmin
    rw [(clock_val delta zf _).1, (endTime_val tEnd).1] at hv
    have hcs : cs = cs.take K ++ [cE] := by
      have h2 : cs.take (K + 1) = cs := List.take_of_length_le (by omega)
      rw [List.take_add_one, hK] at h2
      exact h2.symm
    have hcount : commits hsm cs = commits hsm (cs.take K) := by
      conv_lhs => rw [hcs]
      rw [commits_snoc, if_neg (by rw [hh]; exact hne)]; rfl
    rw [hcount]; exact hv

/-- **(c): the number of committed sampling events of a finished run is `samplesBeforeEnd`** (the count loop of C17's model, which by
`JF.C17.samples_spec` is the number of nominal sampling times `< tEnd`, and which terminates by `JF.C17.samples_terminate`) —
**plus one exactly in the tie case**: the extra sample is at a nominal time `= tEnd` (the scheduler returned the sampling event,
not the end-of-run event, among two minimal events with the same time). -/
theorem sample_count (hs : Static M) {Ts : TaggerIdx} {hsm he : HandlerId} (A : AlwaysOn M Ts hsm)
    (hE : M.endOfRun he = true) (hne : he ≠ hsm) (hS : ∀ x, owner M.w x = some M.S → M.endOfRun x = false)
    {delta tEnd : ℚ} (hd : 0 < delta) {zf : Bool} {os : List (Oracle XTime)} {cs : List (Committed XTime)}
    {st : MedState (SSched XTime)} (hr : MRun M os cs st) (hc : ClockCands delta tEnd zf hsm he os cs)
    (hy : ∀ o ∈ os, o.yields Ts ≠ []) {K : Nat} {cE : Committed XTime} (hK : cs[K]? = some cE) (hh : cE.handler = he)
    {fuel : Nat} (hf : samplesBeforeEnd Ops.rat delta tEnd zf fuel 0 < fuel) :
    commits hsm cs = samplesBeforeEnd Ops.rat delta tEnd zf fuel 0 ∨
    (commits hsm cs = samplesBeforeEnd Ops.rat delta tEnd zf fuel 0 + 1 ∧ nominal delta zf (commits hsm cs) = tEnd) := by
  obtain ⟨h1, h2⟩ := samples_at_end hs A hE hne hS hr hc hy hK hh
  obtain ⟨a, b⟩ := samples_spec delta tEnd zf fuel 0 _ rfl hf
  simp only [Nat.zero_add] at a b
  generalize commits hsm cs = n at h1 h2 ⊢
  generalize samplesBeforeEnd Ops.rat delta tEnd zf fuel 0 = m at a b ⊢
  have hmn : m ≤ n := by
    by_contra hc'
    have := a n (by omega)
    linarith
  have hn1 : n ≤ m + 1 := by
    by_contra hc'
    have h3 := h1 (m + 1) (by omega)
    have h4 := nominal_strictMono hd zf (i := m + 1) (j := m + 1 + 1) (by omega)
    exact b (by linarith)
  rcases Nat.lt_or_ge m n with hlt | hge
  · right
    have hnm : n = m + 1 := by omega
    subst hnm
    refine ⟨rfl, le_antisymm (h1 m (by omega)) (not_lt.mp b)⟩
  · left; omega

end

end JF.C17System
