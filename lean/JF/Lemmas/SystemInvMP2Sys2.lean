import JF.Lemmas.SystemInvMP2Generic
import JF.Props.SystemInv2
/-!
E50 — the composed system of COMPOSITE OBJECTS WITHOUT CELLS (`JF.Sys2`, `JF/Lemmas/SystemRun2Step.lean`) as an instance `T2` of
`JF.SysGen.CSys`: `X2` = `Sys2` without its mediator state, `RStep2` = `SysStep2` without `leg` (field for field), `Init2X` = `Init2`.
`reach2_of` / `reach2_to`: the runs `Reach2` ARE the runs `T2.ReachS` (both directions, no hypothesis).
`A2 v`: the adapter for a view `v : G → List (CObj ℚ)` of the global state of C20's world; the ghost fields of the successor are the
ones `SysStep2` prescribes (`ids'`, `prev`, `mid'`, `cmode'`), so a successor is determined by its world part (`nx2_unique`).
-/
namespace JF.SystemInvMP2
open JF JF.Act JF.Heap JF.Sched JF.Med JF.CW2 JF.C14 JF.MediatorLoop JF.Sys JF.Sys2 JF.Composite JF.C12 JF.SysGen

/-- `Sys2` without the mediator state: the global state and the ghost fields -/
structure X2 where
  cs : List (CObj ℚ)
  ids : HandlerId → IdTuple
  csPrev : List (CObj ℚ)
  mid : Act
  cmode : TaggerIdx → WMode

/-- the same world and ghost fields around a spec-level mediator state -/
def X2.toSys (x : X2) (m : SM) : Sys2 := ⟨m, x.cs, x.ids, x.csPrev, x.mid, x.cmode⟩
def xOf (s : Sys2) : X2 := ⟨s.cs, s.ids, s.csPrev, s.mid, s.cmode⟩

section defs
variable (env : Env ℚ) (mw : ModeWiring) (S : TaggerIdx) (needs : HandlerId → Bool)

/-- `SysStep2` without its field `leg`, field for field; the mediator state before the leg is read through `e` (activator state,
preceding handler) and `last` (`s.med.sched.last`) only -/
structure RStep2 (e : MedState Unit) (last : XTime) (x : X2) (o : Oracle XTime) (cm : Committed XTime) (x' : X2) : Prop where
  yields : o.yields = fun T => yieldCls env T (mw.w.tagger T).cls x.cs
  cands : CandsOK2 last o cm.created
  ev : ∃ t E', cm.time = .fin t ∧ owner mw.w.wires cm.handler = some E' ∧ Commits2 env mw E' (x'.cmode E') t x.cs x'.cs
  ids' : x'.ids = assign x.ids cm.created
  prev : x'.csPrev = x.cs
  mid' : x'.mid = midAct (mwire mw.w S needs) e o
  cmode' : x'.cmode = cmodeNext mw e.preceding x.cmode x'.mid

/-- `Init2` -/
def Init2X (x : X2) : Prop := Init2 env mw (x.toSys (MedState.init (specI xcfg) mw.w.wires))

/-- **the composed system of composite objects without cells** as a `CSys` -/
def T2 : CSys := ⟨X2, mwire mw.w S needs, Init2X env mw, RStep2 env mw S needs⟩

end defs

section
variable {env : Env ℚ} {mw : ModeWiring} {S : TaggerIdx} {needs : HandlerId → Bool}

/-- a run `Reach2` is a run of `T2` over the spec-level scheduler -/
theorem reach2_of {os : List (Oracle XTime)} {cs : List (Committed XTime)} {s : Sys2}
    (hr : Reach2 env mw S needs os cs s) : (T2 env mw S needs).ReachS os cs s.med (xOf s) := by
  induction hr with
  | init s h =>
    exact CSys.Reach.init (T := T2 env mw S needs) (I := specI xcfg) s.med (xOf s) h.med
      (show Init2 env mw _ from ⟨rfl, h.good, h.unif, h.rest, h.prev, h.cmode⟩)
  | step _ hgo hstep ih =>
    exact CSys.Reach.step (T := T2 env mw S needs) ih hgo hstep.leg
      (show RStep2 env mw S needs _ _ _ _ _ _ from
        ⟨hstep.yields, hstep.cands, hstep.ev, hstep.ids', hstep.prev, hstep.mid', hstep.cmode'⟩)

/-- … and conversely -/
theorem reach2_to {os : List (Oracle XTime)} {cs : List (Committed XTime)} {m : MedState (specI xcfg).σ}
    {x : (T2 env mw S needs).X} (hr : (T2 env mw S needs).ReachS os cs m x) :
    Reach2 env mw S needs os cs (X2.toSys x m) := by
  induction hr with
  | init m x hm h => subst hm; exact .init _ h
  | step _ hgo hleg hw ih =>
    have hw' : RStep2 env mw S needs _ _ _ _ _ _ := hw
    exact .step ih hgo ⟨hw'.yields, hleg, hw'.cands, hw'.ev, hw'.ids', hw'.prev, hw'.mid', hw'.cmode'⟩

variable {G : Type}

/-- the adapter for a view `v` of the global state of C20's world: the composite objects are read off the global state, the ghost
fields are those `SysStep2` prescribes -/
def A2 (env : Env ℚ) (mw : ModeWiring) (S : TaggerIdx) (needs : HandlerId → Bool) (v : G → List (CObj ℚ)) :
    Adapter (T2 env mw S needs) G where
  nx e x o cm g' :=
    (⟨v g', assign x.ids cm.created, x.cs, midAct (mwire mw.w S needs) e o,
      cmodeNext mw e.preceding x.cmode (midAct (mwire mw.w S needs) e o)⟩ : X2)
  sees x g := X2.cs x = v g
  sawPrev x g := X2.csPrev x = v g
  sees_nx _ _ _ _ _ := rfl
  prev_nx _ _ _ _ _ _ h := h

/-- a successor state is determined by its world part -/
theorem nx2_unique (v : G → List (CObj ℚ)) (e : MedState Unit) (last : XTime) (x : X2) (o : Oracle XTime)
    (cm : Committed XTime) (x' : X2) (g' : G) (hw : RStep2 env mw S needs e last x o cm x') (hs : x'.cs = v g') :
    x' = (A2 env mw S needs v).nx e x o cm g' := by
  obtain ⟨a, b, c, d, f⟩ := x'
  have h1 := hw.ids'
  have h2 := hw.prev
  have h3 := hw.mid'
  have h4 := hw.cmode'
  simp only at h1 h2 h3 h4 hs
  subst h1 h2 h3 hs
  subst h4
  rfl

/-- **the world part of `SysStep2`** for a leg of the multi-process run from global state `g` to `g'`, read through `v`: the yields
are the computed `CW2.yieldCls` of the composite objects of `g`; the candidates of the handlers handed out obey `CandsOK2`; the
composite objects move by `Commits2` of the committed handler's tagger — in the mode read off the activation flags when its candidate
was requested (`cmodeNext`, a function of the mediator states of the single-process loop) — at the committed time -/
structure WStep2 (env : Env ℚ) (mw : ModeWiring) (S : TaggerIdx) (needs : HandlerId → Bool) (v : G → List (CObj ℚ))
    (e : MedState Unit) (last : XTime) (x : X2) (o : Oracle XTime) (cm : Committed XTime) (g' : G) : Prop where
  yields : o.yields = fun T => yieldCls env T (mw.w.tagger T).cls x.cs
  cands : CandsOK2 last o cm.created
  ev : ∃ t E', cm.time = .fin t ∧ owner mw.w.wires cm.handler = some E' ∧
    Commits2 env mw E' (cmodeNext mw e.preceding x.cmode (midAct (mwire mw.w S needs) e o) E') t x.cs (v g')

/-- `Moves` for `T2` asks exactly for `WStep2` at every leg (the ghost equations hold by construction of `nx`) -/
theorem rstep2_nx_iff (v : G → List (CObj ℚ)) (e : MedState Unit) (last : XTime) (x : X2) (o : Oracle XTime)
    (cm : Committed XTime) (g' : G) :
    RStep2 env mw S needs e last x o cm ((A2 env mw S needs v).nx e x o cm g') ↔ WStep2 env mw S needs v e last x o cm g' :=
  ⟨fun h => ⟨h.yields, h.cands, h.ev⟩, fun h => ⟨h.yields, h.cands, h.ev, rfl, rfl, rfl, rfl⟩⟩

end

end JF.SystemInvMP2
