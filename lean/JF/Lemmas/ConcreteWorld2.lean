import JF.Model.ConcreteWorld2
import JF.Props.C12Chain
/-
Lemmas for `JF/Props/Footprints2.lean`, part 1: what the events of the two-level machine `Composite.step` do to the part of the
global state the taggers read (`flags`: which units carry a velocity) and to the shape of the tree.

* `vels_quiet` — a `keep` / `snap` event (the kinds of sampling, dumping, end-of-run and cell-boundary handlers) leaves the velocity
  of EVERY unit as it is (any scalar type): the `.ident` and `.motion` columns `false` of `affects`;
* `yieldCls_congr` — the yields read the global state only through `flags`: the `.motion` / `.time` columns `false` of `reads`;
* `lens_step` — no event changes the number of composite objects or the number of point masses of any of them.
-/
namespace JF.CW2
open JF JF.Act JF.Composite

/-! ### lists -/

theorem map_modify_same {β γ : Type} (f : β → γ) (g : β → β) (hfg : ∀ x, f (g x) = f x) :
    ∀ (xs : List β) (j : Nat), (xs.modify j g).map f = xs.map f
  | [], j => by simp
  | y :: xs, 0 => by simp [List.modify, hfg]
  | y :: xs, j + 1 => by simp [List.modify_succ_cons, map_modify_same f g hfg xs j]

theorem foldl_modify_map {β γ : Type} (f : β → γ) (g : β → β) (hfg : ∀ x, f (g x) = f x) :
    ∀ (S : List Nat) (xs : List β), (S.foldl (fun xs i => xs.modify i g) xs).map f = xs.map f
  | [], xs => rfl
  | i :: S, xs => by
    rw [List.foldl_cons, foldl_modify_map f g hfg S, map_modify_same f g hfg]

/-! ### velocities under the quiet kinds -/

section
variable {α : Type}

theorem flags_eq_of_vels {cs cs' : List (CObj α)} (h : vels cs' = vels cs) : flags cs' = flags cs := by
  have e : ∀ xs : List (CObj α), flags xs = (vels xs).map fun p => (p.1.isSome, p.2.map Option.isSome) := by
    intro xs
    simp only [flags, vels, List.map_map]
    apply List.map_congr_left
    intro c _
    simp [flagOf, velsOf, Kin.isMoving, Function.comp_def]
  rw [e, e, h]

theorem length_eq_of_vels {cs cs' : List (CObj α)} (h : vels cs' = vels cs) : cs'.length = cs.length := by
  have := congrArg List.length h
  simpa [vels] using this

/-- **`.motion` / `.time` are not read**: what a tagger yields depends on the global state only through `flags` (which units carry
a velocity) -/
theorem yieldCls_congr (env : Env α) (T : TaggerIdx) (cls : TaggerClass) {cs cs' : List (CObj α)} (h : flags cs' = flags cs) :
    yieldCls env T cls cs' = yieldCls env T cls cs := by
  unfold yieldCls
  rw [h]

variable [Add α] [Sub α] [Mul α] [LT α] [DecidableLT α] [BEq α]

theorem timeSlice_vel (o : Ops α) (L : List α) (t : Time α) (u : PUnit α) : (Kin.timeSlice o L t u).vel = u.vel := by
  unfold Kin.timeSlice
  split
  · next h _ => simp [h]
  · rfl

theorem velsOf_sliceComp (o : Ops α) (L : List α) (t : Time α) (c : CObj α) : velsOf (sliceComp o L t c) = velsOf c := by
  simp only [velsOf, sliceComp, timeSlice_vel, List.map_map]
  congr 1
  apply List.map_congr_left
  intro l _
  simp [timeSlice_vel]

theorem vels_sliceAt (o : Ops α) (L : List α) (t : Time α) (S : List Nat) (cs : List (CObj α)) :
    vels (sliceAt o L t S cs) = vels cs :=
  foldl_modify_map velsOf (sliceComp o L t) (velsOf_sliceComp o L t) S cs

theorem vels_snap (o : Ops α) (L : List α) (t : Time α) (S : List Nat) (i : Nat) (j : Option Nat) (d : Nat) (x : α)
    (cs : List (CObj α)) : vels (snap o L t S i j d x cs) = vels cs := by
  unfold snap
  simp only []
  unfold vels
  rw [map_modify_same]
  · exact vels_sliceAt o L t S cs
  · intro c
    cases j with
    | none => rfl
    | some j =>
      simp only [velsOf]
      congr 1
      exact map_modify_same (fun l : PUnit α => l.vel) (fun l => { l with pos := Kin.setCoord l.pos d x }) (fun _ => rfl) _ _

variable [Div α] [Neg α]

/-- **`.ident` / `.motion` = false for the quiet kinds**: a `keep` or a `snap` leaves the velocity of every root and every leaf as
it is -/
theorem vels_quiet (o : Ops α) (small : α → Bool) (L : List α) (cs : List (CObj α)) (e : Composite.Ev α)
    (hq : quietKind (evKind e) = true) : vels (step o small L cs e) = vels cs := by
  cases e with
  | keep t S => exact vels_sliceAt o L t S cs
  | snap t S i j d x => exact vels_snap o L t S i j d x cs
  | _ => simp [evKind, quietKind] at hq

end

/-! ### the shape of the tree -/

/-- number of point masses per composite object -/
def lens (cs : List (CObj ℚ)) : List Nat := cs.map (·.leaves.length)

/-- `f` keeps the number of leaves -/
def LP (f : CObj ℚ → CObj ℚ) : Prop := ∀ c, (f c).leaves.length = c.leaves.length

theorem lens_modify {f : CObj ℚ → CObj ℚ} (h : LP f) (cs : List (CObj ℚ)) (i : Nat) : lens (cs.modify i f) = lens cs :=
  map_modify_same (fun c : CObj ℚ => c.leaves.length) f h cs i

theorem lp_applyUpds (L : List ℚ) (t : Time ℚ) (ups : List (Upd ℚ)) : LP (applyUpds Ops.rat isZ L t ups) := fun c => by
  simp [applyUpds, setLeaves_length]

theorem lp_sliceComp (L : List ℚ) (t : Time ℚ) : LP (sliceComp Ops.rat L t) := fun c => by simp [sliceComp]

theorem lens_sliceAt (L : List ℚ) (t : Time ℚ) (S : List Nat) (cs : List (CObj ℚ)) : lens (sliceAt Ops.rat L t S cs) = lens cs :=
  foldl_modify_map (fun c : CObj ℚ => c.leaves.length) (sliceComp Ops.rat L t) (lp_sliceComp L t) S cs

/-- no event changes the number of composite objects or the number of point masses of any of them -/
theorem lens_step (L : List ℚ) (cs : List (CObj ℚ)) (e : Composite.Ev ℚ) : lens (step Ops.rat isZ L cs e) = lens cs := by
  cases e with
  | keep t S => exact lens_sliceAt L t S cs
  | snap t S i j d x =>
    show lens (snap Ops.rat L t S i j d x cs) = _
    unfold snap
    simp only []
    rw [lens_modify, lens_sliceAt]
    intro c
    cases j with
    | none => rfl
    | some j => simp
  | exchange t S i j i' j' =>
    show lens (exchange Ops.rat isZ L t S i j i' j' cs) = _
    unfold exchange
    simp only []
    split
    · exact lens_sliceAt L t S cs
    · split
      · exact lens_sliceAt L t S cs
      · unfold apply2
        split
        · rw [lens_modify (lp_applyUpds L t _), lens_sliceAt]
        · rw [lens_modify (lp_applyUpds L t _), lens_modify (lp_applyUpds L t _), lens_sliceAt]
  | pass t S iL iT =>
    show lens (pass Ops.rat isZ L t S iL iT cs) = _
    unfold pass
    simp only []
    split
    · split
      · exact lens_sliceAt L t S cs
      · split
        · exact lens_sliceAt L t S cs
        · rw [lens_modify (lp_applyUpds L t _), lens_modify (lp_applyUpds L t _), lens_sliceAt]
    · exact lens_sliceAt L t S cs
  | eocLeaf t i j i' j' vn =>
    show lens (eocLeaf Ops.rat isZ L t i j i' j' vn cs) = _
    unfold eocLeaf
    simp only []
    split
    · split
      · exact lens_sliceAt L t [i] cs
      · split
        · split
          · rw [lens_modify (lp_applyUpds L t _), lens_sliceAt]
          · rw [lens_modify, lens_sliceAt]
            intro c
            simp [applyUpds, setLeaves_length]
        · rw [lens_modify (lp_applyUpds L t _), lens_modify (lp_applyUpds L t _), lens_sliceAt]
    · exact lens_sliceAt L t [i] cs
  | eocRoot t i i' vn =>
    show lens (eocRoot Ops.rat isZ L t i i' vn cs) = _
    unfold eocRoot
    simp only []
    split
    · split
      · exact lens_sliceAt L t [i] cs
      · split
        · rw [lens_modify (lp_applyUpds L t _), lens_sliceAt]
        · rw [lens_modify (lp_applyUpds L t _), lens_modify (lp_applyUpds L t _), lens_sliceAt]
    · exact lens_sliceAt L t [i] cs
  | toLeaf t i ch =>
    show lens (toLeaf Ops.rat isZ L t i ch cs) = _
    unfold toLeaf
    simp only []
    split
    · split
      · exact lens_sliceAt L t [i] cs
      · rw [lens_modify (lp_applyUpds L t _), lens_sliceAt]
    · exact lens_sliceAt L t [i] cs
  | toRoot t i =>
    show lens (toRoot Ops.rat isZ L t i cs) = _
    unfold toRoot
    simp only []
    split
    · exact lens_sliceAt L t [i] cs
    · split
      · exact lens_sliceAt L t [i] cs
      · split
        · exact lens_sliceAt L t [i] cs
        · split
          · exact lens_sliceAt L t [i] cs
          · rw [lens_modify (lp_applyUpds L t _), lens_sliceAt]
  | start i P v =>
    show lens (start Ops.rat isZ L i P v cs) = _
    unfold start
    simp only []
    rw [lens_modify (lp_applyUpds L _ _)]

end JF.CW2
