import JF.Lemmas.CompositeVec
/-!
Helper lemmas for C12, part 2: the invariant of one composite object (`Good`), its preservation by time-slicing and by
the generic "leaf updates + commit of the root" machine `applyUpds` of `JF/Model/Composite.lean`.
Exact reading: `α = ℚ`, `Ops.rat`, and the test `abs(c) < 1.0e-13` replaced by `c == 0` (`isZ`).
-/
namespace JF.Composite
open JF JF.Kin

/-- exact reading of the threshold test -/
def isZ (c : ℚ) : Bool := c == 0

/-! ### the invariant of one composite object -/

def WFC (d : Nat) (c : CObj ℚ) : Prop := WFU d c.root ∧ (∀ l ∈ c.leaves, WFU d l) ∧ c.leaves ≠ []

/-- `len(children) · v_root = Σ v_leaf` (i.e. `v_root = Σ (1/n) · v_leaf`), `None` read as zero -/
def VelC (c : CObj ℚ) : Prop :=
  ∀ k, (c.leaves.length : ℚ) * velAt c.root k = (c.leaves.map (fun l => velAt l k)).sum

/-- the moving leaves of the object share one non-zero velocity -/
def Sh (ls : List (PUnit ℚ)) : Prop := ∃ v, NZ v ∧ ∀ l ∈ ls, l.vel = none ∨ l.vel = some v

/-- a stored root velocity is non-zero -/
def RNZ (c : CObj ℚ) : Prop := ∀ v, c.root.vel = some v → NZ v

/-- at time `τ`: `n · x_root(τ) ≡ Σ x_leaf(τ)` modulo the box, coordinate by coordinate -/
def PosC (L : List ℚ) (c : CObj ℚ) (τ : ℚ) : Prop :=
  ∀ k, k < L.length → Cong (L.getD k 0) ((c.leaves.length : ℚ) * advAt c.root τ k) ((c.leaves.map (fun l => advAt l τ k)).sum)

structure Good (d : Nat) (L : List ℚ) (c : CObj ℚ) : Prop where
  wf : WFC d c
  vel : VelC c
  sh : Sh c.leaves
  rnz : RNZ c
  pos : ∀ τ, PosC L c τ

theorem pos_shift {L : List ℚ} {c : CObj ℚ} (hv : VelC c) {τ : ℚ} (h : PosC L c τ) (τ' : ℚ) : PosC L c τ' := by
  intro k hk
  obtain ⟨z, hz⟩ := h k hk
  refine ⟨z, ?_⟩
  have e2 : (c.leaves.map (fun l => advAt l τ' k)).sum
      = (c.leaves.map (fun l => advAt l τ k)).sum + (c.leaves.map (fun l => velAt l k)).sum * (τ' - τ) := by
    rw [← sum_map_mul_const, ← sum_map_add']
    exact sum_map_congr _ _ _ (fun l _ => advAt_shift l τ τ' k)
  rw [e2, advAt_shift c.root τ τ' k, ← hv k, ← hz]
  ring

theorem sum_vel_shared (v : List ℚ) (k : Nat) : ∀ (ls : List (PUnit ℚ)), (∀ l ∈ ls, l.vel = none ∨ l.vel = some v) →
    ∃ m : ℕ, (ls.map (fun l => velAt l k)).sum = m * v.getD k 0 ∧ ((∃ l ∈ ls, l.vel ≠ none) → 0 < m)
  | [], _ => ⟨0, by simp, by simp⟩
  | x :: ls, h => by
    obtain ⟨m, hm, hpos⟩ := sum_vel_shared v k ls (fun l hl => h l (by simp [hl]))
    rcases h x (by simp) with hx | hx
    · have hxk : velAt x k = 0 := by simp only [velAt, velOpt, hx]
      refine ⟨m, by simp only [List.map_cons, List.sum_cons, hxk, hm, zero_add], ?_⟩
      rintro ⟨l, hl, hne⟩
      simp at hl
      rcases hl with rfl | hl
      · exact absurd hx hne
      · exact hpos ⟨l, hl, hne⟩
    · have hxk : velAt x k = v.getD k 0 := by simp only [velAt, velOpt, hx]
      exact ⟨m + 1, by simp only [List.map_cons, List.sum_cons, hxk, hm]; push_cast; ring, fun _ => Nat.succ_pos m⟩

/-- "absent exactly when none moves" follows from the velocity sum, the shared non-zero leaf velocity and the
non-zero root velocity -/
theorem absent_iff {c : CObj ℚ} (hn : c.leaves ≠ []) (hv : VelC c) (hs : Sh c.leaves) (hr : RNZ c) :
    c.root.vel = none ↔ ∀ l ∈ c.leaves, l.vel = none := by
  obtain ⟨v, ⟨k, hk⟩, hsh⟩ := hs
  have hn' : (c.leaves.length : ℚ) ≠ 0 := by
    have : c.leaves.length ≠ 0 := by simpa [List.length_eq_zero_iff] using hn
    exact_mod_cast this
  constructor
  · intro hroot l hl
    by_contra hne
    obtain ⟨m, hm, hpos⟩ := sum_vel_shared v k c.leaves hsh
    have hm0 := hpos ⟨l, hl, hne⟩
    have := hv k
    rw [hm] at this
    simp [velAt, velOpt, hroot] at this
    rcases this with h | h
    · omega
    · exact hk h
  · intro hall
    cases hroot : c.root.vel with
    | none => rfl
    | some w =>
      obtain ⟨k', hk'⟩ := hr w hroot
      have := hv k'
      rw [sum_map_congr _ (fun _ => (0 : ℚ)) _ (fun l hl => by simp [velAt, velOpt, hall l hl])] at this
      simp [velAt, velOpt, hroot] at this
      rcases this with h | h
      · exact absurd h (by simpa [List.length_eq_zero_iff] using hn)
      · exact absurd h hk'

/-! ### time-slicing a composite object -/

theorem sliceComp_good {d : Nat} {L : List ℚ} (hL : BoxOK d L) (t : Time ℚ) {c : CObj ℚ} (h : Good d L c) :
    Good d L (sliceComp Ops.rat L t c) ∧ ∀ l ∈ (sliceComp Ops.rat L t c).leaves, Sliced t l := by
  obtain ⟨⟨hwr, hwl, hne⟩, hv, hs, hr, hp⟩ := h
  have hvel : ∀ l : PUnit ℚ, ∀ k, velAt (timeSlice Ops.rat L t l) k = velAt l k := by
    intro l k; simp [velAt]
  refine ⟨⟨⟨(timeSlice_spec hL t hwr).1, ?_, ?_⟩, ?_, ?_, ?_, ?_⟩, ?_⟩
  · intro l hl
    simp only [sliceComp, List.mem_map] at hl
    obtain ⟨l0, hl0, rfl⟩ := hl
    exact (timeSlice_spec hL t (hwl l0 hl0)).1
  · simpa [sliceComp] using hne
  · intro k
    simp only [sliceComp, List.length_map, List.map_map]
    rw [hvel]
    rw [sum_map_congr _ (fun l => velAt l k) _ (fun l _ => by simp [Function.comp, hvel])]
    exact hv k
  · obtain ⟨v, hv0, hsh⟩ := hs
    refine ⟨v, hv0, ?_⟩
    intro l hl
    simp only [sliceComp, List.mem_map] at hl
    obtain ⟨l0, hl0, rfl⟩ := hl
    simpa using hsh l0 hl0
  · intro v hv'
    simp only [sliceComp, timeSlice_vel] at hv'
    exact hr v hv'
  · intro τ k hk
    have hk' : k < d := by rw [← hL.1]; exact hk
    simp only [sliceComp, List.length_map, List.map_map]
    have h1 := Cong.nat_mul c.leaves.length ((timeSlice_spec hL t hwr).2.2 τ k hk')
    have h2 := Cong.sum_map (L.getD k 0) (fun l => advAt (timeSlice Ops.rat L t l) τ k) (fun l => advAt l τ k) c.leaves
      (fun l hl => (timeSlice_spec hL t (hwl l hl)).2.2 τ k hk')
    exact (h1.trans (hp τ k hk)).trans h2.symm
  · intro l hl
    simp only [sliceComp, List.mem_map] at hl
    obtain ⟨l0, hl0, rfl⟩ := hl
    exact (timeSlice_spec hL t (hwl l0 hl0)).2.1

/-! ### the update machine -/

def dvAt (u : Upd ℚ) (k : Nat) : ℚ := velOpt u.dv k

/-- admissible update list for the leaves `ls` at event time `t`: distinct existing leaves; a leaf that moves afterwards
gets a velocity of the right length and the event time as time stamp; the registered change is
`new velocity − old velocity` (nothing registered: the velocity does not change) -/
structure UpdsOK (d : Nat) (t : Time ℚ) (ls : List (PUnit ℚ)) (ups : List (Upd ℚ)) : Prop where
  nodup : (ups.map (·.leaf)).Nodup
  ok : ∀ u ∈ ups, ∃ l, ls[u.leaf]? = some l ∧
        (∀ v, u.vel = some v → v.length = d ∧ u.ts = some t) ∧
        (∀ dv, u.dv = some dv → dv.length = d) ∧
        (∀ k, dvAt u k = velOpt u.vel k - velAt l k) ∧
        (u.dv = none → ∀ k, velOpt u.vel k = velAt l k)

def setU (u : Upd ℚ) (l : PUnit ℚ) : PUnit ℚ := { l with vel := u.vel, ts := u.ts }

theorem setLeaves_cons (ls : List (PUnit ℚ)) (u : Upd ℚ) (ups : List (Upd ℚ)) :
    setLeaves ls (u :: ups) = setLeaves (ls.modify u.leaf (setU u)) ups := rfl

@[simp] theorem setLeaves_nil (ls : List (PUnit ℚ)) : setLeaves ls [] = ls := rfl

theorem setLeaves_length : ∀ (ups : List (Upd ℚ)) (ls : List (PUnit ℚ)), (setLeaves ls ups).length = ls.length
  | [], ls => rfl
  | u :: ups, ls => by rw [setLeaves_cons, setLeaves_length ups]; simp

theorem UpdsOK.tail {d : Nat} {t : Time ℚ} {ls : List (PUnit ℚ)} {u : Upd ℚ} {ups : List (Upd ℚ)}
    (h : UpdsOK d t ls (u :: ups)) : UpdsOK d t (ls.modify u.leaf (setU u)) ups := by
  obtain ⟨hnd, hok⟩ := h
  simp only [List.map_cons, List.nodup_cons] at hnd
  refine ⟨hnd.2, ?_⟩
  intro u' hu'
  obtain ⟨l, hl, rest⟩ := hok u' (by simp [hu'])
  refine ⟨l, ?_, rest⟩
  have hne : u.leaf ≠ u'.leaf := by
    intro he
    exact hnd.1 (by rw [he]; exact List.mem_map_of_mem hu')
  rw [List.getElem?_modify]
  simp [hne, hl]

theorem sum_setLeaves_vel {d : Nat} {t : Time ℚ} (k : Nat) : ∀ (ups : List (Upd ℚ)) (ls : List (PUnit ℚ)),
    UpdsOK d t ls ups →
    ((setLeaves ls ups).map (fun l => velAt l k)).sum = (ls.map (fun l => velAt l k)).sum + (ups.map (fun u => dvAt u k)).sum
  | [], ls, _ => by simp
  | u :: ups, ls, h => by
    rw [setLeaves_cons, sum_setLeaves_vel k ups _ h.tail]
    obtain ⟨l, hl, _, _, hdv, _⟩ := h.ok u (by simp)
    rw [sum_map_modify _ _ ls u.leaf l hl]
    simp only [List.map_cons, List.sum_cons, hdv k]
    simp only [velAt, setU]
    ring

theorem forall_mem_setLeaves (P : PUnit ℚ → Prop) : ∀ (ups : List (Upd ℚ)) (ls : List (PUnit ℚ)),
    (∀ l ∈ ls, P l) → (∀ u ∈ ups, ∀ l, P l → P (setU u l)) → ∀ l ∈ setLeaves ls ups, P l
  | [], ls, h, _ => by simpa using h
  | u :: ups, ls, h, hg => by
    rw [setLeaves_cons]
    exact forall_mem_setLeaves P ups _
      (forall_mem_modify P _ ls u.leaf h (fun x hx => hg u (by simp) x (h x (List.mem_of_getElem? hx))))
      (fun u' hu' => hg u' (by simp [hu']))

theorem map_setLeaves_of_eq {γ : Type} (f : PUnit ℚ → γ) (hf : ∀ u l, f (setU u l) = f l) :
    ∀ (ups : List (Upd ℚ)) (ls : List (PUnit ℚ)), (setLeaves ls ups).map f = ls.map f
  | [], ls => rfl
  | u :: ups, ls => by
    rw [setLeaves_cons, map_setLeaves_of_eq f hf ups, map_modify_of_eq f _ (hf u)]

theorem pendOf_eq (w : ℚ) (ups : List (Upd ℚ)) : pendOf w ups = pendFrom w none ups := rfl

theorem pendFrom_cons_none {w : ℚ} {p : Option (List ℚ)} {u : Upd ℚ} {ups : List (Upd ℚ)} (h : u.dv = none) :
    pendFrom w p (u :: ups) = pendFrom w p ups := by
  simp [pendFrom, h]

theorem pendFrom_cons_some {w : ℚ} {p : Option (List ℚ)} {u : Upd ℚ} {ups : List (Upd ℚ)} {dv : List ℚ} (h : u.dv = some dv) :
    pendFrom w p (u :: ups) = pendFrom w (register p (vscale dv w)) ups := by
  simp [pendFrom, h]

theorem velOpt_register (d : Nat) (p : Option (List ℚ)) (ch : List ℚ) (hp : ∀ q, p = some q → q.length = d)
    (hch : ch.length = d) (k : Nat) :
    velOpt (register p ch) k = velOpt p k + ch.getD k 0 ∧ ∀ q, register p ch = some q → q.length = d := by
  cases hp' : p with
  | none =>
    refine ⟨by simp only [register, velOpt, zero_add], ?_⟩
    intro q hq
    simp only [register, Option.some.injEq] at hq
    rw [← hq]; exact hch
  | some p0 =>
    have hl : p0.length = ch.length := by rw [hp p0 hp', hch]
    refine ⟨by simp only [register, velOpt]; exact getD_vadd _ _ hl k, ?_⟩
    intro q hq
    simp only [register, Option.some.injEq] at hq
    rw [← hq, length_vadd _ _ hl]; exact hp p0 hp'

/-- the pending change of the root, read coordinate-wise -/
theorem pend_fold (d : Nat) (w : ℚ) (k : Nat) : ∀ (ups : List (Upd ℚ)) (p : Option (List ℚ)),
    (∀ q, p = some q → q.length = d) → (∀ u ∈ ups, ∀ dv, u.dv = some dv → dv.length = d) →
    velOpt (pendFrom w p ups) k = velOpt p k + (ups.map (fun u => dvAt u k)).sum * w ∧
    (∀ q, pendFrom w p ups = some q → q.length = d) ∧
    (pendFrom w p ups = none → p = none ∧ ∀ u ∈ ups, u.dv = none)
  | [], p, hp, _ => by
    refine ⟨by simp [pendFrom], by simpa [pendFrom] using hp, ?_⟩
    intro h; exact ⟨by simpa [pendFrom] using h, by simp⟩
  | u :: ups, p, hp, hu => by
    cases hdv : u.dv with
    | none =>
      rw [pendFrom_cons_none hdv]
      obtain ⟨h1, h2, h3⟩ := pend_fold d w k ups p hp (fun u' hu' => hu u' (by simp [hu']))
      refine ⟨?_, h2, ?_⟩
      · rw [h1]
        have : dvAt u k = 0 := by simp only [dvAt, hdv, velOpt]
        simp only [List.map_cons, List.sum_cons, this, zero_add]
      · intro hr
        obtain ⟨a, b⟩ := h3 hr
        refine ⟨a, ?_⟩
        intro u' hu'
        rcases List.mem_cons.mp hu' with rfl | hu'
        · exact hdv
        · exact b u' hu'
    | some dv =>
      rw [pendFrom_cons_some hdv]
      have hdl : dv.length = d := hu u (by simp) dv hdv
      obtain ⟨hr1, hr2⟩ := velOpt_register d p (vscale dv w) hp (by simpa using hdl) k
      obtain ⟨h1, h2, h3⟩ := pend_fold d w k ups (register p (vscale dv w)) hr2 (fun u' hu' => hu u' (by simp [hu']))
      refine ⟨?_, h2, ?_⟩
      · rw [h1, hr1, getD_vscale]
        have : dvAt u k = dv.getD k 0 := by simp only [dvAt, hdv, velOpt]
        simp only [List.map_cons, List.sum_cons, this]; ring
      · intro hr
        obtain ⟨a, _⟩ := h3 hr
        cases hp' : p <;> simp [register, hp'] at a

theorem weight_rat (c : CObj ℚ) : weight Ops.rat c = 1 / (c.leaves.length : ℚ) := by
  simp [weight, Ops.rat]

/-- `_commit_sub_tree_non_leaf_velocity_change` on the root, exact reading -/
theorem commitRoot_spec {d : Nat} {L : List ℚ} (hL : BoxOK d L) (t : Time ℚ) (p : Option (List ℚ))
    (hp : ∀ q, p = some q → q.length = d) {r : PUnit ℚ} (hr : WFU d r) :
    let r' := commitRoot Ops.rat isZ L t p r
    WFU d r' ∧ (∀ k, velAt r' k = velAt r k + velOpt p k) ∧
    (∀ k, k < d → Cong (L.getD k 0) (advAt r' (tval t) k) (advAt r (tval t) k)) ∧
    (∀ v', r'.vel = some v' → (r.vel = some v' ∧ p = none) ∨ (r.vel = none ∧ p = some v') ∨ (r.vel ≠ none ∧ NZ v')) := by
  cases p with
  | none =>
    simp only [commitRoot]
    exact ⟨hr, fun k => by simp [velOpt], fun k _ => Cong.refl _ _, fun v' h => Or.inl ⟨h, by first | rfl | trivial⟩⟩
  | some ch =>
    have hch : ch.length = d := hp ch rfl
    cases hvel : r.vel with
    | none =>
      simp only [commitRoot, hvel]
      refine ⟨⟨hr.1, ?_⟩, ?_, ?_, ?_⟩
      · intro v hv
        simp only [Option.some.injEq] at hv
        subst hv
        exact ⟨hch, rfl⟩
      · intro k; simp [velAt, velOpt, hvel]
      · intro k _
        apply Cong.of_eq
        simp [advAt, velAt, velOpt, hvel, tsVal]
      · intro v' hv'
        simp only [Option.some.injEq] at hv'
        exact Or.inr (Or.inl ⟨by first | rfl | trivial, by rw [hv']⟩)
    | some v =>
      obtain ⟨hvl, _⟩ := hr.2 v hvel
      obtain ⟨hw', hs', hc'⟩ := timeSlice_spec hL t hr
      have hvel' : (timeSlice Ops.rat L t r).vel = some v := by rw [timeSlice_vel, hvel]
      have hts' : (timeSlice Ops.rat L t r).ts = some t := hs' (by rw [hvel']; simp)
      simp only [commitRoot, hvel]
      have hlen : v.length = ch.length := by rw [hvl, hch]
      cases hz : (vadd v ch).all isZ with
      | true =>
        simp only [if_true]
        refine ⟨⟨hw'.1, by intro v0 h0; simp at h0⟩, ?_, ?_, ?_⟩
        · intro k
          have := all_zero_getD _ hz k
          rw [getD_vadd _ _ hlen] at this
          simp only [velAt, velOpt, hvel]; linarith
        · intro k hk
          refine Cong.trans (Cong.of_eq ?_) (hc' (tval t) k hk)
          rw [advAt_sliced hs' k]
          simp [advAt, velAt, velOpt]
        · intro v' hv'; simp at hv'
      | false =>
        simp only [Bool.false_eq_true, if_false]
        refine ⟨⟨hw'.1, ?_⟩, ?_, ?_, ?_⟩
        · intro v0 h0
          simp only [Option.some.injEq] at h0
          subst h0
          exact ⟨by rw [length_vadd _ _ hlen, hvl], by rw [hts']; rfl⟩
        · intro k
          simp only [velAt, velOpt, hvel]; exact getD_vadd _ _ hlen k
        · intro k hk
          refine Cong.trans (Cong.of_eq ?_) (hc' (tval t) k hk)
          rw [advAt_sliced hs' k]
          simp [advAt, velAt, velOpt, tsVal, hts']
        · intro v' hv'
          simp only [Option.some.injEq] at hv'
          subst hv'
          exact Or.inr (Or.inr ⟨by simp, not_all_zero_NZ _ hz⟩)

/-- The generic step: leaf updates that register `new − old` for every leaf they touch, applied to a composite object
whose leaves were time-sliced to the event time, preserve the invariant. -/
theorem applyUpds_good {d : Nat} {L : List ℚ} (hL : BoxOK d L) (t : Time ℚ) {c : CObj ℚ} {ups : List (Upd ℚ)}
    (hwf : WFC d c) (hv : VelC c) (hrnz : RNZ c) (hp : PosC L c (tval t))
    (hsl : ∀ l ∈ c.leaves, Sliced t l)
    (hups : UpdsOK d t c.leaves ups)
    (hsh' : Sh (setLeaves c.leaves ups))
    (hmove : c.root.vel = none → (∃ u ∈ ups, u.dv ≠ none) → ∃ l ∈ setLeaves c.leaves ups, l.vel ≠ none) :
    Good d L (applyUpds Ops.rat isZ L t ups c) := by
  obtain ⟨hwr, hwl, hne⟩ := hwf
  have hn : (c.leaves.length : ℚ) ≠ 0 := by
    have : c.leaves.length ≠ 0 := by simpa [List.length_eq_zero_iff] using hne
    exact_mod_cast this
  have hdvl : ∀ u ∈ ups, ∀ dv, u.dv = some dv → dv.length = d := fun u hu => (hups.ok u hu).choose_spec.2.2.1
  have hpend := fun k => pend_fold d (weight Ops.rat c) k ups none (by simp) hdvl
  simp only [← pendOf_eq] at hpend
  have hplen : ∀ q, pendOf (weight Ops.rat c) ups = some q → q.length = d := (hpend 0).2.1
  obtain ⟨hwr', hvel', hcong', hnz'⟩ := commitRoot_spec hL t (pendOf (weight Ops.rat c) ups) hplen hwr
  -- velocity sum
  have hV : VelC (applyUpds Ops.rat isZ L t ups c) := by
    intro k
    simp only [applyUpds, setLeaves_length]
    rw [hvel' k, sum_setLeaves_vel k ups c.leaves hups, ← hv k, (hpend k).1, weight_rat]
    simp only [velOpt, zero_add]
    field_simp
  have hsl' : ∀ l ∈ setLeaves c.leaves ups, Sliced t l := by
    apply forall_mem_setLeaves (Sliced t) ups c.leaves hsl
    intro u hu l _ hne'
    simp only [setU] at hne' ⊢
    cases huv : u.vel with
    | none => exact absurd huv hne'
    | some v => exact ((hups.ok u hu).choose_spec.2.1 v huv).2
  refine ⟨⟨hwr', ?_, ?_⟩, hV, hsh', ?_, ?_⟩
  · apply forall_mem_setLeaves (WFU d) ups c.leaves hwl
    intro u hu l hl
    refine ⟨hl.1, ?_⟩
    intro v huv
    simp only [setU] at huv
    obtain ⟨h1, h2⟩ := (hups.ok u hu).choose_spec.2.1 v huv
    exact ⟨h1, by simp [setU, h2]⟩
  · intro h
    have := setLeaves_length ups c.leaves
    simp only [applyUpds] at h
    rw [h] at this
    exact hne (List.length_eq_zero_iff.mp this.symm)
  · -- a stored root velocity is non-zero
    intro v' hv'
    rcases hnz' v' hv' with ⟨h1, _⟩ | ⟨h1, h2⟩ | ⟨_, h2⟩
    · exact hrnz v' h1
    · have hex : ∃ u ∈ ups, u.dv ≠ none := by
        by_contra hcon
        push Not at hcon
        have hnone : pendOf (weight Ops.rat c) ups = none := by
          have : ∀ (ups' : List (Upd ℚ)) (p : Option (List ℚ)), (∀ u ∈ ups', u.dv = none) →
              pendFrom (weight Ops.rat c) p ups' = p := by
            intro ups'
            induction ups' with
            | nil => intro p _; rfl
            | cons u us ih =>
              intro p hall
              rw [pendFrom_cons_none (hall u (by simp))]
              exact ih p (fun u' hu' => hall u' (by simp [hu']))
          exact this ups none hcon
        rw [hnone] at h2
        exact absurd h2 (by simp)
      obtain ⟨l', hl', hlne⟩ := hmove h1 hex
      obtain ⟨w, ⟨k, hk⟩, hshw⟩ := hsh'
      obtain ⟨m, hm, hpos⟩ := sum_vel_shared w k _ hshw
      have hm0 := hpos ⟨l', hl', hlne⟩
      have hVk := hV k
      simp only [applyUpds, setLeaves_length] at hVk
      rw [hm] at hVk
      refine ⟨k, ?_⟩
      intro hzero
      have e : velAt (commitRoot Ops.rat isZ L t (pendOf (weight Ops.rat c) ups) c.root) k = 0 := by
        simp only [velAt, velOpt]
        simp only [applyUpds] at hv'
        rw [hv']
        exact hzero
      rw [e] at hVk
      have hm' : (m : ℚ) ≠ 0 := by exact_mod_cast (Nat.pos_iff_ne_zero.mp hm0)
      have : (m : ℚ) * w.getD k 0 = 0 := by rw [← hVk]; ring
      rcases mul_eq_zero.mp this with h | h
      · exact hm' h
      · exact hk h
    · exact h2
  · -- positions: at the event time, then at every time
    have hP : PosC L (applyUpds Ops.rat isZ L t ups c) (tval t) := by
      intro k hk
      have hk' : k < d := by rw [← hL.1]; exact hk
      simp only [applyUpds, setLeaves_length]
      have h1 := Cong.nat_mul c.leaves.length (hcong' k hk')
      have e1 : ((setLeaves c.leaves ups).map (fun l => advAt l (tval t) k)).sum
          = ((setLeaves c.leaves ups).map (fun l => l.pos.getD k 0)).sum :=
        sum_map_congr _ _ _ (fun l hl => advAt_sliced (hsl' l hl) k)
      have e2 : (c.leaves.map (fun l => advAt l (tval t) k)).sum = (c.leaves.map (fun l => l.pos.getD k 0)).sum :=
        sum_map_congr _ _ _ (fun l hl => advAt_sliced (hsl l hl) k)
      rw [e1, map_setLeaves_of_eq (fun l => l.pos.getD k 0) (fun _ _ => rfl), ← e2]
      exact h1.trans (hp k hk)
    exact fun τ => pos_shift hV hP τ

end JF.Composite
