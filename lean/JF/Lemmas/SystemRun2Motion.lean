import JF.Lemmas.ConcreteWorld2Inv
import JF.Props.C08
/-!
The concrete motion relation of C08 (`JF.C08.Motion`) for the world of composite objects without cells (`JF.CW2`).

Units are identified like in the tree state handler: `[i]` is the root unit of composite object `i`, `[i, j]` its point mass `j`.
`SameTraj d L x y`: unit `y` has the velocity of `x`, the position of `x` if it is at rest, and the trajectory
`τ ↦ pos + vel · (τ − time stamp)` of `y` is that of `x` modulo the box lengths — "the straight-line trajectory that is still
current".  The relation is reflexive and transitive for ALL states, and the one event kind that the handler classes of the taggers
with `affects · .motion = false` commit in this world (`keep`: time-slice the in-state, nothing else) preserves it for every unit
of a state satisfying C12's `AllGood` (`same_sliceAt`).
-/
namespace JF.Sys2
open JF JF.Act JF.CW2 JF.Composite JF.C12

/-- the unit with identifier `u` -/
def unitAt (cs : List (CObj ℚ)) : List Nat → Option (PUnit ℚ)
  | [i] => (cs[i]?).map (·.root)
  | [i, j] => (cs[i]?).bind (fun c => c.leaves[j]?)
  | _ => none

/-- same velocity, same position if at rest, same trajectory modulo the box -/
def SameTraj (d : Nat) (L : List ℚ) (x y : PUnit ℚ) : Prop :=
  x.vel = y.vel ∧ (x.vel = none → x.pos = y.pos) ∧ ∀ τ k, k < d → Cong (L.getD k 0) (advAt y τ k) (advAt x τ k)

theorem SameTraj.refl (d : Nat) (L : List ℚ) (x : PUnit ℚ) : SameTraj d L x x :=
  ⟨rfl, fun _ => rfl, fun _ _ _ => Cong.refl _ _⟩

theorem SameTraj.trans {d : Nat} {L : List ℚ} {x y z : PUnit ℚ} (h1 : SameTraj d L x y) (h2 : SameTraj d L y z) :
    SameTraj d L x z :=
  ⟨h1.1.trans h2.1, fun hx => (h1.2.1 hx).trans (h2.2.1 (h1.1 ▸ hx)), fun τ k hk => (h2.2.2 τ k hk).trans (h1.2.2 τ k hk)⟩

/-- `_time_slice_unit` keeps a well-formed unit on its trajectory -/
theorem sameTraj_timeSlice {d : Nat} {L : List ℚ} (hL : BoxOK d L) (t : Time ℚ) {u : PUnit ℚ} (hu : WFU d u) :
    SameTraj d L u (Kin.timeSlice Ops.rat L t u) := by
  refine ⟨(timeSlice_vel L t u).symm, fun hv => ?_, (timeSlice_spec hL t hu).2.2⟩
  unfold Kin.timeSlice; rw [hv]

/-- unit `u` keeps its motion from `cs` to `cs'` -/
def SameMotion2 (d : Nat) (L : List ℚ) (cs cs' : List (CObj ℚ)) (u : List Nat) : Prop :=
  match unitAt cs u, unitAt cs' u with
  | some x, some y => SameTraj d L x y
  | none, none => True
  | _, _ => False

theorem SameMotion2.refl (d : Nat) (L : List ℚ) (cs : List (CObj ℚ)) (u : List Nat) : SameMotion2 d L cs cs u := by
  unfold SameMotion2
  cases unitAt cs u with
  | none => trivial
  | some x => exact SameTraj.refl d L x

theorem SameMotion2.trans {d : Nat} {L : List ℚ} {cs1 cs2 cs3 : List (CObj ℚ)} {u : List Nat}
    (h1 : SameMotion2 d L cs1 cs2 u) (h2 : SameMotion2 d L cs2 cs3 u) : SameMotion2 d L cs1 cs3 u := by
  unfold SameMotion2 at h1 h2 ⊢
  cases e1 : unitAt cs1 u <;> cases e2 : unitAt cs2 u <;> cases e3 : unitAt cs3 u <;> rw [e1, e2] at h1 <;> rw [e2, e3] at h2 <;>
    simp only at h1 h2 ⊢ <;> try trivial
  exact h1.trans h2

/-- what time-slicing composite object `i` does to the unit `u` -/
theorem unitAt_modify_slice (L : List ℚ) (t : Time ℚ) (cs : List (CObj ℚ)) (i : Nat) (u : List Nat) :
    unitAt (cs.modify i (sliceComp Ops.rat L t)) u =
      if u.head? = some i then (unitAt cs u).map (Kin.timeSlice Ops.rat L t) else unitAt cs u := by
  match u with
  | [] => simp [unitAt]
  | [a] =>
    simp only [unitAt, List.head?_cons, Option.some.injEq]
    by_cases h : a = i
    · subst h
      rw [getElem?_modify_self, if_pos rfl]
      cases cs[a]? <;> simp [sliceComp]
    · rw [getElem?_modify_ne _ _ (fun e => h e.symm), if_neg h]
  | [a, b] =>
    simp only [unitAt, List.head?_cons, Option.some.injEq]
    by_cases h : a = i
    · subst h
      rw [getElem?_modify_self, if_pos rfl]
      cases cs[a]? with
      | none => simp
      | some c => simp [sliceComp, List.getElem?_map]
    · rw [getElem?_modify_ne _ _ (fun e => h e.symm), if_neg h]
  | _ :: _ :: _ :: _ => simp [unitAt]

/-- the units of a state satisfying C12's invariant are well formed -/
theorem wfu_unitAt {d : Nat} {L : List ℚ} {cs : List (CObj ℚ)} (h : AllGood d L cs) {u : List Nat} {x : PUnit ℚ}
    (hx : unitAt cs u = some x) : WFU d x := by
  match u with
  | [] => simp [unitAt] at hx
  | [a] =>
    simp only [unitAt] at hx
    cases hc : cs[a]? with
    | none => rw [hc] at hx; simp at hx
    | some c =>
      rw [hc] at hx
      simp only [Option.map_some, Option.some.injEq] at hx
      subst hx
      exact (h.get hc).wf.1
  | [a, b] =>
    simp only [unitAt] at hx
    cases hc : cs[a]? with
    | none => rw [hc] at hx; simp at hx
    | some c =>
      rw [hc] at hx
      simp only [Option.bind_some] at hx
      exact (h.get hc).wf.2.1 x (List.mem_of_getElem? hx)
  | _ :: _ :: _ :: _ => simp [unitAt] at hx

/-- **`keep`: every unit keeps its motion** (the in-state `S` is time-sliced, nothing else happens) -/
theorem same_sliceAt {d : Nat} {L : List ℚ} (hL : BoxOK d L) (t : Time ℚ) : ∀ (S : List Nat) {cs : List (CObj ℚ)},
    AllGood d L cs → ∀ u, SameMotion2 d L cs (sliceAt Ops.rat L t S cs) u
  | [], cs, _, u => SameMotion2.refl d L cs u
  | i :: S, cs, h, u => by
    rw [sliceAt_cons]
    have hg : AllGood d L (cs.modify i (sliceComp Ops.rat L t)) :=
      allGood_modify h i _ (fun c hc => (sliceComp_good hL t (h.get hc)).1)
    refine SameMotion2.trans ?_ (same_sliceAt hL t S hg u)
    unfold SameMotion2
    rw [unitAt_modify_slice]
    by_cases hh : u.head? = some i
    · rw [if_pos hh]
      cases hx : unitAt cs u with
      | none => trivial
      | some x => exact sameTraj_timeSlice hL t (wfu_unitAt h hx)
    · rw [if_neg hh]
      cases hx : unitAt cs u with
      | none => trivial
      | some x => exact SameTraj.refl d L x

/-- the units of the in-state extracted for an identifier: the root unit and the point mass(es) of the branch
(`TreeStateHandler.extract_from_global_state`: for `(i,)` the root with all its children, for `(i, j)` the root with the child `j`) -/
def branchUnits (nPer : Nat) : List Nat → List (List Nat)
  | [i] => [i] :: (List.range nPer).map fun j => [i, j]
  | [i, j] => [[i], [i, j]]
  | _ => []

/-- the motion world of configuration `mw`: units are identifiers of root units and point masses -/
def motion2 (env : Env ℚ) (mw : ModeWiring) : C08.Motion (G env) (List Nat) where
  units ids := (ids.getD []).flatMap (branchUnits env.nPer)
  same g g' u := SameMotion2 env.d env.L g.1.cs g'.1.cs u
  same_refl g u := SameMotion2.refl env.d env.L g.1.cs u
  same_trans _ _ _ _ h1 h2 := h1.trans h2
  moves E := affects (mw.w.tagger E) .motion = true
  bound T := T < mw.w.n ∧ motionBound (mw.w.tagger T) = true

end JF.Sys2
