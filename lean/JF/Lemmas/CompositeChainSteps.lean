import JF.Lemmas.CompositeChain
/-!
One-chain invariant of the two-level machine `JF.Composite.step`, part 2: every event kind.

Each `…_chain` lemma takes the invariant (`MovingAt` in the mode the event kind belongs to) and the *weak* facts about the
event (indices in range, the designated source moves) and returns
* the *strong* facts the per-event theorems of `JF/Lemmas/CompositeSteps.lean` assume (the receiver is at rest as a
  whole, only the designated leaf / all leaves of the source move, …), and
* the invariant after the event.
-/
namespace JF.Composite
open JF JF.Kin

theorem cover_range_map (n : Nat) (mk : Nat → Upd ℚ) (hleaf : ∀ k, (mk k).leaf = k) :
    ∀ k, k < n → k ∈ ((List.range n).map mk).map (·.leaf) := by
  intro k hk
  rw [List.map_map]
  exact List.mem_map.mpr ⟨k, List.mem_range.mpr hk, hleaf k⟩

theorem cover_filter_map (n a : Nat) (mk : Nat → Upd ℚ) (hleaf : ∀ k, (mk k).leaf = k) :
    ∀ k, k < n → k ≠ a → k ∈ (((List.range n).filter (· != a)).map mk).map (·.leaf) := by
  intro k hk hne
  rw [List.map_map]
  exact List.mem_map.mpr ⟨k, mem_filter_range_ne hk hne, hleaf k⟩

theorem not_mem_filter_map (n a : Nat) (mk : Nat → Upd ℚ) (hleaf : ∀ k, (mk k).leaf = k) :
    a ∉ (((List.range n).filter (· != a)).map mk).map (·.leaf) := by
  rw [List.map_map]
  intro h
  obtain ⟨k, hk, e⟩ := List.mem_map.mp h
  simp only [Function.comp, hleaf] at e
  subst e
  exact not_mem_filter_range_ne n k hk

/-! ### events that keep all velocities -/

theorem keep_chain {cs : List (CObj ℚ)} {i : Nat} {P : CObj ℚ → Prop} (hP : VelInv P) (hM : MovingAt cs i P) (L : List ℚ)
    (t : Time ℚ) (S : List Nat) : MovingAt (step Ops.rat isZ L cs (.keep t S)) i P :=
  hM.sliceAt hP L t S

theorem snap_chain {cs : List (CObj ℚ)} {i : Nat} {P : CObj ℚ → Prop} (hP : VelInv P) (hM : MovingAt cs i P) (L : List ℚ)
    (t : Time ℚ) (S : List Nat) (i' : Nat) (j : Option Nat) (dd : Nat) (x : ℚ) :
    MovingAt (step Ops.rat isZ L cs (.snap t S i' j dd x)) i P := by
  show MovingAt (snap Ops.rat L t S i' j dd x cs) i P
  unfold snap
  apply (hM.sliceAt hP L t S).modify_vel hP
  intro c
  cases j with
  | none => rfl
  | some j =>
    show (c.leaves.modify j (fun l => { l with pos := setCoord l.pos dd x })).map (·.vel) = c.leaves.map (·.vel)
    exact map_modify_of_eq (·.vel) (fun l : PUnit ℚ => { l with pos := setCoord l.pos dd x }) (fun _ => rfl) c.leaves j

/-! ### leaf mode -/

/-- `_exchange_velocity` in leaf mode.  Weak facts: source leaf `(i, j)` moves, target leaf `(i', j')` exists and is not
the source. -/
theorem exchange_chain {L : List ℚ} {cs : List (CObj ℚ)} {i0 j0 : Nat} {v0 : List ℚ}
    (hM : MovingAt cs i0 (fun c => OneL j0 v0 c.leaves)) (t : Time ℚ) (S : List Nat) (i j i' j' : Nat) {a b : PUnit ℚ}
    {v : List ℚ} (ha : leafOf (sliceAt Ops.rat L t S cs) i j = some a) (hav : a.vel = some v)
    (hb : leafOf (sliceAt Ops.rat L t S cs) i' j' = some b) (hne : i = i' → j ≠ j') :
    b.vel = none ∧
    (i ≠ i' → ∀ c', (sliceAt Ops.rat L t S cs)[i']? = some c' → ∀ l ∈ c'.leaves, l.vel = none) ∧
    MovingAt (step Ops.rat isZ L cs (.exchange t S i j i' j')) i' (fun c => OneL j' v0 c.leaves) := by
  have hMs := hM.sliceAt (velInv_one j0 v0) L t S
  show _ ∧ _ ∧ MovingAt (exchange Ops.rat isZ L t S i j i' j' cs) i' _
  unfold exchange
  simp only [ha, hav]
  generalize sliceAt Ops.rat L t S cs = sl at *
  unfold leafOf at ha hb
  cases hc : sl[i]? with
  | none => simp [hc] at ha
  | some c =>
  cases hc' : sl[i']? with
  | none => simp [hc'] at hb
  | some c' =>
  simp only [hc] at ha
  simp only [hc'] at hb
  obtain ⟨rfl, rfl, rfl, hone⟩ := hMs.src_leaf hc ha hav
  rw [scale1_rat]
  unfold apply2
  by_cases hii : i = i'
  · subst hii
    rw [hc] at hc'; simp only [Option.some.injEq] at hc'; subst hc'
    have hjj := hne rfl
    have hbv : b.vel = none := hone.2 j' b hb (fun e => hjj e.symm)
    refine ⟨hbv, fun h => absurd rfl h, ?_⟩
    simp only [beq_self_eq_true, if_true]
    apply hMs.modify_self
    intro c0 hc0 h0
    rw [hc] at hc0; simp only [Option.some.injEq] at hc0; subst hc0
    exact oneL_move h0 hb hjj _ _ _ _ _
  · have hrest : RestL c'.leaves := hMs.rest_of_ne hc' (fun e => hii e.symm)
    refine ⟨hrest b (List.mem_of_getElem? hb), ?_, ?_⟩
    · intro _ c'' hc''
      simp only [Option.some.injEq] at hc''; subst hc''
      exact hrest
    have hbeq : (i == i') = false := by simpa using hii
    simp only [hbeq, Bool.false_eq_true, if_false]
    refine hMs.move hii _ _ ?_ hc' ?_
    · intro c0 hc0 h0
      rw [hc] at hc0; simp only [Option.some.injEq] at hc0; subst hc0
      exact restL_stop h0 _ _
    · intro hr
      exact oneL_go hr hb _ _ _

/-- end of chain in leaf mode.  Weak facts: source leaf `(i, j)` moves, the new leaf `(i', j')` exists, the new velocity is
non-zero. -/
theorem eocLeaf_chain {L : List ℚ} {cs : List (CObj ℚ)} {i0 j0 : Nat} {v0 : List ℚ}
    (hM : MovingAt cs i0 (fun c => OneL j0 v0 c.leaves)) (t : Time ℚ) (i j i' j' : Nat) (vn : List ℚ)
    {c0 c' : CObj ℚ} {a b : PUnit ℚ} {old : List ℚ} (hc0 : cs[i]? = some c0)
    (ha : (sliceComp Ops.rat L t c0).leaves[j]? = some a) (hav : a.vel = some old)
    (hc' : (sliceAt Ops.rat L t [i] cs)[i']? = some c') (hb : c'.leaves[j']? = some b) (hNZ : NZ vn) :
    old = v0 ∧
    (∀ k l, (sliceComp Ops.rat L t c0).leaves[k]? = some l → k ≠ j → l.vel = none) ∧
    (i ≠ i' → ∀ l ∈ c'.leaves, l.vel = none) ∧
    MovingAt (step Ops.rat isZ L cs (.eocLeaf t i j i' j' vn)) i' (fun c => OneL j' vn c.leaves) := by
  have hMs := hM.sliceAt (velInv_one j0 v0) L t [i]
  show _ ∧ _ ∧ _ ∧ MovingAt (eocLeaf Ops.rat isZ L t i j i' j' vn cs) i' _
  unfold eocLeaf
  have hc : (sliceAt Ops.rat L t [i] cs)[i]? = some (sliceComp Ops.rat L t c0) := by
    rw [sliceAt_single, getElem?_modify_self, hc0]; rfl
  generalize sliceAt Ops.rat L t [i] cs = sl at *
  obtain ⟨rfl, rfl, rfl, hone⟩ := hMs.src_leaf hc ha hav
  have hleaf : leafOf sl i j = some a := by simp [leafOf, hc, ha]
  simp only [hleaf, hc0, hav, finalize_NZ hNZ, finalize_zeros]
  refine ⟨trivial, hone.2, ?_⟩
  by_cases hii : i = i'
  · subst hii
    refine ⟨fun h => absurd rfl h, ?_⟩
    simp only [beq_self_eq_true, if_true]
    rw [hc] at hc'; simp only [Option.some.injEq] at hc'; subst hc'
    by_cases hjj : j = j'
    · subst hjj
      simp only [beq_self_eq_true, if_true]
      apply hMs.modify_self
      intro c1 hc1 h1
      exact oneL_change h1 _ _ _
    · have hbeq : (j == j') = false := by simpa using hjj
      simp only [hbeq, Bool.false_eq_true, if_false]
      apply hMs.modify_self
      intro c1 hc1 h1
      rw [hc] at hc1; simp only [Option.some.injEq] at hc1; subst hc1
      exact oneL_move h1 hb hjj _ _ _ _ _
  · have hrest : RestL c'.leaves := hMs.rest_of_ne hc' (fun e => hii e.symm)
    refine ⟨fun _ => hrest, ?_⟩
    have hbeq : (i == i') = false := by simpa using hii
    simp only [hbeq, Bool.false_eq_true, if_false]
    refine hMs.move hii _ _ ?_ hc' ?_
    · intro c1 hc1 h1
      exact restL_stop h1 _ _
    · intro hr
      exact oneL_go hr hb _ _ _

/-- switcher to root mode.  Weak fact: object `i` has a moving leaf. -/
theorem toRoot_chain {L : List ℚ} {cs : List (CObj ℚ)} {i0 j0 : Nat} {v0 : List ℚ}
    (hM : MovingAt cs i0 (fun c => OneL j0 v0 c.leaves)) (t : Time ℚ) (i : Nat) {co : CObj ℚ} {a : PUnit ℚ}
    (hco : (sliceAt Ops.rat L t [i] cs)[i]? = some co) (ha : a ∈ co.leaves) (hav : a.vel ≠ none) :
    (∃ ua, activeLeaf co = some j0 ∧ co.leaves[j0]? = some ua ∧ ua.vel = some v0 ∧
      ∀ k l, co.leaves[k]? = some l → k ≠ j0 → l.vel = none) ∧
    MovingAt (step Ops.rat isZ L cs (.toRoot t i)) i (fun c => AllL v0 c.leaves) := by
  have hMs := hM.sliceAt (velInv_one j0 v0) L t [i]
  show _ ∧ MovingAt (toRoot Ops.rat isZ L t i cs) i _
  unfold toRoot
  generalize sliceAt Ops.rat L t [i] cs = sl at *
  have hi : i = i0 := hMs.eq_of_moving hco ha hav
  subst hi
  have hone : OneL j0 v0 co.leaves := hMs.get hco
  have hact := activeLeaf_of_oneL hone
  obtain ⟨⟨ua, hua, hv⟩, ho⟩ := id hone
  refine ⟨⟨ua, hact, hua, hv, ho⟩, ?_⟩
  simp only [hco, hact, hua, hv, scaleN_rat]
  rw [zipIdx_map_fst (fun k => (⟨k, some v0, ua.ts, some v0⟩ : Upd ℚ))]
  apply hMs.modify_self
  intro c1 hc1 h1
  rw [hco] at hc1; simp only [Option.some.injEq] at hc1; subst hc1
  show AllL v0 (setLeaves co.leaves _)
  have hne : co.leaves ≠ [] := List.ne_nil_of_mem ha
  apply allL_setAll hne
  · intro u hu
    rcases List.mem_append.mp hu with hu | hu
    · obtain ⟨k, _, rfl⟩ := List.mem_map.mp hu; rfl
    · simp only [List.mem_cons, List.not_mem_nil, or_false] at hu
      subst hu; rfl
  · intro k hk
    rw [List.map_append]
    by_cases hka : k = j0
    · subst hka; simp
    · exact List.mem_append_left _ (cover_filter_map _ _ _ (fun _ => rfl) k hk hka)

/-! ### root mode -/

/-- `_pass_composite_object_velocity`.  Weak facts: object `iL` has a moving leaf, `iT ≠ iL` exists. -/
theorem pass_chain {L : List ℚ} {cs : List (CObj ℚ)} {i0 : Nat} {v0 : List ℚ}
    (hM : MovingAt cs i0 (fun c => AllL v0 c.leaves)) (t : Time ℚ) (S : List Nat) (iL iT : Nat) (hne : iL ≠ iT)
    {cL cT : CObj ℚ} {a : PUnit ℚ} (hcL : (sliceAt Ops.rat L t S cs)[iL]? = some cL)
    (hcT : (sliceAt Ops.rat L t S cs)[iT]? = some cT) (ha : a ∈ cL.leaves) (hav : a.vel ≠ none) (hTne : cT.leaves ≠ []) :
    (∀ l ∈ cL.leaves, l.vel = some v0) ∧ (∀ l ∈ cT.leaves, l.vel = none) ∧
    MovingAt (step Ops.rat isZ L cs (.pass t S iL iT)) iT (fun c => AllL v0 c.leaves) := by
  have hMs := hM.sliceAt (velInv_all v0) L t S
  show _ ∧ _ ∧ MovingAt (pass Ops.rat isZ L t S iL iT cs) iT _
  unfold pass
  generalize sliceAt Ops.rat L t S cs = sl at *
  obtain ⟨rfl, hall⟩ := hMs.src_root hcL ha hav
  have hrest : RestL cT.leaves := hMs.rest_of_ne hcT (fun e => hne e.symm)
  refine ⟨hall.2, hrest, ?_⟩
  obtain ⟨a0, ha0, ham0⟩ := exists_getElem?_of_lt (List.length_pos_iff.mpr hall.1)
  have hleaf : leafOf sl iL 0 = some a0 := by simp [leafOf, hcL, ha0]
  have hbeq : (iL == iT) = false := by simpa using hne
  simp only [hleaf, hcL, hcT, hall.2 a0 ham0, hbeq, Bool.false_eq_true, if_false, passLocalUpds_rat, passTargetUpds_rat]
  refine hMs.move hne _ _ ?_ hcT ?_
  · intro c1 hc1 _
    rw [hcL] at hc1; simp only [Option.some.injEq] at hc1; subst hc1
    show RestL (setLeaves cL.leaves _)
    apply restL_setAll
    · intro u hu
      obtain ⟨k, _, rfl⟩ := List.mem_map.mp hu; rfl
    · exact cover_range_map _ _ (fun _ => rfl)
  · intro _
    show AllL v0 (setLeaves cT.leaves _)
    apply allL_setAll hTne
    · intro u hu
      obtain ⟨k, _, rfl⟩ := List.mem_map.mp hu; rfl
    · exact cover_range_map _ _ (fun _ => rfl)

/-- end of chain in root mode.  Weak facts: object `i` has a moving leaf, `i'` exists, the new velocity is non-zero. -/
theorem eocRoot_chain {L : List ℚ} {cs : List (CObj ℚ)} {i0 : Nat} {v0 : List ℚ}
    (hM : MovingAt cs i0 (fun c => AllL v0 c.leaves)) (t : Time ℚ) (i i' : Nat) (vn : List ℚ)
    {c c' : CObj ℚ} {a : PUnit ℚ} (hc : (sliceAt Ops.rat L t [i] cs)[i]? = some c)
    (hc' : (sliceAt Ops.rat L t [i] cs)[i']? = some c') (ha : a ∈ c.leaves) (hav : a.vel ≠ none) (hNZ : NZ vn)
    (hne' : c'.leaves ≠ []) :
    (∀ l ∈ c.leaves, l.vel = some v0) ∧ (i ≠ i' → ∀ l ∈ c'.leaves, l.vel = none) ∧
    MovingAt (step Ops.rat isZ L cs (.eocRoot t i i' vn)) i' (fun c => AllL vn c.leaves) := by
  have hMs := hM.sliceAt (velInv_all v0) L t [i]
  show _ ∧ _ ∧ MovingAt (eocRoot Ops.rat isZ L t i i' vn cs) i' _
  unfold eocRoot
  generalize sliceAt Ops.rat L t [i] cs = sl at *
  obtain ⟨rfl, hall⟩ := hMs.src_root hc ha hav
  refine ⟨hall.2, ?_⟩
  obtain ⟨a0, ha0, ham0⟩ := exists_getElem?_of_lt (List.length_pos_iff.mpr hall.1)
  have hleaf : leafOf sl i 0 = some a0 := by simp [leafOf, hc, ha0]
  simp only [hleaf, hc, hc', hall.2 a0 ham0, finalize_NZ hNZ, finalize_zeros]
  by_cases hii : i = i'
  · subst hii
    refine ⟨fun h => absurd rfl h, ?_⟩
    simp only [beq_self_eq_true, if_true]
    apply hMs.modify_self
    intro c1 hc1 _
    rw [hc] at hc1; simp only [Option.some.injEq] at hc1; subst hc1
    show AllL vn (setLeaves c.leaves _)
    apply allL_setAll hall.1
    · intro u hu
      obtain ⟨k, _, rfl⟩ := List.mem_map.mp hu; rfl
    · exact cover_range_map _ _ (fun _ => rfl)
  · have hrest : RestL c'.leaves := hMs.rest_of_ne hc' (fun e => hii e.symm)
    refine ⟨fun _ => hrest, ?_⟩
    have hbeq : (i == i') = false := by simpa using hii
    simp only [hbeq, Bool.false_eq_true, if_false]
    refine hMs.move hii _ _ ?_ hc' ?_
    · intro c1 hc1 _
      rw [hc] at hc1; simp only [Option.some.injEq] at hc1; subst hc1
      show RestL (setLeaves c.leaves _)
      apply restL_setAll
      · intro u hu
        obtain ⟨k, _, rfl⟩ := List.mem_map.mp hu; rfl
      · exact cover_range_map _ _ (fun _ => rfl)
    · intro _
      show AllL vn (setLeaves c'.leaves _)
      apply allL_setAll hne'
      · intro u hu
        obtain ⟨k, _, rfl⟩ := List.mem_map.mp hu; rfl
      · exact cover_range_map _ _ (fun _ => rfl)

/-- switcher to leaf mode.  Weak facts: object `i` has a moving leaf, the chosen leaf `ch` exists. -/
theorem toLeaf_chain {L : List ℚ} {cs : List (CObj ℚ)} {i0 : Nat} {v0 : List ℚ}
    (hM : MovingAt cs i0 (fun c => AllL v0 c.leaves)) (t : Time ℚ) (i ch : Nat) {co : CObj ℚ} {a : PUnit ℚ}
    (hco : (sliceAt Ops.rat L t [i] cs)[i]? = some co) (ha : a ∈ co.leaves) (hav : a.vel ≠ none)
    (hch : ch < co.leaves.length) :
    (∀ l ∈ co.leaves, l.vel = some v0) ∧
    MovingAt (step Ops.rat isZ L cs (.toLeaf t i ch)) i (fun c => OneL ch v0 c.leaves) := by
  have hMs := hM.sliceAt (velInv_all v0) L t [i]
  show _ ∧ MovingAt (toLeaf Ops.rat isZ L t i ch cs) i _
  unfold toLeaf
  generalize sliceAt Ops.rat L t [i] cs = sl at *
  obtain ⟨rfl, hall⟩ := hMs.src_root hco ha hav
  refine ⟨hall.2, ?_⟩
  obtain ⟨a0, ha0, ham0⟩ := exists_getElem?_of_lt (List.length_pos_iff.mpr hall.1)
  have hleaf : leafOf sl i 0 = some a0 := by simp [leafOf, hco, ha0]
  simp only [hleaf, hco, hall.2 a0 ham0]
  have e : ∀ ks : List Nat, (ks.zipIdx.map (fun (x : Nat × Nat) => match x with
      | (k, m) => (⟨k, none, none, some (scaleN Ops.rat m (vneg v0))⟩ : Upd ℚ)))
      = ks.map (fun k => (⟨k, none, none, some (vneg v0)⟩ : Upd ℚ)) := by
    intro ks
    rw [← zipIdx_map_fst (fun k => (⟨k, none, none, some (vneg v0)⟩ : Upd ℚ)) ks 0]
    apply List.map_congr_left
    rintro ⟨k, m⟩ _
    simp
  simp only [e]
  apply hMs.modify_self
  intro c1 hc1 _
  rw [hco] at hc1; simp only [Option.some.injEq] at hc1; subst hc1
  show OneL ch v0 (setLeaves co.leaves _)
  apply oneL_keep_only hall hch
  · intro u hu
    obtain ⟨k, _, rfl⟩ := List.mem_map.mp hu; rfl
  · exact not_mem_filter_map _ _ _ (fun _ => rfl)
  · exact cover_filter_map _ _ _ (fun _ => rfl)

/-! ### start of run -/

/-- start of run from the state at rest: one listed leaf -> leaf mode, all leaves listed -> root mode -/
theorem start_chain {cs : List (CObj ℚ)} (hR : AllRest cs) (L : List ℚ) (i : Nat) (P : List Nat) (v : List ℚ) {c : CObj ℚ}
    (hc : cs[i]? = some c) (hPn : ∀ k ∈ P, k < c.leaves.length) :
    (∀ k0, P = [k0] → MovingAt (step Ops.rat isZ L cs (.start i P v)) i (fun c => OneL k0 v c.leaves)) ∧
    ((∀ k, k < c.leaves.length → k ∈ P) → c.leaves ≠ [] →
      MovingAt (step Ops.rat isZ L cs (.start i P v)) i (fun c => AllL v c.leaves)) := by
  show (∀ k0, P = [k0] → MovingAt (start Ops.rat isZ L i P v cs) i _) ∧
    (_ → _ → MovingAt (start Ops.rat isZ L i P v cs) i _)
  unfold start
  have e : (P.zipIdx.map (fun (x : Nat × Nat) => match x with
      | (k, m) => (⟨k, some (scaleN Ops.rat m v), some ⟨Ops.rat.ofInt 0, Ops.rat.ofInt 0⟩, some (scaleN Ops.rat m v)⟩ : Upd ℚ)))
      = P.map (fun k => (⟨k, some v, some ⟨Ops.rat.ofInt 0, Ops.rat.ofInt 0⟩, some v⟩ : Upd ℚ)) := by
    rw [← zipIdx_map_fst (fun k => (⟨k, some v, some ⟨Ops.rat.ofInt 0, Ops.rat.ofInt 0⟩, some v⟩ : Upd ℚ)) P 0]
    apply List.map_congr_left
    rintro ⟨k, m⟩ _
    simp
  simp only [e]
  refine ⟨?_, ?_⟩
  · intro k0 hP
    subst hP
    obtain ⟨b, hb, _⟩ := exists_getElem?_of_lt (hPn k0 (by simp))
    apply MovingAt.of_rest hR hc
    intro hr
    exact oneL_go hr hb _ _ _
  · intro hcov hne
    apply MovingAt.of_rest hR hc
    intro _
    show AllL v (setLeaves c.leaves _)
    apply allL_setAll hne
    · intro u hu
      obtain ⟨k, _, rfl⟩ := List.mem_map.mp hu; rfl
    · intro k hk
      rw [List.map_map]
      exact List.mem_map.mpr ⟨k, hcov k hk, rfl⟩

end JF.Composite
