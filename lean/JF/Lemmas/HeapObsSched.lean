import JF.Lemmas.HeapObs
/-!
`LiveEq`: two states of the model of `HeapScheduler` that differ at most in the allocated size of the C
array and in the memory beyond `length`.  Every operation of the scheduler maps `LiveEq` states to
`LiveEq` states and returns the same result in both.
-/
namespace JF.Sched
open JF.Heap
variable {κ : Type} {cfg : Cfg κ}

/-- **same live part.**  Both heaps satisfy the invariant of C06 (`Inv`: no fault so far; nothing allocated
yet, or sentinel key at index 0 and the spare slot `length + 1 ≤ size`; heap order), they have the same
`length` — where the never-allocated heap (`length = 0`, what `__setstate__` builds from an empty pickle) counts
as the heap that holds just the sentinel (`length = 1`, what is left when the last entry was removed) —,
the same entries at the indices `1 … length - 1`, the same dictionary `_minimal_valid_counter` and the same
`_last_returned_event`.  Nothing is said about the allocated sizes, the memory at indices `≥ length` and the
handler/counter fields of the sentinel (they are never read: `insertLoop_sim`). -/
structure LiveEq (cfg : Cfg κ) (a b : HSched κ) : Prop where
  inva : Inv cfg a.heap
  invb : Inv cfg b.heap
  len : max a.heap.length 1 = max b.heap.length 1
  ent : ∀ i, 1 ≤ i → i < a.heap.length → get cfg a.heap i = get cfg b.heap i
  mv : a.mv = b.mv
  last : a.last = b.last

section
variable {a b c : HSched κ}

theorem LiveEq.nofault (E : LiveEq cfg a b) : a.heap.fault = false ∧ b.heap.fault = false :=
  ⟨E.inva.1.1, E.invb.1.1⟩

/-- lengths are literally equal as soon as one heap holds an entry -/
theorem LiveEq.length_eq (E : LiveEq cfg a b) (h : 1 < a.heap.length ∨ 1 < b.heap.length) :
    a.heap.length = b.heap.length := by
  have := E.len; omega

/-- the sentinel keys agree where both heaps have a sentinel -/
theorem LiveEq.sentinel (E : LiveEq cfg a b) (ha : 1 ≤ a.heap.length) (hb : 1 ≤ b.heap.length) :
    (get cfg a.heap 0).key = (get cfg b.heap 0).key := by
  obtain ⟨_, h | h⟩ := E.inva.1
  · omega
  · obtain ⟨_, h' | h'⟩ := E.invb.1
    · omega
    · rw [h.2.2, h'.2.2]

theorem LiveEq.refl (I : Inv cfg a.heap) : LiveEq cfg a a := ⟨I, I, rfl, fun _ _ _ => rfl, rfl, rfl⟩

theorem LiveEq.symm (E : LiveEq cfg a b) : LiveEq cfg b a :=
  ⟨E.invb, E.inva, E.len.symm, fun i h1 hi => (E.ent i h1 (by have := E.len; omega)).symm, E.mv.symm, E.last.symm⟩

theorem LiveEq.trans (E : LiveEq cfg a b) (F : LiveEq cfg b c) : LiveEq cfg a c :=
  ⟨E.inva, F.invb, E.len.trans F.len,
    fun i h1 hi => (E.ent i h1 hi).trans (F.ent i h1 (by have := E.len; omega)), E.mv.trans F.mv, E.last.trans F.last⟩

/-- `push_event`, all branches: infinite time (nothing happens), plain `insert` (with or without `realloc`,
with or without the first allocation), counter overflow (`delete_events`, then `insert` with counter 0) -/
theorem push_liveEq (o : StrictWeak cfg) (E : LiveEq cfg a b) (W : Nat) (t : κ) (h : Nat) :
    LiveEq cfg (a.push cfg W t h) (b.push cfg W t h) := by
  unfold HSched.push
  rw [← E.mv]
  by_cases hf : cfg.finite t = true
  · simp only [hf, if_true]
    by_cases hc : (mvGet a.mv h).getD 0 < W
    · simp only [hc, if_true]
      obtain ⟨l, e⟩ := insert_live o E.inva.1 E.invb.1 E.len E.ent t h ((mvGet a.mv h).getD 0)
      exact ⟨(insert_spec o t h _ E.inva).1, (insert_spec o t h _ E.invb).1, by rw [l], e, rfl, E.last⟩
    · simp only [hc, if_false]
      have Da := (deleteEvents_spec o h E.inva).1
      have Db := (deleteEvents_spec o h E.invb).1
      obtain ⟨l1, e1⟩ := deleteEvents_live o h E.inva.1 E.invb.1 E.len E.ent
      obtain ⟨l, e⟩ := insert_live o Da.1 Db.1 l1 e1 t h 0
      exact ⟨(insert_spec o t h 0 Da).1, (insert_spec o t h 0 Db).1, by rw [l], e, rfl, E.last⟩
  · simp only [hf, Bool.false_eq_true, if_false]
    exact E

/-- `trash_event` touches the dictionary only -/
theorem trash_liveEq (E : LiveEq cfg a b) (h : Nat) : LiveEq cfg (a.trash h) (b.trash h) := by
  unfold HSched.trash
  rw [← E.mv]
  exact ⟨E.inva, E.invb, E.len, E.ent, rfl, E.last⟩

/-- `get_succeeding_event`: the same outcome — same handler, same time, same kind of error (empty heap, or the
monotonicity assertion) — and `LiveEq` successor states.  In particular among exactly simultaneous events the
same one is served. -/
theorem get_liveEq (o : StrictWeak cfg) (E : LiveEq cfg a b) :
    LiveEq cfg (a.get cfg).1 (b.get cfg).1 ∧ (a.get cfg).2 = (b.get cfg).2 := by
  obtain ⟨l, e, r⟩ := root_live o (deadCb a.mv) E.inva.1 E.invb.1 E.len E.ent
  have Ia := (root_spec o (deadCb a.mv) E.inva).1.inv
  have Ib := (root_spec o (deadCb a.mv) E.invb).1.inv
  unfold HSched.get
  rw [← E.mv, ← E.last]
  generalize root cfg (deadCb a.mv) a.heap = ra at l e r Ia
  generalize root cfg (deadCb a.mv) b.heap = rb at l e r Ib
  obtain ⟨ha, ta⟩ := ra
  obtain ⟨hb, tb⟩ := rb
  simp only at l e r Ia Ib ⊢
  subst r
  split
  · exact ⟨⟨Ia, Ib, l, e, rfl, rfl⟩, rfl⟩
  · split
    · exact ⟨⟨Ia, Ib, l, e, rfl, rfl⟩, rfl⟩
    · exact ⟨⟨Ia, Ib, l, e, rfl, rfl⟩, rfl⟩

/-- **the unpickled scheduler has the same live part** (C06's `pickle_spec` in the form needed here): for every
state that refines the reference model (in particular every state reached by a protocol-respecting history) -/
theorem pickle_liveEq (o : StrictWeak cfg) {W : Nat} {s : HSched κ} {live : Live κ} (R : Rel cfg W s live) :
    LiveEq cfg s (s.pickle cfg) := by
  obtain ⟨P1, P2, P3, P4, P5⟩ := pickle_spec o R
  refine ⟨R.inv, P1.inv, ?_, fun i h1 hi => (P4 i h1 hi).symm, P2.symm, P3.symm⟩
  rw [P5]; split <;> omega
end

end JF.Sched
