import JF.Model.Occupancy
import Mathlib.Data.List.Basic
import Mathlib.Data.List.Nodup
import Mathlib.Data.List.Count
/-!
Helper lemmas for C11: the insertion-ordered dictionary of `JF.Model.Occupancy` seen as a finite map.
-/
namespace JF.Occ

theorem setAt_apply (f : Cell → List UId) (c : Cell) (l : List UId) (c' : Cell) :
    setAt f c l c' = if c' = c then l else f c' := rfl

namespace Dict

@[simp] theorem get?_nil (c : Cell) : get? [] c = none := rfl

theorem get?_cons (k : Cell) (v : List UId) (t : Dict) (c : Cell) :
    get? ((k, v) :: t) c = if k = c then some v else get? t c := rfl

@[simp] theorem keys_nil : keys [] = [] := rfl
@[simp] theorem keys_cons (e : Cell × List UId) (t : Dict) : keys (e :: t) = e.1 :: keys t := rfl

theorem get?_eq_none_iff (d : Dict) (c : Cell) : d.get? c = none ↔ c ∉ d.keys := by
  induction d with
  | nil => simp
  | cons e t ih =>
    obtain ⟨k, v⟩ := e
    simp only [get?_cons, keys_cons, List.mem_cons, not_or]
    split
    · simp_all
    · rw [ih]; constructor
      · intro h; exact ⟨fun h' => by simp_all, h⟩
      · intro h; exact h.2

theorem get?_appendAt (d : Dict) (c : Cell) (u : UId) (c' : Cell) :
    (d.appendAt c u).get? c' = if c' = c then some ((d.get? c).getD [] ++ [u]) else d.get? c' := by
  induction d with
  | nil => simp only [appendAt, get?_cons, get?_nil, Option.getD_none, List.nil_append]; grind
  | cons e t ih =>
    obtain ⟨k, v⟩ := e
    simp only [appendAt]
    by_cases hk : k = c
    · simp only [hk, if_true, get?_cons]; grind
    · simp only [hk, if_false, get?_cons, ih]; grind

theorem keys_appendAt (d : Dict) (c : Cell) (u : UId) :
    (d.appendAt c u).keys = if c ∈ d.keys then d.keys else d.keys ++ [c] := by
  induction d with
  | nil => simp [appendAt]
  | cons e t ih =>
    obtain ⟨k, v⟩ := e
    simp only [appendAt]
    by_cases hk : k = c
    · simp [hk]
    · simp only [hk, if_false, keys_cons, ih, List.mem_cons]
      have : ¬ c = k := fun h => hk h.symm
      simp only [this, false_or]
      split <;> simp

theorem nodup_keys_appendAt (d : Dict) (c : Cell) (u : UId) (h : d.keys.Nodup) :
    (d.appendAt c u).keys.Nodup := by
  rw [keys_appendAt]
  split
  · exact h
  · rename_i hc
    exact List.Nodup.append h (by simp) (by simp [hc])

theorem keys_set (d : Dict) (c : Cell) (l : List UId) : (d.set c l).keys = d.keys := by
  induction d with
  | nil => rfl
  | cons e t ih =>
    obtain ⟨k, v⟩ := e
    simp only [set]
    split <;> simp [ih]

theorem get?_set (d : Dict) (c : Cell) (l : List UId) (c' : Cell) :
    (d.set c l).get? c' = if c' = c ∧ c ∈ d.keys then some l else d.get? c' := by
  induction d with
  | nil => simp [set]
  | cons e t ih =>
    obtain ⟨k, v⟩ := e
    simp only [set]
    by_cases hk : k = c
    · simp only [hk, if_true, get?_cons, keys_cons, List.mem_cons, true_or, and_true]; grind
    · simp only [hk, if_false, get?_cons, ih, keys_cons, List.mem_cons]
      have : ¬ c = k := fun h => hk h.symm
      simp only [this, false_or]
      grind

theorem keys_del (d : Dict) (c : Cell) : (d.del c).keys = d.keys.filter (fun k => k != c) := by
  induction d with
  | nil => rfl
  | cons e t ih =>
    obtain ⟨k, v⟩ := e
    simp only [del, List.filter_cons, keys_cons] at ih ⊢
    split <;> simp_all [keys]

theorem nodup_keys_del (d : Dict) (c : Cell) (h : d.keys.Nodup) : (d.del c).keys.Nodup := by
  rw [keys_del]; exact h.filter _

theorem get?_del (d : Dict) (c c' : Cell) :
    (d.del c).get? c' = if c' = c then none else d.get? c' := by
  induction d with
  | nil => simp [del]
  | cons e t ih =>
    obtain ⟨k, v⟩ := e
    simp only [del, List.filter_cons] at ih ⊢
    by_cases hk : k = c
    · simp only [hk, bne_self_eq_false, Bool.false_eq_true, if_false, ih, get?_cons]; grind
    · have : (k != c) = true := by simp [hk]
      simp only [this, if_true, get?_cons, ih]; grind

/-- with unique keys, every entry is what `get?` finds -/
theorem get?_of_mem (d : Dict) (h : d.keys.Nodup) {k : Cell} {l : List UId} (hm : (k, l) ∈ d) :
    d.get? k = some l := by
  induction d with
  | nil => simp at hm
  | cons e t ih =>
    obtain ⟨k', v⟩ := e
    simp only [keys_cons, List.nodup_cons] at h
    simp only [List.mem_cons, Prod.mk.injEq] at hm
    rcases hm with ⟨rfl, rfl⟩ | hm
    · simp [get?_cons]
    · have hk : k ∈ keys t := List.mem_map.mpr ⟨(k, l), hm, rfl⟩
      have : k' ≠ k := fun hh => h.1 (hh ▸ hk)
      simp only [get?_cons, this, if_false]
      exact ih h.2 hm

theorem mem_of_get? (d : Dict) {k : Cell} {l : List UId} (h : d.get? k = some l) : (k, l) ∈ d := by
  induction d with
  | nil => simp at h
  | cons e t ih =>
    obtain ⟨k', v⟩ := e
    simp only [get?_cons] at h
    split at h
    · simp_all
    · exact List.mem_cons_of_mem _ (ih h)

/-- `yield_surplus` counted: if `u` occurs only under key `c0`, the flattened values contain it
as often as the list under `c0` does. -/
theorem count_values (d : Dict) (h : d.keys.Nodup) (u : UId) (c0 : Cell)
    (hz : ∀ k l, (k, l) ∈ d → k ≠ c0 → l.count u = 0) :
    d.values.count u = ((d.get? c0).getD []).count u := by
  induction d with
  | nil => simp [values]
  | cons e t ih =>
    obtain ⟨k, v⟩ := e
    simp only [keys_cons, List.nodup_cons] at h
    have ht := ih h.2 (fun k' l hm hk => hz k' l (List.mem_cons_of_mem _ hm) hk)
    simp only [values, List.map_cons, List.flatten_cons, List.count_append] at ht ⊢
    by_cases hk : k = c0
    · subst hk
      have hn : get? t k = none := (get?_eq_none_iff t k).mpr h.1
      simp only [get?_cons, if_true, Option.getD_some]
      rw [ht, hn]; simp
    · simp only [get?_cons, hk, if_false]
      rw [ht, hz k v (List.mem_cons_self ..) hk]; simp

end Dict
end JF.Occ
