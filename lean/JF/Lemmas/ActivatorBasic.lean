/-
Frame lemmas for the loops of the TagActivator model (`JF/Model/Activator.lean`): what each operation does to the
bookkeeping of ONE tagger.  Core Lean only.
-/
import JF.Model.Activator
namespace JF.Act

/-! ### lookups -/

theorem flatMap_congr' {α β : Type} {f g : α → List β} {l : List α} (h : ∀ a ∈ l, f a = g a) :
    l.flatMap f = l.flatMap g := by
  induction l with
  | nil => rfl
  | cons a l ih =>
    simp only [List.flatMap_cons, h a List.mem_cons_self, ih (fun b hb => h b (List.mem_cons_of_mem _ hb))]

theorem getT_set (s : Act) (i j : TaggerIdx) (t : TState) :
    getT (s.set i t) j = if i = j ∧ i < s.length then t else getT s j := by
  unfold getT
  rw [List.getElem?_set]
  by_cases h : i = j
  · subst h
    by_cases h2 : i < s.length
    · simp [h2]
    · simp [h2]
  · simp [h]

theorem getT_of_le (s : Act) (j : TaggerIdx) (h : s.length ≤ j) : getT s j = TState.empty := by
  unfold getT; simp [List.getElem?_eq_none h]

theorem getT_set_self (s : Act) (i : TaggerIdx) : s.set i (getT s i) = s := by
  apply List.ext_getElem?
  intro j
  rw [List.getElem?_set]
  by_cases h : i = j
  · subst h
    by_cases h2 : i < s.length
    · simp [h2, getT]
    · simp [h2]
  · simp [h]

/-- a per-tagger property is kept by `set` at tagger `i` if the new value has it -/
theorem forall_getT_set {P : TaggerIdx → TState → Prop} {s : Act} {i : TaggerIdx} {t : TState}
    (h : ∀ j, P j (getT s j)) (ht : P i t) : ∀ j, P j (getT (s.set i t) j) := by
  intro j
  rw [getT_set]
  split
  · next hc => rw [← hc.1]; exact ht
  · exact h j

/-! ### activation -/

theorem setActivated_length (s : Act) (i : TaggerIdx) (b : Bool) : (setActivated s i b).length = s.length := by
  simp [setActivated]

theorem getT_setActivated (s : Act) (i j : TaggerIdx) (b : Bool) :
    getT (setActivated s i b) j = if i = j ∧ i < s.length then { getT s j with activated := b } else getT s j := by
  unfold setActivated
  rw [getT_set]
  split
  · next h => rw [h.1]
  · rfl

theorem foldl_setActivated_length (l : List TaggerIdx) (b : Bool) (s : Act) :
    (l.foldl (fun s i => setActivated s i b) s).length = s.length := by
  induction l generalizing s with
  | nil => rfl
  | cons a l ih => simp only [List.foldl_cons]; rw [ih, setActivated_length]

theorem getT_foldl_setActivated (l : List TaggerIdx) (b : Bool) (s : Act) (j : TaggerIdx) :
    getT (l.foldl (fun s i => setActivated s i b) s) j =
      if j ∈ l ∧ j < s.length then { getT s j with activated := b } else getT s j := by
  induction l generalizing s with
  | nil => simp
  | cons a l ih =>
    simp only [List.foldl_cons]
    rw [ih, setActivated_length, getT_setActivated]
    by_cases hj : j < s.length
    · by_cases ha : a = j
      · subst ha; by_cases hl : a ∈ l <;> simp [hl, hj]
      · have : ¬ j = a := fun h => ha h.symm
        by_cases hl : j ∈ l <;> simp [hl, hj, ha, this]
    · by_cases ha : a = j
      · subst ha; simp [hj]
      · simp [hj, ha]

/-- activated flag of tagger `j` after the activate/deactivate lists of `E` (deactivation wins) -/
def actAfter (w : Wires) (E : TaggerIdx) (j : TaggerIdx) (old : Bool) : Bool :=
  if j ∈ (getW w E).deactivates then false else if j ∈ (getW w E).activates then true else old

theorem applyActivation_length (w : Wires) (s : Act) (E : TaggerIdx) : (applyActivation w s E).length = s.length := by
  simp [applyActivation, foldl_setActivated_length]

theorem getT_applyActivation (w : Wires) (s : Act) (E j : TaggerIdx) (hj : j < s.length) :
    getT (applyActivation w s E) j = { getT s j with activated := actAfter w E j (getT s j).activated } := by
  unfold applyActivation actAfter
  simp only []
  rw [getT_foldl_setActivated, foldl_setActivated_length, getT_foldl_setActivated]
  by_cases h1 : j ∈ (getW w E).deactivates <;> by_cases h2 : j ∈ (getW w E).activates <;> simp [h1, h2, hj]

theorem getT_applyActivation_ge (w : Wires) (s : Act) (E j : TaggerIdx) (hj : s.length ≤ j) :
    getT (applyActivation w s E) j = TState.empty := by
  apply getT_of_le; rw [applyActivation_length]; exact hj

theorem applyActivation_running (w : Wires) (s : Act) (E j : TaggerIdx) :
    (getT (applyActivation w s E) j).running = (getT s j).running := by
  by_cases hj : j < s.length
  · rw [getT_applyActivation w s E j hj]
  · rw [getT_applyActivation_ge w s E j (Nat.le_of_not_lt hj), getT_of_le s j (Nat.le_of_not_lt hj)]

theorem applyActivation_notRunning (w : Wires) (s : Act) (E j : TaggerIdx) :
    (getT (applyActivation w s E) j).notRunning = (getT s j).notRunning := by
  by_cases hj : j < s.length
  · rw [getT_applyActivation w s E j hj]
  · rw [getT_applyActivation_ge w s E j (Nat.le_of_not_lt hj), getT_of_le s j (Nat.le_of_not_lt hj)]

/-! ### pop -/

theorem popOne_none {t : TState} : popOne t = none ↔ t.notRunning = [] := by
  unfold popOne
  cases h : t.notRunning.getLast? with
  | none => simp [List.getLast?_eq_none_iff.mp h]
  | some a =>
    simp only [reduceCtorEq, false_iff]
    intro hn; rw [hn] at h; simp at h

theorem popOne_some {t t' : TState} {h : HandlerId} (e : popOne t = some (h, t')) :
    t.notRunning = t'.notRunning ++ [h] ∧ t'.running = t.running ++ [h] ∧ t'.activated = t.activated := by
  unfold popOne at e
  cases hl : t.notRunning.getLast? with
  | none => rw [hl] at e; simp at e
  | some a =>
    rw [hl] at e
    simp only [Option.some.injEq, Prod.mk.injEq] at e
    obtain ⟨rfl, rfl⟩ := e
    refine ⟨?_, rfl, rfl⟩
    have hne : t.notRunning ≠ [] := by intro hn; rw [hn] at hl; simp at hl
    have h1 := List.dropLast_concat_getLast hne
    rw [List.getLast?_eq_some_getLast hne] at hl
    simp only [Option.some.injEq] at hl
    rw [hl] at h1
    exact h1.symm

/-- complete description of `popMany`: the handlers come off the END of `notRunning` in pop order, go to the end of
`running`, and carry the yielded identifier tuples in order -/
theorem popMany_some {t t' : TState} {ys : List IdTuple} {out : List (HandlerId × IdTuple)}
    (e : popMany t ys = some (t', out)) :
    t.notRunning = t'.notRunning ++ (out.map Prod.fst).reverse ∧ t'.running = t.running ++ out.map Prod.fst ∧
    out.map Prod.snd = ys ∧ t'.activated = t.activated := by
  induction ys generalizing t t' out with
  | nil => simp only [popMany, Option.some.injEq, Prod.mk.injEq] at e; obtain ⟨rfl, rfl⟩ := e; simp
  | cons y ys ih =>
    unfold popMany at e
    cases h1 : popOne t with
    | none => rw [h1] at e; simp at e
    | some p =>
      obtain ⟨h, t1⟩ := p
      rw [h1] at e
      simp only [] at e
      cases h2 : popMany t1 ys with
      | none => rw [h2] at e; simp at e
      | some q =>
        obtain ⟨t2, o2⟩ := q
        rw [h2] at e
        simp only [Option.some.injEq, Prod.mk.injEq] at e
        obtain ⟨rfl, rfl⟩ := e
        obtain ⟨a1, a2, a3⟩ := popOne_some h1
        obtain ⟨b1, b2, b3, b4⟩ := ih h2
        refine ⟨?_, ?_, ?_, ?_⟩
        · rw [a1, b1]; simp
        · rw [b2, a2]; simp
        · simp [b3]
        · rw [b4, a3]

/-- the error outcome of the inner loop: more identifier tuples than not-running handlers -/
theorem popMany_none {t : TState} {ys : List IdTuple} : popMany t ys = none ↔ t.notRunning.length < ys.length := by
  induction ys generalizing t with
  | nil => simp [popMany]
  | cons y ys ih =>
    unfold popMany
    cases h1 : popOne t with
    | none => simp [popOne_none.mp h1]
    | some p =>
      obtain ⟨h, t1⟩ := p
      obtain ⟨a1, _, _⟩ := popOne_some h1
      simp only []
      cases h2 : popMany t1 ys with
      | none =>
        have := ih.mp h2
        simp [a1]; omega
      | some q =>
        have : ¬ t1.notRunning.length < ys.length := fun hc => by rw [ih.mpr hc] at h2; simp at h2
        simp [a1]; omega

/-! ### the create loop -/

theorem createLoop_length {yields : TaggerIdx → List IdTuple} {Ts : List TaggerIdx} {s s' : Act}
    {out : List (HandlerId × IdTuple)} (e : createLoop yields s Ts = some (s', out)) : s'.length = s.length := by
  induction Ts generalizing s s' out with
  | nil => simp only [createLoop, Option.some.injEq, Prod.mk.injEq] at e; rw [← e.1]
  | cons T Ts ih =>
    unfold createLoop at e
    cases h1 : popMany (getT s T) (yieldEff (getT s T) (yields T)) with
    | none => rw [h1] at e; simp at e
    | some p =>
      rw [h1] at e; simp only [] at e
      cases h2 : createLoop yields (s.set T p.1) Ts with
      | none => rw [h2] at e; simp at e
      | some q =>
        rw [h2] at e; simp only [Option.some.injEq, Prod.mk.injEq] at e
        rw [← e.1, ih h2]; simp

/-- any per-tagger property kept by `popMany` is kept by the create loop -/
theorem createLoop_inv {P : TaggerIdx → TState → Prop}
    (hP : ∀ j t ys t' out, P j t → popMany t ys = some (t', out) → P j t')
    {yields : TaggerIdx → List IdTuple} {Ts : List TaggerIdx} {s s' : Act} {out : List (HandlerId × IdTuple)}
    (h : ∀ j, P j (getT s j)) (e : createLoop yields s Ts = some (s', out)) : ∀ j, P j (getT s' j) := by
  induction Ts generalizing s s' out with
  | nil => simp only [createLoop, Option.some.injEq, Prod.mk.injEq] at e; rw [← e.1]; exact h
  | cons T Ts ih =>
    unfold createLoop at e
    cases h1 : popMany (getT s T) (yieldEff (getT s T) (yields T)) with
    | none => rw [h1] at e; simp at e
    | some p =>
      rw [h1] at e; simp only [] at e
      cases h2 : createLoop yields (s.set T p.1) Ts with
      | none => rw [h2] at e; simp at e
      | some q =>
        rw [h2] at e; simp only [Option.some.injEq, Prod.mk.injEq] at e
        rw [← e.1]
        exact ih (forall_getT_set h (hP T _ _ _ _ (h T) h1)) h2

/-- taggers outside the create list are not touched -/
theorem createLoop_frame {yields : TaggerIdx → List IdTuple} {Ts : List TaggerIdx} {s s' : Act}
    {out : List (HandlerId × IdTuple)} (e : createLoop yields s Ts = some (s', out)) {j : TaggerIdx} (hj : j ∉ Ts) :
    getT s' j = getT s j := by
  induction Ts generalizing s s' out with
  | nil => simp only [createLoop, Option.some.injEq, Prod.mk.injEq] at e; rw [← e.1]
  | cons T Ts ih =>
    unfold createLoop at e
    cases h1 : popMany (getT s T) (yieldEff (getT s T) (yields T)) with
    | none => rw [h1] at e; simp at e
    | some p =>
      rw [h1] at e; simp only [] at e
      cases h2 : createLoop yields (s.set T p.1) Ts with
      | none => rw [h2] at e; simp at e
      | some q =>
        rw [h2] at e; simp only [Option.some.injEq, Prod.mk.injEq] at e
        rw [← e.1, ih h2 (fun hc => hj (List.mem_cons_of_mem _ hc)), getT_set]
        have : T ≠ j := fun hc => hj (hc ▸ List.mem_cons_self)
        simp [this]

/-- what the create loop returns for one tagger -/
def outOf (yields : TaggerIdx → List IdTuple) (s : Act) (T : TaggerIdx) : List (HandlerId × IdTuple) :=
  match popMany (getT s T) (yieldEff (getT s T) (yields T)) with
  | none => []
  | some p => p.2

/-- complete description of a successful create loop over a duplicate-free list of taggers in range -/
theorem createLoop_some {yields : TaggerIdx → List IdTuple} {Ts : List TaggerIdx} {s s' : Act}
    {out : List (HandlerId × IdTuple)} (nd : Ts.Nodup) (hr : ∀ T ∈ Ts, T < s.length)
    (e : createLoop yields s Ts = some (s', out)) :
    out = Ts.flatMap (outOf yields s) ∧
    ∀ T ∈ Ts, popMany (getT s T) (yieldEff (getT s T) (yields T)) = some (getT s' T, outOf yields s T) := by
  induction Ts generalizing s s' out with
  | nil => simp only [createLoop, Option.some.injEq, Prod.mk.injEq] at e; simp [← e.2]
  | cons T Ts ih =>
    have hT : T < s.length := hr T List.mem_cons_self
    have ndT : T ∉ Ts := (List.nodup_cons.mp nd).1
    unfold createLoop at e
    cases h1 : popMany (getT s T) (yieldEff (getT s T) (yields T)) with
    | none => rw [h1] at e; simp at e
    | some p =>
      rw [h1] at e; simp only [] at e
      cases h2 : createLoop yields (s.set T p.1) Ts with
      | none => rw [h2] at e; simp at e
      | some q =>
        rw [h2] at e; simp only [Option.some.injEq, Prod.mk.injEq] at e
        obtain ⟨e1, e2⟩ := e
        have hr' : ∀ U ∈ Ts, U < (s.set T p.1).length := by
          intro U hU; simp; exact hr U (List.mem_cons_of_mem _ hU)
        obtain ⟨i1, i2⟩ := ih (List.nodup_cons.mp nd).2 hr' h2
        have same : ∀ U ∈ Ts, getT (s.set T p.1) U = getT s U := by
          intro U hU; rw [getT_set]
          have : T ≠ U := fun hc => ndT (hc ▸ hU)
          simp [this]
        have sameOut : ∀ U ∈ Ts, outOf yields (s.set T p.1) U = outOf yields s U := by
          intro U hU; unfold outOf; rw [same U hU]
        constructor
        · rw [← e2, i1, List.flatMap_cons]
          congr 1
          · unfold outOf; rw [h1]
          · exact flatMap_congr' sameOut
        · intro U hU
          rcases List.mem_cons.mp hU with rfl | hU
          · rw [← e1, createLoop_frame h2 ndT, getT_set]
            simp only [hT, and_self, if_true]
            unfold outOf; rw [h1]
          · have := i2 U hU
            rw [same U hU, sameOut U hU, e1] at this
            exact this

/-- the create loop fails iff some listed tagger is asked for more handlers than its not-running list holds -/
theorem createLoop_none {yields : TaggerIdx → List IdTuple} {Ts : List TaggerIdx} {s : Act}
    (nd : Ts.Nodup) (hr : ∀ T ∈ Ts, T < s.length) :
    createLoop yields s Ts = none ↔
      ∃ T ∈ Ts, (getT s T).notRunning.length < (yieldEff (getT s T) (yields T)).length := by
  induction Ts generalizing s with
  | nil => simp [createLoop]
  | cons T Ts ih =>
    have ndT : T ∉ Ts := (List.nodup_cons.mp nd).1
    unfold createLoop
    cases h1 : popMany (getT s T) (yieldEff (getT s T) (yields T)) with
    | none => simp only [true_iff]; exact ⟨T, List.mem_cons_self, popMany_none.mp h1⟩
    | some p =>
      have hno : ¬ (getT s T).notRunning.length < (yieldEff (getT s T) (yields T)).length := fun hc => by
        rw [popMany_none.mpr hc] at h1; simp at h1
      have hr' : ∀ U ∈ Ts, U < (s.set T p.1).length := by
        intro U hU; simp; exact hr U (List.mem_cons_of_mem _ hU)
      have same : ∀ U ∈ Ts, getT (s.set T p.1) U = getT s U := by
        intro U hU; rw [getT_set]
        have : T ≠ U := fun hc => ndT (hc ▸ hU)
        simp [this]
      simp only []
      cases h2 : createLoop yields (s.set T p.1) Ts with
      | none =>
        simp only [true_iff]
        obtain ⟨U, hU, hlt⟩ := (ih (List.nodup_cons.mp nd).2 hr').mp h2
        rw [same U hU] at hlt
        exact ⟨U, List.mem_cons_of_mem _ hU, hlt⟩
      | some q =>
        simp only [reduceCtorEq, false_iff]
        rintro ⟨U, hU, hlt⟩
        rcases List.mem_cons.mp hU with rfl | hU
        · exact hno hlt
        · have : createLoop yields (s.set T p.1) Ts = none :=
            (ih (List.nodup_cons.mp nd).2 hr').mpr ⟨U, hU, by rw [same U hU]; exact hlt⟩
          rw [this] at h2; simp at h2

/-! ### the trash loop -/

/-- per-tagger effect of being trashed -/
def trashed (t : TState) : TState := { t with notRunning := t.notRunning ++ t.running, running := [] }

theorem trashLoop_length (s : Act) (Ts : List TaggerIdx) : (trashLoop s Ts).1.length = s.length := by
  induction Ts generalizing s with
  | nil => rfl
  | cons T Ts ih => simp only [trashLoop]; rw [ih]; simp

theorem trashLoop_inv {P : TaggerIdx → TState → Prop} (hP : ∀ j t, P j t → P j (trashed t))
    {s : Act} (Ts : List TaggerIdx) (h : ∀ j, P j (getT s j)) : ∀ j, P j (getT (trashLoop s Ts).1 j) := by
  induction Ts generalizing s with
  | nil => exact h
  | cons T Ts ih => simp only [trashLoop]; exact ih (forall_getT_set h (hP T _ (h T)))

theorem trashLoop_frame (s : Act) (Ts : List TaggerIdx) {j : TaggerIdx} (hj : j ∉ Ts) :
    getT (trashLoop s Ts).1 j = getT s j := by
  induction Ts generalizing s with
  | nil => rfl
  | cons T Ts ih =>
    simp only [trashLoop]
    rw [ih _ (fun hc => hj (List.mem_cons_of_mem _ hc)), getT_set]
    have : T ≠ j := fun hc => hj (hc ▸ List.mem_cons_self)
    simp [this]

theorem trashed_idem (t : TState) : trashed (trashed t) = trashed t := by simp [trashed]

/-- a listed tagger (in range) ends with `running = []` and its former running handlers appended to `notRunning` -/
theorem trashLoop_mem (s : Act) (Ts : List TaggerIdx) {j : TaggerIdx} (hj : j ∈ Ts) (hl : j < s.length) :
    getT (trashLoop s Ts).1 j = trashed (getT s j) := by
  induction Ts generalizing s with
  | nil => simp at hj
  | cons T Ts ih =>
    simp only [trashLoop]
    by_cases hT : j ∈ Ts
    · rw [ih _ hT (by simpa using hl), getT_set]
      by_cases hc : T = j
      · subst hc; simp only [hl, and_self, if_true]; exact trashed_idem _
      · simp [hc]
    · have hc : T = j := by
        rcases List.mem_cons.mp hj with h | h
        · exact h.symm
        · exact absurd h hT
      subst hc
      rw [trashLoop_frame _ _ hT, getT_set]
      simp [hl, trashed]

theorem trashLoop_activated (s : Act) (Ts : List TaggerIdx) (j : TaggerIdx) :
    (getT (trashLoop s Ts).1 j).activated = (getT s j).activated := by
  by_cases hj : j ∈ Ts
  · by_cases hl : j < s.length
    · rw [trashLoop_mem s Ts hj hl]; rfl
    · have h2 : s.length ≤ j := Nat.le_of_not_lt hl
      have h1 : (trashLoop s Ts).1.length ≤ j := by rw [trashLoop_length]; exact h2
      rw [getT_of_le _ _ h1, getT_of_le _ _ h2]
  · rw [trashLoop_frame s Ts hj]

/-- the returned list: exactly the running handlers of the listed taggers -/
theorem trashLoop_out_mem (s : Act) (Ts : List TaggerIdx) (h : HandlerId) :
    h ∈ (trashLoop s Ts).2 ↔ ∃ T ∈ Ts, h ∈ (getT s T).running := by
  induction Ts generalizing s with
  | nil => simp [trashLoop]
  | cons T Ts ih =>
    simp only [trashLoop, List.mem_append, ih, List.mem_cons, exists_eq_or_imp]
    constructor
    · rintro (h1 | ⟨U, hU, h2⟩)
      · exact Or.inl h1
      · rw [getT_set] at h2
        split at h2
        · simp at h2
        · exact Or.inr ⟨U, hU, h2⟩
    · rintro (h1 | ⟨U, hU, h2⟩)
      · exact Or.inl h1
      · by_cases hc : T = U ∧ T < s.length
        · left; rw [hc.1]; exact h2
        · right; refine ⟨U, hU, ?_⟩; rw [getT_set]; simp only [hc, if_false]; exact h2

/-- for a duplicate-free trash list the returned list is the concatenation, in list order -/
theorem trashLoop_out (s : Act) (Ts : List TaggerIdx) (nd : Ts.Nodup) :
    (trashLoop s Ts).2 = Ts.flatMap fun T => (getT s T).running := by
  induction Ts generalizing s with
  | nil => rfl
  | cons T Ts ih =>
    have ndT : T ∉ Ts := (List.nodup_cons.mp nd).1
    simp only [trashLoop, List.flatMap_cons]
    rw [ih _ (List.nodup_cons.mp nd).2]
    congr 1
    apply flatMap_congr'
    intro U hU
    rw [getT_set]
    have : T ≠ U := fun hc => ndT (hc ▸ hU)
    simp [this]

end JF.Act
