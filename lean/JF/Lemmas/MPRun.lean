import JF.Lemmas.MPLeg
/-!
# C20 helper lemmas 4: whole runs — the multi-process mediator refines the single-process mediator
-/
namespace JF.MP
set_option linter.unusedSimpArgs false

variable {G E T O : Type}

/-- **The activator/scheduler protocol assumed** (it is the contract of `TagActivator` and of the schedulers; the
trace validation evaluates it on every recorded leg). `R e h` = handler `h` is in `_running_event_handlers`.
Nothing is assumed about how the scheduler breaks ties between equal candidate times: both mediators issue the same
`push_event` calls in the same order, so the scheduler goes through the same states. -/
structure Protocol (env : Env G E T O) (R : E → Nat → Bool) : Prop where
  /-- `get_event_handlers_to_run` returns a dictionary: distinct handlers -/
  act_nodup : ∀ g e, (env.activate g e).1.Nodup
  /-- … taken from the not-running handlers -/
  act_fresh : ∀ g e h, h ∈ (env.activate g e).1 → R e h = false
  /-- … which are running afterwards -/
  act_run : ∀ g e h, R (env.activate g e).2 h = (R e h || decide (h ∈ (env.activate g e).1))
  /-- the scheduler only holds events of running handlers: `get_succeeding_event` returns one of them -/
  choose_run : ∀ g e l, R (env.activate g e).2 (env.choose (env.activate g e).2 l).1 = true
  /-- the scheduler does not change which handlers run -/
  choose_keep : ∀ e l h, R (env.choose e l).2 h = R e h
  /-- `get_trashable_events`: `assert preceding_event_handler in trashable_events` -/
  trash_self : ∀ e c, c ∈ (env.trash e c).1
  /-- trashed handlers stop running, nothing else changes -/
  trash_run : ∀ e c h, R (env.trash e c).2 h = (R e h && !decide (h ∈ (env.trash e c).1))

/-- is this a failure of the adversary (illegitimate or exhausted `wait` results) rather than of the mediator? -/
def AdvFail {α : Type} (r : Except (Nat × Err) α) : Prop :=
  ∃ m, r = .error (m, .adversary) ∨ r = .error (m, .starved)

theorem runMP_refines (env : Env G E T O) (R : E → Nat → Bool) (P : Protocol env R) (cfg : Cfg)
    (advs : List (List (List Nat))) :
    ∀ (n : Nat) (g : G) (e : E) (s : St) (hist : Nat → G) (last : Nat → Nat),
      BInv (R e) s → (∀ h, (s h).tag = last h) →
      runMP env cfg advs n g e s hist = .ok (runSP env advs.length n g e last hist) ∨
      AdvFail (runMP env cfg advs n g e s hist) := by
  induction advs with
  | nil => intro n g e s hist last _ _; left; rfl
  | cons ws rest ih =>
    intro n g e s hist last hB hlast
    rcases hact : env.activate g e with ⟨cr, e1⟩
    have hnd : cr.Nodup := by have := P.act_nodup g e; rwa [hact] at this
    have hfresh : ∀ h ∈ cr, R e h = false := by
      intro h hh; have := P.act_fresh g e h; rw [hact] at this; exact this hh
    have hrun1 : ∀ h, R e1 h = (R e h || decide (h ∈ cr)) := by
      intro h; have := P.act_run g e h; rwa [hact] at this
    by_cases hleg : legLegit cfg n s cr ws = false
    · right; exact ⟨n, Or.inl (by simp [runMP, hact, hleg])⟩
    · have hleg' : legLegit cfg n s cr ws = true := by simpa using hleg
      rcases legRecv_ok cfg n ws hB hnd hfresh hleg' with ⟨hst, -⟩ | ⟨L, rst, hL, hP, -, -⟩
      · right; exact ⟨n, Or.inr (by simp [runMP, hact, hleg', hst])⟩
      · -- the scheduler sees exactly the pushes of the single-process mediator
        have hpush : ((cr.map fun h => (h, n)).map
              fun p => (p.1, env.timeOf p.1 p.2 ((fun m => if m = n then g else hist m) p.2))) =
            (cr.map fun h => (h, env.timeOf h n g)) := by
          simp [List.map_map, Function.comp_def]
        rcases hc : env.choose e1 (cr.map fun h => (h, env.timeOf h n g)) with ⟨c, e2⟩
        have hch : env.choose e1 ((cr.map fun h => (h, n)).map
              fun p => (p.1, env.timeOf p.1 p.2 ((fun m => if m = n then g else hist m) p.2))) = (c, e2) := by
          rw [hpush]; exact hc
        have hcrun : R e1 c = true := by
          have := P.choose_run g e (cr.map fun h => (h, env.timeOf h n g))
          rw [hact] at this; simp only at this; rwa [hc] at this
        have hcrun' : R e c = true ∨ c ∈ cr := by
          rw [hrun1] at hcrun; simpa using hcrun
        have hkeep : ∀ h, R e2 h = R e1 h := by
          intro h; have := P.choose_keep e1 (cr.map fun h => (h, env.timeOf h n g)) h; rwa [hc] at this
        rcases htr : env.trash e2 c with ⟨tr, e3⟩
        have hself : c ∈ tr := by have := P.trash_self e2 c; rwa [htr] at this
        have hrun3 : ∀ h, R e3 h = (R e2 h && !decide (h ∈ tr)) := by
          intro h; have := P.trash_run e2 c h; rwa [htr] at this
        obtain ⟨p, y, s3, ds, hcom, htrash, hB3, hlast3, -, -⟩ := legEnd_ok hB hlast hP hcrun' hself
        have hR : running' (R e) cr tr = R e3 := by
          funext h; simp only [running', hrun3, hkeep, hrun1]
        rw [hR] at hB3
        have hrec := ih (n + 1)
          (env.commit g (env.outOf c (last' last cr n c) ((fun m => if m = n then g else hist m) (last' last cr n c))))
          e3 s3 (fun m => if m = n then g else hist m) (last' last cr n) hB3 hlast3
        have hMP : runMP env cfg (ws :: rest) n g e s hist =
            match runMP env cfg rest (n + 1)
              (env.commit g (env.outOf c (last' last cr n c) ((fun m => if m = n then g else hist m) (last' last cr n c))))
              e3 s3 (fun m => if m = n then g else hist m) with
            | .ok l => .ok (⟨c, env.timeOf c (last' last cr n c) ((fun m => if m = n then g else hist m) (last' last cr n c)),
                env.outOf c (last' last cr n c) ((fun m => if m = n then g else hist m) (last' last cr n c)),
                env.commit g (env.outOf c (last' last cr n c) ((fun m => if m = n then g else hist m) (last' last cr n c)))⟩ :: l)
            | .error err => .error err := by
          simp only [runMP, hact, hleg', hL, hch, hcom, htr, htrash]
          rfl
        have hSP : runSP env (ws :: rest).length n g e last hist =
            ⟨c, env.timeOf c (last' last cr n c) ((fun m => if m = n then g else hist m) (last' last cr n c)),
                env.outOf c (last' last cr n c) ((fun m => if m = n then g else hist m) (last' last cr n c)),
                env.commit g (env.outOf c (last' last cr n c) ((fun m => if m = n then g else hist m) (last' last cr n c)))⟩ ::
              runSP env rest.length (n + 1)
                (env.commit g (env.outOf c (last' last cr n c) ((fun m => if m = n then g else hist m) (last' last cr n c))))
                e3 (last' last cr n) (fun m => if m = n then g else hist m) := by
          simp only [List.length_cons, runSP, hact, hc, htr]
          rfl
        rw [hMP, hSP]
        rcases hrec with hok | ⟨m, hm | hm⟩
        · left; rw [hok]
        · right; exact ⟨m, Or.inl (by rw [hm])⟩
        · right; exact ⟨m, Or.inr (by rw [hm])⟩

end JF.MP
