import JF.Lemmas.DerivReal
/-!
Calculus for the bending potential `U = k/2 (φ − φ₀)²`, `φ` the angle between `s₁ = r_i − r_j` and `s₂ = r_k − r_j`:
the derivative of `U` when `s₁`, `s₂` change by `−a x e_d`, `−b x e_d` (unit `i` moving: `a = −1, b = 0`;
unit `k`: `a = 0, b = −1`; the middle unit `j`: `a = b = 1`).
-/
namespace JF.Deriv
open Real

def V3.dot (a b : V3 ℝ) : ℝ := a.x * b.x + a.y * b.y + a.z * b.z

/-- `cos φ` as the routine computes it: `dot / |s₁| / |s₂|` -/
noncomputable def cosAngle (s1 s2 : V3 ℝ) : ℝ := s1.dot s2 / √(s1.nsq) / √(s2.nsq)

/-- `U = k/2 (φ − φ₀)²` -/
noncomputable def bendEnergy (k phi0 : ℝ) (s1 s2 : V3 ℝ) : ℝ := k / 2 * (arccos (cosAngle s1 s2) - phi0) ^ 2

/-- `d_cosine_by_d_separation_one` of the routine (with the roles of the separations as arguments) -/
noncomputable def dCos (s1 s2 : V3 ℝ) (d : ℕ) : ℝ :=
  s2.get d / √(s1.nsq) / √(s2.nsq) - cosAngle s1 s2 * s1.get d / √(s1.nsq) ^ 2

theorem dot_moved (s1 s2 : V3 ℝ) (d : ℕ) (u w : ℝ) :
    (s1.moved d u).dot (s2.moved d w) = s1.dot s2 + (-(u * s2.get d + w * s1.get d)) + u * w := by
  match d with
  | 0 => simp only [V3.moved, V3.dot, V3.get]; ring
  | 1 => simp only [V3.moved, V3.dot, V3.get]; ring
  | (n + 2) => simp only [V3.moved, V3.dot, V3.get]; ring

theorem poly2_hasDerivAt (c0 c1 c2 : ℝ) : HasDerivAt (fun x : ℝ => c0 + c1 * x + c2 * (x * x)) c1 0 := by
  have h1 := ((hasDerivAt_id (0 : ℝ)).const_mul c1).const_add c0
  have h2 := ((hasDerivAt_id (0 : ℝ)).mul (hasDerivAt_id (0 : ℝ))).const_mul c2
  have h := h1.add h2
  simp only [id_eq, mul_one, mul_zero, add_zero] at h
  exact h

theorem dot_moved_hasDerivAt (s1 s2 : V3 ℝ) (d : ℕ) (a b : ℝ) :
    HasDerivAt (fun x => (s1.moved d (a * x)).dot (s2.moved d (b * x))) (-(a * s2.get d + b * s1.get d)) 0 := by
  have h := poly2_hasDerivAt (s1.dot s2) (-(a * s2.get d + b * s1.get d)) (a * b)
  refine h.congr_of_eventuallyEq (Filter.Eventually.of_forall fun x => ?_)
  simp only [dot_moved]; ring

theorem norm_moved_scaled_hasDerivAt (s : V3 ℝ) (d : ℕ) (a : ℝ) (hs : s.nsq ≠ 0) :
    HasDerivAt (fun x => √((s.moved d (a * x)).nsq)) (-(s.get d) / √(s.nsq) * a) 0 := by
  have hlin : HasDerivAt (fun x : ℝ => a * x) a 0 := by simpa using (hasDerivAt_id (0 : ℝ)).const_mul a
  have h : HasDerivAt (fun x => √((s.moved d x).nsq)) (-(s.get d) / √(s.nsq)) (a * 0) := by
    simpa using norm_moved_hasDerivAt s d hs
  exact h.comp (0 : ℝ) hlin

theorem cosAngle_hasDerivAt (s1 s2 : V3 ℝ) (d : ℕ) (a b : ℝ) (h1 : s1.nsq ≠ 0) (h2 : s2.nsq ≠ 0) :
    HasDerivAt (fun x => cosAngle (s1.moved d (a * x)) (s2.moved d (b * x)))
      (-a * dCos s1 s2 d - b * dCos s2 s1 d) 0 := by
  have hn1 : 0 < √(s1.nsq) := Real.sqrt_pos.mpr (lt_of_le_of_ne s1.nsq_nonneg (Ne.symm h1))
  have hn2 : 0 < √(s2.nsq) := Real.sqrt_pos.mpr (lt_of_le_of_ne s2.nsq_nonneg (Ne.symm h2))
  have hd := dot_moved_hasDerivAt s1 s2 d a b
  have hN1 := norm_moved_scaled_hasDerivAt s1 d a h1
  have hN2 := norm_moved_scaled_hasDerivAt s2 d b h2
  have h := (hd.div hN1 (by simpa using hn1.ne')).div hN2 (by simpa using hn2.ne')
  unfold cosAngle
  refine h.congr_deriv ?_
  have hsym : s2.dot s1 = s1.dot s2 := by simp only [V3.dot]; ring
  simp only [Pi.div_apply, mul_zero, moved_zero, dCos, cosAngle, hsym]
  field_simp
  ring

/-- the bending energy along a simultaneous shift of the two separations -/
theorem bendEnergy_hasDerivAt (k phi0 : ℝ) (s1 s2 : V3 ℝ) (d : ℕ) (a b : ℝ) (h1 : s1.nsq ≠ 0) (h2 : s2.nsq ≠ 0)
    (hlo : -1 < cosAngle s1 s2) (hhi : cosAngle s1 s2 < 1) :
    HasDerivAt (fun x => bendEnergy k phi0 (s1.moved d (a * x)) (s2.moved d (b * x)))
      (k * (arccos (cosAngle s1 s2) - phi0) * (-1 / sin (arccos (cosAngle s1 s2)))
        * (-a * dCos s1 s2 d - b * dCos s2 s1 d)) 0 := by
  have hC := cosAngle_hasDerivAt s1 s2 d a b h1 h2
  have hacos : HasDerivAt arccos (-(1 / √(1 - cosAngle s1 s2 ^ 2)))
      (cosAngle (s1.moved d (a * 0)) (s2.moved d (b * 0))) := by
    simpa using Real.hasDerivAt_arccos hlo.ne' hhi.ne
  have hphi := hacos.comp (0 : ℝ) hC
  have hU := ((hphi.sub_const phi0).pow 2).const_mul (k / 2)
  unfold bendEnergy
  refine hU.congr_deriv ?_
  have hpos : 0 < 1 - cosAngle s1 s2 ^ 2 := by nlinarith
  have hsq : √(1 - cosAngle s1 s2 ^ 2) ≠ 0 := (Real.sqrt_pos.mpr hpos).ne'
  simp only [Real.sin_arccos, Function.comp_apply, mul_zero, moved_zero]
  field_simp
  ring

end JF.Deriv
