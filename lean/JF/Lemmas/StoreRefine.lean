import JF.Lemmas.StoreActive
import JF.Lemmas.StoreRefineSpec
/-!
Lemmas behind `JF/Props/C13Refine.lean`: every operation of the reference-level store
(`JF/Model/Store.lean`) commutes with the abstraction map `abs` into the purely functional
specification `Spec` (`JF/Lemmas/StoreRefineSpec.lean`).

* reading: `unitAt_absG` (the specification's identifier-indexed view is C13's `readAt`),
  `readGlobal_eq` (its snapshot is C13's `readGlobal`);
* `extract_refines`, `extractMany_refines` (from C13's `extract_spec`: shape + current values);
* `LiftMirror`: the two sets of lifted identifiers are determined by the dictionary — the invariant that
  lets the specification drop them (`independent_absG`);
* `insertUnits_refines`: a commit is a homomorphism (no invariant needed: the heap does not change);
* `abs_write`, `abs_rebind`: a mutation through a held branch changes only that held value (this is
  where the isolation invariant `Inv` is used);
* `step_refines`: one step.
-/
set_option linter.unusedSimpArgs false
namespace JF.Store
variable {α : Type}

/-! ### the global state read through the heap -/

theorem absG_congr {g : Global α} {h h' : Heap α} (hf : ∀ r ∈ g.refs, h'.get? r = h.get? r) :
    absG g h' = absG g h := by
  simp only [Global.refs, List.mem_append, List.mem_flatMap] at hf
  simp only [absG, Spec.Global.mk.injEq, true_and]
  constructor
  · apply List.map_congr_left
    intro R hR
    have hp : ∀ x ∈ R.node.pos :: R.children.map (·.pos), h'.get? x = h.get? x :=
      fun x hx => hf x (Or.inl ⟨R, hR, hx⟩)
    simp only [absNode, Prod.mk.injEq, Spec.Node.mk.injEq, and_true]
    refine ⟨hp _ (by simp), ?_⟩
    apply List.map_congr_left
    intro n hn
    simp only [absNode, Spec.Node.mk.injEq, and_true]
    exact hp _ (by simp only [List.mem_cons, List.mem_map]; right; exact ⟨n, hn, rfl⟩)
  · apply List.map_congr_left
    intro e he
    have := fun x hx => hf x (Or.inr ⟨e, he, hx⟩)
    simp only [Prod.mk.injEq, true_and]
    exact ⟨this _ (by simp), this _ (by simp)⟩

theorem absG_ext {g : Global α} {h h' : Heap α} (ok : GlobalOK g h) (e : Ext h h') : absG g h' = absG g h :=
  absG_congr (fun r hr => e.2 r (ok r hr))

theorem lookup_absDict (h : Heap α) (d : List (Ident × Ref × Ref)) (id : Ident) :
    (d.map (fun e => (e.1, h.get? e.2.1, h.get? e.2.2))).lookup id =
      (dictGet d id).map (fun x => (h.get? x.1, h.get? x.2)) := by
  induction d with
  | nil => rfl
  | cons e d ih =>
    obtain ⟨k, x⟩ := e
    simp only [List.map_cons, List.lookup_cons, dictGet]
    by_cases hk : k = id
    · subst hk; simp
    · have : (id == k) = false := by simpa using Ne.symm hk
      simp only [this, hk, if_false, ih]

theorem node_absG (g : Global α) (h : Heap α) (id : Ident) :
    Spec.node (absG g h) id = (physGet g.roots id).toOption.map (absNode h) := by
  match id with
  | [] => rfl
  | [r] =>
    simp only [Spec.node, absG, physGet, List.getElem?_map]
    cases g.roots[r]? <;> rfl
  | [r, c] =>
    simp only [Spec.node, absG, physGet, List.getElem?_map]
    cases g.roots[r]? with
    | none => rfl
    | some R =>
      simp only [Option.map_some, Option.bind_some, List.getElem?_map]
      cases R.children[c]? <;> rfl
  | _ :: _ :: _ :: _ => rfl

/-- the specification's identifier-indexed view is C13's `readAt` -/
theorem unitAt_absG (g : Global α) (h : Heap α) (id : Ident) :
    Spec.unitAt (absG g h) id = readAt g h id := by
  simp only [Spec.unitAt, node_absG, readAt, unitAt]
  cases physGet g.roots id with
  | error e => rfl
  | ok n =>
    simp only [Except.toOption, Option.map_some, Option.some.injEq, readUnit, aliasUnit, absNode, absG,
      lookup_absDict, Lifting.get, UVal.mk.injEq, true_and, and_true]
    cases dictGet g.lift.dict id <;> simp

/-! ### extraction -/

theorem branchIds_absG (g : Global α) (h : Heap α) (id : Ident) :
    Spec.branchIds (absG g h) id = branchIds g id := by
  match id with
  | [] => rfl
  | [r] =>
    simp only [Spec.branchIds, branchIds, absG, List.getElem?_map]
    cases g.roots[r]? <;> simp
  | [r, c] => rfl
  | _ :: _ :: _ :: _ => rfl

theorem filterMap_of_map_some {β γ : Type} {l : List β} {m : List γ} {f : γ → Option β}
    (h : m.map f = l.map some) : m.filterMap f = l := by
  have : m.filterMap f = (m.map f).filterMap id := by rw [List.filterMap_map]; rfl
  rw [this, h, List.filterMap_map]
  simp

/-- a branch that meets C13's `extract_shape` reads as the specification's branch of `id` -/
theorem readBranch_of_BranchSpec {g : Global α} {h h' : Heap α} {id : Ident} {b : Branch α}
    (sp : BranchSpec g h h' id b) : readBranch h' b = Spec.branch (absG g h) id := by
  have hu : Spec.unitAt (absG g h) = readAt g h := funext (unitAt_absG g h)
  rw [Spec.branch, branchIds_absG, hu]
  symm
  apply filterMap_of_map_some
  rw [← sp.1, readBranch, List.map_map, List.map_map]
  apply List.map_congr_left
  intro u hu
  exact (sp.2 u hu).symm

theorem extract_isSome_iff (g : Global α) (h : Heap α) (id : Ident) :
    (∃ x, extract g h id = .ok x) ↔ (unitAt g id).isSome = true := by
  match id with
  | [] => simp [extract, unitAt, physGet]
  | [r] =>
    simp only [extract, unitAt, physGet]
    cases hR : g.roots[r]? <;> simp
  | [r, c] =>
    simp only [extract, unitAt, physGet]
    cases hR : g.roots[r]? with
    | none => simp
    | some R => cases hL : R.children[c]? <;> simp [hL]
  | r :: _ :: _ :: _ =>
    simp only [extract, unitAt, physGet]
    cases hR : g.roots[r]? <;> simp

theorem extract_error {g : Global α} {h : Heap α} {id : Ident} {e : Err} (he : extract g h id = .error e) :
    e = .index ∧ (unitAt g id).isSome = false := by
  refine ⟨?_, ?_⟩
  · match id, he with
    | [], he => simp [extract] at he; exact he.symm
    | r :: rest, he =>
      simp only [extract] at he
      cases hR : g.roots[r]? with
      | none => simp [hR] at he; exact he.symm
      | some R =>
        simp only [hR] at he
        match rest, he with
        | [], he => simp at he
        | [c], he =>
          cases hL : R.children[c]? with
          | none => simp [hL] at he; exact he.symm
          | some L => simp [hL] at he
        | _ :: _ :: _, he => simp at he; exact he.symm
  · cases hs : (unitAt g id).isSome with
    | false => rfl
    | true =>
      obtain ⟨x, hx⟩ := (extract_isSome_iff g h id).2 hs
      rw [hx] at he; cases he

theorem extract_refines {g : Global α} {h : Heap α} (ok : GlobalOK g h) (id : Ident) :
    (∀ h' b, extract g h id = .ok (h', b) → Spec.extract (absG g h) id = .ok (readBranch h' b)) ∧
    (∀ e, extract g h id = .error e → Spec.extract (absG g h) id = .error e) := by
  refine ⟨?_, ?_⟩
  · intro h' b he
    have hs : (unitAt g id).isSome = true := (extract_isSome_iff g h id).1 ⟨_, he⟩
    obtain ⟨_, _, s1, s2⟩ := extract_spec ok he
    simp only [Spec.extract, unitAt_absG, readAt, Option.isSome_map, hs, if_true]
    rw [readBranch_of_BranchSpec ⟨s1, s2⟩]
  · intro e he
    obtain ⟨rfl, hn⟩ := extract_error he
    simp [Spec.extract, unitAt_absG, readAt, hn]

theorem extractMany_refines {g : Global α} : ∀ (ids : List Ident) {h : Heap α}, GlobalOK g h →
    (∀ h' bs, extractMany g h ids = .ok (h', bs) →
      ids.mapM (Spec.extract (absG g h)) = .ok (bs.map (readBranch h'))) ∧
    (∀ e, extractMany g h ids = .error e → ids.mapM (Spec.extract (absG g h)) = .error e) := by
  intro ids
  induction ids with
  | nil =>
    intro h _
    refine ⟨?_, ?_⟩
    · intro h' bs he
      simp only [extractMany, Except.ok.injEq, Prod.mk.injEq] at he
      obtain ⟨rfl, rfl⟩ := he
      rfl
    · intro e he; simp [extractMany] at he
  | cons id ids ih =>
    intro h ok
    obtain ⟨x1, x2⟩ := extract_refines ok id
    rw [List.mapM_cons]
    cases h1 : extract g h id with
    | error e =>
      refine ⟨?_, ?_⟩
      · intro h' bs he; simp [extractMany, h1] at he
      · intro e' he
        simp only [extractMany, h1, Except.error.injEq] at he
        subst he
        rw [x2 e h1]; rfl
    | ok y =>
      obtain ⟨h1', b⟩ := y
      obtain ⟨e1, f1, _, _⟩ := extract_spec ok h1
      obtain ⟨i1, i2⟩ := ih (ok.ext e1)
      rw [absG_ext ok e1] at i1 i2
      rw [x1 h1' b h1]
      cases h2 : extractMany g h1' ids with
      | error e =>
        refine ⟨?_, ?_⟩
        · intro h' bs he; simp [extractMany, h1, h2] at he
        · intro e' he
          simp only [extractMany, h1, h2, Except.error.injEq] at he
          subst he
          rw [i2 e h2]; rfl
      | ok z =>
        obtain ⟨h2', bs'⟩ := z
        obtain ⟨e2, _, _, _⟩ := extractMany_spec ids (ok.ext e1) h2
        refine ⟨?_, ?_⟩
        · intro h' bs he
          simp only [extractMany, h1, h2, Except.ok.injEq, Prod.mk.injEq] at he
          obtain ⟨rfl, rfl⟩ := he
          rw [i1 h2' bs' h2]
          have : readBranch h2' b = readBranch h1' b :=
            readBranch_congr (fun r hr => e2.2 r (f1.2 r hr).2)
          simp only [List.map_cons, this]
          rfl
        · intro e he; simp [extractMany, h1, h2] at he

/-! ### the sets of lifted identifiers mirror the dictionary -/

/-- the lifted identifiers of level `n`, computed from the keys of the dictionary -/
def mirror (levels : Nat) (keys : List Ident) (n : Nat) : List Ident :=
  if n ≤ levels then keys.filter (·.length = n) else []

/-- `_lifted_identifiers[n]` is the list of the keys of `_lifting_dictionary` of length `n`, in the same
order (both are insertion ordered: an existing key keeps its place, a new one goes to the end) -/
structure LiftMirror (l : Lifting) : Prop where
  m1 : l.lifted1 = mirror l.levels (l.dict.map (·.1)) 1
  m2 : l.lifted2 = mirror l.levels (l.dict.map (·.1)) 2

theorem keys_dictSet (d : List (Ident × Ref × Ref)) (id : Ident) (x : Ref × Ref) :
    (dictSet d id x).map (·.1) = setAdd (d.map (·.1)) id := by
  induction d with
  | nil => simp [dictSet, setAdd]
  | cons e d ih =>
    obtain ⟨k, y⟩ := e
    simp only [dictSet]
    by_cases hk : k = id
    · subst hk; simp [setAdd]
    · have hne : ¬ id = k := fun h => hk h.symm
      simp only [hk, if_false, List.map_cons, ih, setAdd, List.mem_cons, hne, false_or]
      split <;> simp

theorem keys_dictDel (d : List (Ident × Ref × Ref)) (id : Ident) :
    (dictDel d id).map (·.1) = setRemove (d.map (·.1)) id := by
  simp only [dictDel, setRemove, List.filter_map]
  rfl

theorem filter_setAdd (s : List Ident) (id : Ident) (p : Ident → Bool) :
    (setAdd s id).filter p = if p id then setAdd (s.filter p) id else s.filter p := by
  simp only [setAdd, List.mem_filter]
  by_cases hm : id ∈ s <;> cases hp : p id <;> simp [hm, hp, List.filter_append, List.filter_cons]

theorem filter_setRemove (s : List Ident) (id : Ident) (p : Ident → Bool) :
    (setRemove s id).filter p = if p id then setRemove (s.filter p) id else s.filter p := by
  simp only [setRemove, List.filter_filter]
  cases hp : p id
  · simp only [Bool.false_eq_true, if_false]
    apply List.filter_congr
    intro x hx
    by_cases hxi : x = id
    · subst hxi; simp [hp]
    · simp [hxi]
  · simp only [if_true]
    apply List.filter_congr
    intro x hx
    simp [Bool.and_comm]

theorem mirror_setAdd (levels : Nat) (keys : List Ident) (id : Ident) (n : Nat) :
    mirror levels (setAdd keys id) n =
      if id.length = n ∧ n ≤ levels then setAdd (mirror levels keys n) id else mirror levels keys n := by
  simp only [mirror]
  by_cases hl : n ≤ levels
  · simp only [hl, if_true, and_true, filter_setAdd, decide_eq_true_eq]
  · simp [hl]

theorem mirror_setRemove (levels : Nat) (keys : List Ident) (id : Ident) (n : Nat) :
    mirror levels (setRemove keys id) n =
      if id.length = n ∧ n ≤ levels then setRemove (mirror levels keys n) id else mirror levels keys n := by
  simp only [mirror]
  by_cases hl : n ≤ levels
  · simp only [hl, if_true, and_true, filter_setRemove, decide_eq_true_eq]
  · simp [hl]

theorem LiftMirror.set {l : Lifting} (w : LiftMirror l) (id : Ident) (hlen : id.length = 1 ∨ id.length = 2)
    (v t : Option Ref) : LiftMirror (l.set id v t).1 := by
  obtain ⟨w1, w2⟩ := w
  cases v with
  | some v =>
    cases t with
    | none => exact ⟨w1, w2⟩
    | some t =>
      simp only [Lifting.set, Lifting.modLifted]
      rcases hlen with h1 | h2
      · by_cases hl : 1 ≤ l.levels
        · simp only [h1, hl, and_self, if_true]
          exact ⟨by simp [keys_dictSet, mirror_setAdd, h1, hl, w1], by simp [keys_dictSet, mirror_setAdd, h1, w2]⟩
        · simp only [h1, hl, and_false, if_false, Nat.reduceEqDiff, false_and]
          exact ⟨by simp [keys_dictSet, mirror_setAdd, h1, hl, w1], by simp [keys_dictSet, mirror_setAdd, h1, w2]⟩
      · by_cases hl : 2 ≤ l.levels
        · simp only [h2, hl, and_self, if_true, Nat.reduceEqDiff, false_and, if_false]
          exact ⟨by simp [keys_dictSet, mirror_setAdd, h2, w1], by simp [keys_dictSet, mirror_setAdd, h2, hl, w2]⟩
        · simp only [h2, hl, and_false, if_false, Nat.reduceEqDiff, false_and]
          exact ⟨by simp [keys_dictSet, mirror_setAdd, h2, w1], by simp [keys_dictSet, mirror_setAdd, h2, hl, w2]⟩
  | none =>
    cases t with
    | some t => exact ⟨w1, w2⟩
    | none =>
      simp only [Lifting.set, Lifting.modLifted]
      split
      · rcases hlen with h1 | h2
        · by_cases hl : 1 ≤ l.levels
          · simp only [h1, hl, and_self, if_true]
            exact ⟨by simp [keys_dictDel, mirror_setRemove, h1, hl, w1], by simp [keys_dictDel, mirror_setRemove, h1, w2]⟩
          · simp only [h1, hl, and_false, if_false, Nat.reduceEqDiff, false_and]
            exact ⟨by simp [keys_dictDel, mirror_setRemove, h1, hl, w1], by simp [keys_dictDel, mirror_setRemove, h1, w2]⟩
        · by_cases hl : 2 ≤ l.levels
          · simp only [h2, hl, and_self, if_true, Nat.reduceEqDiff, false_and, if_false]
            exact ⟨by simp [keys_dictDel, mirror_setRemove, h2, w1], by simp [keys_dictDel, mirror_setRemove, h2, hl, w2]⟩
          · simp only [h2, hl, and_false, if_false, Nat.reduceEqDiff, false_and]
            exact ⟨by simp [keys_dictDel, mirror_setRemove, h2, w1], by simp [keys_dictDel, mirror_setRemove, h2, hl, w2]⟩
      · exact ⟨w1, w2⟩

theorem LiftMirror.insertUnit {g : Global α} (w : LiftMirror g.lift) (u : CUnit α) :
    LiftMirror (insertUnit g u).1.lift := by
  simp only [Store.insertUnit]
  cases hp : physSet g.roots u.id u.pos with
  | error e => exact w
  | ok roots => exact w.set u.id (physSet_ok_length hp) u.vel u.ts

theorem LiftMirror.insertUnits (us : List (CUnit α)) : ∀ {g : Global α}, LiftMirror g.lift →
    LiftMirror (insertUnits g us).1.lift := by
  induction us with
  | nil => intro g w; exact w
  | cons u us ih =>
    intro g w
    simp only [Store.insertUnits]
    have w1 := w.insertUnit u
    cases hu : Store.insertUnit g u with
    | mk g1 e =>
      rw [hu] at w1
      cases e with
      | none => exact ih w1
      | some e => exact w1

/-- only a commit changes the global state's own fields -/
theorem step_g_of_not_insert (s : Sess α) (op : Op α) (hi : op.isInsert = false) : (step s op).1.g = s.g := by
  cases op with
  | insert sel => simp [Op.isInsert] at hi
  | extract id => simp only [step]; split <;> rfl
  | active => simp only [step]; split <;> rfl
  | global => rfl
  | setPos b u i x =>
    simp only [step]
    split
    · rfl
    · split
      · split <;> rfl
      · rfl
  | newPos b u xs => simp only [step]; split <;> rfl
  | setVel b u i x =>
    simp only [step]
    split
    · rfl
    · split
      · rfl
      · split
        · split <;> rfl
        · rfl
  | newVel b u xs =>
    simp only [step]
    split
    · rfl
    · split <;> rfl
  | tsUpdate b u q r =>
    simp only [step]
    split
    · rfl
    · split <;> rfl
  | newTs b u t =>
    simp only [step]
    split
    · rfl
    · split <;> rfl

theorem liftMirror_step {s : Sess α} (w : LiftMirror s.g.lift) (op : Op α) : LiftMirror (step s op).1.g.lift := by
  cases hi : op.isInsert with
  | false => rw [step_g_of_not_insert s op hi]; exact w
  | true =>
    cases op with
    | insert sel =>
      simp only [step]
      cases selBranches s.live sel with
      | none => exact w
      | some bs => exact LiftMirror.insertUnits _ w
    | _ => simp [Op.isInsert] at hi

theorem liftMirror_run {s : Sess α} (w : LiftMirror s.g.lift) (ops : List (Op α)) :
    LiftMirror (run s ops).g.lift := by
  induction ops generalizing s with
  | nil => exact w
  | cons op ops ih => exact ih (liftMirror_step w op)

theorem liftMirror_init [Div α] (o : Ops α) (levels perRoot : Nat)
    (roots : List (Option Nat × List α × List (Option Nat × List α))) :
    LiftMirror (Sess.init o levels perRoot roots).g.lift :=
  ⟨by simp [Sess.init, mirror], by simp [Sess.init, mirror]⟩

theorem lifted_absG (g : Global α) (h : Heap α) (n : Nat) :
    Spec.lifted (absG g h) n = mirror g.lift.levels (g.lift.dict.map (·.1)) n := by
  simp only [Spec.lifted, absG, mirror, List.map_map]
  rfl

/-- the active rule of the specification is that of the lifting state -/
theorem independent_absG (g : Global α) (h : Heap α) (M : LiftMirror g.lift) :
    Spec.independent (absG g h) = g.lift.independent := by
  simp only [Spec.independent, Lifting.independent, lifted_absG, ← M.m1, ← M.m2]
  simp only [absG, List.map_map]
  rfl

theorem key_readBranch (h : Heap α) (b : Branch α) : Spec.key (readBranch h b) = b.key := by
  simp only [Spec.key, readBranch, Branch.key, List.flatMap_def, List.map_map]
  rfl

/-! ### `extract_global_state` -/

theorem mkChildren_false (l : Lifting) (r : Nat) (h : Heap α) : ∀ (ns : List (PNode α)) (i : Nat),
    mkChildren false l r h ns i = (h, ns.mapIdx (fun k n => aliasUnit l n [r, i + k])) := by
  intro ns
  induction ns with
  | nil => intro i; rfl
  | cons n ns ih =>
    intro i
    simp only [mkChildren, mkCNode_false, ih, List.mapIdx_cons, Nat.add_zero, Prod.mk.injEq, List.cons.injEq, true_and]
    congr 1
    funext k m
    rw [Nat.add_assoc, Nat.add_comm 1 k]

theorem aliasBranches_eq (l : Lifting) (h : Heap α) : ∀ (Rs : List (PRoot α)) (k : Nat),
    aliasBranches l h Rs k = Rs.mapIdx (fun i R => aliasBranch l h (k + i) R) := by
  intro Rs
  induction Rs with
  | nil => intro k; rfl
  | cons R Rs ih =>
    intro k
    simp only [aliasBranches, ih, List.mapIdx_cons, Nat.add_zero, List.cons.injEq, true_and]
    congr 1
    funext i R'
    rw [Nat.add_assoc, Nat.add_comm 1 i]

theorem branchIds_root_eq (g : Global α) {r : Nat} {R : PRoot α} (hR : g.roots[r]? = some R) :
    branchIds g [r] = [r] :: (List.range R.children.length).map (fun i => [r, i]) := by
  simp [branchIds, hR]

/-- an alias branch shows the values of the branch of its root -/
theorem aliasBranch_spec (g : Global α) (h : Heap α) {r : Nat} {R : PRoot α} (hR : g.roots[r]? = some R) :
    BranchSpec g h h [r] (aliasBranch g.lift h r R) := by
  have hu : (aliasBranch g.lift h r R).units =
      aliasUnit g.lift R.node [r] :: R.children.mapIdx (fun k n => aliasUnit g.lift n [r, k]) := by
    simp [aliasBranch, Branch.units, mkCNode_false, mkChildren_false]
  refine ⟨?_, ?_⟩
  · rw [hu, branchIds_root_eq g hR]
    simp only [List.map_cons, aliasUnit, List.cons.injEq, true_and]
    apply List.ext_getElem?
    intro k
    simp only [List.getElem?_map, List.getElem?_mapIdx]
    by_cases hk : k < R.children.length
    · simp [List.getElem?_range hk, List.getElem?_eq_getElem hk]
    · have h1 : R.children[k]? = none := List.getElem?_eq_none (by omega)
      have h2 : (List.range R.children.length)[k]? = none := List.getElem?_eq_none (by simp; omega)
      simp [h1, h2]
  · intro u hmem
    rw [hu] at hmem
    rcases List.mem_cons.1 hmem with rfl | hmem
    · exact (readAt_root hR).symm
    · obtain ⟨k, hk⟩ := List.getElem?_of_mem hmem
      rw [List.getElem?_mapIdx] at hk
      cases hn : R.children[k]? with
      | none => simp [hn] at hk
      | some n =>
        simp only [hn, Option.map_some, Option.some.injEq] at hk
        subst hk
        exact (readAt_child hR hn).symm

/-- the snapshot `extract_global_state` shows: one branch of values per root -/
theorem readGlobal_eq (g : Global α) (h : Heap α) :
    readGlobal g h = (List.range g.roots.length).map (fun r => Spec.branch (absG g h) [r]) := by
  simp only [readGlobal, extractGlobal, aliasBranches_eq, Nat.zero_add]
  apply List.ext_getElem?
  intro i
  simp only [List.getElem?_map, List.getElem?_mapIdx]
  by_cases hi : i < g.roots.length
  · have hR : g.roots[i]? = some g.roots[i] := List.getElem?_eq_getElem hi
    simp only [List.getElem?_range hi, hR, Option.map_some, Option.some.injEq]
    exact readBranch_of_BranchSpec (aliasBranch_spec g h hR)
  · have h1 : g.roots[i]? = none := List.getElem?_eq_none (by omega)
    have h2 : (List.range g.roots.length)[i]? = none := List.getElem?_eq_none (by simp; omega)
    simp [h1, h2]

/-! ### `insert_into_global_state` -/

theorem physSet_refines (h : Heap α) (roots : List (PRoot α)) (id : Ident) (p : Ref) :
    Spec.physSet (roots.map (fun R => (absNode h R.node, R.children.map (absNode h)))) id (h.get? p) =
      match physSet roots id p with
      | .ok roots' => .ok (roots'.map (fun R => (absNode h R.node, R.children.map (absNode h))))
      | .error e => .error e := by
  match id with
  | [] => rfl
  | [r] =>
    simp only [Spec.physSet, physSet, List.getElem?_map]
    cases roots[r]? with
    | none => rfl
    | some R => simp [List.map_set, absNode]
  | [r, c] =>
    simp only [Spec.physSet, physSet, List.getElem?_map]
    cases roots[r]? with
    | none => rfl
    | some R =>
      simp only [Option.map_some, List.getElem?_map]
      cases R.children[c]? with
      | none => rfl
      | some L => simp [List.map_set, absNode]
  | _ :: _ :: _ :: _ => rfl

theorem absDict_dictSet (h : Heap α) (d : List (Ident × Ref × Ref)) (id : Ident) (v t : Ref) :
    (dictSet d id (v, t)).map (fun e => (e.1, h.get? e.2.1, h.get? e.2.2)) =
      Spec.assocSet (d.map (fun e => (e.1, h.get? e.2.1, h.get? e.2.2))) id (h.get? v, h.get? t) := by
  induction d with
  | nil => rfl
  | cons e d ih =>
    obtain ⟨k, y⟩ := e
    simp only [dictSet, List.map_cons, Spec.assocSet]
    by_cases hk : k = id
    · simp [hk]
    · simp [hk, ih]

theorem absDict_dictDel (h : Heap α) (d : List (Ident × Ref × Ref)) (id : Ident) :
    (dictDel d id).map (fun e => (e.1, h.get? e.2.1, h.get? e.2.2)) =
      (d.map (fun e => (e.1, h.get? e.2.1, h.get? e.2.2))).filter (·.1 ≠ id) := by
  simp only [dictDel, List.filter_map]
  rfl

theorem modLifted_cases (l : Lifting) {n : Nat} (hn : n = 1 ∨ n = 2) (f : List Ident → List Ident) :
    (n ≤ l.levels ∧ ∃ l2, l.modLifted n f = .ok l2 ∧ l2.dict = l.dict ∧ l2.levels = l.levels ∧ l2.perRoot = l.perRoot) ∨
    (¬ n ≤ l.levels ∧ l.modLifted n f = .error .key) := by
  simp only [Lifting.modLifted]
  rcases hn with rfl | rfl
  · by_cases hl : 1 ≤ l.levels
    · left; exact ⟨hl, { l with lifted1 := f l.lifted1 }, by simp [hl], rfl, rfl, rfl⟩
    · right; exact ⟨hl, by simp [hl]⟩
  · by_cases hl : 2 ≤ l.levels
    · left; exact ⟨hl, { l with lifted2 := f l.lifted2 }, by simp [hl], rfl, rfl, rfl⟩
    · right; exact ⟨hl, by simp [hl]⟩

theorem liftSet_refines (h : Heap α) (roots : List (PRoot α)) (l : Lifting) (id : Ident)
    (hlen : id.length = 1 ∨ id.length = 2) (v t : Option Ref) :
    Spec.liftSet (absG ⟨roots, l⟩ h) id (v.map h.get?) (t.map h.get?) =
      (absG ⟨roots, (l.set id v t).1⟩ h, (l.set id v t).2) := by
  cases v with
  | some v =>
    cases t with
    | none => rfl
    | some t =>
      simp only [Spec.liftSet, Option.map_some, Lifting.set]
      rcases modLifted_cases { l with dict := dictSet l.dict id (v, t) } hlen (setAdd · id) with
        ⟨hl, l2, hm, d2, lv2, pr2⟩ | ⟨hl, hm⟩
      · simp only [hm, absG, d2, lv2, pr2, absDict_dictSet]
        simp only [hl, if_true]
      · simp only [hm, absG, absDict_dictSet]
        simp only [hl, if_false]
  | none =>
    cases t with
    | some t => rfl
    | none =>
      simp only [Spec.liftSet, Option.map_none, Lifting.set]
      have hlook : ((absG ⟨roots, l⟩ h).lift.lookup id).isSome = (dictGet l.dict id).isSome := by
        simp only [absG, lookup_absDict, Option.isSome_map]
      rw [hlook]
      cases hd : (dictGet l.dict id).isSome with
      | false => simp
      | true =>
        simp only [if_true]
        rcases modLifted_cases { l with dict := dictDel l.dict id } hlen (setRemove · id) with
          ⟨hl, l2, hm, d2, lv2, pr2⟩ | ⟨hl, hm⟩
        · simp only [hm, absG, d2, lv2, pr2, absDict_dictDel]
          simp only [hl, if_true]
        · simp only [hm, absG, absDict_dictDel]
          simp only [hl, if_false]

theorem insertUnit_refines (h : Heap α) (g : Global α) (u : CUnit α) :
    Spec.insertUnit (absG g h) (readUnit h u) = (absG (insertUnit g u).1 h, (insertUnit g u).2) := by
  simp only [Spec.insertUnit, Store.insertUnit, readUnit]
  have hp := physSet_refines h g.roots u.id u.pos
  simp only [absG] at hp ⊢
  rw [hp]
  cases hs : physSet g.roots u.id u.pos with
  | error e => rfl
  | ok roots =>
    simp only
    exact liftSet_refines h roots g.lift u.id (physSet_ok_length hs) u.vel u.ts

theorem insertUnits_refines (h : Heap α) : ∀ (us : List (CUnit α)) (g : Global α),
    Spec.insertUnits (absG g h) (us.map (readUnit h)) = (absG (insertUnits g us).1 h, (insertUnits g us).2) := by
  intro us
  induction us with
  | nil => intro g; rfl
  | cons u us ih =>
    intro g
    simp only [List.map_cons, Spec.insertUnits, Store.insertUnits, insertUnit_refines]
    cases hu : Store.insertUnit g u with
    | mk g1 e =>
      cases e with
      | none => exact ih g1
      | some e => rfl

theorem pick_refines (h : Heap α) (live : List (Live α)) (s : Nat × Nat) :
    Spec.pick (live.map fun L => (readBranch h L.b, L.iso)) s = (selBranch live s).map (readBranch h) := by
  simp only [Spec.pick, selBranch, List.getElem?_map]
  cases live[s.1]? with
  | none => rfl
  | some L =>
    simp only [Option.map_some, Option.bind_some]
    cases hk : s.2 with
    | zero => rfl
    | succ k =>
      simp only [Nat.add_one_ne_zero, if_false, readBranch, Branch.units, List.map_cons, List.getElem?_cons_succ,
        List.getElem?_map]
      cases L.b.children[k]? <;> rfl

theorem selBranches_refines (h : Heap α) (live : List (Live α)) : ∀ (sel : List (Nat × Nat)),
    sel.mapM (Spec.pick (live.map fun L => (readBranch h L.b, L.iso))) =
      (selBranches live sel).map (·.map (readBranch h)) := by
  intro sel
  induction sel with
  | nil => rfl
  | cons s sel ih =>
    rw [List.mapM_cons, ih, pick_refines]
    simp only [selBranches]
    cases selBranch live s <;> cases selBranches live sel <;> rfl

theorem markInserted_refines (h : Heap α) (hs : List Nat) (live : List (Live α)) :
    (markInserted hs live).map (fun L => (readBranch h L.b, L.iso)) =
      (live.map fun L => (readBranch h L.b, L.iso)).mapIdx fun i L => if i ∈ hs then (L.1, false) else L := by
  apply List.ext_getElem?
  intro i
  simp only [List.getElem?_map, List.getElem?_mapIdx, getElem?_markInserted]
  cases live[i]? with
  | none => rfl
  | some L =>
    simp only [Option.map_some, Option.some.injEq]
    split <;> rfl

theorem units_flatten (h : Heap α) (bs : List (Branch α)) :
    (bs.flatMap Branch.units).map (readUnit h) = (bs.map (readBranch h)).flatten := by
  simp only [List.flatMap_def, List.map_flatten, List.map_map]
  rfl

/-! ### mutations through a held branch -/

theorem getUnit_eq (b : Branch α) (u : Nat) : b.getUnit u = b.units[u]? := by
  cases u <;> rfl

theorem setUnit_units (b : Branch α) (u : Nat) (x : CUnit α) : (b.setUnit u x).units = b.units.set u x := by
  cases u <;> rfl

theorem getHeld_abs (s : Sess α) (b u : Nat) :
    Spec.getHeld (abs s).held b u = (getLiveUnit s.live b u).map (readUnit s.h) := by
  simp only [Spec.getHeld, abs, getLiveUnit, List.getElem?_map]
  cases s.live[b]? with
  | none => rfl
  | some L => simp [getUnit_eq, readBranch]

theorem unit_refs_of_getUnit {s : Sess α} (I : Inv s) {b u : Nat} {L : Live α} {c : CUnit α}
    (hL : s.live[b]? = some L) (hc : L.b.getUnit u = some c) : ∀ r ∈ c.refs, r < s.h.next :=
  fun r hr => I.bok L (List.mem_of_getElem? hL) r (getUnit_refs_sub hc r hr)

/-- An object of unit `u` of the isolated live branch `b` is changed in place: in the abstraction
only that held unit changes. -/
theorem abs_write {s : Sess α} (I : Inv s) {b u : Nat} {L : Live α} {c : CUnit α}
    (hL : s.live[b]? = some L) (hiso : L.iso = true) (hc : L.b.getUnit u = some c) {r : Ref}
    (hr : r ∈ c.refs) (o : Obj α) :
    abs { s with h := s.h.write r o } =
      { abs s with held := Spec.setHeld (abs s).held b u (readUnit (s.h.write r o) c) } := by
  have memL : L ∈ s.live := List.mem_of_getElem? hL
  have hrb : r ∈ L.b.refs := getUnit_refs_sub hc r hr
  obtain ⟨nd, ng⟩ := I.iso L memL hiso
  obtain ⟨_, dis⟩ := nodup_flatMap_index CUnit.refs L.b.units nd
  simp only [abs, Spec.mk.injEq]
  refine ⟨absG_congr (fun x hx => Heap.get?_write_ne _ _ (fun hxr => ng r hrb (hxr ▸ hx))), ?_⟩
  apply List.ext_getElem?
  intro j
  simp only [Spec.setHeld, List.getElem?_modify, List.getElem?_map, Option.map_eq_map]
  cases hj : s.live[j]? with
  | none => rfl
  | some L' =>
    simp only [Option.map_some, Option.some.injEq]
    by_cases hbj : b = j
    · subst hbj
      rw [hL] at hj; cases hj
      simp only [if_true, Prod.mk.injEq, and_true, readBranch]
      apply List.ext_getElem?
      intro k
      simp only [List.getElem?_map, List.getElem?_set, List.length_map]
      have hcu : L.b.units[u]? = some c := by rw [← getUnit_eq]; exact hc
      by_cases huk : u = k
      · subst huk
        obtain ⟨hlt, hget⟩ := List.getElem?_eq_some_iff.1 hcu
        simp [hlt, hget]
      · simp only [huk, if_false]
        cases hk : L.b.units[k]? with
        | none => rfl
        | some c' =>
          simp only [Option.map_some, Option.some.injEq]
          exact readUnit_congr (fun x hx => Heap.get?_write_ne _ _
            (fun hxr => dis u k c c' huk hcu hk r hr (hxr ▸ hx)))
    · simp only [hbj, if_false, Prod.mk.injEq, and_true]
      exact readBranch_congr (fun x hx => Heap.get?_write_ne _ _
        (fun hxr => I.sep b j L L' hbj hL hj hiso r hrb (by rw [← hxr]; exact hx)))

/-- A field of unit `u` of live branch `b` is re-bound (to an object allocated by the step, or to
`None`): in the abstraction only that held unit changes. -/
theorem abs_rebind {s : Sess α} (I : Inv s) {h' : Heap α} (e : Ext s.h h') {b : Nat} (u : Nat) {L : Live α}
    (x : CUnit α) (hL : s.live[b]? = some L) :
    abs ⟨s.g, h', s.live.set b { L with b := L.b.setUnit u x }⟩ =
      { abs s with held := Spec.setHeld (abs s).held b u (readUnit h' x) } := by
  have old : ∀ L' ∈ s.live, readBranch h' L'.b = readBranch s.h L'.b :=
    fun L' hL' => readBranch_congr (fun r hr => e.2 r (I.bok L' hL' r hr))
  simp only [abs, Spec.mk.injEq]
  refine ⟨absG_ext I.gok e, ?_⟩
  apply List.ext_getElem?
  intro j
  simp only [Spec.setHeld, List.getElem?_modify, List.getElem?_map, List.getElem?_set, Option.map_eq_map]
  by_cases hbj : b = j
  · subst hbj
    have hlt : b < s.live.length := (List.getElem?_eq_some_iff.1 hL).1
    simp only [if_true, hlt, hL, Option.map_some, Option.some.injEq, Prod.mk.injEq, and_true]
    rw [← old L (List.mem_of_getElem? hL)]
    simp only [readBranch, setUnit_units, List.map_set]
  · simp only [hbj, if_false]
    cases hj : s.live[j]? with
    | none => rfl
    | some L' =>
      simp only [Option.map_some, Option.some.injEq, Prod.mk.injEq, and_true]
      exact old L' (List.mem_of_getElem? hj)

theorem readUnit_write_pos {h : Heap α} {c : CUnit α} (nd : c.refs.Nodup) (hp : c.pos < h.next) (o : Obj α) :
    readUnit (h.write c.pos o) c = { readUnit h c with pos := some o } := by
  obtain ⟨id, pos, ch, vel, ts, w⟩ := c
  simp only [CUnit.refs, List.nodup_cons, List.mem_append, Option.mem_toList, not_or] at nd
  simp only [readUnit, UVal.mk.injEq, true_and, and_true]
  refine ⟨Heap.get?_write_same _ _ hp, ?_, ?_⟩
  · cases vel with
    | none => rfl
    | some v => simp [Heap.get?_write_ne h o (fun hh : v = pos => nd.1.1 (by simp [hh]))]
  · cases ts with
    | none => rfl
    | some t => simp [Heap.get?_write_ne h o (fun hh : t = pos => nd.1.2 (by simp [hh]))]

theorem readUnit_write_vel {h : Heap α} {c : CUnit α} (nd : c.refs.Nodup) {r : Ref} (hv : c.vel = some r)
    (hr : r < h.next) (o : Obj α) :
    readUnit (h.write r o) c = { readUnit h c with vel := some (some o) } := by
  obtain ⟨id, pos, ch, vel, ts, w⟩ := c
  simp only at hv
  subst hv
  simp only [CUnit.refs, List.nodup_cons, List.mem_append, Option.mem_toList, not_or, Option.toList_some,
    List.nodup_append, List.mem_singleton] at nd
  simp only [readUnit, UVal.mk.injEq, true_and, and_true, Option.map_some, Option.some.injEq]
  refine ⟨Heap.get?_write_ne h o (fun hh : pos = r => nd.1.1 (by simp [hh])), Heap.get?_write_same _ _ hr, ?_⟩
  cases ts with
  | none => rfl
  | some t =>
    have : t ≠ r := fun hh => nd.2.2.2 r rfl t (by simp) hh.symm
    simp [Heap.get?_write_ne h o this]

theorem readUnit_write_ts {h : Heap α} {c : CUnit α} (nd : c.refs.Nodup) {r : Ref} (ht : c.ts = some r)
    (hr : r < h.next) (o : Obj α) :
    readUnit (h.write r o) c = { readUnit h c with ts := some (some o) } := by
  obtain ⟨id, pos, ch, vel, ts, w⟩ := c
  simp only at ht
  subst ht
  simp only [CUnit.refs, List.nodup_cons, List.mem_append, Option.mem_toList, not_or, Option.toList_some,
    List.nodup_append, List.mem_singleton] at nd
  simp only [readUnit, UVal.mk.injEq, true_and, and_true, Option.map_some, Option.some.injEq]
  refine ⟨Heap.get?_write_ne h o (fun hh : pos = r => nd.1.2 (by simp [hh])), ?_, Heap.get?_write_same _ _ hr⟩
  cases vel with
  | none => rfl
  | some v =>
    have : v ≠ r := fun hh => nd.2.2.2 v (by simp) r rfl hh
    simp [Heap.get?_write_ne h o this]

/-- new objects and new live branches: the old part of the abstraction stays -/
theorem abs_append {s : Sess α} (I : Inv s) {h' : Heap α} (e : Ext s.h h') (nb : List (Live α)) :
    abs ⟨s.g, h', s.live ++ nb⟩ =
      { abs s with held := (abs s).held ++ nb.map (fun L => (readBranch h' L.b, L.iso)) } := by
  simp only [abs, Spec.mk.injEq, List.map_append, List.append_cancel_right_eq]
  refine ⟨absG_ext I.gok e, ?_⟩
  apply List.map_congr_left
  intro L hL
  simp only [Prod.mk.injEq, and_true]
  exact readBranch_congr (fun r hr => e.2 r (I.bok L hL r hr))

theorem disciplined_iso {s : Sess α} {b : Nat} {L : Live α} (hd : (abs s).held[b]?.map (·.2) ≠ some false)
    (hL : s.live[b]? = some L) : L.iso = true := by
  simp only [abs, List.getElem?_map, hL, Option.map_some, ne_eq, Option.some.injEq] at hd
  cases hi : L.iso with
  | true => rfl
  | false => exact absurd hi hd

/-- **One step.**  Under the isolation invariant (and the mirror invariant of the lifting state) every
client operation that obeys the discipline commutes with the abstraction map, and yields the same
outcome token. -/
theorem step_refines {s : Sess α} (I : Inv s) (M : LiftMirror s.g.lift) (op : Op α)
    (hd : Spec.Disciplined (abs s) op) : Spec.step (abs s) op = (abs (step s op).1, (step s op).2) := by
  have hg : (abs s).g = absG s.g s.h := rfl
  cases op with
  | extract id =>
    obtain ⟨x1, x2⟩ := extract_refines I.gok id
    simp only [Spec.step, step, hg]
    cases he : extract s.g s.h id with
    | error e => rw [x2 e he]
    | ok y =>
      obtain ⟨h', b⟩ := y
      rw [x1 h' b he]
      have := abs_append I (extract_spec I.gok he).1 [⟨b, true⟩]
      simp only [this, List.map_cons, List.map_nil]
      rfl
  | active =>
    obtain ⟨x1, x2⟩ := extractMany_refines s.g.lift.independent I.gok
    simp only [Spec.step, step, hg, extractActive, independent_absG _ _ M]
    cases he : extractMany s.g s.h s.g.lift.independent with
    | error e => rw [x2 e he]
    | ok y =>
      obtain ⟨h', bs⟩ := y
      rw [x1 h' bs he]
      have := abs_append I (extractMany_spec _ I.gok he).1
        ((bs.mergeSort (fun a b => lexLe a.key b.key)).map (⟨·, true⟩))
      simp only [this, List.map_map]
      have hs := List.map_mergeSort (r := fun a b : Branch α => lexLe a.key b.key)
        (s := fun a b : List (UVal α) => lexLe (Spec.key a) (Spec.key b)) (f := readBranch h') (l := bs)
        (fun a _ b _ => by simp only [key_readBranch])
      rw [← hs, List.map_map]
      rfl
  | global =>
    simp only [Spec.step, step, hg]
    have := abs_append I (Ext.refl s.h) ((extractGlobal s.g s.h).map (⟨·, false⟩))
    rw [this]
    have hr := readGlobal_eq s.g s.h
    simp only [readGlobal] at hr
    have hlen : (absG s.g s.h).phys.length = s.g.roots.length := by simp [absG]
    simp only [List.map_map, hlen]
    have : (List.range s.g.roots.length).map (fun r => (Spec.branch (absG s.g s.h) [r], false)) =
        ((List.range s.g.roots.length).map (fun r => Spec.branch (absG s.g s.h) [r])).map (·, false) := by
      simp only [List.map_map]; rfl
    rw [hg, this, ← hr, List.map_map]
    rfl
  | insert sel =>
    simp only [Spec.step, step]
    have hsel := selBranches_refines s.h s.live sel
    rw [show (abs s).held = s.live.map (fun L => (readBranch s.h L.b, L.iso)) from rfl, hsel]
    cases hs : selBranches s.live sel with
    | none => rfl
    | some bs =>
      simp only [Option.map_some, Store.insert, hg, ← units_flatten, insertUnits_refines, abs,
        markInserted_refines]
  | setPos b u i x =>
    simp only [Spec.Disciplined, Op.inPlace] at hd
    simp only [Spec.step, step, Spec.mutate, getHeld_abs]
    cases hc : getLiveUnit s.live b u with
    | none => rfl
    | some c =>
      obtain ⟨L, hL, hu, _⟩ := getLiveUnit_some hc
      have hiso := disciplined_iso hd hL
      have hnd : c.refs.Nodup :=
        (nodup_flatMap_index CUnit.refs L.b.units (I.iso L (List.mem_of_getElem? hL) hiso).1).1 c
          (List.mem_of_getElem? (by rw [← getUnit_eq]; exact hu))
      have hlt := unit_refs_of_getUnit I hL hu
      simp only [Option.map_some, readUnit]
      cases hp : s.h.get? c.pos with
      | none => rfl
      | some ob =>
        cases ob with
        | time q r => rfl
        | vec l =>
          simp only
          by_cases hi : i < l.length
          · simp only [hi, if_true]
            rw [abs_write I hL hiso hu (show c.pos ∈ c.refs by simp [CUnit.refs]),
              readUnit_write_pos hnd (hlt _ (by simp [CUnit.refs]))]
            simp only [readUnit]
          · simp only [hi, if_false]
  | newPos b u xs =>
    simp only [Spec.step, step, Spec.mutate, getHeld_abs]
    cases hc : getLiveUnit s.live b u with
    | none => rfl
    | some c =>
      obtain ⟨L, hL, hu, hset⟩ := getLiveUnit_some hc
      have hlt := unit_refs_of_getUnit I hL hu
      simp only [CUnit.refs, List.mem_cons, List.mem_append, Option.mem_toList] at hlt
      have e := Ext.alloc s.h (.vec xs)
      simp only [Option.map_some, hset, abs_rebind I e u _ hL]
      congr 3
      simp only [readUnit, Heap.alloc_ref, Heap.get?_alloc_new, UVal.mk.injEq, true_and, and_true]
      exact ⟨(map_get?_ext e _ (fun r hr => hlt r (Or.inr (Or.inl hr)))).symm,
        (map_get?_ext e _ (fun r hr => hlt r (Or.inr (Or.inr hr)))).symm⟩
  | setVel b u i x =>
    simp only [Spec.Disciplined, Op.inPlace] at hd
    simp only [Spec.step, step, Spec.mutate, getHeld_abs]
    cases hc : getLiveUnit s.live b u with
    | none => rfl
    | some c =>
      obtain ⟨L, hL, hu, _⟩ := getLiveUnit_some hc
      have hiso := disciplined_iso hd hL
      have hnd : c.refs.Nodup :=
        (nodup_flatMap_index CUnit.refs L.b.units (I.iso L (List.mem_of_getElem? hL) hiso).1).1 c
          (List.mem_of_getElem? (by rw [← getUnit_eq]; exact hu))
      have hlt := unit_refs_of_getUnit I hL hu
      simp only [Option.map_some, readUnit]
      cases hv : c.vel with
      | none => rfl
      | some rv =>
        simp only [Option.map_some]
        cases hp : s.h.get? rv with
        | none => rfl
        | some ob =>
          cases ob with
          | time q r => rfl
          | vec l =>
            simp only
            by_cases hi : i < l.length
            · simp only [hi, if_true]
              rw [abs_write I hL hiso hu (show rv ∈ c.refs by simp [CUnit.refs, hv]),
                readUnit_write_vel hnd hv (hlt _ (by simp [CUnit.refs, hv]))]
              simp only [readUnit, hv, Option.map_some]
            · simp only [hi, if_false]
  | newVel b u xs =>
    simp only [Spec.step, step, Spec.mutate, getHeld_abs]
    cases hc : getLiveUnit s.live b u with
    | none => rfl
    | some c =>
      obtain ⟨L, hL, hu, hset⟩ := getLiveUnit_some hc
      have hlt := unit_refs_of_getUnit I hL hu
      simp only [CUnit.refs, List.mem_cons, List.mem_append, Option.mem_toList] at hlt
      cases xs with
      | none =>
        simp only [Option.map_some, hset, abs_rebind I (Ext.refl s.h) u _ hL]
        rfl
      | some xs =>
        have e := Ext.alloc s.h (.vec xs)
        simp only [Option.map_some, hset, abs_rebind I e u _ hL]
        congr 3
        simp only [readUnit, Heap.alloc_ref, Heap.get?_alloc_new, UVal.mk.injEq, true_and, and_true, Option.map_some]
        exact ⟨(e.2 _ (hlt _ (Or.inl rfl))).symm, (map_get?_ext e _ (fun r hr => hlt r (Or.inr (Or.inr hr)))).symm⟩
  | tsUpdate b u q r =>
    simp only [Spec.Disciplined, Op.inPlace] at hd
    simp only [Spec.step, step, Spec.mutate, getHeld_abs]
    cases hc : getLiveUnit s.live b u with
    | none => rfl
    | some c =>
      obtain ⟨L, hL, hu, _⟩ := getLiveUnit_some hc
      have hiso := disciplined_iso hd hL
      have hnd : c.refs.Nodup :=
        (nodup_flatMap_index CUnit.refs L.b.units (I.iso L (List.mem_of_getElem? hL) hiso).1).1 c
          (List.mem_of_getElem? (by rw [← getUnit_eq]; exact hu))
      have hlt := unit_refs_of_getUnit I hL hu
      simp only [Option.map_some, readUnit]
      cases ht : c.ts with
      | none => rfl
      | some rt =>
        simp only [Option.map_some]
        rw [abs_write I hL hiso hu (show rt ∈ c.refs by simp [CUnit.refs, ht]),
          readUnit_write_ts hnd ht (hlt _ (by simp [CUnit.refs, ht]))]
        simp only [readUnit, ht, Option.map_some]
  | newTs b u t =>
    simp only [Spec.step, step, Spec.mutate, getHeld_abs]
    cases hc : getLiveUnit s.live b u with
    | none => rfl
    | some c =>
      obtain ⟨L, hL, hu, hset⟩ := getLiveUnit_some hc
      have hlt := unit_refs_of_getUnit I hL hu
      simp only [CUnit.refs, List.mem_cons, List.mem_append, Option.mem_toList] at hlt
      cases t with
      | none =>
        simp only [Option.map_some, hset, abs_rebind I (Ext.refl s.h) u _ hL]
        rfl
      | some qr =>
        obtain ⟨q, r⟩ := qr
        have e := Ext.alloc s.h (.time q r)
        simp only [Option.map_some, hset, abs_rebind I e u _ hL]
        congr 3
        simp only [readUnit, Heap.alloc_ref, Heap.get?_alloc_new, UVal.mk.injEq, true_and, and_true, Option.map_some]
        exact ⟨(e.2 _ (hlt _ (Or.inl rfl))).symm, (map_get?_ext e _ (fun r hr => hlt r (Or.inr (Or.inl hr)))).symm⟩

end JF.Store
