import JF.Lemmas.SystemRunMain
import JF.Props.C11
/-!
C11's full occupancy invariant `OccInv` along the runs of the composed system: the step from the occupancy of one leg to the
occupancy of the next (`occ_step`), with the premise `hmove` of `JF.C11.update_inv` discharged —
non-active units do not move (C07's kinematics), and the unit that stops being active has not left its recorded cell
(`Big.mirror` + `Big.stays`, i.e. the joint invariant).
-/
namespace JF.Sys
open JF JF.Act JF.CW JF.C14 JF.Kin JF.C11 JF.Occ

/-- unit `u` exists and passes the charge filter -/
def relW (env : Env ℚ) (us : List (PUnit ℚ)) (u : Nat) : Bool := decide (u < us.length) && env.relevant u

/-- the cell that contains the position of unit `u` (for the units the occupancy keeps track of) -/
def cellW (env : Env ℚ) (us : List (PUnit ℚ)) (u : Nat) : Nat :=
  if relW env us u then env.cellOf (((us[u]?).map (·.pos)).getD []) else 0

/-- `OccInv` looks at the cell function only on relevant units -/
theorem occInv_congr {rel : UId → Bool} {cellOf cellOf' : UId → Cell} {s : Occ.State} (h : OccInv rel cellOf s)
    (hc : ∀ u, rel u = true → cellOf u = cellOf' u) : OccInv rel cellOf' s := by
  refine ⟨h.wf, ?_, ?_⟩
  · rcases h.active with h1 | ⟨a, ha, hcell, hr⟩
    · exact Or.inl h1
    · exact Or.inr ⟨a, ha, by rw [← hc a hr]; exact hcell, hr⟩
  · intro u c
    rw [h.count u c]
    by_cases hr : rel u = true
    · simp only [hr, true_and, hc u hr]
    · simp [hr]

/-! ### `initialize` -/

theorem relOf_map (env : Env ℚ) (us : List (PUnit ℚ)) : ∀ (l : List Nat) (u : Nat),
    C11.relOf (l.map (unitIn env us)) u = (decide (u ∈ l) && env.relevant u)
  | [], u => by simp [C11.relOf]
  | i :: l, u => by
      rw [List.map_cons, relOf_cons, relOf_map env us l u]
      by_cases h : i = u
      · subst h; simp [unitIn]
      · have h' : ¬ u = i := fun e => h e.symm
        simp [unitIn, h, h']

theorem cellOfUnits_map (env : Env ℚ) (us : List (PUnit ℚ)) : ∀ (l : List Nat) (u : Nat), u ∈ l →
    C11.cellOfUnits (l.map (unitIn env us)) u = (unitIn env us u).cell
  | [], u, h => by simp at h
  | i :: l, u, h => by
      rw [List.map_cons, cellOfUnits_cons]
      by_cases hi : i = u
      · subst hi; simp [unitIn]
      · have : (unitIn env us i).id ≠ u := hi
        rw [if_neg this]
        rcases List.mem_cons.mp h with h1 | h1
        · exact absurd h1.symm hi
        · exact cellOfUnits_map env us l u h1

/-- `initialize` on all point masses establishes `OccInv` for the positions of the initial state -/
theorem init_occInv (env : Env ℚ) (us : List (PUnit ℚ)) (cap : Int) :
    OccInv (relW env us) (cellW env us) (Occ.init cap (unitsOf env us)) := by
  have hnd : ((unitsOf env us).map (·.id)).Nodup := by
    have : (unitsOf env us).map (·.id) = List.range us.length := by
      unfold unitsOf
      rw [List.map_map]
      have : ((fun x : Occ.UnitIn => x.id) ∘ unitIn env us) = id := rfl
      rw [this, List.map_id]
    rw [this]; exact List.nodup_range
  have h := C11.init_inv cap (unitsOf env us) hnd
  have hrel : C11.relOf (unitsOf env us) = relW env us := by
    funext u
    unfold unitsOf relW
    rw [relOf_map]
    simp
  rw [hrel] at h
  refine occInv_congr h ?_
  intro u hr
  have hu : u < us.length := by
    unfold relW at hr
    simp only [Bool.and_eq_true, decide_eq_true_eq] at hr
    exact hr.1
  unfold unitsOf cellW
  rw [cellOfUnits_map env us _ u (List.mem_range.mpr hu), if_pos hr]
  rfl

/-! ### what a commit does to the units at rest -/

section
variable {env : Env ℚ} {geo : Geo env}

theorem commits_length (ho : env.o = Ops.rat) {us us' : List (PUnit ℚ)} {kind : HandlerKind} {t : Time ℚ}
    (hc : Commits env geo kind t us us') : us'.length = us.length := by
  rcases hc with ⟨ev, _, _, _, rfl⟩ | ⟨_, rfl⟩
  · rw [ho]; exact step_length _ _ _
  · rfl

/-- a unit at rest is where it was -/
theorem commits_rest_pos (ho : env.o = Ops.rat) {us us' : List (PUnit ℚ)} {kind : HandlerKind} {t : Time ℚ}
    (hc : Commits env geo kind t us us') {i : Nat} {x : PUnit ℚ} (hx : us[i]? = some x) (hr : x.vel = none) :
    (us'[i]?).map (·.pos) = some x.pos := by
  rcases hc with ⟨ev, _, _, _, rfl⟩ | ⟨_, rfl⟩
  · rw [ho, step_pos env.L us ev i, hx]
    simp only [Option.map_some, Option.some.injEq]
    exact posAfter_of_rest env.L ev x hr
  · rw [hx]; rfl

/-- `update` for an irrelevant new active unit does not look at its cell -/
theorem update_cell_indep {s : Occ.State} {new : Occ.UnitIn} (hr : new.relevant = false) (hid : s.activeId ≠ some new.id)
    (cc : Occ.Cell) : Occ.update s new = Occ.update s { new with cell := cc } := by
  unfold Occ.update
  have hne : (some new.id != s.activeId) = true := by
    simp only [bne_iff_ne, ne_eq]; exact fun e => hid e.symm
  simp only [hne, if_true]
  cases Occ.reinsertOld s with
  | error e => rfl
  | ok s1 => simp [Occ.activate, hr]

/-- **the occupancy step**: from `OccInv` for the state one leg worked on to `OccInv` for the state the next leg works on -/
theorem occ_step (ho : env.o = Ops.rat) {usPrev us : List (PUnit ℚ)} {occ occ' : Occ.State} {kind : HandlerKind} {t : Time ℚ}
    (ih : OccInv (relW env usPrev) (cellW env usPrev) occ)
    (hcons : Consistent env true ⟨usPrev, occ⟩)
    (hkp : (∀ u ∈ usPrev, u.vel = none) ∨ ∃ a0 pos0 v0 ts0, KinI env.L usPrev a0 pos0 v0 ts0)
    {a : Nat} {pos v : List ℚ} {ts : Time ℚ} (hk : KinI env.L us a pos v ts)
    (hcom : Commits env geo kind t usPrev us)
    (hmirror : OldActiveStays env occ usPrev usPrev)
    (hstays : kind ≠ .cellBoundary → OldActiveStays env occ usPrev us)
    (hocc : occAfter env true occ us = some occ') :
    OccInv (relW env us) (cellW env us) occ' := by
  obtain ⟨a', hm, hu⟩ := occAfter_some hocc
  rw [hk.movers] at hm
  have : a' = a := by simpa using hm.symm
  subst this
  have hlen := commits_length ho hcom
  have hrelW : relW env us = relW env usPrev := by funext u; unfold relW; rw [hlen]
  have ha : a' < us.length := hk.lt
  -- the unit `update` is called with, with the cell the invariant speaks about
  set new : Occ.UnitIn := unitIn env us a' with hnew
  have hupd : Occ.update occ new = Occ.update occ { new with cell := cellW env us a' } := by
    by_cases hr : env.relevant a' = true
    · have : cellW env us a' = new.cell := by
        unfold cellW relW
        simp [ha, hr, hnew, unitIn]
      rw [this]
    · have hr' : new.relevant = false := by simpa [hnew, unitIn] using hr
      apply update_cell_indep hr'
      intro hid
      rcases ih.active with ⟨hn, _⟩ | ⟨b, hb, _, hrb⟩
      · rw [hn] at hid; cases hid
      · rw [hb] at hid
        have : b = a' := by simpa [hnew, unitIn] using hid
        subst this
        unfold relW at hrb
        simp only [Bool.and_eq_true] at hrb
        exact hr hrb.2
  rw [hupd] at hu
  -- the disjunct of E8 for the movers of quiet commits
  have hdis : (∃ ev : Kin.Ev ℚ, allowedEv kind ev = true ∧ us = Kin.step env.o env.L usPrev ev) ∨
      (kind = .dumping ∧ us = usPrev) := by
    rcases hcom with ⟨ev, hal, _, _, hus⟩ | h
    · exact Or.inl ⟨ev, hal, hus⟩
    · exact Or.inr h
  have hmove : ∀ u, ¬(u = a' ∧ occ.activeId = some u) → cellW env us u = cellW env usPrev u := by
    intro u hnu
    unfold cellW
    rw [hrelW]
    by_cases hr : relW env usPrev u = true
    · simp only [hr, if_true]
      have hul : u < usPrev.length := by
        unfold relW at hr
        simp only [Bool.and_eq_true, decide_eq_true_eq] at hr
        exact hr.1
      have hrel : env.relevant u = true := by
        unfold relW at hr
        simp only [Bool.and_eq_true] at hr
        exact hr.2
      obtain ⟨x, hx⟩ : ∃ x, usPrev[u]? = some x := ⟨usPrev[u], List.getElem?_eq_getElem hul⟩
      cases hv : x.vel with
      | none =>
        have := commits_rest_pos ho hcom hx hv
        cases hy : us[u]? with
        | none => rw [hy] at this; simp at this
        | some y =>
          rw [hy] at this
          simp only [Option.map_some, Option.some.injEq] at this
          simp [hx, this]
      | some w =>
        -- `u` was the mover: it was recorded as active, and it is no longer the mover
        rcases hkp with hrest | ⟨a0, pos0, v0, ts0, hk0⟩
        · rw [hrest x (List.mem_of_getElem? hx)] at hv; cases hv
        · have hua0 : u = a0 := by
            by_contra hne
            rw [(hk0.2 u x hx).2.2 hne] at hv; cases hv
          subst hua0
          have hact : occ.activeId = some u := by
            have := (hcons rfl).1
            simp only [hk0.movers, expectedActive, hrel, if_true] at this
            exact this
          have hne : u ≠ a' := fun e => hnu ⟨e, hact⟩
          have hncb : kind ≠ .cellBoundary := by
            intro hcb
            have := (movers_of_identQuiet (env := env) (Or.inr hcb) hdis).1
            rw [hk.movers, hk0.movers] at this
            exact hne (by simpa using this.symm)
          have h1 := hmirror u hk0.movers hrel
          have h2 := hstays hncb u hk0.movers hrel
          rw [h1] at h2
          have := Option.some.inj h2
          simpa [unitIn] using this.symm
    · simp [hr]
  have hrel : ({ new with cell := cellW env us a' } : Occ.UnitIn).relevant =
      relW env usPrev ({ new with cell := cellW env us a' } : Occ.UnitIn).id := by
    show env.relevant a' = relW env usPrev a'
    unfold relW; rw [← hlen]; simp [ha]
  obtain ⟨s', he, hinv⟩ := C11.update_inv (cellOf' := cellW env us) _ ih hrel rfl hmove
  rw [he] at hu
  cases hu
  rw [hrelW]; exact hinv

end

end JF.Sys
