import JF.Model.SystemRun3
import JF.Lemmas.ConcreteWorld3
/-
Lemmas for `JF/Props/SystemInv3.lean` (E22, stage 2): for a `LeafOnly` wiring
* the mode E13 reads off ANY activation flags is `leaf` (`leafOnly_mode`),
* every event of a kind a handler class commits in leaf mode keeps the ghost mode `leaf` (`modeStep_leafOnly`),
so that the transition relation `TrRaw3L` — `TrRaw3` WITHOUT the mode premise and with the mode at the request of the candidate time
fixed to `leaf` — implies `TrRaw3` (`trRaw3_of_leafOnly`), and a run over it is a run over `Tr3` (`run_mono`).
-/
namespace JF.Sys3
open JF JF.Act JF.CW3 JF.Composite JF.C12

theorem leafOnly_hmode {mw : ModeWiring} (h : LeafOnly mw = true) {T : TaggerIdx} (hT : T < mw.w.n) : leafHM (mw.hmode T) = true := by
  unfold LeafOnly at h
  simp only [Bool.and_eq_true, beq_iff_eq] at h
  have hl : T < mw.hm.length := h.1 ▸ hT
  unfold ModeWiring.hmode
  rw [List.getElem?_eq_getElem hl]
  exact List.all_eq_true.mp h.2 _ (List.getElem_mem hl)

/-- a leaf-mode class or the default class `unknown` of an index out of range -/
theorem leafOnly_hmode' {mw : ModeWiring} (h : LeafOnly mw = true) (T : TaggerIdx) :
    leafHM (mw.hmode T) = true ∨ mw.hmode T = .unknown := by
  by_cases hT : T < mw.w.n
  · exact Or.inl (leafOnly_hmode h hT)
  · right
    unfold LeafOnly at h
    simp only [Bool.and_eq_true, beq_iff_eq] at h
    unfold ModeWiring.hmode
    rw [List.getElem?_eq_none (by rw [h.1]; exact Nat.le_of_not_lt hT)]
    rfl

theorem definite_leafHM {h : HMode} (hh : leafHM h = true ∨ h = .unknown) : definite h = none ∨ definite h = some .leaf := by
  rcases hh with hh | rfl
  · cases h with
    | start b => exact Or.inl rfl
    | switcher b => simp [leafHM] at hh
    | rootUnit => simp [leafHM] at hh
    | unknown => simp [leafHM] at hh
    | leafUnit => exact Or.inr rfl
    | _ => exact Or.inl rfl
  · exact Or.inl rfl

theorem findSome_leaf {β : Type} (f : β → Option WMode) (l : List β) (hf : ∀ x, f x = none ∨ f x = some .leaf) :
    (l.findSome? f).getD .leaf = .leaf := by
  induction l with
  | nil => rfl
  | cons x xs ih =>
    rw [List.findSome?_cons]
    rcases hf x with h | h <;> rw [h]
    · exact ih
    · rfl

theorem leafOnly_startMode {mw : ModeWiring} (h : LeafOnly mw = true) : mw.startMode = .leaf := by
  unfold ModeWiring.startMode
  cases hs : mw.w.start? with
  | none => rfl
  | some S =>
    simp only
    rcases leafOnly_hmode' h S with hh | hh
    · revert hh
      cases mw.hmode S with
      | start b => cases b <;> simp [leafHM, startModeOf]
      | _ => simp [startModeOf]
    · rw [hh]; rfl

/-- **the mode read off the activation flags of a leaf-only wiring is `leaf`, whatever the flags** -/
theorem leafOnly_mode {mw : ModeWiring} (h : LeafOnly mw = true) (σ : AState) : mw.mode σ = .leaf := by
  unfold ModeWiring.mode modeOf
  rw [leafOnly_startMode h]
  exact findSome_leaf _ _ fun T => definite_leafHM (leafOnly_hmode' h T)

/-- **the mode premise is vacuous for leaf-mode classes**: an event (other than the start) of a kind such a class commits when its
candidate time was requested in leaf mode is possible in the ghost mode `leaf` and keeps it -/
theorem modeStep_leafOnly {hmd : HMode} (hh : leafHM hmd = true) {e : Composite.Ev ℚ} (hk : CW2.evKind e ∈ kindsOf hmd .leaf)
    (hs : CW2.evKind e ≠ .start) : modeStep .leaf e = some .leaf := by
  cases hmd with
  | start b => simp [kindsOf] at hk; exact absurd hk hs
  | switcher b => simp [leafHM] at hh
  | rootUnit => simp [leafHM] at hh
  | unknown => simp [leafHM] at hh
  | neutral => cases e <;> simp [kindsOf, CW2.evKind] at hk <;> rfl
  | endOfChain => cases e <;> simp [kindsOf, CW2.evKind] at hk <;> rfl
  | cellBoundary => cases e <;> simp [kindsOf, CW2.evKind] at hk <;> rfl
  | leafUnit => cases e <;> simp [kindsOf, CW2.evKind] at hk <;> rfl

/-- one commit by a handler of tagger `E` in a leaf-only configuration, WITHOUT a mode premise: the `Composite.step` of a weakly
admissible event — not a second start — of a kind the handler class of `E` commits in leaf mode (E13's `hkind`, with the mode at the
request of the candidate time = the mode of the flags = `leaf`), then the update of every internal state, with the C11 history premise
as in `TrRaw3`.  The ghost mode component of the states is the constant `leaf`. -/
def TrRaw3L (env : Env ℚ) (mw : ModeWiring) (E : TaggerIdx) (s s' : St3) : Prop :=
  E < mw.w.n ∧ s.mode = .leaf ∧ s'.mode = .leaf
  ∧ (∃ e : Composite.Ev ℚ, CW2.evKind e ∈ kindsOf (mw.hmode E) .leaf ∧ CW2.evKind e ≠ .start ∧
      AdmW env.base.d env.base.L s.cs e ∧ s'.cs = step Ops.rat isZ env.base.L s.cs e)
  ∧ OccsUpdated env mw.w.labels.length s.occs s'.occs s'.cs
  ∧ (∀ l, l < mw.w.labels.length → affects (mw.w.tagger E) (.cell l) = false →
      StaysInRecordedCell env.base.nPer (env.oe l) (getOcc s.occs l) s'.cs)

def Tr3L (env : Env ℚ) (mw : ModeWiring) (E : TaggerIdx) (g g' : G3 env mw) : Prop := TrRaw3L env mw E g.1 g'.1

/-- **the mode premise of `Tr3` is a consequence for leaf-only wirings** -/
theorem trRaw3_of_leafOnly {env : Env ℚ} {mw : ModeWiring} (h : LeafOnly mw = true) {E : TaggerIdx} {s s' : St3}
    (htr : TrRaw3L env mw E s s') : TrRaw3 env mw E s s' := by
  obtain ⟨hE, hm, hm', ⟨e, hk, hs, ha, hcs⟩, hocc, hp⟩ := htr
  refine ⟨⟨e, .leaf, hk, ?_, ha, hcs⟩, hocc, hp⟩
  show modeStep s.mode e = some s'.mode
  rw [hm, hm']
  exact modeStep_leafOnly (leafOnly_hmode h hE) hk hs

/-- a run stays a run under a weaker transition relation -/
theorem run_mono {G : Type} {c : Wiring} {W : World G} {Tr Tr' : TaggerIdx → G → G → Prop} {S : TaggerIdx}
    (hmono : ∀ E g g', Tr E g g' → Tr' E g g') {rs : RS G} (h : Run c W Tr S rs) : Run c W Tr' S rs := by
  induction h with
  | start ids0 g0 g1 s0 out rs1 hfirst hcommit => exact .start ids0 g0 g1 s0 out rs1 hfirst hcommit
  | step rs rs' E g' _ hpending hend htr hcommit ih => exact .step rs rs' E g' ih hpending hend (hmono _ _ _ htr) hcommit

end JF.Sys3
