import JF.Model.PiecewiseBounding
import Mathlib.Tactic.SplitIfs
/-!
What one call on a piecewise-constant-bounding handler object does, read off the model `JF.Model.PiecewiseBounding`
**for every scalar type and every `Ops`** (so also for binary64): which value the cache takes in `send_event_time`, that it
depends on nothing but the arguments of that very call, what `send_out_state` decides.
-/
namespace JF.Pcb
open JF JF.Thin

variable {α : Type} [Add α] [Sub α] [Mul α] [Div α] [Neg α] [LT α] [DecidableLT α] [LE α] [DecidableLE α] [BEq α]

omit [Sub α] [Mul α] [Neg α] [BEq α] in
/-- the cache and the displacement returned by the three branches -/
theorem displacement_spec (o : Ops α) (q1 q2 off dmax E : α) :
    ((displacement o q1 q2 off dmax E).2 = none →
        (displacement o q1 q2 off dmax E).1 = dmax ∧
        (boundRate q1 q2 off ≤ o.ofInt 0 ∨ ¬ (E / boundRate q1 q2 off < dmax))) ∧
    (∀ b, (displacement o q1 q2 off dmax E).2 = some b →
        b = boundRate q1 q2 off ∧ ¬ (b ≤ o.ofInt 0) ∧ E / b < dmax ∧ (displacement o q1 q2 off dmax E).1 = E / b) := by
  unfold displacement
  simp only
  split_ifs with h1 h2
  · exact ⟨fun _ => ⟨rfl, Or.inl h1⟩, fun b hb => by cases hb⟩
  · refine ⟨fun hn => (by cases hn), fun b hb => ?_⟩
    have : boundRate q1 q2 off = b := by simpa using hb
    subst this
    exact ⟨rfl, h1, h2, rfl⟩
  · exact ⟨fun _ => ⟨rfl, Or.inr h2⟩, fun b hb => by cases hb⟩

omit [Sub α] [Mul α] [Neg α] [BEq α] in
/-- a genuine proposal is cached -/
theorem displacement_proposal (o : Ops α) (q1 q2 off dmax E : α) (h1 : ¬ (boundRate q1 q2 off ≤ o.ofInt 0))
    (h2 : E / boundRate q1 q2 off < dmax) :
    displacement o q1 q2 off dmax E = (E / boundRate q1 q2 off, some (boundRate q1 q2 off)) := by
  simp [displacement, h1, h2]

/-- what a successful `send_event_time` leaves behind, in terms of the arguments of that call alone:
the two derivatives `q1`, `q2` picked at the active index, the active leaf unit `au` and its time stamp `ts`;
the cache is `(displacement …).2`, the returned and stored time is `ts + (displacement …).1`, the stored state is the
in-state time-sliced to that time, and the potential was evaluated at the present positions and with the active unit
`max_displacement` ahead. -/
def EvtSpec (o : Ops α) (p : Params α) (s : List (CNode α)) (E : α) (d1 d2 : Deriv α)
    (h' : HState α) (t : Time α) (calls : List (PCall α)) : Prop :=
  ∃ (q1 q2 : α) (au : LUnit α) (ts : Time α) (s1 s2 : List (List α)),
    activeIndex s = some h'.ai ∧ (leafUnits s)[h'.ai]? = some au ∧ au.ts = some ts ∧
    d1.pick h'.ai = .ok q1 ∧ d2.pick h'.ai = .ok q2 ∧
    h'.cache = (displacement o q1 q2 p.offset p.dmax E).2 ∧
    t = Time.add o ts (displacement o q1 q2 p.offset p.dmax E).1 ∧
    h'.et = some t ∧ h'.st = some (sliceState o p t s) ∧
    separations o p h'.ai ((leafUnits s).map (·.pos)) = .ok s1 ∧
    separations o p h'.ai (((leafUnits s).map (·.pos)).set h'.ai (aheadPos o p au.pos (au.vel.getD []))) = .ok s2 ∧
    calls = [⟨au.vel.getD [], s1, charges o p (leafUnits s)⟩, ⟨au.vel.getD [], s2, charges o p (leafUnits s)⟩]

omit [Neg α] in
theorem sendEventTime_spec (o : Ops α) (p : Params α) (s : List (CNode α)) (E : α) (d1 d2 : Deriv α)
    {h' : HState α} {t : Time α} {calls : List (PCall α)}
    (h : sendEventTime o p s E d1 d2 = .ok (h', t, calls)) : EvtSpec o p s E d1 d2 h' t calls := by
  unfold sendEventTime at h
  simp only at h
  split at h
  · cases h
  · next ai hai =>
    split at h
    · cases h
    · split at h
      · cases h
      · next au hau =>
        split at h
        · cases h
        · next s1 hs1 =>
          split at h
          · cases h
          · next q1 hq1 =>
            split at h
            · cases h
            · next s2 hs2 =>
              split at h
              · cases h
              · next q2 hq2 =>
                split at h
                · cases h
                · next ts hts =>
                  simp only [Except.ok.injEq, Prod.mk.injEq] at h
                  obtain ⟨rfl, rfl, rfl⟩ := h
                  exact ⟨q1, q2, au, ts, s1, s2, hai, hau, hts, hq1, hq2, rfl, rfl, rfl, rfl, hs1, hs2, rfl⟩

/-- **the cache after `send_event_time` does not depend on the handler's past**: the step from ANY state `h` -/
theorem evt_spec (o : Ops α) (p : Params α) (h : HState α) (s : List (CNode α)) (E : α) (d1 d2 : Deriv α)
    {h' : HState α} {t : Time α} {calls : List (PCall α)}
    (hs : step o p h (.evt s E d1 d2) = (h', .time t calls)) : EvtSpec o p s E d1 d2 h' t calls := by
  simp only [step] at hs
  split at hs
  · cases hs
  · next h1 t1 c1 heq =>
    simp only [Prod.mk.injEq, Reply.time.injEq] at hs
    obtain ⟨rfl, rfl, rfl⟩ := hs
    exact sendEventTime_spec o p s E d1 d2 heq

/-! ### `send_out_state` -/

/-- the derivative of the active unit that `send_out_state` compares with the draw: the float the potential returns
(two-leaf class) / entry `active index` of the sequence it returns (fixed-separations class) -/
def trueDeriv (p : Params α) (ai : Nat) : Deriv α → Option α
  | .scalar q => if p.kind = .twoLeaf then some q else none
  | .tuple xs => if p.kind = .fixedSep then xs[ai]? else none

/-- what a successful `send_out_state` does, given the cache `c`, the stored state `st` -/
def OutSpec (o : Ops α) (p : Params α) (c : Option α) (ai : Nat) (st : List (CNode α)) (d : Deriv α) (dr : Draw α)
    (r : Out α) : Prop :=
  (c = none → r = Out.idle st []) ∧
  (∀ b, c = some b → ∃ q, trueDeriv p ai d = some q ∧
      r.confirmed = confirmLeaf o q (dr.get o b) ∧
      (r.confirmed = false → r.st = st ∧ r.inserts = []) ∧
      r.warned = warns o b q ∧
      r.uni = (if o.ofInt 0 < q then some b else none) ∧
      r.calls.length = 1)


omit [LE α] [DecidableLE α] in
theorem sendOutTwoLeaf_spec (o : Ops α) (p : Params α) (hk : p.kind = .twoLeaf) (h : HState α) (st : List (CNode α))
    (et : Time α) (d : Deriv α) (dr : Draw α) {r : Out α}
    (hr : sendOutTwoLeaf o p h st et d dr = .ok r) : OutSpec o p h.cache h.ai st d dr r := by
  unfold sendOutTwoLeaf at hr
  simp only at hr
  split at hr
  · cases hr
  · split at hr
    · next hc =>
      cases hr
      exact ⟨fun _ => rfl, fun b hb => by rw [hc] at hb; cases hb⟩
    · next b hc =>
      refine ⟨fun hn => (by rw [hc] at hn; cases hn), fun b' hb' => ?_⟩
      have : b = b' := by rw [hc] at hb'; exact Option.some.inj hb'
      subst this
      split at hr
      · cases hr
      · next q =>
        refine ⟨q, by simp [trueDeriv, hk], ?_⟩
        split at hr
        · next hq =>
          split at hr
          · next hd =>
            split at hr
            · split at hr
              · cases hr
                simp [confirmLeaf, hq, hd]
              · cases hr
            · cases hr
          · next hd =>
            cases hr
            simp [confirmLeaf, hq, hd]
        · next hq =>
          cases hr
          simp [confirmLeaf, hq, Out.idle, warns]


theorem sendOutFixedSep_spec (o : Ops α) (p : Params α) (hk : p.kind = .fixedSep) (h : HState α) (st : List (CNode α))
    (et : Time α) (d : Deriv α) (dr : Draw α) (nid : List Nat) {r : Out α}
    (hr : sendOutFixedSep o p h st et d dr nid = .ok r) :
    OutSpec o p h.cache h.ai st d dr r ∧ (∀ b, h.cache = some b → o.ofInt 0 ≤ b) := by
  unfold sendOutFixedSep at hr
  simp only at hr
  split at hr
  · cases hr
  · split at hr
    · next hc =>
      cases hr
      exact ⟨⟨fun _ => rfl, fun b hb => by rw [hc] at hb; cases hb⟩, fun b hb => by rw [hc] at hb; cases hb⟩
    · next b hc =>
      split at hr
      · cases hr
      · next hb0 =>
        have hb0' : o.ofInt 0 ≤ b := by simpa using hb0
        refine ⟨⟨fun hn => (by rw [hc] at hn; cases hn), fun b' hb' => ?_⟩,
          fun b' hb' => by rw [hc] at hb'; cases hb'; exact hb0'⟩
        have : b = b' := by rw [hc] at hb'; exact Option.some.inj hb'
        subst this
        split at hr
        · cases hr
        · next ders =>
          split at hr
          · cases hr
          · next q hq =>
            refine ⟨q, by simp [trueDeriv, hk, hq], ?_⟩
            split at hr
            · next hq0 =>
              split at hr
              · next hd =>
                split at hr
                · cases hr
                · split at hr
                  · split at hr
                    · cases hr
                      simp [confirmLeaf, hq0, hd]
                    · cases hr
                  · cases hr
              · next hd =>
                cases hr
                simp [confirmLeaf, hq0, hd]
            · next hq0 =>
              cases hr
              simp [confirmLeaf, hq0, Out.idle, warns]

/-- **`send_out_state`, every scalar type**: the handler state keeps its cache, active index and candidate time; with an
empty cache nothing happens (no call of the potential, no draw, the stored state is returned); with a cached rate `b`
the event is confirmed exactly when the kernel comparison `0 < q ∧ draw < q` says so, and an unconfirmed event returns
the stored state unchanged. -/
theorem out_spec (o : Ops α) (p : Params α) (h : HState α) (d : Deriv α) (dr : Draw α) (nid : List Nat)
    {h' : HState α} {r : Out α} (hs : step o p h (.out d dr nid) = (h', .out r)) :
    h' = { h with st := some r.st } ∧
    ∃ st et, h.st = some st ∧ h.et = some et ∧ OutSpec o p h.cache h.ai st d dr r := by
  simp only [step] at hs
  split at hs
  · cases hs
  · next r1 heq =>
    simp only [Prod.mk.injEq, Reply.out.injEq] at hs
    obtain ⟨rfl, rfl⟩ := hs
    refine ⟨rfl, ?_⟩
    unfold sendOutState at heq
    split at heq
    · next st et hst het =>
      refine ⟨st, et, hst, het, ?_⟩
      split at heq
      · next hk => exact sendOutTwoLeaf_spec o p hk h st et d dr heq
      · next hk => exact (sendOutFixedSep_spec o p hk h st et d dr nid heq).1
    · cases heq

/-! ### histories of one handler object -/

theorem after_nil (o : Ops α) (p : Params α) (h : HState α) : after o p h [] = h := rfl

theorem after_cons (o : Ops α) (p : Params α) (h : HState α) (s : Step α) (ss : List (Step α)) :
    after o p h (s :: ss) = after o p (step o p h s).1 ss := by
  simp [after, run]

theorem after_append (o : Ops α) (p : Params α) (h : HState α) (ss : List (Step α)) (s : Step α) :
    after o p h (ss ++ [s]) = (step o p (after o p h ss) s).1 := by
  induction ss generalizing h with
  | nil => simp [after, run]
  | cons x xs ih => rw [List.cons_append, after_cons, ih, after_cons]

/-- a failed call leaves the handler state as it was; a successful `send_out_state` keeps the cache -/
theorem step_cache (o : Ops α) (p : Params α) (h : HState α) (s : Step α) :
    (step o p h s).1.cache = h.cache ∨
    ∃ sIn E d1 d2 t calls, s = .evt sIn E d1 d2 ∧ step o p h s = ((step o p h s).1, .time t calls) := by
  cases s with
  | evt sIn E d1 d2 =>
    simp only [step]
    split
    · exact Or.inl rfl
    · next h1 t calls _ => exact Or.inr ⟨sIn, E, d1, d2, t, calls, rfl, rfl⟩
  | out d dr nid =>
    simp only [step]
    split <;> exact Or.inl rfl

/-- what every cached rate satisfies: it is not `≤ 0` (every scalar type) -/
def CacheInv (o : Ops α) (h : HState α) : Prop := ∀ b, h.cache = some b → ¬ (b ≤ o.ofInt 0)

omit [Add α] [Sub α] [Mul α] [Div α] [Neg α] [LT α] [DecidableLT α] [DecidableLE α] [BEq α] in
theorem cacheInv_init (o : Ops α) : CacheInv o (HState.init : HState α) := by
  intro b hb; cases hb

theorem cacheInv_step (o : Ops α) (p : Params α) (h : HState α) (s : Step α) (hi : CacheInv o h) :
    CacheInv o (step o p h s).1 := by
  rcases step_cache o p h s with hc | ⟨sIn, E, d1, d2, t, calls, rfl, hst⟩
  · intro b hb; rw [hc] at hb; exact hi b hb
  · obtain ⟨q1, q2, _, _, _, _, _, _, _, _, _, hcache, _⟩ := evt_spec o p h sIn E d1 d2 hst
    intro b hb
    rw [hcache] at hb
    exact ((displacement_spec o q1 q2 p.offset p.dmax E).2 b hb).2.1

/-- **for every history of one handler object** a cached rate is never `≤ 0` -/
theorem cacheInv_after (o : Ops α) (p : Params α) (h : HState α) (ss : List (Step α)) (hi : CacheInv o h) :
    CacheInv o (after o p h ss) := by
  induction ss generalizing h with
  | nil => exact hi
  | cons s ss ih => rw [after_cons]; exact ih _ (cacheInv_step o p h s hi)

end JF.Pcb
