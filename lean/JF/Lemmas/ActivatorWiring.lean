/-
Link between a configuration (`Wiring`, the decidable `WiringSound`) and the step hypotheses of the freshness induction:
`WiringSound cfg = true` + sound footprint tables ⇒ every commit of every run satisfies `StepOK`, clause (h) included.
Core Lean only.
-/
import JF.Model.Wiring
import JF.Lemmas.ActivatorFresh
namespace JF.Act

/-! ### the wires of a wiring -/

theorem poolsFrom_length (off : Nat) (ts : List TaggerW) : (poolsFrom off ts).length = ts.length := by
  induction ts generalizing off with
  | nil => rfl
  | cons t ts ih => simp [poolsFrom, ih]

theorem Wiring.wires_length (c : Wiring) : c.wires.length = c.n := poolsFrom_length 0 c.taggers

private def dfl : TaggerW := ⟨"", .unknown, "", .unknown, [], [], [], [], 0, none⟩

theorem getW_poolsFrom (off : Nat) (ts : List TaggerW) (i : Nat) :
    (getW (poolsFrom off ts) i).creates = ((ts[i]?).getD dfl).creates ∧
    (getW (poolsFrom off ts) i).trashes = ((ts[i]?).getD dfl).trashes ∧
    (getW (poolsFrom off ts) i).activates = ((ts[i]?).getD dfl).activates ∧
    (getW (poolsFrom off ts) i).deactivates = ((ts[i]?).getD dfl).deactivates := by
  induction ts generalizing off i with
  | nil => simp [poolsFrom, getW, TWire.empty, dfl]
  | cons t ts ih =>
    cases i with
    | zero => simp [poolsFrom, getW]
    | succ i => simpa [poolsFrom, getW] using ih (off + t.pool) i

theorem getW_wires (c : Wiring) (i : Nat) :
    (getW c.wires i).creates = (c.tagger i).creates ∧ (getW c.wires i).trashes = (c.tagger i).trashes ∧
    (getW c.wires i).activates = (c.tagger i).activates ∧ (getW c.wires i).deactivates = (c.tagger i).deactivates :=
  getW_poolsFrom 0 c.taggers i

theorem pool_poolsFrom_bounds (off : Nat) (ts : List TaggerW) (i : Nat) (h : HandlerId)
    (hh : h ∈ (getW (poolsFrom off ts) i).pool) : off ≤ h := by
  induction ts generalizing off i with
  | nil => simp [poolsFrom, getW, TWire.empty] at hh
  | cons t ts ih =>
    cases i with
    | zero =>
      simp only [poolsFrom, getW, List.getElem?_cons_zero, Option.getD_some, List.mem_range'_1] at hh
      exact hh.1
    | succ i =>
      have : h ∈ (getW (poolsFrom (off + t.pool) ts) i).pool := by simpa [poolsFrom, getW] using hh
      exact Nat.le_trans (Nat.le_add_right _ _) (ih _ i this)

theorem poolsOK_poolsFrom (off : Nat) (ts : List TaggerW) : PoolsOK (poolsFrom off ts) := by
  induction ts generalizing off with
  | nil =>
    exact ⟨fun i => by simp [poolsFrom, getW, TWire.empty], fun i j _ h hh => by simp [poolsFrom, getW, TWire.empty] at hh⟩
  | cons t ts ih =>
    obtain ⟨ih1, ih2⟩ := ih (off + t.pool)
    have tl : ∀ i, getW (poolsFrom off (t :: ts)) (i + 1) = getW (poolsFrom (off + t.pool) ts) i := by
      intro i; simp [poolsFrom, getW]
    have hd : (getW (poolsFrom off (t :: ts)) 0).pool = List.range' off t.pool := by simp [poolsFrom, getW]
    constructor
    · intro i
      cases i with
      | zero => rw [hd]; exact List.nodup_range'
      | succ i => rw [tl]; exact ih1 i
    · intro i j hij h hh
      cases i with
      | zero =>
        cases j with
        | zero => exact absurd rfl hij
        | succ j =>
          rw [tl]; intro hc
          have := pool_poolsFrom_bounds _ _ _ _ hc
          rw [hd, List.mem_range'_1] at hh
          omega
      | succ i =>
        rw [tl] at hh
        cases j with
        | zero =>
          rw [hd, List.mem_range'_1]; intro hc
          have := pool_poolsFrom_bounds _ _ _ _ hh
          omega
        | succ j => rw [tl]; exact ih2 i j (fun hc => hij (by rw [hc])) h hh

theorem poolsOK_wires (c : Wiring) : PoolsOK c.wires := poolsOK_poolsFrom 0 c.taggers

theorem tagger_mem (c : Wiring) {i : Nat} (hi : i < c.n) : c.tagger i ∈ c.taggers := by
  unfold Wiring.tagger
  have : i < c.taggers.length := hi
  rw [List.getElem?_eq_getElem this]
  exact List.getElem_mem this

theorem tagger_ge (c : Wiring) {i : Nat} (hi : c.n ≤ i) : c.tagger i = dfl := by
  unfold Wiring.tagger
  have : c.taggers.length ≤ i := hi
  rw [List.getElem?_eq_none this]; rfl

/-! ### static well-formedness -/

theorem all_lt_of_idxOK {c : Wiring} {l : List Nat} (h : idxOK c l = true) : ∀ x ∈ l, x < c.n := by
  intro x hx
  have := List.all_eq_true.mp h x hx
  simpa using this

structure Static (c : Wiring) (S : TaggerIdx) : Prop where
  creates_lt : ∀ E, ∀ T ∈ (c.tagger E).creates, T < c.n
  creates_nodup : ∀ E, (c.tagger E).creates.Nodup
  start_not_created : ∀ E, S ∉ (c.tagger E).creates
  self_trash : ∀ E, E < c.n → E ∈ (c.tagger E).trashes

theorem static_of_wfStatic {c : Wiring} {S : TaggerIdx} (h : wfStatic c S = true) : Static c S := by
  unfold wfStatic at h
  rw [Bool.and_eq_true] at h
  obtain ⟨h1, h2⟩ := h
  have per : ∀ E, E < c.n → (idxOK c (c.tagger E).creates = true ∧ (c.tagger E).creates.Nodup ∧
      (c.tagger E).creates.contains S = false) := by
    intro E hE
    have := List.all_eq_true.mp h1 _ (tagger_mem c hE)
    simp only [Bool.and_eq_true, decide_eq_true_eq, Bool.not_eq_true'] at this
    exact ⟨this.1.1.1.1.1.1, this.1.1.2, this.2⟩
  refine ⟨?_, ?_, ?_, ?_⟩
  · intro E T hT
    by_cases hE : E < c.n
    · exact all_lt_of_idxOK (per E hE).1 T hT
    · rw [tagger_ge c (Nat.le_of_not_lt hE)] at hT; simp [dfl] at hT
  · intro E
    by_cases hE : E < c.n
    · exact (per E hE).2.1
    · rw [tagger_ge c (Nat.le_of_not_lt hE)]; simp [dfl]
  · intro E
    by_cases hE : E < c.n
    · have := (per E hE).2.2
      intro hc; rw [List.contains_iff_mem.mpr hc] at this; simp at this
    · rw [tagger_ge c (Nat.le_of_not_lt hE)]; simp [dfl]
  · intro E hE
    have := List.all_eq_true.mp h2 E (List.mem_range.mpr hE)
    exact List.contains_iff_mem.mp this

theorem wfw_of_static {c : Wiring} {S : TaggerIdx} (st : Static c S) : WFw c.wires := by
  intro E
  rw [(getW_wires c E).1, c.wires_length]
  exact ⟨st.creates_nodup E, st.creates_lt E⟩

/-! ### abstract states -/

def absOf (s : Act) : AState := s.map (·.activated)

theorem aGet_absOf (s : Act) (j : Nat) : aGet (absOf s) j = (getT s j).activated := by
  unfold aGet absOf getT
  rw [List.getElem?_map]
  cases s[j]? <;> rfl

theorem absOf_setActivated (s : Act) (i : Nat) (b : Bool) : absOf (setActivated s i b) = (absOf s).set i b := by
  unfold absOf setActivated
  rw [List.map_set]

theorem absOf_foldl (l : List Nat) (b : Bool) (s : Act) :
    absOf (l.foldl (fun s i => setActivated s i b) s) = l.foldl (fun σ i => σ.set i b) (absOf s) := by
  induction l generalizing s with
  | nil => rfl
  | cons a l ih => simp only [List.foldl_cons]; rw [ih, absOf_setActivated]

theorem absOf_applyActivation (c : Wiring) (s : Act) (E : TaggerIdx) :
    absOf (applyActivation c.wires s E) = aStep c (absOf s) E := by
  unfold applyActivation aStep
  simp only []
  rw [absOf_foldl, absOf_foldl, (getW_wires c E).2.2.1, (getW_wires c E).2.2.2]

theorem absOf_eq_of {s s' : Act} (hl : s.length = s'.length)
    (h : ∀ j, (getT s j).activated = (getT s' j).activated) : absOf s = absOf s' := by
  apply List.ext_getElem?
  intro j
  unfold absOf
  rw [List.getElem?_map, List.getElem?_map]
  by_cases hj : j < s.length
  · have hj' : j < s'.length := hl ▸ hj
    have := h j
    unfold getT at this
    rw [List.getElem?_eq_getElem hj, List.getElem?_eq_getElem hj'] at this ⊢
    simpa using this
  · rw [List.getElem?_eq_none (Nat.le_of_not_lt hj), List.getElem?_eq_none (hl ▸ Nat.le_of_not_lt hj)]

theorem createLoop_activated {yields : TaggerIdx → List IdTuple} {Ts : List TaggerIdx} {s s' : Act}
    {out : List (HandlerId × IdTuple)} (e : createLoop yields s Ts = some (s', out)) (j : TaggerIdx) :
    (getT s' j).activated = (getT s j).activated :=
  createLoop_inv (P := fun j t => t.activated = (getT s j).activated)
    (fun j t ys t' out hp e => by rw [(popMany_some e).2.2.2, hp]) (fun _ => rfl) e j

theorem absOf_initAct (w : Wires) : absOf (initAct w) = List.replicate w.length true := by
  unfold absOf initAct
  rw [List.map_map]
  apply List.ext_getElem?
  intro j
  by_cases hj : j < w.length
  · simp [hj]
  · simp [hj, List.getElem?_eq_none (Nat.le_of_not_lt hj)]

/-- abstract effect of one commit (trash + update) on the activation flags -/
theorem absOf_commit {G : Type} (c : Wiring) {W : World G} {rs rs' : RS G} {E : TaggerIdx} {g' : G}
    (e : commit c.wires W rs E g' = some rs') : absOf rs'.act = aStep c (absOf rs.act) E := by
  unfold commit at e
  cases hu : update c.wires (trash c.wires rs.act E).1 E (fun T => W.yieldOf T g') with
  | none => rw [hu] at e; simp at e
  | some r =>
    rw [hu] at e; simp only [Option.some.injEq] at e; subst e
    unfold update at hu
    simp only []
    rw [absOf_eq_of (createLoop_length hu) (createLoop_activated hu), absOf_applyActivation]
    congr 1
    exact absOf_eq_of (by rw [trash, trashLoop_length]) (fun j => trashLoop_activated _ _ j)

theorem aGet_aStep (c : Wiring) (s : Act) (E T : TaggerIdx) (hT : T < s.length) :
    aGet (aStep c (absOf s) E) T = actAfter c.wires E T (getT s T).activated := by
  rw [← absOf_applyActivation, aGet_absOf, getT_applyActivation _ _ _ _ hT]

/-! ### reachability -/

theorem mem_addNew_of_mem {seen xs : List AState} {x : AState} (h : x ∈ seen) : x ∈ addNew seen xs := by
  induction xs generalizing seen with
  | nil => exact h
  | cons y ys ih =>
    unfold addNew
    split
    · exact ih h
    · exact ih (List.mem_append_left _ h)

theorem mem_reachFrom_of_mem (c : Wiring) (k : Nat) {seen : List AState} {x : AState} (h : x ∈ seen) :
    x ∈ reachFrom c k seen := by
  induction k generalizing seen with
  | zero => exact h
  | succ k ih =>
    unfold reachFrom
    simp only []
    split
    · exact h
    · exact ih (mem_addNew_of_mem h)

theorem closed_step {c : Wiring} {R : List AState} (hc : closed c R = true) {σ : AState} (hσ : σ ∈ R) {E : TaggerIdx}
    (hE : E < c.n) (hcan : canCommit c σ E = true) : aStep c σ E ∈ R := by
  have h1 := List.all_eq_true.mp hc σ hσ
  have hmem : aStep c σ E ∈ succs c σ := by
    unfold succs
    exact List.mem_map.mpr ⟨E, List.mem_filter.mpr ⟨List.mem_range.mpr hE, hcan⟩, rfl⟩
  have := List.all_eq_true.mp h1 _ hmem
  exact List.contains_iff_mem.mp this

theorem no_violation {c : Wiring} {R : List AState} (hv : (violations c R).isEmpty = true) {σ : AState} (hσ : σ ∈ R)
    {E T : TaggerIdx} (hE : E < c.n) (hcan : canCommit c σ E = true) (hT : T < c.n) : pairViolations c σ E T = [] := by
  rw [List.isEmpty_iff] at hv
  cases hp : pairViolations c σ E T with
  | nil => rfl
  | cons cl rest =>
    exfalso
    have : (σ, E, T, cl) ∈ violations c R := by
      unfold violations
      refine List.mem_flatMap.mpr ⟨σ, hσ, List.mem_flatMap.mpr ⟨E, List.mem_filter.mpr ⟨List.mem_range.mpr hE, hcan⟩, ?_⟩⟩
      refine List.mem_flatMap.mpr ⟨T, List.mem_range.mpr hT, ?_⟩
      rw [hp]; simp
    rw [hv] at this; simp at this

/-- the clauses one reads off `pairViolations … = []` for a tagger that is not the start-of-run tagger -/
theorem clauses_of_no_violation {c : Wiring} {σ : AState} {E T : TaggerIdx} (h : pairViolations c σ E T = [])
    (hk : (c.tagger T).kind ≠ .startOfRun) :
    (T ∈ (c.tagger E).creates → T ∉ (c.tagger E).trashes → aGet σ T = false) ∧
    (T ∈ (c.tagger E).trashes → T ∉ (c.tagger E).creates → aGet (aStep c σ E) T = false) ∧
    (T ∉ (c.tagger E).trashes → T ∉ (c.tagger E).creates →
        aGet (aStep c σ E) T = aGet σ T ∧ (aGet σ T = false ∨ disjointFP c (c.tagger E) (c.tagger T) = true)) ∧
    (affects (c.tagger E) .motion = true → motionBound (c.tagger T) = true → aGet σ T = true → T ∈ (c.tagger E).trashes) := by
  unfold pairViolations at h
  have hk' : ((c.tagger T).kind == HandlerKind.startOfRun) = false := by
    cases hkk : (c.tagger T).kind <;> simp_all
  simp only [hk', Bool.false_eq_true, if_false, List.append_eq_nil_iff] at h
  obtain ⟨⟨⟨⟨h1, h2⟩, h3⟩, h4⟩, h5⟩ := h
  have mem_iff : ∀ (l : List Nat), l.contains T = true ↔ T ∈ l := fun l => List.contains_iff_mem
  refine ⟨?_, ?_, ?_, ?_⟩
  · intro hc ht
    have e1 := (mem_iff _).mpr hc
    have e2 : (c.tagger E).trashes.contains T = false := by
      cases hh : (c.tagger E).trashes.contains T
      · rfl
      · exact absurd ((mem_iff _).mp hh) ht
    cases ha : aGet σ T
    · rfl
    · rw [e1, e2, ha] at h1; simp at h1
  · intro ht hc
    have e1 := (mem_iff _).mpr ht
    have e2 : (c.tagger E).creates.contains T = false := by
      cases hh : (c.tagger E).creates.contains T
      · rfl
      · exact absurd ((mem_iff _).mp hh) hc
    cases ha : aGet (aStep c σ E) T
    · rfl
    · rw [e1, e2, ha] at h2; simp at h2
  · intro ht hc
    have e1 : (c.tagger E).trashes.contains T = false := by
      cases hh : (c.tagger E).trashes.contains T
      · rfl
      · exact absurd ((mem_iff _).mp hh) ht
    have e2 : (c.tagger E).creates.contains T = false := by
      cases hh : (c.tagger E).creates.contains T
      · rfl
      · exact absurd ((mem_iff _).mp hh) hc
    constructor
    · cases ha : aGet (aStep c σ E) T <;> cases hb : aGet σ T
      · rfl
      · rw [e1, e2, ha, hb] at h3; simp at h3
      · rw [e1, e2, ha, hb] at h3; simp at h3
      · rfl
    · cases hb : aGet σ T
      · exact Or.inl rfl
      · right
        cases hd : disjointFP c (c.tagger E) (c.tagger T)
        · rw [e1, e2, hb, hd] at h4; simp at h4
        · rfl
  · intro hm hb ha
    cases hh : (c.tagger E).trashes.contains T
    · rw [hm, hb, ha, hh] at h5; simp at h5
    · exact (mem_iff _).mp hh

/-! ### the start-of-run tagger -/

theorem start_spec {c : Wiring} {S : TaggerIdx} (h : c.start? = some S) :
    S < c.n ∧ (c.tagger S).kind = .startOfRun ∧ ∀ i, i < c.n → (c.tagger i).kind = .startOfRun → i = S := by
  unfold Wiring.start? at h
  split at h
  · next i hf =>
    split at h
    · simp only [Option.some.injEq] at h; subst h
      have hi : i ∈ (List.range c.n).filter (fun i => (c.tagger i).kind == .startOfRun) := by rw [hf]; simp
      obtain ⟨h1, h2⟩ := List.mem_filter.mp hi
      refine ⟨List.mem_range.mp h1, by simpa using h2, ?_⟩
      intro j hj hk
      have : j ∈ (List.range c.n).filter (fun i => (c.tagger i).kind == .startOfRun) :=
        List.mem_filter.mpr ⟨List.mem_range.mpr hj, by simp [hk]⟩
      rw [hf] at this; simpa using this
    · simp at h
  · simp at h

/-! ### the link -/

/-- the property's tagger list: every tagger of the configuration except the start-of-run tagger -/
def LiveIs {G : Type} (c : Wiring) (W : World G) : Prop :=
  ∀ T, W.live T ↔ (T < c.n ∧ (c.tagger T).kind ≠ .startOfRun)

/-- soundness of the dependency/effect footprint tables w.r.t. an abstract world: if the effect footprint of the committing
tagger and the dependency footprint of `T` are disjoint, a transition by `E` does not change what `T` generates (as far as
the property's comparison for `T` sees it) -/
structure FootprintsSound {G : Type} (c : Wiring) (W : World G) (Tr : TaggerIdx → G → G → Prop) : Prop where
  untouched : ∀ E T g g', Tr E g g' → disjointFP c (c.tagger E) (c.tagger T) = true →
    ((W.yieldOf T g').map (W.view T)).Perm ((W.yieldOf T g).map (W.view T))

/-- ALL runs of configuration `c` in the world `W` with transition relation `Tr`: no hypothesis on the steps except that the
committing tagger has a pending handler, is not the end-of-run tagger (whose commit ends the run) and the global state moves
along `Tr` -/
inductive Run {G : Type} (c : Wiring) (W : World G) (Tr : TaggerIdx → G → G → Prop) (S : TaggerIdx) : RS G → Prop where
  | start (ids0 : HandlerId → IdTuple) (g0 g1 : G) (s0 : Act) (out : List (HandlerId × IdTuple)) (rs1 : RS G)
      (hfirst : first c.wires (initAct c.wires) S (fun T => W.yieldOf T g0) = some (s0, out))
      (hcommit : commit c.wires W ⟨s0, assign ids0 out, g0⟩ S g1 = some rs1) : Run c W Tr S rs1
  | step (rs rs' : RS G) (E : TaggerIdx) (g' : G) (prev : Run c W Tr S rs)
      (hpending : (getT rs.act E).running ≠ []) (hend : (c.tagger E).kind ≠ .endOfRun)
      (htr : Tr E rs.g g') (hcommit : commit c.wires W rs E g' = some rs') : Run c W Tr S rs'

theorem fresh_nil_of_deactivated {G : Type} {W : World G} {rs : RS G} {T : TaggerIdx} (h : Fresh W rs T)
    (hd : (getT rs.act T).activated = false) : (getT rs.act T).running = [] := by
  unfold Fresh at h
  simp only [yieldEff, hd, Bool.false_eq_true, if_false, List.map_nil] at h
  have := h.length_eq
  simpa using this

/-- running list of the start tagger after a commit in which it is trashed-or-empty and not created -/
theorem running_nil_after_commit {G : Type} {w : Wires} {W : World G} {rs rs' : RS G} {E S : TaggerIdx} {g' : G}
    (hnc : S ∉ (getW w E).creates) (h0 : S ∈ (getW w E).trashes ∨ (getT rs.act S).running = [])
    (e : commit w W rs E g' = some rs') : (getT rs'.act S).running = [] := by
  unfold commit at e
  cases hu : update w (trash w rs.act E).1 E (fun T => W.yieldOf T g') with
  | none => rw [hu] at e; simp at e
  | some r =>
    rw [hu] at e; simp only [Option.some.injEq] at e; subst e
    unfold update at hu
    simp only []
    rw [createLoop_frame hu hnc, applyActivation_running]
    by_cases ht : S ∈ (getW w E).trashes
    · by_cases hl : S < rs.act.length
      · rw [trash, trashLoop_mem _ _ ht hl]; rfl
      · rw [getT_of_le _ _ (by rw [trash, trashLoop_length]; exact Nat.le_of_not_lt hl)]; rfl
    · rw [trash, trashLoop_frame _ _ ht]
      rcases h0 with h0 | h0
      · exact absurd h0 ht
      · exact h0

/-- the invariant carried along a run -/
structure RunInv {G : Type} (c : Wiring) (W : World G) (S : TaggerIdx) (rs : RS G) : Prop where
  fresh : ∀ T, W.live T → Fresh W rs T
  pool : PoolInv c.wires rs.act
  reach : absOf rs.act ∈ reach c S
  startIdle : (getT rs.act S).running = []

theorem run_inv {G : Type} (c : Wiring) (W : World G) (Tr : TaggerIdx → G → G → Prop) (S : TaggerIdx)
    (sound : WiringSound c = true) (hS : c.start? = some S) (fps : FootprintsSound c W Tr) (hlive : LiveIs c W)
    {rs : RS G} (h : Run c W Tr S rs) : RunInv c W S rs := by
  unfold WiringSound at sound
  rw [hS] at sound
  simp only [Bool.and_eq_true] at sound
  obtain ⟨⟨⟨hwf, hstart⟩, hclosed⟩, hviol⟩ := sound
  have st := static_of_wfStatic hwf
  have wf := wfw_of_static st
  have pok := poolsOK_wires c
  obtain ⟨hSn, hSk, hSu⟩ := start_spec hS
  have liveNe : ∀ T, W.live T → T ≠ S := fun T hl hc => ((hlive T).mp hl).2 (hc ▸ hSk)
  have notCreated : ∀ E, S ∉ (getW c.wires E).creates := fun E => by rw [(getW_wires c E).1]; exact st.start_not_created E
  induction h with
  | start ids0 g0 g1 s0 out rs1 hfirst hcommit =>
    have p0 : PoolInv c.wires s0 := poolInv_first (poolInv_init c.wires) hfirst
    -- activation flags after the first call
    have habs0 : absOf s0 = aStep c (List.replicate c.n true) S := by
      unfold first at hfirst
      rw [absOf_eq_of (createLoop_length hfirst) (createLoop_activated hfirst), absOf_applyActivation, absOf_initAct,
        c.wires_length]
    have hreach1 : absOf rs1.act = startState c S := by
      rw [absOf_commit c hcommit]; show aStep c (absOf s0) S = _; rw [habs0]; rfl
    have empty : ∀ T, W.live T → (getT s0 T).running = [] := by
      intro T hl
      have hne : T ∉ [S] := by simp [liveNe T hl]
      unfold first at hfirst
      rw [createLoop_frame hfirst hne, applyActivation_running, getT_initAct]
      split <;> rfl
    have sok : StartOK c.wires W ⟨s0, assign ids0 out, g0⟩ S g1 := by
      intro T hl
      obtain ⟨hTn, hTk⟩ := (hlive T).mp hl
      have := List.all_eq_true.mp hstart T (List.mem_range.mpr hTn)
      simp only [Bool.or_eq_true, beq_iff_eq, Bool.not_eq_true'] at this
      rcases this with (h1 | h2) | h3
      · exact absurd h1 hTk
      · left; rw [(getW_wires c S).1]; exact List.contains_iff_mem.mp h2
      · right
        unfold yieldAfter
        have hTl : T < s0.length := by rw [p0.1, c.wires_length]; exact hTn
        have : actAfter c.wires S T (getT s0 T).activated = false := by
          rw [← aGet_aStep c s0 S T hTl, habs0]; exact h3
        simp [this]
    refine ⟨fresh_start wf pok p0 empty sok hcommit, commit_poolInv p0 hcommit, ?_, ?_⟩
    · rw [hreach1]; exact mem_reachFrom_of_mem c _ (by simp [startState])
    · refine running_nil_after_commit (notCreated S) (Or.inl ?_) hcommit
      rw [(getW_wires c S).2.1]; exact st.self_trash S hSn
  | step rs rs' E g' _ hpending hend htr hcommit ih =>
    -- the committing tagger is in range, not the start tagger, live, hence fresh, hence activated
    have hEn : E < c.n := by
      rcases Nat.lt_or_ge E c.n with h | h
      · exact h
      · exfalso; apply hpending
        rw [getT_of_le _ _ (by rw [ih.pool.1, c.wires_length]; exact h)]; rfl
    have hEk : (c.tagger E).kind ≠ .startOfRun := by
      intro hk
      have := hSu E hEn hk
      subst this
      exact hpending ih.startIdle
    have hEl : W.live E := (hlive E).mpr ⟨hEn, hEk⟩
    have hEa : aGet (absOf rs.act) E = true := by
      rw [aGet_absOf]
      cases ha : (getT rs.act E).activated
      · exact absurd (fresh_nil_of_deactivated (ih.fresh E hEl) ha) hpending
      · rfl
    have hcan : canCommit c (absOf rs.act) E = true := by
      unfold canCommit
      simp only [hEa, Bool.true_and, Bool.and_eq_true, bne_iff_ne, ne_eq]
      exact ⟨hEk, hend⟩
    have hnext : aStep c (absOf rs.act) E ∈ reach c S := closed_step hclosed ih.reach hEn hcan
    have ok : StepOK c.wires W rs E g' := by
      have cl : ∀ T, W.live T → _ := fun T hl =>
        clauses_of_no_violation (no_violation hviol ih.reach hEn hcan ((hlive T).mp hl).1) ((hlive T).mp hl).2
      have hTl : ∀ T, W.live T → T < rs.act.length := fun T hl => by
        rw [ih.pool.1, c.wires_length]; exact ((hlive T).mp hl).1
      refine ⟨?_, ?_, ?_⟩
      · intro T hl hc ht
        rw [(getW_wires c E).1] at hc; rw [(getW_wires c E).2.1] at ht
        have := (cl T hl).1 hc ht
        rw [aGet_absOf] at this
        exact fresh_nil_of_deactivated (ih.fresh T hl) this
      · intro T hl ht hc
        rw [(getW_wires c E).1] at hc; rw [(getW_wires c E).2.1] at ht
        have := (cl T hl).2.1 ht hc
        rw [aGet_aStep c rs.act E T (hTl T hl)] at this
        unfold yieldAfter; simp [this]
      · intro T hl ht hc
        rw [(getW_wires c E).1] at hc; rw [(getW_wires c E).2.1] at ht
        obtain ⟨e1, e2⟩ := (cl T hl).2.2.1 ht hc
        rw [aGet_aStep c rs.act E T (hTl T hl), aGet_absOf] at e1
        rw [aGet_absOf] at e2
        unfold yieldAfter yieldEff
        rw [e1]
        rcases e2 with e2 | e2
        · simp [e2]
        · cases ha : (getT rs.act T).activated
          · simp
          · simp only [if_true]; exact fps.untouched E T rs.g g' htr e2
    refine ⟨fresh_step wf pok ih.pool ih.fresh ok hcommit, commit_poolInv ih.pool hcommit, ?_, ?_⟩
    · rw [absOf_commit c hcommit]; exact hnext
    · exact running_nil_after_commit (notCreated E) (Or.inr ih.startIdle) hcommit

/-- C09 along every run of a sound configuration -/
theorem run_fresh {G : Type} (c : Wiring) (W : World G) (Tr : TaggerIdx → G → G → Prop) (S : TaggerIdx)
    (sound : WiringSound c = true) (hS : c.start? = some S) (fps : FootprintsSound c W Tr) (hlive : LiveIs c W)
    {rs : RS G} (h : Run c W Tr S rs) : (∀ T, W.live T → Fresh W rs T) ∧ PoolInv c.wires rs.act :=
  ⟨(run_inv c W Tr S sound hS fps hlive h).fresh, (run_inv c W Tr S sound hS fps hlive h).pool⟩

/-- clause (h) at every step of every run of a sound configuration (used by C08) -/
theorem run_clause_h {G : Type} (c : Wiring) (W : World G) (Tr : TaggerIdx → G → G → Prop) (S : TaggerIdx)
    (sound : WiringSound c = true) (hS : c.start? = some S) (fps : FootprintsSound c W Tr) (hlive : LiveIs c W)
    {rs : RS G} (hrun : Run c W Tr S rs) {E : TaggerIdx} (hE : (getT rs.act E).running ≠ [])
    (hend : (c.tagger E).kind ≠ .endOfRun) (hm : affects (c.tagger E) .motion = true)
    {T : TaggerIdx} (hT : T < c.n) (hb : motionBound (c.tagger T) = true) :
    T ∈ (getW c.wires E).trashes ∨ (getT rs.act T).running = [] := by
  have ih := run_inv c W Tr S sound hS fps hlive hrun
  unfold WiringSound at sound
  rw [hS] at sound
  simp only [Bool.and_eq_true] at sound
  obtain ⟨⟨⟨_, _⟩, _⟩, hviol⟩ := sound
  obtain ⟨hSn, hSk, hSu⟩ := start_spec hS
  have hEn : E < c.n := by
    rcases Nat.lt_or_ge E c.n with h | h
    · exact h
    · exfalso; apply hE
      rw [getT_of_le _ _ (by rw [ih.pool.1, c.wires_length]; exact h)]; rfl
  have hEk : (c.tagger E).kind ≠ .startOfRun := by
    intro hk
    have := hSu E hEn hk
    subst this
    exact hE ih.startIdle
  have hEl : W.live E := (hlive E).mpr ⟨hEn, hEk⟩
  have hEa : aGet (absOf rs.act) E = true := by
    rw [aGet_absOf]
    cases ha : (getT rs.act E).activated
    · exact absurd (fresh_nil_of_deactivated (ih.fresh E hEl) ha) hE
    · rfl
  have hcan : canCommit c (absOf rs.act) E = true := by
    unfold canCommit
    simp only [hEa, Bool.true_and, Bool.and_eq_true, bne_iff_ne, ne_eq]
    exact ⟨hEk, hend⟩
  have hTk : (c.tagger T).kind ≠ .startOfRun := by
    intro hk; rw [motionBound, hk] at hb; simp at hb
  have hTl : W.live T := (hlive T).mpr ⟨hT, hTk⟩
  have cl := clauses_of_no_violation (no_violation hviol ih.reach hEn hcan hT) hTk
  cases ha : (getT rs.act T).activated
  · right; exact fresh_nil_of_deactivated (ih.fresh T hTl) ha
  · left
    rw [(getW_wires c E).2.1]
    exact cl.2.2.2 hm hb (by rw [aGet_absOf]; exact ha)

end JF.Act
