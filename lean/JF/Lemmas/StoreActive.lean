import JF.Lemmas.StoreFrame
/-!
The lifting-state invariant behind the independent-active rule
(`TreeLiftingState.yield_independent_lifted_identifiers`), for two node levels.
-/
set_option linter.unusedSimpArgs false
namespace JF.Store
variable {α : Type}

/-- `id` has a velocity (and a time stamp) in the global lifting state -/
def Lifting.isLifted (l : Lifting) (id : Ident) : Prop := (dictGet l.dict id).isSome = true

/-- two node levels; the sets of lifted identifiers mirror the keys of the dictionary -/
structure LiftWF (l : Lifting) : Prop where
  lv : l.levels = 2
  m1 : ∀ id, id ∈ l.lifted1 ↔ id.length = 1 ∧ l.isLifted id
  m2 : ∀ id, id ∈ l.lifted2 ↔ id.length = 2 ∧ l.isLifted id

theorem mem_setAdd (s : List Ident) (id x : Ident) : x ∈ setAdd s id ↔ x ∈ s ∨ x = id := by
  simp only [setAdd]
  split
  · constructor
    · exact Or.inl
    · rintro (h | rfl)
      · exact h
      · assumption
  · simp

theorem mem_setRemove (s : List Ident) (id x : Ident) : x ∈ setRemove s id ↔ x ∈ s ∧ x ≠ id := by
  simp [setRemove]

theorem modLifted_two {l : Lifting} (hlv : l.levels = 2) (n : Nat) (f : List Ident → List Ident) :
    l.modLifted n f = if n = 1 then .ok { l with lifted1 := f l.lifted1 }
      else if n = 2 then .ok { l with lifted2 := f l.lifted2 } else .error .key := by
  simp [Lifting.modLifted, hlv]

theorem LiftWF.set {l : Lifting} (w : LiftWF l) (id : Ident) (hlen : id.length = 1 ∨ id.length = 2)
    (v t : Option Ref) : LiftWF (l.set id v t).1 := by
  have hlv := w.lv
  have l1 : ∀ x, x ∈ l.lifted1 ↔ x.length = 1 ∧ (dictGet l.dict x).isSome = true := w.m1
  have l2 : ∀ x, x ∈ l.lifted2 ↔ x.length = 2 ∧ (dictGet l.dict x).isSome = true := w.m2
  cases v with
  | some v =>
    cases t with
    | none => simpa [Lifting.set] using w
    | some t =>
      simp only [Lifting.set]
      rw [modLifted_two (l := { l with dict := dictSet l.dict id (v, t) }) hlv]
      rcases hlen with h1 | h2
      · simp only [h1, if_true]
        refine ⟨hlv, ?_, ?_⟩
        · intro x
          simp only [mem_setAdd, l1 x, Lifting.isLifted, dictGet_dictSet]
          by_cases hx : x = id
          · subst hx; simp [h1]
          · simp [hx]
        · intro x
          simp only [l2 x, Lifting.isLifted, dictGet_dictSet]
          by_cases hx : x = id
          · subst hx; simp [h1]
          · simp [hx]
      · simp only [h2, Nat.reduceEqDiff, if_false, if_true]
        refine ⟨hlv, ?_, ?_⟩
        · intro x
          simp only [l1 x, Lifting.isLifted, dictGet_dictSet]
          by_cases hx : x = id
          · subst hx; simp [h2]
          · simp [hx]
        · intro x
          simp only [mem_setAdd, l2 x, Lifting.isLifted, dictGet_dictSet]
          by_cases hx : x = id
          · subst hx; simp [h2]
          · simp [hx]
  | none =>
    cases t with
    | some t => simpa [Lifting.set] using w
    | none =>
      simp only [Lifting.set]
      split
      · rename_i hsome
        rw [modLifted_two (l := { l with dict := dictDel l.dict id }) hlv]
        rcases hlen with h1 | h2
        · simp only [h1, if_true]
          refine ⟨hlv, ?_, ?_⟩
          · intro x
            simp only [mem_setRemove, l1 x, Lifting.isLifted, dictGet_dictDel]
            by_cases hx : x = id
            · subst hx; simp
            · simp [hx]
          · intro x
            simp only [l2 x, Lifting.isLifted, dictGet_dictDel]
            by_cases hx : x = id
            · subst hx; simp [h1]
            · simp [hx]
        · simp only [h2, Nat.reduceEqDiff, if_false, if_true]
          refine ⟨hlv, ?_, ?_⟩
          · intro x
            simp only [l1 x, Lifting.isLifted, dictGet_dictDel]
            by_cases hx : x = id
            · subst hx; simp [h2]
            · simp [hx]
          · intro x
            simp only [mem_setRemove, l2 x, Lifting.isLifted, dictGet_dictDel]
            by_cases hx : x = id
            · subst hx; simp
            · simp [hx]
      · exact w

theorem physSet_ok_length {roots roots' : List (PRoot α)} {id : Ident} {p : Ref}
    (h : physSet roots id p = .ok roots') : id.length = 1 ∨ id.length = 2 := by
  match id, h with
  | [], h => simp [physSet] at h
  | [_], _ => simp
  | [_, _], _ => simp
  | _ :: _ :: _ :: _, h => simp [physSet] at h

theorem LiftWF.insertUnit {g : Global α} (w : LiftWF g.lift) (u : CUnit α) : LiftWF (insertUnit g u).1.lift := by
  simp only [Store.insertUnit]
  cases hp : physSet g.roots u.id u.pos with
  | error e => exact w
  | ok roots => exact w.set u.id (physSet_ok_length hp) u.vel u.ts

theorem LiftWF.insertUnits (us : List (CUnit α)) : ∀ {g : Global α}, LiftWF g.lift → LiftWF (insertUnits g us).1.lift := by
  induction us with
  | nil => intro g w; exact w
  | cons u us ih =>
    intro g w
    simp only [Store.insertUnits]
    have w1 := w.insertUnit u
    cases hu : Store.insertUnit g u with
    | mk g1 e =>
      rw [hu] at w1
      cases e with
      | none => exact ih w1
      | some e => exact w1

theorem liftwf_step {s : Sess α} (w : LiftWF s.g.lift) (op : Op α) : LiftWF (step s op).1.g.lift := by
  cases op with
  | insert sel =>
    simp only [step]
    cases selBranches s.live sel with
    | none => exact w
    | some bs => exact LiftWF.insertUnits _ w
  | extract id => simp only [step]; split <;> exact w
  | active => simp only [step]; split <;> exact w
  | global => exact w
  | setPos b u i x =>
    simp only [step]
    split
    · exact w
    · split
      · split <;> exact w
      · exact w
  | newPos b u xs => simp only [step]; split <;> exact w
  | setVel b u i x =>
    simp only [step]
    split
    · exact w
    · split
      · exact w
      · split
        · split <;> exact w
        · exact w
  | newVel b u xs =>
    simp only [step]
    split
    · exact w
    · split <;> exact w
  | tsUpdate b u q r =>
    simp only [step]
    split
    · exact w
    · split <;> exact w
  | newTs b u t =>
    simp only [step]
    split
    · exact w
    · split <;> exact w

theorem liftwf_run {s : Sess α} (w : LiftWF s.g.lift) (ops : List (Op α)) : LiftWF (run s ops).g.lift := by
  induction ops generalizing s with
  | nil => exact w
  | cons op ops ih => exact ih (liftwf_step w op)

theorem liftwf_init [Div α] (o : Ops α) (perRoot : Nat)
    (roots : List (Option Nat × List α × List (Option Nat × List α))) :
    LiftWF (Sess.init o 2 perRoot roots).g.lift :=
  ⟨rfl, by simp [Sess.init, Lifting.isLifted, dictGet], by simp [Sess.init, Lifting.isLifted, dictGet]⟩

/-- the independent-active rule, two levels -/
theorem mem_independent {l : Lifting} (w : LiftWF l) (id : Ident) :
    id ∈ l.independent ↔ ∃ r, l.isLifted [r] ∧
      ((id = [r] ∧ ∀ i, i < l.perRoot → l.isLifted [r, i]) ∨
       ((¬ ∀ i, i < l.perRoot → l.isLifted [r, i]) ∧ ∃ i, i < l.perRoot ∧ id = [r, i] ∧ l.isLifted [r, i])) := by
  have hlv : ¬ l.levels = 1 := by rw [w.lv]; decide
  simp only [Lifting.independent, hlv, if_false, List.mem_flatMap]
  have full : ∀ r : Nat,
      (((List.range l.perRoot).map (fun i => [r] ++ [i])).filter (· ∈ l.lifted2)).length = l.perRoot ↔
        ∀ i, i < l.perRoot → l.isLifted [r, i] := by
    intro r
    have : ((List.range l.perRoot).map (fun i => [r] ++ [i])).length = l.perRoot := by simp
    conv => lhs; rhs; rw [← this]
    rw [List.length_filter_eq_length_iff]
    simp only [List.mem_map, List.mem_range, decide_eq_true_eq, forall_exists_index, and_imp]
    constructor
    · intro h i hi
      have := h _ i hi rfl
      exact ((w.m2 _).1 this).2
    · intro h x i hi hx
      subst hx
      exact (w.m2 _).2 ⟨rfl, h i hi⟩
  constructor
  · rintro ⟨root, hroot, hid⟩
    obtain ⟨hlen, hl⟩ := (w.m1 root).1 hroot
    obtain ⟨r, rfl⟩ : ∃ r, root = [r] := by
      match root, hlen with
      | [r], _ => exact ⟨r, rfl⟩
    refine ⟨r, hl, ?_⟩
    by_cases hf : ∀ i, i < l.perRoot → l.isLifted [r, i]
    · left
      rw [if_pos ((full r).2 hf)] at hid
      exact ⟨by simpa using hid, hf⟩
    · right
      rw [if_neg (fun h => hf ((full r).1 h))] at hid
      simp only [List.mem_filter, List.mem_map, List.mem_range, decide_eq_true_eq] at hid
      obtain ⟨⟨i, hi, rfl⟩, h2⟩ := hid
      exact ⟨hf, i, hi, rfl, ((w.m2 _).1 h2).2⟩
  · rintro ⟨r, hl, h⟩
    refine ⟨[r], (w.m1 _).2 ⟨rfl, hl⟩, ?_⟩
    rcases h with ⟨rfl, hf⟩ | ⟨hf, i, hi, rfl, hli⟩
    · rw [if_pos ((full r).2 hf)]; simp
    · rw [if_neg (fun h => hf ((full r).1 h))]
      simp only [List.mem_filter, List.mem_map, List.mem_range, decide_eq_true_eq]
      exact ⟨⟨i, hi, rfl⟩, (w.m2 _).2 ⟨rfl, hli⟩⟩

/-- one level: every lifted identifier -/
theorem mem_independent_one {l : Lifting} (h1 : l.levels = 1) (id : Ident) :
    id ∈ l.independent ↔ l.isLifted id := by
  simp only [Lifting.independent, h1, if_true, Lifting.isLifted, List.mem_map]
  generalize l.dict = d
  induction d with
  | nil => simp [dictGet]
  | cons e d ih =>
    obtain ⟨k, x⟩ := e
    simp only [dictGet, List.mem_cons, exists_eq_or_imp]
    by_cases hk : k = id
    · simp [hk]
    · simp only [hk, false_or, if_false]; exact ih

end JF.Store
