import JF.Model.Output
import Mathlib.Data.List.Nodup
import Mathlib.Data.List.Range
import Mathlib.Tactic.Linarith
/-!
Combinatorics of the pair loop of the output handlers (`JF.Output.crossPairs`) and of the interrupted print loop
(`JF.Output.collect`), for any element type and any number of groups.
-/
namespace JF.Output
open List

variable {β γ : Type}

/-! ### `collect` -/

theorem collect_ok {α : Type} (f : γ → Out α) (l : List γ) (h : ∀ x ∈ l, (f x).2 = none) :
    collect f l = (l.flatMap fun x => (f x).1, none) := by
  induction l with
  | nil => rfl
  | cons x xs ih =>
    have hx := h x (by simp)
    have := ih (fun y hy => h y (by simp [hy]))
    unfold collect
    rcases hfx : f x with ⟨ls, e⟩
    rw [hfx] at hx
    simp only at hx
    subst hx
    simp [this, hfx]

/-- `collect` commutes with a map on the printed values that keeps the exception -/
theorem collect_map {α : Type} (g : Line α → Line α) (f f' : γ → Out α) (l : List γ)
    (h : ∀ x ∈ l, f' x = ((f x).1.map g, (f x).2)) :
    collect f' l = ((collect f l).1.map g, (collect f l).2) := by
  induction l with
  | nil => rfl
  | cons x xs ih =>
    have hx := h x (by simp)
    have := ih (fun y hy => h y (by simp [hy]))
    unfold collect
    rw [hx]
    rcases hfx : f x with ⟨ls, e⟩
    cases e with
    | some e => simp
    | none => simp [this]

/-! ### `crossPairs` -/

theorem crossPairs_cons (g : List β) (gs : List (List β)) :
    crossPairs (g :: gs) = (gs.flatMap fun h => g.flatMap fun a => h.map fun b => (a, b)) ++ crossPairs gs := rfl

/-- naturality: relabelling the elements relabels the pairs, in the same order -/
theorem crossPairs_map (f : β → γ) (gs : List (List β)) :
    crossPairs (gs.map (List.map f)) = (crossPairs gs).map (Prod.map f f) := by
  induction gs with
  | nil => rfl
  | cons g gs ih =>
    simp only [List.map_cons, crossPairs_cons, ih, List.map_append, List.map_flatMap, List.flatMap_map, List.map_map]
    congr 1

theorem mem_crossPairs_cons {g : List β} {gs : List (List β)} {a b : β} :
    (a, b) ∈ crossPairs (g :: gs) ↔ (a ∈ g ∧ ∃ h ∈ gs, b ∈ h) ∨ (a, b) ∈ crossPairs gs := by
  simp only [crossPairs_cons, List.mem_append, List.mem_flatMap, List.mem_map, Prod.mk.injEq]
  constructor
  · rintro (⟨h, hh, a', ha', b', hb', rfl, rfl⟩ | h)
    · exact Or.inl ⟨ha', h, hh, hb'⟩
    · exact Or.inr h
  · rintro (⟨ha, h, hh, hb⟩ | h)
    · exact Or.inl ⟨h, hh, a, ha, b, hb, rfl, rfl⟩
    · exact Or.inr h

/-- a pair is produced iff its first component lies in an EARLIER group than its second: in particular never two
elements of the same group (position), and never in the reverse order -/
theorem mem_crossPairs {gs : List (List β)} {a b : β} :
    (a, b) ∈ crossPairs gs ↔ ∃ i j : Nat, i < j ∧ ∃ g h, gs[i]? = some g ∧ gs[j]? = some h ∧ a ∈ g ∧ b ∈ h := by
  induction gs with
  | nil => simp [crossPairs]
  | cons g0 gs ih =>
    rw [mem_crossPairs_cons, ih]
    constructor
    · rintro (⟨ha, h, hh, hb⟩ | ⟨i, j, hij, g, h, hg, hh, ha, hb⟩)
      · obtain ⟨j, hj, rfl⟩ := List.getElem_of_mem hh
        exact ⟨0, j + 1, by omega, g0, gs[j], by simp, by simp [hj], ha, hb⟩
      · exact ⟨i + 1, j + 1, by omega, g, h, by simpa using hg, by simpa using hh, ha, hb⟩
    · rintro ⟨i, j, hij, g, h, hg, hh, ha, hb⟩
      cases j with
      | zero => omega
      | succ j =>
        cases i with
        | zero =>
          simp only [List.getElem?_cons_zero, Option.some.injEq] at hg
          subst hg
          simp only [List.getElem?_cons_succ] at hh
          exact Or.inl ⟨ha, h, List.mem_of_getElem? hh, hb⟩
        | succ i =>
          simp only [List.getElem?_cons_succ] at hg hh
          exact Or.inr ⟨i, j, by omega, g, h, hg, hh, ha, hb⟩

theorem fst_mem_of_mem_crossPairs {gs : List (List β)} {p : β × β} (h : p ∈ crossPairs gs) :
    (∃ g ∈ gs, p.1 ∈ g) ∧ ∃ g ∈ gs, p.2 ∈ g := by
  obtain ⟨a, b⟩ := p
  obtain ⟨i, j, -, g, h', hg, hh, ha, hb⟩ := mem_crossPairs.mp h
  exact ⟨⟨g, List.mem_of_getElem? hg, ha⟩, ⟨h', List.mem_of_getElem? hh, hb⟩⟩

/-- if all elements of all groups are distinct, no pair is produced twice -/
theorem nodup_crossPairs {gs : List (List β)} (hn : gs.flatten.Nodup) : (crossPairs gs).Nodup := by
  induction gs with
  | nil => simp [crossPairs]
  | cons g gs ih =>
    rw [List.flatten_cons, List.nodup_append] at hn
    obtain ⟨hg, hgs, hdis⟩ := hn
    have hgs' := List.nodup_flatten.mp hgs
    rw [crossPairs_cons, List.nodup_append]
    refine ⟨?_, ih hgs, ?_⟩
    · -- the block of the first group
      rw [List.nodup_flatMap]
      refine ⟨fun h hh => ?_, ?_⟩
      · rw [List.nodup_flatMap]
        refine ⟨fun a _ => (hgs'.1 h hh).map (fun x y hxy => by simpa using hxy), ?_⟩
        refine List.Pairwise.imp (R := (· ≠ ·)) ?_ hg
        · intro a b hab
          simp only [Function.onFun, List.disjoint_left, List.mem_map, not_exists, not_and]
          rintro p ⟨x, -, rfl⟩ y - hxy
          exact hab (by simpa using (congrArg Prod.fst hxy).symm)
      · refine hgs'.2.imp ?_
        intro h h' hd
        simp only [Function.onFun, List.disjoint_left, List.mem_flatMap, List.mem_map, not_exists, not_and]
        rintro p ⟨a, -, x, hx, rfl⟩ a' - y hy hxy
        have : y = x := by simpa using congrArg Prod.snd hxy
        subst this
        exact List.disjoint_left.mp hd hx hy
    · -- the first block and the rest are disjoint: first components come from different groups
      intro p hp q hq hpq
      subst hpq
      simp only [List.mem_flatMap, List.mem_map] at hp
      obtain ⟨h, -, a, ha, b, -, rfl⟩ := hp
      obtain ⟨⟨g', hg', ha'⟩, -⟩ := fst_mem_of_mem_crossPairs hq
      exact hdis a ha a (List.mem_flatten.mpr ⟨g', hg', ha'⟩) rfl

/-! ### addresses `(group index, index in the group)` -/

/-- the addresses of the elements of groups of the given sizes -/
def addrs (sizes : List Nat) : List (List (Nat × Nat)) :=
  sizes.zipIdx.map fun (n, i) => (List.range n).map fun a => (i, a)

/-- every element tagged with its address -/
def tagged (gs : List (List β)) : List (List ((Nat × Nat) × β)) :=
  gs.zipIdx.map fun (g, i) => g.zipIdx.map fun (x, a) => ((i, a), x)

theorem tagged_snd (gs : List (List β)) : (tagged gs).map (List.map Prod.snd) = gs := by
  simp only [tagged, List.map_map]
  have : ∀ (k : Nat) (gs : List (List β)),
      (gs.zipIdx k).map ((List.map Prod.snd) ∘ fun (p : List β × Nat) => p.1.zipIdx.map fun (x, a) => ((p.2, a), x)) = gs := by
    intro k gs
    induction gs generalizing k with
    | nil => rfl
    | cons g gs ih =>
      simp only [List.zipIdx_cons, List.map_cons, Function.comp, List.map_map, ih]
      congr 1
      have : ∀ (m : Nat) (g : List β), (g.zipIdx m).map (Prod.snd ∘ fun (x : β × Nat) => ((k, x.2), x.1)) = g := by
        intro m g
        induction g generalizing m with
        | nil => rfl
        | cons x g ih => simp [List.zipIdx_cons, ih]
      exact this 0 g
  exact this 0 gs

theorem tagged_fst (gs : List (List β)) : (tagged gs).map (List.map Prod.fst) = addrs (gs.map List.length) := by
  simp only [tagged, addrs, List.map_map]
  have : ∀ (k : Nat) (gs : List (List β)),
      (gs.zipIdx k).map ((List.map Prod.fst) ∘ fun (p : List β × Nat) => p.1.zipIdx.map fun (x, a) => ((p.2, a), x)) =
        ((gs.map List.length).zipIdx k).map fun (n, i) => (List.range n).map fun a => (i, a) := by
    intro k gs
    induction gs generalizing k with
    | nil => rfl
    | cons g gs ih =>
      simp only [List.zipIdx_cons, List.map_cons, Function.comp, List.map_map, ih]
      congr 1
      have : ∀ (m : Nat) (g : List β), (g.zipIdx m).map (Prod.fst ∘ fun (x : β × Nat) => ((k, x.2), x.1)) =
          (List.range' m g.length).map fun a => (k, a) := by
        intro m g
        induction g generalizing m with
        | nil => rfl
        | cons x g ih => simp [List.zipIdx_cons, ih, List.range'_succ]
      rw [this 0 g, List.range_eq_range']
  exact this 0 gs

theorem addrs_getElem? (sizes : List Nat) (i : Nat) :
    (addrs sizes)[i]? = sizes[i]?.map fun n => (List.range n).map fun a => (i, a) := by
  simp only [addrs, List.getElem?_map, List.getElem?_zipIdx]
  cases sizes[i]? <;> simp

theorem mem_addrs_flatten {sizes : List Nat} {p : Nat × Nat} :
    p ∈ (addrs sizes).flatten ↔ ∃ n, sizes[p.1]? = some n ∧ p.2 < n := by
  simp only [List.mem_flatten]
  constructor
  · rintro ⟨g, hg, hp⟩
    obtain ⟨i, hi, rfl⟩ := List.getElem_of_mem hg
    have := addrs_getElem? sizes i
    rw [List.getElem?_eq_getElem hi] at this
    cases hs : sizes[i]? with
    | none => rw [hs] at this; simp at this
    | some n =>
      rw [hs] at this
      simp only [Option.map_some, Option.some.injEq] at this
      rw [this] at hp
      simp only [List.mem_map, List.mem_range] at hp
      obtain ⟨a, ha, rfl⟩ := hp
      exact ⟨n, hs, ha⟩
  · rintro ⟨n, hs, hp⟩
    refine ⟨(List.range n).map fun a => (p.1, a), ?_, ?_⟩
    · apply List.mem_of_getElem? (i := p.1)
      rw [addrs_getElem?, hs]; rfl
    · simp only [List.mem_map, List.mem_range]
      exact ⟨p.2, hp, rfl⟩

theorem nodup_addrs (sizes : List Nat) : (addrs sizes).flatten.Nodup := by
  rw [List.nodup_flatten]
  constructor
  · intro g hg
    obtain ⟨i, hi, rfl⟩ := List.getElem_of_mem hg
    have := addrs_getElem? sizes i
    rw [List.getElem?_eq_getElem hi] at this
    cases hs : sizes[i]? with
    | none => rw [hs] at this; simp at this
    | some n =>
      rw [hs] at this
      simp only [Option.map_some, Option.some.injEq] at this
      rw [this]
      exact (List.nodup_range).map (fun x y hxy => by simpa using hxy)
  · rw [List.pairwise_iff_getElem]
    intro i j hi hj hij
    have e1 := addrs_getElem? sizes i
    have e2 := addrs_getElem? sizes j
    rw [List.getElem?_eq_getElem hi] at e1
    rw [List.getElem?_eq_getElem hj] at e2
    cases hs1 : sizes[i]? with
    | none => rw [hs1] at e1; simp at e1
    | some n =>
      cases hs2 : sizes[j]? with
      | none => rw [hs2] at e2; simp at e2
      | some m =>
        rw [hs1] at e1; rw [hs2] at e2
        simp only [Option.map_some, Option.some.injEq] at e1 e2
        rw [e1, e2, List.disjoint_left]
        intro p hp hq
        simp only [List.mem_map, List.mem_range] at hp hq
        obtain ⟨a, -, rfl⟩ := hp
        obtain ⟨b, -, h⟩ := hq
        have : j = i := by simpa using congrArg Prod.fst h
        omega

/-- **every unordered pair of elements of two DIFFERENT groups is produced exactly once (in one of its two orders), a pair
of elements of the same group never**, for any number of groups of any sizes -/
theorem crossPairs_addrs_count (sizes : List Nat) (p q : Nat × Nat)
    (hp : p ∈ (addrs sizes).flatten) (hq : q ∈ (addrs sizes).flatten) :
    (crossPairs (addrs sizes)).count (p, q) + (crossPairs (addrs sizes)).count (q, p) = if p.1 = q.1 then 0 else 1 := by
  have hnd := nodup_crossPairs (nodup_addrs sizes)
  have key : ∀ p q : Nat × Nat, p ∈ (addrs sizes).flatten → q ∈ (addrs sizes).flatten →
      ((p, q) ∈ crossPairs (addrs sizes) ↔ p.1 < q.1) := by
    intro p q hp hq
    obtain ⟨n, hn, hpn⟩ := mem_addrs_flatten.mp hp
    obtain ⟨m, hm, hqm⟩ := mem_addrs_flatten.mp hq
    rw [mem_crossPairs]
    constructor
    · rintro ⟨i, j, hij, g, h, hg, hh, ha, hb⟩
      rw [addrs_getElem?] at hg hh
      cases hs1 : sizes[i]? with
      | none => rw [hs1] at hg; simp at hg
      | some n' =>
        cases hs2 : sizes[j]? with
        | none => rw [hs2] at hh; simp at hh
        | some m' =>
          rw [hs1] at hg; rw [hs2] at hh
          simp only [Option.map_some, Option.some.injEq] at hg hh
          subst hg hh
          simp only [List.mem_map] at ha hb
          obtain ⟨_, -, rfl⟩ := ha
          obtain ⟨_, -, rfl⟩ := hb
          exact hij
    · intro hlt
      refine ⟨p.1, q.1, hlt, (List.range n).map fun a => (p.1, a), (List.range m).map fun a => (q.1, a), ?_, ?_, ?_, ?_⟩
      · rw [addrs_getElem?, hn]; rfl
      · rw [addrs_getElem?, hm]; rfl
      · simp only [List.mem_map, List.mem_range]; exact ⟨p.2, hpn, rfl⟩
      · simp only [List.mem_map, List.mem_range]; exact ⟨q.2, hqm, rfl⟩
  have c1 := key p q hp hq
  have c2 := key q p hq hp
  rcases Nat.lt_trichotomy p.1 q.1 with h | h | h
  · have h1 : (p, q) ∈ crossPairs (addrs sizes) := c1.mpr h
    have h2 : (q, p) ∉ crossPairs (addrs sizes) := fun hh => by have := c2.mp hh; omega
    rw [List.count_eq_one_of_mem hnd h1, List.count_eq_zero_of_not_mem h2, if_neg (by omega)]
  · have h1 : (p, q) ∉ crossPairs (addrs sizes) := fun hh => by have := c1.mp hh; omega
    have h2 : (q, p) ∉ crossPairs (addrs sizes) := fun hh => by have := c2.mp hh; omega
    rw [List.count_eq_zero_of_not_mem h1, List.count_eq_zero_of_not_mem h2, if_pos h]
  · have h1 : (p, q) ∉ crossPairs (addrs sizes) := fun hh => by have := c1.mp hh; omega
    have h2 : (q, p) ∈ crossPairs (addrs sizes) := c2.mpr h
    rw [List.count_eq_zero_of_not_mem h1, List.count_eq_one_of_mem hnd h2, if_neg (by omega)]

end JF.Output
