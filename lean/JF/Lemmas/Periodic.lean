import JF.Model.Periodic
import JF.Lemmas.PyArith
import Mathlib.Algebra.Order.Floor.Ring
import Mathlib.Data.Rat.Floor
import Mathlib.Tactic.Linarith
import Mathlib.Tactic.Ring
import Mathlib.Tactic.FieldSimp
/-!
Helper lemmas for C15: CPython's float `%` in the exact reading is the mathematical floor-mod.
-/
namespace JF.Periodic
open JF

theorem fmod_rat_nonneg {x L : ℚ} (h : 0 ≤ x / L) : Ops.rat.fmod x L = x - L * ⌊x / L⌋ := by
  simp [Ops.rat, trunc_nonneg h]

theorem fmod_rat_neg {x L : ℚ} (h : x / L < 0) : Ops.rat.fmod x L = x - L * ⌈x / L⌉ := by
  simp [Ops.rat, trunc_neg h]

/-- `x % L` of CPython (`float_rem`), read over `ℚ` with `L > 0`, is `x - L * ⌊x / L⌋`. -/
theorem pymod_rat {x L : ℚ} (hL : 0 < L) : pymod Ops.rat x L = x - L * ⌊x / L⌋ := by
  have hnL : ¬ (L < 0) := not_lt.mpr hL.le
  have hx : x = L * (x / L) := by field_simp
  unfold pymod
  simp only [rat_ofInt, rat_zeroLike, Int.cast_zero]
  rcases le_or_gt 0 (x / L) with h | h
  · rw [fmod_rat_nonneg h]
    have hm : ¬ (x - L * (⌊x / L⌋ : ℚ) < 0) := by
      have := Int.floor_le (x / L)
      have : L * (⌊x / L⌋ : ℚ) ≤ L * (x / L) := by gcongr
      rw [← hx] at this; linarith
    by_cases hz : x - L * (⌊x / L⌋ : ℚ) = 0
    · simp [hz]
    · simp [hz, hnL, hm]
  · rw [fmod_rat_neg h]
    by_cases hz : x - L * (⌈x / L⌉ : ℚ) = 0
    · have hq : x / L = ⌈x / L⌉ := by
        rw [div_eq_iff hL.ne']; linarith
      have : (⌊x / L⌋ : ℚ) = ⌈x / L⌉ := by rw [hq]; simp
      simp [hz, this]
    · have hc := Int.le_ceil (x / L)
      have hle : L * (x / L) ≤ L * (⌈x / L⌉ : ℚ) := by gcongr
      rw [← hx] at hle
      have hm : x - L * (⌈x / L⌉ : ℚ) < 0 := lt_of_le_of_ne (by linarith) hz
      have hne : x / L ≠ ⌈x / L⌉ := by
        intro hq; apply hz; rw [← hq, ← hx]; ring
      have hfl : ⌊x / L⌋ = ⌈x / L⌉ - 1 := by
        rw [Int.floor_eq_iff]; constructor
        · push_cast; linarith [Int.ceil_lt_add_one (x / L)]
        · push_cast; have := lt_of_le_of_ne hc hne; linarith
      simp [hz, hnL, hm, hfl]; ring

/-- `mapM` in the `Option` monad succeeds iff every element succeeds; the result is element-wise. -/
theorem mapM_eq_some_iff {β γ : Type} (f : β → Option γ) : ∀ (l : List β) (r : List γ),
    l.mapM f = some r ↔ r.length = l.length ∧ ∀ j (h : j < l.length) (h' : j < r.length), f l[j] = some r[j]
  | [], r => by
      simp only [List.mapM_nil, List.length_nil]
      constructor
      · intro h; cases h; simp
      · rintro ⟨h, -⟩; rw [List.length_eq_zero_iff.mp h]; rfl
  | a :: l, r => by
      rw [List.mapM_cons]
      constructor
      · intro h
        cases hfa : f a with
        | none => simp [hfa] at h
        | some b =>
          cases hl : l.mapM f with
          | none => simp [hfa, hl] at h
          | some bs =>
            simp [hfa, hl] at h
            subst h
            obtain ⟨h1, h2⟩ := (mapM_eq_some_iff f l bs).mp hl
            refine ⟨by simp [h1], ?_⟩
            intro j h h'
            cases j with
            | zero => simpa using hfa
            | succ j => simpa using h2 j (by simpa using h) (by simpa using h')
      · rintro ⟨h1, h2⟩
        cases r with
        | nil => simp at h1
        | cons b bs =>
          have hfa : f a = some b := h2 0 (by simp) (by simp)
          have hl : l.mapM f = some bs := by
            rw [mapM_eq_some_iff f l bs]
            refine ⟨by simpa using h1, ?_⟩
            intro j h h'
            exact h2 (j + 1) (by simpa using h) (by simpa using h')
          simp [hfa, hl]

/-! ### Python indexing -/

theorem pyGet_natCast {β : Type} (l : List β) (j : Nat) : pyGet l (j : Int) = l[j]? := by
  simp [pyGet]

/-- every legal Python index (`-n ≤ i < n`) into `n` copies of `a` gives `a` -/
theorem pyGet_replicate {β : Type} {n : Nat} {a : β} {i : Int} (h1 : -(n : Int) ≤ i) (h2 : i < n) :
    pyGet (List.replicate n a) i = some a := by
  unfold pyGet
  by_cases h : 0 ≤ i
  · have : i.toNat < n := by omega
    simp [h, this]
  · have h3 : (-i).toNat ≤ n := by omega
    have h4 : n - (-i).toNat < n := by omega
    simp [h, h3, h4]

/-- an illegal index is an `IndexError` -/
theorem pyGet_none {β : Type} {l : List β} {i : Int} (h : (l.length : Int) ≤ i ∨ i < -(l.length : Int)) :
    pyGet l i = none := by
  unfold pyGet
  by_cases h0 : 0 ≤ i
  · have : (l.length : Int) ≤ i := by omega
    simp [h0, this]
  · have : ¬ ((-i).toNat ≤ l.length) := by omega
    simp [h0, this]

theorem pyGet_mem {β : Type} {l : List β} {i : Int} {a : β} (h : pyGet l i = some a) : a ∈ l := by
  unfold pyGet at h
  split at h
  · exact List.mem_of_getElem? h
  · split at h
    · exact List.mem_of_getElem? h
    · cases h

/-! ### closed forms of the list functions (every scalar type) -/
section
variable {α : Type} [Sub α]

theorem sub_opt_eq_some (ref tgt : List α) (j : Nat) (v : α) :
    (do let t ← tgt[j]?; let r ← ref[j]?; pure (t - r) : Option α) = some v ↔
      ∃ (ht : j < tgt.length) (hr : j < ref.length), v = tgt[j] - ref[j] := by
  by_cases ht : j < tgt.length
  · by_cases hr : j < ref.length
    · simp [ht, hr, eq_comm]
    · simp [ht, hr]
  · simp [ht]

/-- `[target[i] - reference[i] for i in range(dimension)]` -/
theorem rawSeparation_spec (dim : Nat) (ref tgt s : List α) :
    rawSeparation dim ref tgt = some s ↔
      s.length = dim ∧ ∀ j (_ : j < dim) (hs : j < s.length),
        ∃ (ht : j < tgt.length) (hr : j < ref.length), s[j] = tgt[j] - ref[j] := by
  unfold rawSeparation
  rw [mapM_eq_some_iff]
  simp only [List.length_range, List.getElem_range, sub_opt_eq_some]

theorem rawSeparation_isSome {dim : Nat} {ref tgt : List α} (hr : dim ≤ ref.length) (ht : dim ≤ tgt.length) :
    ∃ s, rawSeparation dim ref tgt = some s := by
  refine ⟨List.ofFn (fun j : Fin dim => tgt[j.1]'(by omega) - ref[j.1]'(by omega)), ?_⟩
  rw [rawSeparation_spec]
  refine ⟨by simp, ?_⟩
  intro j hj hs
  exact ⟨by omega, by omega, by simp⟩

theorem rawSeparation_none {dim : Nat} {ref tgt : List α} (h : ref.length < dim ∨ tgt.length < dim) :
    rawSeparation dim ref tgt = none := by
  rw [Option.eq_none_iff_forall_ne_some]
  intro s hs
  rw [rawSeparation_spec] at hs
  obtain ⟨hl, hs⟩ := hs
  rcases h with h | h
  · obtain ⟨_, hr, _⟩ := hs ref.length h (by omega); omega
  · obtain ⟨ht, _, _⟩ := hs tgt.length h (by omega); omega

end

section
variable {α : Type} [Add α] [LT α] [DecidableLT α] [BEq α]

/-- closed form of the cuboid `correct_position`: entry `j` is wrapped with length `j` -/
theorem cuboid_correctPosition_eq (o : Ops α) (c : Cuboid α) (p : List α) (h : p.length ≤ c.Ls.length) :
    c.correctPosition o p = some (List.zipWith (fun x L => wrap o x L) p c.Ls) := by
  unfold Cuboid.correctPosition
  rw [mapM_eq_some_iff]
  refine ⟨by simp [h], ?_⟩
  intro j hj hj'
  simp only [List.length_zipIdx] at hj
  simp [Cuboid.correctPositionEntry, pyGet_natCast, List.getElem?_eq_getElem (show j < c.Ls.length by omega)]

theorem cuboid_correctPosition_none (o : Ops α) (c : Cuboid α) (p : List α) (h : c.Ls.length < p.length) :
    c.correctPosition o p = none := by
  rw [Option.eq_none_iff_forall_ne_some]
  intro r hr
  unfold Cuboid.correctPosition at hr
  rw [mapM_eq_some_iff] at hr
  obtain ⟨hl, hr⟩ := hr
  have := hr c.Ls.length (by simpa using h) (by simpa [hl] using h)
  simp [Cuboid.correctPositionEntry, pyGet_natCast] at this

end

section
variable {α : Type} [Add α] [Sub α] [LT α] [DecidableLT α] [BEq α]

/-- closed form of the cuboid `correct_separation` -/
theorem cuboid_correctSeparation_eq (o : Ops α) (c : Cuboid α) (s : List α) (h : s.length ≤ c.Ls.length)
    (h' : s.length ≤ c.halves.length) :
    c.correctSeparation o s = some (List.zipWith (fun x Lh => wrapSep o x Lh.1 Lh.2) s (c.Ls.zip c.halves)) := by
  unfold Cuboid.correctSeparation
  rw [mapM_eq_some_iff]
  refine ⟨by simp [h, h'], ?_⟩
  intro j hj hj'
  simp only [List.length_zipIdx] at hj
  simp [Cuboid.correctSeparationEntry, pyGet_natCast, List.getElem?_eq_getElem (show j < c.Ls.length by omega),
    List.getElem?_eq_getElem (show j < c.halves.length by omega)]

theorem cuboid_correctSeparation_none (o : Ops α) (c : Cuboid α) (s : List α)
    (h : c.Ls.length < s.length ∨ c.halves.length < s.length) :
    c.correctSeparation o s = none := by
  rw [Option.eq_none_iff_forall_ne_some]
  intro r hr
  unfold Cuboid.correctSeparation at hr
  rw [mapM_eq_some_iff] at hr
  obtain ⟨hl, hr⟩ := hr
  rcases h with h | h
  · have := hr c.Ls.length (by simpa using h) (by simpa [hl] using h)
    simp [Cuboid.correctSeparationEntry, pyGet_natCast] at this
  · have := hr c.halves.length (by simpa using h) (by simpa [hl] using h)
    simp [Cuboid.correctSeparationEntry, pyGet_natCast] at this

end
end JF.Periodic
