import JF.Lemmas.C09PoolsWorlds
import JF.Lemmas.C09PoolsRun
/-!
E40 / C09, last clause — the per-configuration data (`PoolCfg`, generated into `JF/Gen/Pools.lean` by `harness/translate_pools.py`)
and the decidable obligation "pool ≥ demand bound for every tagger" (`shortfalls pc = []`).
-/
namespace JF.C09Pools
open JF JF.Act JF.CellTaggers

/-- one internal state (`SingleActiveCellOccupancy`) of a configuration -/
structure OccData where
  /-- `cell_level` -/
  level : Nat
  /-- `cells_per_side` (completed to the dimension as `CuboidCells.__init__` does) and `neighbor_layers` -/
  grid : Grid
  /-- `maximum_number_occupants` (`≤ 0`: not bounded) -/
  cap : Int
  /-- number of units on the cell level that pass the charge filter (`_is_relevant_unit`): from `number_of_root_nodes`, the node
  creator's nodes per root node and the `charge_values` of the charge the occupancy filters by -/
  nRel : Nat
deriving Repr

/-- what the demand bounds of a shipped configuration depend on -/
structure PoolCfg where
  /-- the wiring (`JF/Gen/Wirings.lean`), with the shipped pool sizes -/
  w : Wiring
  /-- `number_of_root_nodes` (`[RandomInputHandler]`) or the number of residues of the PDB file -/
  nRoots : Nat
  /-- `setting.number_of_nodes_per_root_node` (atom 1, dipole 2, water 3; atoms per residue of the PDB file) -/
  nPer : Nat
  /-- base name of `[FactorTypeMaps] filename`, a key of `FactorMaps.shipped` (`""`: none) -/
  factorFile : String
  /-- per tagger: `to_camel_case(factor_type_maps_label or tag)` for `FactorTypeMapInStateTagger`s, `""` otherwise -/
  ftype : List String
  /-- per tagger: the states it is asked on (`Sel`: 0 leaf mode, 1 root mode, 2 both) — from the handler class
  (`JF/Gen/ModeWirings.lean`: `leafUnit` ↦ 0, `rootUnit` ↦ 1, anything else ↦ 2) -/
  sel : List Nat
  /-- one entry per internal state, in the order of `Wiring.labels` -/
  occs : List OccData
deriving Repr

def PoolCfg.lines (pc : PoolCfg) : List FactorMaps.Line :=
  match FactorMaps.shipped.lookup pc.factorFile with
  | some p => p.2
  | none => []

/-- `FactorTypeMaps._factors` of the configuration (`[]` if the file is rejected: then every factor tagger falls back on the
all-pairs map, as `FactorMaps.yieldFactor` models) -/
def PoolCfg.fs (pc : PoolCfg) : FactorMaps.Factors :=
  match FactorMaps.instantiate ⟨pc.nRoots, pc.nPer⟩ pc.lines [] with
  | .ok fs => fs
  | .error _ => []

def PoolCfg.occOf (pc : PoolCfg) (T : TaggerIdx) : Option OccData := (pc.w.tagger T).label.bind (pc.occs[·]?)

def PoolCfg.ftypeOf (pc : PoolCfg) (T : TaggerIdx) : String := (pc.ftype[T]?).getD ""
def PoolCfg.selOf (pc : PoolCfg) (T : TaggerIdx) : Sel := (pc.sel[T]?).getD 2

/-- **the demand bound of tagger `T`** (number of in-states it can yield at once, under the one-chain invariant and the occupancy
invariant) -/
def demandBound (pc : PoolCfg) (T : TaggerIdx) : Nat :=
  match (pc.w.tagger T).cls with
  | .noInState | .activeGlobalState | .activeRootUnit | .cellBoundary | .cellVeto => 1
  | .factorTypeMap =>
    if pc.nPer == 1 then pc.nRoots - 1
    else demandMax (pc.selOf T) pc.nRoots pc.nPer pc.fs (pc.ftypeOf T) .factorTypeMap
  | .excludedCells => match pc.occOf T with | some o => excludedBound o.grid o.cap o.nRel | none => 0
  | .cellBounding => match pc.occOf T with | some o => boundingBound o.grid o.nRel | none => 0
  | .surplusCells => match pc.occOf T with | some o => surplusBound o.nRel | none => 0
  | .unknown => 0

/-- the taggers whose shipped pool is smaller than the bound: (tagger index, pool, bound) -/
def shortfalls (pc : PoolCfg) : List (TaggerIdx × Nat × Nat) :=
  (List.range pc.w.n).filterMap fun T =>
    if (pc.w.tagger T).pool < demandBound pc T then some (T, (pc.w.tagger T).pool, demandBound pc T) else none

theorem pool_ge_of_no_shortfall {pc : PoolCfg} (h : shortfalls pc = []) {T : TaggerIdx} (hT : T < pc.w.n) :
    demandBound pc T ≤ (pc.w.tagger T).pool := by
  by_cases hlt : (pc.w.tagger T).pool < demandBound pc T
  · exfalso
    have : (T, (pc.w.tagger T).pool, demandBound pc T) ∈ shortfalls pc := by
      unfold shortfalls
      refine List.mem_filterMap.mpr ⟨T, List.mem_range.mpr hT, ?_⟩
      simp [hlt]
    rw [h] at this; cases this
  · omega

/-- **from the per-configuration obligation to "no pool is ever exhausted"**: if every tagger's yield respects `demandBound` on
the states `I` a run visits and no tagger's pool falls short of its bound, the configuration's demand is bounded by its pools —
`no_pool_exhausted` then excludes `TagActivatorError` on every attempt of every run -/
theorem demandBounded_of_no_shortfall {G : Type} (pc : PoolCfg) (W : World G) (I : G → Prop)
    (hy : ∀ g, I g → ∀ T, T < pc.w.n → (W.yieldOf T g).length ≤ demandBound pc T) (ok : shortfalls pc = []) :
    DemandBounded pc.w W I :=
  fun g hg T hT => Nat.le_trans (hy g hg T hT) (pool_ge_of_no_shortfall ok hT)

end JF.C09Pools
